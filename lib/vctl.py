import sys, os, json, subprocess, time, re, hashlib, shutil, random, resource, argparse, copy, glob

VERIF = os.path.abspath(os.path.join(os.path.dirname(os.path.abspath(__file__)), '..'))
REPO = os.environ.get('VERIF_REPO', '/repo')
GOROOT = '/opt/veriftools/go1.26.8'
GO = os.path.join(GOROOT, 'bin', 'go')
NCPU = int(os.environ.get('VERIF_WORKERS', os.cpu_count() or 4))

from registry import SIMS, PROPS


class Infra(Exception):
    pass


def log(*a):
    print(*a, file=sys.stderr, flush=True)


def goenv():
    e = dict(os.environ)
    e.update({'GOFLAGS': '-mod=mod', 'GOPROXY': 'off', 'GOSUMDB': 'off', 'GOTOOLCHAIN': 'local',
              'GOROOT': GOROOT, 'PATH': os.path.join(GOROOT, 'bin') + ':' + e.get('PATH', ''), 'CGO_ENABLED': '0'})
    e.pop('GOMAXPROCS', None)
    return e


# ------------------------------------------------------------------ overlay + build

RT_EDITS = [
    # per-process random hash keys make the iteration order of maps with 8 or more entries differ from process to
    # process (the per-map seed alone is not enough): constant keys in simulation builds
    ('alg.go', '\tfor i := range key {\n\t\tkey[i] = bootstrapRand()\n\t}\n', '\tfor i := range key {\n\t\tkey[i] = 0x9e3779b97f4a7c15 * uint64(i+1) // verif: constant instead of bootstrapRand()\n\t}\n'),
    ('alg.go', '\tfor i := range hashkey {\n\t\thashkey[i] = uintptr(bootstrapRand())\n\t}\n', '\tfor i := range hashkey {\n\t\thashkey[i] = uintptr(0x9e3779b97f4a7c15 * uint64(i+1)) // verif: constant\n\t}\n'),
    ('select.go', '\t\tj := cheaprandn(uint32(norder + 1))\n', '\t\tj := simSelectRandn(uint32(norder + 1))\n'),
    ('time.go', '\t\t\tt.rand = cheaprand()\n', '\t\t\tt.rand = simTimerRand()\n'),
    ('rand.go', 'func maps_rand() uint64 {\n\treturn rand()\n}', 'func maps_rand() uint64 {\n\tif simOn {\n\t\treturn simMix(&simMapState)\n\t}\n\treturn rand()\n}'),
    ('proc.go', '\t\t} else if pd.schedwhen+forcePreemptNS <= now {\n\t\t\tpreemptone(pp)\n',
     '\t\t} else if pd.schedwhen+forcePreemptNS <= now {\n\t\t\tif !simOn {\n\t\t\t\tpreemptone(pp)\n\t\t\t}\n'),
    ('proc.go', '\tif randomizeScheduler && next && randn(2) == 0 {\n\t\tnext = false\n\t}\n',
     '\tif randomizeScheduler && next && randn(2) == 0 {\n\t\tnext = false\n\t}\n\tif simSchedOn && next && simSchedFlip() {\n\t\tnext = false\n\t}\n'),
]


def gen_runtime_overlay(bdir):
    """Patched copies of five runtime files; every edit site must match exactly once."""
    rt = os.path.join(bdir, 'rt')
    os.makedirs(rt, exist_ok=True)
    src = os.path.join(GOROOT, 'src', 'runtime')
    files = {}
    for fn, old, new in RT_EDITS:
        if fn not in files:
            files[fn] = open(os.path.join(src, fn)).read()
        if files[fn].count(old) != 1:
            raise Infra('runtime overlay: edit site in %s matches %d times (toolchain changed?)' % (fn, files[fn].count(old)))
        files[fn] = files[fn].replace(old, new)
    rep = {}
    for fn, txt in files.items():
        p = os.path.join(rt, fn)
        write_if_changed(p, txt)
        rep[os.path.join(src, fn)] = p
    p = os.path.join(rt, 'zz_sim.go')
    write_if_changed(p, open(os.path.join(VERIF, 'rt', 'zz_sim.go')).read())
    rep[os.path.join(src, 'zz_sim.go')] = p
    return rep


def write_if_changed(path, txt):
    try:
        if open(path).read() == txt:
            return
    except OSError:
        pass
    tmp = path + '.tmp%d' % os.getpid()
    with open(tmp, 'w') as f:
        f.write(txt)
    os.replace(tmp, path)


def pkg_name_of(dirpath):
    for fn in sorted(os.listdir(dirpath)):
        if fn.endswith('.go') and not fn.endswith('_test.go'):
            for line in open(os.path.join(dirpath, fn)):
                m = re.match(r'^package\s+(\w+)', line)
                if m:
                    return m.group(1)
    raise Infra('no package clause found in ' + dirpath)


ALWAYS = [('internal__monotime', 'zz_verif_start.go'), ('root', 'zz_verif_tables.go'), ('internal__protocol', 'zz_verif_vnrand.go')]


def gen_overlay(bdir, sims):
    """Overlay = runtime patches + kernel copies + the files of the requested sims only
    (so that a half-written sim of the same package cannot break another one's build)."""
    rep = gen_runtime_overlay(bdir)
    tmpl = open(os.path.join(VERIF, 'kernel', 'simk.go.tmpl')).read()
    gen = os.path.join(bdir, 'gen')
    inroot = os.path.join(VERIF, 'inpkg')
    want = list(ALWAYS)
    for sim in sims:
        d = SIMS[sim]
        if d['pkg'] != 'world':
            for fn in d['files']:
                want.append((d['pkg'], fn))
    pkgs = set()
    for d, fn in want:
        rel = '' if d == 'root' else d.replace('__', '/')
        target = os.path.join(REPO, rel)
        if not os.path.isdir(target):
            raise Infra('package dir missing in repo: ' + target)
        src = os.path.join(inroot, d, fn)
        if not os.path.exists(src):
            raise Infra('sim file missing: ' + src)
        rep[os.path.join(target, fn)] = src
        if fn.endswith('_test.go'):
            pkgs.add((d, target))
    for d, target in pkgs:
        pk = pkg_name_of(target)
        gd = os.path.join(gen, d)
        os.makedirs(gd, exist_ok=True)
        kp = os.path.join(gd, 'zz_simk_test.go')
        write_if_changed(kp, tmpl.replace('package PKGNAME', 'package ' + pk, 1))
        rep[os.path.join(target, 'zz_simk_test.go')] = kp
    # world module
    gd = os.path.join(gen, 'verifsim')
    os.makedirs(gd, exist_ok=True)
    kp = os.path.join(gd, 'zz_simk_test.go')
    write_if_changed(kp, tmpl.replace('package PKGNAME', 'package verifsim', 1))
    rep[os.path.join(VERIF, 'sim', 'zz_simk_test.go')] = kp
    # optional mutant overlay (sensitivity tests): JSON {"Replace": {...}}
    mo = os.environ.get('VERIF_MUTANT_OVERLAY')
    if mo:
        rep.update(json.load(open(mo))['Replace'])
    ov = os.path.join(bdir, 'overlay.json')
    write_if_changed(ov, json.dumps({'Replace': rep}, indent=1, sort_keys=True))
    return ov


def build_binary(bdir, ov, pkgkey, tags=()):
    """pkgkey: 'world' or an inpkg dir name. Returns path of the test binary."""
    os.makedirs(os.path.join(bdir, 'bin'), exist_ok=True)
    out = os.path.join(bdir, 'bin', pkgkey + '.test')
    env = goenv()
    if pkgkey == 'world':
        cwd = os.path.join(VERIF, 'sim')
        # world workloads under development carry a build tag of their own, so that a half-written file of one
        # workload cannot break the build of another; a check builds with the tags of the sims it runs
        cmd = [GO, 'test', '-c', '-vet=off', '-tags', ','.join(sorted(tags)) or 'none', '-overlay', ov, '-o', out, '.']
    else:
        rel = '' if pkgkey == 'root' else pkgkey.replace('__', '/')
        cwd = os.path.join(REPO, rel)
        # never let the go command write into /repo: private copies of go.mod / go.sum
        mf = os.path.join(bdir, 'repo.go.mod')
        shutil.copyfile(os.path.join(REPO, 'go.mod'), mf)
        shutil.copyfile(os.path.join(REPO, 'go.sum'), os.path.join(bdir, 'repo.go.sum'))
        cmd = [GO, 'test', '-c', '-vet=off', '-modfile', mf, '-overlay', ov, '-o', out, '.']
    t0 = time.time()
    p = subprocess.run(cmd, cwd=cwd, env=env, stdout=subprocess.PIPE, stderr=subprocess.STDOUT, text=True)
    if p.returncode != 0 or not os.path.exists(out):
        raise Infra('build of %s failed:\n%s' % (pkgkey, p.stdout[-4000:]))
    log('[build] %s %.1fs' % (pkgkey, time.time() - t0))
    return out


class Builder:
    def __init__(self, tag, sims):
        self.bdir = os.path.join(VERIF, '.build', tag + os.environ.get('VERIF_BUILD_TAG', ''))
        os.makedirs(self.bdir, exist_ok=True)
        self.ov = gen_overlay(self.bdir, sims)
        self.bins = {}
        self.tags = sorted(set(SIMS[x]['tag'] for x in sims if SIMS[x].get('tag')))

    def binary(self, sim):
        key = SIMS[sim]['pkg']
        if key not in self.bins:
            self.bins[key] = build_binary(self.bdir, self.ov, key, self.tags)
        return self.bins[key]

    def scratch(self, name):
        d = os.path.join(self.bdir, 'work', name)
        shutil.rmtree(d, ignore_errors=True)
        os.makedirs(d)
        return d


# ------------------------------------------------------------------ workers

def worker_env(sim, extra):
    e = dict(os.environ)
    for k in list(e):
        if k.startswith('VERIF_') and k not in ('VERIF_REPO',):
            del e[k]
    e.update({'GOMAXPROCS': '1', 'GOGC': 'off', 'GODEBUG': 'randseednop=0', 'VERIF_SIM': sim, 'GOTRACEBACK': 'all'})
    e.update({k: str(v) for k, v in extra.items()})
    return e


def _limits():
    try:
        resource.setrlimit(resource.RLIMIT_AS, (24 << 30, 24 << 30))
        resource.setrlimit(resource.RLIMIT_CORE, (0, 0))
    except Exception:
        pass


def spawn(binary, sim, extra, errpath):
    errf = open(errpath, 'wb')
    return subprocess.Popen([binary, '-test.run', '^' + SIMS[sim]['test'] + '$', '-test.timeout', '0', '-test.count', '1'],
                            env=worker_env(sim, extra), stdout=errf, stderr=subprocess.STDOUT, preexec_fn=_limits,
                            cwd=os.path.dirname(binary))


def read_jsonl(path):
    out = []
    try:
        with open(path) as f:
            for line in f:
                line = line.strip()
                if line:
                    try:
                        out.append(json.loads(line))
                    except ValueError:
                        pass  # torn last line of a crashed worker
    except OSError:
        pass
    return out


def run_search(b, sim, seed, tier, budget_s, mode='search', nworkers=None, count=None, traces=False, extra_env=None):
    """Fan a search out to worker processes. A worker that dies (a panic in a goroutine of the library kills the
    process) is recorded as a crash and restarted behind the run that killed it. Returns merged summary, violations, crashes."""
    binary = b.binary(sim)
    nworkers = nworkers or NCPU
    wd = b.scratch('%s-%s' % (sim, mode))
    t_end = time.time() + budget_s
    # watchdog: workers stop by themselves when the budget is used up (they look at the clock between runs); one that is
    # still busy with a single run long after that is stuck (e.g. a loop in the code under test that never ends)
    hard = t_end + max(120.0, 0.5 * budget_s)

    def start(w, gen, start_idx):
        left = max(0.0, t_end - time.time())
        extra = {'VERIF_MODE': mode, 'VERIF_SEED': seed, 'VERIF_WORKER': w, 'VERIF_NWORKERS': nworkers, 'VERIF_TIER': tier,
                 'VERIF_BUDGET_MS': int(left * 1000), 'VERIF_OUT': os.path.join(wd, 'out.%d.%d' % (w, gen)), 'VERIF_START_IDX': start_idx}
        if count is not None:
            extra['VERIF_COUNT'] = count
        if traces:
            extra['VERIF_TRACES'] = 1
        if extra_env:
            extra.update(extra_env)
        return spawn(binary, sim, extra, os.path.join(wd, 'err.%d.%d' % (w, gen)))

    live = {w: (0, start(w, 0, int(os.environ.get('VERIF_FROM_IDX') or 0))) for w in range(nworkers)}
    files = [(w, 0) for w in range(nworkers)]
    crashes = []
    while live:
        time.sleep(0.05)
        for w, (gen, p) in list(live.items()):
            rc = p.poll()
            hung = False
            if rc is None:
                if time.time() < hard:
                    continue
                p.kill()
                p.wait()
                rc, hung = -9, True
            del live[w]
            recs = read_jsonl(os.path.join(wd, 'out.%d.%d' % (w, gen)))
            done = any(r.get('t') == 'summary' for r in recs)
            if done and rc == 0:
                continue
            begins = [r for r in recs if r.get('t') == 'B']
            err = ''
            try:
                err = open(os.path.join(wd, 'err.%d.%d' % (w, gen)), errors='replace').read()
            except OSError:
                pass
            crashes.append({'worker': w, 'last': begins[-1] if begins else None, 'stderr': err, 'hung': hung, 'rc': rc, 'done': len(begins)})
            # restart behind the run that killed the process
            if begins and not hung and time.time() < t_end - 1 and len(crashes) < 400:
                nxt = begins[-1]['idx'] + nworkers
                live[w] = (gen + 1, start(w, gen + 1, nxt))
                files.append((w, gen + 1))
    merged = {'evaluations': 0, 'nontrivial': 0, 'violations': 0, 'blocked': 0, 'events': 0, 'sim_ns': 0, 'shapes': set(),
              'probes': {}, 'faults': {}, 'blocked_by': {}, 'notes': {}, 'sigs': {}, 'samples': [], 'wall_ms': 0, 'exhausted': True}
    viols, runs = [], {}
    for w, gen in files:
        recs = read_jsonl(os.path.join(wd, 'out.%d.%d' % (w, gen)))
        summ = [r for r in recs if r.get('t') in ('summary', 'partial')]
        for r in recs:
            if r.get('t') == 'viol':
                viols.append(r)
            elif r.get('t') == 'run':
                runs[r['idx']] = (r['trace'], r.get('sig', ''))
        if summ:
            s = summ[-1]
            for k in ('evaluations', 'nontrivial', 'violations', 'blocked', 'events', 'sim_ns'):
                merged[k] += s.get(k, 0)
            merged['shapes'].update(s.get('shapes', []))
            for k in ('probes', 'faults', 'blocked_by', 'notes', 'sigs'):
                for kk, vv in (s.get(k) or {}).items():
                    merged[k][kk] = merged[k].get(kk, 0) + vv
            if len(merged['samples']) < 6:
                merged['samples'].extend(s.get('samples', [])[:2])
            merged['wall_ms'] = max(merged['wall_ms'], s.get('wall_ms', 0))
            if s.get('t') != 'summary' or not s.get('exhausted', False):
                merged['exhausted'] = False
        else:
            merged['exhausted'] = False
    merged['runs'] = runs
    return merged, viols, crashes


def run_replay(b, sim, scenarios, verbose=False, timeout=600, parallel=None, env=None):
    """Execute explicit scenarios (list) in fresh worker processes; returns list of result dicts (None = crashed)."""
    binary = b.binary(sim)
    wd = b.scratch('%s-replay-%d' % (sim, os.getpid()))
    n = len(scenarios)
    parallel = min(parallel or NCPU, n) or 1
    chunks = [[] for _ in range(parallel)]
    for i, sc in enumerate(scenarios):
        chunks[i % parallel].append((i, sc))
    procs = []
    for w, ch in enumerate(chunks):
        sp = os.path.join(wd, 'sc.%d' % w)
        with open(sp, 'w') as f:
            for i, sc in ch:
                f.write(json.dumps({'id': i, 'scenario': sc}) + '\n')
        extra = {'VERIF_MODE': 'replay', 'VERIF_SCENARIOS': sp, 'VERIF_OUT': os.path.join(wd, 'out.%d' % w)}
        if verbose:
            extra['VERIF_VERBOSE'] = 1
        if env:
            extra.update(env)
        procs.append((w, spawn(binary, sim, extra, os.path.join(wd, 'err.%d' % w))))
    results = [None] * n
    deadline = time.time() + timeout
    for w, p in procs:
        hung = False
        try:
            p.wait(timeout=max(1, deadline - time.time()))
        except subprocess.TimeoutExpired:
            p.kill()
            p.wait()
            hung = True
        if os.environ.get('VERIF_SHOW_STDERR'):
            try:
                sys.stdout.write(open(os.path.join(wd, 'err.%d' % w), errors='replace').read()[-20000:])
            except OSError:
                pass
        recs = read_jsonl(os.path.join(wd, 'out.%d' % w))
        done = set()
        for r in recs:
            if r.get('t') == 'replay':
                results[r['id']] = r
                done.add(r['id'])
        begun = [r['id'] for r in recs if r.get('t') == 'B']
        if begun and begun[-1] not in done:
            err = open(os.path.join(wd, 'err.%d' % w), errors='replace').read()
            results[begun[-1]] = {'t': 'crash', 'id': begun[-1], 'sig': crash_sig(err, hung), 'detail': crash_detail(err), 'trace': '0'}
            # scenarios after the crashed one were not executed: run them separately
            rest = [(i, sc) for i, sc in chunks[w] if i not in done and i != begun[-1]]
            if rest:
                sub = run_replay(b, sim, [sc for _, sc in rest], verbose, timeout, 1, env)
                for (i, _), r in zip(rest, sub):
                    if r is not None:
                        r['id'] = i
                    results[i] = r
    shutil.rmtree(wd, ignore_errors=True)
    return results


def crash_detail(stderr):
    """The panic message and the stack of the panicking goroutine."""
    lines = stderr.splitlines()
    for i, l in enumerate(lines):
        if l.startswith('panic: ') or l.startswith('fatal error: '):
            out = []
            for l2 in lines[i:i + 60]:
                out.append(l2)
                if len(out) > 3 and l2.startswith('goroutine ') and not out[-2].strip() and sum(1 for x in out if x.startswith('goroutine ')) > 1:
                    out.pop()
                    break
            return '\n'.join(out)
    return stderr[-3000:]


def crash_sig(stderr, hung=False):
    if hung:
        return 'hang: run did not finish within the watchdog limit'
    for line in stderr.splitlines():
        if line.startswith('panic: ') or line.startswith('fatal error: '):
            s = re.sub(r'0x[0-9a-f]+', '#', line.strip())
            s = re.sub(r'\d+', '#', s)
            return 'crash: ' + s[:160]
    m = re.search(r'\[signal SIG\w+', stderr)
    if m:
        return 'crash: ' + m.group(0)
    return 'crash: worker died (' + (stderr.strip().splitlines()[-1][:100] if stderr.strip() else 'no output') + ')'


def gen_scenario(b, sim, run_seed, tier):
    binary = b.binary(sim)
    wd = b.scratch('%s-gen-%d' % (sim, os.getpid()))
    out = os.path.join(wd, 'out')
    p = spawn(binary, sim, {'VERIF_MODE': 'gen', 'VERIF_RUNSEED': run_seed, 'VERIF_TIER': tier, 'VERIF_OUT': out}, os.path.join(wd, 'err'))
    p.wait(timeout=120)
    recs = [r for r in read_jsonl(out) if r.get('t') == 'gen']
    if not recs:
        raise Infra('gen failed for %s seed %s: %s' % (sim, run_seed, open(os.path.join(wd, 'err'), errors='replace').read()[-2000:]))
    return recs[0]['scenario']


# ------------------------------------------------------------------ shrinking

SHRINK_LISTS = ['faults', 'inject', 'ops', 'actors', 'streams', 'reqs', 'segs', 'events']


def shrink(b, sim, scenario, sig, budget=400, env=None):
    """Delta debugging over the scenario's lists while the same signature persists."""
    tried = [0]
    best = scenario
    # shrinking is a convenience: it stops when its wall-clock allowance is used up (slow scenarios - seconds of CPU per
    # execution - would otherwise keep a check busy for an hour) and the smallest reproducing scenario so far is kept
    wall_end = time.time() + float(os.environ.get('VERIF_SHRINK_WALL_S', '240'))

    def test_many(cands):
        left = wall_end - time.time()
        if left <= 5:
            tried[0] = budget
            return [False] * len(cands)
        tried[0] += len(cands)
        rs = run_replay(b, sim, cands, timeout=min(900, left + 30), env=env)
        return [r is not None and r.get('sig') == sig for r in rs]

    for key in SHRINK_LISTS:
        if not isinstance(best.get(key), list) or len(best[key]) == 0:
            continue
        items = best[key]
        n = 2
        while len(items) >= 1 and tried[0] < budget:
            chunk = max(1, len(items) // n)
            cands, metas = [], []
            for i in range(0, len(items), chunk):
                rest = items[:i] + items[i + chunk:]
                c = copy.deepcopy(best)
                c[key] = rest
                cands.append(c)
                metas.append(rest)
            oks = test_many(cands)
            hit = None
            for ok, rest in zip(oks, metas):
                if ok:
                    hit = rest
                    break
            if hit is not None:
                items = hit
                best = copy.deepcopy(best)
                best[key] = items
                n = max(n - 1, 2)
                if len(items) == 0:
                    break
            else:
                if chunk == 1:
                    break
                n = min(n * 2, len(items))
    # numeric knobs toward simpler values
    for key, simple in (best.get('shrink_ints') or {}).items():
        if tried[0] >= budget:
            break
        if key in best and best[key] != simple:
            c = copy.deepcopy(best)
            c[key] = simple
            if test_many([c])[0]:
                best = c
    return best, tried[0]


# ------------------------------------------------------------------ known findings

def load_known():
    p = os.path.join(VERIF, 'known_findings.json')
    try:
        return json.load(open(p))
    except OSError:
        return []


def match_known(prop, sig, scenario, detail=''):
    for k in load_known():
        if k.get('property') != prop or k.get('status') != 'known':
            continue
        if re.search(k['signature'], sig):
            sm = k.get('scenario_match')
            if sm and not re.search(sm, json.dumps(scenario, sort_keys=True)):
                continue
            dm = k.get('detail_match')
            if dm and not re.search(dm, detail or ''):
                continue
            return k
    return None


# ------------------------------------------------------------------ check

def classify_known(prop, sig, scenario, detail=''):
    """id of the known finding (of this property, else of another property) a raw violation record matches, or None"""
    k = match_known(prop, sig, scenario, detail)
    if k:
        return k['id']
    for kk in load_known():
        if kk.get('status') == 'known' and kk.get('property') != prop and match_known(kk['property'], sig, scenario, detail):
            return kk['id']
    return None


def tree_desc():
    try:
        h = subprocess.run(['git', '-C', REPO, 'rev-parse', 'HEAD'], stdout=subprocess.PIPE, text=True).stdout.strip()
        d = subprocess.run(['git', '-C', REPO, 'status', '--porcelain'], stdout=subprocess.PIPE, text=True).stdout.strip()
        return {'head': h, 'dirty': bool(d)}
    except Exception:
        return {}


def write_replay(prop, sim, sig, detail, scenario, trace, seed, shrunk_from=None, env=None):
    d = os.path.join(VERIF, 'replays')
    os.makedirs(d, exist_ok=True)
    body = {'property': prop, 'sim': sim, 'signature': sig, 'detail': detail, 'trace': trace, 'scenario': scenario,
            'verif_seed': seed, 'tree': tree_desc(), 'shrunk_from': shrunk_from, 'env': env or {},
            'replay_cmd': 'bin/verifctl replay <this file>'}
    h = hashlib.sha256(json.dumps([sig, scenario], sort_keys=True).encode()).hexdigest()[:10]
    p = os.path.join(d, '%s-%s-%s.json' % (prop, seed, h))
    with open(p, 'w') as f:
        json.dump(body, f, indent=1)
    return p


def confirm_and_minimise(b, prop, sim, sig, scenario, seed, do_shrink=True, env=None):
    """Re-execute in a fresh process; shrink; return (sig, replay path) or None when not reproducible."""
    is_hang = sig.startswith('hang:')
    if is_hang:
        do_shrink = False   # every attempt costs a full watchdog period
    r = run_replay(b, sim, [scenario], env=env, timeout=150 if is_hang else 600)[0]
    if r is None or r.get('sig') != sig:
        got = None if r is None else r.get('sig')
        # a crash is reported by the worker's death, its signature comes from the replay
        if r is not None and r.get('t') == 'crash' and sig.startswith('crash'):
            sig = r['sig']
        else:
            log('[confirm] signature did not reproduce in a fresh process: expected %r got %r' % (sig, got))
            return None
    size0 = sum(len(scenario.get(k) or []) for k in SHRINK_LISTS if isinstance(scenario.get(k), list))
    small, tried = scenario, 0
    if do_shrink:
        small, tried = shrink(b, sim, scenario, sig, budget=int(os.environ.get('VERIF_SHRINK_BUDGET', '300')), env=env)
    size1 = sum(len(small.get(k) or []) for k in SHRINK_LISTS if isinstance(small.get(k), list))
    r2 = r if is_hang else run_replay(b, sim, [small], env=env)[0]
    if r2 is None or r2.get('sig') != sig:
        small, r2 = scenario, r
    path = write_replay(prop, sim, sig, r2.get('detail', ''), small, r2.get('trace'), seed,
                        {'list_items_before': size0, 'after': size1, 'executions': tried}, env=env)
    return sig, path, r2.get('detail', '')


def check(prop, tier, seed):
    t0 = time.time()
    spec = PROPS[prop]
    b = Builder(prop, [p['sim'] for p in spec['parts']])
    budget = float(os.environ.get('VERIF_BUDGET_S', spec['budget'][tier]))
    parts = spec['parts']
    total_share = sum(p.get('share', 1) for p in parts)
    agg = {'evaluations': 0, 'nontrivial': 0, 'events': 0, 'sim_ns': 0, 'shapes': 0, 'blocked': 0, 'probes': {}, 'faults': {},
           'blocked_by': {}, 'notes': {}, 'samples': [], 'engines': [], 'exhaustive_parts': []}
    findings = {}   # sig -> (sim, scenario, detail)
    infra = []
    for part in parts:
        sim = part['sim']
        mode = part.get('mode', 'search')
        pb = budget * part.get('share', 1) / total_share
        try:
            merged, viols, crashes = run_search(b, sim, seed, tier, pb, mode=mode, extra_env=part.get('env'))
        except Infra as e:
            infra.append(str(e))
            log('[infra] ' + str(e))
            continue
        nshapes = len(merged['shapes'])
        for k in ('evaluations', 'nontrivial', 'events', 'sim_ns', 'blocked'):
            agg[k] += merged[k]
        agg['shapes'] += nshapes
        for k in ('probes', 'faults', 'blocked_by', 'notes'):
            for kk, vv in merged[k].items():
                agg[k][sim + ':' + kk if k != 'blocked_by' else kk] = agg[k].get(sim + ':' + kk if k != 'blocked_by' else kk, 0) + vv
        for s in merged['samples'][:3]:
            s['engine'] = sim
            agg['samples'].append(s)
        agg['engines'].append({'sim': sim, 'mode': mode, 'evaluations': merged['evaluations'], 'nontrivial': merged['nontrivial'],
                               'distinct_shapes': nshapes, 'wall_ms': merged['wall_ms'], 'exhausted': merged['exhausted'] if mode == 'sweep' else None})
        if mode == 'sweep' and merged['exhausted']:
            agg['exhaustive_parts'].append(sim)
        log('[%s] %s/%s: %d runs, %d nontrivial, %d shapes, %d violating, %d crashed workers, %.1fs' %
            (prop, sim, mode, merged['evaluations'], merged['nontrivial'], nshapes, len(viols), len(crashes), merged['wall_ms'] / 1000))
        for v in viols:
            # one candidate per (signature, known finding it matches or none): a known finding must not hide a different
            # violation that happens to carry the same signature
            k0 = classify_known(prop, v['sig'], v['scenario'], v.get('detail', ''))
            key = (v['sig'], k0)
            if key not in findings:
                findings[key] = (sim, v['scenario'], v.get('detail', ''), part.get('env'))
        for c in crashes:
            if c['last'] is None:
                infra.append('worker %d of %s died before its first run: %s' % (c['worker'], sim, c['stderr'][-1500:]))
                continue
            try:
                if mode == 'sweep':
                    infra.append('worker crashed in sweep mode at index %s' % c['last'].get('idx'))
                    continue
                sc = gen_scenario(b, sim, c['last']['seed'], tier)
            except Infra as e:
                infra.append(str(e))
                continue
            sig = crash_sig(c['stderr'], c['hung'])
            key = (sig, classify_known(prop, sig, sc, crash_detail(c['stderr'])))
            if key not in findings:
                findings[key] = (sim, sc, crash_detail(c['stderr']), part.get('env'))
    # confirm, shrink, classify
    violations, known = [], []
    for (sig, k0), (sim, sc, detail, fenv) in findings.items():
        try:
            res = confirm_and_minimise(b, prop, sim, sig, sc, seed, env=fenv)
            if res is not None and k0 is None:
                # shrinking must not turn an unlisted violation into a listed one
                scn1 = json.load(open(res[1]))['scenario']
                if classify_known(prop, res[0], scn1, res[2]) is not None:
                    res = confirm_and_minimise(b, prop, sim, sig, sc, seed, do_shrink=False, env=fenv)
        except Infra as e:
            infra.append(str(e))
            continue
        if res is None:
            infra.append('a reported violation (%s) did not reproduce in a fresh process - harness determinism problem' % sig)
            continue
        sig2, path, det = res
        scn = json.load(open(path))['scenario']
        k = match_known(prop, sig2, scn, det)
        if k:
            known.append((k, sig2, path))
            continue
        # a known finding of ANOTHER property that ended the run (typically a crash): neither passed nor violated here
        other = None
        for kk in load_known():
            if kk.get('status') == 'known' and kk.get('property') != prop and match_known(kk['property'], sig2, scn, det):
                other = kk
                break
        if other:
            agg['blocked_by'][other['id']] = agg['blocked_by'].get(other['id'], 0) + 1
            log('[%s] run ended by known finding %s of %s: not counted' % (prop, other['id'], other['property']))
        else:
            violations.append((sig2, path, det))
    wall = time.time() - t0
    ev = {
        'property_id': prop, 'tier': tier, 'seed': seed, 'level': spec['level'],
        'coverage': {
            'evaluations': agg['evaluations'], 'distinct_nontrivial': agg['shapes'], 'rule': spec['rule'],
            'samples': agg['samples'][:6], 'nontrivial_runs': agg['nontrivial'], 'events': agg['events'],
            'simulated_seconds': round(agg['sim_ns'] / 1e9, 3),
            'runs_per_hour': int(agg['evaluations'] / max(wall, 1e-3) * 3600),
            'fault_kinds_fired': agg['faults'], 'probes': agg['probes'], 'notes': agg['notes'],
            'blocked_by_known_finding': agg['blocked_by'], 'engines': agg['engines'],
            'real_vs_stub': spec.get('real_vs_stub', ''),
            'exhaustive': bool(agg['exhaustive_parts']) and len(agg['exhaustive_parts']) == len(parts),
            'exhaustive_parts': agg['exhaustive_parts'],
            'known_findings_hit': [k['id'] for k, _, _ in known],
            'infrastructure_problems': infra,
        },
        'assumptions': spec.get('assumptions', []),
        'wall_s': round(wall, 2), 'violations': len(violations),
    }
    evdir = os.environ.get('VERIF_EVIDENCE_DIR') or os.path.join(VERIF, 'evidence')
    os.makedirs(evdir, exist_ok=True)
    with open(os.path.join(evdir, prop + '.json'), 'w') as f:
        json.dump(ev, f, indent=1, sort_keys=True)
    seen = set()
    for k, sig, path in known:
        if k['id'] not in seen:
            seen.add(k['id'])
            print('KNOWN-FINDING: property=%s %s [%s] (e.g. %s)' % (prop, k['what'], k['id'], path), flush=True)
    for sig, path, det in violations:
        print('VIOLATION property=%s replay=%s' % (prop, path), flush=True)
        print('  signature: %s' % sig)
        print('  detail: %s' % det[:1500].replace('\n', '\n          '))
    print('[%s] tier=%s seed=%s runs=%d distinct_nontrivial=%d violations=%d known=%d infra=%d wall=%.1fs' %
          (prop, tier, seed, agg['evaluations'], agg['shapes'], len(violations), len(seen), len(infra), wall), flush=True)
    if violations:
        return 1
    if infra:
        for i in infra:
            print('INFRA: ' + i[:3000], flush=True)
        return 2
    if agg['evaluations'] == 0:
        print('INFRA: nothing was executed', flush=True)
        return 2
    return 0


# ------------------------------------------------------------------ replay / selftest / misc

def replay(path, verbose):
    body = json.load(open(path))
    b = Builder('replay-' + body['sim'], [body['sim']])
    r = run_replay(b, body['sim'], [body['scenario']], verbose=verbose, env=body.get('env') or None)[0]
    if r is None:
        print('INFRA: replay produced no result')
        return 2
    if verbose:
        for l in r.get('log') or []:
            print('  | ' + l)
    same_sig = r.get('sig') == body['signature']
    same_trace = r.get('trace') == body.get('trace')
    print('replay: signature %s, trace %s' % ('REPRODUCED' if same_sig else 'differs (got %r)' % r.get('sig'),
                                              'identical' if same_trace else 'differs'))
    if r.get('sig'):
        print('VIOLATION property=%s replay=%s' % (body['property'], path))
        print('  signature: %s' % r['sig'])
        print('  detail: %s' % (r.get('detail') or '')[:3000])
        return 1
    return 0


def selftest_det(sims, nseeds, nprocs, tier):
    """Same seeds in many fresh processes at several concurrency levels; traces must agree."""
    bad = 0
    for sim in sims:
        b = Builder('selftest-' + sim, [sim])
        b.binary(sim)
        ref = None
        total = 0
        for conc in (16, 48):
            wd = b.scratch('det-%s-%d' % (sim, conc))
            procs = []
            for i in range(conc):
                extra = {'VERIF_MODE': 'search', 'VERIF_SEED': 7777, 'VERIF_WORKER': 0, 'VERIF_NWORKERS': 1, 'VERIF_TIER': tier,
                         'VERIF_BUDGET_MS': 3600000, 'VERIF_COUNT': nseeds, 'VERIF_TRACES': 1, 'VERIF_OUT': os.path.join(wd, 'out.%d' % i)}
                procs.append(spawn(b.binary(sim), sim, extra, os.path.join(wd, 'err.%d' % i)))
            for p in procs:
                p.wait()
            for i in range(conc):
                runs = {r['idx']: (r['trace'], r.get('sig', '')) for r in read_jsonl(os.path.join(wd, 'out.%d' % i)) if r.get('t') == 'run'}
                total += len(runs)
                if ref is None:
                    ref = runs
                if len(runs) != nseeds:
                    print('selftest-det %s: process %d finished %d of %d runs' % (sim, i, len(runs), nseeds))
                    bad += 1
                for k, v in runs.items():
                    if ref.get(k) != v:
                        bad += 1
                        print('DIVERGED sim=%s idx=%s: %s vs %s' % (sim, k, ref.get(k), v))
            shutil.rmtree(wd, ignore_errors=True)
        print('selftest-det %s: %d executions of %d seeds, %s' % (sim, total, nseeds, 'all identical' if bad == 0 else 'DIVERGENCES'))
    return 0 if bad == 0 else 2


def with_mutant(patch, rest):
    """Apply a diff to private copies of the files it touches and map them over /repo with the
    build overlay; /repo itself is never modified. Then run `verifctl <rest>`."""
    import tempfile
    tmp = tempfile.mkdtemp(prefix='verif-mutant-')
    try:
        files = []
        for line in open(patch, errors='replace'):
            m = re.match(r'^\+\+\+ (?:b/)?(\S+)', line)
            if m and m.group(1) != '/dev/null':
                files.append(m.group(1))
            m = re.match(r'^--- (?:a/)?(\S+)', line)
            if m and m.group(1) != '/dev/null':
                files.append(m.group(1))
        files = sorted(set(files))
        for f in files:
            src = os.path.join(REPO, f)
            dst = os.path.join(tmp, f)
            os.makedirs(os.path.dirname(dst), exist_ok=True)
            if os.path.exists(src):
                shutil.copyfile(src, dst)
        p = subprocess.run(['patch', '-p1', '-s', '-d', tmp, '-i', os.path.abspath(patch)], stdout=subprocess.PIPE, stderr=subprocess.STDOUT, text=True)
        if p.returncode != 0:
            print('INFRA: patch does not apply: ' + p.stdout)
            return 2
        rep = {}
        for f in files:
            dst = os.path.join(tmp, f)
            rep[os.path.join(REPO, f)] = dst if os.path.exists(dst) else ''
        ov = os.path.join(tmp, 'mutant-overlay.json')
        json.dump({'Replace': rep}, open(ov, 'w'))
        os.environ['VERIF_MUTANT_OVERLAY'] = ov
        os.environ['VERIF_BUILD_TAG'] = '-mut%d' % os.getpid()
        os.environ['VERIF_EVIDENCE_DIR'] = os.path.join(tmp, 'evidence')
        rc = main(rest)
        for d in glob.glob(os.path.join(VERIF, '.build', '*-mut%d' % os.getpid())):
            shutil.rmtree(d, ignore_errors=True)
        return rc
    finally:
        shutil.rmtree(tmp, ignore_errors=True)


def main(argv):
    if argv and argv[0] == 'mutant':
        # verifctl mutant <patch.diff> <subcommand...>
        return with_mutant(argv[1], argv[2:])
    ap = argparse.ArgumentParser(prog='verifctl')
    sub = ap.add_subparsers(dest='cmd')
    s = sub.add_parser('setup')
    s = sub.add_parser('check')
    s.add_argument('prop')
    s.add_argument('--tier', default=os.environ.get('VERIF_TIER') or 'quick')
    s = sub.add_parser('replay')
    s.add_argument('file')
    s.add_argument('-v', action='store_true')
    s = sub.add_parser('selftest-det')
    s.add_argument('sims', nargs='*')
    s.add_argument('--seeds', type=int, default=30)
    s.add_argument('--tier', default='quick')
    s = sub.add_parser('sim')
    s.add_argument('sim')
    s.add_argument('--budget', type=float, default=10)
    s.add_argument('--tier', default='quick')
    s.add_argument('--mode', default='search')
    s.add_argument('--count', type=int)
    s.add_argument('--workers', type=int)
    s.add_argument('--oracles')
    a = ap.parse_args(argv)
    seed = int(os.environ.get('VERIF_SEED') or 1)
    try:
        if a.cmd == 'setup':
            b = Builder('setup', sorted(SIMS))
            for key in sorted(set(v['pkg'] for v in SIMS.values())):
                b.bins[key] = build_binary(b.bdir, b.ov, key, b.tags)
            print('setup ok')
            return 0
        if a.cmd == 'check':
            if a.prop not in PROPS:
                print('unknown or unclaimed property ' + a.prop)
                return 2
            tier = a.tier if a.tier in ('quick', 'thorough') else 'quick'
            return check(a.prop, tier, seed)
        if a.cmd == 'replay':
            return replay(a.file, a.v)
        if a.cmd == 'selftest-det':
            return selftest_det(a.sims or sorted(SIMS), a.seeds, 16, a.tier)
        if a.cmd == 'sim':
            b = Builder('dbg-' + a.sim, [a.sim])
            merged, viols, crashes = run_search(b, a.sim, seed, a.tier, a.budget, mode=a.mode, count=a.count, nworkers=a.workers, extra_env={'VERIF_ORACLES': a.oracles} if a.oracles else None)
            merged['shapes'] = len(merged['shapes'])
            merged.pop('runs')
            merged['samples'] = merged['samples'][:1]
            if os.environ.get('VERIF_FULL'):
                print(json.dumps(merged, indent=1)[:6000])
            else:
                brief = {k: merged[k] for k in ('evaluations', 'nontrivial', 'violations', 'blocked', 'blocked_by', 'shapes', 'events', 'wall_ms', 'exhausted')}
                brief['simulated_s'] = round(merged['sim_ns'] / 1e9, 1)
                print(json.dumps(brief))
                print('SIGS ' + json.dumps(merged['sigs'], indent=1))
                print('NOTES ' + json.dumps(merged['notes'], indent=1))
                print('FAULTS ' + json.dumps(merged['faults']))
                print('PROBES ' + json.dumps(merged['probes']))
            seen = set()
            for v in viols:
                if v['sig'] in seen:
                    continue
                seen.add(v['sig'])
                print('VIOL idx=%s' % v.get('idx'), v['sig'], '|', v.get('detail', '')[:600])
                if os.environ.get('VERIF_KEEP'):
                    print('   replay:', write_replay('DBG', a.sim, v['sig'], v.get('detail', ''), v['scenario'], v.get('trace'), seed, env={'VERIF_ORACLES': a.oracles} if a.oracles else None))
            for c in crashes[:3]:
                err = c['stderr']
                at = max(err.find('panic:'), err.find('fatal error:'))
                print('CRASH', c['last'], c['rc'], err[at:at + 3000] if at >= 0 else err[-3000:])
            return 1 if viols or crashes else 0
        ap.print_help()
        return 2
    except Infra as e:
        print('INFRA: ' + str(e), flush=True)
        return 2
