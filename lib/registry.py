# Engines (sims) and the properties they decide.
# pkg: 'world' (module /verif/sim) or the name of a directory under /verif/inpkg
# ('root' = package quic, 'a__b' = /repo/a/b).

TEST = 'TestVerifSim'

SIMS = {
    'sph': {'pkg': 'internal__ackhandler', 'test': TEST},
}

PROPS = {
    'C06': {
        'level': 'exploration',
        'budget': {'quick': 45, 'thorough': 900},
        'parts': [{'sim': 'sph'}],
        'rule': 'seeded histories (5-400 ops: sends in three spaces, network loss, honest/adversarial ACKs, timer expiries, drops, Retry, '
                '0-RTT rejection, migration) against the real sentPacketHandler; non-trivial = more than 3 frames tracked or a fault/adversarial op fired; '
                'distinct = distinct abstract op/outcome sequences (hash)',
        'real_vs_stub': 'real: internal/ackhandler sentPacketHandler + congestion + RTT stats; stub: peer, network, packer (model)',
        'assumptions': ['the model caller follows the SendMode contract like the connection does'],
        'level_text': 'seeded search over histories of the real sent-packet handler against a reference model; invariants after every event, exactly-once and liveness after a drain phase; failures are shrunk and replay bit-for-bit',
        'level_note': 'trusted: the reference model (frame states, in-flight set, amplification and confirmation flags), the Go runtime overlay, synctest fake clock; samples histories, not exhaustive',
        'technique': 'deterministic simulation with fault injection (component simulation, seeded histories, reference-model oracle)',
    },
}

NOT_APPLICABLE = {
    'C08': 'pure functions of a byte string / value (quantifier: inputs only): no schedule, clock, fault or interleaving for a simulator to control; deciding it is input generation (fuzzing), a different technique - DESIGN.md section 5',
    'C19': 'predicate over field lists and http.Header values (quantifier: inputs only): no schedule, clock, fault or interleaving - DESIGN.md section 5',
}

ENGINES = [
    {'name': 'K:sph', 'path': 'inpkg/internal__ackhandler/zz_sph_test.go', 'serves_properties': ['C06', 'C14', 'C20'],
     'kind_free_text': 'component simulation: real sentPacketHandler vs reference model, seeded histories'},
]
