# Engines (sims) and the properties they decide.
# pkg: 'world' (module /verif/sim) or the name of a directory under /verif/inpkg
# ('root' = package quic, 'a__b' = /repo/a/b).

import os, json, glob

TEST = 'TestVerifSim'

# one descriptor per engine: lib/sims.d/<sim>.json = {"pkg", "files", "serves", "about"}
SIMS = {}
for _p in sorted(glob.glob(os.path.join(os.path.dirname(os.path.abspath(__file__)), 'sims.d', '*.json'))):
    _d = json.load(open(_p))
    _d['test'] = TEST
    SIMS[os.path.basename(_p)[:-5]] = _d

PROPS = {
    'C06': {
        'level': 'exploration',
        'budget': {'quick': 45, 'thorough': 900},
        'parts': [{'sim': 'sph', 'share': 3}, {'sim': 'transfer', 'share': 1, 'env': {'VERIF_ORACLES': 'C01'}}],
        'rule': 'seeded histories (5-400 ops: sends in three spaces, network loss, honest/adversarial ACKs, timer expiries, drops, Retry, '
                '0-RTT rejection, migration) against the real sentPacketHandler; non-trivial = more than 3 frames tracked or a fault/adversarial op fired; '
                'distinct = distinct abstract op/outcome sequences (hash); plus whole connections (W:transfer with its liveness clauses: the deadline the handler sets has to wake the connection - '
                'flights and their acknowledgements lost in an outage that also wipes the NAT binding, path probes during an outage, window-limited senders)',
        'real_vs_stub': 'real: internal/ackhandler sentPacketHandler + congestion + RTT stats, for the transfer part the whole client and server; stub: peer, network, packer (model); UDP network for the transfer part',
        'assumptions': ['the model caller follows the SendMode contract like the connection does'],
        'level_text': 'seeded search over histories of the real sent-packet handler against a reference model; invariants after every event, exactly-once and liveness after a drain phase; failures are shrunk and replay bit-for-bit',
        'level_note': 'trusted: the reference model (frame states, in-flight set, amplification and confirmation flags), the Go runtime overlay, synctest fake clock; samples histories, not exhaustive',
        'technique': 'deterministic simulation with fault injection (component simulation, seeded histories, reference-model oracle)',
    },
}

W_NOTE = 'trusted: the simulated network, the independent wiretap decoder, the Go runtime overlay and synctest fake clock; real code: quic, internal/*, uTLS, simnet.SimConn; stub: UDP network, clock, randomness, certificates; samples schedules, not exhaustive except the stated sweeps'
W_TECH = 'deterministic simulation with fault injection (whole-connection world simulation, seeded fault schedules, wiretap + API oracles)'

PROPS['C01'] = {
    'level': 'exploration',
    'budget': {'quick': 75, 'thorough': 1500},
    'parts': [{'sim': 'transfer', 'share': 3, 'env': {'VERIF_ORACLES': 'C01'}},
              {'sim': 'transfer', 'mode': 'sweep', 'share': 1, 'env': {'VERIF_ORACLES': 'C01'}},
              {'sim': 'sendstream', 'share': 0.6}, {'sim': 'sendstream', 'mode': 'sweep', 'share': 0.4}],
    'rule': 'seeded scenarios (client kind, version, CID lengths, windows, 1-40 streams with random chunkings, datagrams) x per-datagram fault schedules '
            '(drop/dup/delay/corrupt/trunc, outages, MTU black holes) drawn from the seed; plus a bounded sweep of single and paired faults over the first datagrams; '
            'non-trivial = at least one fault fired; distinct = distinct abstract wire traces (direction, packet types, frame kinds, fate per datagram)',
    'real_vs_stub': 'real: quic client (Transport/UTransport) + server + uTLS; stub: network (simulator router), clock (synctest), randomness (seeded), certificates',
    'assumptions': ['liveness is judged only when the run provably was not starved by the injected faults'],
    'level_text': 'seeded search over whole-connection executions under network fault schedules, data oracle at every Read, liveness after faults stop; bounded fault sweep on the first datagrams',
    'level_note': W_NOTE, 'technique': W_TECH,
}

K_NOTE = 'trusted: the reference model, the Go runtime overlay, synctest fake clock; the model caller follows the calling contract of the connection; samples histories (plus the stated bounded sweep), not exhaustive beyond it'
K_TECH = 'deterministic simulation with fault injection (component simulation: seeded histories with faults against a reference model)'

PROPS['C07'] = {
    'level': 'exploration',
    'budget': {'quick': 75, 'thorough': 1200},
    'parts': [{'sim': 'rph', 'share': 2}, {'sim': 'rph', 'mode': 'sweep', 'share': 1},
              {'sim': 'transfer', 'share': 2, 'env': {'VERIF_ORACLES': 'C07'}}, {'sim': 'hs', 'share': 0.8, 'env': {'VERIF_ORACLES': 'C13'}}],
    'rule': 'K:rph: seeded arrival histories (gaps, duplicates, late packets, more gaps than tracked ranges, ECN, forget-below, alarms, drops) against the real received-packet handler '
            'and a set model, plus a bounded sweep of all arrival sequences over small packet-number universes; W:transfer: whole connections under network faults where the wiretap checks '
            'every ACK frame against the packets actually delivered and the ack-delay bound; W:hs: handshakes with 0-RTT under duplication and replay (a duplicate of a packet of any type is dropped before its frames are handled: nothing is processed twice, no endpoint raises an error over it); '
            'non-trivial = a fault/adversarial step fired or more than trivial history; distinct = distinct abstract histories / wire traces',
    'real_vs_stub': 'K: real receivedPacketHandler/tracker/history, model peer+clock; W: real endpoints, stub network',
    'assumptions': ['ack timeliness on the wire is only demanded for packets that are a new largest for the receiver (late packets may lie below the duplicate horizon)'],
    'level_text': 'seeded search over arrival histories with a set-based reference model, bounded exhaustive sweep over small universes, and wire-level ACK checks on whole connections under fault schedules',
    'level_note': K_NOTE, 'technique': K_TECH,
}

DIAL_RULE = ('seeded scenarios: built-in fingerprint x derived-spec family (frame builders, packet-number start and length lists, tokens, CID lengths, UDP minimum, '
             'suppressed/shuffled parameters, ClientHello sizes 1-4 datagrams) x server config (Retry, CID lengths, windows, chain) x 1-5 successive dials on one spec value x '
             'loss/duplication/reordering/delay on the first flights; the independent wiretap removes Initial protection and reads the ClientHello; '
             'non-trivial = a fault fired or the spec is derived; distinct = distinct abstract wire traces')
for _p, _txt in (('C02', 'every dial of every generated spec must complete the handshake and a bidirectional echo unless the injected faults explain the failure'),
                 ('C09', 'the union of Initial CRYPTO frames over all datagrams and retransmissions carries exactly the ClientHello at true offsets; only Initial-level frames; unlayoutable specs fail before sending'),
                 ('C10', 'connection ID lengths, packet numbers and their encoding lengths, tokens, datagram sizes and builder bounds of the first flight equal the spec'),
                 ('C11', 'cipher suites, extension order and bodies and the transport parameter list on the wire equal the spec (or a permutation when randomised); TransportParameterIDs() and the reference fingerprint agree with the wire')):
    PROPS[_p] = {
        'level': 'exploration', 'budget': {'quick': 75, 'thorough': 1500},
        'parts': [{'sim': 'dial', 'env': {'VERIF_ORACLES': _p}}] + ([{'sim': 'flightlab'}] if _p == 'C09' else []) + ([{'sim': 'tpshuffle', 'share': 0.4}] if _p == 'C11' else []) + ([{'sim': 'nilspec', 'share': 0.25}, {'sim': 'nilspechs', 'share': 0.2}] if _p == 'C02' else []),
        'rule': DIAL_RULE, 'real_vs_stub': 'real: UTransport + spec machinery + uTLS + in-tree server; stub: network, clock, randomness (seeded), certificates',
        'assumptions': ['expected ClientHello extension bodies are read from the spec objects uTLS serialised for that dial'],
        'level_text': 'seeded search over spec families, dial histories and first-flight fault schedules on whole connections: ' + _txt,
        'level_note': W_NOTE, 'technique': W_TECH,
    }

PROPS['C03'] = {
    'level': 'fault_enumeration', 'budget': {'quick': 60, 'thorough': 900},
    'parts': [{'sim': 'recvstream', 'mode': 'sweep', 'share': 1}, {'sim': 'recvstream', 'share': 3}, {'sim': 'transfer', 'share': 1, 'env': {'VERIF_ORACLES': 'C01'}}],
    'rule': 'bounded sweep: every arrival schedule (permutation, duplicate/re-split insertion, FIN placement, reader behaviour) of streams of <= 5 segments over a 6-cell offset lattice '
            'with cells on both sides of the 128-byte copy threshold; plus seeded long histories (segments, reads, peeks, deadlines, CancelRead, RESET_STREAM / RESET_STREAM_AT, shutdown, adversarial frames) '
            'against the real ReceiveStream + flow controllers, frameSorter and cryptoStream with a byte-array model and buffer poisoning; non-trivial = a fault or adversarial step fired; distinct = distinct abstract histories; '
            'plus whole connections (W:transfer: what is read is a prefix of what was written under every network fault, writers that give up in mid-stream with RESET_STREAM and RESET_STREAM_AT through the real frame codec)',
    'real_vs_stub': 'real: ReceiveStream, frameSorter, cryptoStream(+manager), flow controllers, wire frame parser and its buffer pool; stub: peer, network, connection (model)',
    'assumptions': ['8 independent histories are batched into one kernel scenario; evaluations counts scenarios'],
    'level_text': 'exhaustive enumeration of fault schedules over a bounded segment lattice plus seeded search over long histories, byte-array reference model, buffer-reuse detection',
    'level_note': K_NOTE, 'technique': K_TECH,
}
PROPS['C04'] = {
    'level': 'exploration', 'budget': {'quick': 70, 'thorough': 1200},
    'parts': [{'sim': 'flowcontrol', 'share': 2}, {'sim': 'transfer', 'share': 2, 'env': {'VERIF_ORACLES': 'C04'}},
              {'sim': 'sendstream', 'share': 1}, {'sim': 'sendstream', 'mode': 'sweep', 'share': 0.5},
              {'sim': 'limits', 'share': 0.8, 'env': {'VERIF_ORACLES': 'C12'}}, {'sim': 'recvstream', 'share': 0.7}],
    'rule': 'K:flowcontrol: seeded histories over real send- and receive-side controllers of 1-40 streams sharing a connection window, joined by a channel that loses, duplicates and reorders data and MAX_* updates, '
            'with reads, abandons, auto-tuning at RTTs from microseconds to seconds, 0-RTT reset and an adversarial sender; W:transfer: wiretap checks that new stream bytes never exceed the credit delivered to the sender; '
            'K:sendstream: real SendStreams + flow controllers + framer against a byte-state model (writes, resets with a reliable size, STOP_SENDING, loss/ack in any order, stale and duplicate credit, 0-RTT rejection) with a bounded sweep; '
            'K:recvstream (C03 engine): a real ReceiveStream on real controllers - whatever way the stream ends (read to the end, reset with or without a reliable size, cancelled read, in any order) every byte up to the final size must have been handed back as connection-level credit when the stream completes; '
            'W:limits: a server that uses every advertised window to the full against a spec-driven or plain client (the receive side of the credit contract); '
            'non-trivial = a fault fired; distinct = distinct abstract histories / wire traces',
    'real_vs_stub': 'K: real flow controllers + RTT stats, real SendStream/framer, model streams/channel/packer; W: real endpoints, stub network',
    'assumptions': [],
    'level_text': 'seeded search over flow-control histories with a credit-accounting reference model (limits, conservation, liveness after the channel heals) and wire-level credit checks on whole connections',
    'level_note': K_NOTE, 'technique': K_TECH,
}
PROPS['C16'] = {
    'level': 'exploration', 'budget': {'quick': 50, 'thorough': 900},
    'parts': [{'sim': 'connid', 'share': 2}, {'sim': 'shutdown', 'share': 1}, {'sim': 'hs', 'share': 1, 'env': {'VERIF_ORACLES': 'C16'}}],
    'rule': 'seeded histories driving a real connIDManager and connIDGenerator (limits 2-8, zero-length and non-zero IDs) with NEW/RETIRE_CONNECTION_ID frames through a reordering/duplicating channel, Retire Prior To jumps, '
            'conflicting frames, rotation by packets sent, path probing, expiry, handshake completion and close, against a set model and a real packetHandlerMap; non-trivial = a fault/adversarial op fired; distinct = distinct abstract histories; '
            'W:shutdown (C17 workload) for the last clause on whole connections (with and without Retry, every way of ending): once all connections have ended and the longest timeout has passed, the transports hold no routed ID, no closed-connection handler and no reset token; '
            'W:hs (handshakes under duplication, delay and replay) for routing on the wire: a copy of the client\'s first Initial that arrives while the first connection is alive and less than three probe timeouts (lower bound: 6 one-way latencies + 3 ms) after its handshake completed must not make the server set up a second connection',
    'real_vs_stub': 'real: connIDManager, connIDGenerator, packetHandlerMap; stub: peer, channel, clock',
    'assumptions': ['over-acceptance explained by path-probing IDs and the exact error code for conflicting frames are only noted (not stated by the property)'],
    'level_text': 'seeded search over connection-ID histories against a set-based reference model with routing-table and reset-token bookkeeping',
    'level_note': K_NOTE, 'technique': K_TECH,
}
PROPS['C20'] = {
    'level': 'exploration', 'budget': {'quick': 60, 'thorough': 900},
    'parts': [{'sim': 'congestion', 'share': 3}, {'sim': 'sph', 'share': 1}, {'sim': 'transfer', 'share': 1.5, 'env': {'VERIF_ORACLES': 'C20'}}],
    'rule': 'K:congestion: seeded histories of the real cubic sender (Reno and Cubic) + pacer + RTT stats over a simulated bottleneck (rate, queue, delay, random and burst loss, delayed and lost ACKs, app-limited and idle periods, MTU raises) '
            'and over adversarial event sequences (arbitrary sizes and times); K:sph contributes the clause that new ack-eliciting data is only allowed while bytes in flight are below the window; '
            'W:transfer judges the same clause and the window bounds on whole connections from the endpoints\' own qlog (bytes in flight pass the window by at most one packet unless a probe timeout fired or a loss shrank the window); '
            'non-trivial = a loss/fault fired; distinct = distinct abstract histories',
    'real_vs_stub': 'real: cubicSender, cubic, pacer, hybrid slow start, RTT stats, sentPacketHandler; stub: path, peer',
    'assumptions': ['TimeUntilSend timing is only noted: the property bounds what the pacer authorises'],
    'level_text': 'seeded search over congestion-control event histories with window-bound, reduction-per-window, growth-only-when-limited and pacing-budget oracles after every event',
    'level_note': K_NOTE, 'technique': K_TECH,
}

PROPS['C05'] = {
    'level': 'exploration', 'budget': {'quick': 70, 'thorough': 1200},
    'parts': [{'sim': 'transfer', 'share': 3, 'env': {'VERIF_ORACLES': 'C05,C01'}}, {'sim': 'dial', 'share': 1, 'env': {'VERIF_ORACLES': 'C05'}}, {'sim': 'aead', 'share': 1.5}],
    'rule': 'K:aead: a real pair of updatableAEAD objects keyed like crypto_setup does, driven by seeded histories of sends (packet numbers up to and across 2^16 / 2^24 / 2^32, skips, bulks of up to 300 000 packets, '
            'truncation as the packer does it), a model network (fifo / reordering / faulty / misbehaving-peer classes: reordering, duplication, arbitrarily late duplicates, loss, bit flips, truncation, wrong packet numbers), '
            'ACK feedback, key-update intervals 1..100 000 over any number of generations incl. simultaneous updates, the 3 x PTO retention of old keys to the nanosecond; oracle: RFC 9000 A.3 decodability from the TRUE largest opened number, '
            'an independent implementation of key derivation / AEAD / header protection (both versions, three suites) compared bit for bit, key-phase discipline, KEY_UPDATE_ERROR cases; W: every datagram of whole connections (plain and spec-driven clients, QUIC v1 and v2, all three cipher suites as negotiated, connection-ID lengths 0-20, key-update intervals 3-40 packets, Retry) '
            'under loss/duplication/reordering/corruption/truncation must open under keys derived independently by the wiretap (RFC 9001/9369 salts and labels, secrets from the TLS key log), with strictly increasing '
            'packet numbers, a packet-number encoding decodable from what the sender knows to be acknowledged, key updates only when allowed; corrupted packets must never yield different data (C01 data oracle); '
            'non-trivial = a fault fired; distinct = distinct abstract wire traces',
    'real_vs_stub': 'K: real updatableAEAD pair, model peer/network, independent re-implementation of RFC 9001/9369 packet protection; W: real endpoints incl. handshake package; independent re-implementation: wiretap packet protection; stub: network',
    'assumptions': ['0-RTT packet payloads are not observable (no early secret in the key log)', 'exhaustive enumeration of DecodePacketNumber over small windows is input enumeration and not part of this check'],
    'level_text': 'seeded search over 1-RTT protection histories of a real AEAD pair against a reference model and an independent implementation, plus seeded search over whole-connection executions; an independent decoder opens every packet and checks numbering, encoding length and key-update discipline; tampering is covered through the data oracle',
    'level_note': W_NOTE, 'technique': W_TECH,
}

HS_RULE = ('seeded scenarios {plain, nil-spec, spec-driven client} x {Retry, none} x {version negotiation, none} x {fresh, resumed + early data accepted, 0-RTT rejected} x chain length, '
           'with per-datagram fault schedules over the handshake, attacker injections (forged Version Negotiation, Retry with invalid tag, Initial with CONNECTION_CLOSE / bogus ACK sealed with the public Initial keys, '
           'replayed and garbage datagrams) at seeded instants, and token scenarios (valid / rebound address / expired / truncated / bit-flipped / foreign key / aged by hours to days of simulated time); '
           'plus a bounded sweep of all single faults and pairs over the first handshake datagrams of four base scenarios; non-trivial = a fault or injection fired; distinct = distinct abstract wire traces')
PROPS['C13'] = {
    'level': 'fault_enumeration', 'budget': {'quick': 75, 'thorough': 1500},
    'parts': [{'sim': 'hs', 'share': 3, 'env': {'VERIF_ORACLES': 'C13'}}, {'sim': 'hs', 'mode': 'sweep', 'share': 1, 'env': {'VERIF_ORACLES': 'C13'}}],
    'rule': HS_RULE, 'real_vs_stub': 'real: client and server transports, listeners, TLS (uTLS) incl. session tickets; stub: network, attacker (simulator), clock',
    'assumptions': ['an on-path attacker may legitimately end a handshake with a forged Version Negotiation before the client processed a server packet, and with forged Initial packets while the victim still holds Initial keys; later or other injections must not change the outcome',
                    '0-RTT packet payloads are not observable on the wire; the 0-RTT clauses are decided at the API'],
    'level_text': 'bounded sweep of single and paired faults over the handshake datagrams plus seeded search over fault schedules and attacker injections; convergence, bounded Dial/Accept, authenticated connection IDs read off the wire, 0-RTT exactly-once',
    'level_note': W_NOTE, 'technique': W_TECH,
}
PROPS['C14'] = {
    'level': 'exploration', 'budget': {'quick': 75, 'thorough': 1500},
    'parts': [{'sim': 'hs', 'share': 3, 'env': {'VERIF_ORACLES': 'C14'}}, {'sim': 'sph', 'share': 1}],
    'rule': HS_RULE + '; the router counts, per client address and at every prefix of the history, bytes delivered to the server (including duplicates and injected datagrams) against bytes the server sends before the address is validated; '
            'K:sph adds the component clause that the send mode is None while unvalidated and 3x the received bytes were sent',
    'real_vs_stub': 'real: server transport, token generator, address validation; stub: network, clock',
    'assumptions': ['bytes of every datagram delivered to the server are counted as received (upper bound of what the server may count)'],
    'level_text': 'seeded search over arrival/loss patterns and token mutations on whole connections with amplification accounting at the router and AddrVerified observed through GetConfigForClient',
    'level_note': W_NOTE, 'technique': W_TECH,
}

PROPS['C11']['rule'] += '; W:tpshuffle: 1200 (thorough: 6000) dial captures per run of one spec value with a 4-5 element parameter list: every permutation occurs, position frequencies within 8 standard deviations, consecutive repeats at chance level'
PROPS['C02']['rule'] += ('; W:nilspec (differential): one transfer scenario executed through a plain Transport and through UTransport{QUICSpec: nil} in two bubbles with identical clock origin and identically '
                         'reseeded seams: wire history (instants, sizes, packet types and numbers, frames, fates) and application outcome must be identical; W:nilspechs: the same differential over the handshake workload '
                         '(resumption, DialEarly with 0-RTT accepted / rejected, Retry, version negotiation, fault schedules on the handshake datagrams)')
PROPS['C09']['rule'] += ('; K:flightlab: real initialCryptoStream + packetPacker/uPacketPacker + ack handler with a model TLS stack (ClientHello 0 bytes - 4 datagrams, SNI/ECH at varying positions, '
                         'HelloRetryRequest), every builder kind with seeded parameterisations incl. negative ranges and invalid configurations, a lossy model peer, PTO and retransmission re-framing; '
                         'every datagram parsed by the wire parser and by an independent byte reader')
PROPS['C15'] = {
    'level': 'fault_enumeration', 'budget': {'quick': 70, 'thorough': 1200},
    'parts': [{'sim': 'streamsmap', 'share': 2}, {'sim': 'streamsmap', 'mode': 'sweep', 'share': 1}, {'sim': 'limits', 'share': 1, 'env': {'VERIF_ORACLES': 'C12'}},
              {'sim': 'transfer', 'share': 1.5, 'env': {'VERIF_ORACLES': 'C01'}}],
    'rule': 'seeded histories over the real streamsMap (both perspectives, both stream types, limits 0-5 and up to 40): peer frames with arbitrary, skipped, completed and out-of-limit stream IDs and wrong directions, MAX_STREAMS, '
            'concurrent Open/OpenSync/Accept callers with cancellation (strict histories with quiescence between calls check FIFO; burst histories with seeded scheduler perturbation check the order-free clauses), completions in any order, 0-RTT reset, close; '
            'plus a bounded sweep of all histories up to length 4 (quick) / 5 (thorough) over a 14-op alphabet with limits 0-2; non-trivial = adversarial op fired or non-trivial history; distinct = distinct abstract histories; W:limits (shared with C12) for the wiring of the limit into whole connections: what a client advertises (spec-driven, or plain with a Config whose bidirectional and unidirectional limits differ) is what it enforces - a conformant server can open exactly the advertised number of streams, and a stream right behind the limit in force, played by the simulator with the session keys, is answered with STREAM_LIMIT_ERROR; W:transfer with few concurrent incoming streams and slow consumers: the credit that completed streams earn must reach the blocked opener also on an otherwise idle connection (judged by the end-to-end liveness oracle)',
    'real_vs_stub': 'real: streamsMap, incoming/outgoing maps, Stream/SendStream/ReceiveStream objects, flow controllers; stub: peer, connection (fake sender)',
    'assumptions': [],
    'level_text': 'bounded exhaustive sweep of short histories plus seeded search over long and concurrent histories against a reference model of limits, credit, ID discipline, FIFO service and exactly-once acceptance',
    'level_note': K_NOTE, 'technique': K_TECH,
}

PROPS['C17'] = {
    'level': 'exploration', 'budget': {'quick': 75, 'thorough': 1500},
    'parts': [{'sim': 'shutdown', 'env': {'VERIF_ORACLES': 'C17'}}],
    'rule': 'seeded scenarios: close cause {local/remote CloseWithError, fatal transport error from a sealed 1-RTT packet, idle timeout, outage, keep-alive survival, stateless reset after a server restart, Transport.Close, Listener.Close, dial cancellation, '
            'handshake failures (ALPN, certificate, crypto buffer), handshake timeouts} x seeded subset of concurrently blocked calls on both sides {Read, Write, AcceptStream, AcceptUniStream, OpenStreamSync, OpenUniStreamSync, ReceiveDatagram, SendDatagram, Dial, Accept} '
            'plus later calls x timing of the cause relative to handshake / transfer / outage x loss, duplication and reordering on the closing exchange x idle timeouts 2-30 s and keep-alive periods; '
            'non-trivial = every run (a cause always fires); distinct = distinct abstract wire traces',
    'real_vs_stub': 'real: client and server transports, listeners, connections, streams, datagram queues, closed-connection handlers; stub: network, clock; adversarial packets sealed by the simulator with the session keys',
    'assumptions': ['a blocked call must return within 1 ms of simulated time after the connection context is done', 'closing during 0-RTT/early phases is not produced'],
    'level_text': 'seeded search over close causes x blocked calls x timings x faults on whole connections: every call returns with the one recorded cause, CONNECTION_CLOSE on the wire exactly where due with back-off, idle-timeout bounds from acknowledged deliveries, no goroutine left',
    'level_note': W_NOTE, 'technique': W_TECH,
}

PROPS['C12'] = {
    'level': 'exploration', 'budget': {'quick': 75, 'thorough': 1200},
    'parts': [{'sim': 'limits', 'mode': 'sweep', 'share': 1}, {'sim': 'limits', 'share': 2}, {'sim': 'connid', 'share': 0.6},
              {'sim': 'transfer', 'share': 0.7, 'env': {'VERIF_ORACLES': 'C01'}}],
    'rule': 'sweep: every built-in fingerprint x 12 server-side pushers x 4 relations of the user Config to the advertised values; seeded search: generated transport-parameter lists (values, absent parameters, rotated order) x arbitrary Config '
            '(windows, stream counts, idle timeout, datagram support) x pusher {stream window per stream type against a stalled or a slowly reading application, connection window over up to 40 streams, uni/bidi stream counts, connection IDs, '
            'DATAGRAM frame size at max / max-1 / 1 / 0, silence just below the effective idle timeout} x loss, duplication and reordering; the pusher reads the limits off the wire and goes exactly to each boundary; '
            'non-trivial = the boundary was reached or a network fault fired; distinct = distinct abstract wire traces; '
            'K:connid (shared with C16) for the active_connection_id_limit clause against a peer that, unlike the in-tree server, uses Retire Prior To: a real connIDManager with the limit set the way a spec-driven client sets it (2-8), '
            'NEW_CONNECTION_ID histories exactly at, below and above the limit with retirements in the same frame; '
            'W:transfer for the idle-timeout clause under faults: the idle timeout in force (read off the wire) must not fire early, e.g. while the server is silent between its handshake flight and HANDSHAKE_DONE',
    'real_vs_stub': 'real: UTransport client with spec, in-tree server, flow controllers, streams map, connection-ID manager, frame parser, idle timer, qlog recorder; stub: network, clock, application (pusher)',
    'assumptions': ['the in-tree server is the conformant peer: if it ever goes beyond an advertised limit (checked on the wire) the run is reported under C04, not as a client fault',
                    'a peer value of max_idle_timeout=0 is treated by the in-tree server as 5 s (probe idle-explicit-zero-server-uses-5s); the oracle uses the value the server put on the wire'],
    'level_text': 'bounded sweep of built-in fingerprints x limits x Config relations plus seeded search over generated parameter lists, Configs and fault schedules on whole connections: a conformant peer can use every advertised limit to the full, '
                  'the client raises no local transport error, does not idle out early, keeps granting credit, and its own record of its parameters (qlog, ConnectionState) equals the wire',
    'level_note': W_NOTE, 'technique': W_TECH,
}

PROPS['C18'] = {
    'level': 'exploration', 'budget': {'quick': 75, 'thorough': 1500},
    'parts': [{'sim': 'h3', 'env': {'VERIF_ORACLES': 'C18'}}],
    'rule': 'seeded scenarios in three classes: (1) real http3.Transport against real http3.Server over the simulated network: 1-30 exchanges per connection at concurrency 1..N, generated methods, paths, header multisets (repeated fields, cookies, '
            'non-canonical keys, values up to 100 KB), bodies 0..1 MB in arbitrary chunks with gaps, Content-Length right / too long / too short / unknown in both directions, declared and undeclared trailers, 1xx, HEAD/204/304, gzip, '
            'handler panics, partial reads, cancellations, abandoned bodies, connection kills, optional settings (loggers, datagrams, header limits) left unset or set, plain and spec-driven QUIC clients; '
            '(2) a scripted raw client on real QUIC streams against http3.Server and (3) a scripted raw server against http3.Transport: hand-made frame sequences with unknown / reserved / forbidden frame and stream types, '
            'arbitrary varint widths and write boundaries, truncation, resets; each class fault-free and under loss, duplication, reordering, corruption; non-trivial = a network fault or an adversarial step fired; distinct = distinct abstract wire traces',
    'real_vs_stub': 'real: http3.Server, http3.Transport, qpack, QUIC client and server transports; stub: network, clock, handlers and request bodies (generated), raw peers (scripted, with the qpack encoder of the module cache)',
    'assumptions': ['RFC 9114 deviations the property does not name (a frame cut off by the end of the stream, reserved HTTP/2 setting identifiers, a closed critical stream), the goroutine rawConn.closeQlogger leaves behind when qlog is on, '
                    'and a request failing because the dial it shares was cancelled by another request are counted as probes, not judged',
                    'in faulty runs an exchange may fail; wrong data is never accepted'],
    'level_text': 'seeded search over generated HTTP/3 exchanges and scripted raw peers on whole connections against a reference model of what handler and client must observe (request line, header multisets, every body byte by position, '
                  'trailers, 1xx sequence, Content-Length semantics) and of the reaction RFC 9114 requires to each forbidden frame or stream type; crashes of the process are caught by the driver',
    'level_note': W_NOTE, 'technique': W_TECH,
}

NOT_APPLICABLE = {
    'C08': 'pure functions of a byte string / value (quantifier: inputs only): no schedule, clock, fault or interleaving for a simulator to control; deciding it is input generation (fuzzing), a different technique - DESIGN.md section 5',
    'C19': 'predicate over field lists and http.Header values (quantifier: inputs only): no schedule, clock, fault or interleaving - DESIGN.md section 5',
}

ENGINES = [{'name': k, 'path': ('sim/' if v['pkg'] == 'world' else 'inpkg/%s/' % v['pkg']) + ','.join(v.get('files', [])),
            'serves_properties': v.get('serves', []), 'kind_free_text': v.get('about', '')} for k, v in sorted(SIMS.items())]
