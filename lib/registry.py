# Engines (sims) and the properties they decide.
# pkg: 'world' (module /verif/sim) or the name of a directory under /verif/inpkg
# ('root' = package quic, 'a__b' = /repo/a/b).

import os, json, glob

TEST = 'TestVerifSim'

# one descriptor per engine: lib/sims.d/<sim>.json = {"pkg", "files", "serves", "about"}
SIMS = {}
for _p in sorted(glob.glob(os.path.join(os.path.dirname(os.path.abspath(__file__)), 'sims.d', '*.json'))):
    _d = json.load(open(_p))
    _d['test'] = TEST
    SIMS[os.path.basename(_p)[:-5]] = _d

PROPS = {
    'C06': {
        'level': 'exploration',
        'budget': {'quick': 45, 'thorough': 900},
        'parts': [{'sim': 'sph'}],
        'rule': 'seeded histories (5-400 ops: sends in three spaces, network loss, honest/adversarial ACKs, timer expiries, drops, Retry, '
                '0-RTT rejection, migration) against the real sentPacketHandler; non-trivial = more than 3 frames tracked or a fault/adversarial op fired; '
                'distinct = distinct abstract op/outcome sequences (hash)',
        'real_vs_stub': 'real: internal/ackhandler sentPacketHandler + congestion + RTT stats; stub: peer, network, packer (model)',
        'assumptions': ['the model caller follows the SendMode contract like the connection does'],
        'level_text': 'seeded search over histories of the real sent-packet handler against a reference model; invariants after every event, exactly-once and liveness after a drain phase; failures are shrunk and replay bit-for-bit',
        'level_note': 'trusted: the reference model (frame states, in-flight set, amplification and confirmation flags), the Go runtime overlay, synctest fake clock; samples histories, not exhaustive',
        'technique': 'deterministic simulation with fault injection (component simulation, seeded histories, reference-model oracle)',
    },
}

NOT_APPLICABLE = {
    'C08': 'pure functions of a byte string / value (quantifier: inputs only): no schedule, clock, fault or interleaving for a simulator to control; deciding it is input generation (fuzzing), a different technique - DESIGN.md section 5',
    'C19': 'predicate over field lists and http.Header values (quantifier: inputs only): no schedule, clock, fault or interleaving - DESIGN.md section 5',
}

ENGINES = [{'name': k, 'path': ('sim/' if v['pkg'] == 'world' else 'inpkg/%s/' % v['pkg']) + ','.join(v.get('files', [])),
            'serves_properties': v.get('serves', []), 'kind_free_text': v.get('about', '')} for k, v in sorted(SIMS.items())]
