package ackhandler

// K:sph - component simulation of loss recovery (property C06; clauses of C14
// and C20): the real sentPacketHandler driven by a seeded history of sends,
// network loss, honest and adversarial ACKs, timer expiries, space drops,
// Retry, 0-RTT rejection and path migration, against a set-based reference
// model. Overlay file of /verif; never part of /repo.

import (
	"errors"
	"fmt"
	"sort"
	"testing"
	"time"

	"github.com/refraction-networking/uquic/internal/monotime"
	"github.com/refraction-networking/uquic/internal/protocol"
	"github.com/refraction-networking/uquic/internal/qerr"
	"github.com/refraction-networking/uquic/internal/utils"
	"github.com/refraction-networking/uquic/internal/wire"
)

func init() { KRegister(sphSim()) }

type sphOp struct {
	K string `json:"k"`
	A int64  `json:"a,omitempty"`
	B int64  `json:"b,omitempty"`
	C int64  `json:"c,omitempty"`
	D int64  `json:"d,omitempty"`
}

type sphScenario struct {
	Seed      uint64  `json:"seed"`
	Server    bool    `json:"server"`
	Validated bool    `json:"validated"`
	ECN       bool    `json:"ecn"`
	UQuic     bool    `json:"uquic"`
	InitialPN int64   `json:"initial_pn"`
	ZeroRTT   int     `json:"zero_rtt"` // the first n application packets are 0-RTT (client)
	Adversary bool    `json:"adversary"`
	Ops       []sphOp `json:"ops"`
}

func (s *sphScenario) KSeed() uint64 { return s.Seed }

func sphSim() *KSim {
	return &KSim{
		Name: "sph",
		New:  func() KScenario { return &sphScenario{} },
		Gen: func(seed uint64, tier string) KScenario {
			r := NewKRng(seed)
			sc := &sphScenario{Seed: seed, Server: r.Bool(), Validated: r.P(0.3), ECN: r.P(0.3), UQuic: r.P(0.3)}
			if r.P(0.4) {
				sc.InitialPN = int64(r.Pick(1, 2, 5, 100, 70000, 1<<30))
			}
			if !sc.Server && r.P(0.25) {
				sc.ZeroRTT = r.Range(1, 6)
			}
			sc.Adversary = r.P(0.3)
			n := r.Range(5, 60)
			if tier == "thorough" && r.P(0.3) {
				n = r.Range(60, 400)
			}
			lossy := r.F() * 0.4
			for i := 0; i < n; i++ {
				var op sphOp
				switch x := r.N(100); {
				case x < 45:
					op = sphOp{K: "send", A: int64(r.N(6)), B: int64(r.Pick(25, 40, 200, 1200, 1252, 1452)), C: int64(r.N(12))}
					if r.F() < lossy {
						op.D = 1
					}
				case x < 70:
					op = sphOp{K: "ack", A: int64(r.N(3)), B: int64(r.U64() >> 1), C: int64(r.Pick(0, 0, 1, 5, 25, 300))}
					if sc.Adversary && r.P(0.15) {
						op.D = int64(r.Range(1, 3))
					}
				case x < 80:
					op = sphOp{K: "timer", A: int64(r.Pick(0, 0, 1, 30, 2000)), B: int64(r.N(4))}
				case x < 88:
					op = sphOp{K: "tick", A: int64(r.Pick(0, 1, 3, 10, 40, 200, 1500, 70000))}
				case x < 93:
					op = sphOp{K: "drop", A: int64(r.N(3))}
				case x < 96:
					op = sphOp{K: "rbytes", A: int64(r.Pick(1, 40, 1200, 4000))}
				case x < 97:
					op = sphOp{K: "rpkt", A: int64(r.N(3))}
				case x < 98:
					op = sphOp{K: "retry"}
				case x < 99:
					op = sphOp{K: "migrate"}
				default:
					op = sphOp{K: "mtu", A: int64(r.Pick(1300, 1452, 9000))}
				}
				sc.Ops = append(sc.Ops, op)
			}
			return sc
		},
		Run: runSPH,
	}
}

// ---- reference model

type sphPkt struct {
	pn        protocol.PacketNumber
	space     int // 0 initial, 1 handshake, 2 app
	zeroRTT   bool
	size      protocol.ByteCount
	ackElic   bool
	mtu       bool
	pathProbe bool
	frames    []int
	inFlight  bool // counted in bytes in flight by the model
	delivered bool // reached the model peer
	gone      bool // acked, lost or discarded
	sendIdx   int
	ord       int // global send ordinal
}

type sphFrameState struct {
	pkt       *sphPkt
	resolved  string // "", "acked", "lost"
	discarded bool   // space dropped / 0-RTT rejected
	optional  bool   // probe of an abandoned path: may be dropped silently or reported lost later
}

type sphModel struct {
	res    *KResult
	frames []*sphFrameState
	what   string // current operation, for messages
}

type sphHandler struct {
	m  *sphModel
	id int
}

func (h *sphHandler) OnAcked(wire.Frame) { h.m.resolve(h.id, "acked") }
func (h *sphHandler) OnLost(wire.Frame)  { h.m.resolve(h.id, "lost") }

func (m *sphModel) resolve(id int, how string) {
	f := m.frames[id]
	if f.resolved != "" {
		m.res.Fail("frame resolved twice: "+f.resolved+" then "+how, "frame %d of packet %d (space %d) during %s", id, f.pkt.pn, f.pkt.space, m.what)
		return
	}
	if f.discarded {
		m.res.Fail("frame of a discarded space resolved: "+how, "frame %d of packet %d (space %d) during %s", id, f.pkt.pn, f.pkt.space, m.what)
		return
	}
	f.resolved = how
	f.pkt.inFlight = false
	f.pkt.gone = true
}

var sphLevels = []protocol.EncryptionLevel{protocol.EncryptionInitial, protocol.EncryptionHandshake, protocol.Encryption1RTT}
var sphSpaceName = []string{"initial", "handshake", "app"}

func runSPH(t *testing.T, ksc KScenario, res *KResult) {
	sc := ksc.(*sphScenario)
	monotime.VerifSetStart(time.Now().Add(-time.Hour))
	t0 := time.Now()
	m := &sphModel{res: res}
	rtt := utils.NewRTTStats()
	pers := protocol.PerspectiveClient
	if sc.Server {
		pers = protocol.PerspectiveServer
	}
	mk := NewSentPacketHandler
	if sc.UQuic {
		mk = NewUAckHandler
	}
	hi := mk(protocol.PacketNumber(sc.InitialPN), 1200, rtt, &utils.ConnectionStats{}, sc.Validated, sc.ECN, func(protocol.PacketNumber) {}, pers, nil, utils.DefaultLogger)
	var h *sentPacketHandler
	switch x := hi.(type) {
	case *sentPacketHandler:
		h = x
	case *uSentPacketHandler:
		h = x.sentPacketHandler
	}

	alive := [3]bool{true, true, true}
	var sent [3][]*sphPkt
	var nextExpected [3]protocol.PacketNumber
	var firstSent [3]protocol.PacketNumber
	nextExpected[0] = protocol.PacketNumber(sc.InitialPN)
	firstSent = [3]protocol.PacketNumber{-1, -1, -1}
	var skipped []protocol.PacketNumber // app space, ascending
	var bytesSent, bytesRcvd protocol.ByteCount
	validated := !sc.Server || sc.Validated
	confirmed := false
	zeroLeft := sc.ZeroRTT
	zeroRejected := false
	sent1RTT := false
	gotAck := false
	retried := false
	ended := false
	migrated := false
	curMTU := protocol.ByteCount(1200)
	var peerECT0, peerCE uint64 // ECN counters of the model peer (application space)
	lastAckElicSpace := -1
	peerValidated := false // client: an ACK in the Handshake or application space has been processed
	sendOrd := 0           // global send ordinal
	lastCutOrd := -1       // ordinal of the newest packet that had been sent when the window was last reduced

	ampLimited := func() bool { return !validated && bytesSent >= 3*bytesRcvd }

	check := func(what string) {
		if res.Failed() {
			return
		}
		var sum protocol.ByteCount
		outstandingCrypto, outstandingApp := false, false
		for sp := 0; sp < 3; sp++ {
			for _, p := range sent[sp] {
				if p.inFlight {
					sum += p.size
					if !p.mtu {
						if sp < 2 {
							outstandingCrypto = true
						} else {
							outstandingApp = true
						}
					}
				}
			}
		}
		if sum != h.bytesInFlight {
			res.Fail("bytes in flight differ from the outstanding ack-eliciting packets after "+what, "handler=%d model=%d", h.bytesInFlight, sum)
			return
		}
		if (outstandingCrypto || (outstandingApp && confirmed)) && !ampLimited() && hi.GetLossDetectionTimeout().IsZero() {
			res.Fail("data outstanding but no loss-detection deadline after "+what, "crypto=%v app=%v confirmed=%v", outstandingCrypto, outstandingApp, confirmed)
			return
		}
		if ampLimited() {
			res.Probe("amplification-limited")
			if mode := hi.SendMode(monotime.Now()); mode != SendNone {
				res.Fail("send mode not None while amplification-limited after "+what, "mode=%v sent=%d received=%d", mode, bytesSent, bytesRcvd)
			}
		}
	}

	discardSpace := func(sp int, only0RTT bool) {
		for _, p := range sent[sp] {
			if only0RTT && !p.zeroRTT {
				continue
			}
			if !p.gone {
				p.gone, p.inFlight = true, false
				for _, id := range p.frames {
					if m.frames[id].resolved == "" {
						m.frames[id].discarded = true
					}
				}
			}
		}
	}

	doSend := func(sp int, size protocol.ByteCount, kind int, netLoss bool, what string) bool {
		now := monotime.Now()
		mode := hi.SendMode(now)
		if mode == SendNone {
			res.Probe("send-blocked")
			return false
		}
		switch mode {
		case SendPTOInitial:
			sp = 0
		case SendPTOHandshake:
			sp = 1
		case SendPTOAppData:
			sp = 2
		}
		if !alive[sp] {
			return false
		}
		lvl := sphLevels[sp]
		p := &sphPkt{space: sp, size: size}
		if sp == 2 && zeroLeft > 0 && !sent1RTT && !zeroRejected {
			lvl = protocol.Encryption0RTT
			p.zeroRTT = true
			zeroLeft--
		} else if sp == 2 {
			sent1RTT = true
		}
		ackEliciting := kind != 6
		if mode == SendAck || mode == SendPacingLimited {
			ackEliciting = false
			res.Probe("cwnd-or-pacing-limited")
		}
		if mode == SendPTOInitial || mode == SendPTOHandshake || mode == SendPTOAppData {
			ackEliciting = true
			res.Probe("pto-probe-sent")
		} else if ackEliciting && mode == SendAny {
			// C20 clause: new ack-eliciting data only while bytes in flight < cwnd
			if h.bytesInFlight >= h.congestion.GetCongestionWindow() {
				res.Fail("SendAny although bytes in flight >= congestion window", "inflight=%d cwnd=%d", h.bytesInFlight, h.congestion.GetCongestionWindow())
			}
		}
		peek, _ := hi.PeekPacketNumber(lvl)
		pn := hi.PopPacketNumber(lvl)
		if peek != pn {
			res.Fail("PeekPacketNumber and PopPacketNumber disagree", "peek=%d pop=%d", peek, pn)
		}
		if pn < nextExpected[sp] {
			res.Fail("packet number reused or decreasing", "space %d: pn=%d expected>=%d", sp, pn, nextExpected[sp])
		}
		for x := nextExpected[sp]; x < pn; x++ {
			if sp == 2 {
				skipped = append(skipped, x)
				res.Probe("pn-skipped")
			} else if x >= firstSentOr(firstSent[sp], pn) {
				res.Fail("packet number skipped outside the application space", "space %d pn %d", sp, x)
			}
		}
		nextExpected[sp] = pn + 1
		if firstSent[sp] < 0 {
			firstSent[sp] = pn
		}
		p.pn = pn
		p.sendIdx = len(sent[sp])
		var frames []Frame
		if ackEliciting {
			p.ackElic = true
			nf := 1 + kind%3
			for k := 0; k < nf; k++ {
				id := len(m.frames)
				m.frames = append(m.frames, &sphFrameState{pkt: p})
				p.frames = append(p.frames, id)
				frames = append(frames, Frame{Frame: &wire.PingFrame{}, Handler: &sphHandler{m: m, id: id}})
			}
			if sp == 2 && !p.zeroRTT {
				if kind == 7 {
					p.mtu = true
					res.Probe("mtu-probe")
				} else if kind == 8 && confirmed {
					p.pathProbe = true
					res.Probe("path-probe")
				}
			}
			p.inFlight = !p.pathProbe
		}
		ecn := protocol.ECNNon
		if sp == 2 && !p.zeroRTT {
			ecn = hi.ECNMode(true)
		}
		m.what = what
		hi.SentPacket(now, pn, protocol.InvalidPacketNumber, nil, frames, lvl, ecn, size, p.mtu, p.pathProbe)
		bytesSent += size
		sendOrd++
		p.ord = sendOrd
		if p.ackElic && !p.pathProbe {
			// what the sender's "largest sent packet number" now refers to (the congestion controller is not told about
			// path probe packets: after one, the number still is that of the ack-eliciting packet before it)
			lastAckElicSpace = sp
		}
		sent[sp] = append(sent[sp], p)
		p.delivered = !netLoss
		if p.delivered && ecn == protocol.ECT0 {
			// the path marks some packets as congestion-experienced
			if sc.ECN && KMix(sc.Seed, uint64(sendOrd))%6 == 0 {
				peerCE++
				res.Probe("ecn-ce-marked")
			} else {
				peerECT0++
			}
		}
		if netLoss {
			res.Fault("packet-lost")
		}
		res.Shape(fmt.Sprintf("S%d%v%v%v", sp, ackEliciting, p.mtu || p.pathProbe, netLoss))
		res.Logf("send %s pn=%d size=%d ackEl=%v mtu=%v probe=%v lost=%v mode=%v", sphSpaceName[sp], pn, size, ackEliciting, p.mtu, p.pathProbe, netLoss, mode)
		return true
	}

	isProtocolViolation := func(err error) bool {
		var te *qerr.TransportError
		return errors.As(err, &te) && uint64(te.ErrorCode) == 0xa
	}

	// honest ACK of a subset of what the peer received in a space
	doAck := func(sp int, pattern uint64, delay time.Duration, all bool, what string) {
		if !alive[sp] {
			return
		}
		var pns []protocol.PacketNumber
		for _, p := range sent[sp] {
			if p.delivered && !(p.zeroRTT && zeroRejected) {
				pns = append(pns, p.pn)
			}
		}
		if len(pns) == 0 {
			return
		}
		sort.Slice(pns, func(a, b int) bool { return pns[a] > pns[b] })
		r := NewKRng(pattern)
		// start from a random point (a peer that has not seen the newest yet) unless acking all
		if !all && r.P(0.3) {
			pns = pns[r.N(len(pns)):]
		}
		// forget the oldest
		if !all && r.P(0.3) {
			pns = pns[:1+r.N(len(pns))]
		}
		var ranges []wire.AckRange
		for i, pn := range pns {
			if !all && i > 0 && r.P(0.15) {
				continue
			}
			if n := len(ranges); n > 0 && ranges[n-1].Smallest == pn+1 {
				ranges[n-1].Smallest = pn
			} else {
				ranges = append(ranges, wire.AckRange{Smallest: pn, Largest: pn})
			}
		}
		// a peer also acknowledges whole runs across skipped numbers? No: it never received them.
		ack := &wire.AckFrame{AckRanges: ranges, DelayTime: delay}
		if sp == 2 {
			ack.ECT0, ack.ECNCE = peerECT0, peerCE
		}
		now := monotime.Now()
		lvl := sphLevels[sp]
		cwndBefore := h.congestion.GetCongestionWindow()
		// ordinal of the newest packet this ACK can concern (acknowledged, or declared lost below it)
		ackOrd := -1
		for _, p := range sent[sp] {
			if p.pn <= ranges[0].Largest && p.ord > ackOrd {
				ackOrd = p.ord
			}
		}
		if sc.Server {
			hi.ReceivedBytes(60, now)
			bytesRcvd += 60
		}
		hi.ReceivedPacket(lvl, now)
		if sc.Server && sp == 1 {
			validated = true
		}
		m.what = what
		_, err := hi.ReceivedAck(ack, lvl, now)
		gotAck = true
		if err == nil && sp >= 1 {
			peerValidated = true // an acknowledgment in a protected space: the server has processed a Handshake packet of the client
		}
		res.Shape(fmt.Sprintf("A%d/%d", sp, len(ranges)))
		res.Logf("ack %s %v delay=%v err=%v", sphSpaceName[sp], ranges, delay, err)
		if err != nil {
			res.Fail("honest ACK rejected", "%s %v: %v", sphSpaceName[sp], ranges, err)
		}
		// C20 clause on the real handler + sender: the window shrinks at most once per window of packets. Judged when only
		// the application space is left (packet numbers of different spaces are not comparable for the sender's guard).
		if cw := h.congestion.GetCongestionWindow(); cw < cwndBefore {
			res.Probe("cwnd-reduced")
			res.Logf("cwnd reduced %d -> %d by this ACK (newest packet concerned: ordinal %d; packets sent so far: %d; last reference %d)", cwndBefore, cw, ackOrd, sendOrd, lastCutOrd)
			res.Logf("cwnd reduced %d -> %d by this ACK (newest packet concerned: ordinal %d; packets sent so far: %d; last reference %d)", cwndBefore, cw, ackOrd, sendOrd, lastCutOrd)
			if sp == 2 && !alive[0] && !alive[1] && lastCutOrd >= 0 && ackOrd <= lastCutOrd && !migrated {
				sig := "congestion window reduced twice for packets of one window (every packet the ACK concerns was sent before the previous reduction)"
				for _, p := range sent[sp] {
					if p.pn == ranges[0].Largest && (!p.ackElic || p.pathProbe) {
						// the sender's recovery guard compares with the largest number the congestion controller was told about
						// (OnPacketSent: ack-eliciting packets that are not path probes) at the last reduction
						sig += ": the largest acknowledged packet is one the congestion controller never saw (not ack-eliciting, or a path probe)"
					}
				}
				res.Fail(sig, "cwnd %d -> %d; newest packet concerned has send ordinal %d, previous reduction happened after ordinal %d; ECN-CE count in this ACK %d", cwndBefore, cw, ackOrd, lastCutOrd, ack.ECNCE)
			}
			// (a reduction that happened while other number spaces existed is not a usable reference:
			// the sender's guard compares packet numbers, which are only comparable within one space)
			// (and the sender records "largest sent" from the last ack-eliciting packet of ANY space: a reference taken
			// while that was a packet of another space is not usable either)
			if sp == 2 && !alive[0] && !alive[1] && lastAckElicSpace == 2 {
				lastCutOrd = sendOrd
			} else {
				lastCutOrd = -1
				if sp == 2 && !alive[0] && !alive[1] {
					res.Probe("cut-reference-taken-from-another-number-space")
				}
			}
		}
	}

	fireTimer := func(extra time.Duration, after int, what string) {
		to := hi.GetLossDetectionTimeout()
		if to.IsZero() {
			return
		}
		d := monotime.Until(to)
		if d < 0 {
			d = 0
		}
		time.Sleep(d + extra)
		now := monotime.Now()
		to = hi.GetLossDetectionTimeout()
		if to.IsZero() || to.After(now) {
			return
		}
		m.what = what
		var peekBefore protocol.PacketNumber = -1
		if alive[2] {
			peekBefore, _ = hi.PeekPacketNumber(protocol.Encryption1RTT)
		}
		lossTime, _ := h.getLossTimeAndSpace()
		ptoBefore, ptoDue := h.ptoCount, monotime.Time(0)
		if confirmed && h.handshakeConfirmed && lossTime.IsZero() && h.appDataPackets.history.HasOutstandingPackets() {
			ptoDue, _ = h.getPTOTimeAndSpace(now)
		}
		err := hi.OnLossDetectionTimeout(now)
		// the alarm also serves the loss timer of path probe packets: its expiry alone is not a probe timeout
		if err == nil && !ptoDue.IsZero() && ptoDue.After(now) && h.ptoCount > ptoBefore {
			res.Fail("PTO count incremented although the probe timeout had not expired", "alarm fired at %v for another reason (loss timer of a path probe packet); the PTO was due %v later; count %d -> %d", now, ptoDue.Sub(now), ptoBefore, h.ptoCount)
			return
		}
		// a PTO in the application space burns one packet number (plus the generator's pending skip)
		if peekBefore >= 0 {
			if after, _ := hi.PeekPacketNumber(protocol.Encryption1RTT); after != peekBefore {
				for x := nextExpected[2]; x <= peekBefore; x++ {
					skipped = append(skipped, x)
					res.Probe("pn-skipped")
				}
				nextExpected[2] = peekBefore + 1
			}
		}
		if err != nil {
			res.Fail("OnLossDetectionTimeout returned an error", "%v", err)
			return
		}
		res.Probe("timer-fired")
		res.Shape("T")
		// C06, deadline clause seen from the other end: a deadline that expires must have an effect. A client whose peer has
		// not completed address validation (no acknowledgment in a protected space yet, handshake not confirmed) owes an
		// anti-deadlock probe at every PTO expiry, whatever is or is not in flight (RFC 9002, section 6.2.2.1) - in
		// particular with nothing but 0-RTT packets in flight.
		if !sc.Server && !peerValidated && !confirmed && (alive[0] || alive[1]) && lossTime.IsZero() {
			switch hi.SendMode(now) {
			case SendPTOInitial, SendPTOHandshake, SendPTOAppData:
				res.Probe("anti-deadlock-probe-requested")
			default:
				res.Fail("loss-detection deadline expired on a client whose peer has not completed address validation, but no probe is requested", "send mode %v after %s; spaces alive %v", hi.SendMode(now), what, alive)
				return
			}
		}
		res.Logf("timer fired after %v (+%v), mode now %v", d, extra, hi.SendMode(now))
		switch mode := hi.SendMode(now); mode {
		case SendPTOInitial, SendPTOHandshake, SendPTOAppData:
			res.Probe("pto-" + mode.String())
			sp := map[SendMode]int{SendPTOInitial: 0, SendPTOHandshake: 1, SendPTOAppData: 2}[mode]
			if after&1 == 1 && alive[sp] {
				// the connection first tries to retransmit; with nothing queued it asks the
				// handler to queue the oldest outstanding packet
				m.what = what + "/QueueProbePacket"
				if hi.QueueProbePacket(sphLevels[sp]) {
					res.Probe("probe-queued")
				}
				check(what + "/QueueProbePacket")
			}
			if after&2 == 2 {
				doSend(sp, 1200, 0, false, what+"/probe")
				check(what + "/probe")
			}
		}
	}

	for i, op := range sc.Ops {
		if res.Failed() || ended {
			break
		}
		res.Events++
		what := op.K
		switch op.K {
		case "send":
			var cand []int
			for sp := 0; sp < 3; sp++ {
				if alive[sp] {
					cand = append(cand, sp)
				}
			}
			sp := cand[int(op.A)%len(cand)]
			if sp == 2 && sc.Server && sc.ZeroRTT > 0 {
				sp = cand[0]
			}
			doSend(sp, protocol.ByteCount(op.B), int(op.C), op.D == 1, what)
		case "ack":
			sp := int(op.A) % 3
			if op.D == 0 {
				doAck(sp, uint64(op.B), time.Duration(op.C)*time.Millisecond, false, what)
				break
			}
			if !alive[sp] {
				break
			}
			// adversarial peer: acknowledges a number that was never sent, was skipped, or lies below the first one sent
			var ack *wire.AckFrame
			var kind string
			largest := nextExpected[sp] - 1
			switch op.D {
			case 1:
				pn := largest + 1 + protocol.PacketNumber(op.B%3)
				if len(sent[sp]) == 0 {
					pn = nextExpected[sp] + protocol.PacketNumber(op.B%3)
				}
				lo := pn
				if op.B%2 == 0 && len(sent[sp]) > 0 {
					lo = sent[sp][0].pn
				}
				ack = &wire.AckFrame{AckRanges: []wire.AckRange{{Smallest: lo, Largest: pn}}}
				kind = "never-sent number above the largest sent"
			case 2:
				if sp != 2 || len(skipped) == 0 {
					continue
				}
				idx := int(op.B) % len(skipped)
				pn := skipped[idx]
				if pn > largest || len(sent[2]) == 0 {
					continue
				}
				rank := len(skipped) - idx // 1 = most recently skipped
				lo, hi2 := pn, pn
				if op.B%3 == 0 && pn+1 <= largest {
					hi2 = pn + 1
				}
				if op.B%5 == 0 && pn-1 >= sent[2][0].pn {
					lo = pn - 1
				}
				ack = &wire.AckFrame{AckRanges: []wire.AckRange{{Smallest: lo, Largest: hi2}}}
				if rank <= 4 {
					kind = "deliberately skipped number (among the 4 most recent skips)"
				} else {
					kind = "deliberately skipped number (older than the 4 most recent skips)"
				}
			case 3:
				if firstSent[sp] <= 0 {
					continue
				}
				pn := firstSent[sp] - 1 - protocol.PacketNumber(op.B%2)
				if pn < 0 {
					pn = 0
				}
				ack = &wire.AckFrame{AckRanges: []wire.AckRange{{Smallest: pn, Largest: pn}}}
				// the number may also hide below numbers that were sent: one range reaching up into them, or a second range
				if len(sent[sp]) > 0 && largest >= firstSent[sp] {
					top := firstSent[sp] + protocol.PacketNumber(op.C%3)
					if top > largest {
						top = largest
					}
					switch op.C % 3 {
					case 1:
						ack = &wire.AckFrame{AckRanges: []wire.AckRange{{Smallest: pn, Largest: top}}}
					case 2:
						if pn+2 <= top {
							ack = &wire.AckFrame{AckRanges: []wire.AckRange{{Smallest: top, Largest: top}, {Smallest: pn, Largest: pn}}}
						}
					}
				}
				kind = "never-sent number below the first one sent"
			}
			if ack == nil {
				continue
			}
			res.Fault("adversarial-ack")
			res.Shape(fmt.Sprintf("X%d%d", sp, op.D))
			now := monotime.Now()
			if sc.Server {
				hi.ReceivedBytes(60, now)
				bytesRcvd += 60
			}
			hi.ReceivedPacket(sphLevels[sp], now)
			if sc.Server && sp == 1 {
				validated = true
			}
			m.what = "adversarial ack"
			_, err := hi.ReceivedAck(ack, sphLevels[sp], now)
			res.Logf("adversarial ack %s %v (%s): err=%v", sphSpaceName[sp], ack.AckRanges, kind, err)
			if !isProtocolViolation(err) {
				res.Fail("ACK for a "+kind+" is not a PROTOCOL_VIOLATION", "%s %v: err=%v", sphSpaceName[sp], ack.AckRanges, err)
			}
			ended = true // the connection is closed by this error
			continue
		case "timer":
			fireTimer(time.Duration(op.A)*time.Millisecond, int(op.B), what)
		case "tick":
			time.Sleep(time.Duration(op.A) * time.Millisecond)
			now := monotime.Now()
			if to := hi.GetLossDetectionTimeout(); !to.IsZero() && !to.After(now) {
				fireTimer(0, int(op.A)&3, "tick/timer")
			}
		case "drop":
			switch op.A {
			case 0:
				if alive[0] {
					m.what = what
					hi.DropPackets(protocol.EncryptionInitial, monotime.Now())
					alive[0] = false
					discardSpace(0, false)
					res.Shape("D0")
				}
			case 1:
				if !alive[0] && alive[1] {
					m.what = what
					hi.DropPackets(protocol.EncryptionHandshake, monotime.Now())
					alive[1] = false
					confirmed = true
					discardSpace(1, false)
					res.Shape("D1")
				}
			case 2:
				if !sc.Server && sc.ZeroRTT > 0 && !zeroRejected && !sent1RTT {
					m.what = what
					hi.DropPackets(protocol.Encryption0RTT, monotime.Now())
					zeroRejected = true
					discardSpace(2, true)
					res.Probe("0rtt-rejected")
					res.Shape("D2")
				}
			}
		case "rbytes":
			if sc.Server {
				hi.ReceivedBytes(protocol.ByteCount(op.A), monotime.Now())
				bytesRcvd += protocol.ByteCount(op.A)
			}
		case "rpkt":
			sp := int(op.A) % 3
			if alive[sp] {
				now := monotime.Now()
				if sc.Server {
					hi.ReceivedBytes(45, now)
					bytesRcvd += 45
				}
				hi.ReceivedPacket(sphLevels[sp], now)
				if sc.Server && sp == 1 {
					validated = true
				}
			}
		case "retry":
			if !sc.Server && !retried && !gotAck && alive[0] && len(sent[0]) > 0 && len(sent[1]) == 0 && !sent1RTT {
				m.what = what
				hi.ResetForRetry(monotime.Now())
				retried = true
				res.Probe("retry")
				res.Shape("R")
				// every ack-eliciting Initial and 0-RTT packet was reported lost through its frames
				for _, sp := range []int{0, 2} {
					for _, p := range sent[sp] {
						if p.ackElic && !p.gone {
							res.Fail("Retry: outstanding packet not reported lost", "space %d pn %d", sp, p.pn)
						}
						p.gone, p.inFlight, p.delivered = true, false, false
					}
				}
			}
		case "migrate":
			if confirmed {
				m.what = what
				hi.MigratedPath(monotime.Now(), 1200)
				res.Probe("migrated")
				migrated = true
				res.Shape("M")
				for _, p := range sent[2] {
					if p.pathProbe && !p.gone {
						// probes of the old path are dropped without a report (or reported lost later)
						p.gone = true
						for _, id := range p.frames {
							m.frames[id].optional = true
						}
					}
					if p.ackElic && !p.pathProbe && !p.gone {
						res.Fail("path migration: outstanding packet not reported lost", "pn %d", p.pn)
					}
				}
			}
		case "mtu":
			// the MTU discoverer only ever raises the size
			if protocol.ByteCount(op.A) > curMTU {
				curMTU = protocol.ByteCount(op.A)
				hi.SetMaxDatagramSize(curMTU)
			}
		}
		check(fmt.Sprintf("%s", what))
		_ = i
	}

	// drain: the network heals, the peer acknowledges everything it has, timers run.
	// Afterwards every frame of a space that still exists must be resolved exactly once.
	if !res.Failed() && !ended {
		if sc.Server {
			hi.ReceivedBytes(1<<20, monotime.Now())
			bytesRcvd += 1 << 20
		}
		for round := 0; round < 40 && !res.Failed(); round++ {
			pending := false
			for sp := 0; sp < 3; sp++ {
				if !alive[sp] {
					continue
				}
				for _, p := range sent[sp] {
					if p.ackElic && !p.gone {
						pending = true
					}
				}
			}
			if !pending {
				break
			}
			for sp := 0; sp < 3; sp++ {
				if alive[sp] && (sp < 2 || confirmed) {
					// make sure something newer than every pending packet gets through
					for k := 0; k < 4; k++ {
						if doSend(sp, 100, 0, false, "drain/send") {
							break
						}
						time.Sleep(50 * time.Millisecond)
						if to := hi.GetLossDetectionTimeout(); !to.IsZero() && !to.After(monotime.Now()) {
							fireTimer(0, 0, "drain/timer")
						}
					}
				}
			}
			time.Sleep(20 * time.Millisecond)
			for sp := 0; sp < 3; sp++ {
				doAck(sp, 1, 0, true, "drain/ack")
			}
			check("drain/ack")
			fireTimer(0, 2, "drain/timer")
			check("drain/timer")
			if !confirmed && !alive[0] && !alive[1] {
				break
			}
		}
		for sp := 0; sp < 3 && !res.Failed(); sp++ {
			if !alive[sp] || (sp == 2 && !confirmed) {
				continue
			}
			for _, p := range sent[sp] {
				if p.ackElic && !p.gone {
					res.Fail("frame never resolved although the network healed and all timers ran", "space %s pn %d mtu=%v probe=%v delivered=%v", sphSpaceName[sp], p.pn, p.mtu, p.pathProbe, p.delivered)
					break
				}
			}
		}
	}
	res.SimNS = int64(time.Since(t0))
	res.TraceU(uint64(h.bytesInFlight), uint64(res.Events), uint64(res.SimNS), uint64(len(m.frames)), uint64(hi.GetLossDetectionTimeout()))
	for _, f := range m.frames {
		res.TraceAdd(f.resolved)
	}
	res.Nontrivial = res.Nontrivial || len(m.frames) > 3
}

func firstSentOr(first, pn protocol.PacketNumber) protocol.PacketNumber {
	if first < 0 {
		return pn
	}
	return first
}
