package ackhandler

// K:rph - component simulation of the received-packet side of the ack handler
// (property C07): the real ReceivedPacketHandler (per-space trackers, packet
// history, ACK queueing policy and alarm, ECN counts) driven by a seeded
// history of packet arrivals (new largest, gaps, hole fillers, late packets,
// duplicates, numbers outside the tracked history), time steps, ACK retrieval
// calls, alarm expiries, forget-below updates and key drops, against a
// set-based reference model. Plus a bounded exhaustive sweep over all arrival
// sequences of small packet-number universes.
// Overlay file of /verif; never part of /repo.
//
// Calling contract taken from /repo/connection.go and /repo/packet_packer.go:
//   - IsPotentiallyDuplicate(pn, level) is asked first; a packet it flags is
//     dropped and never fed to ReceivedPacket;
//   - frames are handled before ReceivedPacket: an acknowledgement of one of our
//     ACK-carrying packets calls IgnorePacketsBelow(largestAcked+1) of an ACK
//     frame we produced earlier, and the carrying packet (whose number is not
//     below that value for a conformant peer) is fed right afterwards;
//   - nothing is asked about a number space after its keys were dropped, except
//     GetAckFrame (nil-safe) and, for Handshake, the ReceivedPacket of the very
//     packet whose processing dropped the keys;
//   - GetAckFrame hands out one re-used frame per space: the caller copies it
//     at once and may Truncate it (the packer does).

import (
	"fmt"
	"sort"
	"testing"
	"time"

	"github.com/refraction-networking/uquic/internal/monotime"
	"github.com/refraction-networking/uquic/internal/protocol"
	"github.com/refraction-networking/uquic/internal/utils"
	"github.com/refraction-networking/uquic/internal/wire"
)

func init() { KRegister(rphSim()) }

type rphOp struct {
	K    string `json:"k"`
	Sp   int    `json:"sp,omitempty"`   // space selector (0 Initial, 1 Handshake, 2 application)
	M    int    `json:"m,omitempty"`    // rx: how the packet number is chosen (see rphChoosePN)
	N    int64  `json:"n,omitempty"`    // parameter of the kind / mode
	AE   bool   `json:"ae,omitempty"`   // rx: ack-eliciting
	ECN  int    `json:"ecn,omitempty"`  // rx: 0 unsupported, 1 Not-ECT, 2 ECT(1), 3 ECT(0), 4 CE
	Poll int    `json:"poll,omitempty"` // rx: GetAckFrame right after the arrival: 0 no, 1 only-if-queued, 2 forced
	Ign  int64  `json:"ign,omitempty"`  // rx: >0: the packet acknowledges the (ign-1)-th ACK-carrying packet we sent
	Lag  int64  `json:"lag,omitempty"`  // rx: receive timestamp lies this many microseconds before "now"
	Bad  bool   `json:"bad,omitempty"`  // rx (adversary class): 0-RTT protection although the number belongs to 1-RTT
	Q    bool   `json:"q,omitempty"`    // poll: onlyIfQueued
	Tr   int64  `json:"tr,omitempty"`   // poll / rx: >0: the caller truncates the frame to this size (like the packer)
}

type rphScenario struct {
	Seed      uint64   `json:"seed"`
	Base      [3]int64 `json:"base"`       // first packet number the peer uses per space
	ZeroRTT   int64    `json:"zero_rtt"`   // application numbers below Base[2]+ZeroRTT are 0-RTT packets
	AutoAlarm bool     `json:"auto_alarm"` // the caller asks for an ACK whenever the ACK alarm time passes (connection timer)
	Adversary bool     `json:"adversary"`  // peer may protect a packet with 0-RTT keys above its 1-RTT numbers
	FullScan  bool     `json:"full_scan"`  // duplicate scan over the whole model after every operation
	Ops       []rphOp  `json:"ops"`
}

func (s *rphScenario) KSeed() uint64 { return s.Seed }

func rphSim() *KSim {
	return &KSim{
		Name:  "rph",
		New:   func() KScenario { return &rphScenario{} },
		Gen:   rphGen,
		Run:   runRPH,
		Sweep: rphSweep,
	}
}

// ---- generator

func rphWeighted(r *KRng, w []int) int {
	sum := 0
	for _, x := range w {
		sum += x
	}
	x := r.N(sum)
	for i, v := range w {
		if x < v {
			return i
		}
		x -= v
	}
	return len(w) - 1
}

var rphModeIDs = []int{0, 1, 2, 3, 4, 5, 6, 8}

func rphGen(seed uint64, tier string) KScenario {
	r := NewKRng(seed)
	sc := &rphScenario{Seed: seed}
	for i := 0; i < 3; i++ {
		if r.P(0.4) {
			sc.Base[i] = []int64{1, 2, 7, 1000, 1<<14 - 1, 1 << 32, 1 << 60}[r.N(7)]
		}
	}
	if r.P(0.25) {
		sc.ZeroRTT = int64(1 + r.N(6))
	}
	sc.AutoAlarm = r.P(0.5)
	sc.Adversary = r.P(0.08)
	//                 rx tick poll alarm ignore drop scan
	kindW := [][]int{
		{55, 15, 12, 5, 3, 8, 2},  // handshake + application
		{55, 20, 8, 8, 6, 1, 2},   // steady application traffic
		{82, 5, 4, 3, 1, 1, 3},    // many gaps
		{45, 15, 15, 10, 7, 5, 3}, // chaos
	}
	//               next gap jump hole late dup any outside
	modeW := [][]int{
		{45, 10, 2, 12, 5, 15, 8, 3},
		{60, 8, 1, 10, 2, 10, 6, 3},
		{5, 58, 8, 8, 2, 6, 4, 9},
		{15, 15, 5, 15, 10, 15, 15, 10},
	}
	prof := rphWeighted(r, []int{30, 30, 15, 25})
	n := r.Range(5, 60)
	if prof == 2 {
		n = r.Range(75, 170)
		if tier == "thorough" && r.P(0.4) {
			n = r.Range(170, 420)
		}
	} else if tier == "thorough" && r.P(0.3) {
		n = r.Range(60, 300)
	}
	gapSpace := 2
	if r.P(0.2) {
		gapSpace = r.N(2)
	}
	ecnProf := r.N(4) // 0 none, 1 ECT(0) with some CE, 2 random, 3 unsupported
	pollP, forceP := 0.3, 0.1
	if prof == 1 {
		pollP, forceP = 0.7, 0.1
	}
	if prof == 2 {
		pollP, forceP = 0.1, 0.03
	}
	for i := 0; i < n; i++ {
		var op rphOp
		switch rphWeighted(r, kindW[prof]) {
		case 0:
			op = rphOp{K: "rx", M: rphModeIDs[rphWeighted(r, modeW[prof])], N: int64(r.U64() >> 34), AE: r.P(0.75)}
			switch prof {
			case 0, 3:
				op.Sp = r.N(3)
			case 1:
				op.Sp = 2
				if r.P(0.1) {
					op.Sp = r.N(3)
				}
			case 2:
				op.Sp = gapSpace
				if r.P(0.05) {
					op.Sp = r.N(3)
				}
			}
			switch ecnProf {
			case 0:
				op.ECN = 1
			case 1:
				op.ECN = 3
				if r.P(0.12) {
					op.ECN = 4
				}
			case 2:
				op.ECN = r.N(5)
			}
			if x := r.F(); x < forceP {
				op.Poll = 2
			} else if x < forceP+pollP {
				op.Poll = 1
			}
			if (prof != 2 && r.P(0.12)) || r.P(0.02) {
				op.Ign = int64(1 + r.N(8))
			}
			op.Lag = int64(r.Pick(0, 0, 0, 50, 500, 3000))
			if op.Poll != 0 && r.P(0.15) {
				op.Tr = int64(r.Pick(50, 100, 1000))
			}
			if sc.Adversary && r.P(0.1) {
				op.Bad = true
			}
		case 1:
			op = rphOp{K: "tick", N: int64(r.Pick(0, 100, 1000, 5000, 12000, 24000, 24999, 25000, 25001, 26000, 30000, 1000000))}
		case 2:
			op = rphOp{K: "poll", Sp: r.N(3), Q: r.P(0.6), Tr: int64(r.Pick(0, 0, 0, 50, 100, 1000))}
			if prof == 1 && r.P(0.8) {
				op.Sp = 2
			}
		case 3:
			op = rphOp{K: "alarm", N: int64(r.Pick(-1000000, -1000, -1, 0, 0, 1, 1000, 1000000, 30000000))}
		case 4:
			op = rphOp{K: "ignore", N: int64(r.N(16))}
		case 5:
			op = rphOp{K: "drop", N: int64(r.N(4))}
		default:
			op = rphOp{K: "scan"}
		}
		sc.Ops = append(sc.Ops, op)
	}
	return sc
}

// ---- bounded exhaustive sweep

// One block enumerates every sequence of l arrivals over the packet numbers
// base..base+n-1 (repetitions are duplicates, omissions are gaps, every order
// occurs), times every ack-eliciting assignment of the first flagPos arrivals,
// optionally times every CE assignment, every forget-below assignment and every
// ACK retrieval pattern (none / only-if-queued / forced after each arrival).
type rphBlock struct {
	sp, n, l int
	flagPos  int   // arrivals 0..flagPos-1 have a free ack-eliciting flag, the others are ack-eliciting
	ce       bool  // free CE mark per arrival
	ign      bool  // free "acknowledges our newest ACK-carrying packet" flag per arrival
	pollPos  int   // arrivals 0..pollPos-1 have a free retrieval digit (3 values); the others use poll
	poll     int   // fixed retrieval mode
	base     int64 // first number of the universe
}

func (b rphBlock) size() int {
	s := 1
	for i := 0; i < b.l; i++ {
		s *= b.n
	}
	s <<= uint(b.flagPos)
	if b.ce {
		s <<= uint(b.l)
	}
	if b.ign {
		s <<= uint(b.l)
	}
	for i := 0; i < b.pollPos; i++ {
		s *= 3
	}
	return s
}

func rphBlocks(tier string) []rphBlock {
	if tier == "thorough" {
		return []rphBlock{
			{sp: 2, n: 7, l: 7, poll: 2},                                 // 823543
			{sp: 2, n: 5, l: 6, flagPos: 5, poll: 1, base: 1000},         // 500000
			{sp: 2, n: 3, l: 4, flagPos: 4, pollPos: 4, base: 1 << 32},   // 104976
			{sp: 2, n: 3, l: 4, flagPos: 4, ce: true, poll: 1, base: 5},  // 20736
			{sp: 2, n: 4, l: 4, flagPos: 4, ign: true, poll: 2, base: 1}, // 65536
			{sp: 0, n: 4, l: 5, flagPos: 5, poll: 1, base: 2},            // 32768
		}
	}
	return []rphBlock{
		{sp: 2, n: 6, l: 6, poll: 2},                                 // 46656
		{sp: 2, n: 4, l: 5, flagPos: 5, poll: 1, base: 1000},         // 32768
		{sp: 2, n: 3, l: 3, flagPos: 3, pollPos: 3, base: 1 << 32},   // 5832
		{sp: 2, n: 3, l: 3, flagPos: 3, ce: true, poll: 1, base: 5},  // 1728
		{sp: 2, n: 3, l: 3, flagPos: 3, ign: true, poll: 2, base: 1}, // 1728
		{sp: 0, n: 3, l: 4, flagPos: 4, poll: 1, base: 2},            // 1296
	}
}

func rphSweep(idx int, tier string) KScenario {
	if idx < 0 {
		return nil
	}
	for bi, b := range rphBlocks(tier) {
		sz := b.size()
		if idx >= sz {
			idx -= sz
			continue
		}
		x := idx
		sc := &rphScenario{Seed: KMix(0x727068, uint64(bi), uint64(idx)), AutoAlarm: true, FullScan: true}
		sc.Base[b.sp] = b.base
		pns := make([]int64, b.l)
		for i := 0; i < b.l; i++ {
			pns[i] = int64(x % b.n)
			x /= b.n
		}
		flags := x & (1<<uint(b.flagPos) - 1)
		x >>= uint(b.flagPos)
		ce, ign := 0, 0
		if b.ce {
			ce = x & (1<<uint(b.l) - 1)
			x >>= uint(b.l)
		}
		if b.ign {
			ign = x & (1<<uint(b.l) - 1)
			x >>= uint(b.l)
		}
		for i := 0; i < b.l; i++ {
			op := rphOp{K: "rx", Sp: b.sp, M: 7, N: pns[i], AE: true, ECN: 1, Poll: b.poll}
			if i < b.flagPos {
				op.AE = flags>>uint(i)&1 == 1
			}
			if ce>>uint(i)&1 == 1 {
				op.ECN = 4
			}
			if ign>>uint(i)&1 == 1 {
				op.Ign = 1 << 40 // the newest one (the index is taken from the end, see rx)
			}
			if i < b.pollPos {
				op.Poll = x % 3
				x /= 3
			}
			sc.Ops = append(sc.Ops, op, rphOp{K: "tick", N: 1000})
		}
		return sc
	}
	return nil
}

// ---- reference model

type rphPend struct {
	pn int64
	t  monotime.Time
}

type rphSpace struct {
	alive       bool
	all         []int64 // sorted: every number ever processed in this space (ground truth)
	tracked     []int64 // sorted: numbers the endpoint is expected to still have in its history
	ignore      int64   // the peer allowed forgetting everything below
	prunedBelow int64   // numbers below fell out of the history through the range limit (-1: none)
	largest     int64   // largest number processed (-1: none)
	maxAE       int64   // largest ack-eliciting number processed (-1: none)
	pending     []rphPend
	must        string // why an ACK has to be obtainable right now ("" = it does not have to)
	ecn         [3]uint64
	acks        []int64 // largest acknowledged of every ACK frame retrieved (candidates for forget-below)
	fed         int
}

func rphHas(s []int64, x int64) bool {
	i := sort.Search(len(s), func(i int) bool { return s[i] >= x })
	return i < len(s) && s[i] == x
}

func rphInsert(s []int64, x int64) []int64 {
	i := sort.Search(len(s), func(i int) bool { return s[i] >= x })
	if i < len(s) && s[i] == x {
		return s
	}
	s = append(s, 0)
	copy(s[i+1:], s[i:])
	s[i] = x
	return s
}

// rphCountIn counts the members of s in [lo,hi].
func rphCountIn(s []int64, lo, hi int64) int64 {
	a := sort.Search(len(s), func(i int) bool { return s[i] >= lo })
	b := sort.Search(len(s), func(i int) bool { return s[i] > hi })
	return int64(b - a)
}

// rphRangeStarts returns the index in s of the first element of every maximal run.
func rphRangeStarts(s []int64) []int {
	var st []int
	for i := range s {
		if i == 0 || s[i] != s[i-1]+1 {
			st = append(st, i)
		}
	}
	return st
}

// RFC 9000: max_ack_delay default, which this code base applies to itself, and
// the timer granularity it adds when advertising the value.
const rphMaxAckDelay = 25 * time.Millisecond
const rphGranularity = time.Millisecond

var rphLevels = []protocol.EncryptionLevel{protocol.EncryptionInitial, protocol.EncryptionHandshake, protocol.Encryption1RTT}
var rphSpaceName = []string{"initial", "handshake", "app"}

const (
	rphWhyLong     = "an ack-eliciting Initial/Handshake packet arrived"
	rphWhySecond   = "it was the second ack-eliciting packet since the last ACK"
	rphWhyReorder  = "an ack-eliciting packet arrived below an earlier ack-eliciting one (it fills a gap)"
	rphWhyGap      = "an ack-eliciting packet revealed a new gap"
	rphWhyGapBelow = "an ack-eliciting packet arrived above the highest ack-eliciting one, below a larger packet, with numbers missing in between that no ACK has reported yet (it reveals a gap)"
	rphWhyCE       = "an ack-eliciting packet was CE-marked"
	rphWhyNoAlarm  = "an unacknowledged ack-eliciting packet has no ACK alarm"
	rphWhyAlarmDue = "the ACK alarm time was reached"
)

func runRPH(t *testing.T, ksc KScenario, res *KResult) {
	sc := ksc.(*rphScenario)
	monotime.VerifSetStart(time.Now().Add(-time.Hour))
	t0 := time.Now()
	h := NewReceivedPacketHandler(utils.DefaultLogger)

	var sp [3]*rphSpace
	for i := range sp {
		sp[i] = &rphSpace{alive: true, prunedBelow: -1, largest: -1, maxAE: -1}
	}
	var lastRcv monotime.Time
	ended := false
	boundary := int64(-1) // application numbers below are 0-RTT
	if sc.ZeroRTT > 0 {
		boundary = sc.Base[2] + sc.ZeroRTT
	}

	// ---- oracles

	// (3) duplicate detection against the model, for one number
	dupCheck := func(i int, pn int64, lvl protocol.EncryptionLevel, what string) bool {
		s := sp[i]
		inAll, inTracked := rphHas(s.all, pn), rphHas(s.tracked, pn)
		dup := h.IsPotentiallyDuplicate(protocol.PacketNumber(pn), lvl)
		switch {
		case inTracked && !dup:
			res.Fail("received packet number within the tracked history is not recognised as a duplicate", "%s: space %s pn %d", what, rphSpaceName[i], pn)
		case inAll && pn < s.ignore && !dup:
			res.Fail("received packet number below the forget threshold is not recognised as a duplicate", "%s: space %s pn %d threshold %d", what, rphSpaceName[i], pn, s.ignore)
		case !inAll && pn >= s.ignore && pn >= s.prunedBelow && dup:
			res.Fail("never-received packet number within the tracked history range is reported as a duplicate", "%s: space %s pn %d (threshold %d, pruned below %d)", what, rphSpaceName[i], pn, s.ignore, s.prunedBelow)
		}
		return dup
	}

	scan := func(what string) {
		for i := 0; i < 3 && !res.Failed(); i++ {
			s := sp[i]
			if !s.alive {
				continue
			}
			lvl := rphLevels[i]
			for _, pn := range s.all {
				dupCheck(i, pn, lvl, what)
			}
			// never-received numbers: both ends of every hole of the tracked history, and just above it
			for k := 1; k < len(s.tracked); k++ {
				if a, b := s.tracked[k-1], s.tracked[k]; b > a+1 {
					dupCheck(i, a+1, lvl, what)
					dupCheck(i, b-1, lvl, what)
				}
			}
			if s.largest >= 0 {
				dupCheck(i, s.largest+1, lvl, what)
				dupCheck(i, s.largest+1000, lvl, what)
			}
		}
	}

	// (2) an unacknowledged ack-eliciting application packet is covered by a queued ACK or by the alarm
	checkPending := func(what string) {
		s := sp[2]
		if res.Failed() || len(s.pending) == 0 || s.must != "" {
			return
		}
		a := h.GetAlarmTimeout()
		if a.IsZero() {
			s.must = rphWhyNoAlarm
			return
		}
		if limit := s.pending[0].t.Add(rphMaxAckDelay + rphGranularity); a.After(limit) {
			res.Fail("ACK alarm is later than the maximum ack delay after an ack-eliciting arrival", "after %s: pn %d arrived at %d, alarm %d = arrival + %v", what, s.pending[0].pn, s.pending[0].t, a, a.Sub(s.pending[0].t))
		}
	}

	// (1) + (4) + coverage: everything about one ACK frame that was handed out
	checkAck := func(i int, ack *wire.AckFrame, what string) {
		s := sp[i]
		name := rphSpaceName[i]
		rs := ack.AckRanges
		if len(rs) == 0 {
			res.Fail("ACK frame without ranges", "%s: space %s", what, name)
			return
		}
		for k, r := range rs {
			if r.Smallest > r.Largest || r.Smallest < 0 {
				res.Fail("malformed ACK range (Smallest > Largest)", "%s: space %s ranges %v", what, name, rs)
				return
			}
			if k > 0 && r.Largest+1 >= rs[k-1].Smallest {
				res.Fail("ACK ranges not descending, disjoint and non-adjacent", "%s: space %s ranges %v", what, name, rs)
				return
			}
		}
		if int64(rs[0].Largest) != s.largest {
			res.Fail("ACK does not start at the largest received packet number", "%s: space %s largest acked %d, largest received %d", what, name, rs[0].Largest, s.largest)
			return
		}
		for _, r := range rs {
			lo, hi := int64(r.Smallest), int64(r.Largest)
			if got := rphCountIn(s.all, lo, hi); got != hi-lo+1 {
				res.Fail("ACK acknowledges a packet number that was never received", "%s: space %s range [%d,%d] but only %d of them received; ranges %v", what, name, lo, hi, got, rs)
				return
			}
			if lo < s.ignore {
				res.Fail("ACK acknowledges a packet number below the forget threshold", "%s: space %s range [%d,%d] threshold %d", what, name, lo, hi, s.ignore)
				return
			}
		}
		acked := func(pn int64) bool {
			for _, r := range rs {
				if pn >= int64(r.Smallest) && pn <= int64(r.Largest) {
					return true
				}
			}
			return false
		}
		for _, p := range s.pending {
			if p.pn < s.ignore || !rphHas(s.tracked, p.pn) {
				res.Probe("pending-packet-outside-history")
				continue
			}
			if !acked(p.pn) {
				res.Fail("ACK omits an unacknowledged ack-eliciting packet that is within the tracked history", "%s: space %s pn %d ranges %v", what, name, p.pn, rs)
				return
			}
		}
		if ack.ECT0 != s.ecn[0] || ack.ECT1 != s.ecn[1] || ack.ECNCE != s.ecn[2] {
			res.Fail("ECN counts in the ACK frame differ from the packets received with each mark", "%s: space %s frame ect0=%d ect1=%d ce=%d model ect0=%d ect1=%d ce=%d", what, name, ack.ECT0, ack.ECT1, ack.ECNCE, s.ecn[0], s.ecn[1], s.ecn[2])
			return
		}
		// completeness beyond the property's wording is only noted
		if n := len(s.tracked); n > 0 {
			for _, pn := range s.tracked {
				if !acked(pn) {
					res.Note("ACK omits an already acknowledged number that is still within the tracked history")
					break
				}
			}
		}
		if len(rs) > 1 {
			res.Probe("ack-with-gaps")
		}
		if len(rs) >= protocol.MaxNumAckRanges {
			res.Probe("ack-with-max-ranges")
		}
	}

	poll := func(i int, onlyIfQueued bool, trunc int64, what string) {
		if res.Failed() {
			return
		}
		s := sp[i]
		now := monotime.Now()
		why := s.must
		if i == 2 && why == "" && len(s.pending) > 0 {
			if a := h.GetAlarmTimeout(); !a.IsZero() && !a.After(now) {
				why = rphWhyAlarmDue
			}
		}
		ack := h.GetAckFrame(rphLevels[i], now, onlyIfQueued)
		if !s.alive {
			if ack != nil {
				res.Note("ACK frame produced for a packet number space whose keys were dropped")
			}
			res.Shape(fmt.Sprintf("P%d-dead", i))
			return
		}
		if ack == nil {
			res.Shape(fmt.Sprintf("P%d%v-nil", i, onlyIfQueued))
			res.TraceU(0x50, uint64(i), 0)
			if why != "" {
				res.Fail("no ACK obtainable although "+why, "%s: space %s onlyIfQueued=%v now=%d alarm=%d pending=%v", what, rphSpaceName[i], onlyIfQueued, now, h.GetAlarmTimeout(), s.pending)
			}
			return
		}
		res.Logf("  ack %s %v delay=%v ecn=%d/%d/%d (why due: %q)", rphSpaceName[i], ack.AckRanges, ack.DelayTime, ack.ECT0, ack.ECT1, ack.ECNCE, why)
		res.Probe("ack-" + rphSpaceName[i])
		if why != "" {
			res.Probe("ack-due: " + why)
		} else if len(s.pending) > 0 {
			res.Probe("ack-early")
		}
		res.Shape(fmt.Sprintf("P%d%v-%d", i, onlyIfQueued, min(len(ack.AckRanges), 4)))
		res.TraceU(0x51, uint64(i), uint64(len(ack.AckRanges)), uint64(ack.DelayTime), ack.ECT0, ack.ECT1, ack.ECNCE)
		for _, r := range ack.AckRanges {
			res.TraceU(uint64(r.Smallest), uint64(r.Largest))
		}
		if len(s.pending) == 0 {
			res.Note("ACK frame produced although no ack-eliciting packet arrived since the last one")
		}
		checkAck(i, ack, what)
		if res.Failed() {
			return
		}
		s.acks = append(s.acks, int64(ack.AckRanges[0].Largest))
		s.pending = s.pending[:0]
		s.must = ""
		if i == 2 {
			if a := h.GetAlarmTimeout(); !a.IsZero() {
				res.Note("ACK alarm still armed right after an ACK frame was retrieved")
			}
		}
		if trunc > 0 {
			// the packer truncates the very frame the tracker keeps as "last ACK"
			before := len(ack.AckRanges)
			ack.Truncate(protocol.ByteCount(trunc), protocol.Version1)
			if len(ack.AckRanges) < before {
				res.Probe("ack-truncated-by-caller")
			}
		}
	}

	// time passes; in the auto-alarm class the caller behaves like the connection's timer
	sleepTo := func(target monotime.Time, what string) {
		for k := 0; sc.AutoAlarm && k < 8 && !res.Failed(); k++ {
			a := h.GetAlarmTimeout()
			if a.IsZero() || a.After(target) {
				break
			}
			if d := a.Sub(monotime.Now()); d > 0 {
				time.Sleep(d)
			}
			res.Probe("alarm-auto")
			before := len(sp[2].pending)
			poll(2, true, 0, what+"/alarm")
			if before == 0 {
				break // a spurious alarm is noted by poll; do not spin on it
			}
		}
		if d := target.Sub(monotime.Now()); d > 0 {
			time.Sleep(d)
		}
	}

	applyIgnore := func(x int64) {
		s := sp[2]
		h.IgnorePacketsBelow(protocol.PacketNumber(x))
		if x > s.ignore {
			s.ignore = x
			k := sort.Search(len(s.tracked), func(i int) bool { return s.tracked[i] >= x })
			s.tracked = append(s.tracked[:0], s.tracked[k:]...)
			res.Probe("forget-below-raised")
		}
	}

	// a number in [lo, hi] that was never received, is still within what the tracker remembers, and lies above everything an ACK reported
	unreportedMissing := func(s *rphSpace, lo, hi int64) bool {
		for m := max(lo, s.ignore, s.prunedBelow+1, 0); m <= hi; m++ {
			if !rphHas(s.all, m) {
				return true
			}
		}
		return false
	}

	// the model's bookkeeping of one processed packet
	record := func(i int, pn int64, ecn protocol.ECN, ae bool, rcv monotime.Time) {
		s := sp[i]
		wasNew := !rphHas(s.all, pn)
		if !wasNew {
			res.Probe("reprocessed-outside-history")
		}
		prevLargest, prevMaxAE := s.largest, s.maxAE
		s.all = rphInsert(s.all, pn)
		s.tracked = rphInsert(s.tracked, pn)
		if st := rphRangeStarts(s.tracked); len(st) > protocol.MaxNumAckRanges {
			cut := st[len(st)-protocol.MaxNumAckRanges]
			if s.tracked[cut] > s.prunedBelow {
				s.prunedBelow = s.tracked[cut]
			}
			s.tracked = append(s.tracked[:0], s.tracked[cut:]...)
			res.Probe("range-limit-pruned-" + rphSpaceName[i])
		}
		switch ecn {
		case protocol.ECT0:
			s.ecn[0]++
		case protocol.ECT1:
			s.ecn[1]++
		case protocol.ECNCE:
			s.ecn[2]++
		}
		if pn > s.largest {
			s.largest = pn
		}
		s.fed++
		if !ae {
			return
		}
		s.pending = append(s.pending, rphPend{pn, rcv})
		why := ""
		switch {
		case i < 2:
			why = rphWhyLong
		case len(s.pending) >= 2:
			why = rphWhySecond
		case wasNew && prevMaxAE > pn:
			why = rphWhyReorder
		case wasNew && prevMaxAE >= 0 && pn > prevLargest+1:
			why = rphWhyGap
		case wasNew && prevMaxAE >= 0 && pn > prevMaxAE && pn < prevLargest && len(s.acks) > 0 && unreportedMissing(s, max(prevMaxAE, s.acks[len(s.acks)-1])+1, pn-1):
			// RFC 9000 13.2.1, second case, when the largest packet received so far was not ack-eliciting
			why = rphWhyGapBelow
		case ecn == protocol.ECNCE:
			why = rphWhyCE
		default:
			res.Probe("ack-may-be-delayed")
			// literal RFC 9000 13.2.1 reading (larger than the highest ack-eliciting packet with
			// numbers missing in between) although every such number was reported missing before
			if wasNew && prevMaxAE >= 0 && pn > prevMaxAE && rphCountIn(s.all, prevMaxAE+1, pn-1) < pn-1-prevMaxAE {
				res.Probe("old-gap-above-highest-ack-eliciting")
			}
		}
		if why != "" && s.must == "" {
			s.must = why
		}
		if pn > s.maxAE {
			s.maxAE = pn
		}
	}

	choosePN := func(i int, mode int, n int64) (int64, bool) {
		s := sp[i]
		if n < 0 {
			n = -n
		}
		if mode == 7 {
			return sc.Base[i] + n, true
		}
		if s.largest < 0 {
			return sc.Base[i] + n%3, true
		}
		switch mode {
		case 0:
			return s.largest + 1, true
		case 1:
			return s.largest + 2 + n%5, true
		case 2:
			return s.largest + 1000 + n%100000, true
		case 3: // into a hole of the tracked history
			var holes [][2]int64
			for k := 1; k < len(s.tracked); k++ {
				if a, b := s.tracked[k-1], s.tracked[k]; b > a+1 {
					holes = append(holes, [2]int64{a + 1, b - 1})
				}
			}
			if len(holes) == 0 {
				return 0, false
			}
			// prefer recent holes
			var hl [2]int64
			if n&1 == 1 {
				hl = holes[len(holes)-1-int((n>>1)%int64(min(len(holes), 3)))]
			} else {
				hl = holes[int((n>>1)%int64(len(holes)))]
			}
			switch (n >> 8) % 3 {
			case 0:
				return hl[0], true
			case 1:
				return hl[1], true
			}
			return hl[0] + (hl[1]-hl[0])/2, true
		case 4: // just below everything received so far
			pn := s.all[0] - 1 - n%3
			return pn, pn >= 0
		case 5: // exact duplicate of a processed one
			if n&1 == 1 {
				return s.all[len(s.all)-1-int((n>>1)%int64(min(len(s.all), 4)))], true
			}
			return s.all[int((n>>1)%int64(len(s.all)))], true
		case 6: // far below, or anywhere up to the largest
			if pn := s.largest - 100 - n%5000; pn >= 0 && n&1 == 1 {
				return pn, true
			}
			lo := s.largest - 40
			if lo < 0 || n&2 == 2 {
				lo = 0
			}
			return lo + (n>>2)%(s.largest-lo+1), true
		case 8: // below the point the range limit pruned to
			if s.prunedBelow <= 0 {
				return 0, false
			}
			pn := s.prunedBelow - 1 - n%40
			return pn, pn >= 0
		}
		return 0, false
	}

	rx := func(op rphOp, what string) {
		i := op.Sp % 3
		if i < 0 || !sp[i].alive {
			i = 2
		}
		s := sp[i]
		pn, ok := choosePN(i, op.M, op.N)
		if !ok {
			res.Probe("rx-not-applicable")
			return
		}
		lvl := rphLevels[i]
		zero := false
		if i == 2 && pn < boundary {
			lvl, zero = protocol.Encryption0RTT, true
		}
		bad := false
		if i == 2 && op.Bad && sc.Adversary && boundary >= 0 && !zero {
			lvl, bad = protocol.Encryption0RTT, true
		}
		ecn := protocol.ECN(op.ECN % 5)
		now := monotime.Now()
		rcv := now.Add(-time.Duration(op.Lag) * time.Microsecond)
		if rcv < lastRcv {
			rcv = lastRcv
		}
		res.Probe(fmt.Sprintf("rx-mode-%d", op.M))
		inAll := rphHas(s.all, pn)
		dup := dupCheck(i, pn, lvl, what)
		res.Logf("rx %s pn=%d lvl=%v ae=%v ecn=%v dup=%v (processed before: %v, tracked: %v)", rphSpaceName[i], pn, lvl, op.AE, ecn, dup, inAll, rphHas(s.tracked, pn))
		res.TraceU(0x10, uint64(i), uint64(pn), uint64(lvl), rphB(dup))
		if res.Failed() {
			return
		}
		if dup {
			if inAll {
				res.Probe("duplicate-dropped")
			} else {
				res.Probe("below-threshold-dropped")
			}
			res.Shape(fmt.Sprintf("R%d-dup", i))
			return
		}
		if zero {
			res.Probe("rx-0rtt")
		}
		// frames are handled before the packet is registered
		if i == 2 && op.Ign > 0 && len(s.acks) > 0 && !zero && !bad {
			k := int((op.Ign - 1) % int64(len(s.acks)))
			if op.Ign >= 1<<40 {
				k = len(s.acks) - 1
			}
			if x := s.acks[k] + 1; pn >= x {
				applyIgnore(x)
				res.Probe("forget-below-carried")
			}
		}
		err := h.ReceivedPacket(protocol.PacketNumber(pn), ecn, lvl, rcv, op.AE)
		if bad {
			res.Fault("0rtt-protection-on-1rtt-number")
			if err != nil {
				res.Probe("0rtt-above-1rtt-rejected")
				res.Logf("  rejected: %v", err)
				ended = true // the connection is closed
				return
			}
		} else if err != nil {
			res.Fail("conformant packet rejected by ReceivedPacket", "%s: space %s pn %d level %v: %v", what, rphSpaceName[i], pn, lvl, err)
			return
		}
		lastRcv = rcv
		class := 0
		switch {
		case pn == s.largest+1:
			class = 1
		case pn > s.largest:
			class = 2
		case inAll:
			class = 4
		default:
			class = 3
		}
		record(i, pn, ecn, op.AE, rcv)
		res.Shape(fmt.Sprintf("R%d-%d%v%d%s", i, class, op.AE, ecn, rphShort(s.must)))
		if i == 2 {
			checkPending(what)
		}
		if op.Poll != 0 {
			poll(i, op.Poll == 1, op.Tr, what+"/poll")
		}
	}

	finishOp := func(what string) {
		checkPending(what)
		if sc.FullScan || len(sp[0].all)+len(sp[1].all)+len(sp[2].all) <= 12 {
			scan(what + "/scan")
		}
	}

	for _, op := range sc.Ops {
		if res.Failed() || ended {
			break
		}
		res.Events++
		what := op.K
		switch op.K {
		case "rx":
			rx(op, what)
		case "tick":
			if op.N >= 0 {
				res.Probe("tick")
				sleepTo(monotime.Now().Add(time.Duration(op.N)*time.Microsecond), what)
			}
		case "poll":
			i := op.Sp % 3
			if i < 0 {
				i = 2
			}
			res.Probe("poll")
			poll(i, op.Q, op.Tr, what)
		case "alarm":
			a := h.GetAlarmTimeout()
			if a.IsZero() {
				res.Probe("alarm-not-armed")
				break
			}
			switch {
			case op.N < 0:
				res.Probe("alarm-fired-early")
			case op.N == 0:
				res.Probe("alarm-fired-exactly")
			default:
				res.Probe("alarm-fired-late")
			}
			sleepTo(a.Add(time.Duration(op.N)), what)
			poll(2, true, 0, what)
		case "ignore":
			s := sp[2]
			if len(s.acks) == 0 {
				break
			}
			n := op.N
			if n < 0 {
				n = -n
			}
			// the acknowledgement of one of our ACK-carrying packets; the carrying packet itself was
			// registered before (equivalent order), so the history never becomes empty
			if x := s.acks[int(n%int64(len(s.acks)))] + 1; x <= s.largest {
				applyIgnore(x)
				res.Probe("forget-below-standalone")
				res.Shape("I")
			}
		case "drop":
			switch op.N % 4 {
			case 0:
				if sp[0].alive {
					h.DropPackets(protocol.EncryptionInitial)
					sp[0].alive = false
					res.Probe("drop-initial")
					res.Shape("D0")
				}
			case 1:
				if !sp[0].alive && sp[1].alive {
					h.DropPackets(protocol.EncryptionHandshake)
					sp[1].alive = false
					res.Probe("drop-handshake")
					res.Shape("D1")
				}
			case 2:
				// the Handshake packet that completes the handshake drops its own keys while its
				// frames are handled; it is still reported as received afterwards
				if s := sp[1]; !sp[0].alive && s.alive {
					pn := s.largest + 1
					if s.largest < 0 {
						pn = sc.Base[1]
					}
					if !dupCheck(1, pn, protocol.EncryptionHandshake, what) && !res.Failed() {
						h.DropPackets(protocol.EncryptionHandshake)
						s.alive = false
						if err := h.ReceivedPacket(protocol.PacketNumber(pn), protocol.ECNNon, protocol.EncryptionHandshake, monotime.Now(), true); err != nil {
							res.Fail("Handshake packet that dropped its own keys is rejected", "pn %d: %v", pn, err)
						}
						res.Probe("drop-handshake-mid-packet")
						res.Shape("D2")
					}
				}
			case 3:
				h.DropPackets(protocol.Encryption0RTT) // 0-RTT rejected / keys discarded: nothing to forget
				res.Probe("drop-0rtt")
			}
		case "scan":
			res.Probe("scan")
			scan(what)
		}
		finishOp(what)
	}

	// drain: every ack-eliciting packet still unacknowledged is covered once its ACK is due
	if !res.Failed() && !ended {
		for i := 0; i < 3 && !res.Failed(); i++ {
			s := sp[i]
			if !s.alive || len(s.pending) == 0 {
				continue
			}
			if i == 2 && s.must == "" {
				a := h.GetAlarmTimeout() // non-zero: checkPending ran after the last operation
				if d := a.Sub(monotime.Now()); d > 0 {
					time.Sleep(d)
				}
				res.Probe("drain-waited-for-alarm")
			}
			poll(i, true, 0, "drain")
			if !res.Failed() && len(s.pending) > 0 {
				res.Fail("no ACK obtainable although "+rphWhyAlarmDue, "drain: space %s pending %v", rphSpaceName[i], s.pending)
			}
		}
		scan("final scan")
		// (5) nothing new arrived: noted, not part of the property
		time.Sleep(40 * time.Millisecond)
		for i := 0; i < 3 && !res.Failed(); i++ {
			if sp[i].alive {
				poll(i, true, 0, "idle")
				poll(i, false, 0, "idle forced")
			}
		}
	}
	res.SimNS = int64(time.Since(t0))
	total := 0
	for i := 0; i < 3; i++ {
		s := sp[i]
		total += s.fed
		res.TraceU(uint64(len(s.all)), uint64(len(s.tracked)), uint64(s.ignore), uint64(s.prunedBelow), uint64(s.largest), s.ecn[0], s.ecn[1], s.ecn[2], uint64(len(s.acks)))
	}
	res.TraceU(uint64(res.Events), uint64(res.SimNS), uint64(h.GetAlarmTimeout()))
	res.Nontrivial = res.Nontrivial || total >= 3
}

func rphB(b bool) uint64 {
	if b {
		return 1
	}
	return 0
}

func rphShort(why string) string {
	switch why {
	case "":
		return "-"
	case rphWhyLong:
		return "L"
	case rphWhySecond:
		return "2"
	case rphWhyReorder:
		return "R"
	case rphWhyGap:
		return "G"
	case rphWhyGapBelow:
		return "B"
	case rphWhyCE:
		return "C"
	case rphWhyNoAlarm:
		return "N"
	}
	return "?"
}
