package monotime

import "time"

// VerifSetStart re-bases the monotonic clock (overlay file of /verif, never
// part of /repo). Inside a synctest bubble the fake clock starts in the year
// 2000 while `start` was taken from the real clock at process start, which
// would make every monotime.Time negative and different from process to
// process. Simulations call this at the start of every run, inside the
// bubble, so that timestamps are positive (as in production) and identical
// across processes.
func VerifSetStart(t time.Time) { start = t }
