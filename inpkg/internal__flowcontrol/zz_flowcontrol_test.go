package flowcontrol

// K:flowcontrol - component simulation of flow control (property C04): the real
// stream and connection flow controllers of a sending endpoint (A) and of a
// receiving endpoint (B: N stream controllers sharing one connection
// controller, real utils.RTTStats), joined by a faulty channel:
//
//	A -> B  STREAM segments and RESET_STREAM (lost + retransmitted, possibly
//	        re-split, reordered, duplicated)
//	B -> A  MAX_STREAM_DATA, MAX_DATA, STOP_SENDING (lost, duplicated,
//	        reordered, delayed)
//
// A model caller drives the controllers exactly the way send_stream.go,
// receive_stream.go, framer.go and connection.go do, a reference model tracks
// credit in both directions from the operations it issued, and an adversarial
// sender class probes the advertised limits. Overlay file of /verif; never
// part of /repo.

import (
	"errors"
	"fmt"
	"os"
	"testing"
	"time"

	"github.com/refraction-networking/uquic/internal/monotime"
	"github.com/refraction-networking/uquic/internal/protocol"
	"github.com/refraction-networking/uquic/internal/qerr"
	"github.com/refraction-networking/uquic/internal/utils"
)

func init() { KRegister(flowcontrolSim()) }

type fcOp struct {
	K string `json:"k"`
	A int64  `json:"a,omitempty"`
	B int64  `json:"b,omitempty"`
	C int64  `json:"c,omitempty"`
	D int64  `json:"d,omitempty"`
}

type fcStreamSpec struct {
	Len int64 `json:"len"`
}

type fcScenario struct {
	Seed      uint64 `json:"seed"`
	Lossy     bool   `json:"lossy"`     // faulty channel class (loss, duplication, reordering, delay)
	Adversary bool   `json:"adversary"` // adversarial sender class
	StrWin    int64  `json:"str_win"`   // B: initial stream receive window
	StrMax    int64  `json:"str_max"`   // B: maximum stream receive window
	ConnWin   int64  `json:"conn_win"`  // B: initial connection receive window
	ConnMax   int64  `json:"conn_max"`  // B: maximum connection receive window
	Deny      int    `json:"deny"`      // AllowConnectionWindowIncrease: 0 always, 1 never, 2 every other call
	ZeroRTT   int    `json:"zero_rtt"`  // 0 none, 1 accepted (remembered limits <= real ones), 2 rejected
	ZConn     int64  `json:"z_conn"`    // remembered initial_max_data
	ZStr      int64  `json:"z_str"`     // remembered initial_max_stream_data
	RTT       int64  `json:"rtt_ns"`    // first RTT sample of B (0: keep the default initial RTT)

	Streams []fcStreamSpec `json:"streams"`
	Ops     []fcOp         `json:"ops"`
}

func (s *fcScenario) KSeed() uint64 { return s.Seed }

const fcUnlimited = int64(1) << 50

// fcNoFields switches the in-package field accelerators off, so that a
// sensitivity experiment can show that the black-box oracles (advertised
// values, error codes, liveness) catch a mutant on their own. Never set in checks.
var fcNoFields = os.Getenv("FC_NOFIELDS") != ""

func flowcontrolSim() *KSim {
	return &KSim{
		Name: "flowcontrol",
		New:  func() KScenario { return &fcScenario{} },
		Gen:  fcGen,
		Run:  runFC,
	}
}

func fcGen(seed uint64, tier string) KScenario {
	r := NewKRng(seed)
	sc := &fcScenario{Seed: seed, Lossy: r.P(0.5), Adversary: r.P(0.25)}
	switch c := r.N(100); {
	case c < 60: // tiny windows, every byte counts
		sc.StrWin = int64(r.Pick(1, 2, 3, 4, 5, 8, 10, 16, 33, 64, 100, 256))
		sc.ConnWin = int64(r.Pick(1, 2, 4, 7, 16, 40, 64, 150, 400))
	case c < 85:
		sc.StrWin = int64(r.Range(300, 20000))
		sc.ConnWin = int64(r.Range(300, 30000))
	default: // library defaults
		sc.StrWin = 512 << 10
		sc.ConnWin = 768 << 10
	}
	sc.StrMax = sc.StrWin * int64(r.Pick(1, 2, 2, 8, 64))
	sc.ConnMax = sc.ConnWin * int64(r.Pick(1, 2, 2, 8, 64))
	if sc.StrWin == 512<<10 && r.P(0.7) {
		sc.StrMax, sc.ConnMax = 6<<20, 15<<20
	}
	if r.P(0.08) { // misconfiguration: maximum below the initial window
		sc.StrMax = sc.StrWin / 2
	}
	if r.P(0.08) {
		sc.ConnMax = sc.ConnWin / 2
	}
	if r.P(0.2) {
		sc.Deny = r.Range(1, 2)
	}
	if r.P(0.2) {
		sc.ZeroRTT = r.Range(1, 2)
		sc.ZStr = int64(r.N64(sc.StrWin + 1))
		sc.ZConn = int64(r.N64(sc.ConnWin + 1))
		if sc.ZeroRTT == 2 && r.Bool() { // a rejected session may have remembered anything
			sc.ZStr = sc.StrWin * int64(r.Pick(1, 2, 5))
			sc.ZConn = sc.ConnWin * int64(r.Pick(1, 2, 5))
		}
	}
	if r.P(0.7) {
		sc.RTT = int64(r.Pick(1000, 20000, 300000, 5000000, 40000000, 250000000, 1000000000, 5000000000))
	}
	nStreams := r.Pick(1, 1, 2, 3, 5, 8, 16, 40)
	if r.P(0.3) {
		nStreams = r.Range(1, 40)
	}
	unit := sc.StrWin
	var total int64
	for i := 0; i < nStreams; i++ {
		var l int64
		switch x := r.N(10); {
		case x == 0:
			l = int64(r.Pick(0, 0, 1, 2))
		case x < 3:
			l = unit + int64(r.Pick(-1, 0, 1))
		case x < 6:
			l = r.N64(3*unit + 1)
		default:
			l = r.N64(12*unit + 1)
		}
		if l < 0 {
			l = 0
		}
		sc.Streams = append(sc.Streams, fcStreamSpec{Len: l})
		total += l
	}
	// keep the number of credit round trips of the final drain bounded
	if lim := 300 * sc.ConnWin; total > lim {
		for i := range sc.Streams {
			sc.Streams[i].Len = sc.Streams[i].Len * lim / total
		}
	}
	amount := func() int64 {
		switch r.N(12) {
		case 0, 1:
			return 1
		case 2:
			return int64(r.Pick(2, 3, 7))
		case 3:
			return int64(r.Pick(20, 100, 1200))
		case 4:
			return sc.StrWin/2 + 1
		case 5:
			return sc.StrWin
		case 6:
			return sc.ConnWin
		case 7:
			return r.N64(sc.StrWin) + 1
		case 8:
			return r.N64(sc.ConnWin) + 1
		default:
			return fcUnlimited
		}
	}
	fate := func() int64 {
		if !sc.Lossy {
			return 0
		}
		switch x := r.N(100); {
		case x < 55:
			return 0
		case x < 70:
			return 1 // lost
		case x < 88:
			return 2 // delayed (reordering)
		default:
			return 3 // duplicated
		}
	}
	n := r.Range(10, 120)
	if tier == "thorough" && r.P(0.3) {
		n = r.Range(120, 600)
	}
	for i := 0; i < n; i++ {
		var op fcOp
		x := r.N(100)
		if sc.Adversary && r.P(0.05) {
			x = 100
		}
		switch {
		case x < 30:
			op = fcOp{K: "send", A: int64(r.N(1000)), B: amount(), C: fate(), D: int64(r.N(4))}
		case x < 52:
			op = fcOp{K: "read", A: int64(r.N(1000)), B: amount(), C: int64(r.Pick(0, 0, 1, 3, 50))}
		case x < 61:
			op = fcOp{K: "flush", A: int64(r.N(1000)), C: fate(), D: int64(r.N(4))}
		case x < 66:
			op = fcOp{K: "cflush", C: fate()}
		case x < 72:
			op = fcOp{K: "dlv", A: int64(r.N(1000))}
		case x < 76:
			op = fcOp{K: "retx", A: int64(r.N(1000)), B: int64(r.N(1000)), C: fate()}
		case x < 81:
			op = fcOp{K: "udlv", A: int64(r.N(1000))}
		case x < 83:
			op = fcOp{K: "uretx", A: int64(r.N(1000))}
		case x < 88:
			op = fcOp{K: "tick", A: int64(r.Pick(0, 1000, 50000, 1000000, 20000000, 300000000, 2000000000))}
		case x < 90:
			op = fcOp{K: "rtt", A: int64(r.Pick(1000, 50000, 2000000, 30000000, 400000000, 3000000000))}
		case x < 92:
			op = fcOp{K: "reset", A: int64(r.N(1000)), B: int64(r.Pick(0, 0, 0, 1, 5, 1000)), C: fate()}
		case x < 95:
			op = fcOp{K: "cancel", A: int64(r.N(1000)), C: fate()}
		case x < 97:
			op = fcOp{K: "pack"}
		case x < 100:
			op = fcOp{K: "params"}
		default:
			op = fcOp{K: "adv", A: int64(r.N(4)), B: int64(r.N(1000)), C: int64(r.N(16))}
		}
		sc.Ops = append(sc.Ops, op)
	}
	return sc
}

// ---- reference model

type fcSeg struct { // A -> B
	s     int
	off   int64 // RESET_STREAM: final size
	n     int64 // RESET_STREAM: reliable size
	fin   bool
	reset bool
}

type fcMsg struct { // B -> A
	kind int // 0 MAX_STREAM_DATA, 1 MAX_DATA, 2 STOP_SENDING
	s    int
	v    int64
}

type fcSnd struct {
	fc      StreamFlowController
	length  int64
	sent    int64 // bytes of new data handed to the wire (write offset)
	finSent bool
	reset   bool
	rel     int64 // reliable size of the reset
	lim     int64 // largest MAX_STREAM_DATA / initial value delivered to A
	rep     int64 // limit for which STREAM_DATA_BLOCKED was last reported
	repHas  bool
}

type fcRcv struct {
	fc         StreamFlowController
	raw        *streamFlowController
	hi         int64 // highest offset received
	finalKnown bool
	final      int64
	iv         [][2]int64 // received byte ranges (what Read can deliver)
	read       int64      // consumed by the application
	abandoned  int64      // returned through Abandon
	abandons   int
	cancelledL bool // CancelRead
	cancelledR bool // RESET_STREAM received
	rel        int64
	completed  bool // removed from the streams map
	queuedMSD  bool
	adv        int64 // largest MAX_STREAM_DATA put on the wire (or initial window)
	win        int64 // last observed window size
}

type fcWorld struct {
	sc  *fcScenario
	res *KResult

	strWin, strMax, connWin, connMax int64

	rttA, rttB *utils.RTTStats

	// endpoint A (sender)
	aConn      *connectionFlowController
	snd        []*fcSnd
	limC       int64 // largest MAX_DATA / initial value delivered to A
	sentTotal  int64
	connRep    int64
	connRepHas bool
	void       bool // 0-RTT that is going to be rejected: nothing reaches B
	paramsDone bool

	// endpoint B (receiver)
	bConn        *connectionFlowController
	rcv          []*fcRcv
	connHi       int64 // sum of the streams' highest offsets
	connCredited int64 // sum over streams of consumed + abandoned bytes
	connAdv      int64 // largest MAX_DATA put on the wire (or initial window)
	connWinModel int64 // initial window + approved increases
	allowCalls   int

	segQ, segLost []fcSeg
	msgQ, msgLost []fcMsg

	healed   bool // final drain: the channel is perfect
	ended    bool // an expected error closed the connection
	advFired bool
	progress int64
	what     string
}

func fcCode(err error) (uint64, bool) {
	var te *qerr.TransportError
	if errors.As(err, &te) {
		return uint64(te.ErrorCode), true
	}
	return 0, false
}

func fcCodeName(err error) string {
	if err == nil {
		return "no error"
	}
	c, ok := fcCode(err)
	switch {
	case !ok:
		return "a non-transport error"
	case c == 0x3:
		return "FLOW_CONTROL_ERROR"
	case c == 0x6:
		return "FINAL_SIZE_ERROR"
	}
	return "another transport error"
}

// fcIdx maps a scenario selector onto one of n candidates ("the k-th outstanding thing").
func fcIdx(sel int64, n int) int {
	if sel < 0 {
		sel = -(sel + 1)
	}
	return int(sel % int64(n))
}

func fcAddIv(iv [][2]int64, lo, hi int64) [][2]int64 {
	if hi <= lo {
		return iv
	}
	out := make([][2]int64, 0, len(iv)+1)
	placed := false
	for _, x := range iv {
		switch {
		case x[1] < lo:
			out = append(out, x)
		case hi < x[0]:
			if !placed {
				out = append(out, [2]int64{lo, hi})
				placed = true
			}
			out = append(out, x)
		default:
			lo, hi = min(lo, x[0]), max(hi, x[1])
		}
	}
	if !placed {
		out = append(out, [2]int64{lo, hi})
	}
	return out
}

func (r *fcRcv) contig() int64 {
	if len(r.iv) > 0 && r.iv[0][0] == 0 {
		return r.iv[0][1]
	}
	return 0
}

func (w *fcWorld) now() monotime.Time { return monotime.Now() }

func (w *fcWorld) newSndStream(i int, initial int64) *fcSnd {
	fc := NewStreamFlowController(protocol.StreamID(4*i), w.aConn, protocol.ByteCount(w.strWin), protocol.ByteCount(w.strMax),
		protocol.ByteCount(initial), w.rttA, utils.DefaultLogger)
	return &fcSnd{fc: fc, length: w.sc.Streams[i].Len, lim: initial}
}

func (w *fcWorld) allow(delta protocol.ByteCount) bool {
	w.allowCalls++
	ok := w.sc.Deny == 0 || (w.sc.Deny == 2 && w.allowCalls%2 == 0)
	if ok {
		w.connWinModel += int64(delta)
		w.res.Probe("auto-tune-grew")
		w.res.Probe("auto-tune-grew-conn")
	} else {
		w.res.Probe("window-increase-denied")
	}
	return ok
}

// ---- endpoint A

// checkSendWindow: clause 1 - what a stream may send (its own window capped by
// the connection's) is exactly the credit delivered to A.
func (w *fcWorld) checkSendWindow(i int) int64 {
	s := w.snd[i]
	got := int64(s.fc.SendWindowSize())
	allowed := max(0, min(s.lim-s.sent, w.limC-w.sentTotal))
	if got > allowed {
		w.res.Fail("sender: allowed to send beyond the largest delivered MAX_STREAM_DATA / MAX_DATA",
			"%s: stream %d window=%d, model: stream limit %d sent %d, connection limit %d sent %d", w.what, i, got, s.lim, s.sent, w.limC, w.sentTotal)
	} else if got < allowed {
		w.res.Fail("sender: usable send window below the delivered credit (stall)",
			"%s: stream %d window=%d, model: stream limit %d sent %d, connection limit %d sent %d", w.what, i, got, s.lim, s.sent, w.limC, w.sentTotal)
	}
	return got
}

func (w *fcWorld) checkConnBlocked() {
	blocked, off := w.aConn.IsNewlyBlocked()
	if !blocked {
		return
	}
	w.res.Probe("blocked-conn")
	switch {
	case w.sentTotal < w.limC:
		w.res.Fail("sender: DATA_BLOCKED reported while connection credit remains", "%s: sent %d limit %d", w.what, w.sentTotal, w.limC)
	case int64(off) != w.limC:
		w.res.Fail("sender: DATA_BLOCKED carries a limit other than the largest delivered MAX_DATA", "%s: reported %d, delivered %d", w.what, off, w.limC)
	case w.connRepHas && w.connRep == w.limC:
		w.res.Fail("sender: DATA_BLOCKED reported twice for the same limit", "%s: limit %d", w.what, w.limC)
	}
	w.connRep, w.connRepHas = w.limC, true
}

// send mirrors SendStream.popNewOrRetransmittedStreamFrame for new data.
func (w *fcWorld) send(i int, budget int64, fate int64, noFin bool) {
	s := w.snd[i]
	if s.reset || s.finSent || budget <= 0 {
		return
	}
	if s.sent == s.length { // only the FIN is left: not subject to flow control
		s.finSent = true
		w.progress++
		w.emit(fcSeg{s: i, off: s.sent, fin: true}, fate)
		return
	}
	win := w.checkSendWindow(i)
	if w.res.Failed() {
		return
	}
	if win == 0 {
		w.res.Probe("send-blocked")
		w.res.Shape("s0")
		return
	}
	n := min(budget, win, s.length-s.sent)
	off := s.sent
	s.sent += n
	w.sentTotal += n
	w.progress++
	s.fc.AddBytesSent(protocol.ByteCount(n))
	if n == win && s.fc.IsNewlyBlocked() {
		w.res.Probe("blocked-stream")
		switch {
		case s.sent < s.lim:
			w.res.Fail("sender: STREAM_DATA_BLOCKED reported while stream credit remains", "%s: stream %d sent %d limit %d", w.what, i, s.sent, s.lim)
		case s.repHas && s.rep == s.lim:
			w.res.Fail("sender: STREAM_DATA_BLOCKED reported twice for the same limit", "%s: stream %d limit %d", w.what, i, s.lim)
		}
		s.rep, s.repHas = s.lim, true
	}
	fin := s.sent == s.length && !noFin
	if fin {
		s.finSent = true
	}
	switch {
	case n == win && fin:
		w.res.Shape("sBF")
	case n == win:
		w.res.Shape("sB")
	case fin:
		w.res.Shape("sF")
	default:
		w.res.Shape("s")
	}
	w.res.Logf("A: stream %d sends [%d,%d) fin=%v (window was %d)", i, off, off+n, fin, win)
	w.emit(fcSeg{s: i, off: off, n: n, fin: fin}, fate)
}

func (w *fcWorld) emit(seg fcSeg, fate int64) {
	if w.void {
		w.res.Probe("0rtt-into-the-void")
		return
	}
	if !w.sc.Lossy || w.healed {
		fate = 0
	}
	switch fate {
	case 1:
		w.res.Fault("data-lost")
		w.segLost = append(w.segLost, seg)
	case 2:
		w.res.Fault("data-delayed")
		w.segQ = append(w.segQ, seg)
	case 3:
		w.res.Fault("data-duplicated")
		w.segQ = append(w.segQ, seg)
		w.deliverSeg(seg, false)
	default:
		w.deliverSeg(seg, false)
	}
}

func (w *fcWorld) resetSend(i int, rel int64, fate int64) {
	s := w.snd[i]
	if s.reset {
		return
	}
	s.reset = true
	s.rel = min(rel, s.sent)
	w.progress++
	w.res.Logf("A: stream %d reset, final size %d, reliable size %d", i, s.sent, s.rel)
	w.emit(fcSeg{s: i, off: s.sent, n: s.rel, reset: true}, fate)
}

func (w *fcWorld) sendMsg(m fcMsg, fate int64) {
	if !w.sc.Lossy || w.healed {
		fate = 0
	}
	switch fate {
	case 1:
		w.res.Fault("update-lost")
		w.res.Probe("update-lost")
		w.msgLost = append(w.msgLost, m)
	case 2:
		w.res.Fault("update-delayed")
		w.msgQ = append(w.msgQ, m)
	case 3:
		w.res.Fault("update-duplicated")
		w.res.Probe("update-duplicated")
		w.msgQ = append(w.msgQ, m)
		w.deliverMsg(m)
	default:
		w.deliverMsg(m)
	}
}

func (w *fcWorld) deliverMsg(m fcMsg) {
	w.progress++
	switch m.kind {
	case 0:
		s := w.snd[m.s]
		s.fc.UpdateSendWindow(protocol.ByteCount(m.v))
		if m.v > s.lim {
			s.lim = m.v
			w.res.Probe("stream-credit-raised")
		} else {
			w.res.Probe("update-not-increasing")
		}
		w.res.Logf("A: MAX_STREAM_DATA stream %d = %d", m.s, m.v)
		w.checkSendWindow(m.s)
	case 1:
		w.aConn.UpdateSendWindow(protocol.ByteCount(m.v))
		if m.v > w.limC {
			w.limC = m.v
			w.res.Probe("conn-credit-raised")
		} else {
			w.res.Probe("update-not-increasing")
		}
		w.res.Logf("A: MAX_DATA = %d", m.v)
		if len(w.snd) > 0 {
			w.checkSendWindow(int(uint64(m.v) % uint64(len(w.snd))))
		}
	case 2:
		// a conformant peer answers STOP_SENDING with a reset (final size = bytes sent)
		w.res.Logf("A: STOP_SENDING stream %d", m.s)
		w.resetSend(m.s, 0, int64(KMix(w.sc.Seed, 77, uint64(m.s))%4))
	}
}

// params: the peer's transport parameters arrive (end of the 0-RTT phase).
func (w *fcWorld) params() {
	if w.paramsDone {
		return
	}
	w.paramsDone = true
	if w.sc.ZeroRTT == 2 {
		// rejected: all stream state is thrown away, the connection controller is reset
		if err := w.aConn.Reset(); err != nil {
			w.res.Fail("sender: connection flow controller refuses the 0-RTT reset although nothing was received", "%v", err)
			return
		}
		w.res.Probe("0rtt-rejected")
		w.void = false
		w.sentTotal, w.limC = 0, 0
		w.connRepHas = false
		for i := range w.snd {
			w.snd[i] = w.newSndStream(i, w.strWin)
		}
	} else {
		w.res.Probe("0rtt-accepted")
		for _, s := range w.snd {
			s.fc.UpdateSendWindow(protocol.ByteCount(w.strWin))
			s.lim = max(s.lim, w.strWin)
		}
	}
	w.aConn.UpdateSendWindow(protocol.ByteCount(w.connWin))
	w.limC = max(w.limC, w.connWin)
	for i := range w.snd {
		w.checkSendWindow(i)
	}
}

// ---- endpoint B

func (w *fcWorld) classify(r *fcRcv, end int64, fin bool) (fs, fc bool, which string) {
	if r.finalKnown && ((fin && end != r.final) || end > r.final) {
		fs = true
	}
	if !r.finalKnown && fin && end < r.hi {
		fs = true
	}
	if end > r.adv {
		fc, which = true, "stream"
	} else if end > r.hi && w.connHi+(end-r.hi) > w.connAdv {
		fc, which = true, "connection"
	}
	return
}

// expect compares the outcome of UpdateHighestReceived with the model's
// ground truth (clause 2). It returns true if the history continues.
func (w *fcWorld) expect(i int, r *fcRcv, end int64, fin bool, fs, fc bool, which string, err error) bool {
	code, _ := fcCode(err)
	detail := fmt.Sprintf("%s: stream %d end offset %d fin=%v; model: highest %d final known=%v (%d), stream limit on the wire %d, connection received %d of %d; err=%v",
		w.what, i, end, fin, r.hi, r.finalKnown, r.final, r.adv, w.connHi, w.connAdv, err)
	switch {
	case !fs && !fc:
		if err != nil {
			w.res.Fail("receiver: rejected data within the advertised limits with "+fcCodeName(err), "%s", detail)
			return false
		}
		return true
	case fs && fc:
		if code != 0x3 && code != 0x6 {
			w.res.Fail("receiver: data beyond the final size and the limit not answered with FINAL_SIZE_ERROR or FLOW_CONTROL_ERROR: got "+fcCodeName(err), "%s", detail)
		}
	case fs:
		if code != 0x6 {
			w.res.Fail("receiver: contradiction of the final size not answered with FINAL_SIZE_ERROR: got "+fcCodeName(err), "%s", detail)
		}
	case fc:
		if code != 0x3 {
			w.res.Fail("receiver: first byte beyond the advertised "+which+" limit not answered with FLOW_CONTROL_ERROR: got "+fcCodeName(err), "%s", detail)
		}
	}
	w.res.Probe("expected-error")
	w.ended = true
	return false
}

func (w *fcWorld) abandon(i int, why string) {
	r := w.rcv[i]
	if !r.finalKnown {
		panic("harness: Abandon before the final size is known")
	}
	r.fc.Abandon()
	r.abandons++
	unread := r.hi - r.read - r.abandoned
	r.abandoned += unread
	w.connCredited += unread
	w.res.Probe("abandon")
	w.res.Probe("abandon-" + why)
	if unread > 0 {
		w.res.Probe("abandon-returned-bytes")
	}
	if r.abandons > 1 {
		w.res.Probe("abandon-repeated")
	}
	w.res.Logf("B: stream %d abandoned (%s), %d unread bytes returned", i, why, unread)
	w.checkConnFields()
}

func (w *fcWorld) complete(i int) {
	r := w.rcv[i]
	if !r.completed {
		r.completed = true
		w.progress++
		w.res.Logf("B: stream %d completed", i)
	}
}

// checkConnFields: in-package accelerators of clause 4 - the expectation comes from the model.
func (w *fcWorld) checkConnFields() {
	if fcNoFields {
		return
	}
	if got := int64(w.bConn.bytesRead); got < w.connCredited {
		w.res.Fail("conservation: consumed or abandoned bytes missing from the connection-level credit (credit leaked)",
			"%s: connection bytes read %d, model sum of consumed+abandoned %d", w.what, got, w.connCredited)
	} else if got > w.connCredited {
		w.res.Fail("conservation: bytes returned to the connection-level credit more than once (credit duplicated)",
			"%s: connection bytes read %d, model sum of consumed+abandoned %d", w.what, got, w.connCredited)
	}
	if got := int64(w.bConn.highestReceived); got != w.connHi {
		w.res.Fail("receiver: connection-level received bytes differ from the sum of the streams' highest offsets",
			"%s: connection %d, model %d", w.what, got, w.connHi)
	}
}

// deliverSeg mirrors ReceiveStream.handleStreamFrame / handleResetStreamFrame.
func (w *fcWorld) deliverSeg(seg fcSeg, adversarial bool) {
	if w.ended || w.res.Failed() {
		return
	}
	r := w.rcv[seg.s]
	w.progress++
	if r.completed {
		w.res.Probe("frame-for-completed-stream-ignored")
		return
	}
	end, fin := seg.off+seg.n, seg.fin
	if seg.reset {
		end, fin = seg.off, true
	}
	fs, fc, which := w.classify(r, end, fin)
	if (fs || fc) && !w.advFired {
		w.res.Fail("model: honest segment outside the advertised limits or the final size", "%s: stream %d end %d fin=%v highest %d final=%v/%d adv %d conn %d/%d",
			w.what, seg.s, end, fin, r.hi, r.finalKnown, r.final, r.adv, w.connHi, w.connAdv)
		return
	}
	atLimit := !fs && !fc && end > r.hi && (end == r.adv || w.connHi+(end-r.hi) == w.connAdv)
	err := r.fc.UpdateHighestReceived(protocol.ByteCount(end), fin, w.now())
	w.res.Logf("B: stream %d receives end=%d fin=%v reset=%v -> %v", seg.s, end, fin, seg.reset, err)
	if !w.expect(seg.s, r, end, fin, fs, fc, which, err) {
		return
	}
	if atLimit {
		w.res.Probe("accepted-exactly-at-limit")
		if adversarial {
			w.res.Probe("adversarial-at-limit")
		}
	}
	if end > r.hi {
		w.connHi += end - r.hi
		r.hi = end
	}
	if fin {
		r.finalKnown, r.final = true, end
	}
	w.checkConnFields()
	if seg.reset {
		// senders may reduce the reliable size, but frames can be reordered
		if (!r.cancelledR && r.rel == 0) || seg.n < r.rel {
			r.rel = seg.n
		}
		if r.read >= r.rel {
			w.abandon(seg.s, "reset")
		}
		if r.cancelledR {
			w.res.Probe("duplicate-reset")
			return
		}
		if r.cancelledL {
			// NOTE: receive_stream.go does not call Abandon here when the reliable size is
			// above the read position (see report); the model caller does what the
			// flow controller's contract asks for.
			w.abandon(seg.s, "cancel")
			w.complete(seg.s)
			return
		}
		r.cancelledR = true
		return
	}
	if !r.cancelledL {
		r.iv = fcAddIv(r.iv, seg.off, end)
	}
	if r.cancelledL && r.finalKnown {
		w.abandon(seg.s, "cancel")
		w.complete(seg.s)
	}
}

// readStream mirrors ReceiveStream.Read.
func (w *fcWorld) readStream(i int, amount, chunk int64) {
	r := w.rcv[i]
	if r.completed || r.cancelledL || amount <= 0 {
		return
	}
	if r.cancelledR && r.read >= r.rel { // Read returns the reset error
		if r.abandons == 0 {
			panic("harness: effective remote cancellation without Abandon")
		}
		w.complete(i)
		return
	}
	m := min(amount, r.contig()-r.read)
	if m <= 0 {
		if r.finalKnown && !r.cancelledR && r.read == r.final { // io.EOF
			w.complete(i)
		}
		return
	}
	if chunk <= 0 {
		chunk = m
	}
	if m/chunk > 8 { // Read hands the data over frame by frame: a handful of calls, not one per byte
		chunk = (m + 7) / 8
	}
	for m > 0 {
		c := min(chunk, m)
		hasS, hasC := r.fc.AddBytesRead(protocol.ByteCount(c))
		r.read += c
		w.connCredited += c
		m -= c
		w.progress++
		if hasS {
			r.queuedMSD = true
			w.res.Probe("stream-update-queued")
		}
		if hasC {
			w.res.Probe("conn-update-queued")
		}
		if r.cancelledR && r.read >= r.rel {
			w.abandon(i, "reset-after-reliable-data")
			w.complete(i)
			return
		}
	}
	w.res.Logf("B: stream %d read up to %d", i, r.read)
	w.checkConnFields()
	if r.finalKnown && !r.cancelledR && r.read == r.final {
		w.complete(i)
	}
}

func (w *fcWorld) cancelRead(i int, fate int64) {
	r := w.rcv[i]
	if r.completed || r.cancelledL {
		return
	}
	r.cancelledL = true
	w.progress++
	w.res.Logf("B: stream %d CancelRead (final known=%v)", i, r.finalKnown)
	if !r.cancelledR {
		w.sendMsg(fcMsg{kind: 2, s: i}, fate)
	}
	if r.finalKnown {
		if r.cancelledR {
			w.abandon(i, "cancel")
		} else {
			w.abandon(i, "early-close")
		}
		w.complete(i)
	}
}

// flushStream mirrors ReceiveStream.getControlFrame: the MAX_STREAM_DATA value
// is computed when the frame is created (clause 3).
func (w *fcWorld) flushStream(i int, fate int64) {
	r := w.rcv[i]
	if !r.queuedMSD {
		return
	}
	r.queuedMSD = false
	v := int64(r.fc.GetWindowUpdate(w.now()))
	size := int64(r.raw.receiveWindowSize)
	w.res.Logf("B: MAX_STREAM_DATA stream %d = %d (read %d, window %d)", i, v, r.read, size)
	w.res.TraceU(uint64(i), uint64(v))
	switch {
	case size < r.win:
		w.res.Fail("receiver: stream receive window size decreased", "%s: stream %d %d -> %d", w.what, i, r.win, size)
	case size > max(w.strWin, w.strMax):
		w.res.Fail("receiver: stream receive window size above the configured maximum", "%s: stream %d size %d max %d", w.what, i, size, w.strMax)
	case size > r.win:
		w.res.Probe("auto-tune-grew")
		w.res.Probe("auto-tune-grew-stream")
	}
	r.win = size
	w.checkConnWin()
	if v == 0 {
		if !r.finalKnown {
			w.res.Fail("receiver: MAX_STREAM_DATA without a limit although an update was due and the final size is unknown", "%s: stream %d read %d adv %d", w.what, i, r.read, r.adv)
		} else {
			w.res.Probe("update-zero-after-final")
		}
	} else {
		switch {
		case v < r.adv:
			w.res.Fail("receiver: advertised stream limit decreased", "%s: stream %d %d after %d", w.what, i, v, r.adv)
		case v > r.read+r.abandoned+size:
			w.res.Fail("receiver: advertised stream limit exceeds the consumed bytes plus the current window",
				"%s: stream %d advertised %d, consumed %d, window %d, highest received %d", w.what, i, v, r.read, size, r.hi)
		case v == r.adv:
			w.res.Probe("update-equal-to-previous")
		}
		r.adv = max(r.adv, v)
	}
	w.sendMsg(fcMsg{kind: 0, s: i, v: v}, fate)
}

func (w *fcWorld) checkConnWin() {
	if got := int64(w.bConn.receiveWindowSize); got != w.connWinModel {
		w.res.Fail("receiver: connection receive window size differs from the initial window plus the approved increases",
			"%s: size %d, model %d", w.what, got, w.connWinModel)
	} else if got > max(w.connWin, w.connMax) {
		w.res.Fail("receiver: connection receive window size above the configured maximum", "%s: size %d max %d", w.what, got, w.connMax)
	}
}

// flushConn mirrors Conn.sendPackets: the connection-level update is polled
// whenever a packet is about to be sent.
func (w *fcWorld) flushConn(fate int64) {
	v := int64(w.bConn.GetWindowUpdate(w.now()))
	w.checkConnWin()
	if v == 0 {
		return
	}
	w.res.Logf("B: MAX_DATA = %d (consumed+abandoned %d, window %d)", v, w.connCredited, w.connWinModel)
	w.res.TraceU(1<<40, uint64(v))
	switch {
	case v < w.connAdv:
		w.res.Fail("receiver: advertised connection limit decreased", "%s: %d after %d", w.what, v, w.connAdv)
	case v > w.connCredited+w.connWinModel:
		w.res.Fail("receiver: advertised connection limit exceeds the consumed and abandoned bytes plus the current window (credit duplicated)",
			"%s: advertised %d, consumed+abandoned %d, window %d, received %d", w.what, v, w.connCredited, w.connWinModel, w.connHi)
	case v == w.connAdv:
		w.res.Probe("update-equal-to-previous")
	}
	w.connAdv = max(w.connAdv, v)
	w.sendMsg(fcMsg{kind: 1, v: v}, fate)
}

// adversary: crafted segments aimed at the limits on the wire.
func (w *fcWorld) adversary(kind int, sel, variant int64) {
	var cand []int
	for i, r := range w.rcv {
		if r.completed {
			continue
		}
		switch kind {
		case 0, 1:
			if !r.finalKnown {
				cand = append(cand, i)
			}
		case 2:
			if r.finalKnown {
				cand = append(cand, i)
			}
		case 3:
			if !r.finalKnown && r.hi > 0 {
				cand = append(cand, i)
			}
		}
	}
	if len(cand) == 0 {
		return
	}
	i := cand[fcIdx(sel, len(cand))]
	r := w.rcv[i]
	room := min(r.adv-r.hi, w.connAdv-w.connHi)
	var seg fcSeg
	switch kind {
	case 0: // exactly at the limit: must be accepted
		end := r.hi + room
		seg = fcSeg{s: i, off: r.hi, n: room}
		if variant&1 == 1 && end > 0 {
			seg = fcSeg{s: i, off: end - 1, n: 1}
		}
		if variant&2 == 2 {
			seg.fin = true
		}
		if variant&12 == 12 {
			seg = fcSeg{s: i, off: end, reset: true}
		}
		w.res.Fault("adversarial-at-limit")
	case 1: // one byte (or a lot) beyond: FLOW_CONTROL_ERROR
		end := r.hi + room + 1
		if variant&3 == 3 {
			end += int64(1) << 40
		}
		seg = fcSeg{s: i, off: end - 1, n: 1, fin: variant&4 == 4}
		if variant&8 == 8 {
			seg = fcSeg{s: i, off: end, reset: true}
		}
		w.res.Fault("adversarial-beyond")
		w.res.Probe("adversarial-beyond")
	case 2: // contradict a known final size: FINAL_SIZE_ERROR
		switch variant % 4 {
		case 0:
			seg = fcSeg{s: i, off: r.final, n: 1, fin: true}
		case 1:
			if r.final == 0 {
				return
			}
			seg = fcSeg{s: i, off: r.final - 1, fin: true}
		case 2:
			seg = fcSeg{s: i, off: r.final, n: 1}
		default:
			seg = fcSeg{s: i, off: r.final + 1 + variant/4, reset: true}
		}
		w.res.Fault("adversarial-final-size-changed")
		w.res.Probe("adversarial-final-size-changed")
	case 3: // final size below the highest offset already received: FINAL_SIZE_ERROR
		end := r.hi - 1 - int64(fcIdx(variant/2, int(min(r.hi, 1<<30))))
		seg = fcSeg{s: i, off: end, fin: true}
		if variant&1 == 1 {
			seg = fcSeg{s: i, off: end, reset: true}
		}
		w.res.Fault("adversarial-final-size-lowered")
		w.res.Probe("adversarial-final-size-lowered")
	}
	w.advFired = true
	w.res.Shape(fmt.Sprintf("X%d%d", kind, variant))
	w.deliverSeg(seg, true)
}

// ---- run

func runFC(t *testing.T, ksc KScenario, res *KResult) {
	sc := ksc.(*fcScenario)
	monotime.VerifSetStart(time.Now().Add(-time.Hour))
	t0 := time.Now()
	w := &fcWorld{sc: sc, res: res}
	w.strWin, w.strMax = max(1, sc.StrWin), max(0, sc.StrMax)
	w.connWin, w.connMax = max(1, sc.ConnWin), max(0, sc.ConnMax)
	if len(sc.Streams) == 0 {
		return
	}
	w.rttA, w.rttB = utils.NewRTTStats(), utils.NewRTTStats()
	if sc.RTT > 0 {
		w.rttB.UpdateRTT(time.Duration(sc.RTT), 0)
	}
	// endpoint B
	w.bConn = NewConnectionFlowController(protocol.ByteCount(w.connWin), protocol.ByteCount(w.connMax), w.allow, w.rttB, utils.DefaultLogger)
	w.connAdv, w.connWinModel = w.connWin, w.connWin
	for i := range sc.Streams {
		fc := NewStreamFlowController(protocol.StreamID(4*i), w.bConn, protocol.ByteCount(w.strWin), protocol.ByteCount(w.strMax), 0, w.rttB, utils.DefaultLogger)
		w.rcv = append(w.rcv, &fcRcv{fc: fc, raw: fc.(*streamFlowController), adv: w.strWin, win: w.strWin})
	}
	// endpoint A
	w.aConn = NewConnectionFlowController(protocol.ByteCount(w.connWin), protocol.ByteCount(w.connMax), func(protocol.ByteCount) bool { return true }, w.rttA, utils.DefaultLogger)
	initS, initC := w.strWin, w.connWin
	switch sc.ZeroRTT {
	case 1:
		initS, initC = min(max(0, sc.ZStr), w.strWin), min(max(0, sc.ZConn), w.connWin)
	case 2:
		initS, initC = max(0, sc.ZStr), max(0, sc.ZConn)
		w.void = true
	default:
		w.paramsDone = true
	}
	w.aConn.UpdateSendWindow(protocol.ByteCount(initC))
	w.limC = initC
	w.snd = make([]*fcSnd, len(sc.Streams))
	for i := range sc.Streams {
		w.snd[i] = w.newSndStream(i, initS)
	}

	pickSnd := func(sel int64) int {
		var cand []int
		for i, s := range w.snd {
			if !s.reset && !s.finSent {
				cand = append(cand, i)
			}
		}
		if len(cand) == 0 {
			return -1
		}
		return cand[fcIdx(sel, len(cand))]
	}
	pickRcv := func(sel int64) int {
		var cand []int
		for i, r := range w.rcv {
			if !r.completed {
				cand = append(cand, i)
			}
		}
		if len(cand) == 0 {
			return -1
		}
		return cand[fcIdx(sel, len(cand))]
	}
	retransmit := func(idx int, split int64, fate int64) {
		seg := w.segLost[idx]
		w.segLost = append(w.segLost[:idx], w.segLost[idx+1:]...)
		s := w.snd[seg.s]
		if !seg.reset && s.reset {
			// after a reset only data below the reliable size is retransmitted
			if seg.off >= s.rel {
				w.res.Probe("retransmission-cancelled-by-reset")
				return
			}
			if seg.off+seg.n > s.rel {
				seg.n, seg.fin = s.rel-seg.off, false
			}
			seg.fin = false
		}
		w.res.Probe("retransmission")
		if !seg.reset && seg.n >= 2 && split > 0 {
			k := 1 + split%(seg.n-1)
			w.res.Probe("retransmission-resplit")
			// the tail travels first, the head is delayed
			w.emit(fcSeg{s: seg.s, off: seg.off + k, n: seg.n - k, fin: seg.fin}, fate)
			w.emit(fcSeg{s: seg.s, off: seg.off, n: k}, 0)
			return
		}
		w.emit(seg, fate)
	}

	for _, op := range sc.Ops {
		if res.Failed() || w.ended {
			break
		}
		res.Events++
		w.what = op.K
		if w.void {
			switch op.K {
			case "send", "pack", "tick", "rtt", "params", "reset":
			default:
				continue // B has seen nothing of this connection's streams yet
			}
		}
		switch op.K {
		case "send":
			if i := pickSnd(op.A); i >= 0 {
				w.send(i, op.B, op.C, op.D&1 == 1)
				w.checkConnBlocked()
			}
		case "pack":
			w.checkConnBlocked()
		case "read":
			if i := pickRcv(op.A); i >= 0 {
				w.readStream(i, op.B, op.C)
				res.Shape("r")
			}
		case "flush":
			var cand []int
			for i, r := range w.rcv {
				if r.queuedMSD {
					cand = append(cand, i)
				}
			}
			if op.D&1 == 1 {
				w.flushConn(op.C)
			}
			if len(cand) > 0 {
				w.flushStream(cand[fcIdx(op.A, len(cand))], op.C)
				res.Shape("f")
			}
			if op.D&2 == 2 {
				w.flushConn(op.C)
			}
		case "cflush":
			w.flushConn(op.C)
			res.Shape("c")
		case "dlv":
			if n := len(w.segQ); n > 0 {
				idx := fcIdx(op.A, n)
				if idx != 0 {
					res.Fault("data-reordered")
				}
				seg := w.segQ[idx]
				w.segQ = append(w.segQ[:idx], w.segQ[idx+1:]...)
				w.deliverSeg(seg, false)
			}
		case "retx":
			if n := len(w.segLost); n > 0 {
				retransmit(fcIdx(op.A, n), op.B, op.C)
			}
		case "udlv":
			if n := len(w.msgQ); n > 0 {
				idx := fcIdx(op.A, n)
				if idx != 0 {
					res.Fault("update-reordered")
				}
				m := w.msgQ[idx]
				w.msgQ = append(w.msgQ[:idx], w.msgQ[idx+1:]...)
				w.deliverMsg(m)
			}
		case "uretx":
			if n := len(w.msgLost); n > 0 {
				idx := fcIdx(op.A, n)
				m := w.msgLost[idx]
				w.msgLost = append(w.msgLost[:idx], w.msgLost[idx+1:]...)
				res.Probe("update-retransmitted")
				w.deliverMsg(m)
			}
		case "tick":
			if op.A > 0 {
				time.Sleep(time.Duration(op.A))
			}
		case "rtt":
			if op.A > 0 {
				w.rttB.UpdateRTT(time.Duration(op.A), 0)
			}
		case "reset":
			var cand []int
			for i, s := range w.snd {
				if !s.reset {
					cand = append(cand, i)
				}
			}
			if len(cand) > 0 {
				w.resetSend(cand[fcIdx(op.A, len(cand))], op.B, op.C)
				res.Shape("R")
			}
		case "cancel":
			if i := pickRcv(op.A); i >= 0 {
				w.cancelRead(i, op.C)
				res.Shape("C")
			}
		case "params":
			w.params()
		case "adv":
			if sc.Adversary {
				w.adversary(int(op.A)%4, op.B, op.C)
			}
		}
	}

	// drain: the channel heals, everything lost is retransmitted, readers
	// consume everything, every cancelled stream is reset by its sender.
	// The workload must complete (clause 4 as liveness).
	if !res.Failed() && !w.ended && !w.advFired {
		w.what = "drain"
		w.healed = true
		w.params()
		done := false
		for round := 0; round < 20000 && !res.Failed() && !w.ended; round++ {
			before := w.progress
			for len(w.segLost) > 0 {
				retransmit(0, 0, 0)
			}
			for len(w.segQ) > 0 {
				seg := w.segQ[0]
				w.segQ = w.segQ[1:]
				w.deliverSeg(seg, false)
			}
			for i := range w.snd {
				w.send(i, fcUnlimited, 0, false)
				w.send(i, fcUnlimited, 0, false) // the FIN of an empty rest
			}
			w.checkConnBlocked()
			for i := range w.rcv {
				w.readStream(i, fcUnlimited, 0)
				w.readStream(i, fcUnlimited, 0) // observe EOF / the reset error
			}
			w.flushConn(0)
			for i := range w.rcv {
				w.flushStream(i, 0)
			}
			w.flushConn(0)
			for len(w.msgLost) > 0 {
				m := w.msgLost[0]
				w.msgLost = w.msgLost[1:]
				w.deliverMsg(m)
			}
			for len(w.msgQ) > 0 {
				m := w.msgQ[0]
				w.msgQ = w.msgQ[1:]
				w.deliverMsg(m)
			}
			time.Sleep(time.Duration(1+round%7) * 300 * time.Microsecond)
			done = len(w.segQ) == 0 && len(w.segLost) == 0 && len(w.msgQ) == 0 && len(w.msgLost) == 0
			for i := range w.snd {
				if !w.snd[i].reset && !w.snd[i].finSent {
					done = false
				}
				if !w.rcv[i].completed {
					done = false
				}
			}
			if done || res.Failed() {
				break
			}
			if w.progress == before {
				// nothing moved in a whole round with a perfect channel
				blocked, unread := -1, false
				for i, s := range w.snd {
					if !s.reset && !s.finSent && s.fc.SendWindowSize() == 0 {
						blocked = i
					}
					if r := w.rcv[i]; !r.completed && !r.cancelledL && r.contig() > r.read {
						unread = true
					}
				}
				if blocked >= 0 && !unread {
					s := w.snd[blocked]
					res.Fail("liveness: sender permanently blocked although the receiver consumed everything and all updates were delivered (credit leaked)",
						"stream %d: sent %d of %d, stream limit %d, connection sent %d limit %d; receiver: consumed+abandoned %d, received %d, MAX_DATA on the wire %d",
						blocked, s.sent, s.length, s.lim, w.sentTotal, w.limC, w.connCredited, w.connHi, w.connAdv)
				} else {
					res.Fail("liveness: workload does not complete after the channel healed", "blocked=%d unread=%v", blocked, unread)
				}
				break
			}
		}
		if !res.Failed() && !w.ended {
			if !done {
				res.Fail("liveness: drain did not finish within its round budget", "sent %d", w.sentTotal)
			} else {
				res.Probe("drained")
				// quiescence: everything received was consumed or abandoned and returned once
				for i, r := range w.rcv {
					if r.read+r.abandoned != r.hi {
						res.Fail("model: stream finished with bytes neither consumed nor abandoned", "stream %d read %d abandoned %d received %d", i, r.read, r.abandoned, r.hi)
					}
				}
				w.what = "quiescence"
				w.flushConn(0)
				w.checkConnFields()
				thr := int64(float64(w.connWinModel) * protocol.WindowUpdateThreshold)
				if float64(thr) < float64(w.connWinModel)*protocol.WindowUpdateThreshold {
					thr++
				}
				if w.connAdv-w.connCredited < w.connWinModel-thr {
					res.Fail("conservation: at quiescence the advertised connection limit is below received bytes plus window minus update threshold (credit leaked)",
						"MAX_DATA on the wire %d, received=consumed+abandoned %d, window %d", w.connAdv, w.connCredited, w.connWinModel)
				}
				if w.connAdv > w.connCredited+max(w.connWin, w.connMax) {
					res.Fail("conservation: at quiescence the advertised connection limit exceeds consumed and abandoned bytes plus the maximum window (credit duplicated)",
						"MAX_DATA on the wire %d, consumed+abandoned %d, max window %d", w.connAdv, w.connCredited, max(w.connWin, w.connMax))
				}
			}
		}
	}

	res.SimNS = int64(time.Since(t0))
	res.TraceU(uint64(res.Events), uint64(res.SimNS), uint64(w.sentTotal), uint64(w.limC), uint64(w.connHi), uint64(w.connCredited), uint64(w.connAdv), uint64(w.connWinModel))
	for i := range w.snd {
		s, r := w.snd[i], w.rcv[i]
		res.TraceU(uint64(s.sent), uint64(s.lim), uint64(r.hi), uint64(r.read), uint64(r.abandoned), uint64(r.adv), uint64(r.win))
	}
	res.TraceAdd(res.Violation)
	res.Nontrivial = res.Nontrivial || w.sentTotal > 0
}
