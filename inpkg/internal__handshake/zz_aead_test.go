package handshake

// K:aead - component simulation of 1-RTT packet protection (property C05): a
// real pair of updatableAEAD objects (client and server, keys installed the way
// crypto_setup.go does it) driven by a seeded history of sends (with skipped
// packet numbers, bulk runs and high starting numbers), a model network
// (in order, reordered, duplicated, very late, lost, bit-flipped), ACKs that are
// carried in real sealed packets, handshake confirmation, time steps around the
// 3 x PTO retention of the previous read keys, key updates initiated by the real
// code (intervals lowered per scenario), and - in a class of their own -
// packets crafted by a misbehaving peer that holds the keys.
// Reference model: ground-truth bookkeeping of what was sent / opened, RFC 9000
// Appendix A.3 written out, and an independent implementation of RFC 9001 /
// RFC 9369 key derivation, AEAD and header protection (bit-for-bit comparison of
// every packet the real sealer produces).
// Overlay file of /verif; never part of /repo.
//
// Calling contract taken from /repo/packet_packer.go, /repo/packet_unpacker.go,
// /repo/connection.go and crypto_setup.go:
//   - client: SetReadKey, then SetWriteKey; server: SetWriteKey (it may send
//     0.5-RTT packets), SetReadKey when the handshake completes, at which point
//     it also confirms the handshake; the client confirms on HANDSHAKE_DONE or
//     when an ACK newly acknowledges a 1-RTT packet;
//   - sending: KeyPhase() (may roll the keys), packet number length from
//     protocol.PacketNumberLengthForHeader(pn, largest acknowledged), Seal in
//     place, EncryptHeader over a 16-byte sample 4 bytes behind the start of the
//     packet number; KeyPhase() is also called when nothing is sent afterwards;
//   - receiving: DecryptHeader assuming 4 packet number bytes, ParseShortHeader,
//     restore the bytes beyond the real length, DecodePacketNumber, Open; the
//     frames of a packet are handled only if it opened and is no duplicate; an
//     ACK that newly acknowledges a 1-RTT packet is reported through
//     SetLargestAcked(largest acknowledged of the frame);
//   - ErrDecryptionFailed / ErrKeysDropped / header parse errors drop the packet,
//     any other error closes the connection.

import (
	"bytes"
	"crypto/aes"
	"crypto/cipher"
	"crypto/sha256"
	"crypto/sha512"
	"encoding/binary"
	"errors"
	"fmt"
	"hash"
	"io"
	"testing"
	"time"

	"golang.org/x/crypto/chacha20"
	"golang.org/x/crypto/chacha20poly1305"
	"golang.org/x/crypto/hkdf"

	"github.com/refraction-networking/uquic/internal/monotime"
	"github.com/refraction-networking/uquic/internal/protocol"
	"github.com/refraction-networking/uquic/internal/qerr"
	"github.com/refraction-networking/uquic/internal/utils"
	"github.com/refraction-networking/uquic/internal/wire"
)

func init() { KRegister(aeSim()) }

// network classes (separate scenario classes, oracle rule 4)
const (
	aeNetClean   = 0 // per direction first-in first-out, nothing lost, nothing duplicated
	aeNetReorder = 1 // reordering, duplication, arbitrary delay; nothing lost, nothing damaged
	aeNetFaulty  = 2 // additionally loss, bit flips, truncation, wrong packet numbers
	aeNetEvil    = 3 // reordering network plus a peer that misuses the keys it holds
)

type aeOp struct {
	K string `json:"k"`
	S int    `json:"s,omitempty"` // side: 0 client, 1 server (the sender; for rx/tamper/wrongpn/drop the sender whose packets are in flight)
	N int64  `json:"n,omitempty"` // count, amount or index selector
	L int    `json:"l,omitempty"` // payload length
	A bool   `json:"a,omitempty"` // tx: the packet carries an ACK of everything received so far
	M int    `json:"m,omitempty"` // mode (see the operation)
	D bool   `json:"d,omitempty"` // rx: the packet stays in flight as well (a duplicate arrives later)
	X int64  `json:"x,omitempty"`
	B int    `json:"b,omitempty"`
	Y int64  `json:"y,omitempty"`
}

type aeScenario struct {
	Seed     uint64   `json:"seed"`
	V2       bool     `json:"v2"`       // QUIC version 2 (RFC 9369) labels
	Suite    int      `json:"suite"`    // 0 AES-128-GCM, 1 AES-256-GCM, 2 ChaCha20-Poly1305
	CIDLen   [2]int   `json:"cid_len"`  // length of the connection ID of client / server (destination of the other side's packets)
	Base     [2]int64 `json:"base"`     // first packet number of client / server
	Warp     bool     `json:"warp"`     // the first packet of a direction is opened with its true number (stands for a long earlier history)
	KUFirst  uint64   `json:"ku_first"` // FirstKeyUpdateInterval
	KUInt    uint64   `json:"ku_int"`   // key update interval
	RTTus    int64    `json:"rtt_us"`   // first RTT sample of both sides (0: none)
	MADms    int64    `json:"mad_ms"`   // max_ack_delay
	Net      int      `json:"net"`      // network class
	Ops      []aeOp   `json:"ops"`
	NoDrain  bool     `json:"no_drain"` // skip the final loss-free exchange
	FullInd  bool     `json:"full_ind"` // independent computation on every packet of a bulk run (else sampled after the first 64)
	Comments []string `json:"comments,omitempty"`
}

func (s *aeScenario) KSeed() uint64 { return s.Seed }

func aeSim() *KSim {
	return &KSim{
		Name: "aead",
		New:  func() KScenario { return &aeScenario{} },
		Gen:  aeGen,
		Run:  runAEAD,
	}
}

// ---------------------------------------------------------------- generator

func aeWeighted(r *KRng, w []int) int {
	sum := 0
	for _, x := range w {
		sum += x
	}
	x := r.N(sum)
	for i, v := range w {
		if x < v {
			return i
		}
		x -= v
	}
	return len(w) - 1
}

var aeBases = []int64{0, 0, 0, 1, 7, 250, 1<<14 - 3, 1<<15 - 20, 1<<16 - 30, 1<<16 + 5, 1<<24 - 40, 1<<31 - 50, 1<<32 - 25}
var aeWarpBases = []int64{1<<32 - 3, 1<<32 + 1000, 1<<40 + 12345, 1<<48 - 7, 1<<56 + 1, 1<<62 - 300, 1<<62 - 70000}
var aeSkips = []int64{1, 1, 1, 2, 3, 9, 100, 255, 256, 32000, 32767, 32768, 40000, 65536, 70000, 1<<23 - 1, 1 << 23, 1<<24 + 3, 1<<30 + 1, 1<<31 - 3}

func aeLen(r *KRng) int { return r.Pick(1, 2, 3, 5, 16, 17, 20, 40, 64, 300, 1200) }

func aeGen(seed uint64, tier string) KScenario {
	r := NewKRng(seed)
	sc := &aeScenario{Seed: seed, V2: r.Bool(), Suite: r.N(3), MADms: int64(r.Pick(0, 25, 25, 100))}
	for i := range sc.CIDLen {
		sc.CIDLen[i] = r.Pick(0, 4, 8, 8, 8, 16, 20)
	}
	sc.RTTus = int64(r.Pick(0, 0, 500, 10000, 10000, 60000, 250000))
	sc.FullInd = r.P(0.3)
	thorough := tier == "thorough"
	prof := aeWeighted(r, []int{30, 14, 14, 20, 10, 12})
	if r.P(0.6) {
		for i := range sc.Base {
			sc.Base[i] = aeBases[r.N(len(aeBases))]
		}
	}
	if r.P(0.05) {
		sc.Warp = true
		for i := range sc.Base {
			sc.Base[i] = aeWarpBases[r.N(len(aeWarpBases))]
		}
	}
	sc.KUFirst = uint64(r.Pick(1, 2, 3, 5, 8, 20, 100))
	sc.KUInt = uint64(r.Pick(1, 2, 3, 4, 6, 10, 25, 100))
	switch prof {
	case 0: // many key updates
		sc.Net = r.Pick(aeNetClean, aeNetReorder, aeNetReorder, aeNetReorder)
	case 1: // long runs
		sc.Net = r.Pick(aeNetClean, aeNetReorder, aeNetFaulty)
		sc.KUFirst = uint64(r.Pick(5, 100, 100))
		sc.KUInt = uint64(r.Pick(40, 1000, 100000))
	case 2: // very late duplicates
		sc.Net = r.Pick(aeNetReorder, aeNetReorder, aeNetFaulty)
		if r.P(0.5) {
			sc.KUFirst, sc.KUInt = 100, 100000
		}
	case 3:
		sc.Net = aeNetFaulty
	case 4:
		sc.Net = aeNetEvil
	case 5: // traffic before the handshake is confirmed
		sc.Net = r.Pick(aeNetClean, aeNetReorder, aeNetFaulty)
		sc.KUFirst = uint64(r.Pick(1, 1, 2, 3))
		sc.KUInt = uint64(r.Pick(1, 2, 3))
	}
	add := func(op aeOp) { sc.Ops = append(sc.Ops, op) }
	txNow := func(s int, ack bool) { add(aeOp{K: "tx", S: s, L: aeLen(r), A: ack, M: 1}) }

	// handshake completion
	hsAt := [2]int{0, 0} // number of ordinary operations before the side's confirmation
	if prof == 5 {
		hsAt = [2]int{r.Range(0, 25), r.Range(0, 15)}
	} else if r.P(0.15) {
		hsAt = [2]int{r.Range(0, 8), r.Range(0, 4)}
	}
	if r.P(0.3) {
		hsAt[0] = 1 << 30 // the client confirms through an ACK
	}

	n := r.Range(8, 70)
	if thorough && r.P(0.3) {
		n = r.Range(70, 400)
	}
	if prof == 2 {
		n = r.Range(4, 30)
	}
	hsAt[1] = min(hsAt[1], n-1)
	//                tx  rx tick tickx peek rtt skip bulk drop tamper wrongpn evil
	w := [][]int{
		{38, 36, 8, 5, 3, 2, 3, 5, 0, 0, 0, 0},
		{28, 24, 5, 2, 2, 2, 17, 20, 0, 0, 0, 0},
		{35, 35, 8, 3, 2, 2, 8, 7, 0, 0, 0, 0},
		{30, 28, 6, 3, 2, 1, 4, 5, 5, 12, 4, 0},
		{36, 34, 6, 3, 4, 1, 3, 3, 0, 0, 0, 10},
		{42, 34, 6, 3, 5, 2, 3, 5, 0, 0, 0, 0},
	}[prof]
	if sc.Net == aeNetFaulty && prof != 3 {
		w[8], w[9], w[10] = 4, 6, 2
	}
	gen := func() {
		switch aeWeighted(r, w) {
		case 0:
			add(aeOp{K: "tx", S: r.N(2), L: aeLen(r), A: r.P(0.8), M: r.Pick(0, 0, 1, 1, 2)})
		case 1:
			add(aeOp{K: "rx", S: r.N(2), N: int64(r.N(64)), M: r.Pick(0, 0, 0, 1), D: r.P(0.2), X: int64(r.Pick(0, 0, 0, 0, 50, 3000))})
		case 2:
			if r.P(0.5) {
				add(aeOp{K: "tick", N: int64(r.Pick(1, 100, 1000, 5000, 30000, 200000, 1000000))})
			} else {
				add(aeOp{K: "tick", S: r.N(2), M: 1, N: int64(r.Pick(1, 2, 4, 8, 11, 12, 13, 20))})
			}
		case 3:
			add(aeOp{K: "tickx", S: r.N(2), X: int64(r.Pick(-1000000, -1, 0, 1, 1, 1000, 1000000))})
		case 4:
			add(aeOp{K: "peek", S: r.N(2)})
		case 5:
			add(aeOp{K: "rtt", S: r.N(2), N: int64(r.Pick(200, 5000, 20000, 100000, 400000))})
		case 6:
			add(aeOp{K: "skip", S: r.N(2), N: aeSkips[r.N(len(aeSkips))]})
		case 7:
			nn := int64(r.Range(3, 60))
			if prof == 1 {
				nn = int64(r.Range(20, 400))
				if r.P(0.004) || (thorough && r.P(0.02)) {
					nn = int64(r.Range(33000, 70000))
				}
				if thorough && r.P(0.006) {
					nn = int64(r.Range(70000, 300000))
				}
			} else if r.P(0.03) {
				nn = int64(r.Range(200, 1500))
			}
			op := aeOp{K: "bulk", S: r.N(2), N: nn, L: r.Pick(1, 3, 20, 20, 64), X: int64(r.Pick(0, 0, 1, 2, 5, 10, 50, 1000)), B: r.Pick(0, 0, 3, 17, 500, 9000)}
			if sc.Net == aeNetFaulty {
				op.Y = int64(r.Pick(0, 0, 2, 7, 100))
			}
			add(op)
		case 8:
			add(aeOp{K: "drop", S: r.N(2), N: int64(r.N(64)), M: r.N(2)})
		case 9:
			add(aeOp{K: "tamper", S: r.N(2), N: int64(r.N(64)), M: r.N(8), X: int64(r.N(4096)), B: r.N(8)})
		case 10:
			add(aeOp{K: "wrongpn", S: r.N(2), N: int64(r.N(64)), X: int64(r.Pick(-70000, -256, -2, -1, 1, 2, 255, 256, 65536, 1<<24, 1<<32))})
		case 11:
			add(aeOp{K: "evil", S: r.N(2), M: r.Range(1, 4)})
		}
	}
	for i := 0; i < n; i++ {
		for s := 0; s < 2; s++ {
			if hsAt[1-s] == i { // server first
				add(aeOp{K: "hs", S: 1 - s})
			}
		}
		if prof == 2 && i == n/2 {
			// a packet with a long encoding, a long stretch of numbers, then its very late duplicate
			s := r.N(2)
			txNow(s, true)
			txNow(1-s, true)
			far := r.P(0.5) // the old packet ends up outside what its encoding can bridge
			if !far {
				add(aeOp{K: "skip", S: s, N: int64(r.Pick(32768, 33000, 40000, 70000))})
			}
			add(aeOp{K: "tx", S: s, L: aeLen(r), A: true, M: 2})
			txNow(1-s, true)
			if r.P(0.015) || (thorough && r.P(0.2)) {
				add(aeOp{K: "bulk", S: s, N: int64(r.Range(33000, 50000)), L: 3, X: int64(r.Pick(0, 100, 1000))})
			} else {
				add(aeOp{K: "skip", S: s, N: int64(r.Pick(32768, 33000, 40000, 70000, 1<<23+5))})
				txNow(s, true)
			}
			txNow(1-s, true)
			for k := r.N(4); k >= 0; k-- {
				txNow(s, true)
				if r.P(0.5) {
					txNow(1-s, true)
				}
			}
			add(aeOp{K: "rx", S: s, N: 0, M: 0, D: r.P(0.5)})
			txNow(s, true)
			txNow(1-s, true)
			txNow(s, true)
		}
		gen()
	}
	return sc
}

// ---------------------------------------------------------------- independent implementation (RFC 9001 / RFC 9369)

// HKDF-Expand-Label of RFC 8446 section 7.1 with an empty context.
func aeExpandLabel(newH func() hash.Hash, secret []byte, label string, n int) []byte {
	info := []byte{byte(n >> 8), byte(n), byte(6 + len(label))}
	info = append(info, "tls13 "...)
	info = append(info, label...)
	info = append(info, 0)
	out := make([]byte, n)
	if _, err := io.ReadFull(hkdf.Expand(newH, secret, info), out); err != nil {
		panic("harness: hkdf: " + err.Error())
	}
	return out
}

type aeInd struct {
	v2     bool
	suite  int
	newH   func() hash.Hash
	hlen   int
	klen   int
	secret [][]byte
	aead   []cipher.AEAD
	iv     [][]byte
	hpAES  cipher.Block
	hpKey  []byte
}

func (k *aeInd) label(s string) string {
	if k.v2 {
		return "quicv2 " + s // RFC 9369 section 3.3.2
	}
	return "quic " + s // RFC 9001 sections 5.1 and 6.1
}

func aeNewInd(v2 bool, suite int, secret0 []byte) *aeInd {
	k := &aeInd{v2: v2, suite: suite}
	switch suite {
	case 0: // TLS_AES_128_GCM_SHA256
		k.newH, k.hlen, k.klen = sha256.New, 32, 16
	case 1: // TLS_AES_256_GCM_SHA384
		k.newH, k.hlen, k.klen = sha512.New384, 48, 32
	default: // TLS_CHACHA20_POLY1305_SHA256
		k.newH, k.hlen, k.klen = sha256.New, 32, 32
	}
	k.secret = [][]byte{secret0}
	k.hpKey = aeExpandLabel(k.newH, secret0, k.label("hp"), k.klen) // the header protection key is never updated
	if suite != 2 {
		b, err := aes.NewCipher(k.hpKey)
		if err != nil {
			panic(err)
		}
		k.hpAES = b
	}
	return k
}

func (k *aeInd) gen(n int) (cipher.AEAD, []byte) {
	for len(k.secret) <= n {
		k.secret = append(k.secret, aeExpandLabel(k.newH, k.secret[len(k.secret)-1], k.label("ku"), k.hlen))
	}
	for len(k.aead) <= n {
		s := k.secret[len(k.aead)]
		key := aeExpandLabel(k.newH, s, k.label("key"), k.klen)
		iv := aeExpandLabel(k.newH, s, k.label("iv"), 12)
		var a cipher.AEAD
		var err error
		if k.suite == 2 {
			a, err = chacha20poly1305.New(key)
		} else {
			var b cipher.Block
			if b, err = aes.NewCipher(key); err == nil {
				a, err = cipher.NewGCM(b)
			}
		}
		if err != nil {
			panic(err)
		}
		k.aead = append(k.aead, a)
		k.iv = append(k.iv, iv)
	}
	return k.aead[n], k.iv[n]
}

func (k *aeInd) mask(sample []byte) (m [5]byte) {
	if k.suite == 2 {
		c, err := chacha20.NewUnauthenticatedCipher(k.hpKey, sample[4:16])
		if err != nil {
			panic(err)
		}
		c.SetCounter(binary.LittleEndian.Uint32(sample[:4]))
		c.XORKeyStream(m[:], m[:])
		return m
	}
	var b [16]byte
	k.hpAES.Encrypt(b[:], sample)
	copy(m[:], b[:5])
	return m
}

// seal protects a short header packet: hdr is the unprotected header (its last
// 1..4 bytes are the packet number), pt the payload.
func (k *aeInd) seal(dst []byte, g int, pn int64, hdr, pt []byte) []byte {
	a, iv := k.gen(g)
	var nonce [12]byte
	copy(nonce[:], iv)
	for i := 0; i < 8; i++ {
		nonce[4+i] ^= byte(uint64(pn) >> (56 - 8*i))
	}
	dst = append(dst[:0], hdr...)
	dst = a.Seal(dst, nonce[:], pt, hdr)
	pnLen := int(hdr[0]&3) + 1
	pnOff := len(hdr) - pnLen
	m := k.mask(dst[pnOff+4 : pnOff+20])
	dst[0] ^= m[0] & 0x1f
	for i := 0; i < pnLen; i++ {
		dst[pnOff+i] ^= m[1+i]
	}
	return dst
}

// RFC 9000 Appendix A.3, written out. largest is -1 when nothing was received.
func aeRFCDecode(largest int64, truncated int64, bits uint) int64 {
	expected := largest + 1
	win := int64(1) << bits
	hwin := win / 2
	mask := win - 1
	candidate := (expected &^ mask) | truncated
	if candidate <= expected-hwin && candidate < (1<<62)-win {
		return candidate + win
	}
	if candidate > expected+hwin && candidate >= win {
		return candidate - win
	}
	return candidate
}

// ---------------------------------------------------------------- model

type aePkt struct {
	from       int
	pn         int64
	pnLen      int
	gen        int
	numUnacked int64 // pn minus what the sender knew acknowledged
	wire       []byte
	pt         []byte
	hasAck     bool
	ackL       int64
	ackC       int64
	opened     int
	kept       bool // lives in the in-flight pool
}

type aeSide struct {
	name      string
	client    bool
	real      *updatableAEAD
	rtt       *utils.RTTStats
	canRecv   bool
	confirmed bool
	// sender
	nextPN         int64
	largestSent    int64
	largestAcked   int64 // largest acknowledged by an ACK that newly acknowledged something (-1: none)
	maxAckC        int64
	gen            int  // key generation (one counter for both directions, as in the component)
	selfInit       bool // the side entered the current generation on its own initiative
	sentInGen      int64
	firstSentInGen int64
	// receiver
	ranges         [][2]int64
	rcvdCount      int64
	largestRcvd    int64
	prevAvail      bool
	expirySet      bool
	prevExpiry     monotime.Time
	rcvdInGen      int64 // successful openings under the current keys (without the one that made the side follow an update)
	firstRcvdValid bool
	lastRcv        monotime.Time
}

func (s *aeSide) has(pn int64) bool {
	lo, hi := 0, len(s.ranges)
	for lo < hi {
		m := (lo + hi) / 2
		if s.ranges[m][1] < pn {
			lo = m + 1
		} else {
			hi = m
		}
	}
	return lo < len(s.ranges) && s.ranges[lo][0] <= pn
}

func (s *aeSide) add(pn int64) {
	n := len(s.ranges)
	if n > 0 && s.ranges[n-1][1]+1 == pn {
		s.ranges[n-1][1] = pn
		return
	}
	if n == 0 || s.ranges[n-1][1] < pn {
		s.ranges = append(s.ranges, [2]int64{pn, pn})
		return
	}
	lo, hi := 0, n
	for lo < hi {
		m := (lo + hi) / 2
		if s.ranges[m][1] < pn {
			lo = m + 1
		} else {
			hi = m
		}
	}
	// ranges[lo] is the first range ending at or above pn; pn is not inside it
	joinL := lo > 0 && s.ranges[lo-1][1]+1 == pn
	joinR := s.ranges[lo][0]-1 == pn
	switch {
	case joinL && joinR:
		s.ranges[lo-1][1] = s.ranges[lo][1]
		s.ranges = append(s.ranges[:lo], s.ranges[lo+1:]...)
	case joinL:
		s.ranges[lo-1][1] = pn
	case joinR:
		s.ranges[lo][0] = pn
	default:
		s.ranges = append(s.ranges, [2]int64{})
		copy(s.ranges[lo+1:], s.ranges[lo:])
		s.ranges[lo] = [2]int64{pn, pn}
	}
}

var aePNLenProbe = [5]string{"", "pn-length-1", "pn-length-2", "pn-length-3", "pn-length-4"}

const aeMaxPN = 1<<62 - 1
const aePoolCap = 40

type aeModel struct {
	sc      *aeScenario
	res     *KResult
	side    [2]*aeSide
	ind     [2]*aeInd // by sending side
	cid     [2][]byte // connection ID of the side (destination of the other side's packets)
	pool    [2][]*aePkt
	ended   bool
	fill    uint64
	raw     []byte
	exp     []byte
	scratch []byte
	ptBuf   []byte
	tmp     aePkt
	inBulk  int64 // index within a bulk run (-1: not in one)
}

func (m *aeModel) fillBytes(b []byte) {
	x := m.fill
	for i := range b {
		x ^= x << 13
		x ^= x >> 7
		x ^= x << 17
		b[i] = byte(x >> 24)
	}
	m.fill = x
}

func (m *aeModel) crossed(from, to int64) {
	for _, b := range []uint{16, 24, 32, 40} {
		if from < 1<<b && to >= 1<<b {
			m.res.Probe(fmt.Sprintf("pn-crossed-2^%d", b))
		}
	}
}

// permitted: may the side initiate a key update right now (RFC 9001 section 6.1)? Ground truth of the model.
func (s *aeSide) permitted() bool {
	if !s.confirmed {
		return false
	}
	return s.gen == 0 || (s.sentInGen > 0 && s.largestAcked >= s.firstSentInGen)
}

func (m *aeModel) limitReached(s *aeSide) bool {
	lim := int64(m.sc.KUInt)
	if s.gen == 0 && int64(m.sc.KUFirst) < lim {
		lim = int64(m.sc.KUFirst)
	}
	return s.sentInGen >= lim || s.rcvdInGen >= lim
}

// selfUpdate: the side was observed to move to the next generation without having received a packet of it.
func (m *aeModel) selfUpdate(s *aeSide, what string) {
	res := m.res
	if !s.confirmed {
		res.Fail("key update initiated before the handshake was confirmed", "%s: %s moved from generation %d to %d", what, s.name, s.gen, s.gen+1)
		return
	}
	if s.gen > 0 && !(s.sentInGen > 0 && s.largestAcked >= s.firstSentInGen) {
		res.Fail("key update initiated before a packet of the current generation was acknowledged", "%s: %s moved from generation %d to %d; sent in generation: %d, first of them %d, largest acknowledged %d", what, s.name, s.gen, s.gen+1, s.sentInGen, s.firstSentInGen, s.largestAcked)
		return
	}
	if s.gen == 0 && !(s.sentInGen > 0 && s.largestAcked >= s.firstSentInGen) {
		// RFC 9001 section 6.1 demands the acknowledgement only for "subsequent" updates
		res.Probe("first-update-without-ack-of-generation-0")
	}
	if m.limitReached(s) {
		res.Probe("update-at-interval-limit")
	}
	s.gen++
	s.selfInit = true
	s.sentInGen, s.firstSentInGen = 0, -1
	s.rcvdInGen, s.firstRcvdValid = 0, false
	s.prevAvail, s.expirySet = true, false // the old read keys stay until the peer is seen to have followed
	res.Probe("update-self-initiated")
	peer := m.side[0]
	if peer == s {
		peer = m.side[1]
	}
	if peer.gen == s.gen && peer.selfInit && !peer.firstRcvdValid {
		res.Probe("simultaneous-update")
	}
	m.genProbe(s.gen)
	res.Shape("U" + s.name[:1])
}

func (m *aeModel) genProbe(g int) {
	for _, k := range []int{2, 5, 20, 100} {
		if g == k {
			m.res.Probe(fmt.Sprintf("key-generation-ge-%d", k))
		}
	}
}

// send lets side si produce one packet the way the packer does. The record returned is m.tmp (valid until the next send).
func (m *aeModel) send(si int, ptLen int, withAck bool, what string) *aePkt {
	res := m.res
	s := m.side[si]
	pn := s.nextPN
	if pn > aeMaxPN {
		return nil
	}
	before := s.gen
	mustUpdate := s.permitted() && m.limitReached(s)
	kp := s.real.KeyPhase()
	pnLen := int(protocol.PacketNumberLengthForHeader(protocol.PacketNumber(pn), protocol.PacketNumber(s.largestAcked)))
	res.Probe(aePNLenProbe[pnLen])
	ptLen = min(max(ptLen, 1), 1400)
	if ptLen < 4-pnLen {
		ptLen = 4 - pnLen // the packer pads so that a header protection sample exists
	}
	// header: fixed bit, key phase, packet number length; connection ID; truncated packet number
	cid := m.cid[1-si]
	raw := m.raw[:0]
	b0 := byte(0x40) | byte(pnLen-1)
	if kp == protocol.KeyPhaseOne {
		b0 |= 0x04
	}
	raw = append(raw, b0)
	raw = append(raw, cid...)
	for i := pnLen - 1; i >= 0; i-- {
		raw = append(raw, byte(uint64(pn)>>(8*uint(i))))
	}
	off := len(raw)
	pnOff := off - pnLen
	if cap(m.ptBuf) < ptLen {
		m.ptBuf = make([]byte, ptLen)
	}
	pt := m.ptBuf[:ptLen]
	m.fillBytes(pt)
	raw = append(raw, pt...)
	var hdr [1 + 20 + 4]byte
	copy(hdr[:], raw[:off])
	_ = s.real.Seal(raw[off:off], raw[off:], protocol.PacketNumber(pn), raw[:off])
	raw = raw[:len(raw)+s.real.Overhead()]
	s.real.EncryptHeader(raw[pnOff+4:pnOff+4+16], &raw[0], raw[pnOff:off])
	m.raw = raw

	// which generation protected it? (d): bit-for-bit against the independent implementation
	g := -1
	sampled := m.sc.FullInd || m.inBulk < 64 || m.inBulk%7 == 0 || (kp == protocol.KeyPhaseOne) != (before&1 == 1)
	if sampled {
		hpOnly := -1
		for _, c := range []int{before, before + 1, before - 1, before + 2} {
			if c < 0 {
				continue
			}
			m.exp = m.ind[si].seal(m.exp, c, pn, hdr[:off], pt)
			if len(m.exp) == len(raw) && bytes.Equal(m.exp[off:], raw[off:]) {
				if bytes.Equal(m.exp[:off], raw[:off]) {
					g = c
				} else {
					hpOnly = c
				}
				break
			}
		}
		if g < 0 {
			vers := "RFC 9001 (QUIC v1)"
			if m.sc.V2 {
				vers = "RFC 9369 (QUIC v2)"
			}
			switch {
			case hpOnly >= 0:
				res.Fail("header protection of a sealed packet differs from the independent computation, "+vers, "%s: %s pn %d suite %d: got header % x, independent % x (generation %d)", what, s.name, pn, m.sc.Suite, raw[:off], m.exp[:off], hpOnly)
			case before == 0 && kp == protocol.KeyPhaseZero:
				res.Fail("sealed packet of the initial key generation differs from the independent computation, "+vers, "%s: %s pn %d suite %d", what, s.name, pn, m.sc.Suite)
			default:
				res.Fail("sealed packet after a key update matches no independently derived key generation, "+vers, "%s: %s pn %d suite %d: model generation %d, key phase bit %v; tried generations %d..%d", what, s.name, pn, m.sc.Suite, before, kp, before-1, before+2)
			}
			return nil
		}
		if (g&1 == 1) != (kp == protocol.KeyPhaseOne) {
			res.Fail("key phase bit on the wire does not match the key generation that protected the packet", "%s: %s pn %d generation %d bit %v", what, s.name, pn, g, kp)
			return nil
		}
	} else {
		g = before
	}
	switch {
	case g == before:
		if mustUpdate {
			res.Fail("no key update initiated although the packet limit per key generation was reached and an update was permitted", "%s: %s generation %d: sent %d, opened %d with it; limits first=%d interval=%d", what, s.name, s.gen, s.sentInGen, s.rcvdInGen, m.sc.KUFirst, m.sc.KUInt)
			return nil
		}
	case g == before+1:
		m.selfUpdate(s, what)
		if res.Failed() {
			return nil
		}
	case g < before:
		res.Fail("packet protected with an older key generation than the one the endpoint had reached", "%s: %s pn %d generation %d, reached %d", what, s.name, pn, g, before)
		return nil
	default:
		res.Fail("endpoint skipped a key generation", "%s: %s pn %d generation %d, was in %d", what, s.name, pn, g, before)
		return nil
	}
	if s.sentInGen == 0 {
		s.firstSentInGen = pn
	}
	s.sentInGen++
	m.crossed(s.largestSent, pn)
	if pn >= 1<<62-100000 {
		res.Probe("pn-near-2^62")
	}
	s.largestSent = pn
	s.nextPN = pn + 1
	p := &m.tmp
	unacked := pn - s.largestAcked
	*p = aePkt{from: si, pn: pn, pnLen: pnLen, gen: g, numUnacked: unacked, wire: raw, pt: pt}
	if withAck && s.rcvdCount > 0 {
		p.hasAck, p.ackL, p.ackC = true, s.largestRcvd, s.rcvdCount
	}
	res.TraceU(0x10, uint64(si), uint64(pn), uint64(pnLen), uint64(g))
	if m.inBulk < 0 {
		res.Logf("%s: %s sends pn %d (%d bytes of number, generation %d, %d bytes payload, ack=%v/%d)", what, s.name, pn, pnLen, g, ptLen, p.hasAck, p.ackL)
	}
	return p
}

func (m *aeModel) keep(p *aePkt) *aePkt {
	q := *p
	q.wire = append([]byte(nil), p.wire...)
	q.pt = append([]byte(nil), p.pt...)
	q.kept = true
	pl := m.pool[p.from]
	if len(pl) >= aePoolCap {
		// forget one from the middle: the oldest ones are the interesting late arrivals
		k := 2 + int(uint64(p.pn)%uint64(aePoolCap/2))
		pl = append(pl[:k], pl[k+1:]...)
	}
	m.pool[p.from] = append(pl, &q)
	return &q
}

func (m *aeModel) remove(p *aePkt) {
	pl := m.pool[p.from]
	for i, q := range pl {
		if q == p {
			m.pool[p.from] = append(pl[:i], pl[i+1:]...)
			return
		}
	}
}

type aeMut struct {
	kind   int // 0 none, 1 damage, 2 wrong packet number
	region int
	x      int64
	bit    int
	lag    time.Duration
}

func aeErrName(err error) string {
	var te *qerr.TransportError
	switch {
	case err == nil:
		return "ok"
	case err == ErrDecryptionFailed:
		return "decryption-failed"
	case err == ErrKeysDropped:
		return "keys-dropped"
	case errors.As(err, &te):
		return "transport-error"
	}
	return "header-error"
}

// unpack does what packetUnpacker.unpackShortHeaderPacket does. pnOverride >= 0 replaces the decoded number.
func (m *aeModel) unpack(rcv *aeSide, buf []byte, cidLen int, rcvTime monotime.Time, wrongDelta int64, truePN int64, warp bool) (pn int64, pnLen int, dec []byte, err error) {
	hdrLen := 1 + cidLen
	if len(buf) < hdrLen+4+16 {
		return 0, 0, nil, fmt.Errorf("packet too small")
	}
	var orig [4]byte
	copy(orig[:], buf[hdrLen:hdrLen+4])
	rcv.real.DecryptHeader(buf[hdrLen+4:hdrLen+4+16], &buf[0], buf[hdrLen:hdrLen+4])
	l, wpn, wlen, kp, parseErr := wire.ParseShortHeader(buf, cidLen)
	if parseErr != nil && parseErr != wire.ErrInvalidReservedBits {
		return 0, 0, nil, parseErr
	}
	if wlen != protocol.PacketNumberLen4 {
		copy(buf[hdrLen+int(wlen):hdrLen+4], orig[int(wlen):])
	}
	dpn := rcv.real.DecodePacketNumber(wpn, wlen)
	if warp {
		dpn = protocol.PacketNumber(truePN)
	}
	if wrongDelta != 0 {
		dpn += protocol.PacketNumber(wrongDelta)
		if dpn < 0 {
			dpn = -dpn
		}
		if int64(dpn) == truePN {
			dpn++
		}
	}
	dec, err = rcv.real.Open(buf[l:l], buf[l:], rcvTime, dpn, kp, buf[:l])
	if err != nil {
		return int64(dpn), int(wlen), nil, err
	}
	return int64(dpn), int(wlen), dec, parseErr
}

// deliver hands one packet to its destination. Returns whether it was opened.
func (m *aeModel) deliver(p *aePkt, mut aeMut, what string) bool {
	res := m.res
	rcv := m.side[1-p.from]
	if !rcv.canRecv {
		return false
	}
	rcvTime := monotime.Now().Add(-mut.lag)
	if rcvTime < rcv.lastRcv {
		rcvTime = rcv.lastRcv
	}
	rcv.lastRcv = rcvTime
	buf := append(m.scratch[:0], p.wire...)
	m.scratch = buf
	cidLen := len(m.cid[1-p.from])

	tampered := ""
	if mut.kind == 1 {
		hdrLen := 1 + cidLen + p.pnLen
		x := int(mut.x)
		switch mut.region {
		case 0:
			buf[0] ^= 1 << uint(mut.bit)
			tampered = "first-byte"
		case 1:
			if cidLen == 0 {
				return false
			}
			buf[1+x%cidLen] ^= 1 << uint(mut.bit)
			tampered = "connection-id"
		case 2:
			buf[1+cidLen+x%p.pnLen] ^= 1 << uint(mut.bit)
			tampered = "packet-number"
		case 3, 4:
			buf[hdrLen+x%(len(buf)-hdrLen-16)] ^= 1 << uint(mut.bit)
			tampered = "payload"
		case 5:
			buf[len(buf)-16+x%16] ^= 1 << uint(mut.bit)
			tampered = "tag"
		case 6:
			buf = buf[:len(buf)-1-x%min(20, len(buf)-1)]
			tampered = "truncated"
		default:
			n := len(buf) + 1 + x&1
			buf = append(buf, byte(x), byte(x>>8))[:n]
			tampered = "extended"
		}
	} else if mut.kind == 2 {
		tampered = "wrong-number"
	}

	// ---- expectation from ground truth (only for an intact packet)
	bits := uint(8 * p.pnLen)
	warp := m.sc.Warp && rcv.rcvdCount == 0 && tampered == ""
	decodable := warp || aeRFCDecode(rcv.largestRcvd, p.pn&(1<<bits-1), bits) == p.pn
	atExpiry := false
	if rcv.prevAvail && rcv.expirySet {
		if rcvTime > rcv.prevExpiry {
			rcv.prevAvail, rcv.expirySet = false, false
			res.Probe("old-keys-dropped")
		} else if rcvTime == rcv.prevExpiry {
			atExpiry = true
		}
	}
	G := rcv.gen
	const (
		kCur = iota
		kNext
		kPrevKept
		kPrevEdge
		kPrevGone
		kOlder
		kFuture
	)
	key := kCur
	switch {
	case p.gen == G:
	case p.gen == G+1:
		key = kNext
	case p.gen == G-1 && rcv.prevAvail && atExpiry:
		key = kPrevEdge
	case p.gen == G-1 && rcv.prevAvail:
		key = kPrevKept
	case p.gen == G-1:
		key = kPrevGone
	case p.gen < G:
		key = kOlder
	default:
		key = kFuture
	}
	mustOpen := tampered == "" && decodable && (key == kCur || key == kNext || key == kPrevKept)
	threePTO := 3 * rcv.rtt.PTO(true)

	wrong := int64(0)
	if mut.kind == 2 {
		wrong = mut.x
		if wrong == 0 {
			wrong = 1
		}
	}
	pn, _, dec, err := m.unpack(rcv, buf, cidLen, rcvTime, wrong, p.pn, warp)
	en := aeErrName(err)
	res.TraceU(0x20, uint64(p.from), uint64(p.pn), uint64(KHashS(en)), uint64(KHashS(tampered)))
	if m.inBulk < 0 {
		res.Logf("%s: %s receives pn %d of generation %d (own generation %d, largest opened %d, %s) -> %s [decoded %d]", what, rcv.name, p.pn, p.gen, G, rcv.largestRcvd, tampered, en, pn)
	}

	if tampered != "" {
		res.Fault("tamper-" + tampered)
		switch en {
		case "ok":
			if mut.kind == 2 {
				res.Fail("packet opened with a wrong packet number", "%s: %s pn %d opened as %d", what, rcv.name, p.pn, pn)
			} else {
				res.Fail("modified packet accepted", "%s: %s pn %d damage %s: returned %d bytes", what, rcv.name, p.pn, tampered, len(dec))
			}
		case "transport-error":
			res.Fail("modified packet raised a connection error", "%s: %s pn %d damage %s: %v", what, rcv.name, p.pn, tampered, err)
		}
		res.Shape("T" + en[:1])
		return false
	}

	if en == "transport-error" {
		res.Fail("intact packet of the peer raised a connection error", "%s: %s pn %d generation %d (receiver generation %d): %v", what, rcv.name, p.pn, p.gen, G, err)
		return false
	}
	old := p.pn < rcv.largestRcvd
	isDup := rcv.has(p.pn)
	if err != nil {
		if mustOpen {
			switch {
			case pn != p.pn && p.pn > rcv.largestRcvd:
				res.Fail("packet number of a new highest packet decoded wrongly although RFC 9000 A.3 decodes it from the true largest received number", "%s: %s pn %d (%d bytes) decoded as %d; largest opened so far %d", what, rcv.name, p.pn, p.pnLen, pn, rcv.largestRcvd)
			case pn != p.pn:
				res.Fail("packet number of a reordered or duplicate packet decoded wrongly although RFC 9000 A.3 decodes it from the true largest received number", "%s: %s pn %d (%d bytes) decoded as %d; largest opened so far %d", what, rcv.name, p.pn, p.pnLen, pn, rcv.largestRcvd)
			case key == kCur:
				res.Fail("intact packet of the current key generation rejected", "%s: %s pn %d generation %d: %v", what, rcv.name, p.pn, p.gen, err)
			case key == kNext:
				res.Fail("intact packet of the next key generation rejected", "%s: %s pn %d generation %d (receiver in %d): %v", what, rcv.name, p.pn, p.gen, G, err)
			default:
				res.Fail("packet of the previous key generation rejected although its keys must still be retained", "%s: %s pn %d generation %d (receiver in %d, expiry set %v at %d, now %d): %v", what, rcv.name, p.pn, p.gen, G, rcv.expirySet, rcv.prevExpiry, rcvTime, err)
			}
			return false
		}
		switch {
		case !decodable && p.pn > rcv.largestRcvd:
			if p.numUnacked < 1<<31 {
				res.Fail("packet number encoding too short: a new highest packet is not decodable by a receiver that has everything the sender knows acknowledged", "%s: %s pn %d sent with %d bytes, %d above what the sender knew acknowledged; receiver's largest %d", what, rcv.name, p.pn, p.pnLen, p.numUnacked, rcv.largestRcvd)
				return false
			}
			res.Probe("unrepresentable-distance-rejected")
		case !decodable:
			res.Probe("late-duplicate-beyond-half-window")
		case key == kPrevGone:
			res.Probe("old-keys-dropped-then-old-packet")
		case key == kPrevEdge:
			res.Probe("old-packet-exactly-at-expiry")
		case key == kOlder:
			res.Probe("older-than-previous-generation-packet")
		}
		if m.sc.Net == aeNetClean && (decodable || p.numUnacked < 1<<31) {
			res.Fail("first-in first-out loss-free network: a packet was not opened", "%s: %s pn %d generation %d (receiver %d) decodable=%v: %v", what, rcv.name, p.pn, p.gen, G, decodable, err)
		}
		res.Shape("R" + en[:1])
		return false
	}

	// ---- opened
	if pn != p.pn {
		res.Fail("packet opened under a wrong packet number", "%s: %s pn %d opened as %d", what, rcv.name, p.pn, pn)
		return false
	}
	if !bytes.Equal(dec, p.pt) {
		res.Fail("opened packet returns altered plaintext", "%s: %s pn %d: %d bytes, sent %d bytes", what, rcv.name, p.pn, len(dec), len(p.pt))
		return false
	}
	if key == kPrevGone {
		res.Fail("keys of the previous generation still usable later than three PTOs after the update was confirmed", "%s: %s pn %d generation %d opened at %d", what, rcv.name, p.pn, p.gen, rcvTime)
		return false
	}
	if key == kOlder || key == kFuture {
		res.Fail("packet of a key generation that is neither current, next nor previous was opened", "%s: %s pn %d generation %d, receiver in %d", what, rcv.name, p.pn, p.gen, G)
		return false
	}
	p.opened++
	switch key {
	case kNext:
		rcv.gen++
		rcv.selfInit = false
		rcv.prevAvail, rcv.expirySet, rcv.prevExpiry = true, true, rcvTime.Add(threePTO)
		rcv.rcvdInGen, rcv.firstRcvdValid = 0, true
		rcv.sentInGen, rcv.firstSentInGen = 0, -1
		res.Probe("update-peer-initiated")
		m.genProbe(rcv.gen)
		res.Shape("F" + rcv.name[:1])
	case kCur:
		rcv.rcvdInGen++
		if !rcv.firstRcvdValid {
			rcv.firstRcvdValid = true
			if G > 0 {
				rcv.expirySet, rcv.prevExpiry = true, rcvTime.Add(threePTO)
				res.Probe("own-update-confirmed-by-peer")
			}
		}
	default:
		if rcv.expirySet {
			res.Probe("old-generation-packet-before-keys-dropped")
		} else {
			res.Probe("old-generation-packet-while-own-update-unconfirmed")
		}
		if key == kPrevEdge {
			res.Probe("old-packet-exactly-at-expiry")
		}
	}
	if isDup {
		res.Probe("duplicate-opened")
		if rcv.largestRcvd-p.pn > 30000 {
			res.Probe("late-duplicate-within-window")
		}
	} else if old {
		res.Probe("reordered-packet-opened")
		if rcv.largestRcvd-p.pn > 30000 {
			res.Probe("late-arrival-within-window")
		}
	}
	if m.inBulk < 0 {
		res.Shape(fmt.Sprintf("O%d%v%v", key, isDup, old))
	}
	if isDup {
		return true // the connection drops it before looking at its frames
	}
	rcv.add(p.pn)
	rcv.rcvdCount++
	if p.pn > rcv.largestRcvd {
		rcv.largestRcvd = p.pn
	}
	if p.hasAck {
		if p.ackC > rcv.maxAckC {
			rcv.maxAckC = p.ackC
			if rcv.client && !rcv.confirmed {
				rcv.confirmed = true
				rcv.real.SetHandshakeConfirmed()
				res.Probe("client-confirmed-by-ack")
			}
			if err := rcv.real.SetLargestAcked(protocol.PacketNumber(p.ackL)); err != nil {
				res.Fail("acknowledgement carried by an intact packet raised a connection error", "%s: %s: ack of %d in pn %d (generation %d): %v", what, rcv.name, p.ackL, p.pn, p.gen, err)
				return true
			}
			if p.ackL > rcv.largestAcked {
				rcv.largestAcked = p.ackL
			}
			res.Probe("ack-processed")
		} else {
			res.Probe("ack-without-news")
		}
	}
	return true
}

// craft builds a packet of side `from` with the independent implementation (a peer that holds the keys).
func (m *aeModel) craft(from int, g int, withAck bool, ackL int64) *aePkt {
	s := m.side[from]
	pn := s.nextPN
	if pn > aeMaxPN || g < 0 {
		return nil
	}
	rcv := m.side[1-from]
	if aeRFCDecode(rcv.largestRcvd, pn&(1<<32-1), 32) != pn {
		return nil
	}
	cid := m.cid[1-from]
	hdr := []byte{0x40 | 3}
	if g&1 == 1 {
		hdr[0] |= 0x04
	}
	hdr = append(hdr, cid...)
	hdr = append(hdr, byte(pn>>24), byte(pn>>16), byte(pn>>8), byte(pn))
	pt := make([]byte, 12)
	m.fillBytes(pt)
	w := m.ind[from].seal(nil, g, pn, hdr, pt)
	s.nextPN = pn + 1
	s.largestSent = pn
	p := &aePkt{from: from, pn: pn, pnLen: 4, gen: g, wire: w, pt: pt}
	if withAck {
		p.hasAck, p.ackL, p.ackC = true, ackL, 1<<60
	}
	return p
}

// evil: the peer of side ri misuses its keys (adversary class only).
func (m *aeModel) evil(ri int, kind int, what string) {
	res := m.res
	r := m.side[ri]
	if !r.canRecv {
		return
	}
	rcvTime := monotime.Now()
	if rcvTime < r.lastRcv {
		rcvTime = r.lastRcv
	}
	cidLen := len(m.cid[ri])
	open := func(p *aePkt) (int64, []byte, error) {
		r.lastRcv = rcvTime
		buf := append(m.scratch[:0], p.wire...)
		m.scratch = buf
		pn, _, dec, err := m.unpack(r, buf, cidLen, rcvTime, 0, p.pn, false)
		res.TraceU(0x30, uint64(kind), uint64(p.pn), uint64(KHashS(aeErrName(err))))
		res.Logf("%s: %s receives crafted pn %d of generation %d (own generation %d) -> %v", what, r.name, p.pn, p.gen, r.gen, err)
		return pn, dec, err
	}
	isKUE := func(err error) bool {
		var te *qerr.TransportError
		return errors.As(err, &te) && te.ErrorCode == 0xe // KEY_UPDATE_ERROR, RFC 9001 section 10
	}
	switch kind {
	case 1: // a second update before the endpoint has sent anything in the generation it just followed into
		if !(r.gen > 0 && r.sentInGen == 0 && r.firstRcvdValid) {
			return
		}
		p := m.craft(1-ri, r.gen+1, false, 0)
		if p == nil {
			return
		}
		res.Fault("evil-consecutive-update")
		_, _, err := open(p)
		if !isKUE(err) {
			res.Fail("consecutive key update before any packet was sent in the current generation is not answered with KEY_UPDATE_ERROR", "%s: %s in generation %d, crafted pn %d of generation %d: %v", what, r.name, r.gen, p.pn, p.gen, err)
		}
		m.ended = true
	case 2: // acknowledges a packet of the new generation in a packet protected with the old keys
		if !(r.gen > 0 && r.selfInit && r.sentInGen > 0 && r.rcvdInGen == 0 && !r.firstRcvdValid && r.prevAvail) {
			return
		}
		p := m.craft(1-ri, r.gen-1, true, r.largestSent)
		if p == nil {
			return
		}
		res.Fault("evil-ack-under-old-keys")
		pn, dec, err := open(p)
		if err != nil || pn != p.pn || !bytes.Equal(dec, p.pt) {
			res.Fail("packet of the previous key generation rejected although its keys must still be retained", "%s: %s crafted pn %d generation %d: %v", what, r.name, p.pn, p.gen, err)
			return
		}
		if r.client && !r.confirmed {
			r.confirmed = true
			r.real.SetHandshakeConfirmed()
		}
		err = r.real.SetLargestAcked(protocol.PacketNumber(p.ackL))
		if !isKUE(err) {
			res.Fail("acknowledgement of a new-generation packet carried under the old keys is not answered with KEY_UPDATE_ERROR", "%s: %s in generation %d, ack of %d (first sent in generation: %d): %v", what, r.name, r.gen, p.ackL, r.firstSentInGen, err)
		}
		m.ended = true
	case 3: // old keys on a packet number above one already received under the newer keys
		if !(r.gen > 0 && r.firstRcvdValid) {
			return
		}
		p := m.craft(1-ri, r.gen-1, false, 0)
		if p == nil {
			return
		}
		res.Fault("evil-old-keys-above-new")
		_, _, err := open(p)
		if err == nil {
			res.Fail("packet under old keys accepted above a packet number already received under newer keys", "%s: %s in generation %d, crafted pn %d of generation %d", what, r.name, r.gen, p.pn, p.gen)
		}
		if isKUE(err) {
			res.Probe("evil-old-keys-above-new-answered-with-error")
			m.ended = true
		}
	default: // two generations ahead
		p := m.craft(1-ri, r.gen+2, false, 0)
		if p == nil {
			return
		}
		res.Fault("evil-two-generations-ahead")
		_, _, err := open(p)
		if err == nil {
			res.Fail("packet two key generations ahead accepted", "%s: %s in generation %d, crafted pn %d of generation %d", what, r.name, r.gen, p.pn, p.gen)
		} else if aeErrName(err) == "transport-error" {
			m.ended = true
		}
	}
	res.Shape(fmt.Sprintf("E%d", kind))
}

// flush delivers everything in flight from side si in sending order.
func (m *aeModel) flush(si int, what string) {
	for len(m.pool[si]) > 0 && !m.res.Failed() && m.side[1-si].canRecv {
		p := m.pool[si][0]
		m.pool[si] = m.pool[si][1:]
		m.deliver(p, aeMut{}, what)
	}
}

func (m *aeModel) pick(si int, n int64, newest bool) *aePkt {
	pl := m.pool[si]
	if len(pl) == 0 {
		return nil
	}
	if n < 0 {
		n = -n
	}
	i := int(n % int64(len(pl)))
	if newest {
		i = len(pl) - 1 - i
	}
	return pl[i]
}

func runAEAD(t *testing.T, ksc KScenario, res *KResult) {
	sc := ksc.(*aeScenario)
	monotime.VerifSetStart(time.Now().Add(-time.Hour))
	t0 := time.Now()
	res.Probe([]string{"class-fifo", "class-reorder", "class-faulty", "class-evil"}[min(max(sc.Net, 0), 3)])

	oldFirst := FirstKeyUpdateInterval
	FirstKeyUpdateInterval = max(sc.KUFirst, 1)
	reset := SetKeyUpdateInterval(max(sc.KUInt, 1))
	defer func() { reset(); FirstKeyUpdateInterval = oldFirst }()
	sc.KUFirst, sc.KUInt = max(sc.KUFirst, 1), max(sc.KUInt, 1)

	version := protocol.Version1
	if sc.V2 {
		version = protocol.Version2
	}
	suiteIdx := ((sc.Suite % 3) + 3) % 3
	// TLS 1.3 cipher suite code points (RFC 8446 B.4)
	suite := getCipherSuite([]uint16{0x1301, 0x1302, 0x1303}[suiteIdx])
	m := &aeModel{sc: sc, res: res, inBulk: -1, fill: KMix(sc.Seed, 77) | 1, raw: make([]byte, 0, 2048)}
	kr := NewKRng(KMix(sc.Seed, 0xae))
	hlen := 32
	if suiteIdx == 1 {
		hlen = 48
	}
	secret := [2][]byte{kr.Bytes(hlen), kr.Bytes(hlen)} // client write, server write
	for i := 0; i < 2; i++ {
		m.ind[i] = aeNewInd(sc.V2, suiteIdx, secret[i])
		m.cid[i] = kr.Bytes(min(max(sc.CIDLen[i], 0), 20))
		s := &aeSide{name: []string{"client", "server"}[i], client: i == 0, rtt: utils.NewRTTStats()}
		s.rtt.SetMaxAckDelay(time.Duration(max(sc.MADms, 0)) * time.Millisecond)
		if sc.RTTus > 0 {
			s.rtt.UpdateRTT(time.Duration(sc.RTTus)*time.Microsecond, 0)
		}
		s.real = newUpdatableAEAD(s.rtt, nil, utils.DefaultLogger, version)
		s.nextPN = min(max(sc.Base[i], 0), aeMaxPN)
		s.largestSent, s.largestAcked, s.firstSentInGen, s.largestRcvd = -1, -1, -1, -1
		m.side[i] = s
	}
	cl, sv := m.side[0], m.side[1]
	cl.real.SetReadKey(suite, secret[1])
	cl.real.SetWriteKey(suite, secret[0])
	cl.canRecv = true
	sv.real.SetWriteKey(suite, secret[1])
	net := sc.Net
	if net < 0 || net > 3 {
		net = aeNetReorder
	}

	txOne := func(op aeOp, what string) {
		si := op.S & 1
		p := m.send(si, op.L, op.A, what)
		if p == nil {
			return
		}
		mode := op.M
		if net == aeNetClean {
			// first-in first-out: queue it; "now" delivers the whole queue
			m.keep(p)
			if mode != 0 {
				m.flush(si, what)
			}
			return
		}
		switch mode {
		case 0:
			m.keep(p)
		case 1:
			m.deliver(p, aeMut{}, what)
		default:
			q := m.keep(p)
			m.deliver(q, aeMut{}, what)
		}
	}

	for _, op := range sc.Ops {
		if res.Failed() || m.ended {
			break
		}
		res.Events++
		what := op.K
		si := op.S & 1
		switch op.K {
		case "hs":
			s := m.side[si]
			if s.confirmed {
				break
			}
			if s.client {
				if !sv.canRecv {
					break // HANDSHAKE_DONE is only sent by a server that completed the handshake
				}
			} else {
				s.real.SetReadKey(suite, secret[0])
				s.canRecv = true
			}
			s.real.SetHandshakeConfirmed()
			s.confirmed = true
			res.Probe("handshake-confirmed-" + s.name)
			res.Shape("H" + s.name[:1])
		case "tx":
			res.Probe("op-tx")
			txOne(op, what)
		case "rx":
			var p *aePkt
			if net == aeNetClean {
				p = m.pick(si, 0, false)
			} else {
				p = m.pick(si, op.N, op.M == 1)
			}
			if p == nil || !m.side[1-si].canRecv {
				break
			}
			res.Probe("op-rx")
			keepIt := op.D && net != aeNetClean
			if !keepIt {
				m.remove(p)
			}
			lag := time.Duration(0)
			if op.X > 0 {
				lag = time.Duration(op.X) * time.Microsecond
			}
			m.deliver(p, aeMut{lag: lag}, what)
		case "bulk":
			n := op.N
			if n < 0 {
				n = -n
			}
			n = min(n, 400000)
			if net == aeNetClean {
				m.flush(si, what)
				m.flush(1-si, what)
			}
			res.Probe("op-bulk")
			for i := int64(0); i < n && !res.Failed() && !m.ended; i++ {
				m.inBulk = i
				p := m.send(si, op.L, true, what)
				if p == nil {
					break
				}
				lost := net == aeNetFaulty && op.Y > 0 && i%op.Y == op.Y-1
				if op.B > 0 && net != aeNetClean && i%int64(op.B) == 0 {
					p = m.keep(p)
				}
				if lost {
					res.Fault("bulk-loss")
				} else {
					m.deliver(p, aeMut{}, what)
				}
				if op.X > 0 && i%op.X == op.X-1 && m.side[si].canRecv && m.side[1-si].canRecv && !res.Failed() {
					if q := m.send(1-si, 1, true, what); q != nil {
						m.deliver(q, aeMut{}, what)
					}
				}
			}
			m.inBulk = -1
			if n >= 30000 {
				res.Probe("bulk-ge-30000")
			}
			res.Shape("B")
		case "skip":
			s := m.side[si]
			n := op.N
			if n < 0 {
				n = -n
			}
			if s.nextPN+n > aeMaxPN || (s.nextPN+n)-s.largestAcked >= 1<<31-1000 {
				break // a sender never has 2^31 packet numbers outstanding
			}
			s.nextPN += n
			res.Probe("op-skip")
			if n >= 30000 {
				res.Probe("skip-ge-30000")
			}
		case "peek":
			s := m.side[si]
			mustUpdate := s.permitted() && m.limitReached(s)
			kp := s.real.KeyPhase()
			res.Probe("op-peek")
			if (kp == protocol.KeyPhaseOne) != (s.gen&1 == 1) {
				m.selfUpdate(s, what)
				res.Probe("update-without-a-packet")
			} else if mustUpdate {
				res.Fail("no key update initiated although the packet limit per key generation was reached and an update was permitted", "%s: %s generation %d: sent %d, opened %d with it", what, s.name, s.gen, s.sentInGen, s.rcvdInGen)
			}
			res.TraceU(0x40, uint64(si), uint64(kp))
		case "tick":
			d := time.Duration(op.N) * time.Microsecond
			if op.M == 1 {
				d = time.Duration(op.N) * m.side[si].rtt.PTO(true) / 4
			}
			if d > 0 && d < time.Hour {
				time.Sleep(d)
				res.Probe("op-tick")
			}
		case "tickx":
			s := m.side[si]
			if !s.prevAvail || !s.expirySet {
				break
			}
			// the receive time of the next packet is at least lastRcv; aim relative to the expiry
			target := s.prevExpiry.Add(time.Duration(op.X))
			if d := target.Sub(monotime.Now()); d > 0 {
				time.Sleep(d)
				res.Probe("op-tick-to-expiry")
			}
		case "rtt":
			if op.N > 0 {
				m.side[si].rtt.UpdateRTT(time.Duration(op.N)*time.Microsecond, 0)
				res.Probe("op-rtt")
			}
		case "drop":
			if net != aeNetFaulty {
				break
			}
			if p := m.pick(si, op.N, op.M == 1); p != nil {
				m.remove(p)
				res.Fault("loss")
			}
		case "tamper":
			if net != aeNetFaulty {
				break
			}
			if p := m.pick(si, op.N, false); p != nil {
				m.deliver(p, aeMut{kind: 1, region: ((op.M % 8) + 8) % 8, x: max(op.X, -op.X), bit: op.B & 7}, what)
			}
		case "wrongpn":
			if net != aeNetFaulty {
				break
			}
			if p := m.pick(si, op.N, false); p != nil {
				m.deliver(p, aeMut{kind: 2, x: op.X}, what)
			}
		case "evil":
			if net != aeNetEvil {
				break
			}
			m.evil(si, op.M, what)
		}
	}

	// final loss-free exchange: everything new opens, both sides end in one generation
	if !res.Failed() && !m.ended && !sc.NoDrain && sv.canRecv && cl.nextPN < aeMaxPN-8 && sv.nextPN < aeMaxPN-8 {
		// what is still in flight stays there (lost) unless the class is first-in first-out
		if net == aeNetClean {
			m.flush(0, "drain")
			m.flush(1, "drain")
		}
		// the gap a loss may have left must be representable, else a fresh packet is not owed to be decodable
		ok := true
		for i := 0; i < 2; i++ {
			if m.side[i].nextPN-m.side[i].largestAcked >= 1<<31 {
				ok = false
			}
		}
		if ok {
			for k := 0; k < 3 && !res.Failed(); k++ {
				si := k & 1
				p := m.send(si, 8, true, "drain")
				if p == nil {
					break
				}
				if !m.deliver(p, aeMut{}, "drain") && !res.Failed() {
					res.Fail("fresh packet in the final loss-free exchange not opened", "%s pn %d generation %d", m.side[si].name, p.pn, p.gen)
				}
			}
			if !res.Failed() && cl.gen != sv.gen {
				res.Fail("both sides do not end up in one key generation after a loss-free exchange", "client %d server %d", cl.gen, sv.gen)
			}
			res.Probe("drained")
		}
	}
	res.SimNS = int64(time.Since(t0))
	for i := 0; i < 2; i++ {
		s := m.side[i]
		res.TraceU(uint64(s.gen), uint64(s.nextPN), uint64(s.largestRcvd), uint64(s.rcvdCount), uint64(s.largestAcked), uint64(len(m.pool[i])))
	}
	res.TraceU(uint64(res.Events), uint64(res.SimNS))
	res.Nontrivial = res.Nontrivial || cl.rcvdCount+sv.rcvdCount >= 3
}
