package protocol

import mrand "math/rand/v2"

// Overlay file of /verif (never part of /repo). The generator that draws the reserved ("greased") version and its
// position for Version Negotiation packets is seeded once per process from the real crypto/rand in init(), before any
// simulation seeds anything: VerifSeedVersionNegotiation re-seeds it at the start of every simulated run, so that the
// bytes of Version Negotiation packets are a function of the run seed like everything else.
func VerifSeedVersionNegotiation(a, b uint64) {
	versionNegotiationMx.Lock()
	versionNegotiationRand = *mrand.New(mrand.NewPCG(a, b))
	versionNegotiationMx.Unlock()
}
