package congestion

// K:congestion - component simulation for property C20 ("congestion window and
// pacing stay within their bounds for every event history"): the real
// cubicSender (Reno and Cubic modes) + pacer + utils.RTTStats in the bubble
// clock, driven
//   - class "bottleneck": by a model sender over a simulated path (rate, queue,
//     one-way delay, random / burst loss, delayed cumulative ACKs, ACK loss),
//     with bulk, app-limited and idle phases, MTU raises and rate changes;
//   - class "adversarial": by arbitrary legal event sequences (sent / acked /
//     lost / RTT sample / MTU raise / idle) with arbitrary sizes and times;
//   - class "extreme": the adversarial driver with absurd RTT samples (sub-µs,
//     hours .. days) and clock values near the end of the int64 range; every
//     signature of this class is prefixed "extreme: ".
// MTU raises stay within the connection's range (<= MaxPacketBufferSize) in every class.
//
// Oracles, evaluated after every event (C20, clause by clause):
//  1. 2 * max datagram size <= cwnd <= MaxCongestionWindowPackets * max datagram size + one packet;
//  2. cwnd never decreases on OnPacketAcked (nor on sending, RTT samples, idling or MTU raises);
//  3. a loss of a packet that was sent before the previous loss-triggered reduction
//     never reduces the window again (model ground truth: send ordinals);
//  4. cwnd does not grow on an event whose bytes in flight were clearly not window-limited
//     (less than half the window in use and more than one burst of room);
//  5. over every interval between two observation points (the last 64 observations and up to
//     12 older anchors as interval starts): bytes sent while HasPacingBudget was true
//     <= max burst + 1.25 * max bandwidth estimate * elapsed;
//  6. no panic for any RTT of the generator range (TimeUntilSend is called whenever the pacer
//     has no budget); CanSend never allows new data while bytes in flight >= cwnd.
// Not clauses of C20, therefore notes + probes only, never failures: TimeUntilSend pointing
// into the past (or zero) while HasPacingBudget is false; CanSend false below the window.
//
// The model caller follows sent_packet_handler.go: packet numbers increase, ack-eliciting data
// only while CanSend && HasPacingBudget (PTO probes and ACK-only packets excepted), per ACK
// frame: RTT sample, MaybeExitSlowStart, OnCongestionEvent for newly lost packets, then
// OnPacketAcked in ascending order, all with the bytes in flight from before the frame; only
// packets below the largest acknowledged one are declared lost; lost MTU probes are not
// congestion events; the datagram size is only raised. OnRetransmissionTimeout is never
// called by the connection; the adversarial classes call it rarely (bounds only).
// Overlay file of /verif; never part of /repo.

import (
	"container/heap"
	"fmt"
	"math"
	"testing"
	"time"

	"github.com/refraction-networking/uquic/internal/monotime"
	"github.com/refraction-networking/uquic/internal/protocol"
	"github.com/refraction-networking/uquic/internal/utils"
)

func init() { KRegister(congestionSim()) }

const (
	cgClassBottleneck  = "bottleneck"
	cgClassAdversarial = "adversarial"
	cgClassExtreme     = "extreme"

	cgGranularity = time.Millisecond // RFC 9002 kGranularity
	cgMaxSize     = 65527            // largest UDP payload
	cgMaxAckDelay = 25 * time.Millisecond
)

type cgOp struct {
	K string `json:"k"`
	A int64  `json:"a,omitempty"`
	B int64  `json:"b,omitempty"`
	C int64  `json:"c,omitempty"`
	D int64  `json:"d,omitempty"`
	E int64  `json:"e,omitempty"`
}

type cgPath struct {
	Rate       int64 `json:"rate"`         // bottleneck rate, bytes/s
	Queue      int64 `json:"queue"`        // queue limit, bytes
	DelayNs    int64 `json:"delay_ns"`     // one-way delay
	LossPPM    int64 `json:"loss_ppm"`     // random loss, data direction
	AckLossPPM int64 `json:"ack_loss_ppm"` // random loss, ACK direction
	AckEvery   int   `json:"ack_every"`    // receiver acknowledges every n-th packet ...
	AckDelayNs int64 `json:"ack_delay_ns"` // ... or after this delay
}

type cgScenario struct {
	Seed       uint64           `json:"seed"`
	Class      string           `json:"class"`
	Reno       bool             `json:"reno"`
	MDS        int64            `json:"mds"`         // initial max datagram size (Config.InitialPacketSize: 1200..1452)
	EpochYears int64            `json:"epoch_years"` // age of the monotonic clock at the start of the run
	MaxPkts    int              `json:"max_pkts"`    // bottleneck class: stop sending new data after this many packets
	Path       cgPath           `json:"path"`
	Ops        []cgOp           `json:"ops"`
	ShrinkInts map[string]int64 `json:"shrink_ints,omitempty"`
}

func (s *cgScenario) KSeed() uint64 { return s.Seed }

func congestionSim() *KSim {
	return &KSim{
		Name: "congestion",
		New:  func() KScenario { return &cgScenario{} },
		Gen:  cgGen,
		Run:  cgRun,
	}
}

// ---------------------------------------------------------------- generator

func cgLogUniform(r *KRng, lo, hi float64) float64 {
	return lo * math.Pow(hi/lo, r.F())
}

func cgGen(seed uint64, tier string) KScenario {
	r := NewKRng(seed)
	sc := &cgScenario{Seed: seed, Reno: r.P(0.5)}
	switch x := r.N(100); {
	case x < 45:
		sc.Class = cgClassBottleneck
	case x < 88:
		sc.Class = cgClassAdversarial
	default:
		sc.Class = cgClassExtreme
	}
	sc.MDS = int64(r.Pick(1280, 1280, 1280, 1280, 1280, 1280, 1200, 1200, 1200, 1252, 1350, 1452))
	sc.ShrinkInts = map[string]int64{"epoch_years": 0}
	if sc.Class == cgClassBottleneck {
		cgGenBottleneck(r, sc, tier)
	} else {
		cgGenAdversarial(r, sc, tier)
	}
	return sc
}

func cgGenBottleneck(r *KRng, sc *cgScenario, tier string) {
	rttNs := cgLogUniform(r, 200e3, 800e6) // 200 µs .. 800 ms
	bdpPkts := cgLogUniform(r, 2, 400)
	rate := bdpPkts * 1252 / (rttNs / 1e9)
	if rate < 2000 {
		rate = 2000
	}
	p := &sc.Path
	p.Rate = int64(rate)
	p.DelayNs = int64(rttNs / 2)
	p.Queue = int64(bdpPkts*1252*cgLogUniform(r, 0.25, 4)) + 3000
	p.LossPPM = int64(r.Pick(0, 0, 0, 1000, 10000, 30000, 100000))
	p.AckLossPPM = int64(r.Pick(0, 0, 0, 10000, 100000))
	p.AckEvery = r.Pick(1, 1, 2, 2, 4, 10)
	p.AckDelayNs = int64(r.Pick(1, 5, 25)) * int64(time.Millisecond)
	sc.MaxPkts = r.Range(60, 400)
	n := r.Range(3, 12)
	if tier == "thorough" && r.P(0.3) {
		sc.MaxPkts = r.Range(600, 6000)
		n = r.Range(6, 30)
	}
	withMTU := r.P(0.4)
	rtts := func(lo, hi float64) int64 { return int64(cgLogUniform(r, lo, hi) * rttNs) }
	for i := 0; i < n; i++ {
		var op cgOp
		switch x := r.N(100); {
		case x < 45:
			op = cgOp{K: "bulk", A: rtts(1, 40)}
		case x < 65:
			// application writes c packets every b ns
			op = cgOp{K: "app", A: rtts(2, 30), B: rtts(0.05, 3), C: int64(r.Pick(1, 1, 2, 3, 8, 20))}
		case x < 77:
			op = cgOp{K: "idle", A: rtts(0.5, 200)}
			if r.P(0.2) {
				op.A = int64(cgLogUniform(r, 1e9, 3e14)) // up to days
			}
		case x < 86:
			op = cgOp{K: "burst", A: int64(r.Pick(1, 2, 3, 5, 10, 40))}
		case x < 92:
			op = cgOp{K: "rate", A: int64(float64(p.Rate) * cgLogUniform(r, 0.1, 10))}
		default:
			if withMTU {
				op = cgOp{K: "mtu", A: int64(r.Pick(1300, 1350, 1400, 1452))}
			} else {
				op = cgOp{K: "bulk", A: rtts(1, 10)}
			}
		}
		sc.Ops = append(sc.Ops, op)
	}
}

func cgGenAdversarial(r *KRng, sc *cgScenario, tier string) {
	extreme := sc.Class == cgClassExtreme
	sc.EpochYears = int64(r.Pick(0, 0, 0, 1, 50))
	if extreme {
		sc.EpochYears = int64(r.Pick(0, 1, 50, 200, 250))
	}
	n := r.Range(10, 120)
	if tier == "thorough" && r.P(0.3) {
		n = r.Range(120, 800)
	}
	baseRTT := cgLogUniform(r, 1e3, 60e9) // 1 µs .. 60 s
	wildRTT := r.P(0.3)
	bigGaps := r.P(0.3)
	withMTU := r.P(0.4)
	withRTO := r.P(0.1)
	longRamp := r.P(0.007) || (tier == "thorough" && r.P(0.04))
	rounds := 0
	rttSample := func() int64 {
		var v float64
		switch {
		case extreme && r.P(0.35):
			if r.Bool() {
				v = cgLogUniform(r, 1, 1e3) // below a microsecond
			} else {
				v = cgLogUniform(r, 60e9, 1e15) // minutes .. days
			}
		case wildRTT && r.P(0.3):
			v = cgLogUniform(r, 1e3, 60e9)
		default:
			v = baseRTT * (0.8 + 0.7*r.F())
			if v > 60e9 {
				v = 60e9
			}
			if v < 1e3 {
				v = 1e3
			}
		}
		return int64(v)
	}
	gap := func() int64 {
		x := r.N(100)
		if bigGaps {
			x = x/2 + 50
		}
		switch {
		case x < 10:
			return 0
		case x < 20:
			return int64(r.Range(1, 999))
		case x < 45:
			return int64(cgLogUniform(r, 1e3, 1e6))
		case x < 60:
			return int64(baseRTT * (0.1 + 2*r.F()))
		case x < 80:
			return int64(cgLogUniform(r, 1e6, 1e9))
		case x < 93:
			return int64(cgLogUniform(r, 1e9, 3.6e12))
		default:
			return int64(cgLogUniform(r, 3.6e12, 8.64e14)) // hours .. 10 days
		}
	}
	if longRamp {
		// slow start all the way to the maximum window, before any loss
		ramp := cgOp{K: "round", A: 1, B: int64(r.Pick(1, 2, 10, 50)), C: rttSample(), D: -1, E: int64(r.Range(15500, 19000))}
		sc.Ops = append(sc.Ops, ramp)
		if r.P(0.6) {
			// ... then the round trips get longer (a queue builds up): slow start ends without a loss and without a reduction,
			// and four more windows are acknowledged in congestion avoidance with the window at its maximum
			sc.Ops = append(sc.Ops, cgOp{K: "round", A: 1, B: int64(r.Pick(10, 50)), C: ramp.C*16/10 + 20e6, D: -1, E: 40000})
		}
	}
	for i := 0; i < n; i++ {
		var op cgOp
		switch x := r.N(100); {
		case x < 38:
			// a = size selector (0 = full size), b = kind: 0 data, 1 ack-only, 2 probe, 3 oversize (MTU probe), c = pn skip
			op = cgOp{K: "send", B: int64(r.Pick(0, 0, 0, 0, 0, 0, 0, 0, 0, 0, 0, 0, 1, 1, 2, 3))}
			if r.P(0.4) {
				op.A = int64(r.U64() >> 2)
			}
			if r.P(0.05) {
				op.C = int64(r.Range(1, 3))
			}
			// back-to-back bursts fill the window and exhaust the pacer
			if r.P(0.3) {
				op.D = int64(r.Range(2, 40))
			}
		case x < 63:
			op = cgOp{K: "ack", A: int64(r.U64() >> 2), B: int64(r.Pick(0, 0, 0, 1, 2, 5, 20, 100))}
			if r.P(0.5) {
				op.A = 0 // oldest outstanding first: the common case
			}
			if r.P(0.85) {
				op.C = rttSample()
			}
			if r.P(0.25) {
				op.D = int64(r.Pick(1, 1, 2, 3, 10))
			}
			if r.P(0.3) {
				op.E = int64(r.N(int(cgMaxAckDelay) * 2))
			}
		case x < 75:
			op = cgOp{K: "idle", A: gap()}
		case x < 81:
			op = cgOp{K: "lost", A: int64(r.U64() >> 2), B: int64(r.Pick(0, 0, 1, 2, 10))}
		case x < 88:
			op = cgOp{K: "wait"}
		case x < 91:
			op = cgOp{K: "rtt", A: rttSample(), E: int64(r.N(int(cgMaxAckDelay)))}
		case x < 94:
			if withMTU {
				// the connection's MTU discovery stays within [InitialPacketSize, MaxPacketBufferSize]
				op = cgOp{K: "mtu", A: int64(r.Range(1201, int(protocol.MaxPacketBufferSize)))}
			} else {
				op = cgOp{K: "idle", A: gap()}
			}
		case x < 98:
			// a = rounds of "fill the window, wait c ns, acknowledge everything in frames of b packets",
			// every d-th packet reported lost instead (0 = none)
			if rounds < 3 {
				rounds++
				// e = packet budget of the op
				op = cgOp{K: "round", A: int64(r.Pick(1, 1, 2, 3, 5)), B: int64(r.Pick(1, 2, 10, 50)), C: rttSample(), D: int64(r.Pick(0, 0, 0, 7, 50)), E: int64(r.Range(40, 400))}

			} else {
				op = cgOp{K: "idle", A: gap()}
			}
		default:
			if withRTO {
				op = cgOp{K: "rto", A: int64(r.N(2))}
			} else {
				op = cgOp{K: "wait"}
			}
		}
		sc.Ops = append(sc.Ops, op)
	}
}

// ---------------------------------------------------------------- harness shared by all classes

type cgPkt struct {
	pn       protocol.PacketNumber
	size     protocol.ByteCount
	sentAt   monotime.Time
	sentSeq  int  // ordinal among all packets sent
	mtuProbe bool // loss of an MTU probe is not a congestion signal
	gone     bool // acked or lost
	acking   bool // being acknowledged by the frame under processing
	// bottleneck class
	dropped bool
}

type cgH struct {
	sc     *cgScenario
	res    *KResult
	prefix string // "" or "extreme: "
	mode   string // " [reno]" / " [cubic]"
	s      *cubicSender
	rtt    *utils.RTTStats

	mds          protocol.ByteCount // the model's current max datagram size
	nextPN       protocol.PacketNumber
	out          []*cgPkt // in flight (ack-eliciting, not yet acked or lost), ascending packet number
	inflight     protocol.ByteCount
	largestAcked protocol.PacketNumber
	sentCount    int
	dataSent     int

	reductionAtSent int // number of packets sent when the window was last reduced because of a loss; -1: never

	// pacer oracle: one observation after every event
	obsT     []int64
	obsCum   []int64 // bytes authorised by the pacer so far
	obsBw    []float64
	obsBurst []float64
	cumAuth  int64
	// anchors: running maxima since selected older observations
	anchIdx   []int
	anchBw    []float64
	anchBurst []float64

	lastPhase    string
	notedTUS     bool
	notedCanSend bool
	spin         uint // consecutive wake-ups at a pacing deadline without budget
}

// noBudgetStep: how long the model sender sleeps when TimeUntilSend is not in the future
// although the pacer has no budget (250 µs, doubling up to ~1 s while the state persists).
func (h *cgH) noBudgetStep() time.Duration {
	d := (cgGranularity / 4) << min(h.spin, 12)
	h.spin++
	return d
}

func (h *cgH) fail(sig, format string, a ...any) {
	h.res.Fail(h.prefix+sig, format, a...)
}

func (h *cgH) cwnd() protocol.ByteCount { return h.s.GetCongestionWindow() }

func (h *cgH) phase() string {
	switch {
	case h.s.InRecovery():
		return "recovery"
	case h.s.InSlowStart():
		return "slow-start"
	default:
		return "congestion-avoidance"
	}
}

// clearlyAppLimited: the region where the property's "actually window-limited" is
// beyond doubt false: less than half the window in use and more than one burst of
// room left (the sender counts "within one burst of the window" as limited).
//
// Outside slow start only the second half of that applies: once the window grows by one packet per round trip, a sender
// that leaves more than a burst of it unused is not limited by it, however much of it is in use (the half-window rule is
// slow start's allowance for a window that doubles within the round trip).
func (h *cgH) clearlyAppLimited(inFlight, cwnd protocol.ByteCount, phase string) bool {
	if cwnd-inFlight <= maxBurstPackets*h.mds || inFlight > cwnd {
		return false
	}
	return inFlight < cwnd/2 || phase == "congestion-avoidance"
}

// observe runs the state oracles; called after every event.
func (h *cgH) observe(kind string) {
	if h.res.Failed() {
		return
	}
	now := monotime.Now()
	cw := h.cwnd()
	// (1) bounds
	if cw < 2*h.mds {
		h.fail("cwnd below two full-size packets after "+kind+h.mode, "cwnd=%d maxDatagramSize=%d phase=%s", cw, h.mds, h.phase())
		return
	}
	if maxCw := protocol.MaxCongestionWindowPackets * h.mds; cw > maxCw+h.mds {
		h.fail("cwnd above the configured maximum plus one packet after "+kind+h.mode, "cwnd=%d max=%d maxDatagramSize=%d", cw, maxCw, h.mds)
		return
	} else if cw >= maxCw {
		h.res.Probe("cwnd-at-max")
		if !h.s.InSlowStart() {
			h.res.Probe("cwnd-at-max-in-congestion-avoidance")
		}
	}
	if cw == 2*h.mds {
		h.res.Probe("cwnd-at-min")
	}
	// "new ack-eliciting data is released only while the bytes in flight are below the window"
	if can := h.s.CanSend(h.inflight); can && h.inflight >= cw {
		h.fail("CanSend allows new data although bytes in flight >= cwnd", "inflight=%d cwnd=%d", h.inflight, cw)
		return
	} else if !can && h.inflight < cw {
		// not a clause of C20 (the sender may be more conservative): reported, never a failure
		h.res.Probe("cansend-false-below-window")
		if !h.notedCanSend {
			h.notedCanSend = true
			h.res.Note("CanSend false although bytes in flight < cwnd")
		}
	}
	ph := h.phase()
	switch ph {
	case "recovery":
		h.res.Probe("phase-recovery")
	case "slow-start":
		h.res.Probe("phase-slow-start")
	default:
		h.res.Probe("phase-congestion-avoidance")
	}
	if ph != h.lastPhase {
		h.res.Shape(ph)
		h.lastPhase = ph
	}
	// Not a clause of C20 (the property bounds what the pacer authorises, not where its
	// deadline points), so never a failure: TimeUntilSend more than the timer granularity in
	// the past (zero = "immediately") although HasPacingBudget is false. Reported as a note
	// and a probe. TimeUntilSend is still called here for every state without budget, so a
	// panic inside it (division by a zero bandwidth) fails the run.
	hasBudget := h.s.HasPacingBudget(now)
	if !hasBudget && h.sentCount > 0 {
		// A clock value that lies before the last send (a stale timestamp, e.g. the receive time of a packet): the budget
		// only grows with time between sends, so an earlier instant cannot have what the present lacks
		for _, d := range []time.Duration{1, time.Microsecond, time.Millisecond, time.Second, 1000 * time.Hour} {
			if old := now.Add(-d); h.s.HasPacingBudget(old) {
				h.fail("pacer grants a budget for a clock value in the past although it has none now", "now %d, asked for %v earlier; budget now %d, then %d, maxDatagramSize %d", now, d, h.s.pacer.Budget(now), h.s.pacer.Budget(old), h.mds)
				return
			}
		}
		h.res.Probe("pacer-asked-with-stale-clock")
	}
	if !hasBudget {
		tus := h.s.TimeUntilSend(h.inflight)
		h.res.Probe("pacing-no-budget")
		if tus.Before(now.Add(-cgGranularity)) {
			mismatch := h.s.maxDatagramSize > h.s.pacer.maxDatagramSize
			switch {
			case tus.IsZero() && mismatch:
				h.res.Probe("tus-zero-without-budget-pacer-mds-smaller")
			case tus.IsZero():
				h.res.Probe("tus-zero-without-budget")
			case mismatch:
				h.res.Probe("tus-past-without-budget-pacer-mds-smaller")
			default:
				h.res.Probe("tus-past-without-budget")
			}
			if !h.notedTUS {
				h.notedTUS = true
				n := "TimeUntilSend in the past or zero although no pacing budget"
				if mismatch {
					n += " (pacer MDS < sender MDS)"
				}
				h.res.Note(n)
				if h.res.KeepLog {
					h.res.Logf("note: %s: now=%d TimeUntilSend=%d budget=%d senderMDS=%d pacerMDS=%d after %s", n, now, tus, h.s.pacer.Budget(now), h.s.maxDatagramSize, h.s.pacer.maxDatagramSize, kind)
				}
			}
		}
	}
	// (5) record the observation
	// the estimated bandwidth is the window over the smoothed RTT (RFC 9002 7.7), computed here from the RTT statistics the
	// simulation feeds, not taken from the sender (whose own figure is only used before the first RTT sample)
	bw := float64(h.s.BandwidthEstimate()) / 8 // bytes per second
	if srtt := h.rtt.SmoothedRTT(); srtt > 0 {
		bw = float64(h.s.GetCongestionWindow()) / srtt.Seconds()
	}
	burst := float64(h.s.pacer.maxBurstSize())
	idx := len(h.obsT)
	h.obsT = append(h.obsT, int64(now))
	h.obsCum = append(h.obsCum, h.cumAuth)
	h.obsBw = append(h.obsBw, bw)
	h.obsBurst = append(h.obsBurst, burst)
	for k := range h.anchIdx {
		if bw > h.anchBw[k] {
			h.anchBw[k] = bw
		}
		if burst > h.anchBurst[k] {
			h.anchBurst[k] = burst
		}
	}
	if idx%64 == 0 {
		if len(h.anchIdx) >= 12 {
			// keep the very first one, drop the second oldest
			copy(h.anchIdx[1:], h.anchIdx[2:])
			copy(h.anchBw[1:], h.anchBw[2:])
			copy(h.anchBurst[1:], h.anchBurst[2:])
			h.anchIdx, h.anchBw, h.anchBurst = h.anchIdx[:11], h.anchBw[:11], h.anchBurst[:11]
		}
		h.anchIdx = append(h.anchIdx, idx)
		h.anchBw = append(h.anchBw, bw)
		h.anchBurst = append(h.anchBurst, burst)
	}
	h.res.TraceU(uint64(cw), uint64(h.inflight))
}

// checkPacer: over every interval that ends now and starts at one of the last 64
// observations (or at an anchor), authorised bytes <= burst + 1.25 * bandwidth * elapsed.
func (h *cgH) checkPacer() {
	if h.res.Failed() {
		return
	}
	j := len(h.obsT) - 1
	if j <= 0 {
		return
	}
	bwMax, burstMax := h.obsBw[j], h.obsBurst[j]
	test := func(i int, bwMax, burstMax float64) bool {
		auth := float64(h.obsCum[j] - h.obsCum[i])
		dt := float64(h.obsT[j]-h.obsT[i]) / 1e9
		bound := burstMax + 1.25*bwMax*dt
		if auth > bound*(1+1e-9)+1 {
			h.fail("pacer authorised more than one burst plus 1.25 x bandwidth x elapsed time",
				"interval of %d events, %.9f s: authorised=%.0f bound=%.1f (burst=%.0f, bandwidth=%.1f B/s) maxDatagramSize=%d",
				j-i, dt, auth, bound, burstMax, bwMax, h.mds)
			return false
		}
		return true
	}
	lo := j - 64
	if lo < 0 {
		lo = 0
	}
	for i := j - 1; i >= lo; i-- {
		if h.obsBw[i] > bwMax {
			bwMax = h.obsBw[i]
		}
		if h.obsBurst[i] > burstMax {
			burstMax = h.obsBurst[i]
		}
		if !test(i, bwMax, burstMax) {
			return
		}
	}
	for k, i := range h.anchIdx {
		if i < lo {
			if !test(i, h.anchBw[k], h.anchBurst[k]) {
				return
			}
		}
	}
	h.res.Probe("pacer-intervals-checked")
}

// send reports one packet to the sender. The caller decided that sending is legal.
func (h *cgH) send(size protocol.ByteCount, ackEliciting, mtuProbe bool, skip int, what string) *cgPkt {
	now := monotime.Now()
	hadBudget := h.s.HasPacingBudget(now)
	before := h.cwnd()
	h.nextPN += protocol.PacketNumber(skip)
	p := &cgPkt{pn: h.nextPN, size: size, sentAt: now, sentSeq: h.sentCount, mtuProbe: mtuProbe}
	h.nextPN++
	h.sentCount++
	if ackEliciting {
		h.inflight += size
		h.out = append(h.out, p)
	}
	h.s.OnPacketSent(now, h.inflight, p.pn, size, ackEliciting)
	h.res.Events++
	h.spin = 0
	if hadBudget {
		// what the pacer authorised: one datagram of at most the maximum datagram size
		h.cumAuth += int64(min(size, h.mds))
		h.res.Probe("sent-with-pacing-budget")
	} else {
		h.res.Probe("sent-without-pacing-budget")
	}
	if after := h.cwnd(); after != before {
		h.fail("cwnd changed by sending a packet"+h.mode, "before=%d after=%d", before, after)
	}
	if h.res.KeepLog {
		h.res.Logf("%s pn=%d size=%d ackEliciting=%v budget=%v inflight=%d cwnd=%d", what, p.pn, size, ackEliciting, hadBudget, h.inflight, h.cwnd())
	}
	h.observe("send")
	if hadBudget {
		h.checkPacer()
	}
	return p
}

func (h *cgH) remove(p *cgPkt) {
	p.gone = true
	h.inflight -= p.size
	for i, q := range h.out {
		if q == p {
			h.out = append(h.out[:i], h.out[i+1:]...)
			return
		}
	}
}

// lossEvent reports the loss of p the way detectLostPackets does.
func (h *cgH) lossEvent(p *cgPkt, prior protocol.ByteCount) {
	if p.mtuProbe {
		h.remove(p)
		h.res.Probe("mtu-probe-lost")
		return
	}
	before := h.cwnd()
	ph := h.phase()
	h.s.OnCongestionEvent(p.pn, p.size, prior)
	h.res.Events++
	after := h.cwnd()
	sameWindow := h.reductionAtSent >= 0 && p.sentSeq < h.reductionAtSent
	if h.res.KeepLog {
		h.res.Logf("lost pn=%d size=%d prior=%d cwnd %d -> %d (%s) sameWindow=%v", p.pn, p.size, prior, before, after, ph, sameWindow)
	}
	switch {
	case after < before:
		// (3) at most one reduction per window of packets
		if sameWindow {
			h.fail("cwnd reduced again by the loss of a packet sent before the previous reduction"+h.mode,
				"packet %d (send #%d) lost; previous reduction happened after %d sends; cwnd %d -> %d", p.pn, p.sentSeq, h.reductionAtSent, before, after)
		}
		h.reductionAtSent = h.sentCount
		h.res.Probe("cwnd-reduced-on-loss")
		h.res.Shape("L-" + ph)
	case after > before:
		// (4) growth only while window-limited
		if h.clearlyAppLimited(prior, before, h.phase()) {
			h.fail("cwnd grew on a loss while the sender was not window-limited"+h.mode, "prior in flight=%d cwnd %d -> %d", prior, before, after)
		}
		h.res.Shape("L+")
	default:
		if sameWindow {
			h.res.Probe("loss-in-same-window-ignored")
		} else if before == 2*h.mds {
			h.res.Probe("loss-at-min-window")
		}
		h.res.Shape("L=")
	}
	h.remove(p)
	h.observe("loss")
}

// ackFrame processes one ACK frame in the order ReceivedAck uses: RTT sample,
// MaybeExitSlowStart, newly detected losses, then every newly acknowledged packet,
// all with the bytes in flight from before the frame.
func (h *cgH) ackFrame(acked []*cgPkt, lostFn func() []*cgPkt, sample, ackDelay time.Duration) {
	now := monotime.Now()
	prior := h.inflight
	before := h.cwnd()
	if sample > 0 {
		h.rtt.UpdateRTT(sample, min(ackDelay, h.rtt.MaxAckDelay()))
		h.res.Probe("rtt-sample")
	}
	h.s.MaybeExitSlowStart()
	h.res.Events++
	if after := h.cwnd(); after != before {
		h.fail("cwnd changed by an RTT sample"+h.mode, "before=%d after=%d", before, after)
	}
	if h.s.hybridSlowStart.hystartFound {
		h.res.Probe("hystart-delay-increase-found")
	}
	h.observe("rtt")
	if len(acked) > 0 {
		if l := acked[len(acked)-1].pn; l > h.largestAcked {
			h.largestAcked = l
		}
	}
	var lost []*cgPkt
	if lostFn != nil {
		for _, p := range acked {
			p.acking = true
		}
		lost = lostFn()
		for _, p := range acked {
			p.acking = false
		}
	}
	for _, p := range lost {
		if h.res.Failed() {
			return
		}
		h.lossEvent(p, prior)
	}
	for _, p := range acked {
		if h.res.Failed() {
			return
		}
		before := h.cwnd()
		ph := h.phase()
		h.s.OnPacketAcked(p.pn, p.size, prior, now)
		h.res.Events++
		after := h.cwnd()
		limited := !h.clearlyAppLimited(prior, before, ph)
		if h.res.KeepLog {
			h.res.Logf("acked pn=%d size=%d prior=%d cwnd %d -> %d (%s) srtt=%v minRTT=%v", p.pn, p.size, prior, before, after, ph, h.rtt.SmoothedRTT(), h.rtt.MinRTT())
		}
		switch {
		case after < before:
			// (2) never smaller because of an acknowledgement
			cu := h.s.cubic
			why := ""
			if !h.sc.Reno {
				// key fact for triage: Cubic measures time since the epoch in 1/1024 s and cubes the
				// offset to the origin point; 410 * offset^3 * 1280 leaves the int64 range ~25.4 s away from it
				elapsed := int64(now.Add(h.rtt.MinRTT()).Sub(cu.epoch)/time.Microsecond) << 10 / 1000000
				off := float64(int64(cu.timeToOriginPoint) - elapsed)
				if off*off*off*410*1280 >= 9.2e18 || off*off*off*410*1280 <= -9.2e18 {
					why = " (cubic epoch older than ~25 s: cubed time offset overflows)"
				}
			}
			h.fail("cwnd decreased in response to an acknowledgement"+h.mode+why, "packet %d: cwnd %d -> %d, prior in flight %d, phase %s, minRTT %v; cubic: epoch age %v, time to origin %d/1024 s, origin %d, last target %d, estimated TCP cwnd %d, last max %d",
				p.pn, before, after, prior, ph, h.rtt.MinRTT(), now.Sub(cu.epoch), cu.timeToOriginPoint, cu.originPointCongestionWindow, cu.lastTargetCongestionWindow, cu.estimatedTCPcongestionWindow, cu.lastMaxCongestionWindow)
		case after > before:
			// (4) growth only while window-limited
			if !limited {
				h.fail("cwnd grew on an acknowledgement while the sender was not window-limited"+h.mode,
					"packet %d: prior in flight %d, cwnd %d -> %d, phase %s", p.pn, prior, before, after, ph)
			}
			h.res.Probe("cwnd-grew-" + ph)
			h.res.Shape("A+" + ph)
		default:
			if !limited {
				h.res.Probe("ack-while-app-limited")
				h.res.Shape("A=app")
			} else {
				h.res.Shape("A=" + ph)
			}
		}
		h.remove(p)
		h.observe("ack")
	}
}

func (h *cgH) raiseMTU(size protocol.ByteCount) {
	// the connection's MTU discovery stays within [InitialPacketSize, MaxPacketBufferSize]
	if size <= h.mds || size > protocol.MaxPacketBufferSize {
		return
	}
	before := h.cwnd()
	h.s.SetMaxDatagramSize(size)
	h.mds = size
	h.res.Events++
	h.res.Probe("mtu-raised")
	h.res.Shape("M")
	after := h.cwnd()
	if h.res.KeepLog {
		h.res.Logf("mtu -> %d cwnd %d -> %d", size, before, after)
	}
	if after < before {
		h.fail("cwnd decreased by an MTU increase"+h.mode, "cwnd %d -> %d", before, after)
	}
	h.observe("mtu raise")
}

func (h *cgH) idle(d time.Duration) {
	before := h.cwnd()
	if d > 0 {
		time.Sleep(d)
	}
	if after := h.cwnd(); after != before {
		h.fail("cwnd changed while idle"+h.mode, "before=%d after=%d", before, after)
	}
}

// sleepUntil sleeps until t (never backwards).
func cgSleepUntil(t monotime.Time) {
	if d := monotime.Until(t); d > 0 {
		time.Sleep(d)
	}
}

func cgRun(t *testing.T, ksc KScenario, res *KResult) {
	sc := ksc.(*cgScenario)
	age := time.Hour + time.Duration(sc.EpochYears)*365*24*time.Hour
	monotime.VerifSetStart(time.Now().Add(-age))
	t0 := time.Now()
	h := &cgH{sc: sc, res: res, rtt: utils.NewRTTStats(), reductionAtSent: -1, largestAcked: protocol.InvalidPacketNumber}
	if sc.Class == cgClassExtreme {
		h.prefix = "extreme: "
	}
	if sc.Reno {
		h.mode = " [reno]"
		res.Probe("mode-reno")
	} else {
		h.mode = " [cubic]"
		res.Probe("mode-cubic")
	}
	h.mds = protocol.ByteCount(sc.MDS)
	if h.mds < 1200 || h.mds > 1452 {
		h.mds = 1280
	}
	h.rtt.SetMaxAckDelay(cgMaxAckDelay)
	h.s = NewCubicSender(DefaultClock{}, h.rtt, &utils.ConnectionStats{}, h.mds, sc.Reno, nil)
	res.Probe("class-" + sc.Class)
	res.Shape(sc.Class + h.mode)

	func() {
		if sc.Class == cgClassExtreme {
			// findings of the extreme class are triaged separately, panics included
			defer func() {
				if p := recover(); p != nil {
					res.Fail("extreme: panic: "+ksanitize(fmt.Sprint(p)), "%v", p)
				}
			}()
		}
		h.observe("start")
		if sc.Class == cgClassBottleneck {
			cgRunBottleneck(h)
		} else {
			cgRunAdversarial(h)
		}
	}()

	res.SimNS = int64(time.Since(t0))
	res.ProbeN("events-"+sc.Class, res.Events)
	res.TraceU(uint64(h.cwnd()), uint64(h.inflight), uint64(res.Events), uint64(res.SimNS), uint64(h.sentCount), uint64(h.rtt.SmoothedRTT()), uint64(h.cumAuth))
	res.Nontrivial = res.Nontrivial || res.Events > 10
}

// ---------------------------------------------------------------- class "adversarial" / "extreme"

func cgRunAdversarial(h *cgH) {
	res := h.res
	probes := 0 // consecutive probe packets (a PTO allows two)
	for _, op := range h.sc.Ops {
		if res.Failed() {
			return
		}
		switch op.K {
		case "idle":
			if op.A < 0 {
				continue
			}
			h.idle(time.Duration(op.A))
			res.Events++
			res.Probe("op-idle")
			if op.A > int64(time.Hour) {
				res.Probe("idle-longer-than-an-hour")
			}
			h.observe("idle")
		case "wait":
			// wait for the pacer like the connection's pacing timer does
			now := monotime.Now()
			if h.s.HasPacingBudget(now) {
				continue
			}
			tus := h.s.TimeUntilSend(h.inflight)
			res.Probe("op-wait")
			if tus.After(now) {
				h.idle(tus.Sub(now))
			}
			res.Events++
			if !h.s.HasPacingBudget(monotime.Now()) {
				res.Probe("pacing-deadline-reached-without-budget")
			}
			h.observe("wait")
		case "send":
			n := int(op.D)
			if n < 1 {
				n = 1
			}
			for i := 0; i < n && !res.Failed(); i++ {
				size := h.mds
				if op.A > 0 {
					size = 1 + protocol.ByteCount(op.A+int64(i)*7919)%h.mds
				}
				now := monotime.Now()
				switch op.B {
				case 1:
					res.Probe("op-send-ack-only")
					h.send(size, false, false, int(op.C), "ack-only")
				case 2:
					if probes >= 2 {
						continue
					}
					probes++
					res.Probe("op-send-probe")
					h.send(size, true, false, int(op.C), "probe")
				default:
					if !h.s.CanSend(h.inflight) {
						res.Probe("send-blocked-by-cwnd")
						continue
					}
					if !h.s.HasPacingBudget(now) {
						res.Probe("send-blocked-by-pacer")
						continue
					}
					probes = 0
					mtuProbe := false
					if op.B == 3 && h.mds < cgMaxSize {
						size = h.mds + 1 + protocol.ByteCount(op.A)%(cgMaxSize-h.mds)
						mtuProbe = true
						res.Probe("op-send-oversize-mtu-probe")
					} else {
						res.Probe("op-send-data")
					}
					h.send(size, true, mtuProbe, int(op.C), "data")
				}
			}
		case "ack":
			n := len(h.out)
			if n == 0 {
				continue
			}
			start := int(uint64(op.A) % uint64(n))
			end := start + 1 + int(op.B)
			if end > n || end < start {
				end = n
			}
			acked := append([]*cgPkt(nil), h.out[start:end]...)
			var lost []*cgPkt
			for i := 0; i < start && i < int(op.D); i++ {
				lost = append(lost, h.out[i])
			}
			res.Probe("op-ack")
			if len(lost) > 0 {
				res.Probe("op-ack-with-loss")
			}
			probes = 0
			h.ackFrame(acked, func() []*cgPkt { return lost }, time.Duration(op.C), time.Duration(op.E))
		case "lost":
			// loss timer: only packets below the largest acknowledged one can be declared lost
			var cands []*cgPkt
			for _, p := range h.out {
				if p.pn < h.largestAcked {
					cands = append(cands, p)
				}
			}
			if len(cands) == 0 {
				continue
			}
			start := int(uint64(op.A) % uint64(len(cands)))
			end := start + 1 + int(op.B)
			if end > len(cands) || end < start {
				end = len(cands)
			}
			res.Probe("op-lost")
			prior := h.inflight
			for _, p := range cands[start:end] {
				if res.Failed() {
					break
				}
				h.lossEvent(p, prior)
			}
		case "rtt":
			if op.A <= 0 {
				continue
			}
			res.Probe("op-rtt")
			h.ackFrame(nil, nil, time.Duration(op.A), time.Duration(op.E))
		case "mtu":
			res.Probe("op-mtu")
			h.raiseMTU(protocol.ByteCount(op.A))
		case "rto":
			// never called by the connection (dead API); kept total: bounds only. The model
			// treats it as the end of the current window of packets.
			h.s.OnRetransmissionTimeout(op.A == 1)
			h.reductionAtSent = -1
			res.Events++
			res.Probe("op-rto")
			res.Shape("RTO")
			h.observe("rto")
		case "round":
			res.Probe("op-round")
			cgRound(h, op)
		}
	}
}

// cgRound: a rounds of "send full-size packets while the window and the pacer allow,
// wait c ns, receive ACK frames of b packets each (every d-th packet lost instead)".
// d < 0: pipelined - after every ACK frame the sender refills the window (ACK clocking)
// until the packet budget e is used up.
func cgRound(h *cgH, op cgOp) {
	res := h.res
	rounds := int(op.A)
	if rounds < 1 {
		rounds = 1
	}
	if rounds > 14 {
		rounds = 14
	}
	per := int(op.B)
	if per < 1 {
		per = 1
	}
	if op.E >= 10000 {
		res.Probe("op-round-long-ramp")
	}
	budget := int(op.E) // packets per op
	if budget < 1 || budget > 40000 {
		budget = 40000
	}
	pipelined := op.D < 0
	fill := func() {
		guard := 0
		for h.s.CanSend(h.inflight) && !res.Failed() && budget > 0 && guard < 100000 {
			guard++
			now := monotime.Now()
			if !h.s.HasPacingBudget(now) {
				tus := h.s.TimeUntilSend(h.inflight)
				res.Probe("pacing-limited")
				if !tus.After(now) {
					// the deadline has passed but the budget is still missing (noted by observe)
					tus = now.Add(h.noBudgetStep())
					res.Probe("pacing-deadline-reached-without-budget")
				}
				h.idle(tus.Sub(now))
				h.observe("wait")
				continue
			}
			h.send(h.mds, true, false, 0, "round")
			budget--
		}
	}
	for r := 0; r < rounds && !res.Failed() && budget > 0; r++ {
		fill()
		if res.Failed() {
			return
		}
		h.idle(time.Duration(op.C))
		h.observe("idle")
		// acknowledge everything outstanding, oldest first
		for len(h.out) > 0 && !res.Failed() {
			n := per
			if n > len(h.out) {
				n = len(h.out)
			}
			var acked, lost []*cgPkt
			for _, p := range h.out[:n] {
				if op.D > 0 && int64(p.sentSeq)%op.D == op.D-1 && p != h.out[n-1] {
					lost = append(lost, p)
				} else {
					acked = append(acked, p)
				}
			}
			h.ackFrame(acked, func() []*cgPkt { return lost }, time.Duration(op.C), 0)
			if pipelined {
				// ACK clocking: new packets leave as acknowledgements arrive
				fill()
			}
		}
		if pipelined {
			break
		}
	}
}

// ---------------------------------------------------------------- class "bottleneck"

const (
	cgEvDeliver   = iota // data packet reaches the receiver
	cgEvAckTimer         // receiver's delayed-ACK timer
	cgEvAckArrive        // ACK frame reaches the sender
	cgEvLossTimer        // sender's loss-detection timer (time threshold)
)

type cgEv struct {
	at       monotime.Time
	seq      int
	kind     int
	pkt      *cgPkt
	upto     int // ACK frame: acknowledges the first upto packets the receiver got
	ackDelay time.Duration
}

type cgHeap []*cgEv

func (q cgHeap) Len() int { return len(q) }
func (q cgHeap) Less(i, j int) bool {
	if q[i].at != q[j].at {
		return q[i].at < q[j].at
	}
	return q[i].seq < q[j].seq
}
func (q cgHeap) Swap(i, j int) { q[i], q[j] = q[j], q[i] }
func (q *cgHeap) Push(x any)   { *q = append(*q, x.(*cgEv)) }
func (q *cgHeap) Pop() any {
	old := *q
	n := len(old)
	x := old[n-1]
	*q = old[:n-1]
	return x
}

type cgNet struct {
	h    *cgH
	q    cgHeap
	seq  int
	rate int64

	lastDeparture monotime.Time
	burstDrop     int
	pktOrd        uint64
	ackOrd        uint64

	// receiver
	rcvd          []*cgPkt
	rcvdAt        []monotime.Time
	unacked       int
	ackTimerArmed bool
	// sender side of loss recovery
	ackedUpto     int
	lastElicitAt  monotime.Time
	ptoCount      uint
	lossTimerAt   monotime.Time
	backlog       int64 // packets the application wants to send; -1 = unlimited
	nextWrite     monotime.Time
	writeInterval time.Duration
	writeCount    int64
}

func (n *cgNet) push(ev *cgEv) {
	n.seq++
	ev.seq = n.seq
	heap.Push(&n.q, ev)
}

// enqueue: the packet enters the bottleneck queue (or is dropped).
func (n *cgNet) enqueue(p *cgPkt) {
	h := n.h
	now := p.sentAt
	n.pktOrd++
	p.dropped = false
	if n.burstDrop > 0 {
		n.burstDrop--
		p.dropped = true
		h.res.Fault("burst-loss")
	} else if pl := h.sc.Path.LossPPM; pl > 0 && int64(KMix(h.sc.Seed, 71, n.pktOrd)%1000000) < pl {
		p.dropped = true
		h.res.Fault("random-loss")
	}
	var queued int64
	if n.lastDeparture.After(now) {
		queued = int64(float64(n.lastDeparture.Sub(now)) / 1e9 * float64(n.rate))
	}
	if !p.dropped && queued+int64(p.size) > h.sc.Path.Queue {
		p.dropped = true
		h.res.Fault("queue-overflow")
	}
	if p.dropped {
		return
	}
	start := now
	if n.lastDeparture.After(now) {
		start = n.lastDeparture
	}
	tx := time.Duration(float64(p.size) / float64(n.rate) * 1e9)
	n.lastDeparture = start.Add(tx)
	n.push(&cgEv{at: n.lastDeparture.Add(time.Duration(h.sc.Path.DelayNs)), kind: cgEvDeliver, pkt: p})
}

func (n *cgNet) sendAck(now monotime.Time) {
	h := n.h
	n.unacked = 0
	n.ackTimerArmed = false
	n.ackOrd++
	if pl := h.sc.Path.AckLossPPM; pl > 0 && int64(KMix(h.sc.Seed, 72, n.ackOrd)%1000000) < pl {
		h.res.Fault("ack-lost")
		return
	}
	delay := now.Sub(n.rcvdAt[len(n.rcvdAt)-1])
	n.push(&cgEv{at: now.Add(time.Duration(h.sc.Path.DelayNs)), kind: cgEvAckArrive, upto: len(n.rcvd), ackDelay: delay})
}

func (n *cgNet) lossDelay() time.Duration {
	h := n.h
	d := time.Duration(9 * float64(max(h.rtt.LatestRTT(), h.rtt.SmoothedRTT())) / 8)
	return max(d, cgGranularity)
}

// detectLost mirrors the packet and time thresholds of RFC 9002 (3 packets, 9/8 RTT).
func (n *cgNet) detectLost(now monotime.Time) []*cgPkt {
	h := n.h
	var lost []*cgPkt
	n.lossTimerAt = 0
	ld := n.lossDelay()
	for _, p := range h.out {
		if p.pn >= h.largestAcked {
			break
		}
		if p.acking {
			continue
		}
		if h.largestAcked-p.pn >= 3 || !p.sentAt.Add(ld).After(now) {
			lost = append(lost, p)
		} else if n.lossTimerAt.IsZero() {
			n.lossTimerAt = p.sentAt.Add(ld)
			n.push(&cgEv{at: n.lossTimerAt, kind: cgEvLossTimer})
		}
	}
	return lost
}

func (n *cgNet) handle(ev *cgEv) {
	h := n.h
	now := monotime.Now()
	switch ev.kind {
	case cgEvDeliver:
		n.rcvd = append(n.rcvd, ev.pkt)
		n.rcvdAt = append(n.rcvdAt, now)
		n.unacked++
		if n.unacked >= h.sc.Path.AckEvery {
			n.sendAck(now)
		} else if !n.ackTimerArmed {
			n.ackTimerArmed = true
			n.push(&cgEv{at: now.Add(time.Duration(h.sc.Path.AckDelayNs)), kind: cgEvAckTimer})
		}
	case cgEvAckTimer:
		if n.ackTimerArmed && n.unacked > 0 {
			n.sendAck(now)
		}
	case cgEvAckArrive:
		if ev.upto <= n.ackedUpto {
			return
		}
		var acked []*cgPkt
		for _, p := range n.rcvd[n.ackedUpto:ev.upto] {
			if !p.gone {
				acked = append(acked, p)
			}
		}
		n.ackedUpto = ev.upto
		if len(acked) == 0 {
			return
		}
		largest := n.rcvd[ev.upto-1]
		var sample time.Duration
		if !largest.gone {
			sample = now.Sub(largest.sentAt)
		}
		if largest.pn > h.largestAcked {
			h.largestAcked = largest.pn
		}
		n.ptoCount = 0
		// ReceivedAck: RTT first, then loss detection with the new RTT, then the acknowledged packets
		h.ackFrame(acked, func() []*cgPkt { return n.detectLost(now) }, sample, ev.ackDelay)
	case cgEvLossTimer:
		if n.lossTimerAt != ev.at {
			return
		}
		prior := h.inflight
		for _, p := range n.detectLost(now) {
			h.res.Probe("loss-by-time-threshold")
			h.lossEvent(p, prior)
		}
	}
}

func (n *cgNet) ptoDeadline() monotime.Time {
	h := n.h
	if len(h.out) == 0 {
		return 0
	}
	pto := h.rtt.PTO(true)
	shift := n.ptoCount
	if shift > 10 {
		shift = 10
	}
	return n.lastElicitAt.Add(pto << shift)
}

func (n *cgNet) sendData(ackEliciting bool, what string) {
	h := n.h
	size := h.mds
	x := KMix(h.sc.Seed, 73, uint64(h.sentCount))
	if x%100 < 15 {
		size = 1 + protocol.ByteCount((x>>8)%uint64(h.mds))
	}
	skip := 0
	if (x>>40)%100 < 2 {
		skip = 1
	}
	p := h.send(size, ackEliciting, false, skip, what)
	if ackEliciting {
		n.lastElicitAt = p.sentAt
		n.enqueue(p)
	}
}

// run lets the model sender and the path run until end.
func (n *cgNet) run(end monotime.Time) {
	h := n.h
	res := h.res
	for iter := 0; iter < 2000000 && !res.Failed(); iter++ {
		now := monotime.Now()
		for n.q.Len() > 0 && !n.q[0].at.After(now) && !res.Failed() {
			n.handle(heap.Pop(&n.q).(*cgEv))
		}
		if res.Failed() {
			return
		}
		// probe timeout: nothing came back
		if d := n.ptoDeadline(); !d.IsZero() && !d.After(now) {
			n.ptoCount++
			res.Probe("pto-probe")
			n.sendData(true, "pto-probe")
			continue
		}
		// the application writes
		if n.writeInterval > 0 {
			for !n.nextWrite.After(now) && n.nextWrite.Before(end) {
				n.backlog += n.writeCount
				n.nextWrite = n.nextWrite.Add(n.writeInterval)
			}
		}
		wake := end
		for n.backlog != 0 && h.dataSent < h.sc.MaxPkts && !res.Failed() {
			if !h.s.CanSend(h.inflight) {
				res.Probe("cwnd-limited")
				// ACKs are sent regardless of the window
				if KMix(h.sc.Seed, 74, uint64(h.sentCount))%100 < 3 {
					n.sendData(false, "ack-only")
				}
				break
			}
			if !h.s.HasPacingBudget(now) {
				res.Probe("pacing-limited")
				tus := h.s.TimeUntilSend(h.inflight)
				if !tus.After(now) {
					res.Probe("pacing-deadline-reached-without-budget")
					tus = now.Add(h.noBudgetStep())
				}
				if tus.Before(wake) {
					wake = tus
				}
				break
			}
			n.sendData(true, "data")
			h.dataSent++
			if n.backlog > 0 {
				n.backlog--
			}
		}
		if res.Failed() {
			return
		}
		if n.backlog == 0 && h.inflight < h.cwnd()/2 {
			res.Probe("app-limited-moment")
		}
		if n.q.Len() > 0 && n.q[0].at.Before(wake) {
			wake = n.q[0].at
		}
		if d := n.ptoDeadline(); !d.IsZero() && d.Before(wake) {
			wake = d
		}
		if n.writeInterval > 0 && n.nextWrite.Before(wake) {
			wake = n.nextWrite
		}
		if !wake.After(now) {
			if !now.Before(end) {
				return
			}
			continue
		}
		h.idle(wake.Sub(now))
		if !wake.Before(end) && !monotime.Now().Before(end) {
			// phase over; events due exactly now are handled by the next phase
			return
		}
	}
}

func cgRunBottleneck(h *cgH) {
	res := h.res
	sc := h.sc
	if sc.Path.Rate < 1 || sc.Path.AckEvery < 1 || sc.Path.DelayNs < 0 || sc.Path.AckDelayNs < 0 {
		return
	}
	n := &cgNet{h: h, rate: sc.Path.Rate}
	for _, op := range sc.Ops {
		if res.Failed() {
			return
		}
		if op.A < 0 {
			continue
		}
		now := monotime.Now()
		n.writeInterval = 0
		switch op.K {
		case "bulk":
			res.Probe("op-bulk")
			res.Shape("bulk")
			n.backlog = -1
			n.run(now.Add(time.Duration(op.A)))
		case "app":
			if op.B <= 0 || op.C <= 0 {
				continue
			}
			res.Probe("op-app")
			res.Shape("app")
			n.backlog = 0
			n.writeInterval = time.Duration(op.B)
			n.writeCount = op.C
			n.nextWrite = now
			n.run(now.Add(time.Duration(op.A)))
		case "idle":
			res.Probe("op-idle")
			res.Shape("idle")
			n.backlog = 0
			n.run(now.Add(time.Duration(op.A)))
			h.observe("idle")
		case "burst":
			res.Probe("op-burst")
			n.burstDrop += int(op.A)
		case "rate":
			if op.A >= 1 {
				res.Probe("op-rate")
				n.rate = op.A
			}
		case "mtu":
			res.Probe("op-mtu")
			h.raiseMTU(protocol.ByteCount(op.A))
		}
	}
	// drain: no new data; ACKs, loss timers and probe timeouts resolve what is outstanding
	n.backlog = 0
	n.writeInterval = 0
	for i := 0; i < 60 && len(h.out) > 0 && !res.Failed(); i++ {
		n.run(monotime.Now().Add(2*h.rtt.PTO(true) + 4*time.Duration(sc.Path.DelayNs)))
	}
	if len(h.out) == 0 {
		res.Probe("drained")
	}
}
