package quic

// K:streamsmap - component simulation of the streams map (property C15):
// the real streamsMap with real stream objects and real flow controllers,
// driven by a seeded history of local Open/OpenSync/Accept calls (concurrent
// caller goroutines with cancellable contexts), peer frames naming arbitrary
// stream IDs, MAX_STREAMS, transport parameters, stream completions in any
// order, 0-RTT rejection resets and CloseWithError, against a counting
// reference model. Overlay file of /verif; never part of /repo.
//
// Two scenario classes: "strict" histories reach quiescence (synctest.Wait)
// after every operation, so the arrival order of blocked openers is well
// defined and strict FIFO wake-up is checked; "burst" histories execute
// several operations before quiescence (credit racing with cancellation,
// several callers starting at once, seeded run-next perturbation) and check
// the order-free clauses only.

import (
	"context"
	"errors"
	"fmt"
	"runtime"
	"sort"
	"testing"
	"testing/synctest"
	"time"

	"github.com/refraction-networking/uquic/internal/ackhandler"
	"github.com/refraction-networking/uquic/internal/flowcontrol"
	"github.com/refraction-networking/uquic/internal/monotime"
	"github.com/refraction-networking/uquic/internal/protocol"
	"github.com/refraction-networking/uquic/internal/qerr"
	"github.com/refraction-networking/uquic/internal/utils"
	"github.com/refraction-networking/uquic/internal/wire"
)

func init() { KRegister(streamsmapSim()) }

// ---- scenario

type smapOp struct {
	K string `json:"k"`
	T int    `json:"t,omitempty"` // stream type: 0 bidirectional, 1 unidirectional
	A int64  `json:"a,omitempty"`
	B int64  `json:"b,omitempty"`
	C int64  `json:"c,omitempty"`
	J bool   `json:"j,omitempty"` // burst histories: no quiescence after this op (joined with the next one)
}

type smapScenario struct {
	Seed      uint64   `json:"seed"`
	Server    bool     `json:"server"`
	LimBidi   int64    `json:"lim_bidi"` // configured limit of incoming bidirectional streams
	LimUni    int64    `json:"lim_uni"`
	Strict    bool     `json:"strict"`    // quiescence after every op; strict FIFO checked
	Adversary bool     `json:"adversary"` // the peer may send frames a conformant peer never sends
	ZeroRTT   bool     `json:"zero_rtt"`  // client that attempted 0-RTT: a rejection reset may happen
	Sched     int      `json:"sched"`     // run-next perturbation (n/256), burst histories
	Ops       []smapOp `json:"ops"`
}

func (s *smapScenario) KSeed() uint64 { return s.Seed }

// frame kinds of the "frame" op
const (
	smapFStream = iota
	smapFReset
	smapFStop
	smapFMaxData
	smapFDataBlocked
	smapNumFrameKinds
)

var smapFrameName = []string{"STREAM", "RESET_STREAM", "STOP_SENDING", "MAX_STREAM_DATA", "STREAM_DATA_BLOCKED"}

// target classes of the "frame" op (all relative to the model state)
const (
	smapTNext          = iota // the next stream the peer may open
	smapTSkip                 // several ids ahead: intermediate streams are opened implicitly
	smapTOpenIn               // an open incoming stream
	smapTClosedIn             // an incoming stream that was completed already
	smapTBeyond               // beyond the advertised MAX_STREAMS (adversarial)
	smapTOpenLocal            // an open locally initiated stream
	smapTClosedLocal          // a completed locally initiated stream
	smapTUnopenedLocal        // a locally initiated id that was never opened (adversarial)
	smapTAtLimit              // exactly the highest stream the advertised limit allows
)

func smapRecvKind(kind int) bool {
	return kind == smapFStream || kind == smapFReset || kind == smapFDataBlocked
}

func streamsmapSim() *KSim {
	return &KSim{
		Name:  "streamsmap",
		New:   func() KScenario { return &smapScenario{} },
		Gen:   smapGen,
		Run:   smapRun,
		Sweep: smapSweep,
	}
}

func smapGenFrame(r *KRng, adversary bool, ti int) smapOp {
	op := smapOp{K: "frame", T: ti, C: int64(r.N(12))}
	x := r.N(100)
	switch {
	case x < 30:
		op.B = smapTNext
	case x < 42:
		op.B = smapTSkip
	case x < 58:
		op.B = smapTOpenIn
	case x < 67:
		op.B = smapTClosedIn
	case x < 73:
		op.B = smapTAtLimit
	case x < 86:
		op.B = smapTOpenLocal
	case x < 92:
		op.B = smapTClosedLocal
	default:
		if adversary {
			op.B = int64(r.Pick(smapTBeyond, smapTBeyond, smapTUnopenedLocal))
		} else {
			op.B = smapTNext
		}
	}
	local := op.B == smapTOpenLocal || op.B == smapTClosedLocal || op.B == smapTUnopenedLocal
	kind := r.N(smapNumFrameKinds)
	if ti == 1 {
		// unidirectional: a conformant peer sends receive-side frames on its own streams
		// and send-side frames on ours
		wrong := adversary && r.P(0.08)
		if local != wrong {
			kind = r.Pick(smapFStop, smapFMaxData)
		} else {
			kind = r.Pick(smapFStream, smapFStream, smapFReset, smapFDataBlocked)
		}
	} else if r.P(0.4) {
		kind = smapFStream
	}
	op.A = int64(kind)
	return op
}

func smapGen(seed uint64, tier string) KScenario {
	r := NewKRng(seed)
	sc := &smapScenario{Seed: seed, Server: r.Bool(), Strict: r.P(0.55), Adversary: r.P(0.25)}
	if !sc.Server && r.P(0.3) {
		sc.ZeroRTT = true
	}
	if r.P(0.7) {
		sc.LimBidi, sc.LimUni = int64(r.N(6)), int64(r.N(6))
	} else {
		sc.LimBidi, sc.LimUni = int64(r.Range(0, 40)), int64(r.Range(0, 40))
	}
	if !sc.Strict {
		sc.Sched = r.Pick(0, 0, 32, 128, 220)
	}
	n := r.Range(3, 40)
	if tier == "thorough" && r.P(0.3) {
		n = r.Range(40, 250)
	}
	bias := r.N(3) // 0: both types, 1: mostly bidirectional, 2: mostly unidirectional
	pickType := func() int {
		switch bias {
		case 1:
			if r.P(0.85) {
				return 0
			}
			return 1
		case 2:
			if r.P(0.85) {
				return 1
			}
			return 0
		}
		return r.N(2)
	}
	if r.P(0.75) {
		sc.Ops = append(sc.Ops, smapOp{K: "tp", A: int64(r.N(6)), B: int64(r.N(6))})
	}
	for i := 0; i < n; i++ {
		var op smapOp
		ti := pickType()
		switch x := r.N(100); {
		case x < 8:
			op = smapOp{K: "open", T: ti}
		case x < 22:
			op = smapOp{K: "opens", T: ti}
			if r.P(0.07) {
				op.A = 1 // context cancelled before the call
			}
		case x < 33:
			op = smapOp{K: "accept", T: ti, A: int64(r.Pick(1, 1, 1, 2, 3))}
			if r.P(0.05) {
				op.B = 1
			}
		case x < 40:
			op = smapOp{K: "cancel", A: int64(r.N(8))}
		case x < 66:
			op = smapGenFrame(r, sc.Adversary, ti)
		case x < 77:
			op = smapOp{K: "max", T: ti}
			switch y := r.N(100); {
			case y < 65:
				op.A, op.B = 0, int64(r.Range(1, 3))
			case y < 80:
				op.A = 1
			default:
				op.A, op.B = 2, int64(r.Range(1, 3))
			}
		case x < 92:
			op = smapOp{K: "del", A: int64(r.N(16))}
			if r.P(0.35) {
				op.B = 1 // complete through the real stream object where the application holds it
			}
		case x < 94:
			op = smapOp{K: "tp", A: int64(r.N(6)), B: int64(r.N(6))}
		case x < 99:
			if sc.ZeroRTT {
				if r.P(0.4) {
					op = smapOp{K: "reset"}
				} else {
					op = smapOp{K: "usereset"}
				}
			} else {
				op = smapOp{K: "opens", T: ti}
			}
		default:
			if r.P(0.5) {
				op = smapOp{K: "close"}
			} else {
				op = smapOp{K: "open", T: ti}
			}
		}
		if !sc.Strict && r.P(0.55) {
			op.J = true
		}
		sc.Ops = append(sc.Ops, op)
	}
	return sc
}

// smapSweep enumerates every history of fixed length over a small op alphabet
// for both perspectives, both stream types, incoming limits 0..2 and initial
// peer limits 0..2 (strict class).
var smapSweepAlphabet = []smapOp{
	{K: "open"},
	{K: "opens"},
	{K: "accept", A: 1},
	{K: "cancel", A: 0},
	{K: "cancel", A: 1},
	{K: "frame", A: smapFStream, B: smapTNext},
	{K: "frame", A: smapFStream, B: smapTSkip, C: 0},
	{K: "frame", A: smapFReset, B: smapTOpenIn},
	{K: "frame", A: smapFStream, B: smapTClosedIn},
	{K: "frame", A: smapFStream, B: smapTAtLimit},
	{K: "max", A: 0, B: 1},
	{K: "max", A: 0, B: 2},
	{K: "del", A: 0},
	{K: "del", A: 1},
}

func smapSweep(idx int, tier string) KScenario {
	length := 4
	if tier == "thorough" {
		length = 5
	}
	const configs = 2 * 2 * 3 * 3
	cfg := idx % configs
	seq := idx / configs
	total := 1
	for i := 0; i < length; i++ {
		total *= len(smapSweepAlphabet)
	}
	if seq >= total {
		return nil
	}
	sc := &smapScenario{Seed: KMix(0x5eed, uint64(idx)), Strict: true}
	sc.Server = cfg%2 == 1
	cfg /= 2
	ti := cfg % 2
	cfg /= 2
	lim := int64(cfg % 3)
	cfg /= 3
	peer := int64(cfg % 3)
	sc.LimBidi, sc.LimUni = lim, lim
	sc.Ops = append(sc.Ops, smapOp{K: "tp", A: peer, B: peer})
	for i := 0; i < length; i++ {
		op := smapSweepAlphabet[seq%len(smapSweepAlphabet)]
		seq /= len(smapSweepAlphabet)
		op.T = ti
		if op.K == "frame" && ti == 1 && !smapRecvKind(int(op.A)) {
			op.A = smapFStream
		}
		sc.Ops = append(sc.Ops, op)
	}
	return sc
}

// ---- reference model

// RFC 9000 section 2.1: the least significant bit of a stream ID identifies
// the initiator (0 client, 1 server), the second least significant bit
// distinguishes bidirectional (0) from unidirectional (1) streams.
func smapID(num int64, uni, serverInitiated bool) protocol.StreamID {
	id := 4 * (num - 1)
	if uni {
		id += 2
	}
	if serverInitiated {
		id++
	}
	return protocol.StreamID(id)
}

type smapIn struct { // incoming streams of one type
	limit    int64          // configured
	adv      int64          // highest stream count advertised to the peer (initial limit, then observed MAX_STREAMS)
	opened   int64          // the peer opened streams 1..opened
	accepted int64          // streams 1..accepted were returned by Accept
	delReq   map[int64]bool // DeleteStream was called (stream fully completed)
	removed  int64          // completed and accepted
	wantMax  []int64        // MAX_STREAMS values due, in order
	objs     map[int64]any  // stream objects the application holds
}

type smapOut struct { // locally initiated streams of one type
	peerMax     int64 // the peer's limit (stream count)
	next        int64 // streams 1..next were opened
	deleted     map[int64]bool
	blockedSent map[int64]bool // limits for which a STREAMS_BLOCKED was queued
	queue       []*smapCall    // blocked OpenStreamSync calls, in arrival order
	objs        map[int64]any
}

type smapCall struct {
	seq          int
	accept       bool
	ti           int
	n            int
	cancel       context.CancelFunc
	cancelIssued bool
	preCancelled bool
	fresh        bool // started since the last quiescent point
	gen          int
	// written by the caller goroutine
	ids      []protocol.StreamID
	objs     []any
	err      error
	finished bool
	panicked string
	// driver
	seen       int
	done       bool
	wasBlocked bool
}

type smapCompletion struct {
	id  protocol.StreamID
	err error
}

type smapHarness struct {
	sc     *smapScenario
	res    *KResult
	m      *streamsMap
	server bool

	frames []wire.Frame
	seenFr int

	in  [2]*smapIn
	out [2]*smapOut

	calls        []*smapCall
	gen          int
	resetPending bool
	resetDone    bool
	closed       bool
	ended        bool
	closeErr     error
	completed    []smapCompletion
}

// fake streamSender: what the connection does in these callbacks, minus the framer
type smapSender struct{ h *smapHarness }

func (s *smapSender) onHasConnectionData()                                                {}
func (s *smapSender) onHasStreamData(protocol.StreamID, *SendStream)                      {}
func (s *smapSender) onHasStreamControlFrame(protocol.StreamID, streamControlFrameGetter) {}
func (s *smapSender) onStreamCompleted(id protocol.StreamID) {
	err := s.h.m.DeleteStream(id) // Conn.onStreamCompleted
	s.h.completed = append(s.h.completed, smapCompletion{id, err})
}

func (h *smapHarness) freshModel() {
	lims := [2]int64{h.sc.LimBidi, h.sc.LimUni}
	for ti := 0; ti < 2; ti++ {
		h.in[ti] = &smapIn{limit: lims[ti], adv: lims[ti], delReq: map[int64]bool{}, objs: map[int64]any{}}
		h.out[ti] = &smapOut{deleted: map[int64]bool{}, blockedSent: map[int64]bool{}, objs: map[int64]any{}}
	}
}

func smapPT(ti int) protocol.StreamType {
	if ti == 0 {
		return protocol.StreamTypeBidi
	}
	return protocol.StreamTypeUni
}

var smapTypeName = []string{"bidi", "uni"}

func (h *smapHarness) localID(ti int, num int64) protocol.StreamID {
	return smapID(num, ti == 1, h.server)
}
func (h *smapHarness) peerID(ti int, num int64) protocol.StreamID {
	return smapID(num, ti == 1, !h.server)
}

func (h *smapHarness) inMapLen(ti int) int {
	if ti == 0 {
		return len(h.m.incomingBidiStreams.streams)
	}
	return len(h.m.incomingUniStreams.streams)
}

func smapTransportCode(err error) (uint64, bool) {
	var te *qerr.TransportError
	if errors.As(err, &te) {
		return uint64(te.ErrorCode), true
	}
	return 0, false
}

func smapIsLimitReached(err error) bool {
	var p *StreamLimitReachedError
	var v StreamLimitReachedError
	return errors.As(err, &p) || errors.As(err, &v)
}

// localOpened checks the ID of a stream handed out by Open*/Open*Sync and advances the model.
func (h *smapHarness) localOpened(ti int, id protocol.StreamID, obj any, via string) {
	out := h.out[ti]
	want := h.localID(ti, out.next+1)
	if id != want {
		switch {
		case (int64(id)&3) != (int64(want)&3) || id < 0:
			h.res.Fail("locally opened stream has the wrong type or initiator bits", "%s %s returned id %d, expected %d", via, smapTypeName[ti], id, want)
		case id < want:
			h.res.Fail("local stream IDs not strictly increasing", "%s %s returned id %d, expected %d", via, smapTypeName[ti], id, want)
		default:
			h.res.Fail("local stream ID skipped", "%s %s returned id %d, expected %d", via, smapTypeName[ti], id, want)
		}
		return
	}
	out.next++
	if out.next > out.peerMax {
		h.res.Fail("local stream opened beyond the peer's MAX_STREAMS limit", "%s %s returned stream number %d, peer limit %d", via, smapTypeName[ti], out.next, out.peerMax)
		return
	}
	out.objs[out.next] = obj
	h.res.Nontrivial = true
}

// checkFrames consumes the control frames queued since the last call.
func (h *smapHarness) checkFrames(when string) {
	for ; h.seenFr < len(h.frames); h.seenFr++ {
		if h.res.Failed() {
			h.seenFr = len(h.frames)
			return
		}
		switch f := h.frames[h.seenFr].(type) {
		case *wire.MaxStreamsFrame:
			ti := 0
			if f.Type == protocol.StreamTypeUni {
				ti = 1
			}
			in := h.in[ti]
			v := int64(f.MaxStreamNum)
			h.res.Logf("  queued MAX_STREAMS %s %d (%s)", smapTypeName[ti], v, when)
			h.res.TraceU(1, uint64(ti), uint64(v))
			if v < in.adv {
				h.res.Fail("MAX_STREAMS credit decreased", "%s: %d after %d (%s)", smapTypeName[ti], v, in.adv, when)
				return
			}
			if len(in.wantMax) == 0 {
				h.res.Fail("MAX_STREAMS issued although no stream was completed and accepted since the last one", "%s: value %d, limit %d, completed %d (%s)", smapTypeName[ti], v, in.limit, in.removed, when)
				return
			}
			want := in.wantMax[0]
			in.wantMax = in.wantMax[1:]
			if v > want {
				h.res.Fail("MAX_STREAMS credit exceeds configured limit plus completed streams", "%s: value %d, limit %d + completed %d (%s)", smapTypeName[ti], v, in.limit, want-in.limit, when)
				return
			}
			if v < want {
				h.res.Fail("MAX_STREAMS credit lower than configured limit plus completed streams", "%s: value %d, limit %d + completed %d (%s)", smapTypeName[ti], v, in.limit, want-in.limit, when)
				return
			}
			in.adv = v
			h.res.Probe("max-streams-issued")
		case *wire.StreamsBlockedFrame:
			ti := 0
			if f.Type == protocol.StreamTypeUni {
				ti = 1
			}
			out := h.out[ti]
			lim := int64(f.StreamLimit)
			h.res.Logf("  queued STREAMS_BLOCKED %s %d (%s)", smapTypeName[ti], lim, when)
			h.res.TraceU(2, uint64(ti), uint64(lim))
			if lim != out.peerMax {
				h.res.Fail("STREAMS_BLOCKED carries a limit different from the peer's current limit", "%s: frame says %d, peer limit %d (%s)", smapTypeName[ti], lim, out.peerMax, when)
				return
			}
			if out.blockedSent[lim] {
				h.res.Fail("STREAMS_BLOCKED queued more than once for the same limit", "%s: limit %d (%s)", smapTypeName[ti], lim, when)
				return
			}
			out.blockedSent[lim] = true
			h.res.Probe("streams-blocked-queued")
		default:
			h.res.Fail("unexpected control frame queued by the streams map", "%T (%s)", f, when)
			return
		}
	}
	for ti := 0; ti < 2; ti++ {
		if in := h.in[ti]; len(in.wantMax) > 0 {
			h.res.Fail("no MAX_STREAMS issued after an accepted stream completed", "%s: expected %d, advertised %d (%s)", smapTypeName[ti], in.wantMax[0], in.adv, when)
			return
		}
	}
}

func (h *smapHarness) invariants(when string) {
	if h.res.Failed() {
		return
	}
	for ti := 0; ti < 2; ti++ {
		in := h.in[ti]
		if open := in.opened - int64(len(in.delReq)); open > in.limit {
			h.res.Fail("more concurrently open incoming streams than the configured limit", "%s: %d open, limit %d (%s)", smapTypeName[ti], open, in.limit, when)
			return
		}
		if n := int64(h.inMapLen(ti)); n > in.limit {
			h.res.Fail("incoming streams map holds more streams than the configured limit", "%s: %d streams, limit %d (%s)", smapTypeName[ti], n, in.limit, when)
			return
		}
		if in.adv > in.limit+in.removed {
			h.res.Fail("advertised MAX_STREAMS exceeds configured limit plus completed streams", "%s: advertised %d, limit %d, completed %d (%s)", smapTypeName[ti], in.adv, in.limit, in.removed, when)
			return
		}
	}
}

func (h *smapHarness) start(accept bool, ti int, n int, preCancel bool) {
	ctx, cancel := context.WithCancel(context.Background())
	c := &smapCall{seq: len(h.calls), accept: accept, ti: ti, n: n, cancel: cancel, fresh: true}
	if preCancel {
		cancel()
		c.cancelIssued, c.preCancelled = true, true
		h.res.Probe("call-with-cancelled-context")
	}
	h.calls = append(h.calls, c)
	m := h.m
	go func() {
		defer func() {
			if p := recover(); p != nil {
				c.panicked = fmt.Sprint(p)
			}
			c.finished = true
		}()
		if !accept {
			if ti == 0 {
				s, err := m.OpenStreamSync(ctx)
				if err != nil {
					c.err = err
				} else if s == nil {
					c.err = errors.New("smap: nil stream without error")
				} else {
					c.ids, c.objs = append(c.ids, s.StreamID()), append(c.objs, s)
				}
			} else {
				s, err := m.OpenUniStreamSync(ctx)
				if err != nil {
					c.err = err
				} else if s == nil {
					c.err = errors.New("smap: nil stream without error")
				} else {
					c.ids, c.objs = append(c.ids, s.StreamID()), append(c.objs, s)
				}
			}
			return
		}
		for k := 0; k < n; k++ {
			if ti == 0 {
				s, err := m.AcceptStream(ctx)
				if err != nil {
					c.err = err
					return
				} else if s == nil {
					c.err = errors.New("smap: nil stream without error")
					return
				}
				c.ids, c.objs = append(c.ids, s.StreamID()), append(c.objs, s)
			} else {
				s, err := m.AcceptUniStream(ctx)
				if err != nil {
					c.err = err
					return
				} else if s == nil {
					c.err = errors.New("smap: nil stream without error")
					return
				}
				c.ids, c.objs = append(c.ids, s.StreamID()), append(c.objs, s)
			}
		}
	}()
}

func smapCallName(c *smapCall) string {
	k := "OpenStreamSync"
	if c.accept {
		k = "AcceptStream"
	}
	return fmt.Sprintf("%s(%s)#%d", k, smapTypeName[c.ti], c.seq)
}

type smapServed struct {
	c   *smapCall
	id  protocol.StreamID
	obj any
}

// settle reaches quiescence and evaluates everything the caller goroutines did.
func (h *smapHarness) settle(when string) {
	synctest.Wait()
	res := h.res
	if res.Failed() {
		return
	}
	var openServed, accServed [2][]smapServed
	var accDuring [2]int
	var freshOpen [2][]*smapCall
	for _, c := range h.calls {
		if c.done {
			continue
		}
		if c.fresh {
			c.gen = h.gen
		}
		name := smapCallName(c)
		if c.panicked != "" {
			res.Fail("panic: "+ksanitize(c.panicked), "%s: %s", name, c.panicked)
			return
		}
		stale := c.gen < h.gen
		if c.accept && !stale {
			accDuring[c.ti]++
		}
		if !c.accept && c.fresh {
			freshOpen[c.ti] = append(freshOpen[c.ti], c)
		}
		for k := c.seen; k < len(c.ids); k++ {
			res.Logf("  %s returned stream %d", name, c.ids[k])
			res.TraceU(3, uint64(c.seq), uint64(c.ids[k]))
			switch {
			case h.closed:
				res.Fail("call returned a stream after CloseWithError", "%s returned stream %d (%s)", name, c.ids[k], when)
				return
			case stale:
				res.Fail("blocked call returned a stream after the 0-RTT rejection reset", "%s returned stream %d (%s)", name, c.ids[k], when)
				return
			case c.fresh && h.resetPending:
				res.Fail("call returned a stream while the 0-RTT rejection reset is pending", "%s returned stream %d (%s)", name, c.ids[k], when)
				return
			}
			if k > 0 && c.ids[k] <= c.ids[k-1] {
				res.Fail("successive Accept calls of one caller not in increasing ID order", "%s: %d after %d", name, c.ids[k], c.ids[k-1])
				return
			}
			s := smapServed{c, c.ids[k], c.objs[k]}
			if c.accept {
				accServed[c.ti] = append(accServed[c.ti], s)
			} else {
				openServed[c.ti] = append(openServed[c.ti], s)
			}
		}
		c.seen = len(c.ids)
		if c.finished {
			if c.err != nil {
				res.Logf("  %s returned error %v", name, c.err)
				res.TraceAdd(fmt.Sprintf("E%d:%v", c.seq, c.err))
				ok := false
				if c.cancelIssued && errors.Is(c.err, context.Canceled) {
					ok = true
					if c.wasBlocked {
						res.Probe("blocked-call-cancelled")
					}
				}
				if h.closed && c.err == h.closeErr {
					ok = true
					if c.wasBlocked {
						res.Probe("blocked-call-unblocked-by-close")
					}
				}
				if (stale || (c.fresh && h.resetPending)) && c.err == Err0RTTRejected {
					ok = true
					if c.wasBlocked {
						res.Probe("blocked-call-unblocked-by-0rtt-reset")
					}
				}
				if !ok {
					res.Fail("call returned an unexpected error", "%s: %v (cancelled=%v closed=%v resetPending=%v) (%s)", name, c.err, c.cancelIssued, h.closed, h.resetPending, when)
					return
				}
			} else if c.accept && len(c.ids) != c.n {
				res.Fail("harness: acceptor finished early without error", "%s", name)
				return
			}
		} else {
			switch {
			case h.closed:
				res.Fail("call still blocked after CloseWithError", "%s (%s)", name, when)
				return
			case stale:
				res.Fail("call still blocked after the 0-RTT rejection reset", "%s (%s)", name, when)
				return
			case c.cancelIssued:
				res.Fail("cancelled call did not return", "%s (%s)", name, when)
				return
			case c.fresh && h.resetPending:
				res.Fail("call blocks although the 0-RTT rejection reset is pending", "%s (%s)", name, when)
				return
			}
		}
	}

	// Accept: every stream exactly once, in ID order
	for ti := 0; ti < 2; ti++ {
		in := h.in[ti]
		sv := accServed[ti]
		sort.Slice(sv, func(a, b int) bool { return sv[a].id < sv[b].id })
		for _, s := range sv {
			want := h.peerID(ti, in.accepted+1)
			if s.id != want {
				switch {
				case (int64(s.id)&3) != (int64(want)&3) || s.id < 0:
					res.Fail("Accept returned a stream of the wrong type or initiator", "%s returned %d, expected %d", smapCallName(s.c), s.id, want)
				case s.id < want:
					res.Fail("Accept returned the same stream twice", "%s returned %d, next expected %d", smapCallName(s.c), s.id, want)
				default:
					res.Fail("Accept skipped a stream", "%s returned %d, next expected %d", smapCallName(s.c), s.id, want)
				}
				return
			}
			if in.accepted+1 > in.opened {
				res.Fail("Accept returned a stream the peer never opened", "%s returned %d, peer opened %d streams", smapCallName(s.c), s.id, in.opened)
				return
			}
			in.accepted++
			in.objs[in.accepted] = s.obj
			res.Nontrivial = true
			if s.c.wasBlocked {
				res.Probe("accept-served-after-blocking")
			} else {
				res.Probe("accept-served-immediately")
			}
			if in.delReq[in.accepted] {
				in.removed++
				in.wantMax = append(in.wantMax, in.limit+in.removed)
				res.Probe("credit-deferred-until-accept")
			}
		}
	}

	// OpenStreamSync
	for ti := 0; ti < 2; ti++ {
		out := h.out[ti]
		elig := append(append([]*smapCall(nil), out.queue...), freshOpen[ti]...)
		var sawBlocked *smapCall
		lastID := protocol.StreamID(-1)
		nServedBlocked := 0
		for _, c := range elig {
			if c.finished && c.err != nil {
				continue
			}
			if !c.finished {
				if sawBlocked == nil {
					sawBlocked = c
				}
				continue
			}
			if c.preCancelled {
				res.Fail("OpenStreamSync with an already cancelled context returned a stream", "%s returned %d", smapCallName(c), c.ids[0])
				return
			}
			if c.wasBlocked {
				nServedBlocked++
			}
			if h.sc.Strict {
				if sawBlocked != nil {
					res.Fail("blocked openers not served in arrival order", "%s (later arrival) was served while %s is still waiting (%s)", smapCallName(c), smapCallName(sawBlocked), when)
					return
				}
				if c.ids[0] < lastID {
					res.Fail("blocked openers not served in arrival order", "%s (later arrival) got stream %d, an earlier arrival got %d (%s)", smapCallName(c), c.ids[0], lastID, when)
					return
				}
				lastID = c.ids[0]
				if c.cancelIssued && c.wasBlocked {
					res.Fail("cancelled opener was served", "%s returned %d (%s)", smapCallName(c), c.ids[0], when)
					return
				}
			} else if c.cancelIssued {
				res.Probe("race-cancelled-opener-served")
			}
		}
		if nServedBlocked > 0 {
			res.Probe("blocked-opener-served-on-credit")
		}
		if nServedBlocked > 1 {
			res.Probe("several-blocked-openers-served-at-once")
		}
		sv := openServed[ti]
		sort.Slice(sv, func(a, b int) bool { return sv[a].id < sv[b].id })
		for _, s := range sv {
			h.localOpened(ti, s.id, s.obj, smapCallName(s.c))
			if res.Failed() {
				return
			}
		}
		var nq []*smapCall
		for _, c := range elig {
			if !c.finished {
				nq = append(nq, c)
			}
		}
		out.queue = nq
	}

	h.checkFrames(when)
	if res.Failed() {
		return
	}

	for ti := 0; ti < 2; ti++ {
		out, in := h.out[ti], h.in[ti]
		if len(out.queue) > 0 && !h.closed {
			if out.next < out.peerMax {
				res.Fail("opener still blocked although the peer's limit allows another stream", "%s: %d callers blocked, %d streams opened, peer limit %d (%s)", smapTypeName[ti], len(out.queue), out.next, out.peerMax, when)
				return
			}
			if !out.blockedSent[out.peerMax] {
				res.Fail("callers blocked on the stream limit but no STREAMS_BLOCKED queued for it", "%s: limit %d (%s)", smapTypeName[ti], out.peerMax, when)
				return
			}
			res.Probe("openers-blocked-at-quiescence")
		}
		pendingAcc := 0
		for _, c := range h.calls {
			if !c.done && c.accept && c.ti == ti && !c.finished && c.gen == h.gen {
				pendingAcc++
			}
		}
		if accDuring[ti] >= 2 && pendingAcc > 0 {
			res.Probe("concurrent-acceptors")
		}
		// (a send on newStreamChan is handed directly to a parked Accept call, the one-token buffer is
		// only used while nobody waits, and every Accept call re-checks the map after draining it:
		// no wake-up can be lost, also with several concurrent acceptors)
		if pendingAcc > 0 && in.opened > in.accepted && !h.closed {
			res.Fail("Accept blocked although an unaccepted stream is available", "%s: peer opened %d, accepted %d, %d Accept calls pending (%s)", smapTypeName[ti], in.opened, in.accepted, pendingAcc, when)
			return
		}
	}

	for _, c := range h.calls {
		if c.done {
			continue
		}
		c.fresh = false
		if c.finished {
			c.done = true
		} else {
			if !c.wasBlocked {
				if c.accept {
					res.Probe("accept-blocked")
				} else {
					res.Probe("opener-blocked")
				}
				res.Nontrivial = true
			}
			c.wasBlocked = true
		}
	}
	h.invariants(when)
}

// modelDeleted records a full completion (DeleteStream) in the model.
func (h *smapHarness) modelDeleted(local bool, ti int, num int64) {
	if local {
		out := h.out[ti]
		out.deleted[num] = true
		delete(out.objs, num)
		h.res.Probe("completed-local-stream")
		return
	}
	in := h.in[ti]
	in.delReq[num] = true
	delete(in.objs, num)
	if num <= in.accepted {
		in.removed++
		in.wantMax = append(in.wantMax, in.limit+in.removed)
		h.res.Probe("completed-accepted-incoming-stream")
	} else {
		h.res.Probe("completed-incoming-stream-before-accept")
	}
}

// realComplete drives a real stream object to completion the way an application and
// the connection would: cancel both directions, acknowledge the RESET_STREAM, let the
// peer reset its direction. The stream then calls streamSender.onStreamCompleted itself.
func (h *smapHarness) realComplete(obj any, id protocol.StreamID) error {
	now := monotime.Now()
	drainSend := func(get func(monotime.Time) (ackhandler.Frame, bool, bool)) {
		for k := 0; k < 4; k++ {
			f, ok, _ := get(now)
			if !ok {
				return
			}
			if f.Handler != nil {
				f.Handler.OnAcked(f.Frame)
			}
		}
	}
	reset := &wire.ResetStreamFrame{StreamID: id, ErrorCode: 9, FinalSize: 1}
	switch s := obj.(type) {
	case *Stream:
		s.CancelWrite(7)
		drainSend(s.getControlFrame)
		s.CancelRead(7)
		if err := h.m.HandleResetStreamFrame(reset, now); err != nil {
			return err
		}
		drainSend(s.getControlFrame)
	case *SendStream:
		s.CancelWrite(7)
		drainSend(s.getControlFrame)
	case *ReceiveStream:
		s.CancelRead(7)
		if err := h.m.HandleResetStreamFrame(reset, now); err != nil {
			return err
		}
		drainSend(s.getControlFrame)
	}
	return nil
}

type smapTarget struct {
	local bool
	ti    int
	num   int64
}

func (h *smapHarness) openStreams() []smapTarget {
	var l []smapTarget
	for ti := 0; ti < 2; ti++ {
		out := h.out[ti]
		for n := int64(1); n <= out.next; n++ {
			if !out.deleted[n] {
				l = append(l, smapTarget{true, ti, n})
			}
		}
		in := h.in[ti]
		for n := int64(1); n <= in.opened; n++ {
			if !in.delReq[n] {
				l = append(l, smapTarget{false, ti, n})
			}
		}
	}
	return l
}

func (h *smapHarness) doClose(why string) {
	if h.closed {
		return
	}
	h.closeErr = errors.New("smap: connection closed (" + why + ")")
	blocked := 0
	for _, c := range h.calls {
		if !c.done && !c.finished {
			blocked++
		}
	}
	if blocked > 0 {
		h.res.Probe("close-with-blocked-callers")
	}
	h.res.Logf("CloseWithError (%s), %d callers pending", why, blocked)
	h.m.CloseWithError(h.closeErr)
	h.closed, h.ended = true, true
}

func (h *smapHarness) frameOp(op smapOp) {
	res := h.res
	ti := op.T & 1
	kind := int(op.A) % smapNumFrameKinds
	if kind < 0 {
		kind = 0
	}
	in, out := h.in[ti], h.out[ti]
	var tg smapTarget
	tg.ti = ti
	switch op.B {
	case smapTNext:
		tg.num = in.opened + 1
	case smapTSkip:
		tg.num = in.opened + 2 + op.C%3
	case smapTOpenIn, smapTClosedIn:
		var l []int64
		for n := int64(1); n <= in.opened; n++ {
			if in.delReq[n] == (op.B == smapTClosedIn) {
				l = append(l, n)
			}
		}
		if len(l) == 0 {
			return
		}
		tg.num = l[int(op.C)%len(l)]
	case smapTBeyond:
		tg.num = in.adv + 1 + op.C%3
	case smapTAtLimit:
		tg.num = in.adv
		if tg.num == 0 {
			return
		}
	case smapTOpenLocal, smapTClosedLocal:
		var l []int64
		for n := int64(1); n <= out.next; n++ {
			if out.deleted[n] == (op.B == smapTClosedLocal) {
				l = append(l, n)
			}
		}
		if len(l) == 0 {
			return
		}
		tg.local, tg.num = true, l[int(op.C)%len(l)]
	case smapTUnopenedLocal:
		tg.local, tg.num = true, out.next+1+op.C%3
	default:
		return
	}
	if op.C < 0 || tg.num < 1 {
		return
	}

	// reference classification (RFC 9000 sections 2.1, 3, 4.6, 19.4-19.13)
	const (
		expDeliver = iota
		expIgnore
		expLimitErr
		expWrongDir
		expUnopened
	)
	exp := expDeliver
	recv := smapRecvKind(kind)
	switch {
	case ti == 1 && tg.local && recv:
		exp = expWrongDir // receive-side frame for a send-only stream
	case ti == 1 && !tg.local && !recv:
		exp = expWrongDir // send-side frame for a receive-only stream
	case tg.local:
		switch {
		case tg.num > out.next:
			exp = expUnopened
		case out.deleted[tg.num]:
			exp = expIgnore
		}
	default:
		switch {
		case tg.num > in.adv:
			exp = expLimitErr
		case tg.num <= in.opened && in.delReq[tg.num]:
			exp = expIgnore
		}
	}
	if exp >= expLimitErr && !h.sc.Adversary {
		return // only an adversarial peer sends this
	}
	var id protocol.StreamID
	if tg.local {
		id = h.localID(ti, tg.num)
	} else {
		id = h.peerID(ti, tg.num)
	}
	now := monotime.Now()
	var err error
	switch kind {
	case smapFStream:
		err = h.m.HandleStreamFrame(&wire.StreamFrame{StreamID: id, Data: []byte{'x'}, Fin: op.C%4 == 3}, now)
	case smapFReset:
		err = h.m.HandleResetStreamFrame(&wire.ResetStreamFrame{StreamID: id, ErrorCode: 3, FinalSize: 1}, now)
	case smapFStop:
		err = h.m.HandleStopSendingFrame(&wire.StopSendingFrame{StreamID: id, ErrorCode: 5})
	case smapFMaxData:
		err = h.m.HandleMaxStreamDataFrame(&wire.MaxStreamDataFrame{StreamID: id, MaximumStreamData: 1 << 17})
	case smapFDataBlocked:
		err = h.m.HandleStreamDataBlockedFrame(&wire.StreamDataBlockedFrame{StreamID: id, MaximumStreamData: 1})
	}
	desc := fmt.Sprintf("%s for stream %d (%s, local=%v, number %d; peer opened %d, advertised %d, locally opened %d)", smapFrameName[kind], id, smapTypeName[ti], tg.local, tg.num, in.opened, in.adv, out.next)
	res.Logf("frame %s -> %v", desc, err)
	res.Shape(fmt.Sprintf("F%d%d%d%d", kind, ti, op.B, exp))
	res.TraceAdd(fmt.Sprintf("F%d:%d:%v", kind, id, err))
	code, isTE := smapTransportCode(err)
	switch exp {
	case expLimitErr:
		res.Fault("peer-stream-beyond-advertised-limit")
		if !isTE || code != 0x4 {
			res.Fail("peer stream beyond the advertised MAX_STREAMS not answered with STREAM_LIMIT_ERROR", "%s: err=%v", desc, err)
		}
		h.doClose("stream limit error")
		return
	case expWrongDir:
		res.Fault("peer-frame-wrong-direction")
		if !isTE || code != 0x5 {
			res.Fail("frame for a stream of the wrong direction not answered with STREAM_STATE_ERROR", "%s: err=%v", desc, err)
		}
		h.doClose("stream state error")
		return
	case expUnopened:
		res.Fault("peer-frame-unopened-local-stream")
		if !isTE || code != 0x5 {
			res.Fail("frame for a never-opened locally initiated stream not answered with STREAM_STATE_ERROR", "%s: err=%v", desc, err)
		}
		h.doClose("stream state error")
		return
	}
	if err != nil {
		switch {
		case isTE && code == 0x4:
			res.Fail("peer stream within the advertised MAX_STREAMS rejected with STREAM_LIMIT_ERROR", "%s: %v", desc, err)
		case isTE && code == 0x5:
			res.Fail("valid frame rejected with STREAM_STATE_ERROR", "%s: %v", desc, err)
		default:
			res.Fail("valid frame rejected", "%s: %v", desc, err)
		}
		return
	}
	// what does the map resolve the ID to now?
	resolve := func(id protocol.StreamID, recvSide bool) (protocol.StreamID, bool, error) {
		if recvSide {
			s, err := h.m.getReceiveStream(id)
			switch x := s.(type) {
			case *Stream:
				return x.StreamID(), true, err
			case *ReceiveStream:
				return x.StreamID(), true, err
			}
			return 0, false, err
		}
		s, err := h.m.getSendStream(id)
		switch x := s.(type) {
		case *Stream:
			return x.StreamID(), true, err
		case *SendStream:
			return x.StreamID(), true, err
		}
		return 0, false, err
	}
	if exp == expIgnore {
		gid, found, rerr := resolve(id, recv)
		if found || rerr != nil {
			res.Fail("frame for a completed stream not ignored", "%s: map returned stream=%v (%d) err=%v", desc, found, gid, rerr)
			return
		}
		if tg.local {
			res.Probe("frame-for-completed-local-stream-ignored")
		} else if tg.num > in.accepted {
			res.Probe("frame-for-completed-unaccepted-stream-ignored")
		} else {
			res.Probe("frame-for-completed-incoming-stream-ignored")
		}
		return
	}
	// delivered
	if !tg.local && tg.num > in.opened {
		if tg.num > in.opened+1 {
			res.Probe("peer-opened-streams-implicitly")
		} else {
			res.Probe("peer-opened-next-stream")
		}
		if tg.num == in.adv {
			res.Probe("peer-opened-stream-exactly-at-limit")
		}
		old := in.opened
		in.opened = tg.num
		res.Nontrivial = true
		for n := old + 1; n < tg.num; n++ {
			gid, found, rerr := resolve(h.peerID(ti, n), ti == 1 || recv)
			if !found || rerr != nil || gid != h.peerID(ti, n) {
				res.Fail("lower-numbered stream not opened implicitly", "%s: stream number %d: found=%v id=%d err=%v", desc, n, found, gid, rerr)
				return
			}
		}
	} else if tg.local {
		res.Probe("frame-for-open-local-stream")
	} else {
		res.Probe("frame-for-open-incoming-stream")
	}
	gid, found, rerr := resolve(id, recv)
	if !found || rerr != nil || gid != id {
		res.Fail("frame for an open stream not delivered to it", "%s: found=%v id=%d err=%v", desc, found, gid, rerr)
		return
	}
}

func (h *smapHarness) apply(op smapOp) {
	res := h.res
	ti := op.T & 1
	switch op.K {
	case "tp":
		a, b := op.A, op.B
		if a < 0 || b < 0 {
			return
		}
		for i, v := range []int64{a, b} {
			if v > h.out[i].peerMax {
				h.out[i].peerMax = v
				res.Probe("transport-parameters-raise-limit")
			}
		}
		res.Logf("transport parameters: bidi %d uni %d", a, b)
		res.Shape("tp")
		h.m.HandleTransportParameters(&wire.TransportParameters{
			MaxBidiStreamNum:               protocol.StreamNum(a),
			MaxUniStreamNum:                protocol.StreamNum(b),
			InitialMaxStreamDataBidiRemote: 1 << 16,
			InitialMaxStreamDataBidiLocal:  1 << 16,
			InitialMaxStreamDataUni:        1 << 16,
		})
	case "max":
		out := h.out[ti]
		var v int64
		switch op.A {
		case 0:
			if op.B < 1 {
				return
			}
			v = out.peerMax + op.B
			res.Probe("max-streams-increase")
		case 1:
			v = out.peerMax
			res.Probe("max-streams-same")
		default:
			v = out.peerMax - op.B
			if v < 0 {
				v = 0
			}
			res.Probe("max-streams-lower")
		}
		if v > out.peerMax {
			out.peerMax = v
		}
		res.Logf("MAX_STREAMS %s %d (limit now %d)", smapTypeName[ti], v, out.peerMax)
		res.Shape(fmt.Sprintf("max%d%d", ti, op.A))
		h.m.HandleMaxStreamsFrame(&wire.MaxStreamsFrame{Type: smapPT(ti), MaxStreamNum: protocol.StreamNum(v)})
	case "open":
		out := h.out[ti]
		id := protocol.StreamID(-1)
		var obj any
		var err error
		if ti == 0 {
			s, e := h.m.OpenStream()
			err = e
			if s != nil {
				id, obj = s.StreamID(), s
			}
		} else {
			s, e := h.m.OpenUniStream()
			err = e
			if s != nil {
				id, obj = s.StreamID(), s
			}
		}
		res.Logf("Open(%s) -> id %d err %v", smapTypeName[ti], id, err)
		res.TraceAdd(fmt.Sprintf("O%d:%d:%v", ti, id, err))
		h.checkFrames("Open")
		if res.Failed() {
			return
		}
		switch {
		case h.resetPending:
			res.Shape("open-reset")
			if err != Err0RTTRejected || obj != nil {
				res.Fail("Open during a pending 0-RTT rejection reset did not fail with Err0RTTRejected", "%s: id=%d err=%v", smapTypeName[ti], id, err)
			}
		case len(out.queue) == 0 && out.next < out.peerMax:
			res.Shape("open-ok")
			if err != nil || obj == nil {
				res.Fail("Open failed although the peer's limit allows another stream", "%s: %d opened, peer limit %d: err=%v", smapTypeName[ti], out.next, out.peerMax, err)
				return
			}
			h.localOpened(ti, id, obj, "Open")
			res.Probe("open-succeeded")
		default:
			res.Shape("open-limit")
			if obj != nil || err == nil {
				if len(out.queue) > 0 && out.next < out.peerMax {
					res.Fail("non-blocking Open overtook blocked OpenStreamSync callers", "%s: returned %d with %d callers waiting", smapTypeName[ti], id, len(out.queue))
				} else {
					res.Fail("local stream opened beyond the peer's MAX_STREAMS limit", "Open %s returned %d: %d opened, peer limit %d", smapTypeName[ti], id, out.next, out.peerMax)
				}
				return
			}
			if !smapIsLimitReached(err) {
				res.Fail("Open at the stream limit did not fail with StreamLimitReachedError", "%s: err=%v", smapTypeName[ti], err)
				return
			}
			if !out.blockedSent[out.peerMax] {
				res.Fail("Open failed at the stream limit but no STREAMS_BLOCKED queued for it", "%s: limit %d", smapTypeName[ti], out.peerMax)
				return
			}
			res.Probe("open-failed-at-limit")
		}
	case "opens":
		res.Shape(fmt.Sprintf("opens%d%d", ti, op.A))
		res.Logf("start OpenStreamSync(%s) cancelled=%v", smapTypeName[ti], op.A == 1)
		h.start(false, ti, 1, op.A == 1)
	case "accept":
		n := int(op.A)
		if n < 1 {
			n = 1
		}
		if n > 4 {
			n = 4
		}
		res.Shape(fmt.Sprintf("accept%d%d%d", ti, n, op.B))
		res.Logf("start %d x Accept(%s) cancelled=%v", n, smapTypeName[ti], op.B == 1)
		h.start(true, ti, n, op.B == 1)
	case "cancel":
		var l []*smapCall
		for _, c := range h.calls {
			if !c.done && !c.finished && !c.cancelIssued {
				l = append(l, c)
			}
		}
		if len(l) == 0 || op.A < 0 {
			return
		}
		c := l[int(op.A)%len(l)]
		c.cancelIssued = true
		res.Logf("cancel %s", smapCallName(c))
		res.Shape(fmt.Sprintf("cancel%v", c.accept))
		if c.accept {
			res.Probe("cancel-acceptor")
		} else {
			res.Probe("cancel-opener")
		}
		c.cancel()
	case "frame":
		h.frameOp(op)
	case "del":
		l := h.openStreams()
		if len(l) == 0 || op.A < 0 {
			return
		}
		tg := l[int(op.A)%len(l)]
		var id protocol.StreamID
		var obj any
		if tg.local {
			id, obj = h.localID(tg.ti, tg.num), h.out[tg.ti].objs[tg.num]
		} else {
			id, obj = h.peerID(tg.ti, tg.num), h.in[tg.ti].objs[tg.num]
		}
		res.Shape(fmt.Sprintf("del%v%d%v", tg.local, tg.ti, !tg.local && tg.num > h.in[tg.ti].accepted))
		if op.B == 1 && obj != nil {
			before := len(h.completed)
			err := h.realComplete(obj, id)
			res.Logf("complete stream %d through the stream object: %v", id, err)
			if err != nil {
				res.Fail("harness: completing a stream through its object failed", "stream %d: %v", id, err)
				return
			}
			if len(h.completed) != before+1 || h.completed[before].id != id {
				res.Fail("harness: stream object did not report completion exactly once", "stream %d: %v", id, h.completed[before:])
				return
			}
			if e := h.completed[before].err; e != nil {
				res.Fail("DeleteStream failed for an open stream", "stream %d: %v", id, e)
				return
			}
			res.Probe("completed-through-real-stream-object")
		} else {
			err := h.m.DeleteStream(id)
			res.Logf("DeleteStream(%d) -> %v", id, err)
			if err != nil {
				res.Fail("DeleteStream failed for an open stream", "stream %d: %v", id, err)
				return
			}
		}
		res.TraceU(4, uint64(id))
		h.modelDeleted(tg.local, tg.ti, tg.num)
	case "reset":
		if h.server || !h.sc.ZeroRTT || h.resetDone {
			return
		}
		res.Logf("ResetFor0RTT")
		res.Shape("reset")
		res.Probe("0rtt-rejection-reset")
		h.m.ResetFor0RTT()
		h.resetDone, h.resetPending = true, true
		h.gen++
		h.freshModel()
	case "usereset":
		if !h.resetPending {
			return
		}
		res.Logf("UseResetMaps")
		res.Shape("usereset")
		res.Probe("use-reset-maps")
		h.m.UseResetMaps()
		h.resetPending = false
	case "close":
		res.Shape("close")
		h.doClose("application")
	}
}

func smapRun(t *testing.T, ksc KScenario, res *KResult) {
	sc := ksc.(*smapScenario)
	monotime.VerifSetStart(time.Now().Add(-time.Hour))
	if sc.Sched > 0 && !sc.Strict {
		runtime.SimSched(KMix(sc.Seed, 77), uint32(sc.Sched))
	}
	h := &smapHarness{sc: sc, res: res, server: sc.Server}
	h.freshModel()
	pers := protocol.PerspectiveClient
	if sc.Server {
		pers = protocol.PerspectiveServer
	}
	rtt := utils.NewRTTStats()
	connFC := flowcontrol.NewConnectionFlowController(1<<20, 1<<20, func(protocol.ByteCount) bool { return true }, rtt, utils.DefaultLogger)
	h.m = newStreamsMap(
		context.Background(),
		&smapSender{h: h},
		func(f wire.Frame) { h.frames = append(h.frames, f) },
		func(id protocol.StreamID) flowcontrol.StreamFlowController {
			return flowcontrol.NewStreamFlowController(id, connFC, 1<<16, 1<<16, 1<<16, rtt, utils.DefaultLogger)
		},
		uint64(sc.LimBidi), uint64(sc.LimUni), pers,
	)

	for i, op := range sc.Ops {
		if res.Failed() || h.ended {
			break
		}
		res.Events++
		h.apply(op)
		h.checkFrames(op.K)
		h.invariants(op.K)
		if sc.Strict || !op.J || i == len(sc.Ops)-1 || h.ended {
			h.settle("after " + op.K)
		} else {
			res.Probe("burst-joined-ops")
		}
	}
	if !res.Failed() {
		if !h.closed {
			h.doClose("end of history")
		}
		h.settle("after close")
	}
	if !res.Failed() {
		// after the close every call fails at once with the close error
		for ti := 0; ti < 2; ti++ {
			h.start(false, ti, 1, false)
			h.start(true, ti, 1, false)
			var err error
			if ti == 0 {
				_, err = h.m.OpenStream()
			} else {
				_, err = h.m.OpenUniStream()
			}
			want := h.closeErr
			if h.resetPending {
				want = Err0RTTRejected
			}
			if err != want {
				res.Fail("Open after CloseWithError did not return the close error", "%s: %v", smapTypeName[ti], err)
			}
		}
		h.settle("calls after close")
		h.checkFrames("end")
	}

	// release everything, whatever happened
	if !h.closed {
		h.closeErr = errors.New("smap: cleanup")
		h.closed = true
		func() {
			defer func() { recover() }()
			h.m.CloseWithError(h.closeErr)
		}()
	}
	for _, c := range h.calls {
		c.cancel()
	}
	synctest.Wait()

	for ti := 0; ti < 2; ti++ {
		in, out := h.in[ti], h.out[ti]
		res.TraceU(uint64(in.opened), uint64(in.accepted), uint64(in.removed), uint64(in.adv), uint64(out.next), uint64(out.peerMax), uint64(len(out.queue)))
	}
	res.TraceU(uint64(len(h.frames)), uint64(len(h.calls)), uint64(res.Events))
}
