package quic

// K:sendstream - component simulation of the SEND side of streams for the sender
// clauses of C04 ("a sender never transmits new stream bytes beyond the largest
// per-stream and per-connection limits its peer has advertised, and reports being
// blocked at most once per limit") and C01 ("the bytes carried at every offset are
// exactly the bytes written at that offset ..."). Overlay file of /verif; never part
// of /repo.
//
// Real code: 1-6 SendStream objects (newSendStream), each wired to a real stream
// flow controller, all sharing one real connection flow controller (wired as
// connection.go newFlowController / streams_map.go do), and - scenario flag
// "framer" - the real framer (framer.Append, AddActiveStream, ... exactly as
// connection.go uses it). Without the flag a model packer calls popStreamFrame /
// getControlFrame itself, which allows size budgets down to one byte (the framer
// never asks a stream for less than 128 bytes).
//
// Model:
//
//	application  one writer goroutine per stream (Write with arbitrary chunk sizes,
//	             Close; blocking on flow control / buffering), SetWriteDeadline,
//	             SetReliableBoundary, CancelWrite issued by the driver while a Write
//	             may be blocked; every Write buffer is a private copy of the stream's
//	             position dependent content and is scribbled when Write has returned
//	packer       pops packets with arbitrary budgets, serialises every packet with
//	             the real Append methods and decodes it again with an independent
//	             decoder (RFC 9000 frame layouts written out): what the oracles judge
//	             is what a receiver would parse
//	network      every frame handed out is outstanding until it is acknowledged
//	             (OnAcked) or declared lost (OnLost), in any order, never twice; a lost
//	             frame may still have reached the peer (spurious loss)
//	peer         byte array per stream, MAX_STREAM_DATA / MAX_DATA (raised; in the
//	             faulty class also duplicated and stale), STOP_SENDING, support for
//	             RESET_STREAM_AT from the start / from the transport parameters of an
//	             accepted 0-RTT session / not at all, 0-RTT rejection
//	             (closeForShutdown(Err0RTTRejected) + framer.Handle0RTTRejection +
//	             ConnectionFlowController.Reset, then a fresh generation of streams)
//
// Scenario classes: "faulty": false - no loss, no stale / duplicate credit, no
// STOP_SENDING, no CancelWrite, no shutdown, no rejection; true - everything.
//
// After every history the faults stop: deadlines are cleared, every stream that is
// not cancelled is closed, ample credit is granted, packets are popped and
// acknowledged until nothing moves. Then every accepted byte of a stream that was not
// reset (and every byte below the reliable size of one that was) must have been
// acknowledged, the FIN / the reset too, and every stream must have reported its
// completion exactly once.

//
// Defects of the unchanged tree the simulation reaches (each has its own signature; they end the
// history they occur in, are reported when nothing else fails in the run - see sstRun - and have a
// minimal replay in /tmp/sstmin, rebuilt by /tmp/sstmin/make.py):
//
//  1. CancelWrite with a reliable size emits RESET_STREAM_AT with FinalSize = max(writeOffset,
//     reliableOffset). While the reliable remainder sits in nextFrame, blocked by flow control, that
//     final size lies beyond MAX_STREAM_DATA / MAX_DATA ("RESET_STREAM_AT final size beyond the
//     peer's ..."); the peer charges it to the connection at once while the sender charges only what it
//     sends, so other streams overdraw MAX_DATA later ("STREAM frames beyond the peer's MAX_DATA: the
//     final size of a RESET_STREAM_AT covers ..."); and a STOP_SENDING that follows makes
//     handleStopSendingFrame announce FinalSize = writeOffset, a smaller final size ("final size
//     changed: a RESET_STREAM_AT announced the unsent reliable size ...").
//  2. A Write that is blocked because nextFrame + its data exceed the buffer is woken by CancelWrite /
//     STOP_SENDING after returnFramesToPool emptied nextFrame: the loop in write() checks
//     canBufferStreamFrame before resetErr, copies the data into a new nextFrame and returns success.
//     isNewlyCompleted then refuses for good (nextFrame holds data): onStreamCompleted never comes.
//  3. CancelWrite / OnLost cut a frame that waits for retransmission down to the reliable size and
//     leave its FIN bit set: FIN at the reliable size after a FIN / RESET_STREAM_AT with the real
//     final size.
//  4. enableResetStreamAt (transport parameters of an accepted 0-RTT session) after a CancelWrite that
//     ignored a reliable boundary: reliableOffset() changes under the reset in progress
//     (numOutStandingFrames negative panic, reset acknowledgement ignored, data after RESET_STREAM).
//  5. framer.Handle0RTTRejection keeps streamsWithControlFrames: a reset queued before the rejection
//     is sent after it.
//
// Tolerated: a Write in progress when the stream is reset may return success (see 2; the data is
// dropped); the data-less FIN frame ignores the size it is offered (at most 18 bytes; the framer never
// offers less than 128).

import (
	"bytes"
	"context"
	"errors"
	"fmt"
	"os"
	"runtime/debug"
	"testing"
	"testing/synctest"
	"time"

	"github.com/refraction-networking/uquic/internal/ackhandler"
	"github.com/refraction-networking/uquic/internal/flowcontrol"
	"github.com/refraction-networking/uquic/internal/monotime"
	"github.com/refraction-networking/uquic/internal/protocol"
	"github.com/refraction-networking/uquic/internal/qerr"
	"github.com/refraction-networking/uquic/internal/utils"
	"github.com/refraction-networking/uquic/internal/wire"
	"github.com/refraction-networking/uquic/quicvarint"
)

func init() { KRegister(sstSim()) }

// ---------------------------------------------------------------- scenario

type sstOp struct {
	K string `json:"k"`
	S int64  `json:"s,omitempty"` // stream selector (modulo the number of streams)
	A int64  `json:"a,omitempty"`
	B int64  `json:"b,omitempty"`
	F bool   `json:"f,omitempty"`
	// K == "new": the history so far is completed and a new, independent one starts
	N *sstSub `json:"n,omitempty"`
}

// sstSub: the parameters of one history.
type sstSub struct {
	CSeed   uint64 `json:"cseed"`
	Faulty  bool   `json:"faulty"`   // scenario class
	Framer  bool   `json:"framer"`   // real framer instead of the model packer
	NStr    int    `json:"nstr"`     // number of streams
	SWin    int64  `json:"swin"`     // initial MAX_STREAM_DATA of even-numbered streams
	SWinAlt int64  `json:"swin_alt"` // ... of odd-numbered streams
	CWin    int64  `json:"cwin"`     // initial MAX_DATA
	RSA     int    `json:"rsa"`      // RESET_STREAM_AT: 0 unsupported by the peer, 1 supported, 2 enabled by op "tp"
	ZeroRTT bool   `json:"zero_rtt"` // the history starts on 0-RTT keys: "tp" (accepted) / "reject"
}

type sstScenario struct {
	Seed uint64 `json:"seed"`
	sstSub
	Ops []sstOp `json:"ops"`
}

func (s *sstScenario) KSeed() uint64 { return s.Seed }

const (
	sstPoison   = 0xEE
	sstVersion  = protocol.Version1
	sstMaxWrite = 20000
	sstMaxTotal = 150000 // bytes per stream and history
	sstBatch    = 8
	// the packer never has more room than a packet buffer (the pool frames are of that capacity)
	sstMaxBudget = int(protocol.MaxPacketBufferSize)
)

// byte states of the wire model
const (
	sstUnsent    = 0
	sstInflight  = 1
	sstLost      = 2 // declared lost, a retransmission is owed
	sstAcked     = 3
	sstAbandoned = 4 // declared lost or never sent, and the stream was reset: no retransmission is owed
)

const (
	sstFinNone = iota
	sstFinInflight
	sstFinLost
	sstFinAcked
)

var sstErrShutdown = errors.New("sst: connection closed")

// enableResetStreamAt (transport parameters of an accepted 0-RTT session) on a stream that was
// cancelled before, with a reliable boundary set that CancelWrite ignored: reliableOffset() changes
// under the reset that is in progress. Whatever the stream does wrong afterwards is in the detail.
const sstLateRSASig = "RESET_STREAM_AT support enabled after CancelWrite had ignored the reliable boundary: the stream's reset state becomes inconsistent"

func sstSim() *KSim {
	return &KSim{
		Name:  "sendstream",
		New:   func() KScenario { return &sstScenario{} },
		Gen:   sstGen,
		Run:   sstRun,
		Sweep: sstSweep,
	}
}

func sstRun(t *testing.T, ksc KScenario, res *KResult) {
	sc := ksc.(*sstScenario)
	monotime.VerifSetStart(time.Now().Add(-time.Hour))
	t0 := time.Now()
	cur := &sc.sstSub
	start := 0
	// Defects of the unchanged tree that have their own signature end the history they occur in, but
	// not the run: the remaining histories of the batch are still judged, and anything else they
	// find takes precedence. If nothing else fails, the run fails with the first deferred signature.
	var defSig, defDetail string
	for i := 0; i <= len(sc.Ops) && !res.Failed(); i++ {
		if i < len(sc.Ops) && !(sc.Ops[i].K == "new" && sc.Ops[i].N != nil) {
			continue
		}
		sig, detail := sstRunOne(cur, sc.Ops[start:i], res)
		if sig != "" && defSig == "" {
			defSig, defDetail = sig, detail
		}
		if i < len(sc.Ops) {
			cur, start = sc.Ops[i].N, i+1
		}
	}
	if defSig != "" {
		res.Fail(defSig, "%s", defDetail)
	}
	res.SimNS = int64(time.Since(t0))
	res.TraceU(uint64(res.SimNS))
}

// ---------------------------------------------------------------- generation

type sstGenT struct {
	sstSub
	Ops []sstOp
}

func (out *sstScenario) add(sc *sstGenT) {
	if out.NStr == 0 && len(out.Ops) == 0 {
		out.sstSub = sc.sstSub
	} else {
		sub := sc.sstSub
		out.Ops = append(out.Ops, sstOp{K: "new", N: &sub})
	}
	out.Ops = append(out.Ops, sc.Ops...)
}

func sstGen(seed uint64, tier string) KScenario {
	out := &sstScenario{Seed: seed}
	for i := 0; i < sstBatch; i++ {
		hs := KMix(seed, uint64(i), 0x5357)
		out.add(sstGenOne(NewKRng(hs), hs, tier))
	}
	return out
}

var sstWriteSizes = []int{0, 1, 1, 2, 10, 50, 63, 64, 100, 127, 128, 300, 500, 1000, 1200, 1451, 1452, 1453, 2000, 3000, 5000, 10000}
var sstBudgetsFramer = []int{1, 20, 26, 27, 40, 127, 128, 129, 130, 131, 140, 200, 300, 600, 1000, 1200, 1252, 1452}
var sstBudgetsDirect = []int{1, 2, 3, 4, 5, 6, 7, 8, 10, 20, 40, 64, 65, 66, 67, 100, 128, 300, 1200, 1452}

func sstGenOne(r *KRng, cseed uint64, tier string) *sstGenT {
	sc := &sstGenT{}
	sc.CSeed = cseed
	sc.Faulty = r.P(0.65)
	sc.Framer = r.Bool()
	sc.NStr = r.Pick(1, 1, 2, 2, 3, 4, 6)
	sc.SWin = int64(r.Pick(0, 1, 5, 30, 100, 300, 1000, 1452, 3000, 10000, 100000))
	sc.SWinAlt = sc.SWin
	if r.P(0.4) {
		sc.SWinAlt = int64(r.Pick(0, 1, 64, 500, 2000, 100000))
	}
	sc.CWin = int64(r.Pick(0, 1, 50, 500, 2000, 5000, 20000, 1<<20, 1<<20))
	sc.RSA = r.Pick(0, 1, 1, 1, 2)
	sc.ZeroRTT = r.P(0.2)
	if sc.RSA == 2 {
		sc.ZeroRTT = true
	}
	n := r.Range(4, 50)
	if tier == "thorough" && r.P(0.3) {
		n = r.Range(50, 200)
	}
	budget := func() int64 {
		if r.P(0.25) {
			return int64(r.Range(1, sstMaxBudget))
		}
		if sc.Framer {
			return int64(sstBudgetsFramer[r.N(len(sstBudgetsFramer))])
		}
		return int64(sstBudgetsDirect[r.N(len(sstBudgetsDirect))])
	}
	for i := 0; i < n; i++ {
		s := int64(r.N(sc.NStr))
		var op sstOp
		x := r.N(100)
		if !sc.Faulty && x >= 78 {
			x = r.N(78)
		}
		switch {
		case x < 20:
			op = sstOp{K: "w", S: s, A: int64(sstWriteSizes[r.N(len(sstWriteSizes))])}
		case x < 24:
			op = sstOp{K: "c", S: s}
		case x < 46:
			op = sstOp{K: "pop", A: budget(), B: int64(r.Pick(0, 0, 0, 1, 2))}
		case x < 58:
			op = sstOp{K: "ack", A: int64(r.Pick(0, 0, 0, 1, 2, 5, 11))}
		case x < 61:
			op = sstOp{K: "dlv", A: int64(r.Pick(0, 1, 3))}
		case x < 68:
			op = sstOp{K: "msd", S: s, A: 0, B: int64(r.Pick(1, 2, 5, 10, 64, 100, 200, 1000, 1452, 5000))}
		case x < 72:
			op = sstOp{K: "md", A: 0, B: int64(r.Pick(1, 3, 10, 100, 500, 1452, 5000, 50000))}
		case x < 74:
			op = sstOp{K: "dl", S: s, A: int64(r.Pick(-5, 0, 1, 10, 50, 1000))}
		case x < 76:
			op = sstOp{K: "tick", A: int64(r.Pick(1, 5, 10, 60))}
		case x < 77:
			op = sstOp{K: "rel", S: s}
		case x < 78:
			op = sstOp{K: "tp", A: int64(r.Pick(0, 100, 5000)), B: int64(r.Pick(0, 1000, 100000))}
		// ---- faulty class only
		case x < 86:
			op = sstOp{K: "lose", A: int64(r.Pick(0, 0, 1, 2, 5)), F: r.P(0.3)}
		case x < 89:
			op = sstOp{K: "msd", S: s, A: int64(r.Pick(1, 2)), B: int64(r.Pick(0, 1, 10, 1000))}
		case x < 91:
			op = sstOp{K: "md", A: int64(r.Pick(1, 2)), B: int64(r.Pick(0, 1, 10, 1000))}
		case x < 93:
			op = sstOp{K: "stop", S: s, A: int64(r.Pick(0, 3, 1<<33))}
		case x < 97:
			op = sstOp{K: "cancel", S: s, A: int64(r.Pick(0, 7, 1<<40)), F: r.P(0.6)}
		case x < 98:
			op = sstOp{K: "rel", S: s}
		case x < 99:
			if sc.ZeroRTT {
				op = sstOp{K: "reject", A: int64(r.Pick(0, 50, 1000, 100000)), B: int64(r.Pick(0, 500, 1<<20))}
			} else {
				op = sstOp{K: "lose", A: int64(r.N(8)), F: r.Bool()}
			}
		default:
			if r.P(0.5) {
				op = sstOp{K: "shutdown"}
			} else {
				op = sstOp{K: "pop", A: budget()}
			}
		}
		sc.Ops = append(sc.Ops, op)
	}
	return sc
}

// ---- bounded sweep: every sequence of up to 6 (quick: 5) symbols of an 11-letter alphabet
// {write 50, write 1420, pop small, pop large, lose oldest, ack oldest, MAX_STREAM_DATA +700,
// SetReliableBoundary, CancelWrite, Close, STOP_SENDING} on one stream whose peer supports
// RESET_STREAM_AT, for {model packer, real framer} x {initial MAX_STREAM_DATA 30, 2500}.

const sstSweepBatch = 16

var sstSweepAlphabet = 11

func sstSweepSym(sym int, framer bool) sstOp {
	switch sym {
	case 0:
		return sstOp{K: "w", A: 50}
	case 1:
		return sstOp{K: "w", A: 1420} // fits the stream's buffer alone, blocks behind 50 buffered bytes
	case 2:
		if framer {
			return sstOp{K: "pop", A: 140}
		}
		return sstOp{K: "pop", A: 20}
	case 3:
		return sstOp{K: "pop", A: 1300}
	case 4:
		return sstOp{K: "lose", A: 0}
	case 5:
		return sstOp{K: "ack", A: 0}
	case 6:
		return sstOp{K: "msd", A: 0, B: 700}
	case 7:
		return sstOp{K: "rel"}
	case 8:
		return sstOp{K: "cancel", A: 7}
	case 9:
		return sstOp{K: "c"}
	default:
		return sstOp{K: "stop", A: 3}
	}
}

func sstSweepCount(maxLen int) int {
	n, p := 0, 1
	for l := 1; l <= maxLen; l++ {
		p *= sstSweepAlphabet
		n += p
	}
	return n
}

func sstSweepSeq(k int) []int {
	p := sstSweepAlphabet
	l := 1
	for k >= p {
		k -= p
		p *= sstSweepAlphabet
		l++
	}
	seq := make([]int, l)
	for i := l - 1; i >= 0; i-- {
		seq[i] = k % sstSweepAlphabet
		k /= sstSweepAlphabet
	}
	return seq
}

func sstSweep(idx int, tier string) KScenario {
	maxLen := 5
	if tier == "thorough" {
		maxLen = 6
	}
	per := sstSweepCount(maxLen)
	total := 4 * per
	first := idx * sstSweepBatch
	if first >= total {
		return nil
	}
	out := &sstScenario{Seed: KMix(0x5357eeb, uint64(idx))}
	for k := first; k < first+sstSweepBatch && k < total; k++ {
		cfg, seq := k/per, sstSweepSeq(k%per)
		sc := &sstGenT{}
		sc.CSeed = KMix(0x5357, uint64(k))
		sc.Faulty = true
		sc.Framer = cfg&1 == 1
		sc.NStr = 1
		sc.RSA = 1
		sc.CWin = 1 << 20
		sc.SWin = 30
		if cfg&2 == 2 {
			sc.SWin = 2500
		}
		sc.SWinAlt = sc.SWin
		for _, sym := range seq {
			sc.Ops = append(sc.Ops, sstSweepSym(sym, sc.Framer))
		}
		out.add(sc)
	}
	return out
}

// ---------------------------------------------------------------- model state

type sstContent struct {
	x uint64
	b []byte
}

func (c *sstContent) ensure(n int) {
	for len(c.b) < n {
		c.x ^= c.x << 13
		c.x ^= c.x >> 7
		c.x ^= c.x << 17
		v := byte(c.x >> 24)
		if v == sstPoison {
			v = 0x11
		}
		c.b = append(c.b, v)
	}
}

const (
	sstReqWrite = 0
	sstReqClose = 1
)

type sstReq struct {
	kind int
	n    int
	buf  []byte
}

type sstRes struct {
	st    *sstStr
	kind  int
	n     int
	err   error
	pan   string
	stack string
}

// sstOut: one frame handed out by the sender and not yet acknowledged or lost.
type sstOut struct {
	reset     bool
	st        *sstStr
	off, n    int
	fin       bool
	data      []byte
	gen       int // reset frames: generation of the reset
	frame     wire.Frame
	handler   ackhandler.FrameHandler
	delivered bool
}

type sstStr struct {
	h       *sstHist
	idx     int
	id      protocol.StreamID
	str     *SendStream
	content sstContent
	dead    bool // belongs to a generation that was discarded by a 0-RTT rejection

	// application
	reqCh     chan sstReq
	queue     []sstReq
	pending   bool
	pendKind  int
	pendLen   int
	pendBuf   []byte
	pendFail  string // the reason why the call had to fail when it was issued
	submitted int    // bytes accepted by the Write calls that have returned
	queuedLen int    // bytes of queued (not yet issued) writes
	closeQ    bool   // a Close is queued or done
	closeDone bool
	finalSize int
	shutdown  bool
	dlSet     bool
	dl        time.Time
	rsa       bool // the stream has been told that the peer supports RESET_STREAM_AT
	relSet    bool
	relLo     int // bounds of the reliable size of the last SetReliableBoundary
	relHi     int

	cancelLocal bool
	stopped     bool
	resetFirst  string // "", "local", "remote"
	resetCode   uint64
	relSize     int // reliable size in force after the reset
	relExact    bool
	resetGen    int
	sentAtReset int
	resetState  int // of the current generation: sstFin* constants reused (none / inflight / lost / acked)
	completed   int

	// wire
	limit      int
	sentHi     int
	state      []byte
	finState   int
	announced  int // first final size put on the wire, -1: none
	announcedK string
	sdbSeen    []int // STREAM_DATA_BLOCKED values reported
	blockedAt  []int // limits at which the stream has been observed blocked

	// peer
	peer     []byte
	peerHave []bool
	peerFin  int

	// model packer
	active  bool
	hasCtrl bool

	lateRSA            bool // enableResetStreamAt after a CancelWrite that had a reliable boundary
	bufferedAfterReset bool // a Write in progress when the stream was reset returned success afterwards
}

type sstHist struct {
	sub *sstSub
	ops []sstOp
	res *KResult

	gen  int
	strs []*sstStr
	old  []*sstStr
	cfc  flowcontrol.ConnectionFlowController
	rtt  *utils.RTTStats
	fr   *framer
	snd  *sstSender

	resCh     chan sstRes
	out       []*sstOut
	outSet    map[wire.Frame]bool
	connLimit int
	dbSeen    []int
	connBlk   []int
	queue     []*sstStr    // model packer: active streams
	pendCtrl  []wire.Frame // model packer: *_BLOCKED frames that did not fit
	wbuf      []byte
	tpDone    bool
	ended     bool
	healing   bool
	npop      int
	nframes   int
	defSig    string // deferred failure (a defect of the unchanged tree with its own signature)
	defDetail string
	tinyFin   bool // model packer: the packet in the making overshoots because of a data-less FIN frame
}

type sstSender struct{ h *sstHist }

func (s *sstSender) onHasConnectionData() {}

func (s *sstSender) onHasStreamData(id protocol.StreamID, str *SendStream) {
	h := s.h
	st := h.byID(id)
	if st == nil || st.dead {
		return
	}
	if h.fr != nil {
		h.fr.AddActiveStream(id, str)
		return
	}
	if !st.active {
		st.active = true
		h.queue = append(h.queue, st)
	}
}

func (s *sstSender) onHasStreamControlFrame(id protocol.StreamID, str streamControlFrameGetter) {
	h := s.h
	st := h.byID(id)
	if st == nil || st.dead {
		return
	}
	if h.fr != nil {
		h.fr.AddStreamWithControlFrames(id, str)
		return
	}
	st.hasCtrl = true
}

func (s *sstSender) onStreamCompleted(id protocol.StreamID) {
	h := s.h
	st := h.byID(id)
	if st == nil {
		return
	}
	st.completed++
	if st.dead {
		return
	}
	h.res.Probe("completed")
	if h.fr != nil {
		h.fr.RemoveActiveStream(id)
	} else {
		st.active = false
	}
	if st.completed > 1 {
		st.fail("stream completion reported twice", "stream %d", id)
		return
	}
	if st.resetFirst != "" {
		if st.resetState != sstFinAcked {
			st.fail("stream completion reported while the RESET_STREAM frame is unacknowledged", "stream %d gen=%d state=%d", id, st.resetGen, st.resetState)
			return
		}
		if b := st.firstNot(st.relSize, sstAcked); b >= 0 {
			st.fail("stream completion reported while reliable stream data is unacknowledged", "stream %d byte %d (state %d) reliable size %d", id, b, st.state[b], st.relSize)
		}
		return
	}
	if !st.closeDone {
		st.fail("stream completion reported although the stream was neither closed nor reset", "stream %d", id)
		return
	}
	if st.finState != sstFinAcked {
		st.fail("stream completion reported while the FIN is unacknowledged", "stream %d fin state %d", id, st.finState)
		return
	}
	if b := st.firstNot(st.finalSize, sstAcked); b >= 0 {
		st.fail("stream completion reported while stream data is unacknowledged", "stream %d byte %d (state %d) final size %d", id, b, st.state[b], st.finalSize)
	}
}

func (h *sstHist) byID(id protocol.StreamID) *sstStr {
	for _, st := range h.strs {
		if st.id == id {
			return st
		}
	}
	for _, st := range h.old {
		if st.id == id {
			return st
		}
	}
	return nil
}

// firstNot returns the first offset below n whose state differs from want, or -1.
func (st *sstStr) firstNot(n int, want byte) int {
	st.ensure(n)
	for i := 0; i < n; i++ {
		if st.state[i] != want {
			return i
		}
	}
	return -1
}

// fail reports a violation on this stream. Two defects of the unchanged tree change what the
// stream does afterwards; what follows from them carries their signature and is deferred (see sstRun).
func (st *sstStr) fail(sig, format string, a ...any) {
	switch {
	case st.lateRSA:
		st.h.known(sstLateRSASig, "%s: %s", sig, fmt.Sprintf(format, a...))
	case st.bufferedAfterReset && sig == "liveness: stream completion never reported":
		st.h.known("liveness: stream completion never reported: a Write that was blocked when the stream was reset buffered its data afterwards", format, a...)
	default:
		st.h.res.Fail(sig, format, a...)
	}
}

func (st *sstStr) ensure(n int) {
	st.content.ensure(n)
	for len(st.state) < n {
		st.state = append(st.state, sstUnsent)
		st.peer = append(st.peer, 0)
		st.peerHave = append(st.peerHave, false)
	}
}

func sstHas(l []int, v int) bool {
	for _, x := range l {
		if x == v {
			return true
		}
	}
	return false
}

// ---------------------------------------------------------------- one history

// known records a defect of the unchanged tree that has its own signature, and ends the history.
func (h *sstHist) known(sig, format string, a ...any) {
	if h.defSig == "" && !h.res.Failed() {
		h.defSig, h.defDetail = sig, fmt.Sprintf(format, a...)
		h.res.Logf("  !! %s: %s", sig, h.defDetail)
	}
	h.ended = true
}

func (h *sstHist) stopped() bool { return h.res.Failed() || h.ended }

func sstRunOne(sub *sstSub, ops []sstOp, res *KResult) (defSig, defDetail string) {
	h := &sstHist{sub: sub, ops: ops, res: res}
	defer func() { defSig, defDetail = h.defSig, h.defDetail }()
	res.Probe("histories")
	if sub.Faulty {
		res.Probe("class-faulty")
	} else {
		res.Probe("class-clean")
	}
	if sub.Framer {
		res.Probe("mode-framer")
	} else {
		res.Probe("mode-direct")
	}
	res.Logf("=== history faulty=%v framer=%v nstr=%d swin=%d/%d cwin=%d rsa=%d zero_rtt=%v", sub.Faulty, sub.Framer, sub.NStr, sub.SWin, sub.SWinAlt, sub.CWin, sub.RSA, sub.ZeroRTT)
	res.Shape(fmt.Sprintf("new%v%v", sub.Faulty, sub.Framer))
	h.init()
	defer h.teardown()
	func() {
		defer func() {
			if p := recover(); p != nil {
				sig, late := "panic: "+ksanitize(fmt.Sprint(p)), false
				for _, st := range h.strs {
					late = late || st.lateRSA
				}
				if late {
					h.known(sstLateRSASig, "%s: %v\n%s", sig, p, debug.Stack())
				} else {
					res.Fail(sig, "%v\n%s", p, debug.Stack())
				}
				h.forceUnlock()
			}
		}()
		for _, op := range ops {
			if h.stopped() {
				break
			}
			res.Events++
			h.exec(op)
			if !h.stopped() {
				h.settle()
			}
		}
		if !res.Failed() && !h.ended {
			h.heal()
		}
	}()
	for _, st := range h.strs {
		fl := uint64(0)
		for i, b := range []bool{st.closeDone, st.cancelLocal, st.stopped, st.shutdown, st.completed > 0, st.relExact} {
			if b {
				fl |= 1 << uint(i)
			}
		}
		res.TraceU(uint64(st.id), uint64(st.submitted), uint64(st.sentHi), uint64(st.limit), fl, uint64(st.relSize))
	}
	res.TraceU(uint64(h.connLimit), uint64(h.npop), uint64(h.nframes))
	return
}

func sstClamp(v, lo, hi int64) int {
	if v < lo {
		v = lo
	}
	if v > hi {
		v = hi
	}
	return int(v)
}

func (h *sstHist) init() {
	sub := h.sub
	h.resCh = make(chan sstRes, 64)
	h.outSet = map[wire.Frame]bool{}
	h.snd = &sstSender{h: h}
	h.rtt = utils.NewRTTStats()
	h.cfc = flowcontrol.NewConnectionFlowController(1<<20, 1<<20, func(protocol.ByteCount) bool { return true }, h.rtt, utils.DefaultLogger)
	if sub.Framer {
		h.fr = newFramer(h.cfc)
	}
	h.wbuf = make([]byte, 0, 4096)
	sstPoolFlush()
	h.connLimit = sstClamp(sub.CWin, 0, 1<<30)
	h.cfc.UpdateSendWindow(protocol.ByteCount(h.connLimit))
	h.newGeneration(sstClamp(sub.SWin, 0, 1<<30), sstClamp(sub.SWinAlt, 0, 1<<30), sub.RSA == 1)
}

// sstPoolFlush empties the STREAM frame pool, so that a history never starts with
// frames left behind by an earlier one.
func sstPoolFlush() {
	for i := 0; i < 100000; i++ {
		f := wire.GetStreamFrame()
		if len(f.Data) == 0 && f.StreamID == 0 && f.Offset == 0 && !f.Fin && !f.DataLenPresent {
			return
		}
	}
}

func (h *sstHist) newGeneration(swin, swinAlt int, rsa bool) {
	n := sstClamp(int64(h.sub.NStr), 1, 6)
	h.strs = nil
	for i := 0; i < n; i++ {
		id := protocol.StreamID(4 * (i + 1))
		if i%2 == 1 {
			id += 400 // two-byte stream ID
		}
		id += protocol.StreamID(40000 * h.gen)
		w := swin
		if i%2 == 1 {
			w = swinAlt
		}
		st := &sstStr{h: h, idx: i, id: id, limit: w, announced: -1, peerFin: -1, rsa: rsa}
		st.content.x = KMix(h.sub.CSeed, uint64(h.gen), uint64(i), 0xc0) | 1
		fc := flowcontrol.NewStreamFlowController(id, h.cfc, 1<<20, 1<<20, protocol.ByteCount(w), h.rtt, utils.DefaultLogger)
		st.str = newSendStream(context.Background(), id, h.snd, fc, rsa)
		st.reqCh = make(chan sstReq, 1)
		go func(st *sstStr) {
			for rq := range st.reqCh {
				rs := sstRes{st: st, kind: rq.kind}
				func() {
					defer func() {
						if p := recover(); p != nil {
							rs.pan, rs.stack = fmt.Sprint(p), string(debug.Stack())
						}
					}()
					if rq.kind == sstReqWrite {
						rs.n, rs.err = st.str.Write(rq.buf)
					} else {
						rs.err = st.str.Close()
					}
				}()
				h.resCh <- rs
			}
		}(st)
		h.strs = append(h.strs, st)
	}
}

func (h *sstHist) forceUnlock() {
	for _, l := range [][]*sstStr{h.strs, h.old} {
		for _, st := range l {
			st.str.mutex.TryLock()
			st.str.mutex.Unlock()
		}
	}
	if h.fr != nil {
		h.fr.mutex.TryLock()
		h.fr.mutex.Unlock()
		h.fr.controlFrameMutex.TryLock()
		h.fr.controlFrameMutex.Unlock()
	}
}

func (h *sstHist) teardown() {
	all := append(append([]*sstStr{}, h.old...), h.strs...)
	for _, st := range all {
		st.str.closeForShutdown(sstErrShutdown)
	}
	synctest.Wait()
	for {
		select {
		case rs := <-h.resCh:
			rs.st.pending = false
			continue
		default:
		}
		break
	}
	for _, st := range all {
		if st.pending && st.pendKind == sstReqWrite {
			h.res.Fail("blocked Write not released by the connection shutdown", "stream %d", st.id)
		}
		close(st.reqCh)
	}
	synctest.Wait()
	sstPoolFlush()
}

// ---------------------------------------------------------------- application side

func (st *sstStr) failReason() string {
	switch {
	case st.resetFirst != "":
		return "the stream was cancelled"
	case st.shutdown:
		return "the connection was shut down"
	case st.closeDone:
		return "the stream was closed"
	case st.dlSet && !time.Now().Before(st.dl):
		return "the write deadline has passed"
	}
	return ""
}

func (h *sstHist) issue(st *sstStr) {
	rq := st.queue[0]
	st.queue = st.queue[1:]
	st.pending, st.pendKind, st.pendLen, st.pendBuf, st.pendFail = true, rq.kind, 0, nil, ""
	if rq.kind == sstReqWrite {
		st.queuedLen -= rq.n
		st.ensure(st.submitted + rq.n)
		rq.buf = append([]byte(nil), st.content.b[st.submitted:st.submitted+rq.n]...)
		st.pendLen, st.pendBuf = rq.n, rq.buf
		st.pendFail = st.failReason()
		h.res.Logf("  Write(%d bytes) on stream %d at offset %d", rq.n, st.id, st.submitted)
	} else {
		h.res.Logf("  Close() on stream %d at offset %d", st.id, st.submitted)
	}
	st.reqCh <- rq
}

func (h *sstHist) settle() {
	for iter := 0; iter < 100000; iter++ {
		synctest.Wait()
		progress := false
		for {
			select {
			case rs := <-h.resCh:
				h.onResult(rs)
				progress = true
				continue
			default:
			}
			break
		}
		if h.stopped() {
			return
		}
		for _, st := range h.strs {
			if !st.pending && len(st.queue) > 0 {
				h.issue(st)
				progress = true
			}
		}
		if !progress {
			break
		}
	}
	for _, st := range h.strs {
		if !st.pending || st.pendKind != sstReqWrite {
			continue
		}
		h.res.Probe("write-blocked")
		var why string
		switch {
		case st.resetFirst != "":
			why = "the stream was cancelled"
		case st.shutdown:
			why = "the connection was shut down"
		case st.dlSet && !time.Now().Before(st.dl):
			why = "the write deadline has passed"
		}
		if why != "" {
			h.res.Fail("Write stays blocked although "+why, "stream %d write of %d bytes at %d", st.id, st.pendLen, st.submitted)
			return
		}
	}
}

const (
	sstErrNone = iota
	sstErrReset
	sstErrDeadline
	sstErrShutdownK
	sstErrOther
)

func (h *sstHist) onResult(rs sstRes) {
	st := rs.st
	st.pending = false
	if rs.pan != "" {
		h.res.Fail("panic: "+ksanitize(rs.pan), "%s\n%s", rs.pan, rs.stack)
		h.forceUnlock()
		return
	}
	if st.dead {
		return
	}
	if rs.kind == sstReqClose {
		h.res.Logf("  Close() on stream %d returned %v", st.id, rs.err)
		h.res.Probe("close-returned")
		if !st.closeDone && !st.shutdown {
			st.closeDone = true
			st.finalSize = st.submitted
			if st.resetFirst != "" {
				h.res.Probe("close-after-reset")
			}
		}
		h.res.TraceU(uint64(st.id), 0xc105e)
		return
	}
	// the caller may reuse its buffer now
	for i := range st.pendBuf {
		st.pendBuf[i] = sstPoison
	}
	n, err := rs.n, rs.err
	h.res.Logf("  Write(%d bytes) on stream %d returned %d, %v", st.pendLen, st.id, n, err)
	kind := sstErrNone
	var se *StreamError
	switch {
	case err == nil:
	case errors.As(err, &se):
		kind = sstErrReset
	case errors.Is(err, os.ErrDeadlineExceeded):
		kind = sstErrDeadline
	case errors.Is(err, sstErrShutdown) || errors.Is(err, Err0RTTRejected):
		kind = sstErrShutdownK
	default:
		kind = sstErrOther
	}
	h.res.TraceU(uint64(st.id), uint64(n), uint64(kind))
	if n < 0 || n > st.pendLen {
		h.res.Fail("Write returned an impossible byte count", "stream %d: %d of %d", st.id, n, st.pendLen)
		return
	}
	if err == nil {
		if n != st.pendLen {
			h.res.Fail("Write returned fewer bytes than it was given, without an error", "stream %d: %d of %d", st.id, n, st.pendLen)
			return
		}
		if st.pendFail != "" {
			h.res.Fail("Write succeeded although "+st.pendFail, "stream %d: %d bytes at %d", st.id, n, st.submitted)
			return
		}
		if st.shutdown && n > 0 {
			// (C17) the call was blocked when the connection was shut down: it has to return the connection's error, not
			// success for bytes that can never be sent
			h.res.Fail("Write that was blocked when the connection was shut down returned success instead of the connection's error", "stream %d: %d bytes at %d", st.id, n, st.submitted)
			return
		}
		h.res.Probe("write-ok")
		if st.resetFirst != "" && n > 0 {
			// the call was in progress when the stream was reset: it may report success (the data is discarded)
			st.bufferedAfterReset = true
			h.res.Probe("write-ok-across-reset")
		}
	} else {
		valid := false
		switch kind {
		case sstErrReset:
			valid = st.resetFirst != ""
			if valid && (se.Remote != (st.resetFirst == "remote") || uint64(se.ErrorCode) != st.resetCode || se.StreamID != st.id) {
				h.res.Fail("Write returned a StreamError that does not describe the cancellation", "stream %d: got %+v, cancelled first %s with code %d", st.id, *se, st.resetFirst, st.resetCode)
				return
			}
			h.res.Probe("write-err-reset")
		case sstErrDeadline:
			valid = st.dlSet && !time.Now().Before(st.dl)
			h.res.Probe("write-err-deadline")
		case sstErrShutdownK:
			valid = st.shutdown
			h.res.Probe("write-err-shutdown")
		default:
			valid = st.closeDone
			h.res.Probe("write-err-closed")
		}
		if !valid {
			h.res.Fail("Write failed although the stream was not cancelled, closed, shut down or past its deadline", "stream %d: %d, %v", st.id, n, err)
			return
		}
		if st.pendFail != "" && n != 0 {
			h.res.Fail("Write accepted bytes although "+st.pendFail, "stream %d: %d, %v", st.id, n, err)
			return
		}
		if n > 0 {
			h.res.Probe("write-partial")
		}
	}
	st.submitted += n
	if st.sentHi > st.submitted {
		h.res.Fail("Write reported fewer accepted bytes than the stream had already sent", "stream %d: accepted %d, sent %d", st.id, st.submitted, st.sentHi)
	}
}

// ---------------------------------------------------------------- wire decoding (independent of internal/wire)

type sstWire struct {
	typ    uint64
	sid    uint64
	off    uint64
	data   []byte
	fin    bool
	hasLen bool
	code   uint64
	final  uint64
	rel    uint64
	max    uint64
}

// sstDecode parses a packet payload consisting of the frames a send stream and the
// framer may emit: STREAM (0x08-0x0f: 0x04 OFF, 0x02 LEN, 0x01 FIN), RESET_STREAM
// (0x04), RESET_STREAM_AT (0x24), DATA_BLOCKED (0x14), STREAM_DATA_BLOCKED (0x15).
func sstDecode(b []byte) ([]sstWire, error) {
	var out []sstWire
	vi := func() (uint64, error) {
		v, l, err := quicvarint.Parse(b)
		if err != nil {
			return 0, err
		}
		b = b[l:]
		return v, nil
	}
	for len(b) > 0 {
		t, err := vi()
		if err != nil {
			return out, err
		}
		w := sstWire{typ: t}
		switch {
		case t >= 0x08 && t <= 0x0f:
			if w.sid, err = vi(); err != nil {
				return out, err
			}
			if t&0x04 != 0 {
				if w.off, err = vi(); err != nil {
					return out, err
				}
			}
			l := uint64(len(b))
			if t&0x02 != 0 {
				w.hasLen = true
				if l, err = vi(); err != nil {
					return out, err
				}
				if l > uint64(len(b)) {
					return out, errors.New("STREAM length beyond the payload")
				}
			}
			w.data, b = b[:l], b[l:]
			w.fin = t&0x01 != 0
		case t == 0x04 || t == 0x24:
			if w.sid, err = vi(); err != nil {
				return out, err
			}
			if w.code, err = vi(); err != nil {
				return out, err
			}
			if w.final, err = vi(); err != nil {
				return out, err
			}
			if t == 0x24 {
				if w.rel, err = vi(); err != nil {
					return out, err
				}
			}
		case t == 0x14:
			if w.max, err = vi(); err != nil {
				return out, err
			}
		case t == 0x15:
			if w.sid, err = vi(); err != nil {
				return out, err
			}
			if w.max, err = vi(); err != nil {
				return out, err
			}
		default:
			return out, fmt.Errorf("unexpected frame type %#x", t)
		}
		out = append(out, w)
	}
	return out, nil
}

// ---------------------------------------------------------------- packer

func (h *sstHist) pop(budget, maxFrames int) int {
	if budget < 1 {
		budget = 1
	}
	if budget > sstMaxBudget {
		budget = sstMaxBudget
	}
	h.npop++
	var frames []ackhandler.Frame
	var sfs []ackhandler.StreamFrame
	var l protocol.ByteCount
	if h.fr != nil {
		frames, sfs, l = h.fr.Append(nil, nil, protocol.ByteCount(budget), monotime.Now(), sstVersion)
	} else {
		frames, sfs, l = h.popDirect(budget, maxFrames)
	}
	if h.stopped() {
		return 0
	}
	h.res.Logf("  pop budget=%d -> %d control, %d STREAM frames, %d bytes", budget, len(frames), len(sfs), l)
	h.packet(frames, sfs, budget, l)
	return len(frames) + len(sfs)
}

// popDirect assembles one packet the way framer.Append does, but without a lower
// bound on the space offered to a stream.
func (h *sstHist) popDirect(budget, maxFrames int) ([]ackhandler.Frame, []ackhandler.StreamFrame, protocol.ByteCount) {
	var frames []ackhandler.Frame
	var sfs []ackhandler.StreamFrame
	remaining := protocol.ByteCount(budget)
	now := monotime.Now()
	h.tinyFin = false
	for _, st := range h.strs {
		if !st.hasCtrl || remaining < 40 {
			continue
		}
		fr, ok, hasMore := st.str.getControlFrame(now)
		if !hasMore {
			st.hasCtrl = false
		}
		if ok {
			frames = append(frames, fr)
			remaining -= fr.Frame.Length(sstVersion)
		}
	}
	for len(h.pendCtrl) > 0 {
		f := h.pendCtrl[len(h.pendCtrl)-1]
		if f.Length(sstVersion) > remaining {
			break
		}
		frames = append(frames, ackhandler.Frame{Frame: f})
		remaining -= f.Length(sstVersion)
		h.pendCtrl = h.pendCtrl[:len(h.pendCtrl)-1]
	}
	n := len(h.queue)
	for i := 0; i < n && remaining >= 1 && (maxFrames <= 0 || len(sfs) < maxFrames); i++ {
		st := h.queue[0]
		h.queue = h.queue[1:]
		if !st.active || st.dead {
			continue
		}
		f, blocked, hasMore := st.str.popStreamFrame(remaining, sstVersion)
		if hasMore {
			h.queue = append(h.queue, st)
		} else {
			st.active = false
		}
		if f.Frame != nil {
			fl := f.Frame.Length(sstVersion)
			if fl > remaining && len(f.Frame.Data) == 0 && f.Frame.Fin && remaining < protocol.MinStreamFrameSize {
				// popStreamFrame hands out the data-less FIN frame whatever size it is offered (at most
				// 18 bytes). The framer never offers less than 128 bytes, so this is the model
				// packer's problem: it closes the packet here.
				h.res.Probe("fin-only-frame-exceeds-tiny-offer")
				h.tinyFin = true
				sfs = append(sfs, f)
				remaining = 0
				break
			}
			if fl > remaining {
				h.res.Fail("popStreamFrame returned a frame larger than the size it was offered", "stream %d offered %d frame length %d (offset %d, %d bytes)", st.id, remaining, fl, f.Frame.Offset, len(f.Frame.Data))
				return nil, nil, 0
			}
			sfs = append(sfs, f)
			remaining -= fl
		} else {
			h.res.Probe("pop-stream-nil")
			if hasMore {
				h.res.Probe("pop-stream-nil-hasmore")
			}
		}
		if blocked != nil {
			bl := blocked.Length(sstVersion)
			if remaining < bl {
				h.pendCtrl = append(h.pendCtrl, blocked)
				break
			}
			frames = append(frames, ackhandler.Frame{Frame: blocked})
			remaining -= bl
		}
	}
	if isBlocked, off := h.cfc.IsNewlyBlocked(); isBlocked {
		f := &wire.DataBlockedFrame{MaximumData: off}
		if remaining >= f.Length(sstVersion) {
			frames = append(frames, ackhandler.Frame{Frame: f})
			remaining -= f.Length(sstVersion)
		} else {
			h.pendCtrl = append(h.pendCtrl, f)
		}
	}
	if len(sfs) > 0 {
		sfs[len(sfs)-1].Frame.DataLenPresent = false
	}
	var l protocol.ByteCount
	for _, f := range frames {
		l += f.Frame.Length(sstVersion)
	}
	for _, f := range sfs {
		l += f.Frame.Length(sstVersion)
	}
	return frames, sfs, l
}

// packet serialises what was handed out for one packet, decodes it and judges it.
func (h *sstHist) packet(frames []ackhandler.Frame, sfs []ackhandler.StreamFrame, budget int, reported protocol.ByteCount) {
	res := h.res
	if len(frames)+len(sfs) == 0 {
		if reported != 0 {
			res.Fail("framer reports a payload length that differs from the serialized frames", "no frames, length %d", reported)
		}
		res.Probe("pop-empty")
		return
	}
	res.Probe("pop-nonempty")
	if budget < int(protocol.MinStreamFrameSize) {
		res.Probe("pop-small-budget-nonempty")
	}
	b := h.wbuf[:0]
	var err error
	for _, f := range frames {
		if b, err = f.Frame.Append(b, sstVersion); err != nil {
			res.Fail("a frame handed out cannot be serialized", "%T: %v", f.Frame, err)
			return
		}
	}
	for i, f := range sfs {
		if !f.Frame.DataLenPresent && i != len(sfs)-1 {
			res.Fail("STREAM frame without length field handed out before the last frame of a packet", "frame %d of %d: stream %d offset %d, %d bytes", i, len(sfs), f.Frame.StreamID, f.Frame.Offset, len(f.Frame.Data))
			return
		}
		if len(f.Frame.Data) == 0 && !f.Frame.Fin {
			res.Fail("empty STREAM frame without FIN handed out", "stream %d offset %d", f.Frame.StreamID, f.Frame.Offset)
			return
		}
		if b, err = f.Frame.Append(b, sstVersion); err != nil {
			res.Fail("a frame handed out cannot be serialized", "STREAM: %v", err)
			return
		}
	}
	h.wbuf = b[:0]
	if protocol.ByteCount(len(b)) != reported {
		res.Fail("framer reports a payload length that differs from the serialized frames", "reported %d, serialized %d", reported, len(b))
		return
	}
	if len(b) > budget && h.tinyFin {
		h.tinyFin = false
	} else if len(b) > budget {
		res.Fail("frames handed out exceed the size budget", "budget %d, payload %d (%d control, %d STREAM frames)", budget, len(b), len(frames), len(sfs))
		return
	}
	dec, err := sstDecode(b)
	if err != nil || len(dec) != len(frames)+len(sfs) {
		res.Fail("packet payload does not decode to the frames handed out", "decoded %d of %d frames, err=%v", len(dec), len(frames)+len(sfs), err)
		return
	}
	// STREAM frames first: the *_BLOCKED frames of a packet describe the state after them
	for i, f := range sfs {
		d := dec[len(frames)+i]
		if d.typ < 0x08 || d.typ > 0x0f || d.sid != uint64(f.Frame.StreamID) || d.off != uint64(f.Frame.Offset) || d.fin != f.Frame.Fin || !bytes.Equal(d.data, f.Frame.Data) {
			res.Fail("packet payload does not decode to the frames handed out", "STREAM frame %d: wire type %#x stream %d offset %d len %d fin %v", i, d.typ, d.sid, d.off, len(d.data), d.fin)
			return
		}
		h.onStreamFrame(f, d)
		if h.stopped() {
			return
		}
	}
	for i, f := range frames {
		d := dec[i]
		switch fr := f.Frame.(type) {
		case *wire.ResetStreamFrame:
			if (d.typ != 0x04 && d.typ != 0x24) || d.sid != uint64(fr.StreamID) {
				res.Fail("packet payload does not decode to the frames handed out", "RESET_STREAM: wire type %#x", d.typ)
				return
			}
			h.onResetFrame(f, d)
		case *wire.StreamDataBlockedFrame:
			if d.typ != 0x15 {
				res.Fail("packet payload does not decode to the frames handed out", "STREAM_DATA_BLOCKED: wire type %#x", d.typ)
				return
			}
			h.onStreamDataBlocked(d)
		case *wire.DataBlockedFrame:
			if d.typ != 0x14 {
				res.Fail("packet payload does not decode to the frames handed out", "DATA_BLOCKED: wire type %#x", d.typ)
				return
			}
			h.onDataBlocked(d)
		default:
			res.Fail("unexpected control frame handed out", "%T", f.Frame)
		}
		if h.stopped() {
			return
		}
	}
}

// connUsed: the connection-level credit the peer accounts for this sender.
func (h *sstHist) connUsed() int {
	n := 0
	for _, st := range h.strs {
		u := st.sentHi
		if st.announced > u {
			u = st.announced
		}
		n += u
	}
	return n
}

// unsentFinal: some stream has announced (RESET_STREAM_AT) a final size above what it has sent.
func (h *sstHist) unsentFinal() bool {
	for _, st := range h.strs {
		if st.announced > st.sentHi && st.announcedK == "RESET_STREAM_AT" {
			return true
		}
	}
	return false
}

func (h *sstHist) connSent() int {
	n := 0
	for _, st := range h.strs {
		n += st.sentHi
	}
	return n
}

func (st *sstStr) announce(v int, kind string) {
	if st.announced < 0 {
		st.announced, st.announcedK = v, kind
		return
	}
	if st.announced != v && st.announcedK == "RESET_STREAM_AT" && kind == "RESET_STREAM" && st.stopped && v < st.announced {
		// CancelWrite announced max(sent, reliable size); STOP_SENDING then announces the bytes sent
		st.h.known("final size changed: a RESET_STREAM_AT announced the unsent reliable size, the RESET_STREAM after STOP_SENDING announces the bytes sent", "stream %d: %d then %d (sent %d)", st.id, st.announced, v, st.sentHi)
		return
	}
	if st.announced != v {
		st.fail("final size changed: "+st.announcedK+" then "+kind, "stream %d: %d then %d (sent %d, reliable size %d)", st.id, st.announced, v, st.sentHi, st.relSize)
	}
}

func (h *sstHist) onStreamFrame(f ackhandler.StreamFrame, d sstWire) {
	res := h.res
	h.nframes++
	st := h.byID(protocol.StreamID(d.sid))
	if st == nil || st.dead {
		res.Fail("STREAM frame for a stream that does not exist", "stream %d", d.sid)
		return
	}
	off, n := int(d.off), len(d.data)
	res.Logf("    STREAM %d [%d,%d) fin=%v len-field=%v", st.id, off, off+n, d.fin, d.hasLen)
	res.TraceU(uint64(st.id), uint64(off), uint64(n), KHashS(fmt.Sprint(d.fin, d.hasLen)))
	if h.outSet[f.Frame] {
		res.Fail("a frame object is handed out again while it is still in flight", "stream %d [%d,%d)", st.id, off, off+n)
		return
	}
	if f.Handler == nil {
		res.Fail("STREAM frame handed out without an acknowledgement handler", "stream %d [%d,%d)", st.id, off, off+n)
		return
	}
	hi := st.submitted
	if st.pending && st.pendKind == sstReqWrite {
		hi += st.pendLen
	}
	if off+n > hi {
		res.Fail("STREAM frame carries bytes that no Write call has supplied", "stream %d [%d,%d), written %d", st.id, off, off+n, hi)
		return
	}
	st.ensure(off + n)
	if !bytes.Equal(d.data, st.content.b[off:off+n]) {
		i := 0
		for i < n && d.data[i] == st.content.b[off+i] {
			i++
		}
		what := "first transmission"
		if off < st.sentHi {
			what = "retransmission"
		}
		st.fail("STREAM frame carries bytes that differ from the bytes written at that offset ("+what+")", "stream %d [%d,%d): offset %d carries %#x, written %#x", st.id, off, off+n, off+i, d.data[i], st.content.b[off+i])
		return
	}
	// cancellation: nothing beyond the reliable size
	if st.resetFirst != "" {
		if st.relSize == 0 {
			st.fail("STREAM frame handed out after the stream was reset", "stream %d [%d,%d) fin=%v, reset %s", st.id, off, off+n, d.fin, st.resetFirst)
			return
		}
		if off+n > st.relSize {
			st.fail("STREAM frame handed out after CancelWrite reaches beyond the reliable size", "stream %d [%d,%d), reliable size %d", st.id, off, off+n, st.relSize)
			return
		}
		res.Probe("stream-frame-after-reset-at")
	}
	// every byte is either new and contiguous, or was declared lost
	isNew, isRetx := false, false
	for b := off; b < off+n; b++ {
		if b >= st.sentHi {
			if b > st.sentHi {
				st.fail("STREAM frame skips bytes that were never sent", "stream %d [%d,%d), sent so far %d", st.id, off, off+n, st.sentHi)
				return
			}
			st.sentHi++
			isNew = true
		} else {
			switch st.state[b] {
			case sstLost:
			case sstAbandoned:
				st.fail("STREAM frame retransmits bytes the reset had abandoned", "stream %d [%d,%d) byte %d, reliable size %d", st.id, off, off+n, b, st.relSize)
				return
			default:
				st.fail("STREAM frame repeats bytes that were not declared lost", "stream %d [%d,%d): byte %d is %s", st.id, off, off+n, b, map[byte]string{sstInflight: "in flight", sstAcked: "acknowledged", sstUnsent: "unsent"}[st.state[b]])
				return
			}
			isRetx = true
		}
		st.state[b] = sstInflight
	}
	kind := "new data"
	switch {
	case isNew && st.resetFirst != "":
		kind = "reliable part after CancelWrite"
		res.Probe("reliable-remainder-sent")
	case isRetx && st.resetFirst != "":
		kind = "retransmission of the reliable part"
		res.Probe("retransmission-after-reset-at")
	case isRetx:
		kind = "retransmission"
		res.Probe("retransmission")
	}
	if !h.sub.Faulty && isRetx {
		st.fail("retransmission without any loss", "stream %d [%d,%d)", st.id, off, off+n)
		return
	}
	if off+n > st.limit {
		st.fail("STREAM frame beyond the peer's MAX_STREAM_DATA ("+kind+")", "stream %d [%d,%d), limit %d", st.id, off, off+n, st.limit)
		return
	}
	if isNew {
		if u := h.connUsed(); u > h.connLimit && h.connSent() <= h.connLimit && h.unsentFinal() {
			h.known("STREAM frames beyond the peer's MAX_DATA: the final size of a RESET_STREAM_AT covers a reliable remainder that is not sent yet and not charged to the connection window", "stream %d [%d,%d): connection total at the peer %d, bytes sent %d, limit %d", st.id, off, off+n, u, h.connSent(), h.connLimit)
			return
		} else if u > h.connLimit {
			st.fail("STREAM frames beyond the peer's MAX_DATA ("+kind+")", "stream %d [%d,%d): connection total %d, limit %d", st.id, off, off+n, u, h.connLimit)
			return
		}
	}
	if st.sentHi == st.limit && !sstHas(st.blockedAt, st.limit) {
		st.blockedAt = append(st.blockedAt, st.limit)
		res.Probe("stream-blocked-at-limit")
	}
	if h.connSent() == h.connLimit && !sstHas(h.connBlk, h.connLimit) {
		h.connBlk = append(h.connBlk, h.connLimit)
		res.Probe("conn-blocked-at-limit")
	}
	if d.fin {
		switch {
		case st.resetFirst != "" && st.announced >= 0 && off+n < st.announced && off+n == st.relSize:
			// CancelWrite / OnLost cut a queued frame down to the reliable size and leave its FIN bit set
			h.known("final size changed: a STREAM frame truncated to the reliable size still carries the FIN bit", "stream %d [%d,%d) fin, final size announced before (%s) %d", st.id, off, off+n, st.announcedK, st.announced)
			return
		case st.resetFirst != "":
			res.Probe("fin-after-reset")
			st.announce(off+n, "FIN")
		case !st.closeDone:
			st.fail("FIN sent although Close was not called", "stream %d [%d,%d)", st.id, off, off+n)
		case off+n != st.finalSize:
			st.fail("FIN not at the final size", "stream %d [%d,%d), final size %d", st.id, off, off+n, st.finalSize)
		case st.sentHi != st.finalSize:
			st.fail("FIN sent before all bytes", "stream %d [%d,%d), sent %d of %d", st.id, off, off+n, st.sentHi, st.finalSize)
		case st.finState == sstFinInflight || st.finState == sstFinAcked:
			st.fail("FIN repeated without a loss", "stream %d [%d,%d), fin state %d", st.id, off, off+n, st.finState)
		default:
			st.announce(off+n, "FIN")
		}
		if h.stopped() {
			return
		}
		if st.finState == sstFinLost {
			res.Probe("fin-retransmitted")
		}
		st.finState = sstFinInflight
		res.Probe("fin-sent")
		if n == 0 {
			res.Probe("fin-only-frame")
		}
	}
	rec := &sstOut{st: st, off: off, n: n, fin: d.fin, data: append([]byte(nil), d.data...), frame: f.Frame, handler: f.Handler}
	h.out = append(h.out, rec)
	h.outSet[f.Frame] = true
}

func (h *sstHist) onResetFrame(f ackhandler.Frame, d sstWire) {
	res := h.res
	st := h.byID(protocol.StreamID(d.sid))
	if st != nil && st.dead && h.fr != nil {
		// framer.Handle0RTTRejection forgets the active streams and the queued control frames, but not
		// streamsWithControlFrames: a reset queued before the rejection is sent after it
		h.known("RESET_STREAM of a stream from before the 0-RTT rejection is sent after the rejection", "stream %d final %d", d.sid, d.final)
		return
	}
	if st == nil || st.dead {
		res.Fail("RESET_STREAM frame for a stream that does not exist", "stream %d", d.sid)
		return
	}
	name := "RESET_STREAM"
	if d.typ == 0x24 {
		name = "RESET_STREAM_AT"
	}
	final, rel := int(d.final), int(d.rel)
	res.Logf("    %s %d final=%d reliable=%d code=%d", name, st.id, final, rel, d.code)
	res.TraceU(uint64(st.id), d.typ, d.final, d.rel, d.code)
	if st.resetFirst == "" {
		st.fail(name+" sent although the stream was not cancelled", "stream %d", st.id)
		return
	}
	if f.Handler == nil {
		st.fail("RESET_STREAM frame handed out without an acknowledgement handler", "stream %d", st.id)
		return
	}
	if h.outSet[f.Frame] {
		st.fail("a frame object is handed out again while it is still in flight", "%s stream %d", name, st.id)
		return
	}
	if d.typ == 0x24 && !st.rsa {
		st.fail("RESET_STREAM_AT sent although the peer does not support it", "stream %d", st.id)
		return
	}
	if rel > final {
		st.fail("RESET_STREAM_AT reliable size above the final size", "stream %d reliable %d final %d", st.id, rel, final)
		return
	}
	if !st.relExact && !st.stopped && st.relSize > 0 {
		// the boundary was set while a Write was in progress: anything between the bytes
		// accepted before and the bytes handed to Write is "written so far"
		if rel < st.relLo || rel > st.relHi {
			st.fail("RESET_STREAM_AT reliable size is not the reliable boundary", "stream %d reliable %d, boundary in [%d,%d]", st.id, rel, st.relLo, st.relHi)
			return
		}
		if rel != st.relSize {
			res.Probe("reliable-size-adopted")
			st.relSize = rel
		}
		st.relExact = true
	}
	if rel != st.relSize {
		st.fail("RESET_STREAM_AT reliable size is not the reliable boundary", "stream %d reliable %d, expected %d (stopped=%v)", st.id, rel, st.relSize, st.stopped)
		return
	}
	if st.resetState == sstFinInflight || st.resetState == sstFinAcked {
		st.fail("RESET_STREAM repeated without a loss", "stream %d state %d", st.id, st.resetState)
		return
	}
	if st.resetState == sstFinLost {
		res.Probe("reset-retransmitted")
	}
	fromReliable := d.typ == 0x24 && final == rel && rel > st.sentAtReset
	if fromReliable {
		res.Probe("reset-at-final-from-unsent-reliable")
	}
	if final > st.limit {
		if fromReliable {
			h.known("RESET_STREAM_AT final size beyond the peer's MAX_STREAM_DATA: the reliable remainder is still flow-control blocked", "stream %d final %d reliable %d sent %d limit %d", st.id, final, rel, st.sentAtReset, st.limit)
		} else {
			st.fail(name+" final size beyond the peer's MAX_STREAM_DATA", "stream %d final %d sent %d limit %d", st.id, final, st.sentHi, st.limit)
		}
		return
	}
	want := st.sentAtReset
	if st.relSize > want {
		want = st.relSize
	}
	if final != want || final < st.sentHi {
		st.fail(name+" final size is not the highest offset sent", "stream %d final %d, sent at reset %d, sent now %d, reliable %d", st.id, final, st.sentAtReset, st.sentHi, st.relSize)
		return
	}
	st.announce(final, name)
	if h.stopped() {
		return
	}
	if u := h.connUsed(); u > h.connLimit {
		if fromReliable {
			h.known("RESET_STREAM_AT final size beyond the peer's MAX_DATA: the reliable remainder is still flow-control blocked", "stream %d final %d reliable %d sent %d: connection total %d limit %d", st.id, final, rel, st.sentAtReset, u, h.connLimit)
		} else {
			st.fail(name+" final size beyond the peer's MAX_DATA", "stream %d final %d: connection total %d limit %d", st.id, final, u, h.connLimit)
		}
		return
	}
	st.resetState = sstFinInflight
	if d.typ == 0x24 {
		res.Probe("reset-stream-at-sent")
	} else {
		res.Probe("reset-stream-sent")
	}
	rec := &sstOut{reset: true, st: st, gen: st.resetGen, frame: f.Frame, handler: f.Handler}
	h.out = append(h.out, rec)
	h.outSet[f.Frame] = true
}

func (h *sstHist) onStreamDataBlocked(d sstWire) {
	res := h.res
	st := h.byID(protocol.StreamID(d.sid))
	if st == nil || st.dead {
		res.Fail("STREAM_DATA_BLOCKED for a stream that does not exist", "stream %d", d.sid)
		return
	}
	v := int(d.max)
	res.Logf("    STREAM_DATA_BLOCKED %d at %d", st.id, v)
	res.TraceU(uint64(st.id), 0x15, d.max)
	if sstHas(st.sdbSeen, v) {
		res.Fail("STREAM_DATA_BLOCKED reported twice for one limit", "stream %d limit %d", st.id, v)
		return
	}
	if !sstHas(st.blockedAt, v) {
		res.Fail("STREAM_DATA_BLOCKED although the stream is not blocked at that limit", "stream %d reported %d, limit %d, sent %d", st.id, v, st.limit, st.sentHi)
		return
	}
	st.sdbSeen = append(st.sdbSeen, v)
	res.Probe("stream-data-blocked")
}

func (h *sstHist) onDataBlocked(d sstWire) {
	res := h.res
	v := int(d.max)
	res.Logf("    DATA_BLOCKED at %d", v)
	res.TraceU(0x14, d.max)
	if sstHas(h.dbSeen, v) {
		res.Fail("DATA_BLOCKED reported twice for one limit", "limit %d", v)
		return
	}
	if !sstHas(h.connBlk, v) {
		res.Fail("DATA_BLOCKED although the connection is not blocked at that limit", "reported %d, limit %d, sent %d", v, h.connLimit, h.connSent())
		return
	}
	h.dbSeen = append(h.dbSeen, v)
	res.Probe("data-blocked")
}

// ---------------------------------------------------------------- network and peer

func (h *sstHist) take(k int64) *sstOut {
	if len(h.out) == 0 {
		return nil
	}
	if k < 0 {
		k = -k
	}
	i := int(k % int64(len(h.out)))
	rec := h.out[i]
	h.out = append(h.out[:i], h.out[i+1:]...)
	delete(h.outSet, rec.frame)
	return rec
}

func (h *sstHist) deliver(rec *sstOut) {
	if rec.delivered {
		return
	}
	rec.delivered = true
	if rec.reset {
		return
	}
	st := rec.st
	copy(st.peer[rec.off:], rec.data)
	for b := rec.off; b < rec.off+rec.n; b++ {
		st.peerHave[b] = true
	}
	if rec.fin {
		st.peerFin = rec.off + rec.n
	}
}

func (h *sstHist) ack(k int64) bool {
	rec := h.take(k)
	if rec == nil {
		return false
	}
	h.deliver(rec)
	st := rec.st
	if rec.reset {
		h.res.Logf("  ack RESET_STREAM of stream %d (generation %d of %d)", st.id, rec.gen, st.resetGen)
		if rec.gen == st.resetGen {
			st.resetState = sstFinAcked
		} else {
			h.res.Probe("ack-superseded-reset")
		}
		rec.handler.OnAcked(rec.frame)
		return true
	}
	h.res.Logf("  ack STREAM %d [%d,%d) fin=%v", st.id, rec.off, rec.off+rec.n, rec.fin)
	for b := rec.off; b < rec.off+rec.n; b++ {
		st.state[b] = sstAcked
	}
	if rec.fin {
		st.finState = sstFinAcked
	}
	rec.handler.OnAcked(rec.frame)
	// the frame went back to the pool: whoever still reads it sees garbage
	if sf := rec.frame.(*wire.StreamFrame); cap(sf.Data) > 0 {
		d := sf.Data[:cap(sf.Data)]
		for i := range d {
			d[i] = sstPoison
		}
	}
	return true
}

func (h *sstHist) lose(k int64, reached bool) bool {
	rec := h.take(k)
	if rec == nil {
		return false
	}
	h.res.Fault("loss")
	if reached {
		h.res.Fault("spurious-loss")
		h.deliver(rec)
	}
	st := rec.st
	if rec.reset {
		h.res.Logf("  lose RESET_STREAM of stream %d (generation %d of %d)", st.id, rec.gen, st.resetGen)
		if rec.gen == st.resetGen {
			st.resetState = sstFinLost
		} else {
			h.res.Probe("loss-superseded-reset")
		}
		rec.handler.OnLost(rec.frame)
		return true
	}
	h.res.Logf("  lose STREAM %d [%d,%d) fin=%v", st.id, rec.off, rec.off+rec.n, rec.fin)
	for b := rec.off; b < rec.off+rec.n; b++ {
		if st.resetFirst == "" || b < st.relSize {
			st.state[b] = sstLost
		} else {
			st.state[b] = sstAbandoned
		}
	}
	if rec.fin && st.resetFirst == "" {
		st.finState = sstFinLost
	}
	rec.handler.OnLost(rec.frame)
	return true
}

// ---------------------------------------------------------------- operations

func (h *sstHist) sel(s int64) *sstStr {
	if s < 0 {
		s = -s
	}
	return h.strs[int(s%int64(len(h.strs)))]
}

func (h *sstHist) exec(op sstOp) {
	res := h.res
	faulty := h.sub.Faulty
	switch op.K {
	case "w":
		st := h.sel(op.S)
		n := sstClamp(op.A, 0, sstMaxWrite)
		if st.closeQ && !faulty {
			return // the clean class does not write after Close
		}
		if st.submitted+st.queuedLen+st.pendLen+n > sstMaxTotal {
			return
		}
		st.queue = append(st.queue, sstReq{kind: sstReqWrite, n: n})
		st.queuedLen += n
		res.Shape("w")
	case "c":
		st := h.sel(op.S)
		if st.closeQ {
			return
		}
		st.closeQ = true
		st.queue = append(st.queue, sstReq{kind: sstReqClose})
		res.Shape("c")
	case "pop":
		h.pop(sstClamp(op.A, 1, int64(sstMaxBudget)), sstClamp(op.B, 0, 16))
		res.Shape("pop")
	case "ack":
		if h.ack(op.A) {
			res.Shape("ack")
		}
	case "dlv":
		if len(h.out) > 0 {
			k := op.A
			if k < 0 {
				k = -k
			}
			h.deliver(h.out[int(k%int64(len(h.out)))])
			res.Probe("deliver-before-ack")
		}
	case "lose":
		if !faulty {
			return
		}
		if h.lose(op.A, op.F) {
			res.Shape("lose")
		}
	case "msd":
		st := h.sel(op.S)
		if st.completed > 0 {
			return // the streams map has deleted the stream: the frame is ignored there
		}
		mode := op.A
		if !faulty {
			mode = 0
		}
		d := sstClamp(op.B, 0, 1<<20)
		v := st.limit + d
		switch mode {
		case 1:
			v = st.limit
			res.Fault("max-stream-data-duplicate")
		case 2:
			v = st.limit - d
			if v < 0 {
				v = 0
			}
			res.Fault("max-stream-data-stale")
		default:
			if v > 1<<30 {
				return
			}
			res.Probe("max-stream-data")
		}
		res.Logf("  MAX_STREAM_DATA %d: %d (limit %d)", st.id, v, st.limit)
		if v > st.limit {
			st.limit = v
		}
		st.str.updateSendWindow(protocol.ByteCount(v))
		res.Shape("msd")
	case "md":
		mode := op.A
		if !faulty {
			mode = 0
		}
		d := sstClamp(op.B, 0, 1<<20)
		v := h.connLimit + d
		switch mode {
		case 1:
			v = h.connLimit
			res.Fault("max-data-duplicate")
		case 2:
			v = h.connLimit - d
			if v < 0 {
				v = 0
			}
			res.Fault("max-data-stale")
		default:
			if v > 1<<30 {
				return
			}
			res.Probe("max-data")
		}
		res.Logf("  MAX_DATA %d (limit %d)", v, h.connLimit)
		if v > h.connLimit {
			h.connLimit = v
		}
		h.cfc.UpdateSendWindow(protocol.ByteCount(v))
		res.Shape("md")
	case "dl":
		st := h.sel(op.S)
		st.dl = time.Now().Add(time.Duration(sstClamp(op.A, -1000, 100000)) * time.Millisecond)
		st.dlSet = true
		st.str.SetWriteDeadline(st.dl)
		res.Logf("  SetWriteDeadline(%d ms) on stream %d", op.A, st.id)
		res.Probe("deadline-set")
		res.Shape("dl")
	case "tick":
		time.Sleep(time.Duration(sstClamp(op.A, 1, 100000)) * time.Millisecond)
	case "rel":
		st := h.sel(op.S)
		if st.resetFirst != "" {
			return // moving the boundary of a stream that was already reset is not a meaningful call
		}
		h.setBoundary(st)
		res.Shape("rel")
	case "cancel":
		if !faulty {
			return
		}
		st := h.sel(op.S)
		if op.F && st.resetFirst == "" {
			h.setBoundary(st)
		}
		h.cancel(st, uint64(sstClamp(op.A, 0, 1<<61)))
		res.Shape("cancel")
	case "stop":
		if !faulty {
			return
		}
		st := h.sel(op.S)
		if st.completed > 0 {
			return
		}
		h.stop(st, uint64(sstClamp(op.A, 0, 1<<61)))
		res.Shape("stop")
	case "tp":
		h.transportParameters(op)
	case "reject":
		if !faulty || !h.sub.ZeroRTT || h.tpDone {
			return
		}
		h.reject(op)
	case "shutdown":
		if !faulty {
			return
		}
		h.shutdown(sstErrShutdown)
		res.Fault("shutdown")
		res.Shape("shutdown")
		h.settle()
		h.ended = true
	}
}

func (h *sstHist) setBoundary(st *sstStr) {
	st.str.SetReliableBoundary()
	st.relSet = true
	st.relLo = st.submitted
	if st.sentHi > st.relLo {
		st.relLo = st.sentHi
	}
	st.relHi = st.submitted
	if st.pending && st.pendKind == sstReqWrite {
		st.relHi += st.pendLen
		h.res.Probe("boundary-during-write")
	}
	h.res.Logf("  SetReliableBoundary on stream %d: [%d,%d]", st.id, st.relLo, st.relHi)
	h.res.Probe("reliable-boundary")
}

// abandon: after a reset only bytes below the reliable size are still owed.
func (st *sstStr) abandon() {
	for b := 0; b < st.sentHi; b++ {
		if st.state[b] == sstLost && b >= st.relSize {
			st.state[b] = sstAbandoned
		}
	}
}

func (h *sstHist) cancel(st *sstStr, code uint64) {
	h.res.Logf("  CancelWrite(%d) on stream %d (sent %d, accepted %d)", code, st.id, st.sentHi, st.submitted)
	st.cancelLocal = true
	if st.resetFirst == "" {
		st.resetFirst, st.resetCode = "local", code
		st.relSize, st.relExact = 0, true
		if st.rsa && st.relSet {
			st.relSize = st.relLo
			st.relExact = st.relLo == st.relHi
		}
		st.resetGen, st.resetState, st.sentAtReset = 1, sstFinNone, st.sentHi
		st.abandon()
		h.res.Fault("cancel-write")
		if st.relSize > 0 {
			h.res.Fault("cancel-write-reliable")
			if st.relSize > st.sentHi {
				h.res.Probe("cancel-with-unsent-reliable-part")
			}
		}
		if st.pending {
			h.res.Probe("cancel-during-write")
		}
		if st.closeDone {
			h.res.Probe("cancel-after-close")
		}
	} else {
		h.res.Probe("cancel-after-reset")
	}
	st.str.CancelWrite(StreamErrorCode(code))
}

func (h *sstHist) stop(st *sstStr, code uint64) {
	h.res.Logf("  STOP_SENDING(%d) for stream %d", code, st.id)
	h.res.Fault("stop-sending")
	if st.resetFirst != "" && st.relSize == 0 {
		h.res.Probe("stop-sending-after-reset")
	} else {
		if st.resetFirst == "" {
			st.resetFirst, st.resetCode = "remote", code
		} else {
			h.res.Probe("stop-sending-after-reset-at")
		}
		st.relSize, st.relExact = 0, true
		st.resetGen++
		st.resetState, st.sentAtReset = sstFinNone, st.sentHi
		st.abandon()
		if st.pending {
			h.res.Probe("stop-sending-during-write")
		}
	}
	st.stopped = true
	st.str.handleStopSendingFrame(&wire.StopSendingFrame{StreamID: st.id, ErrorCode: qerr.StreamErrorCode(code)})
}

// transportParameters: the handshake of an accepted 0-RTT session completes
// (streamsMap.HandleTransportParameters, connFlowController.UpdateSendWindow).
func (h *sstHist) transportParameters(op sstOp) {
	if !h.sub.ZeroRTT || h.tpDone {
		return
	}
	h.tpDone = true
	h.res.Probe("transport-parameters")
	for _, st := range h.strs {
		if st.completed > 0 {
			continue
		}
		if h.sub.RSA == 2 {
			if st.resetFirst == "local" && st.relSet && st.relLo > 0 {
				st.lateRSA = true
				h.res.Probe("rsa-enabled-after-reset-with-boundary")
			}
			st.str.enableResetStreamAt()
			st.rsa = true
		}
		w := st.baseWin() + sstClamp(op.A, 0, 1<<20)
		if w > st.limit {
			st.limit = w
		}
		st.str.updateSendWindow(protocol.ByteCount(w))
	}
	c := sstClamp(h.sub.CWin, 0, 1<<30) + sstClamp(op.B, 0, 1<<20)
	if c > h.connLimit {
		h.connLimit = c
	}
	h.cfc.UpdateSendWindow(protocol.ByteCount(c))
}

func (st *sstStr) baseWin() int {
	if st.idx%2 == 1 {
		return sstClamp(st.h.sub.SWinAlt, 0, 1<<30)
	}
	return sstClamp(st.h.sub.SWin, 0, 1<<30)
}

func (h *sstHist) shutdown(err error) {
	for _, st := range h.strs {
		if st.completed > 0 {
			continue // deleted from the streams map
		}
		if !st.closeDone {
			st.shutdown = true
		}
		st.str.closeForShutdown(err)
	}
}

// reject: the server rejected 0-RTT (Conn.dropEncryptionLevel): every stream is shut
// down with Err0RTTRejected, the framer forgets them, the connection flow controller is
// reset; the packets in flight are dropped without callbacks. The application then
// opens new streams under the transport parameters of the new session.
func (h *sstHist) reject(op sstOp) {
	res := h.res
	res.Fault("0rtt-rejected")
	res.Logf("  0-RTT rejected")
	h.shutdown(Err0RTTRejected)
	if h.fr != nil {
		h.fr.Handle0RTTRejection()
	}
	if err := h.cfc.Reset(); err != nil {
		res.Fail("connection flow controller refuses the reset after a 0-RTT rejection", "%v", err)
		return
	}
	h.settle()
	if h.stopped() {
		return
	}
	for _, st := range h.strs {
		if st.pending {
			res.Fail("Write stays blocked although 0-RTT was rejected", "stream %d", st.id)
			return
		}
		// queued calls would all fail the same way: the application gives up on these streams
		st.queue, st.queuedLen = nil, 0
		st.dead = true
		st.active = false
	}
	h.old = append(h.old, h.strs...)
	h.out, h.outSet = nil, map[wire.Frame]bool{}
	h.queue, h.pendCtrl = nil, nil
	h.dbSeen, h.connBlk = nil, nil
	h.gen++
	h.tpDone = true
	h.connLimit = sstClamp(op.B, 0, 1<<30)
	h.cfc.UpdateSendWindow(protocol.ByteCount(h.connLimit))
	w := sstClamp(op.A, 0, 1<<30)
	h.newGeneration(w, w, h.sub.RSA != 0)
}

// ---------------------------------------------------------------- end of a history

func (h *sstHist) heal() {
	res := h.res
	h.healing = true
	res.Probe("heal")
	for _, st := range h.strs {
		if st.dlSet {
			st.dlSet = false
			st.str.SetWriteDeadline(time.Time{})
		}
		if !st.closeQ && !st.cancelLocal {
			st.closeQ = true
			st.queue = append(st.queue, sstReq{kind: sstReqClose})
		}
	}
	budget := 1452
	if h.fr != nil {
		budget = 1252
	}
	for round := 0; round < 2000 && !h.stopped(); round++ {
		h.settle()
		if h.stopped() {
			return
		}
		progress := false
		total := 0
		for _, st := range h.strs {
			need := st.submitted + st.queuedLen
			if st.pending && st.pendKind == sstReqWrite {
				need += st.pendLen
			}
			if need > st.limit && st.completed == 0 {
				st.limit = need
				st.str.updateSendWindow(protocol.ByteCount(need))
				progress = true
			}
			if st.limit > need {
				need = st.limit
			}
			total += need
		}
		if total > h.connLimit {
			h.connLimit = total
			h.cfc.UpdateSendWindow(protocol.ByteCount(total))
			progress = true
		}
		h.settle()
		for i := 0; i < 100000 && !h.stopped(); i++ {
			if h.pop(budget, 0) == 0 {
				break
			}
			progress = true
			h.settle()
		}
		for len(h.out) > 0 && !h.stopped() {
			h.ack(0)
			progress = true
		}
		if !progress {
			break
		}
	}
	h.settle()
	if h.stopped() {
		return
	}
	for _, st := range h.strs {
		if st.pending || len(st.queue) > 0 {
			st.fail("liveness: Write or Close still blocked after credit, packets and acknowledgements", "stream %d: pending=%v kind=%d len=%d accepted=%d sent=%d limit=%d connection limit=%d", st.id, st.pending, st.pendKind, st.pendLen, st.submitted, st.sentHi, st.limit, h.connLimit)
			return
		}
		if st.resetFirst != "" {
			if b := st.firstNot(st.relSize, sstAcked); b >= 0 {
				sig := "liveness: reliable part of a reset stream never sent"
				if st.state[b] == sstLost {
					sig = "liveness: lost reliable part of a reset stream never retransmitted"
				}
				st.fail(sig, "stream %d byte %d state %d, reliable size %d, sent %d", st.id, b, st.state[b], st.relSize, st.sentHi)
				return
			}
			if st.resetState != sstFinAcked {
				sig := "liveness: RESET_STREAM never sent"
				if st.resetState == sstFinLost {
					sig = "liveness: lost RESET_STREAM never retransmitted"
				}
				st.fail(sig, "stream %d (reset %s, generation %d, state %d)", st.id, st.resetFirst, st.resetGen, st.resetState)
				return
			}
			res.Probe("end-reset-stream")
		} else {
			if b := st.firstNot(st.submitted, sstAcked); b >= 0 {
				sig := "liveness: written bytes never sent"
				if st.state[b] == sstLost {
					sig = "liveness: lost bytes never retransmitted"
				}
				st.fail(sig, "stream %d byte %d state %d, accepted %d, sent %d, limit %d, connection limit %d", st.id, b, st.state[b], st.submitted, st.sentHi, st.limit, h.connLimit)
				return
			}
			if st.finState != sstFinAcked {
				sig := "liveness: FIN never sent"
				if st.finState == sstFinLost {
					sig = "liveness: lost FIN never retransmitted"
				}
				st.fail(sig, "stream %d final size %d fin state %d", st.id, st.finalSize, st.finState)
				return
			}
			for b := 0; b < st.submitted; b++ {
				if !st.peerHave[b] || st.peer[b] != st.content.b[b] {
					st.fail("the peer's copy of the stream differs from the bytes written", "stream %d offset %d: have=%v got %#x want %#x", st.id, b, st.peerHave[b], st.peer[b], st.content.b[b])
					return
				}
			}
			if st.peerFin != st.submitted {
				st.fail("the peer's final size differs from the bytes written", "stream %d: %d vs %d", st.id, st.peerFin, st.submitted)
				return
			}
			res.Probe("end-stream-delivered")
		}
		if st.completed != 1 {
			st.fail("liveness: stream completion never reported", "stream %d reset=%q closed=%v cancelled=%v", st.id, st.resetFirst, st.closeDone, st.cancelLocal)
			return
		}
	}
	if h.fr != nil && h.fr.HasData() {
		// only stale queue entries may be left: one more Append must come back empty
		if h.pop(budget, 0) != 0 {
			res.Fail("liveness: the framer still had frames after everything was acknowledged", "")
		}
	}
}
