package quic

// K:recvstream - component simulation for property C03 ("stream and CRYPTO
// reassembly delivers exactly the sent byte sequence"). Overlay file of
// /verif; never part of /repo.
//
// Three scenario classes drive real code against a byte-array reference model:
//
//	stream  real ReceiveStream + real stream/connection flow controllers; frames
//	        are produced by the real wire parser (pool frames for >= 128 bytes)
//	sorter  real frameSorter with explicit release callbacks
//	crypto  real cryptoStreamManager (initial / handshake / 1-RTT crypto streams)
//
// The peer + network is a frame-level channel: one underlying byte string with
// position dependent content is cut into segments over a small offset lattice
// (cells on both sides of the 128-byte copy threshold) and delivered reordered,
// duplicated, re-split and with the FIN anywhere consistent. Adversarial
// segments live in a separate scenario class (Adv); after the expected
// transport error the history ends.
//
// Oracle: everything Read/Peek/Pop/GetCryptoData returns is exactly the next
// bytes of the underlying string (received, contiguous, once); io.EOF exactly
// at the final size and only with a FIN; after CancelRead / RESET_STREAM the
// StreamError of whichever came first; RESET_STREAM_AT: no reset error before
// the reliable size was delivered; a blocked call returns as soon as the model
// says it can (data, FIN, reset, cancel, shutdown, deadline on the bubble
// clock); after every history the network heals and the reader must see all
// bytes and the end of the stream.
//
// Buffer discipline ("never recycled while bytes are undelivered, never
// twice"): sorter class - explicit callbacks, poisoned (0xEE) on release,
// single release asserted, popped data re-verified until the consumer lets go;
// stream class - see "stream frame pool discipline" below (sync.Pool drained
// after every step, released frames scribbled at once, double Put detected by
// identity); crypto class - cryptoStream passes nil callbacks and owns the
// parser-allocated buffers for good, so only the byte oracle applies.
//
// Known behaviour of the unchanged tree that contradicts the documented
// CancelRead / reset semantics (own signatures, see rcvStreamRun.blockCtx):
//   - CancelRead after a RESET_STREAM_AT whose reliable part is still
//     outstanding does not wake a blocked Read/Peek (cancelReadImpl returns
//     before signalRead when cancelledRemotely is set)
//   - a later RESET_STREAM(_AT) that lowers the reliable size does not wake a
//     blocked Read/Peek (handleResetStreamFrameImpl returns before signalRead
//     when cancelledRemotely is already set)

import (
	"errors"
	"fmt"
	"io"
	"os"
	"runtime/debug"
	"sync"
	"testing"
	"testing/synctest"
	"time"

	"github.com/refraction-networking/uquic/internal/flowcontrol"
	"github.com/refraction-networking/uquic/internal/monotime"
	"github.com/refraction-networking/uquic/internal/protocol"
	"github.com/refraction-networking/uquic/internal/qerr"
	"github.com/refraction-networking/uquic/internal/utils"
	"github.com/refraction-networking/uquic/internal/wire"
	"github.com/refraction-networking/uquic/quicvarint"
)

func init() { KRegister(recvstreamSim()) }

// ---------------------------------------------------------------- scenario

type rcvOp struct {
	K string `json:"k"`
	A int64  `json:"a,omitempty"`
	B int64  `json:"b,omitempty"`
	C int64  `json:"c,omitempty"`
	D int64  `json:"d,omitempty"`
	F bool   `json:"f,omitempty"`
	// K == "new": the history so far is completed (network heals, reader drains) and a
	// new, independent history with these parameters starts. One scenario carries a
	// batch of histories because the per-run cost of the kernel (a full GC of the
	// large root-package binary) dwarfs the cost of one history.
	S *rcvSub `json:"s,omitempty"`
}

// rcvSub: the parameters of one history.
type rcvSub struct {
	CSeed     uint64 `json:"cseed"` // content of the underlying byte string
	Class     string `json:"class"` // stream | sorter | crypto
	Adv       bool   `json:"adv"`   // adversarial scenario class
	Cells     []int  `json:"cells"` // lattice cell sizes
	FinalCell int    `json:"final_cell"`
	NoFin     bool   `json:"no_fin"` // the stream does not end within this history
	SWin      int64  `json:"swin"`
	CWin      int64  `json:"cwin"`
	RTTms     int    `json:"rtt_ms"`
	NilCb     bool   `json:"nil_cb"`     // sorter class: push without release callbacks
	DrainRead int    `json:"drain_read"` // buffer size of the reads of the final drain
}

type rcvScenario struct {
	Seed uint64 `json:"seed"`
	rcvSub
	Ops []rcvOp `json:"ops"`
}

func (s *rcvScenario) KSeed() uint64 { return s.Seed }

const (
	rcvPoison      = 0xEE
	rcvMaxSeg      = 1400
	rcvReadBufSize = 8192
	rcvStreamIDv   = protocol.StreamID(7)
)

var rcvErrShutdown = errors.New("rcv: connection closed")

var rcvCellSizes = []int{1, 1, 2, 50, 100, 127, 128, 129, 130, 200, 300, 700}

func recvstreamSim() *KSim {
	return &KSim{
		Name:  "recvstream",
		New:   func() KScenario { return &rcvScenario{} },
		Gen:   rcvGen,
		Run:   rcvRun,
		Sweep: rcvSweep,
	}
}

func rcvRun(t *testing.T, ksc KScenario, res *KResult) {
	sc := ksc.(*rcvScenario)
	monotime.VerifSetStart(time.Now().Add(-time.Hour))
	t0 := time.Now()
	cur := &sc.rcvSub
	start := 0
	for i := 0; i <= len(sc.Ops) && !res.Failed(); i++ {
		if i < len(sc.Ops) && !(sc.Ops[i].K == "new" && sc.Ops[i].S != nil) {
			continue
		}
		rcvRunOne(cur, sc.Ops[start:i], res)
		if i < len(sc.Ops) {
			cur, start = sc.Ops[i].S, i+1
		}
	}
	res.SimNS = int64(time.Since(t0))
	res.TraceU(uint64(res.SimNS))
}

func rcvRunOne(sub *rcvSub, ops []rcvOp, res *KResult) {
	res.Probe("histories")
	res.Logf("=== history class=%s adv=%v cells=%v final_cell=%d", sub.Class, sub.Adv, sub.Cells, sub.FinalCell)
	res.Shape("new" + sub.Class)
	switch sub.Class {
	case "sorter":
		rcvRunSorter(sub, ops, res)
	case "crypto":
		rcvRunCrypto(sub, ops, res)
	default:
		rcvRunStream(sub, ops, res)
	}
}

// ---------------------------------------------------------------- generation

func rcvGenCells(r *KRng, lo, hi int, sizes []int) []int {
	n := r.Range(lo, hi)
	c := make([]int, n)
	for i := range c {
		c[i] = sizes[r.N(len(sizes))]
	}
	return c
}

func rcvSum(c []int) int {
	s := 0
	for _, v := range c {
		s += v
	}
	return s
}

const rcvBatch = 8

// rcvGenT is one generated history.
type rcvGenT struct {
	rcvSub
	Ops []rcvOp
}

func rcvGen(seed uint64, tier string) KScenario {
	out := &rcvScenario{Seed: seed}
	for i := 0; i < rcvBatch; i++ {
		hs := KMix(seed, uint64(i), 0xba7c)
		r := NewKRng(hs)
		sc := &rcvGenT{}
		sc.CSeed = hs
		sc.Adv = r.P(0.3)
		switch x := r.N(100); {
		case x < 70:
			sc.Class = "stream"
			rcvGenStream(r, sc, tier)
		case x < 85:
			sc.Class = "sorter"
			rcvGenSorter(r, sc, tier)
		default:
			sc.Class = "crypto"
			rcvGenCrypto(r, sc, tier)
		}
		out.add(sc)
	}
	return out
}

func (out *rcvScenario) add(sc *rcvGenT) {
	if out.Class == "" && len(out.Ops) == 0 {
		out.rcvSub = sc.rcvSub
	} else {
		sub := sc.rcvSub
		out.Ops = append(out.Ops, rcvOp{K: "new", S: &sub})
	}
	out.Ops = append(out.Ops, sc.Ops...)
}

func rcvGenStream(r *KRng, sc *rcvGenT, tier string) {
	if tier == "thorough" && r.P(0.3) {
		sc.Cells = rcvGenCells(r, 10, 40, rcvCellSizes)
	} else {
		sc.Cells = rcvGenCells(r, 2, 10, rcvCellSizes)
	}
	nc := len(sc.Cells)
	L := rcvSum(sc.Cells)
	sc.FinalCell = nc
	if r.P(0.2) {
		sc.FinalCell = r.Range(1, nc)
	}
	switch x := r.N(10); {
	case x < 6:
		sc.SWin = int64(L + r.Pick(0, 1, 64, 1000))
	case x < 8:
		sc.SWin = int64(r.Range(1, L))
	default:
		sc.SWin = int64(r.Pick(64, 256, 1024, 4096))
	}
	if r.P(0.7) {
		sc.CWin = 2 * sc.SWin
	} else {
		sc.CWin = int64(r.Range(int(sc.SWin/2)+1, int(2*sc.SWin)))
	}
	sc.RTTms = r.Pick(0, 0, 20)
	sc.DrainRead = r.Pick(4096, 4096, 4096, 1, 64, 129, 1000)
	gaps := sc.Adv && r.P(0.08)
	if gaps {
		sc.NoFin = true
		sc.SWin = int64(L + 4500)
		sc.CWin = sc.SWin + int64(r.Pick(0, 100))
	}
	terminal := r.N(10) >= 6
	n := r.Range(4, 40)
	if tier == "thorough" && r.P(0.3) {
		n = r.Range(40, 150)
	}
	for i := 0; i < n; i++ {
		var op rcvOp
		x := r.N(100)
		if !terminal && x >= 86 && x < 93 {
			x = r.N(86)
		}
		switch {
		case x < 48:
			op = rcvOp{K: "seg", A: int64(r.N(nc + 1)), B: int64(r.N(nc + 1)), F: r.P(0.2)}
		case x < 50:
			op = rcvOp{K: "empty", A: int64(r.N(nc + 1))}
		case x < 70:
			op = rcvOp{K: "read", A: int64(r.Pick(0, 1, 1, 7, 64, 127, 128, 129, 500, 4096))}
		case x < 76:
			op = rcvOp{K: "peek", A: int64(r.Pick(0, 1, 5, 64, 128, 200, 1000))}
		case x < 80:
			op = rcvOp{K: "deadline", A: int64(r.Pick(-5, 0, 1, 10, 50))}
			if r.P(0.25) {
				op.B = 1
			}
		case x < 86:
			op = rcvOp{K: "tick", A: int64(r.Pick(1, 5, 10, 60))}
		case x < 88:
			op = rcvOp{K: "cancel", A: int64(r.Pick(0, 1, 77, 1<<40))}
		case x < 92:
			op = rcvOp{K: "reset", A: int64(r.Pick(0, 2, 99, 1<<33)), B: int64(r.N(nc + 1))}
			if r.P(0.6) {
				op.C = int64(1 + r.N(nc+1))
				op.D = int64(r.Pick(0, 0, 1, 17, 127))
			}
		case x < 93:
			op = rcvOp{K: "shutdown"}
		default:
			if sc.Adv && !gaps {
				op = rcvOp{K: "bad", A: int64(r.N(5)), B: int64(r.N(1 << 20)), C: int64(r.N(1 << 20))}
			} else {
				op = rcvOp{K: "seg", A: int64(r.N(nc + 1)), B: int64(r.N(nc + 1)), F: r.P(0.5)}
			}
		}
		sc.Ops = append(sc.Ops, op)
	}
	if gaps {
		sc.Ops = append(sc.Ops, rcvIslandsOp(r))
		sc.Ops = append(sc.Ops, rcvOp{K: "read", A: 4096})
	}
}

func rcvIslandsOp(r *KRng) rcvOp {
	return rcvOp{K: "islands", A: int64(protocol.MaxStreamFrameSorterGaps + r.Range(-3, 12)), B: int64(r.Pick(2, 2, 3)), C: int64(r.Pick(1, 7, 333, 997))}
}

func rcvGenSorter(r *KRng, sc *rcvGenT, tier string) {
	sc.Cells = rcvGenCells(r, 2, 12, rcvCellSizes)
	if tier == "thorough" && r.P(0.3) {
		sc.Cells = rcvGenCells(r, 12, 50, rcvCellSizes)
	}
	nc := len(sc.Cells)
	sc.FinalCell = nc
	sc.NilCb = r.P(0.15)
	n := r.Range(4, 40)
	for i := 0; i < n; i++ {
		switch x := r.N(100); {
		case x < 62:
			sc.Ops = append(sc.Ops, rcvOp{K: "seg", A: int64(r.N(nc + 1)), B: int64(r.N(nc + 1))})
		case x < 65:
			sc.Ops = append(sc.Ops, rcvOp{K: "empty", A: int64(r.N(nc + 1))})
		case x < 90:
			sc.Ops = append(sc.Ops, rcvOp{K: "pop", A: int64(r.Pick(1, 1, 2, 5))})
		default:
			sc.Ops = append(sc.Ops, rcvOp{K: "speek", A: int64(r.Pick(1, 64, 128, 300, 1000))})
		}
	}
	if sc.Adv && r.P(0.1) {
		sc.NoFin = true
		sc.Ops = append(sc.Ops, rcvIslandsOp(r))
	}
}

var rcvCryptoCells = []int{1, 100, 127, 128, 129, 300, 1000, 3000}

func rcvGenCrypto(r *KRng, sc *rcvGenT, tier string) {
	for {
		sc.Cells = rcvGenCells(r, 2, 12, rcvCryptoCells)
		if rcvSum(sc.Cells) <= 12000 {
			break
		}
	}
	nc := len(sc.Cells)
	sc.FinalCell = nc
	n := r.Range(4, 40)
	for i := 0; i < n; i++ {
		switch x := r.N(100); {
		case x < 80:
			sc.Ops = append(sc.Ops, rcvOp{K: "cseg", A: int64(r.N(3)), B: int64(r.N(nc + 1)), C: int64(r.N(nc + 1))})
		case x < 84:
			sc.Ops = append(sc.Ops, rcvOp{K: "cedge", A: int64(r.N(3)), B: int64(r.Pick(1, 100, 128, 1000))})
		case x < 92:
			sc.Ops = append(sc.Ops, rcvOp{K: "cdrop", A: int64(r.N(2))})
		default:
			if sc.Adv {
				sc.Ops = append(sc.Ops, rcvOp{K: "cbad", A: int64(r.N(4)), B: int64(r.N(3)), C: int64(r.N(1 << 16))})
			} else {
				sc.Ops = append(sc.Ops, rcvOp{K: "cseg", A: int64(r.N(3)), B: int64(r.N(nc + 1)), C: int64(r.N(nc + 1))})
			}
		}
	}
	if sc.Adv && r.P(0.08) {
		op := rcvIslandsOp(r)
		op.D = int64(r.N(3))
		sc.Ops = append(sc.Ops, op)
	}
}

// ---------------------------------------------------------------- bounded sweep
//
// All schedules of a stream over the 6-cell lattice {128,1,300,127,100,129}:
//   family A: every arrival sequence of n arbitrary lattice intervals (21 of them),
//             n <= 3 (quick) / n <= 4 (thorough): reordering, duplicates, overlap
//             and re-split with different boundaries, incomplete coverage
//   family B: every partition of the lattice into m <= 5 segments x every arrival
//             permutation x (nothing | one extra arbitrary interval - a duplicate
//             or a re-split retransmission - inserted at any position) for
//             m <= 3 (quick) / m <= 4 (thorough)
// x FIN placement (on the segments reaching the end | FIN-only first | FIN-only last |
// thorough: FIN only after everything) x reader behaviour (read at the end | large
// Read after every arrival | small Reads after every arrival).

var rcvSweepCells = []int{128, 1, 300, 127, 100, 129}

type rcvSweepB struct {
	parts [][2]int
	perm  []int
}

type rcvSweepTab struct {
	ivs  [][2]int
	b    []rcvSweepB
	once sync.Once
}

var rcvSweepT rcvSweepTab

func (t *rcvSweepTab) build() {
	nc := len(rcvSweepCells)
	for i := 0; i < nc; i++ {
		for j := i + 1; j <= nc; j++ {
			t.ivs = append(t.ivs, [2]int{i, j})
		}
	}
	var perms func(n int) [][]int
	perms = func(n int) [][]int {
		if n == 0 {
			return [][]int{{}}
		}
		var out [][]int
		for _, p := range perms(n - 1) {
			for pos := 0; pos <= len(p); pos++ {
				q := make([]int, 0, n)
				q = append(q, p[:pos]...)
				q = append(q, n-1)
				q = append(q, p[pos:]...)
				out = append(out, q)
			}
		}
		return out
	}
	for mask := 0; mask < 1<<(nc-1); mask++ {
		var parts [][2]int
		start := 0
		for c := 1; c < nc; c++ {
			if mask&(1<<(c-1)) != 0 {
				parts = append(parts, [2]int{start, c})
				start = c
			}
		}
		parts = append(parts, [2]int{start, nc})
		if len(parts) > 5 {
			continue
		}
		for _, p := range perms(len(parts)) {
			t.b = append(t.b, rcvSweepB{parts: parts, perm: p})
		}
	}
}

func rcvSweep(idx int, tier string) KScenario {
	var out *rcvScenario
	for k := 0; k < rcvBatch; k++ {
		one := rcvSweepOne(idx*rcvBatch+k, tier)
		if one == nil {
			break
		}
		if out == nil {
			out = &rcvScenario{Seed: KMix(0xC03, uint64(idx))}
		}
		out.add(one)
	}
	if out == nil {
		return nil
	}
	return out
}

func rcvSweepOne(idx int, tier string) *rcvGenT {
	t := &rcvSweepT
	t.once.Do(t.build)
	nRead, nFin, maxA, maxExtraM := 3, 3, 3, 3
	if tier == "thorough" {
		nFin, maxA, maxExtraM = 4, 4, 4
	}
	orig := idx
	readMode := idx % nRead
	idx /= nRead
	finMode := idx % nFin
	idx /= nFin
	nI := len(t.ivs)
	var segs [][2]int
	found := false
	// family A
	pow := 1
	for n := 1; n <= maxA && !found; n++ {
		pow *= nI
		if idx < pow {
			x := idx
			for k := 0; k < n; k++ {
				segs = append(segs, t.ivs[x%nI])
				x /= nI
			}
			found = true
		} else {
			idx -= pow
		}
	}
	// family B
	if !found {
		for _, e := range t.b {
			m := len(e.parts)
			size := 1
			if m <= maxExtraM {
				size += nI * (m + 1)
			}
			if idx >= size {
				idx -= size
				continue
			}
			for _, p := range e.perm {
				segs = append(segs, e.parts[p])
			}
			if idx > 0 {
				x := idx - 1
				iv := t.ivs[x%nI]
				pos := x / nI
				segs = append(segs[:pos], append([][2]int{iv}, segs[pos:]...)...)
			}
			found = true
			break
		}
	}
	if !found {
		return nil
	}
	nc := len(rcvSweepCells)
	sc := &rcvGenT{rcvSub: rcvSub{CSeed: KMix(0xC03, uint64(orig)), Class: "stream", Cells: rcvSweepCells, FinalCell: nc, SWin: 2048, CWin: 4096, DrainRead: 4096}}
	addReads := func() {
		switch readMode {
		case 1:
			sc.Ops = append(sc.Ops, rcvOp{K: "read", A: 4096})
		case 2:
			sc.Ops = append(sc.Ops, rcvOp{K: "read", A: 1}, rcvOp{K: "read", A: 64}, rcvOp{K: "read", A: 129})
		}
	}
	if readMode == 2 {
		sc.DrainRead = 200
	}
	if finMode == 1 {
		sc.Ops = append(sc.Ops, rcvOp{K: "seg", A: int64(nc), B: int64(nc), F: true})
		addReads()
	}
	for _, s := range segs {
		// F on a sweep segment means "carry the FIN if this segment reaches the final size"
		op := rcvOp{K: "sseg", A: int64(s[0]), B: int64(s[1]), F: finMode == 0}
		sc.Ops = append(sc.Ops, op)
		addReads()
	}
	if finMode == 2 {
		sc.Ops = append(sc.Ops, rcvOp{K: "seg", A: int64(nc), B: int64(nc), F: true})
		addReads()
	}
	return sc
}

// ---------------------------------------------------------------- shared helpers

// rcvContent yields the underlying byte string: position dependent, never the
// poison value, so any shift, duplication, zero-fill or recycled buffer shows.
func rcvContent(seed uint64, n int) []byte {
	b := make([]byte, n)
	x := KMix(seed, 0x5eed) | 1
	for i := range b {
		x ^= x << 13
		x ^= x >> 7
		x ^= x << 17
		v := byte(x >> 24)
		if v == rcvPoison {
			v = 0x11
		}
		b[i] = v
	}
	return b
}

func rcvBoundaries(cells []int) []int {
	if len(cells) == 0 {
		cells = rcvSweepCells
	}
	b := make([]int, 1, len(cells)+1)
	for _, c := range cells {
		if c < 1 {
			c = 1
		}
		if c > rcvMaxSeg {
			c = rcvMaxSeg
		}
		b = append(b, b[len(b)-1]+c)
	}
	return b
}

func rcvMod(a int64, n int) int {
	if n <= 0 {
		return 0
	}
	if a < 0 {
		a = -a
	}
	return int(a % int64(n))
}

// rcvMark marks [lo,hi) as received, returns how many bytes were new and
// keeps the number of gaps (maximal missing runs, including the unbounded
// one at the end) up to date. len(rcvd) must exceed hi.
func rcvMark(rcvd []bool, lo, hi int, gaps *int) int {
	if hi <= lo {
		return 0
	}
	cnt := func() int {
		c := 0
		for i := lo; i <= hi; i++ {
			if !rcvd[i] && (i == 0 || rcvd[i-1]) {
				c++
			}
		}
		return c
	}
	before := cnt()
	nb := 0
	for i := lo; i < hi; i++ {
		if !rcvd[i] {
			rcvd[i] = true
			nb++
		}
	}
	*gaps += cnt() - before
	return nb
}

func rcvGapsAfter(rcvd []bool, lo, hi int, gaps int) int {
	// number of gaps if [lo,hi) were marked (rcvd is left untouched)
	if hi <= lo {
		return gaps
	}
	get := func(i int, marked bool) bool {
		if marked && i >= lo && i < hi {
			return true
		}
		return rcvd[i]
	}
	cnt := func(marked bool) int {
		c := 0
		for i := lo; i <= hi; i++ {
			if !get(i, marked) && (i == 0 || get(i-1, marked)) {
				c++
			}
		}
		return c
	}
	return gaps + cnt(true) - cnt(false)
}

func rcvAvail(rcvd []bool, pos int) int {
	n := 0
	for pos+n < len(rcvd) && rcvd[pos+n] {
		n++
	}
	return n
}

// rcvWireCode is what the connection puts into CONNECTION_CLOSE for an error
// returned by a frame handler: the code of a TransportError, INTERNAL_ERROR (0x1)
// for anything else (connection.go handleCloseError).
func rcvWireCode(err error) uint64 {
	var te *qerr.TransportError
	if errors.As(err, &te) {
		return uint64(te.ErrorCode)
	}
	return 0x1
}

var rcvCodeName = map[uint64]string{0x1: "INTERNAL_ERROR", 0x3: "FLOW_CONTROL_ERROR", 0x6: "FINAL_SIZE_ERROR", 0xa: "PROTOCOL_VIOLATION", 0xd: "CRYPTO_BUFFER_EXCEEDED"}

// rcvExpectReject checks the outcome of an adversarial input.
func rcvExpectReject(res *KResult, what string, err error, detail string, codes ...uint64) {
	res.Fault(what)
	names := ""
	for i, c := range codes {
		if i > 0 {
			names += " or "
		}
		names += rcvCodeName[c]
	}
	if err == nil {
		res.Fail("adversarial "+what+" accepted (expected "+names+")", "%s", detail)
		return
	}
	got := rcvWireCode(err)
	for _, c := range codes {
		if c == got {
			return
		}
	}
	res.Fail("adversarial "+what+" rejected with the wrong error (expected "+names+")", "%s: code %#x err=%v", detail, got, err)
}

func rcvIslandOrder(count int, mult int64) func(i int) int {
	k := int(mult)
	if k < 1 {
		k = 1
	}
	gcd := func(a, b int) int {
		for b != 0 {
			a, b = b, a%b
		}
		return a
	}
	for gcd(k, count) != 1 {
		k++
	}
	return func(i int) int { return (i * k) % count }
}

// ---------------------------------------------------------------- class "stream"

type rcvSender struct {
	ctrl      bool
	conn      bool
	completed int
	fc        *rcvFCWrap
	leak      string
}

func (s *rcvSender) onHasConnectionData()                           { s.conn = true }
func (s *rcvSender) onHasStreamData(protocol.StreamID, *SendStream) {}
func (s *rcvSender) onHasStreamControlFrame(protocol.StreamID, streamControlFrameGetter) {
	s.ctrl = true
}
func (s *rcvSender) onStreamCompleted(protocol.StreamID) {
	s.completed++
	// C04, conservation: when the stream is done, every byte up to the final size has been returned as connection-level
	// credit - read by the application (AddBytesRead) or abandoned once the final size was known (Abandon credits the rest)
	if fc := s.fc; fc != nil && fc.finalKnown && fc.read != fc.final && !fc.abandonedAfterFinal && s.leak == "" {
		s.leak = fmt.Sprintf("final size %d, %d bytes read, Abandon not called after the final size was known", fc.final, fc.read)
	}
}

// rcvFCWrap observes what the stream tells its (real) flow controller.
type rcvFCWrap struct {
	flowcontrol.StreamFlowController
	read, final         protocol.ByteCount
	finalKnown          bool
	abandonedAfterFinal bool
	// the real flow controller said, in answer to AddBytesRead, that a window update has become due (since the last Read returned)
	connUpdDue, streamUpdDue bool
}

func (w *rcvFCWrap) AddBytesRead(n protocol.ByteCount) (bool, bool) {
	w.read += n
	hasStream, hasConn := w.StreamFlowController.AddBytesRead(n)
	w.connUpdDue = w.connUpdDue || hasConn
	w.streamUpdDue = w.streamUpdDue || hasStream
	return hasStream, hasConn
}

func (w *rcvFCWrap) UpdateHighestReceived(off protocol.ByteCount, final bool, now monotime.Time) error {
	err := w.StreamFlowController.UpdateHighestReceived(off, final, now)
	if err == nil && final {
		w.finalKnown, w.final = true, off
	}
	return err
}

func (w *rcvFCWrap) Abandon() {
	if w.finalKnown {
		w.abandonedAfterFinal = true
	}
	w.StreamFlowController.Abandon()
}

type rcvReq struct {
	peek bool
	n    int
}

type rcvRes struct {
	req rcvReq
	n   int
	err error
}

const (
	rcvHeld   = 0 // owned by the harness, outside the pool
	rcvPooled = 1 // put into the pool by the harness
	rcvInUse  = 2 // handed to the stream, not seen released yet
)

type rcvFrameInfo struct {
	state  int
	lo, hi int
}

type rcvStreamRun struct {
	missedUpd string // a connection window update that became due in a Read and was not announced
	sc        *rcvSub
	ops       []rcvOp
	res       *KResult
	S         []byte
	bnd       []int
	fc        int

	str  *ReceiveStream
	cfc  flowcontrol.ConnectionFlowController
	snd  *rcvSender
	fp   *wire.FrameParser
	wbuf []byte

	// model
	rcvd         []bool
	gaps         int
	readPos      int
	highest      int // highest offset the receiver's flow controller has seen (accepted frames, reset final sizes)
	peerFinal    int // the peer's final size (lowered by a reset before any FIN), -1: none in this history
	finSent      bool
	finKnown     bool // a FIN was accepted
	finalKnown   bool // a final size was accepted (FIN or RESET_STREAM)
	errKind      string
	cancelLocal  bool
	cancelCode   uint64
	resetCode    uint64
	resetCodeSet bool
	relSize      int
	shutdown     bool
	eofSeen      bool
	errSeen      bool
	deadlineSet  bool
	deadline     time.Time
	streamCredit int
	connCredit   int
	ended        bool

	// reader
	reqCh       chan rcvReq
	resCh       chan rcvRes
	rbuf        []byte
	pending     bool
	pendReq     rcvReq
	blockCtx    string
	wasBlocked  bool
	readerAlive bool

	// pool
	known  map[*wire.StreamFrame]*rcvFrameInfo
	free   []*wire.StreamFrame
	bottom *wire.StreamFrame
	primed bool
}

var rcvPoisonBlock = func() []byte {
	b := make([]byte, protocol.MaxPacketBufferSize)
	for i := range b {
		b[i] = rcvPoison
	}
	return b
}()

func rcvRunStream(sc *rcvSub, ops []rcvOp, res *KResult) {
	r := &rcvStreamRun{sc: sc, ops: ops, res: res}
	r.init()
	defer r.teardown()
	func() {
		defer func() {
			if p := recover(); p != nil {
				// a panic of the code under test; it may have unwound through a locked section
				res.Fail("panic: "+ksanitize(fmt.Sprint(p)), "%v\n%s", p, debug.Stack())
				r.forceUnlock()
			}
		}()
		for _, op := range ops {
			if res.Failed() || r.ended {
				break
			}
			res.Events++
			r.exec(op)
		}
		if !res.Failed() && !r.ended {
			r.finish()
		}
	}()
	fl := uint64(0)
	for i, b := range []bool{r.finKnown, r.finalKnown, r.cancelLocal, r.shutdown, r.eofSeen, r.errSeen, r.ended, r.snd.completed > 0} {
		if b {
			fl |= 1 << uint(i)
		}
	}
	res.TraceU(uint64(r.readPos), uint64(r.highest), fl, uint64(r.streamCredit), uint64(r.connCredit))
}

func (r *rcvStreamRun) init() {
	sc := r.sc
	r.bnd = rcvBoundaries(sc.Cells)
	nb := len(r.bnd) - 1
	r.fc = sc.FinalCell
	if r.fc < 1 || r.fc > nb {
		r.fc = nb
	}
	swin, cwin := sc.SWin, sc.CWin
	if swin < 1 {
		swin = 1 << 14
	}
	if cwin < 1 {
		cwin = 2 * swin
	}
	if swin > 1<<20 {
		swin = 1 << 20
	}
	if cwin > 1<<20 {
		cwin = 1 << 20
	}
	w := 2 * swin
	if 2*cwin > w {
		w = 2 * cwin
	}
	if w > 20000 {
		w = 20000
	}
	size := r.bnd[nb] + int(w) + 400
	for _, op := range r.ops {
		if op.K == "islands" {
			size += 3600
			break
		}
	}
	r.S = rcvContent(sc.CSeed, size)
	r.rcvd = make([]bool, size+2)
	r.gaps = 1
	r.peerFinal = r.bnd[r.fc]
	if sc.NoFin {
		r.peerFinal = -1
	}
	rtt := utils.NewRTTStats()
	if sc.RTTms > 0 {
		rtt.UpdateRTT(time.Duration(sc.RTTms)*time.Millisecond, 0)
	}
	r.cfc = flowcontrol.NewConnectionFlowController(protocol.ByteCount(cwin), protocol.ByteCount(2*cwin),
		func(protocol.ByteCount) bool { return true }, rtt, utils.DefaultLogger)
	sfc := flowcontrol.NewStreamFlowController(rcvStreamIDv, r.cfc, protocol.ByteCount(swin), protocol.ByteCount(2*swin), 0, rtt, utils.DefaultLogger)
	fcw := &rcvFCWrap{StreamFlowController: sfc}
	r.snd = &rcvSender{fc: fcw}
	r.str = newReceiveStream(rcvStreamIDv, r.snd, fcw)
	r.streamCredit, r.connCredit = int(swin), int(cwin)
	r.fp = wire.NewFrameParser(true, true, false)
	r.wbuf = make([]byte, 0, 1600)
	r.rbuf = make([]byte, rcvReadBufSize)
	r.reqCh = make(chan rcvReq)
	r.resCh = make(chan rcvRes, 1)
	r.readerAlive = true
	go func() {
		for rq := range r.reqCh {
			n, err := r.call(rq)
			r.resCh <- rcvRes{req: rq, n: n, err: err}
		}
	}()
	r.known = map[*wire.StreamFrame]*rcvFrameInfo{}
	r.poolFlush()
	r.poolPrime()
}

type rcvPanic struct{ msg, stack string }

func (p *rcvPanic) Error() string { return "panic: " + p.msg }

func (r *rcvStreamRun) call(rq rcvReq) (n int, err error) {
	defer func() {
		if p := recover(); p != nil {
			n, err = 0, &rcvPanic{msg: fmt.Sprint(p), stack: string(debug.Stack())}
		}
	}()
	if rq.peek {
		return r.str.Peek(r.rbuf[:rq.n])
	}
	n, err = r.str.Read(r.rbuf[:rq.n])
	// C04: credit that the application's Read has earned is advertised - whatever else the Read returns (the last bytes and
	// io.EOF at once, a deadline error): when the flow controller reports a connection-level update as due, the connection
	// is told to send it before the call returns (a sender blocked at the connection limit has no other way to learn it)
	if fc := r.snd.fc; fc != nil {
		if fc.connUpdDue && !r.snd.conn && r.missedUpd == "" {
			r.missedUpd = fmt.Sprintf("Read returned (%d, %v) after the flow controller reported a connection window update as due; onHasConnectionData was not called", n, err)
		}
		fc.connUpdDue, fc.streamUpdDue = false, false
	}
	return n, err
}

// forceUnlock releases the stream's mutex if a panic left it locked, so that the
// teardown (closeForShutdown, release of a blocked reader) cannot hang.
func (r *rcvStreamRun) forceUnlock() {
	r.str.mutex.TryLock()
	r.str.mutex.Unlock()
}

func (r *rcvStreamRun) teardown() {
	if r.readerAlive {
		if r.pending {
			r.str.closeForShutdown(rcvErrShutdown)
			r.shutdown = true
			synctest.Wait()
			select {
			case <-r.resCh:
				r.pending = false
			default:
				r.res.Fail("blocked Read or Peek not released by connection shutdown", "req=%+v", r.pendReq)
			}
		}
		close(r.reqCh)
		synctest.Wait()
		r.readerAlive = false
	}
	// leave the pool empty for the next run
	r.poolFlush()
}

// ---- stream frame pool discipline
//
// sync.Pool with one P and no GC during the run is deterministic: Get returns
// the private slot first, then the shared stack top-down. Before every step the
// pool holds exactly [private=A, shared=[B]] with A and B owned by the harness.
// The parser takes A for a frame >= 128 bytes; everything the stream releases
// (StreamFrame.PutBack) lands above B. After every step the harness draws
// frames until B appears: a frame that was handed to the stream has been
// released and is scribbled over its full capacity at once (if the stream still
// references it the byte oracle fails when those bytes are delivered); a frame
// the harness already holds outside the pool can only show up again if it was
// put back twice.

func (r *rcvStreamRun) poolFlush() {
	// drop whatever is in the pool until it hands out a fresh frame
	for i := 0; i < 100000; i++ {
		f := wire.GetStreamFrame()
		if len(f.Data) == 0 && f.StreamID == 0 && f.Offset == 0 && r.known[f] == nil {
			return
		}
	}
}

func (r *rcvStreamRun) poolTake() *wire.StreamFrame {
	if n := len(r.free); n > 0 {
		f := r.free[n-1]
		r.free = r.free[:n-1]
		return f
	}
	f := wire.GetStreamFrame() // the pool is empty: a new frame
	if r.known[f] != nil {
		r.res.Fail("pool handed out a frame the harness believes to be elsewhere", "state=%d", r.known[f].state)
	}
	r.known[f] = &rcvFrameInfo{state: rcvHeld}
	return f
}

func (r *rcvStreamRun) poolPrime() {
	a := r.poolTake()
	b := r.poolTake()
	for _, f := range []*wire.StreamFrame{a, b} {
		f.StreamID = 0x72637673 // stamped: not a fresh frame
		f.Data = f.Data[:0]
		r.known[f].state = rcvPooled
		f.PutBack()
	}
	r.bottom = b
	r.primed = true
}

func (r *rcvStreamRun) poolDrain() {
	if !r.primed {
		return
	}
	for i := 0; i < 100000; i++ {
		f := wire.GetStreamFrame()
		info := r.known[f]
		if info == nil {
			// the pool ran empty before the bottom marker showed up
			r.known[f] = &rcvFrameInfo{state: rcvHeld}
			r.free = append(r.free, f)
			r.res.Probe("pool-bottom-missing")
			break
		}
		switch info.state {
		case rcvPooled:
			info.state = rcvHeld
			r.free = append(r.free, f)
		case rcvInUse:
			info.state = rcvHeld
			copy(f.Data[:cap(f.Data)], rcvPoisonBlock)
			r.free = append(r.free, f)
			r.res.Probe("pool-frame-released")
		case rcvHeld:
			r.res.Fail("stream frame put back into the pool twice", "frame of segment [%d,%d)", info.lo, info.hi)
		}
		if f == r.bottom {
			break
		}
	}
	r.poolPrime()
}

// ---- wire image of a segment and its delivery

func (r *rcvStreamRun) parse(lo, hi int, fin bool) *wire.StreamFrame {
	h := KMix(r.sc.CSeed, uint64(lo), uint64(hi), 77)
	lenPresent := h&1 == 1
	offPresent := lo != 0 || h&2 == 2
	typ := byte(0x08)
	if fin {
		typ |= 0x1
	}
	if lenPresent {
		typ |= 0x2
	}
	if offPresent {
		typ |= 0x4
	}
	b := append(r.wbuf[:0], typ)
	b = quicvarint.Append(b, uint64(rcvStreamIDv))
	if offPresent {
		b = quicvarint.Append(b, uint64(lo))
	}
	if lenPresent {
		b = quicvarint.Append(b, uint64(hi-lo))
	}
	b = append(b, r.S[lo:hi]...)
	ft, l, err := r.fp.ParseType(b, protocol.Encryption1RTT)
	if err != nil {
		panic(fmt.Sprintf("harness: ParseType: %v", err))
	}
	f, _, err := r.fp.ParseStreamFrame(ft, b[l:], protocol.Version1)
	if err != nil {
		panic(fmt.Sprintf("harness: ParseStreamFrame: %v", err))
	}
	if int(f.Offset) != lo || len(f.Data) != hi-lo || f.Fin != fin || f.StreamID != rcvStreamIDv {
		panic("harness: parsed frame differs from the segment")
	}
	if cap(f.Data) == int(protocol.MaxPacketBufferSize) && len(f.Data) >= protocol.MinStreamFrameBufferSize {
		info := r.known[f]
		switch {
		case info == nil:
			r.known[f] = &rcvFrameInfo{state: rcvInUse, lo: lo, hi: hi}
			r.res.Probe("pool-unexpected-fresh-frame")
		case info.state != rcvPooled:
			r.res.Fail("pool handed a frame to the parser that is still referenced elsewhere", "state=%d old segment [%d,%d) new [%d,%d)", info.state, info.lo, info.hi, lo, hi)
		default:
			info.state, info.lo, info.hi = rcvInUse, lo, hi
		}
	}
	return f
}

// deliver hands a segment to the stream (if the connection still has it in its
// map) and returns the handler's error.
func (r *rcvStreamRun) deliver(lo, hi int, fin bool) error {
	f := r.parse(lo, hi, fin)
	r.res.Logf("  -> STREAM [%d,%d) fin=%v", lo, hi, fin)
	return r.str.handleStreamFrame(f, monotime.Now())
}

// accepted updates the model after a frame the receiver accepted.
func (r *rcvStreamRun) accepted(lo, hi int, fin bool) {
	if hi > r.highest {
		r.highest = hi
	}
	if fin {
		r.finKnown, r.finalKnown, r.finSent = true, true, true
		if hi == lo {
			r.res.Probe("fin-only")
		}
		for i := r.readPos; i < hi; i++ {
			if !r.rcvd[i] && !(i >= lo) {
				r.res.Probe("fin-before-data")
				break
			}
		}
	}
	if r.cancelLocal {
		return // data is dropped after CancelRead
	}
	nb := rcvMark(r.rcvd, lo, hi, &r.gaps)
	switch {
	case hi == lo:
	case nb == 0:
		r.res.Probe("duplicate")
	case nb < hi-lo:
		r.res.Probe("overlap-resplit")
	}
}

func (r *rcvStreamRun) gone() bool { return r.snd.completed > 0 || r.shutdown }

func (r *rcvStreamRun) credit() int {
	if r.connCredit < r.streamCredit {
		return r.connCredit
	}
	return r.streamCredit
}

// legit sends a segment an honest peer may send now; false if it may not.
func (r *rcvStreamRun) legit(lo, hi int, fin bool) bool {
	if r.gone() {
		r.res.Probe("frame-after-stream-gone")
		return false
	}
	if r.peerFinal >= 0 && hi > r.peerFinal {
		return false
	}
	if fin && (r.peerFinal < 0 || hi != r.peerFinal) {
		return false
	}
	if hi > r.credit() {
		r.res.Probe("peer-blocked")
		return false
	}
	if hi-lo > rcvMaxSeg {
		return false
	}
	if g := rcvGapsAfter(r.rcvd, lo, hi, r.gaps); g > protocol.MaxStreamFrameSorterGaps && !r.cancelLocal {
		return false
	}
	err := r.deliver(lo, hi, fin)
	if err != nil {
		r.res.Fail("legal STREAM frame rejected", "[%d,%d) fin=%v: %v", lo, hi, fin, err)
		return true
	}
	r.accepted(lo, hi, fin)
	r.res.Shape(fmt.Sprintf("s%v%v", hi-lo >= protocol.MinStreamFrameBufferSize, fin))
	return true
}

// ---- reader

func (r *rcvStreamRun) issue(rq rcvReq) {
	r.reqCh <- rq
	r.pending, r.pendReq, r.wasBlocked = true, rq, false
	r.settle()
}

func (r *rcvStreamRun) deadlinePassed() bool {
	return r.deadlineSet && !time.Now().Before(r.deadline)
}

func (r *rcvStreamRun) resetEffective() bool { return r.errKind == "remote" && r.readPos >= r.relSize }

func (r *rcvStreamRun) atEOF() bool {
	return r.finKnown && r.peerFinal >= 0 && r.readPos == r.peerFinal
}

// mustNotBlock returns why a call may not stay blocked in the current state ("" if it may).
func (r *rcvStreamRun) mustNotBlock(rq rcvReq) string {
	switch {
	case rq.n == 0:
		return "its buffer is empty"
	case r.cancelLocal:
		return "CancelRead was called"
	case r.resetEffective():
		return "the stream was reset and all reliable data was read"
	case r.shutdown:
		return "the connection was shut down"
	case r.deadlinePassed():
		return "the read deadline has passed"
	case r.atEOF():
		return "all data was read and the FIN was received"
	}
	av := rcvAvail(r.rcvd, r.readPos)
	if !rq.peek {
		if av > 0 {
			return "data is available"
		}
		return ""
	}
	if av >= rq.n {
		return "enough data is available"
	}
	if r.errKind == "remote" && rq.n > r.relSize-r.readPos && av >= r.relSize-r.readPos {
		return "all reliable data of the reset stream is available"
	}
	if r.finKnown && r.peerFinal >= 0 && rq.n > r.peerFinal-r.readPos && av >= r.peerFinal-r.readPos {
		return "all data up to the final size is available"
	}
	return ""
}

func (r *rcvStreamRun) settle() {
	if r.pending {
		synctest.Wait()
		select {
		case rs := <-r.resCh:
			r.pending = false
			r.onResult(rs)
		default:
		}
	}
	r.poolDrain()
	r.pump()
	if r.pending && !r.res.Failed() {
		r.wasBlocked = true
		r.res.Probe("reader-blocked")
		if why := r.mustNotBlock(r.pendReq); why != "" {
			what := "Read"
			if r.pendReq.peek {
				what = "Peek"
			}
			sig := what + " blocks although " + why
			if r.blockCtx != "" {
				sig = r.blockCtx
			}
			r.res.Fail(sig, "%s size=%d readPos=%d avail=%d final=%d finKnown=%v err=%q rel=%d", what, r.pendReq.n, r.readPos, rcvAvail(r.rcvd, r.readPos), r.peerFinal, r.finKnown, r.errKind, r.relSize)
		}
	}
	r.blockCtx = ""
}

func rcvIsTimeout(err error) bool { return errors.Is(err, os.ErrDeadlineExceeded) }

func (r *rcvStreamRun) onResult(rs rcvRes) {
	res := r.res
	what := "Read"
	if rs.req.peek {
		what = "Peek"
	}
	n, err := rs.n, rs.err
	res.Logf("  <- %s(%d) = %d, %v (readPos %d)", what, rs.req.n, n, err, r.readPos)
	if pe, ok := err.(*rcvPanic); ok {
		res.Fail("panic: "+ksanitize(pe.msg), "in %s: %s\n%s", what, pe.msg, pe.stack)
		r.forceUnlock()
		return
	}
	if rs.req.peek && rs.req.n == 0 {
		// documented: peeking nothing always succeeds
		if n != 0 || err != nil {
			res.Fail("Peek with an empty buffer failed", "n=%d err=%v", n, err)
		}
		return
	}
	// state at the time of the return (ops are sequential; a blocked call returns because of the last op)
	cancelled := r.cancelLocal
	effective := r.resetEffective()
	if n < 0 || n > rs.req.n {
		res.Fail(what+" returned an impossible byte count", "n=%d size=%d", n, rs.req.n)
		return
	}
	for i := 0; i < n; i++ {
		p := r.readPos + i
		if p >= len(r.S) || !r.rcvd[p] {
			res.Fail(what+" delivered bytes that were never received", "offset %d (readPos %d n %d)", p, r.readPos, n)
			return
		}
		if r.rbuf[i] != r.S[p] {
			sig := what + " delivered wrong bytes"
			if r.rbuf[i] == rcvPoison {
				sig = what + " delivered bytes of a recycled buffer"
			}
			res.Fail(sig, "offset %d: got %#x want %#x (readPos %d n %d)", p, r.rbuf[i], r.S[p], r.readPos, n)
			return
		}
	}
	if n > 0 && (cancelled || effective) {
		res.Fail(what+" delivered data after the stream was cancelled", "n=%d local=%v", n, cancelled)
		return
	}
	end := r.readPos + n
	if !rs.req.peek {
		r.readPos = end
		if n > 0 && r.wasBlocked {
			res.Probe("blocked-read-woken-by-data")
		}
	}
	var se *StreamError
	switch {
	case err == nil:
		switch {
		case cancelled:
			res.Fail(what+" succeeds after CancelRead", "n=%d", n)
		case effective:
			res.Fail(what+" succeeds after the stream was reset and all reliable data was read", "n=%d", n)
		case r.shutdown:
			res.Fail(what+" succeeds after connection shutdown", "n=%d", n)
		case rs.req.peek && n != rs.req.n:
			res.Fail("Peek returned fewer bytes than requested without an error", "n=%d size=%d", n, rs.req.n)
		case !rs.req.peek && n == 0 && rs.req.n > 0:
			res.Fail("Read returned no data and no error", "size=%d", rs.req.n)
		}
	case err == io.EOF:
		if !(r.finKnown && r.peerFinal >= 0 && end == r.peerFinal) {
			res.Fail(what+" reported EOF not exactly at the final size", "offset %d final %d finKnown=%v", end, r.peerFinal, r.finKnown)
			return
		}
		if !rs.req.peek {
			r.eofSeen = true
		}
		res.Probe("eof")
	case errors.As(err, &se):
		if se.StreamID != rcvStreamIDv {
			res.Fail("StreamError with a wrong stream id", "%v", err)
			return
		}
		switch r.errKind {
		case "local":
			if se.Remote || uint64(se.ErrorCode) != r.cancelCode {
				res.Fail(what+" returned a wrong error after CancelRead", "%v (want local code %d)", err, r.cancelCode)
				return
			}
			res.Probe("cancel-read-error")
		case "remote":
			if !se.Remote || uint64(se.ErrorCode) != r.resetCode {
				res.Fail(what+" returned a wrong error after RESET_STREAM", "%v (want remote code %d)", err, r.resetCode)
				return
			}
			if end < r.relSize && !cancelled {
				res.Fail(what+" returned the reset error before the reliable size was delivered", "offset %d reliable size %d", end, r.relSize)
				return
			}
			if r.relSize > 0 {
				res.Probe("reset-at-error-after-reliable-data")
			} else {
				res.Probe("reset-error")
			}
		default:
			res.Fail(what+" returned a StreamError without any cancellation", "%v", err)
			return
		}
		if !rs.req.peek {
			r.errSeen = true
		}
	case rcvIsTimeout(err):
		if !r.deadlinePassed() {
			res.Fail(what+" timed out before its deadline", "deadlineSet=%v in %v", r.deadlineSet, time.Until(r.deadline))
			return
		}
		if r.wasBlocked {
			res.Probe("deadline-fired")
		} else {
			res.Probe("deadline-already-passed")
		}
	case err == rcvErrShutdown:
		if !r.shutdown {
			res.Fail(what+" returned the shutdown error without a shutdown", "%v", err)
			return
		}
		res.Probe("shutdown-error")
	default:
		res.Fail(what+" returned an unexpected error", "%v", err)
		return
	}
	cls := 0
	switch {
	case err == nil:
	case err == io.EOF:
		cls = 1
	case se != nil:
		cls = 2
	case rcvIsTimeout(err):
		cls = 3
	default:
		cls = 4
	}
	res.TraceU(uint64(n), uint64(cls), uint64(r.readPos))
	res.Shape(fmt.Sprintf("%s%d/%v", what[:1], cls, n > 0))
}

// pump plays the connection: it collects the control frames the stream queued
// and gives the peer the credit they advertise.
func (r *rcvStreamRun) pump() {
	if r.snd.ctrl {
		r.snd.ctrl = false
		for i := 0; i < 4; i++ {
			f, ok, _ := r.str.getControlFrame(monotime.Now())
			if !ok {
				break
			}
			switch x := f.Frame.(type) {
			case *wire.MaxStreamDataFrame:
				if int(x.MaximumStreamData) > r.streamCredit {
					r.streamCredit = int(x.MaximumStreamData)
					r.res.Probe("max-stream-data")
				}
			case *wire.StopSendingFrame:
				r.res.Probe("stop-sending")
			}
		}
	}
	if r.snd.conn {
		r.snd.conn = false
		if w := r.cfc.GetWindowUpdate(monotime.Now()); int(w) > r.connCredit {
			r.connCredit = int(w)
			r.res.Probe("max-data")
		}
	}
}

// ---- operations

func (r *rcvStreamRun) segBounds(a, b int64, fin bool) (lo, hi int, ok bool) {
	i, j := rcvMod(a, r.fc+1), rcvMod(b, r.fc+1)
	if i > j {
		i, j = j, i
	}
	fin = fin && r.peerFinal >= 0
	if fin {
		j = r.fc
	} else if i == j {
		if j < r.fc {
			j++
		} else {
			i--
		}
	}
	lo, hi = r.bnd[i], r.bnd[j]
	if fin {
		hi = r.peerFinal
		if lo > hi {
			lo = hi
		}
	}
	for hi-lo > rcvMaxSeg {
		if fin {
			i++
			lo = r.bnd[i]
		} else {
			j--
			hi = r.bnd[j]
		}
	}
	if fin && lo > hi {
		lo = hi
	}
	return lo, hi, hi >= lo
}

func (r *rcvStreamRun) exec(op rcvOp) {
	res := r.res
	res.Logf("op %+v", op)
	defer func() {
		if r.missedUpd != "" && !res.Failed() {
			res.Fail("connection window update earned by a Read was not announced to the connection", "%s", r.missedUpd)
		}
		if r.snd.leak != "" && !res.Failed() {
			res.Fail("stream completed although unread bytes were never returned as connection-level credit", "%s", r.snd.leak)
		}
	}()
	switch op.K {
	case "seg":
		lo, hi, ok := r.segBounds(op.A, op.B, op.F)
		if ok {
			r.legit(lo, hi, op.F && r.peerFinal >= 0)
			r.settle()
		}
	case "sseg": // sweep segment: exact lattice interval, FIN (if wanted) when it reaches the final size
		nb := len(r.bnd) - 1
		i, j := rcvMod(op.A, nb+1), rcvMod(op.B, nb+1)
		if i >= j {
			return
		}
		lo, hi := r.bnd[i], r.bnd[j]
		r.legit(lo, hi, op.F && hi == r.peerFinal)
		r.settle()
	case "empty":
		o := r.bnd[rcvMod(op.A, r.fc+1)]
		if r.peerFinal >= 0 && o > r.peerFinal {
			return
		}
		r.legit(o, o, false)
		r.settle()
	case "read", "peek":
		if r.pending {
			res.Probe("read-skipped-while-blocked")
			return
		}
		n := int(op.A)
		if n < 0 {
			n = 0
		}
		if n > rcvReadBufSize {
			n = rcvReadBufSize
		}
		r.issue(rcvReq{peek: op.K == "peek", n: n})
	case "deadline":
		if op.B == 1 {
			r.str.SetReadDeadline(time.Time{})
			r.deadlineSet = false
		} else {
			r.deadline = time.Now().Add(time.Duration(op.A) * time.Millisecond)
			r.deadlineSet = true
			r.str.SetReadDeadline(r.deadline)
		}
		res.Shape("dl")
		r.settle()
	case "tick":
		d := op.A
		if d < 0 {
			d = 0
		}
		if d > 10000 {
			d = 10000
		}
		time.Sleep(time.Duration(d) * time.Millisecond)
		r.settle()
	case "cancel":
		code := uint64(op.A) & (1<<62 - 1)
		if r.pending && r.errKind == "remote" && !r.resetEffective() && !r.cancelLocal && !r.shutdown {
			r.blockCtx = "blocked Read or Peek not released by CancelRead after a RESET_STREAM_AT whose reliable data is still outstanding"
		}
		r.str.CancelRead(StreamErrorCode(code))
		if !r.shutdown && !r.cancelLocal {
			r.cancelLocal = true
			if r.errKind == "" && !r.eofSeen {
				r.errKind, r.cancelCode = "local", code
			}
			res.Probe("cancel-read")
			res.Shape("cancel")
		}
		r.settle()
	case "reset":
		r.opReset(op)
	case "shutdown":
		if !r.shutdown {
			r.str.closeForShutdown(rcvErrShutdown)
			r.shutdown = true
			res.Probe("shutdown")
			res.Shape("shutdown")
		}
		r.settle()
	case "bad":
		r.opBad(op)
	case "islands":
		r.opIslands(op)
	}
}

func (r *rcvStreamRun) opReset(op rcvOp) {
	if r.gone() || r.peerFinal < 0 {
		return
	}
	final := r.peerFinal
	if !r.finSent {
		final = r.bnd[rcvMod(op.B, r.fc+1)]
		if final < r.highest {
			final = r.highest
		}
		if final > r.credit() {
			final = r.credit()
		}
		if final < r.highest {
			return
		}
	}
	rel := 0
	if op.C > 0 {
		rel = r.bnd[rcvMod(op.C-1, r.fc+1)] + int(op.D&0xff)
		if rel > final {
			rel = final
		}
	}
	code := uint64(op.A) & (1<<62 - 1)
	if r.resetCodeSet {
		code = r.resetCode // a peer never changes the code
	}
	f := &wire.ResetStreamFrame{StreamID: rcvStreamIDv, ErrorCode: qerr.StreamErrorCode(code), FinalSize: protocol.ByteCount(final), ReliableSize: protocol.ByteCount(rel)}
	r.res.Logf("  -> RESET_STREAM final=%d reliable=%d code=%d", final, rel, code)
	waiting := r.pending && r.errKind == "remote" && !r.resetEffective() && !r.cancelLocal && rel < r.relSize
	err := r.str.handleResetStreamFrame(f, monotime.Now())
	if err != nil {
		r.res.Fail("legal RESET_STREAM frame rejected", "final=%d reliable=%d highest=%d: %v", final, rel, r.highest, err)
		return
	}
	r.peerFinal, r.finSent, r.finalKnown = final, true, true
	r.resetCode, r.resetCodeSet = code, true
	if final > r.highest {
		r.highest = final
	}
	switch {
	case r.cancelLocal:
	case r.errKind == "":
		r.errKind, r.relSize = "remote", rel
	case r.errKind == "remote" && rel < r.relSize:
		r.relSize = rel
		r.res.Probe("reliable-size-reduced")
	}
	if rel > 0 {
		r.res.Probe("reset-at")
	} else {
		r.res.Probe("reset")
	}
	r.res.Shape(fmt.Sprintf("reset%v", rel > 0))
	if waiting {
		r.blockCtx = "blocked Read or Peek not released when a later RESET_STREAM(_AT) lowers the reliable size"
	}
	r.settle()
}

func (r *rcvStreamRun) opBad(op rcvOp) {
	if r.gone() {
		return
	}
	res := r.res
	credit := r.credit()
	room := len(r.S) - 2
	switch op.A {
	case 0: // data beyond the established final size
		if !r.finalKnown {
			return
		}
		hi := r.peerFinal + 1 + int(op.B%64)
		lo := r.peerFinal - int(op.C%200)
		if lo < 0 {
			lo = 0
		}
		if hi > room {
			return
		}
		codes := []uint64{0x6}
		if hi > credit {
			codes = append(codes, 0x3)
		}
		err := r.deliver(lo, hi, false)
		rcvExpectReject(res, "data beyond the final size", err, fmt.Sprintf("[%d,%d) final %d", lo, hi, r.peerFinal), codes...)
	case 1: // a second FIN with another final size
		if !r.finalKnown {
			return
		}
		var nf int
		if op.B%2 == 0 && r.peerFinal > 0 {
			nf = r.peerFinal - 1 - int(op.C)%r.peerFinal
		} else {
			nf = r.peerFinal + 1 + int(op.C%50)
		}
		if nf > room {
			return
		}
		codes := []uint64{0x6}
		if nf > credit {
			codes = append(codes, 0x3)
		}
		lo := nf
		if op.B%4 >= 2 {
			lo = nf - int(op.C%130)
			if lo < 0 {
				lo = 0
			}
		}
		err := r.deliver(lo, nf, true)
		rcvExpectReject(res, "second FIN with a different final size", err, fmt.Sprintf("[%d,%d) fin, final %d", lo, nf, r.peerFinal), codes...)
	case 2: // a final size below data already received
		if r.finalKnown || r.highest == 0 {
			return
		}
		nf := r.highest - 1 - int(op.B)%r.highest
		var err error
		if op.C%2 == 0 {
			err = r.deliver(nf, nf, true)
		} else {
			err = r.str.handleResetStreamFrame(&wire.ResetStreamFrame{StreamID: rcvStreamIDv, ErrorCode: 5, FinalSize: protocol.ByteCount(nf)}, monotime.Now())
		}
		rcvExpectReject(res, "final size below data already received", err, fmt.Sprintf("final %d highest %d reset=%v", nf, r.highest, op.C%2 == 1), 0x6)
	case 3: // RESET_STREAM contradicting the established final size
		if !r.finalKnown {
			return
		}
		var nf int
		if op.B%2 == 0 && r.peerFinal > 0 {
			nf = r.peerFinal - 1 - int(op.C)%r.peerFinal
		} else {
			nf = r.peerFinal + 1 + int(op.C%50)
		}
		codes := []uint64{0x6}
		if nf > credit {
			codes = append(codes, 0x3)
		}
		rel := 0
		if op.B%4 >= 2 {
			rel = nf / 2
		}
		err := r.str.handleResetStreamFrame(&wire.ResetStreamFrame{StreamID: rcvStreamIDv, ErrorCode: 5, FinalSize: protocol.ByteCount(nf), ReliableSize: protocol.ByteCount(rel)}, monotime.Now())
		rcvExpectReject(res, "RESET_STREAM with a different final size", err, fmt.Sprintf("final %d established %d", nf, r.peerFinal), codes...)
	case 4: // data beyond the advertised flow control credit
		hi := credit + 1 + int(op.B%40)
		lo := hi - 1 - int(op.C%300)
		if lo < 0 {
			lo = 0
		}
		if hi > room {
			return
		}
		codes := []uint64{0x3}
		if r.finalKnown && hi > r.peerFinal {
			codes = append(codes, 0x6)
		}
		err := r.deliver(lo, hi, false)
		which := "stream"
		if r.connCredit < r.streamCredit {
			which = "connection"
		}
		res.Probe("flow-violation-" + which)
		rcvExpectReject(res, "data beyond the flow control credit", err, fmt.Sprintf("[%d,%d) stream credit %d conn credit %d", lo, hi, r.streamCredit, r.connCredit), codes...)
	default:
		return
	}
	r.ended = true
	r.settle()
}

func (r *rcvStreamRun) opIslands(op rcvOp) {
	if r.gone() || r.cancelLocal || r.peerFinal >= 0 {
		return
	}
	count := int(op.A)
	if count < 1 || count > 1200 {
		return
	}
	stride := int(op.B)
	if stride < 2 {
		stride = 2
	}
	if stride > 3 {
		stride = 3
	}
	nb := len(r.bnd) - 1
	base := r.bnd[nb] + 1
	if base+stride*count+1 >= len(r.S) || base+stride*count > r.credit() {
		return
	}
	ord := rcvIslandOrder(count, op.C)
	for i := 0; i < count; i++ {
		lo := base + stride*ord(i)
		hi := lo + 1
		want := rcvGapsAfter(r.rcvd, lo, hi, r.gaps)
		err := r.deliver(lo, hi, false)
		if want > protocol.MaxStreamFrameSorterGaps {
			r.res.Probe("gap-limit")
			rcvExpectReject(r.res, "segment exceeding the gap limit of the reassembly queue", err, fmt.Sprintf("island %d at %d, gaps would be %d", i, lo, want), 0x1)
			r.ended = true
			break
		}
		if err != nil {
			r.res.Fail("legal STREAM frame rejected", "island %d [%d,%d) gaps %d: %v", i, lo, hi, want, err)
			return
		}
		r.accepted(lo, hi, false)
	}
	r.res.Shape("islands")
	r.settle()
}

// finish heals the network: everything still missing is delivered in order and the
// reader drains the stream; the terminal condition must then be reported.
func (r *rcvStreamRun) finish() {
	res := r.res
	if r.pending {
		// a call that is (legitimately) blocked is released through its deadline; the stream stays usable
		r.deadline = time.Now()
		r.deadlineSet = true
		r.str.SetReadDeadline(r.deadline)
		r.settle()
		if res.Failed() {
			return
		}
	}
	if r.deadlineSet {
		r.str.SetReadDeadline(time.Time{})
		r.deadlineSet = false
		r.settle()
	}
	drain := r.sc.DrainRead
	if drain < 1 {
		drain = 4096
	}
	if drain > rcvReadBufSize {
		drain = rcvReadBufSize
	}
	readOnce := func() {
		if !r.pending && !res.Failed() {
			r.issue(rcvReq{n: drain})
		}
	}
	if r.shutdown || r.cancelLocal {
		readOnce() // must fail (checked in onResult / settle)
		return
	}
	limit := r.peerFinal
	if r.errKind == "remote" {
		limit = r.relSize
	} else if limit < 0 {
		limit = r.highest
	}
	for iter := 0; iter < 100000 && !res.Failed(); iter++ {
		if r.eofSeen || r.errSeen {
			break
		}
		before := r.readPos
		sent, creditStall := false, false
		if !r.gone() {
			lo := r.readPos
			for lo < limit && r.rcvd[lo] {
				lo++
			}
			if lo < limit {
				hi := lo
				for hi < limit && !r.rcvd[hi] && hi-lo < 1200 {
					hi++
				}
				if c := r.credit(); hi > c {
					hi = c
				}
				if hi > lo {
					fin := r.errKind == "" && r.peerFinal >= 0 && hi == r.peerFinal
					sent = r.legit(lo, hi, fin)
					r.settle()
				} else {
					creditStall = true
				}
			} else if r.errKind == "" && r.peerFinal >= 0 && !r.finKnown {
				sent = r.legit(r.peerFinal, r.peerFinal, true)
				r.settle()
			}
		}
		if r.readPos >= limit && r.errKind == "" && r.peerFinal < 0 {
			break // open-ended stream: everything sent was read
		}
		readOnce()
		if !sent && r.readPos == before && !r.eofSeen && !r.errSeen && !res.Failed() {
			if creditStall {
				res.Note("drain stalled on flow control credit")
			} else {
				res.Fail("stream never reported its end although everything was delivered", "readPos=%d limit=%d final=%d finKnown=%v err=%q pending=%v gone=%v", r.readPos, limit, r.peerFinal, r.finKnown, r.errKind, r.pending, r.gone())
			}
			break
		}
	}
	if res.Failed() {
		return
	}
	if r.errKind == "" && r.peerFinal >= 0 && r.eofSeen {
		res.Probe("stream-completed")
		if r.readPos != r.peerFinal {
			res.Fail("EOF reported but not all bytes were delivered", "readPos=%d final=%d", r.readPos, r.peerFinal)
		}
	}
	res.Nontrivial = res.Nontrivial || r.readPos > 0
}

// ---------------------------------------------------------------- class "sorter"

type rcvBuf struct {
	data     []byte
	lo       int
	released int
}

func rcvRunSorter(sc *rcvSub, ops []rcvOp, res *KResult) {
	bnd := rcvBoundaries(sc.Cells)
	nb := len(bnd) - 1
	size := bnd[nb] + 400
	for _, op := range ops {
		if op.K == "islands" {
			size += 3600
			break
		}
	}
	S := rcvContent(sc.CSeed, size)
	rcvd := make([]bool, size+2)
	gaps := 1
	readPos := 0
	s := newFrameSorter()
	// the data the consumer popped last; released when it moves on, like ReceiveStream does
	var heldData []byte
	var heldOff int
	var heldCb func()
	ended := false

	release := func(b *rcvBuf) {
		b.released++
		if b.released > 1 {
			res.Fail("buffer released twice by the frame sorter", "segment at %d len %d", b.lo, len(b.data))
			return
		}
		for i := range b.data {
			b.data[i] = rcvPoison
		}
		res.Probe("sorter-buffer-released")
	}
	verify := func(off int, data []byte, what string) bool {
		for i, v := range data {
			p := off + i
			if p >= len(S) || !rcvd[p] {
				res.Fail(what+" delivered bytes that were never received", "offset %d", p)
				return false
			}
			if v != S[p] {
				sig := what + " delivered wrong bytes"
				if v == rcvPoison {
					sig = what + " delivered bytes of a released buffer"
				}
				res.Fail(sig, "offset %d got %#x want %#x", p, v, S[p])
				return false
			}
		}
		return true
	}
	push := func(lo, hi int) error {
		b := &rcvBuf{data: append([]byte(nil), S[lo:hi]...), lo: lo}
		var cb func()
		if !sc.NilCb {
			cb = func() { release(b) }
		}
		return s.Push(b.data, protocol.ByteCount(lo), cb)
	}
	legit := func(lo, hi int) {
		if rcvGapsAfter(rcvd, lo, hi, gaps) > protocol.MaxStreamFrameSorterGaps {
			return
		}
		if err := push(lo, hi); err != nil {
			res.Fail("legal segment rejected by the frame sorter", "[%d,%d): %v", lo, hi, err)
			return
		}
		nbytes := rcvMark(rcvd, lo, hi, &gaps)
		switch {
		case hi == lo:
		case nbytes == 0:
			res.Probe("duplicate")
		case nbytes < hi-lo:
			res.Probe("overlap-resplit")
		}
		res.Shape(fmt.Sprintf("p%v", hi-lo >= protocol.MinStreamFrameBufferSize))
	}
	releaseHeld := func() {
		if heldData == nil {
			return
		}
		// the consumer still owns the popped data: it must be intact until it lets go
		verify(heldOff, heldData, "Pop (data held by the consumer)")
		if heldCb != nil {
			heldCb()
		}
		heldData, heldCb = nil, nil
	}
	pop := func() bool {
		releaseHeld()
		if res.Failed() {
			return false
		}
		off, data, cb := s.Pop()
		if data == nil {
			if rcvd[readPos] {
				res.Fail("Pop returns nothing although the next byte was received", "readPos %d avail %d", readPos, rcvAvail(rcvd, readPos))
			}
			return false
		}
		if int(off) != readPos {
			res.Fail("Pop returned data at a wrong offset", "offset %d readPos %d", off, readPos)
			return false
		}
		if len(data) == 0 {
			res.Fail("Pop returned an empty segment", "offset %d", off)
			return false
		}
		if !verify(readPos, data, "Pop") {
			return false
		}
		if cb == nil && !sc.NilCb {
			res.Probe("copy-path")
		} else {
			res.Probe("zero-copy-path")
		}
		heldOff, heldData, heldCb = readPos, data, cb
		readPos += len(data)
		res.TraceU(uint64(off), uint64(len(data)))
		if s.HasMoreData() != rcvAnyFrom(rcvd, readPos) {
			res.Fail("HasMoreData disagrees with the received data", "readPos %d has=%v", readPos, s.HasMoreData())
		}
		return true
	}

	for _, op := range ops {
		if res.Failed() || ended {
			break
		}
		res.Events++
		switch op.K {
		case "seg":
			i, j := rcvMod(op.A, nb+1), rcvMod(op.B, nb+1)
			if i > j {
				i, j = j, i
			}
			if i == j {
				if j < nb {
					j++
				} else {
					i--
				}
			}
			legit(bnd[i], bnd[j])
		case "empty":
			o := bnd[rcvMod(op.A, nb+1)]
			legit(o, o)
		case "pop":
			for k := int64(0); k < op.A && k < 10; k++ {
				if !pop() {
					break
				}
			}
			res.Shape("pop")
		case "speek":
			n := int(op.A)
			if n < 1 || n > 4096 {
				n = 1
			}
			p := make([]byte, n)
			err := s.Peek(protocol.ByteCount(readPos), p)
			av := rcvAvail(rcvd, readPos)
			switch {
			case err == nil && av < n:
				res.Fail("sorter Peek succeeds without enough contiguous data", "n=%d avail=%d", n, av)
			case err != nil && av >= n:
				res.Fail("sorter Peek fails although enough contiguous data is queued", "n=%d avail=%d err=%v", n, av, err)
			case err == nil:
				verify(readPos, p, "sorter Peek")
				res.Probe("sorter-peek-ok")
			}
		case "islands":
			count := int(op.A)
			if count < 1 || count > 1200 {
				break
			}
			stride := int(op.B)
			if stride < 2 || stride > 3 {
				stride = 2
			}
			base := bnd[nb] + 1
			if base+stride*count+1 >= len(S) {
				break
			}
			ord := rcvIslandOrder(count, op.C)
			for i := 0; i < count && !res.Failed(); i++ {
				lo := base + stride*ord(i)
				want := rcvGapsAfter(rcvd, lo, lo+1, gaps)
				err := push(lo, lo+1)
				if want > protocol.MaxStreamFrameSorterGaps {
					res.Probe("gap-limit")
					rcvExpectReject(res, "segment exceeding the gap limit of the reassembly queue", err, fmt.Sprintf("island %d gaps would be %d", i, want), 0x1)
					ended = true
					break
				}
				if err != nil {
					res.Fail("legal segment rejected by the frame sorter", "island [%d,%d): %v", lo, lo+1, err)
					break
				}
				rcvMark(rcvd, lo, lo+1, &gaps)
			}
		}
	}
	// drain: fill every hole in order, pop everything
	if !res.Failed() && !ended {
		limit := 0
		for i := len(rcvd) - 1; i >= 0; i-- {
			if rcvd[i] {
				limit = i + 1
				break
			}
		}
		if !sc.NoFin && limit < bnd[nb] {
			limit = bnd[nb]
		}
		for !res.Failed() && readPos < limit {
			lo := readPos
			for lo < limit && rcvd[lo] {
				lo++
			}
			if lo < limit {
				hi := lo
				for hi < limit && !rcvd[hi] && hi-lo < 1200 {
					hi++
				}
				legit(lo, hi)
			}
			progressed := false
			for pop() {
				progressed = true
			}
			if !progressed && lo >= limit {
				res.Fail("frame sorter does not deliver queued data", "readPos %d limit %d", readPos, limit)
			}
		}
		releaseHeld()
		if !res.Failed() && s.HasMoreData() {
			res.Fail("HasMoreData after everything was popped", "readPos %d", readPos)
		}
	}
	res.Nontrivial = res.Nontrivial || readPos > 0
	res.TraceU(uint64(readPos), uint64(gaps))
}

func rcvAnyFrom(rcvd []bool, pos int) bool {
	for i := pos; i < len(rcvd); i++ {
		if rcvd[i] {
			return true
		}
	}
	return false
}

// ---------------------------------------------------------------- class "crypto"

type rcvCryptoLevel struct {
	S        []byte
	rcvd     []bool
	gaps     int
	readPos  int
	highest  int
	finished bool
}

func rcvRunCrypto(sc *rcvSub, ops []rcvOp, res *KResult) {
	bnd := rcvBoundaries(sc.Cells)
	// crypto frames are not limited to one packet buffer in this model: undo the clamp of rcvBoundaries
	bnd = bnd[:1]
	for _, c := range sc.Cells {
		if c < 1 {
			c = 1
		}
		if c > 4000 {
			c = 4000
		}
		bnd = append(bnd, bnd[len(bnd)-1]+c)
	}
	if len(bnd) == 1 {
		bnd = rcvBoundaries(nil)
	}
	nb := len(bnd) - 1
	limit := int(protocol.MaxCryptoStreamOffset)
	levels := []protocol.EncryptionLevel{protocol.EncryptionInitial, protocol.EncryptionHandshake, protocol.Encryption1RTT}
	var lv [3]*rcvCryptoLevel
	for i := range lv {
		lv[i] = &rcvCryptoLevel{S: rcvContent(KMix(sc.CSeed, uint64(i)), limit+400), rcvd: make([]bool, limit+402), gaps: 1}
	}
	mgr := newCryptoStreamManager(newInitialCryptoStream(sc.CSeed&1 == 1), newCryptoStream(), newCryptoStream())
	ended := false

	drain := func(li int) {
		l := lv[li]
		for !res.Failed() {
			data := mgr.GetCryptoData(levels[li])
			if data == nil {
				break
			}
			if len(data) == 0 {
				res.Fail("GetCryptoData returned an empty chunk", "level %d", li)
				return
			}
			for i, v := range data {
				p := l.readPos + i
				if p >= len(l.S) || !l.rcvd[p] {
					res.Fail("crypto stream delivered bytes that were never received", "level %d offset %d", li, p)
					return
				}
				if v != l.S[p] {
					res.Fail("crypto stream delivered wrong bytes", "level %d offset %d got %#x want %#x", li, p, v, l.S[p])
					return
				}
			}
			l.readPos += len(data)
			res.TraceU(uint64(li), uint64(len(data)))
		}
		if !res.Failed() && l.rcvd[l.readPos] {
			res.Fail("crypto data is contiguous but was not delivered", "level %d readPos %d", li, l.readPos)
		}
	}
	handle := func(li, lo, hi int) error {
		l := lv[li]
		// the parser allocates a fresh buffer per CRYPTO frame
		f := &wire.CryptoFrame{Offset: protocol.ByteCount(lo), Data: append([]byte(nil), l.S[lo:hi]...)}
		return mgr.HandleCryptoFrame(f, levels[li])
	}
	legit := func(li, lo, hi int) {
		l := lv[li]
		if hi > limit {
			return
		}
		if l.finished {
			if hi > l.highest {
				return // not something an honest peer does
			}
			if err := handle(li, lo, hi); err != nil {
				res.Fail("retransmitted CRYPTO data rejected after the level was completed", "level %d [%d,%d): %v", li, lo, hi, err)
				return
			}
			res.Probe("crypto-retransmission-after-finish")
			if d := mgr.GetCryptoData(levels[li]); d != nil {
				res.Fail("crypto data delivered after the level was completed", "level %d len %d", li, len(d))
			}
			return
		}
		if rcvGapsAfter(l.rcvd, lo, hi, l.gaps) > protocol.MaxStreamFrameSorterGaps {
			return
		}
		if err := handle(li, lo, hi); err != nil {
			res.Fail("legal CRYPTO frame rejected", "level %d [%d,%d): %v", li, lo, hi, err)
			return
		}
		nbytes := rcvMark(l.rcvd, lo, hi, &l.gaps)
		switch {
		case nbytes == 0:
			res.Probe("crypto-duplicate")
		case nbytes < hi-lo:
			res.Probe("crypto-overlap-resplit")
		}
		if hi > l.highest {
			l.highest = hi
		}
		res.Shape(fmt.Sprintf("c%d%v", li, hi-lo >= protocol.MinStreamFrameBufferSize))
		drain(li)
	}

	for _, op := range ops {
		if res.Failed() || ended {
			break
		}
		res.Events++
		switch op.K {
		case "cseg":
			li := rcvMod(op.A, 3)
			i, j := rcvMod(op.B, nb+1), rcvMod(op.C, nb+1)
			if i > j {
				i, j = j, i
			}
			if i == j {
				if j < nb {
					j++
				} else {
					i--
				}
			}
			legit(li, bnd[i], bnd[j])
		case "cedge": // a frame ending exactly at the largest offset the crypto stream accepts
			li := rcvMod(op.A, 3)
			n := int(op.B)
			if n < 1 || n > 4000 {
				n = 1
			}
			legit(li, limit-n, limit)
			res.Probe("crypto-at-cap")
		case "cdrop":
			li := rcvMod(op.A, 2)
			l := lv[li]
			leftover := rcvAnyFrom(l.rcvd, l.readPos)
			if l.finished {
				break
			}
			if leftover && !sc.Adv {
				break // an honest peer's flight is complete when keys are dropped
			}
			err := mgr.Drop(levels[li])
			if leftover {
				rcvExpectReject(res, "encryption level completed while CRYPTO data is still queued", err, fmt.Sprintf("level %d readPos %d", li, l.readPos), 0xa)
				ended = true
				break
			}
			if err != nil {
				res.Fail("completing an encryption level without queued data failed", "level %d: %v", li, err)
				break
			}
			l.finished = true
			res.Probe("crypto-level-finished")
			res.Shape("cdrop")
		case "cbad":
			li := rcvMod(op.B, 3)
			l := lv[li]
			switch op.A % 4 {
			case 0, 1: // beyond the buffer cap
				hi := limit + 1 + int(op.C%300)
				lo := hi - 1 - int(op.C%1000)
				if lo < 0 {
					lo = 0
				}
				err := handle(li, lo, hi)
				rcvExpectReject(res, "CRYPTO data beyond the crypto buffer limit", err, fmt.Sprintf("level %d [%d,%d) finished=%v", li, lo, hi, l.finished), 0xd)
				ended = true
			case 2, 3: // new data after the level was completed
				if !l.finished {
					break
				}
				hi := l.highest + 1 + int(op.C%200)
				if hi > limit {
					break
				}
				lo := hi - 1 - int(op.C%150)
				if lo < 0 {
					lo = 0
				}
				err := handle(li, lo, hi)
				rcvExpectReject(res, "new CRYPTO data after the encryption level was completed", err, fmt.Sprintf("level %d [%d,%d) highest %d", li, lo, hi, l.highest), 0xa)
				ended = true
			}
		case "islands":
			li := rcvMod(op.D, 3)
			l := lv[li]
			count := int(op.A)
			if l.finished || count < 1 || count > 1200 {
				break
			}
			stride := int(op.B)
			if stride < 2 || stride > 3 {
				stride = 2
			}
			base := bnd[nb] + 1
			if base+stride*count+1 >= limit {
				break
			}
			ord := rcvIslandOrder(count, op.C)
			for i := 0; i < count && !res.Failed(); i++ {
				lo := base + stride*ord(i)
				want := rcvGapsAfter(l.rcvd, lo, lo+1, l.gaps)
				err := handle(li, lo, lo+1)
				if want > protocol.MaxStreamFrameSorterGaps {
					res.Probe("gap-limit")
					rcvExpectReject(res, "segment exceeding the gap limit of the reassembly queue", err, fmt.Sprintf("crypto level %d island %d", li, i), 0x1)
					ended = true
					break
				}
				if err != nil {
					res.Fail("legal CRYPTO frame rejected", "level %d island [%d,%d): %v", li, lo, lo+1, err)
					break
				}
				rcvMark(l.rcvd, lo, lo+1, &l.gaps)
				if lo+1 > l.highest {
					l.highest = lo + 1
				}
			}
			if !ended && !res.Failed() {
				drain(li)
			}
		}
	}
	// heal: every level that is still open receives its holes in order and must deliver everything
	if !res.Failed() && !ended {
		for li := 0; li < 3 && !res.Failed(); li++ {
			l := lv[li]
			if l.finished {
				continue
			}
			for !res.Failed() && l.readPos < l.highest {
				lo := l.readPos
				for lo < l.highest && l.rcvd[lo] {
					lo++
				}
				if lo >= l.highest {
					res.Fail("crypto data is contiguous but was not delivered", "level %d readPos %d highest %d", li, l.readPos, l.highest)
					break
				}
				hi := lo
				for hi < l.highest && !l.rcvd[hi] && hi-lo < 1200 {
					hi++
				}
				legit(li, lo, hi)
			}
			if !res.Failed() && li < 2 {
				if err := mgr.Drop(levels[li]); err != nil {
					res.Fail("completing an encryption level without queued data failed", "level %d: %v", li, err)
				}
			}
		}
	}
	for _, l := range lv {
		res.TraceU(uint64(l.readPos), uint64(l.highest))
		res.Nontrivial = res.Nontrivial || l.readPos > 0
	}
}
