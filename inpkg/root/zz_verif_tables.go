package quic

// Overlay file of /verif (never part of /repo): read-only view of what a Transport still holds, so that simulations
// can check that connections which have ended leave nothing behind (routing entries, closed-connection handlers,
// stateless-reset tokens).

// VerifTransportTables returns the number of connection IDs routed to live connections, the number routed to
// closed-connection handlers, and the number of registered stateless-reset tokens.
func VerifTransportTables(t *Transport) (live, closed, resetTokens int) {
	if t == nil {
		return 0, 0, 0
	}
	t.mutex.Lock()
	defer t.mutex.Unlock()
	for _, h := range t.handlers {
		switch h.(type) {
		case *closedLocalConn, *closedRemoteConn:
			closed++
		default:
			live++
		}
	}
	return live, closed, len(t.resetTokens)
}
