package quic

// K:connid - component simulation for property C16 ("connection IDs: limits
// honoured both ways, retirements reported, routing clean"): the real
// connIDManager (IDs issued by the peer) and the real connIDGenerator (IDs we
// issue, registered in a real packetHandlerMap) driven by a seeded history of
// NEW_CONNECTION_ID / RETIRE_CONNECTION_ID frames (conformant closed-loop peer,
// reordering / duplicating channel, adversarial raw frames), packets sent,
// path probes, handshake completion, simulated time and close, against a
// set-based reference model. Overlay file of /verif; never part of /repo.

import (
	"errors"
	"fmt"
	"sort"
	"testing"
	"testing/synctest"
	"time"

	"github.com/refraction-networking/uquic/internal/monotime"
	"github.com/refraction-networking/uquic/internal/protocol"
	"github.com/refraction-networking/uquic/internal/qerr"
	"github.com/refraction-networking/uquic/internal/utils"
	"github.com/refraction-networking/uquic/internal/wire"
)

func init() { KRegister(cidSim()) }

type cidOp struct {
	K string `json:"k"`
	A int64  `json:"a,omitempty"`
	B int64  `json:"b,omitempty"`
	C int64  `json:"c,omitempty"`
	D int64  `json:"d,omitempty"`
}

type cidScenario struct {
	Seed      uint64  `json:"seed"`
	Server    bool    `json:"server"`
	Limit     int     `json:"limit"`     // active_connection_id_limit we advertise (2..8)
	SetLimit  bool    `json:"set_limit"` // SetConnectionIDLimit(Limit) is called (always when Limit differs from the library default)
	OwnLen    int     `json:"own_len"`   // length of the IDs we issue (0: zero-length)
	PeerLen   int     `json:"peer_len"`  // length of the peer's IDs (0: zero-length)
	Reorder   bool    `json:"reorder"`   // channel may reorder NEW_CONNECTION_ID frames
	Dup       bool    `json:"dup"`       // channel may duplicate NEW_CONNECTION_ID frames
	Adversary bool    `json:"adversary"` // raw / conflicting / limit-exceeding frames
	Paths     bool    `json:"paths"`     // path probing in use
	Close     int     `json:"close"`     // 0 RemoveAll, 1 ReplaceWithClosed(nil), 2 ReplaceWithClosed(packet)
	PTOms     int     `json:"pto_ms"`
	Ops       []cidOp `json:"ops"`
}

func (s *cidScenario) KSeed() uint64 { return s.Seed }

func cidSim() *KSim {
	return &KSim{
		Name: "connid",
		New:  func() KScenario { return &cidScenario{} },
		Gen:  cidGenScenario,
		Run:  cidRunScenario,
	}
}

func cidGenScenario(seed uint64, tier string) KScenario {
	r := NewKRng(seed)
	sc := &cidScenario{Seed: seed, Server: r.Bool()}
	def := int(protocol.MaxActiveConnectionIDs) // what a connection without a spec advertises
	sc.Limit = def
	if r.P(0.45) {
		sc.Limit = r.Range(2, 8)
	}
	sc.SetLimit = sc.Limit != def || r.P(0.3)
	sc.PeerLen = r.Pick(4, 8, 8, 16, 20)
	if r.P(0.07) {
		sc.PeerLen = 0
	}
	sc.OwnLen = r.Pick(4, 4, 8, 12, 20, 2) // 2: IDs drawn from a small alphabet, so that fresh IDs collide with active ones
	if r.P(0.07) {
		sc.OwnLen = 0
	}
	sc.Reorder = r.P(0.5)
	sc.Dup = r.P(0.35)
	sc.Adversary = r.P(0.3)
	sc.Paths = r.P(0.45)
	sc.Close = r.N(3)
	sc.PTOms = r.Pick(1, 25, 100, 333)
	n := r.Range(5, 70)
	if tier == "thorough" && r.P(0.3) {
		n = r.Range(70, 400)
	}
	if !sc.Server {
		if r.P(0.5) {
			sc.Ops = append(sc.Ops, cidOp{K: "settoken"})
		}
		if r.P(0.2) {
			sc.Ops = append(sc.Ops, cidOp{K: "changeinit"})
		}
		if r.P(0.1) {
			sc.Ops = append(sc.Ops, cidOp{K: "prefaddr"})
		}
	}
	if r.P(0.9) {
		sc.Ops = append(sc.Ops, cidOp{K: "maxids", A: int64(r.Range(2, 8))})
	}
	hsAt := -1
	if r.P(0.85) {
		hsAt = r.N(6)
	}
	type wk struct {
		w int
		k string
	}
	ws := []wk{{12, "peer"}, {24, "deliver"}, {10, "send"}, {1, "hs"}, {2, "maxids"}, {14, "retire"}, {6, "tick"}, {6, "gc"}}
	if sc.Dup {
		ws = append(ws, wk{6, "redeliver"})
	}
	if sc.Adversary {
		ws = append(ws, wk{7, "ncid"})
	}
	if sc.Paths {
		ws = append(ws, wk{7, "pathget"}, wk{3, "pathretire"})
	}
	if !sc.Server {
		ws = append(ws, wk{1, "settoken"}, wk{1, "changeinit"}, wk{1, "addrunner"})
	}
	tot := 0
	for _, w := range ws {
		tot += w.w
	}
	for i := 0; i < n; i++ {
		if i == hsAt {
			sc.Ops = append(sc.Ops, cidOp{K: "hs"})
		}
		x := r.N(tot)
		k := ""
		for _, w := range ws {
			if x < w.w {
				k = w.k
				break
			}
			x -= w.w
		}
		op := cidOp{K: k}
		switch k {
		case "peer":
			if sc.Adversary && r.P(0.25) {
				op.A = int64(r.Range(1, 3)) // issue beyond our limit
			}
			if r.P(0.3) {
				op.B = int64(r.Pick(1, 1, 2, 3, 100)) // Retire Prior To jump (100: beyond everything issued so far)
			}
			if r.P(0.3) {
				op.C = int64(r.Range(1, 3)) // RETIRE frames not yet seen by the peer
			}
		case "deliver":
			op.A = int64(r.N(8))
			if r.P(0.3) {
				op.B = 1
			}
		case "redeliver":
			op.A = int64(r.N(16))
		case "ncid":
			seq := r.N(13)
			op.A = int64(seq)
			op.B = int64(r.Pick(0, 0, 0, seq, seq-1, r.N(seq+1)))
			if op.B < 0 {
				op.B = 0
			}
			op.C = int64(r.Pick(0, 0, 1, 2))
		case "send":
			op.A = int64(r.Pick(1, 1, 2, 5, 50, 400, 2000, 6000, 9000, 16000))
		case "maxids":
			op.A = int64(r.Range(2, 8))
		case "retire":
			op.A = int64(r.Pick(0, 0, 0, 0, 0, 0, 1, 1, 2, 3))
			if !sc.Adversary && op.A >= 2 {
				op.A = 0
			}
			op.B = int64(r.N(8))
			op.C = int64(r.N(8))
			op.D = int64(r.N(3))
		case "tick":
			op.A = int64(r.Pick(0, 1, 2, 10, 74, 75, 76, 300, 999, 1000, 3000))
		case "pathget", "pathretire":
			op.A = int64(r.N(4))
		}
		sc.Ops = append(sc.Ops, op)
	}
	return sc
}

// ---------------------------------------------------------------- shared helpers

type cidConnStub struct{}

func (*cidConnStub) handlePacket(receivedPacket)                     {}
func (*cidConnStub) destroy(error)                                   {}
func (*cidConnStub) closeWithTransportError(qerr.TransportErrorCode) {}

func cidNewHandlerMap() *packetHandlerMap {
	return (*packetHandlerMap)(&Transport{
		handlers:    make(map[protocol.ConnectionID]packetHandler),
		resetTokens: make(map[protocol.StatelessResetToken]packetHandler),
		closeQueue:  make(chan closePacket, 4),
		logger:      utils.DefaultLogger,
	})
}

func cidErrCode(err error) (uint64, bool) {
	var te *qerr.TransportError
	if errors.As(err, &te) {
		return uint64(te.ErrorCode), true
	}
	return 0, false
}

func cidSortedU(m map[uint64]bool) []uint64 {
	out := make([]uint64, 0, len(m))
	for k := range m {
		out = append(out, k)
	}
	sort.Slice(out, func(a, b int) bool { return out[a] < out[b] })
	return out
}

func cidSortedCIDs[V any](m map[protocol.ConnectionID]V) []protocol.ConnectionID {
	out := make([]protocol.ConnectionID, 0, len(m))
	for k := range m {
		out = append(out, k)
	}
	sort.Slice(out, func(a, b int) bool { return string(out[a].Bytes()) < string(out[b].Bytes()) })
	return out
}

// ---------------------------------------------------------------- peer-issued IDs: connIDManager vs model

type cidPeerID struct {
	cid    protocol.ConnectionID
	tok    protocol.StatelessResetToken
	hasTok bool
}

type cidFrame struct {
	seq, rpt uint64
	variant  int
}

type cidMgr struct {
	res *KResult
	sc  *cidScenario
	h   *connIDManager
	phm *packetHandlerMap // real reset-token table

	frames     []wire.Frame
	absorbed   int
	tokCnt     map[protocol.StatelessResetToken]int
	tokAnomaly string

	known       map[uint64]cidPeerID // first contents received for a sequence number (0: the handshake ID)
	bySeqCID    map[protocol.ConnectionID]uint64
	retired     map[uint64]bool
	retireOrder []uint64
	activeSeq   uint64
	paths       map[int64]uint64 // path -> sequence number in use for probing it
	rptObl      uint64           // every known sequence number below this must have been retired
	maxSeen     uint64
	limit       int
	hs          bool
	prefAddr    bool
	tokenSet    bool
	ended       bool // an error closed the connection

	// simulated peer and channel
	peerNext   uint64
	peerActive map[uint64]bool
	peerRPT    uint64
	peerSeen   int
	inflight   []cidFrame
	delivered  []cidFrame
}

func (m *cidMgr) content(seq uint64, variant int) (protocol.ConnectionID, protocol.StatelessResetToken) {
	cv, tv := 0, 0
	switch variant {
	case 1:
		cv = 1
	case 2:
		tv = 2
	case 3:
		cv = 3
	}
	n := m.sc.PeerLen
	if n == 0 && seq > 0 {
		n = 8
	}
	b := NewKRng(KMix(m.sc.Seed, 0xC1D, seq, uint64(cv))).Bytes(n)
	if n >= 4 {
		b[0], b[1], b[2] = byte(seq>>8), byte(seq), byte(cv)
	}
	t := NewKRng(KMix(m.sc.Seed, 0x70C, seq, uint64(tv))).Bytes(16)
	t[0], t[1], t[2] = byte(seq>>8), byte(seq), byte(tv)
	var tok protocol.StatelessResetToken
	copy(tok[:], t)
	return protocol.ParseConnectionID(b), tok
}

func cidNewMgr(res *KResult, sc *cidScenario) *cidMgr {
	m := &cidMgr{res: res, sc: sc, phm: cidNewHandlerMap(), limit: sc.Limit,
		tokCnt: map[protocol.StatelessResetToken]int{}, known: map[uint64]cidPeerID{}, bySeqCID: map[protocol.ConnectionID]uint64{},
		retired: map[uint64]bool{}, paths: map[int64]uint64{}, peerActive: map[uint64]bool{0: true}, peerNext: 1}
	c0, _ := m.content(0, 0)
	m.known[0] = cidPeerID{cid: c0}
	m.bySeqCID[c0] = 0
	stub := &cidConnStub{}
	m.h = newConnIDManager(c0,
		func(t protocol.StatelessResetToken) {
			if m.tokCnt[t] > 0 && m.tokAnomaly == "" {
				m.tokAnomaly = "stateless-reset token registered twice"
			}
			m.tokCnt[t]++
			m.phm.AddResetToken(t, stub)
		},
		func(t protocol.StatelessResetToken) {
			if m.tokCnt[t] <= 0 {
				if m.tokAnomaly == "" {
					m.tokAnomaly = "stateless-reset token removed although it is not registered"
				}
				return
			}
			m.tokCnt[t]--
			if m.tokCnt[t] == 0 {
				delete(m.tokCnt, t)
				m.phm.RemoveResetToken(t)
			}
		},
		func(f wire.Frame) { m.frames = append(m.frames, f) },
	)
	if sc.SetLimit {
		m.h.SetConnectionIDLimit(uint64(sc.Limit))
	}
	return m
}

func (m *cidMgr) pathUses(seq uint64) bool {
	for _, s := range m.paths {
		if s == seq {
			return true
		}
	}
	return false
}

func (m *cidMgr) pathsInUse() int {
	n := 0
	for _, s := range m.paths {
		if !m.retired[s] {
			n++
		}
	}
	return n
}

func (m *cidMgr) unretired() int { return len(m.known) - len(m.retired) }

// absorb consumes the control frames the manager queued during the last call.
// dupSeq >= 0: a NEW_CONNECTION_ID frame for this already retired sequence number just
// arrived; RFC 9000 19.15 allows answering it with another RETIRE_CONNECTION_ID.
func (m *cidMgr) absorb(what string, dupSeq int64) {
	dupUsed := false
	for ; m.absorbed < len(m.frames); m.absorbed++ {
		f, ok := m.frames[m.absorbed].(*wire.RetireConnectionIDFrame)
		if !ok {
			m.res.Fail("connection ID manager queued a frame that is not RETIRE_CONNECTION_ID", "%T during %s", m.frames[m.absorbed], what)
			return
		}
		s := f.SequenceNumber
		m.res.Logf("  -> RETIRE_CONNECTION_ID %d", s)
		if _, ok := m.known[s]; !ok {
			m.res.Fail("RETIRE_CONNECTION_ID for a sequence number never received", "seq %d during %s", s, what)
			return
		}
		if m.retired[s] {
			if dupSeq >= 0 && uint64(dupSeq) == s && !dupUsed {
				dupUsed = true
				m.res.Probe("retire-repeated-for-duplicate-frame")
				continue
			}
			m.res.Fail("RETIRE_CONNECTION_ID sent twice for the same sequence number", "seq %d during %s", s, what)
			return
		}
		m.retired[s] = true
		m.retireOrder = append(m.retireOrder, s)
		m.res.Probe("retire-frame")
	}
}

// check compares what the manager holds and has registered with the model.
func (m *cidMgr) check(what string) {
	if m.res.Failed() {
		return
	}
	h := m.h
	res := m.res
	// (a) the ID used for sending
	as := h.activeSequenceNumber
	changed := false
	if as != m.activeSeq {
		if _, ok := m.known[as]; !ok {
			res.Fail("active connection ID has a sequence number never received", "seq %d after %s", as, what)
			return
		}
		if !m.retired[m.activeSeq] {
			res.Fail("active connection ID replaced without RETIRE_CONNECTION_ID for the old one", "old seq %d new seq %d after %s", m.activeSeq, as, what)
			return
		}
		if m.pathUses(as) && !m.retired[as] {
			res.Fail("connection ID in use for path probing taken into use as the active one", "seq %d after %s", as, what)
			return
		}
		m.activeSeq = as
		changed = true
		res.Probe("active-changed")
	}
	if m.retired[as] {
		if changed {
			res.Fail("retired connection ID taken into use as the active one", "seq %d after %s", as, what)
		} else {
			res.Fail("RETIRE_CONNECTION_ID queued for the connection ID that remains the active one", "seq %d after %s", as, what)
		}
		return
	}
	k := m.known[as]
	if h.activeConnectionID != k.cid {
		res.Fail("active connection ID differs from the one received for its sequence number", "seq %d: %s vs %s after %s", as, h.activeConnectionID, k.cid, what)
		return
	}
	if h.activeStatelessResetToken != nil && k.hasTok && *h.activeStatelessResetToken != k.tok {
		res.Fail("active stateless-reset token differs from the one received for its sequence number", "seq %d after %s", as, what)
		return
	}
	// (b) IDs in use for path probing
	if m.sc.PeerLen > 0 {
		pk := make([]int64, 0, len(m.paths))
		for p := range m.paths {
			pk = append(pk, p)
		}
		sort.Slice(pk, func(a, b int) bool { return pk[a] < pk[b] })
		for _, p := range pk {
			s := m.paths[p]
			e, ok := h.pathProbing[pathID(p)]
			if m.retired[s] {
				if ok && e.SequenceNumber == s {
					res.Fail("RETIRE_CONNECTION_ID queued for a connection ID that stays in use for path probing", "path %d seq %d after %s", p, s, what)
					return
				}
				delete(m.paths, p)
				res.Probe("path-id-retired-by-retire-prior-to")
				continue
			}
			if !ok || e.SequenceNumber != s {
				res.Fail("path-probing connection ID dropped without RETIRE_CONNECTION_ID", "path %d seq %d after %s", p, s, what)
				return
			}
			if kk := m.known[s]; e.ConnectionID != kk.cid || e.StatelessResetToken != kk.tok {
				res.Fail("stored connection ID differs from the one received", "path %d seq %d after %s", p, s, what)
				return
			}
		}
		for p, e := range h.pathProbing {
			if _, ok := m.paths[int64(p)]; !ok {
				res.Fail("connection ID held for a path nobody asked for", "path %d seq %d after %s", p, e.SequenceNumber, what)
				return
			}
		}
	}
	// (c) IDs available for later use
	inQueue := map[uint64]bool{}
	for _, q := range h.queue {
		s := q.SequenceNumber
		kk, ok := m.known[s]
		switch {
		case !ok:
			res.Fail("stored connection ID never received", "seq %d after %s", s, what)
		case m.retired[s]:
			res.Fail("retired connection ID stored again as available for use", "seq %d after %s", s, what)
		case s == m.activeSeq:
			res.Fail("active connection ID also stored as available for use", "seq %d after %s", s, what)
		case m.pathUses(s):
			res.Fail("connection ID in use for path probing also stored as available for use", "seq %d after %s", s, what)
		case inQueue[s]:
			res.Fail("connection ID stored twice", "seq %d after %s", s, what)
		case q.ConnectionID != kk.cid || q.StatelessResetToken != kk.tok:
			res.Fail("stored connection ID differs from the one received", "seq %d after %s", s, what)
		}
		if res.Failed() {
			return
		}
		inQueue[s] = true
	}
	if len(m.known)-len(m.retired) != 1+len(m.paths)+len(inQueue) {
		for s := range m.known {
			if !m.retired[s] && s != m.activeSeq && !m.pathUses(s) && !inQueue[s] {
				res.Fail("received connection ID neither stored nor retired", "seq %d after %s", s, what)
				return
			}
		}
	}
	// (d) stateless-reset tokens: exactly those of the IDs in use
	if m.tokAnomaly != "" {
		res.Fail(m.tokAnomaly, "after %s", what)
		return
	}
	exp := map[protocol.StatelessResetToken]uint64{}
	if k.hasTok {
		exp[k.tok] = as
	}
	for _, s := range m.paths {
		exp[m.known[s].tok] = s
	}
	for t, s := range exp {
		if m.tokCnt[t] != 1 {
			res.Fail("stateless-reset token of a connection ID in use is not registered", "seq %d after %s", s, what)
			return
		}
		if _, ok := m.phm.resetTokens[t]; !ok {
			res.Fail("stateless-reset token of a connection ID in use is not in the token table", "seq %d after %s", s, what)
			return
		}
	}
	if len(m.tokCnt) != len(exp) || len(m.phm.resetTokens) != len(exp) {
		for t := range m.tokCnt {
			if _, ok := exp[t]; !ok {
				res.Fail("stateless-reset token of a connection ID no longer in use is still registered", "token %x after %s", t, what)
				return
			}
		}
		res.Fail("stateless-reset token table differs from the tokens of the IDs in use", "table %d expected %d after %s", len(m.phm.resetTokens), len(exp), what)
		return
	}
	// (e) Retire Prior To obeyed
	if m.rptObl > 0 {
		for s := range m.known {
			if s < m.rptObl && !m.retired[s] {
				res.Fail("connection ID below Retire Prior To not retired", "seq %d retire-prior-to %d after %s", s, m.rptObl, what)
				return
			}
		}
	}
}

// add delivers one NEW_CONNECTION_ID frame to the manager.
func (m *cidMgr) add(fr cidFrame, what string) {
	res := m.res
	cid, tok := m.content(fr.seq, fr.variant)
	f := &wire.NewConnectionIDFrame{SequenceNumber: fr.seq, RetirePriorTo: fr.rpt, ConnectionID: cid, StatelessResetToken: tok}
	prev, wasKnown := m.known[fr.seq]
	conflict := wasKnown && (prev.cid != cid || (prev.hasTok && prev.tok != tok))
	wasRetired := m.retired[fr.seq]
	conflictMustErr := conflict && !wasRetired && fr.seq != m.activeSeq && !m.pathUses(fr.seq)
	if wasKnown {
		res.Probe("duplicate-frame")
		if conflict {
			res.Probe("conflicting-frame")
			res.Fault("conflicting-frame")
		}
	}
	if fr.seq < m.rptObl {
		res.Probe("frame-below-retire-prior-to")
	}
	if fr.rpt > m.maxSeen {
		res.Probe("retire-prior-to-beyond-highest-seen")
	}
	if fr.rpt > m.rptObl {
		res.Probe("retire-prior-to-jump")
	}
	if fr.seq > m.maxSeen+1 {
		res.Probe("gap")
	}
	res.Logf("%s: NEW_CONNECTION_ID seq=%d rpt=%d variant=%d known=%v retired=%v (active %d, unretired %d, limit %d)", what, fr.seq, fr.rpt, fr.variant, wasKnown, wasRetired, m.activeSeq, m.unretired(), m.limit)
	err := m.h.Add(f)
	res.Logf("  err=%v", err)
	if m.sc.PeerLen == 0 {
		res.Probe("zero-length-new-connection-id")
		m.ended = true
		if code, isTE := cidErrCode(err); !isTE || code != 0xa {
			res.Fail("NEW_CONNECTION_ID accepted although zero-length connection IDs are in use", "err=%v", err)
		}
		if len(m.frames) != m.absorbed {
			res.Fail("control frame queued although zero-length connection IDs are in use", "%d frames", len(m.frames)-m.absorbed)
		}
		return
	}
	if !wasKnown {
		m.known[fr.seq] = cidPeerID{cid: cid, tok: tok, hasTok: true}
		if _, ok := m.bySeqCID[cid]; !ok {
			m.bySeqCID[cid] = fr.seq
		}
	}
	dup := int64(-1)
	if wasRetired {
		dup = int64(fr.seq)
	}
	m.absorb(what, dup)
	if res.Failed() {
		return
	}
	if wasKnown {
		// a frame for a sequence number we already know must not change what is stored or in use
		stored := m.h.activeSequenceNumber == fr.seq && m.activeSeq != fr.seq
		for _, q := range m.h.queue {
			if q.SequenceNumber == fr.seq {
				stored = true
			}
		}
		inUse := m.h.activeSequenceNumber == fr.seq && m.activeSeq == fr.seq
		for p, s := range m.paths {
			if e, ok := m.h.pathProbing[pathID(p)]; ok && s == fr.seq && e.SequenceNumber == s {
				inUse = true
			}
		}
		switch {
		case wasRetired && stored:
			m.ended = true
			res.Fail("duplicate NEW_CONNECTION_ID for a retired sequence number is stored again (usable after its RETIRE_CONNECTION_ID)", "seq %d during %s", fr.seq, what)
			return
		case !wasRetired && m.pathUses(fr.seq) && stored:
			m.ended = true
			res.Fail("duplicate NEW_CONNECTION_ID for a connection ID in use for path probing is stored again (usable twice)", "seq %d during %s", fr.seq, what)
			return
		case !wasRetired && m.retired[fr.seq] && inUse:
			m.ended = true
			res.Fail("duplicate NEW_CONNECTION_ID answered with RETIRE_CONNECTION_ID for a connection ID that stays in use", "seq %d (active %d) during %s", fr.seq, m.h.activeSequenceNumber, what)
			return
		}
	}
	code, isTE := cidErrCode(err)
	count := m.unretired()
	def := int(protocol.MaxActiveConnectionIDs)
	over := count > m.limit
	if err != nil {
		m.ended = true
		switch {
		case isTE && code == 0x9:
			if over {
				if !m.sc.Adversary {
					res.Fail("conformant peer exceeded the limit from the endpoint's point of view", "unretired %d limit %d", count, m.limit)
					return
				}
				res.Probe("limit-exceeded-rejected")
				res.Shape("N-limit")
				return
			}
			if m.limit != def && count > def {
				res.Fail("NEW_CONNECTION_ID within the advertised limit rejected with CONNECTION_ID_LIMIT_ERROR (SetConnectionIDLimit ignored: the library default is enforced)", "unretired %d, advertised limit %d, default %d", count, m.limit, def)
				return
			}
			res.Fail("NEW_CONNECTION_ID within the advertised limit rejected with CONNECTION_ID_LIMIT_ERROR", "unretired %d, advertised limit %d", count, m.limit)
		case conflict:
			if isTE && code == 0xa {
				res.Probe("conflict-rejected")
				res.Shape("N-conflict")
				return
			}
			// C16 does not state the error code: any error is fine as long as the frame is not accepted
			res.Note("conflicting NEW_CONNECTION_ID rejected with a plain error instead of a PROTOCOL_VIOLATION transport error (sent as INTERNAL_ERROR)")
			res.Probe("conflict-rejected-with-plain-error")
			res.Shape("N-conflict")
		default:
			res.Fail("valid NEW_CONNECTION_ID rejected", "seq %d rpt %d: %v", fr.seq, fr.rpt, err)
		}
		return
	}
	if conflictMustErr {
		m.ended = true
		res.Fail("conflicting NEW_CONNECTION_ID for a stored sequence number accepted", "seq %d", fr.seq)
		return
	}
	if np := m.pathsInUse(); over && np > 0 && count-np <= m.limit {
		// over-acceptance is not part of C16: the excess explained by IDs in use for path
		// probing is only noted; the history and all other oracles go on
		res.Note("more unretired connection IDs than the advertised limit accepted (IDs in use for path probing are not counted)")
		res.Probe("limit-exceeded-by-path-probing-ids-accepted")
		over = false
	}
	if over {
		m.ended = true
		np := m.pathsInUse()
		switch {
		case m.limit != def && count <= def:
			res.Fail("more unretired connection IDs than the advertised limit accepted (SetConnectionIDLimit ignored: the library default is enforced)", "unretired %d, advertised limit %d, default %d", count, m.limit, def)
		case np > 0 && m.limit != def && count-np <= def:
			res.Fail("more unretired connection IDs than the advertised limit accepted (SetConnectionIDLimit ignored and IDs in use for path probing not counted)", "unretired %d of which %d for path probing, advertised limit %d, default %d", count, np, m.limit, def)
		default:
			res.Fail("more unretired connection IDs than the advertised limit accepted", "unretired %d, advertised limit %d", count, m.limit)
		}
		return
	}
	if fr.seq > m.maxSeen {
		m.maxSeen = fr.seq
		if fr.rpt > m.rptObl {
			m.rptObl = fr.rpt
		}
	}
	if count == m.limit {
		res.Probe("limit-reached-accepted")
	}
	res.Shape(fmt.Sprintf("N%v%v%v%v", wasKnown, wasRetired, conflict, fr.rpt > 0))
	m.check(what)
}

// peerIssue: the simulated peer reads the RETIRE_CONNECTION_ID frames it has been sent
// (all but the last `lag`), optionally raises Retire Prior To over its `jump` oldest
// active IDs, and tops up to our advertised limit (+extra: beyond it).
func (m *cidMgr) peerIssue(extra, jump, lag int) {
	n := len(m.retireOrder) - lag
	for m.peerSeen < n {
		delete(m.peerActive, m.retireOrder[m.peerSeen])
		m.peerSeen++
	}
	if jump > 0 {
		var cand []uint64
		for _, s := range cidSortedU(m.peerActive) {
			if s >= m.peerRPT {
				cand = append(cand, s)
			}
		}
		if jump >= 100 {
			m.peerRPT = m.peerNext
		} else if len(cand) > 0 {
			if jump > len(cand) {
				jump = len(cand)
			}
			m.peerRPT = cand[jump-1] + 1
		}
	}
	cnt := 0
	for s := range m.peerActive {
		if s >= m.peerRPT {
			cnt++
		}
	}
	want := m.limit + extra - cnt
	if extra > 0 {
		m.res.Fault("peer-exceeds-limit")
	}
	for i := 0; i < want && i < 12; i++ {
		s := m.peerNext
		m.peerNext++
		m.peerActive[s] = true
		m.inflight = append(m.inflight, cidFrame{seq: s, rpt: m.peerRPT})
	}
}

func (m *cidMgr) send(n int) {
	h := m.h
	cur := m.known[m.activeSeq].cid
	for i := 0; i < n; i++ {
		c := h.Get()
		if c != cur {
			old := m.activeSeq
			m.absorb("send", -1)
			m.check("send")
			if m.res.Failed() {
				return
			}
			cur = m.known[m.activeSeq].cid
			if c != cur {
				m.res.Fail("Get returned a connection ID that is not the active one", "%s vs %s", c, cur)
				return
			}
			m.res.Probe("rotation")
			if old != 0 {
				m.res.Probe("rotation-after-packets")
			}
			if !m.hs {
				m.res.Probe("rotation-before-handshake-completion")
			}
			m.res.Shape("rot")
			m.res.Logf("send: rotated %d -> %d after %d packets of this op", old, m.activeSeq, i)
		}
		h.SentPacket()
	}
	m.absorb("send", -1)
	m.check("send")
}

func (m *cidMgr) pathGet(p int64) {
	res := m.res
	c, ok := m.h.GetConnIDForPath(pathID(p))
	m.absorb("pathget", -1)
	if res.Failed() {
		return
	}
	if m.sc.PeerLen == 0 {
		if !ok || c.Len() != 0 {
			res.Fail("GetConnIDForPath with zero-length connection IDs did not return the zero-length ID", "ok=%v %s", ok, c)
		}
		m.check("pathget")
		return
	}
	prev, had := m.paths[p]
	if had && m.retired[prev] {
		had = false
		delete(m.paths, p)
	}
	switch {
	case had:
		if !ok || c != m.known[prev].cid {
			res.Fail("GetConnIDForPath returned a different connection ID for a path that already has one", "path %d seq %d ok=%v", p, prev, ok)
			return
		}
	case ok:
		s, found := m.bySeqCID[c]
		switch {
		case !found:
			res.Fail("GetConnIDForPath handed out a connection ID never received", "path %d %s", p, c)
		case m.retired[s]:
			res.Fail("GetConnIDForPath handed out a retired connection ID", "path %d seq %d", p, s)
		case s == m.activeSeq:
			res.Fail("GetConnIDForPath handed out the active connection ID", "path %d seq %d", p, s)
		case m.pathUses(s):
			res.Fail("GetConnIDForPath handed out a connection ID in use for another path", "path %d seq %d", p, s)
		}
		if res.Failed() {
			return
		}
		m.paths[p] = s
		res.Probe("path-probe-id-used")
		res.Shape("pg")
		res.Logf("pathget %d -> seq %d", p, s)
	default:
		res.Probe("path-probe-no-id")
	}
	m.check("pathget")
}

func (m *cidMgr) pathRetire(p int64) {
	s, had := m.paths[p]
	m.h.RetireConnIDForPath(pathID(p))
	m.absorb("pathretire", -1)
	if m.res.Failed() {
		return
	}
	if had && m.sc.PeerLen > 0 {
		if !m.retired[s] {
			m.res.Fail("path-probing connection ID given up without RETIRE_CONNECTION_ID", "path %d seq %d", p, s)
			return
		}
		delete(m.paths, p)
		m.res.Probe("path-probe-id-retired")
		m.res.Shape("pr")
	}
	m.check("pathretire")
}

func (m *cidMgr) close() {
	m.h.Close()
	if len(m.frames) != m.absorbed {
		m.res.Fail("control frame queued by Close", "%d", len(m.frames)-m.absorbed)
		return
	}
	if len(m.tokCnt) != 0 || len(m.phm.resetTokens) != 0 {
		m.res.Fail("stateless-reset token still registered after Close", "%d recorded, %d in the table", len(m.tokCnt), len(m.phm.resetTokens))
	}
}

// ---------------------------------------------------------------- own IDs: connIDGenerator vs model

type cidOwnGen struct {
	n   int
	ctr uint16
	rng *KRng
}

func (g *cidOwnGen) GenerateConnectionID() (ConnectionID, error) {
	b := g.rng.Bytes(g.n)
	if g.n < 4 && g.n > 0 {
		b = make([]byte, g.n)
		b[0] = byte(g.rng.N(128))
	}
	if g.n >= 4 {
		g.ctr++
		b[0], b[1], b[2] = byte(g.ctr>>8), byte(g.ctr), 0x0A
	}
	return protocol.ParseConnectionID(b), nil
}
func (g *cidOwnGen) ConnectionIDLen() int { return g.n }

type cidRunner struct {
	phm     *packetHandlerMap
	reg     map[protocol.ConnectionID]bool // registered according to the callbacks
	phantom map[protocol.ConnectionID]bool // removals tolerated (retired before this runner was added)
	closed  [][]protocol.ConnectionID
	expiry  []time.Duration
}

type cidGen struct {
	res  *KResult
	sc   *cidScenario
	g    *connIDGenerator
	sr   *statelessResetter
	conn *cidConnStub
	run  []*cidRunner

	frames   []wire.Frame
	absorbed int

	own        map[uint64]protocol.ConnectionID
	ownRetired map[uint64]bool
	highest    uint64
	everSeen   map[protocol.ConnectionID]bool
	expired    map[protocol.ConnectionID]bool
	route      map[protocol.ConnectionID]monotime.Time // expected routing entries; 0: live, else expiry
	route2     map[protocol.ConnectionID]bool          // second transport
	initDest   *protocol.ConnectionID
	peerLimit  uint64
	maxCalls   int
	expCount   int
	ended      bool
}

func (x *cidGen) callbacks(i int) connRunnerCallbacks {
	return connRunnerCallbacks{
		AddConnectionID: func(c protocol.ConnectionID) {
			r := x.run[i]
			if r.reg[c] {
				x.res.Fail("connection ID registered for routing twice", "runner %d %s", i, c)
			}
			r.reg[c] = true
			r.phm.Add(c, x.conn)
		},
		RemoveConnectionID: func(c protocol.ConnectionID) {
			r := x.run[i]
			if !r.reg[c] {
				if i > 0 && r.phantom[c] {
					return
				}
				x.res.Fail("connection ID removed from routing although it is not registered", "runner %d %s", i, c)
				return
			}
			delete(r.reg, c)
			r.phm.Remove(c)
		},
		ReplaceWithClosed: func(ids []protocol.ConnectionID, pkt []byte, d time.Duration) {
			r := x.run[i]
			r.closed = append(r.closed, append([]protocol.ConnectionID(nil), ids...))
			r.expiry = append(r.expiry, d)
			r.phm.ReplaceWithClosed(ids, pkt, d)
		},
	}
}

func cidNewGen(res *KResult, sc *cidScenario) *cidGen {
	x := &cidGen{res: res, sc: sc, conn: &cidConnStub{}, own: map[uint64]protocol.ConnectionID{}, ownRetired: map[uint64]bool{},
		everSeen: map[protocol.ConnectionID]bool{}, expired: map[protocol.ConnectionID]bool{}, route: map[protocol.ConnectionID]monotime.Time{}, expCount: 1}
	var key StatelessResetKey
	copy(key[:], NewKRng(KMix(sc.Seed, 0x5E7)).Bytes(len(key)))
	x.sr = newStatelessResetter(&key)
	og := &cidOwnGen{n: sc.OwnLen, rng: NewKRng(KMix(sc.Seed, 0x0C1D))}
	b := NewKRng(KMix(sc.Seed, 0x1A1)).Bytes(sc.OwnLen)
	if sc.OwnLen >= 4 {
		b[0], b[1], b[2] = 0, 0, 0x0A
	}
	src := protocol.ParseConnectionID(b)
	r0 := &cidRunner{phm: cidNewHandlerMap(), reg: map[protocol.ConnectionID]bool{}}
	x.run = []*cidRunner{r0}
	// what the transport / server registered before the connection exists
	r0.phm.Add(src, x.conn)
	r0.reg[src] = true
	x.route[src] = 0
	x.everSeen[src] = true
	x.own[0] = src
	if sc.Server {
		d := NewKRng(KMix(sc.Seed, 0xDE57)).Bytes(8 + int(sc.Seed%13))
		d[2] = 0xDD
		dc := protocol.ParseConnectionID(d)
		x.initDest = &dc
		r0.phm.Add(dc, x.conn)
		r0.reg[dc] = true
		x.route[dc] = 0
		x.everSeen[dc] = true
	}
	var idp *protocol.ConnectionID
	if x.initDest != nil {
		c := *x.initDest
		idp = &c
	}
	x.g = newConnIDGenerator(r0.phm, src, idp, x.sr, x.callbacks(0), func(f wire.Frame) { x.frames = append(x.frames, f) }, og)
	return x
}

func (x *cidGen) active() []uint64 {
	var out []uint64
	for s := range x.own {
		if !x.ownRetired[s] {
			out = append(out, s)
		}
	}
	sort.Slice(out, func(a, b int) bool { return out[a] < out[b] })
	return out
}

func (x *cidGen) activeOwn(id protocol.ConnectionID) bool {
	for seq, c := range x.own {
		if c == id && !x.ownRetired[seq] {
			return true
		}
	}
	return false
}

// absorb consumes NEW_CONNECTION_ID frames queued by the generator.
func (x *cidGen) absorb(what string) int {
	n := 0
	for ; x.absorbed < len(x.frames); x.absorbed++ {
		f, ok := x.frames[x.absorbed].(*wire.NewConnectionIDFrame)
		if !ok {
			x.res.Fail("connection ID generator queued a frame that is not NEW_CONNECTION_ID", "%T during %s", x.frames[x.absorbed], what)
			return n
		}
		x.res.Logf("  -> NEW_CONNECTION_ID seq=%d %s", f.SequenceNumber, f.ConnectionID)
		switch {
		case x.sc.OwnLen == 0:
			x.res.Fail("NEW_CONNECTION_ID issued although we use zero-length connection IDs", "seq %d", f.SequenceNumber)
		case f.SequenceNumber != x.highest+1:
			x.res.Fail("issued sequence numbers not consecutive", "seq %d after %d during %s", f.SequenceNumber, x.highest, what)
		case f.ConnectionID.Len() != x.sc.OwnLen:
			x.res.Fail("issued connection ID has the wrong length", "%d", f.ConnectionID.Len())
		case x.everSeen[f.ConnectionID] && x.sc.OwnLen >= 4:
			x.res.Fail("connection ID issued twice", "%s", f.ConnectionID)
		case x.activeOwn(f.ConnectionID):
			// (short IDs: a random generator cannot avoid repeating an ID retired long ago, but the ones in use are known)
			x.res.Fail("connection ID issued although it is still active under another sequence number", "%s as seq %d", f.ConnectionID, f.SequenceNumber)
		case f.StatelessResetToken != x.sr.GetStatelessResetToken(f.ConnectionID):
			x.res.Fail("issued stateless-reset token is not the token of the issued connection ID", "seq %d", f.SequenceNumber)
		}
		if x.res.Failed() {
			return n
		}
		x.highest = f.SequenceNumber
		x.own[f.SequenceNumber] = f.ConnectionID
		x.everSeen[f.ConnectionID] = true
		x.route[f.ConnectionID] = 0
		if x.route2 != nil {
			x.route2[f.ConnectionID] = true
		}
		x.res.Probe("own-id-issued")
		n++
	}
	return n
}

func (x *cidGen) check(what string) {
	res := x.res
	if res.Failed() {
		return
	}
	act := len(x.own) - len(x.ownRetired)
	if x.peerLimit > 0 && uint64(act) > x.peerLimit {
		res.Fail("more unretired connection IDs issued than the peer's active_connection_id_limit", "%d > %d after %s", act, x.peerLimit, what)
		return
	}
	if act > int(protocol.MaxIssuedConnectionIDs) {
		res.Fail("more unretired connection IDs issued than the implementation's own cap", "%d after %s", act, what)
		return
	}
	if act < x.expCount {
		res.Fail("retired connection ID not replaced by a new one", "%d unretired, expected %d after %s", act, x.expCount, what)
		return
	}
	if act > x.expCount {
		res.Fail("more connection IDs issued than min(peer limit, own cap)", "%d unretired, expected %d after %s", act, x.expCount, what)
		return
	}
	x.checkRouting(0, what)
	if len(x.run) > 1 {
		x.checkRouting(1, what)
	}
}

func (x *cidGen) checkRouting(i int, what string) {
	res := x.res
	r := x.run[i]
	has := func(c protocol.ConnectionID) bool {
		if i == 0 {
			_, ok := x.route[c]
			return ok
		}
		return x.route2[c]
	}
	n := len(x.route)
	if i == 1 {
		n = len(x.route2)
	}
	real := r.phm.handlers
	if len(real) == n && len(r.reg) == n {
		ok := true
		for c, hd := range real {
			if !has(c) || hd != packetHandler(x.conn) || !r.reg[c] {
				ok = false
				break
			}
		}
		if ok {
			return
		}
	}
	for _, c := range cidSortedCIDs(real) {
		if real[c] != packetHandler(x.conn) {
			res.Fail("routing entry does not lead to the connection", "runner %d %s after %s", i, c, what)
			return
		}
		if !has(c) {
			switch {
			case x.expired[c]:
				res.Fail("expired connection ID still routed to the connection after RemoveRetiredConnIDs", "runner %d %s after %s", i, c, what)
			case x.everSeen[c]:
				res.Fail("connection ID still routed to the connection although it should have been removed", "runner %d %s after %s", i, c, what)
			default:
				res.Fail("foreign connection ID routed to the connection", "runner %d %s after %s", i, c, what)
			}
			return
		}
	}
	var want []protocol.ConnectionID
	if i == 0 {
		want = cidSortedCIDs(x.route)
	} else {
		want = cidSortedCIDs(x.route2)
	}
	for _, c := range want {
		if _, ok := real[c]; !ok {
			if i == 0 && x.route[c] != 0 {
				res.Fail("retired connection ID removed from routing before its expiry", "%s expiry in %v after %s", c, x.route[c].Sub(monotime.Now()), what)
			} else {
				res.Fail("issued connection ID not routed to the connection", "runner %d %s after %s", i, c, what)
			}
			return
		}
	}
	res.Fail("routing callbacks and routing table disagree", "runner %d: %d registered, %d in table, %d expected after %s", i, len(r.reg), len(real), n, what)
}

func (x *cidGen) setMax(limit uint64) {
	if x.maxCalls >= 2 || limit < x.peerLimit {
		return
	}
	x.maxCalls++
	x.peerLimit = limit
	err := x.g.SetMaxActiveConnIDs(limit)
	x.res.Logf("maxids %d err=%v", limit, err)
	if err != nil {
		x.res.Fail("SetMaxActiveConnIDs returned an error", "%v", err)
		return
	}
	if x.sc.OwnLen > 0 {
		want := int(min(limit, uint64(protocol.MaxIssuedConnectionIDs)))
		if want > x.expCount {
			x.expCount = want
		}
	} else {
		x.res.Probe("zero-length-own-ids")
	}
	x.absorb("maxids")
	x.res.Shape(fmt.Sprintf("mx%d", limit))
	x.check("maxids")
}

func (x *cidGen) retire(kind, idx, didx, dvar int64) {
	res := x.res
	if x.maxCalls == 0 {
		return // RETIRE_CONNECTION_ID cannot arrive before the peer's transport parameters
	}
	act := x.active()
	var seq uint64
	force := false
	switch kind {
	case 0, 3:
		if len(act) == 0 {
			return
		}
		seq = act[int(idx)%len(act)]
		force = kind == 3
	case 1:
		rs := cidSortedU(x.ownRetired)
		if len(rs) == 0 {
			return
		}
		seq = rs[int(idx)%len(rs)]
		res.Probe("retire-already-retired")
	case 2:
		seq = x.highest + 1 + uint64(idx%3)
	}
	// destination connection ID of the packet the frame arrived in: anything routed to us
	cands := cidSortedCIDs(x.route)
	if len(cands) == 0 {
		return
	}
	dest := cands[int(didx)%len(cands)]
	if x.sc.OwnLen == 0 {
		dest = x.own[0]
	} else if c, ok := x.own[seq]; ok {
		if force {
			dest = c
		} else if dest == c && len(cands) > 1 && kind == 0 {
			dest = cands[(int(didx)+1)%len(cands)]
		}
	}
	now := monotime.Now()
	pto := time.Duration(x.sc.PTOms) * time.Millisecond * time.Duration(1+dvar)
	expiry := now.Add(3 * pto)
	c, issued := x.own[seq]
	wasRetired := x.ownRetired[seq]
	res.Logf("retire seq=%d (issued=%v retired=%v) dest=%s expiry=+%v", seq, issued, wasRetired, dest, 3*pto)
	err := x.g.Retire(seq, dest, expiry)
	res.Logf("  err=%v", err)
	code, isTE := cidErrCode(err)
	switch {
	case !issued:
		x.ended = true
		res.Fault("retire-never-issued")
		res.Shape("R-never")
		if !isTE || code != 0xa {
			res.Fail("RETIRE_CONNECTION_ID for a sequence number never issued is not a PROTOCOL_VIOLATION", "seq %d highest %d: %v", seq, x.highest, err)
		}
		return
	case wasRetired:
		if err != nil {
			x.ended = true
			res.Fail("duplicate RETIRE_CONNECTION_ID rejected", "seq %d: %v", seq, err)
			return
		}
		if n := x.absorb("retire"); n != 0 {
			res.Fail("duplicate RETIRE_CONNECTION_ID made the generator issue a connection ID", "seq %d", seq)
			return
		}
		res.Shape("R-dup")
	case c == dest:
		x.ended = true
		res.Fault("retire-arrived-on")
		res.Shape("R-self")
		if !isTE || code != 0xa {
			res.Fail("RETIRE_CONNECTION_ID for the connection ID the frame arrived on is not a PROTOCOL_VIOLATION", "seq %d: %v", seq, err)
		}
		return
	default:
		if err != nil {
			x.ended = true
			res.Fail("valid RETIRE_CONNECTION_ID rejected", "seq %d dest %s: %v", seq, dest, err)
			return
		}
		x.ownRetired[seq] = true
		x.route[c] = expiry // (a second transport keeps it until expiry as well)
		if seq == 0 {
			x.expCount--
			res.Probe("retire-seq-0")
		}
		x.absorb("retire")
		res.Probe("own-id-retired")
		res.Shape("R-ok")
	}
	x.check("retire")
}

func (x *cidGen) gc() {
	now := monotime.Now()
	x.g.RemoveRetiredConnIDs(now)
	for c, exp := range x.route {
		if exp != 0 && !exp.After(now) {
			delete(x.route, c)
			if x.route2 != nil {
				delete(x.route2, c)
			}
			x.expired[c] = true
			x.res.Probe("expiry-removal")
		} else if exp != 0 {
			x.res.Probe("retired-still-routed")
		}
	}
	x.check("gc")
}

func (x *cidGen) handshakeComplete() {
	now := monotime.Now()
	exp := now.Add(3 * time.Duration(x.sc.PTOms) * time.Millisecond)
	x.g.SetHandshakeComplete(exp)
	if x.initDest != nil {
		x.route[*x.initDest] = exp
		x.initDest = nil
		x.res.Probe("initial-dest-id-queued-for-removal")
	}
	x.absorb("hs")
	x.check("hs")
}

func (x *cidGen) addRunner() {
	if len(x.run) == 1 {
		x.run = append(x.run, &cidRunner{phm: cidNewHandlerMap(), reg: map[protocol.ConnectionID]bool{}, phantom: map[protocol.ConnectionID]bool{}})
		x.route2 = map[protocol.ConnectionID]bool{}
		for c, exp := range x.route {
			if exp == 0 {
				x.route2[c] = true
			} else {
				x.run[1].phantom[c] = true // retired earlier: never announced to the new transport
			}
		}
		x.res.Probe("second-transport")
	} else {
		x.res.Probe("second-transport-again")
	}
	x.g.AddConnRunner(x.run[1].phm, x.callbacks(1))
	x.absorb("addrunner")
	x.check("addrunner")
}

func (x *cidGen) close(mode int) {
	res := x.res
	exp := 3 * time.Duration(x.sc.PTOms) * time.Millisecond
	switch mode {
	case 0:
		x.g.RemoveAll()
		x.route = map[protocol.ConnectionID]monotime.Time{}
		if x.route2 != nil {
			x.route2 = map[protocol.ConnectionID]bool{}
		}
		x.absorb("close")
		x.check("RemoveAll")
		res.Shape("C0")
		return
	case 1:
		x.g.ReplaceWithClosed(nil, exp)
	default:
		x.g.ReplaceWithClosed([]byte("connection close packet"), exp)
	}
	res.Shape("C1")
	if x.absorb("close") != 0 {
		res.Fail("connection ID issued while closing", "")
		return
	}
	for i, r := range x.run {
		if len(r.closed) != 1 {
			res.Fail("ReplaceWithClosed not forwarded to every transport exactly once", "runner %d: %d calls", i, len(r.closed))
			return
		}
		ids := map[protocol.ConnectionID]bool{}
		for _, c := range r.closed[0] {
			if ids[c] {
				res.Fail("ReplaceWithClosed lists a connection ID twice", "%s", c)
				return
			}
			ids[c] = true
			if _, ok := x.route[c]; !ok {
				res.Fail("ReplaceWithClosed lists a connection ID that is not routed to the connection", "%s", c)
				return
			}
		}
		if i == 0 {
			for _, c := range cidSortedCIDs(x.route) {
				if !ids[c] {
					res.Fail("connection ID left routed to the connection by ReplaceWithClosed", "%s", c)
					return
				}
			}
		} else {
			for _, c := range cidSortedCIDs(x.route2) {
				if !ids[c] {
					res.Fail("connection ID left routed to the connection by ReplaceWithClosed", "second transport %s", c)
					return
				}
			}
		}
		for c, hd := range r.phm.handlers {
			if hd == packetHandler(x.conn) {
				res.Fail("connection ID still routed to the closed connection", "runner %d %s", i, c)
				return
			}
		}
		if r.expiry[0] != exp {
			res.Fail("closing period differs from the one requested", "%v vs %v", r.expiry[0], exp)
			return
		}
	}
	// the closing period ends
	time.Sleep(exp)
	synctest.Wait()
	for i, r := range x.run {
		if len(r.phm.handlers) != 0 {
			res.Fail("routing entries left after the closing period", "runner %d: %d", i, len(r.phm.handlers))
			return
		}
	}
	res.Probe("closing-period-ended-clean")
}

// ---------------------------------------------------------------- run

func cidRunScenario(t *testing.T, ksc KScenario, res *KResult) {
	sc := ksc.(*cidScenario)
	monotime.VerifSetStart(time.Now().Add(-time.Hour))
	t0 := time.Now()
	if sc.Limit < 2 {
		sc.Limit = 2
	}
	if sc.PeerLen != 0 && sc.PeerLen < 4 {
		sc.PeerLen = 4
	}
	if sc.OwnLen != 0 && sc.OwnLen < 2 {
		sc.OwnLen = 2
	}
	if sc.PeerLen > 20 {
		sc.PeerLen = 20
	}
	if sc.OwnLen > 20 {
		sc.OwnLen = 20
	}
	if sc.PTOms < 1 {
		sc.PTOms = 1
	}
	m := cidNewMgr(res, sc)
	x := cidNewGen(res, sc)
	m.check("start")
	x.check("start")

	for _, op := range sc.Ops {
		if res.Failed() || m.ended || x.ended {
			break
		}
		res.Events++
		switch op.K {
		case "peer":
			extra := int(op.A)
			if !sc.Adversary {
				extra = 0
			}
			m.peerIssue(extra, int(op.B), int(op.C))
		case "deliver":
			if len(m.inflight) == 0 {
				break
			}
			i := 0
			if sc.Reorder {
				i = int(op.A) % len(m.inflight)
				if i > 0 {
					res.Fault("frame-reordered")
				}
			}
			fr := m.inflight[i]
			if op.B == 1 && sc.Dup {
				res.Fault("frame-duplicated")
			} else {
				m.inflight = append(m.inflight[:i:i], m.inflight[i+1:]...)
			}
			m.delivered = append(m.delivered, fr)
			m.add(fr, "deliver")
			res.Nontrivial = true
		case "redeliver":
			if !sc.Dup || len(m.delivered) == 0 {
				break
			}
			res.Fault("frame-retransmitted")
			m.add(m.delivered[int(op.A)%len(m.delivered)], "redeliver")
		case "ncid":
			if !sc.Adversary {
				break
			}
			fr := cidFrame{seq: uint64(op.A), rpt: uint64(op.B), variant: int(op.C)}
			if fr.rpt > fr.seq { // the frame parser rejects these
				fr.rpt = fr.seq
			}
			if fr.variant < 0 || fr.variant > 2 {
				fr.variant = 0
			}
			res.Fault("raw-new-connection-id")
			m.add(fr, "ncid")
			res.Nontrivial = true
		case "send":
			m.send(int(op.A))
		case "hs":
			if m.hs {
				break
			}
			m.hs = true
			m.h.SetHandshakeComplete()
			m.absorb("hs", -1)
			m.check("hs")
			x.handshakeComplete()
			res.Shape("hs")
		case "settoken":
			// the server's transport parameters: before any rotation and before handshake completion
			if sc.Server || m.hs || m.tokenSet || m.activeSeq != 0 || m.h.activeSequenceNumber != 0 {
				break
			}
			_, tok := m.content(0, 0)
			k := m.known[0]
			k.tok, k.hasTok = tok, true
			m.known[0] = k
			m.tokenSet = true
			m.h.SetStatelessResetToken(tok)
			m.absorb("settoken", -1)
			m.check("settoken")
			res.Probe("token-from-transport-parameters")
		case "changeinit":
			if sc.Server || m.hs || m.activeSeq != 0 || m.h.activeSequenceNumber != 0 || len(m.known) != 1 || sc.PeerLen == 0 {
				break
			}
			c, _ := m.content(0, 3)
			k := m.known[0]
			delete(m.bySeqCID, k.cid)
			k.cid = c
			m.known[0] = k
			m.bySeqCID[c] = 0
			m.h.ChangeInitialConnID(c)
			m.absorb("changeinit", -1)
			m.check("changeinit")
			res.Probe("initial-id-changed")
		case "prefaddr":
			if sc.Server || m.hs || m.prefAddr || len(m.known) != 1 || sc.PeerLen == 0 {
				break
			}
			m.prefAddr = true
			c, tok := m.content(1, 0)
			m.known[1] = cidPeerID{cid: c, tok: tok, hasTok: true}
			m.bySeqCID[c] = 1
			m.maxSeen = 1
			m.peerNext = 2
			m.peerActive[1] = true
			if err := m.h.AddFromPreferredAddress(c, tok); err != nil {
				res.Fail("AddFromPreferredAddress returned an error", "%v", err)
			}
			m.absorb("prefaddr", -1)
			m.check("prefaddr")
			res.Probe("preferred-address-id")
		case "pathget":
			if !sc.Paths || !m.hs {
				break
			}
			m.pathGet(op.A & 3)
		case "pathretire":
			if !sc.Paths || !m.hs {
				break
			}
			m.pathRetire(op.A & 3)
		case "maxids":
			l := uint64(op.A)
			if l < 2 {
				l = 2
			}
			x.setMax(l)
		case "retire":
			k := op.A
			if !sc.Adversary && k >= 2 {
				k = 0
			}
			x.retire(k, op.B&0xffff, op.C&0xffff, op.D&3)
			res.Nontrivial = true
		case "tick":
			if op.A > 0 && op.A <= 3600_000 {
				time.Sleep(time.Duration(op.A) * time.Millisecond)
			}
		case "gc":
			x.gc()
		case "addrunner":
			if sc.Server {
				break
			}
			x.addRunner()
		}
	}

	// the connection closes (also after an error): generator first, manager last
	if !res.Failed() {
		x.close(sc.Close)
	}
	if !res.Failed() {
		m.close()
	}
	res.SimNS = int64(time.Since(t0))
	res.TraceU(uint64(res.Events), uint64(res.SimNS), m.activeSeq, uint64(len(m.known)), uint64(len(m.retired)), uint64(len(m.frames)),
		x.highest, uint64(len(x.ownRetired)), uint64(len(x.frames)), uint64(len(x.route)))
	for _, s := range m.retireOrder {
		res.TraceU(s)
	}
	for _, f := range x.frames {
		if n, ok := f.(*wire.NewConnectionIDFrame); ok {
			res.TraceAdd(string(n.ConnectionID.Bytes()))
		}
	}
}
