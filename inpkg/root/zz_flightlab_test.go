package quic

// K:flightlab - component simulation of the Initial CRYPTO framing paths
// (property C09): a model TLS stack writes a ClientHello into the real
// initialCryptoStream; the real packer (packetPacker with and without the
// anti-DPI scrambler, uPacketPacker with every builder kind) produces Initial
// datagrams; a lossy model peer receives some of them and acknowledges; the
// real ack handler declares losses / fires PTOs and the retransmissions are
// re-framed; the exchange runs until the peer has the whole ClientHello.
// Overlay file of /verif; never part of /repo.

import (
	"bytes"
	"fmt"
	"io"
	"sort"
	"strings"
	"testing"
	"time"

	"github.com/refraction-networking/uquic/internal/ackhandler"
	"github.com/refraction-networking/uquic/internal/handshake"
	"github.com/refraction-networking/uquic/internal/monotime"
	"github.com/refraction-networking/uquic/internal/protocol"
	"github.com/refraction-networking/uquic/internal/qerr"
	"github.com/refraction-networking/uquic/internal/utils"
	"github.com/refraction-networking/uquic/internal/wire"
)

func init() { KRegister(flightlabSim()) }

// ---------------------------------------------------------------- scenario

// flabOp is the fate of the next datagram the client emits (the i-th op
// applies to the i-th datagram; datagrams beyond the list are delivered).
type flabOp struct {
	K string `json:"k"`           // "ok", "drop", "dup"
	A int    `json:"a,omitempty"` // one-way latency, ms
	B int    `json:"b,omitempty"` // peer's ack delay, ms
	C int    `json:"c,omitempty"` // 1: the peer's ACK for this datagram is lost
	D int    `json:"d,omitempty"` // >0: that many ms after this datagram was sent, a PING-only Initial packet of the peer arrives
}

type flabFrame struct {
	K string `json:"k"` // "c" crypto, "g" ping, "p" padding
	O int    `json:"o,omitempty"`
	L int    `json:"l,omitempty"`
}

type flabRF struct {
	MinPING    uint8  `json:"pi0,omitempty"`
	MaxPING    uint8  `json:"pi1,omitempty"`
	MinCRYPTO  uint8  `json:"c0,omitempty"`
	MaxCRYPTO  uint8  `json:"c1,omitempty"`
	MinPADDING uint8  `json:"pa0,omitempty"`
	MaxPADDING uint8  `json:"pa1,omitempty"`
	Length     uint16 `json:"len,omitempty"`
}

func (f flabRF) real() QUICRandomFrames {
	return QUICRandomFrames{MinPING: f.MinPING, MaxPING: f.MaxPING, MinCRYPTO: f.MinCRYPTO, MaxCRYPTO: f.MaxCRYPTO,
		MinPADDING: f.MinPADDING, MaxPADDING: f.MaxPADDING, Length: f.Length}
}

type flabRange struct {
	O int `json:"o"`
	L int `json:"l"`
}

type flabRFD struct {
	Ranges []flabRange `json:"ranges"`
	RF     flabRF      `json:"rf"`
}

type flabPlan struct {
	CL int `json:"cl,omitempty"`
	PS int `json:"ps,omitempty"`
}

type flabCHSpec struct {
	Seed   uint64 `json:"seed"`
	Len    int    `json:"len"`           // target length; 0 = the TLS stack writes nothing
	Raw    bool   `json:"raw,omitempty"` // unstructured bytes (never with the scrambler)
	SNI    int    `json:"sni"`           // host name length, <0 = no SNI extension
	ECH    int    `json:"ech"`           // ECH payload length, <0 = no ECH extension
	SNIPos int    `json:"sni_pos,omitempty"`
	ECHPos int    `json:"ech_pos,omitempty"`
	PadPos int    `json:"pad_pos,omitempty"`
	NExt   int    `json:"next,omitempty"`
	SID    int    `json:"sid,omitempty"`
	NCS    int    `json:"ncs,omitempty"`
	Parts  []int  `json:"parts,omitempty"`   // sizes of the Write calls (the rest goes into a last one)
	Len2   int    `json:"len2,omitempty"`    // >0: the peer answers with a HelloRetryRequest and the TLS stack writes a second ClientHello of about this length
	HRRDly int    `json:"hrr_dly,omitempty"` // ms the peer takes to produce the HelloRetryRequest
}

type flabSpec struct {
	Kind    string        `json:"kind"` // nil, qf, rf, multi, flight, rflight
	Frames  []flabFrame   `json:"frames,omitempty"`
	RF      flabRF        `json:"rf"`
	Multi   []flabRF      `json:"multi,omitempty"`
	Flight  [][]flabFrame `json:"flight,omitempty"`
	RFlight []flabRFD     `json:"rflight,omitempty"`
	Plans   []flabPlan    `json:"plans,omitempty"`
	UDPMin  int           `json:"udp_min,omitempty"`
	PNLens  []int         `json:"pn_lens,omitempty"`
}

type flabScenario struct {
	Seed     uint64     `json:"seed"`
	Mode     string     `json:"mode"`  // default, scramble, uquic
	Class    string     `json:"class"` // "valid": every error is a violation; otherwise the reason why the configuration may be rejected
	Lossy    bool       `json:"lossy"`
	PeerPing bool       `json:"peer_ping,omitempty"` // the peer's ACKs travel with a PING, so the client has something to acknowledge
	LagMs    int        `json:"lag_ms,omitempty"`    // the client's event loop is sometimes this late (busy process), so that
	LagPct   int        `json:"lag_pct,omitempty"`   // several things are due at once; percentage of wake-ups affected
	MaxSize  int        `json:"max_size"`
	DCID     int        `json:"dcid"`
	SCID     int        `json:"scid"`
	TokenLen int        `json:"token,omitempty"`
	InitPN   int64      `json:"init_pn,omitempty"`
	CH       flabCHSpec `json:"ch"`
	Spec     flabSpec   `json:"spec"`
	Ops      []flabOp   `json:"ops"`
	Inject   []flabInj  `json:"inject,omitempty"` // PING-only Initial packets of the peer arriving at fixed times
}

type flabInj struct {
	At int `json:"at"` // ms after the start
}

func (s *flabScenario) KSeed() uint64 { return s.Seed }

func flightlabSim() *KSim {
	return &KSim{
		Name: "flightlab",
		New:  func() KScenario { return &flabScenario{} },
		Gen:  flabGen,
		Run:  flabRun,
	}
}

// ---------------------------------------------------------------- generation

func flabVarLen(v int) int {
	switch {
	case v < 64:
		return 1
	case v < 16384:
		return 2
	default:
		return 4
	}
}

// flabHdrMax is an upper bound of the Initial long header length of the scenario.
func (sc *flabScenario) flabHdrMax() int {
	return 1 + 4 + 1 + sc.DCID + 1 + sc.SCID + flabVarLen(sc.TokenLen) + sc.TokenLen + 2 + 4
}

func flabGenRF(r *KRng, length int) flabRF {
	f := flabRF{}
	f.MinPING = uint8(r.Pick(0, 0, 1, 2, 5))
	f.MaxPING = f.MinPING + uint8(r.Pick(0, 1, 1, 3, 6))
	f.MinCRYPTO = uint8(r.Pick(1, 1, 2, 3, 6, 9))
	f.MaxCRYPTO = f.MinCRYPTO + uint8(r.Pick(0, 1, 2, 5, 12))
	if length > 0 {
		f.Length = uint16(length)
		f.MinPADDING = uint8(r.Pick(1, 1, 2, 3))
		f.MaxPADDING = f.MinPADDING + uint8(r.Pick(0, 1, 3, 6))
	} else if r.P(0.3) {
		// padding bounds are irrelevant without a Length
		f.MinPADDING, f.MaxPADDING = uint8(r.N(3)), uint8(r.N(3))
	}
	return f
}

// flabBreakRF makes one of the documented parameter rules fail.
func flabBreakRF(r *KRng, f flabRF, flight bool) flabRF {
	for {
		switch r.N(5) {
		case 0:
			f.MinPING, f.MaxPING = 4, 2
			return f
		case 1:
			if flight {
				continue // the zero value is allowed in a flight datagram
			}
			f.MinCRYPTO = 0
			return f
		case 2:
			f.MinCRYPTO, f.MaxCRYPTO = 7, 3
			return f
		case 3:
			f.Length, f.MinPADDING, f.MaxPADDING = 300, 0, 2
			return f
		case 4:
			f.Length, f.MinPADDING, f.MaxPADDING = 300, 5, 2
			return f
		}
	}
}

func flabEncodeRange(r *KRng, s, e, L int) flabRange {
	off := s
	if s < L && r.P(0.4) {
		off = s - L // counted back from the end
	}
	var ln int
	switch {
	case e == L && r.P(0.7):
		ln = 0 // to the end
	case e < L && r.P(0.4):
		ln = e - L // ends that far before the end
	default:
		ln = e - s
		if ln == 0 { // only possible for an empty piece that is not at the end
			ln = e - L
		}
	}
	return flabRange{O: off, L: ln}
}

// flabGenFlight lays out a flight plan of absolute ranges for an L byte stream.
// It returns per datagram the ranges and the class of the configuration.
func flabGenFlight(r *KRng, sc *flabScenario, L int, random bool) {
	cap0 := sc.MaxSize - sc.flabHdrMax() - 16
	sp := &sc.Spec
	chunkMax := cap0 - 110
	D := (L + chunkMax - 1) / chunkMax
	if D < 1 {
		D = 1
	}
	D += r.Pick(0, 0, 0, 1)
	if r.P(0.08) {
		D = r.Range(1, 4) // may be too few: datagrams too large for their packet
	}
	if D > 5 {
		D = 5
	}
	if L > 0 && D > L {
		D = L
	}
	// contiguous chunks, one per datagram
	bounds := make([]int, D+1)
	rem := L
	for i := 0; i < D; i++ {
		left := D - i - 1
		lo := rem - left*chunkMax
		if lo < 1 {
			lo = 1
		}
		hi := rem - left // leave one byte for each of the others
		if hi > chunkMax && D*chunkMax >= L {
			hi = chunkMax
		}
		if hi < lo {
			hi = lo
		}
		sz := lo + r.N(hi-lo+1)
		if r.P(0.5) && hi == chunkMax {
			sz = hi
		}
		if i == D-1 {
			sz = rem
		}
		bounds[i+1] = bounds[i] + sz
		rem -= sz
	}
	type piece struct{ s, e int }
	per := make([][]piece, D)
	perm := make([]int, D)
	for i := range perm {
		perm[i] = i
	}
	switch r.N(3) {
	case 0: // stream order
	case 1: // tail first (Chrome)
		perm[0], perm[D-1] = perm[D-1], perm[0]
	default:
		for i := D - 1; i > 0; i-- {
			j := r.N(i + 1)
			perm[i], perm[j] = perm[j], perm[i]
		}
	}
	for i := 0; i < D; i++ {
		s, e := bounds[i], bounds[i+1]
		// cut the chunk into 1..3 pieces
		n := r.Pick(1, 1, 2, 3)
		cuts := []int{s, e}
		for k := 1; k < n && e-s > 1; k++ {
			cuts = append(cuts, s+1+r.N(e-s-1))
		}
		sort.Ints(cuts)
		for k := 0; k+1 < len(cuts); k++ {
			if cuts[k+1] > cuts[k] {
				per[perm[i]] = append(per[perm[i]], piece{cuts[k], cuts[k+1]})
			}
		}
	}
	// move one small piece to another datagram (the head next to the tail)
	if D > 1 && r.P(0.4) {
		from := r.N(D)
		if len(per[from]) > 1 {
			k := r.N(len(per[from]))
			p := per[from][k]
			if p.e-p.s <= 70 {
				to := (from + 1 + r.N(D-1)) % D
				per[from] = append(per[from][:k:k], per[from][k+1:]...)
				per[to] = append(per[to], p)
			}
		}
	}
	// duplicate a small range in a second datagram (harmless overlap)
	if D > 1 && L > 4 && r.P(0.15) {
		s := r.N(L - 2)
		e := s + 1 + r.N(min(40, L-s-1))
		d := r.N(D)
		per[d] = append(per[d], piece{s, e})
	}
	sc.Class = "valid"
	// break it?
	broken := ""
	if x := r.N(100); x < 7 && L > 1 {
		broken = "flight-gap"
	} else if x < 14 && L > 0 {
		broken = "flight-oob"
	} else if x < 17 {
		broken = "flight-empty"
	} else if x < 22 && random {
		broken = "bad-params"
	}
	if broken == "flight-gap" {
		// remove a byte range nobody else carries: shorten or drop one piece of a datagram
		d := r.N(D)
		for len(per[d]) == 0 {
			d = (d + 1) % D
		}
		k := r.N(len(per[d]))
		p := per[d][k]
		covered := func(pos int) bool {
			for dd := range per {
				for kk, q := range per[dd] {
					if (dd != d || kk != k) && q.s <= pos && pos < q.e {
						return true
					}
				}
			}
			return false
		}
		if covered(p.s) || covered(p.e-1) {
			broken = "" // overlaps: keep it valid rather than guess
		} else if p.e-p.s > 1 && r.Bool() {
			if r.Bool() {
				per[d][k].s++
			} else {
				per[d][k].e--
			}
		} else {
			per[d] = append(per[d][:k:k], per[d][k+1:]...)
		}
	}
	nOOB := -1
	if broken == "flight-oob" {
		nOOB = r.N(1 << 20)
	}
	fits := true
	count := 0
	for d := 0; d < D; d++ {
		// frame order inside the datagram
		ps := per[d]
		for i := len(ps) - 1; i > 0; i-- {
			j := r.N(i + 1)
			ps[i], ps[j] = ps[j], ps[i]
		}
		var ranges []flabRange
		sum := 0
		for _, p := range ps {
			rg := flabEncodeRange(r, p.s, p.e, L)
			ranges = append(ranges, rg)
			sum += p.e - p.s
			count++
		}
		capD := cap0
		if random {
			rf := flabRF{}
			if r.P(0.7) {
				rf = flabGenRF(r, 0)
				if r.P(0.3) {
					rf.MinCRYPTO = 0
				}
			}
			nfr := max(int(rf.MaxCRYPTO)-1, int(rf.MinCRYPTO), 1)
			need := sum + 5*nfr*max(len(ranges), 1) + int(rf.MaxPING)
			if r.P(0.4) && need+20 < capD {
				rf.Length = uint16(r.Range(need/2, capD-4))
				rf.MinPADDING = uint8(r.Pick(1, 1, 2, 3))
				rf.MaxPADDING = rf.MinPADDING + uint8(r.Pick(0, 1, 3, 6))
				need = max(need, int(rf.Length))
			}
			if need > capD-4 {
				fits = false
			}
			if len(ranges) == 0 {
				// a random flight datagram needs a range; give it a harmless duplicate
				if L > 0 {
					ranges = append(ranges, flabRange{O: 0, L: 1})
				} else {
					ranges = append(ranges, flabRange{O: 0, L: 0})
				}
			}
			sp.RFlight = append(sp.RFlight, flabRFD{Ranges: ranges, RF: rf})
		} else {
			var fr []flabFrame
			for _, rg := range ranges {
				fr = append(fr, flabFrame{K: "c", O: rg.O, L: rg.L})
			}
			extra := 0
			for n := r.Pick(0, 0, 1, 2, 4); n > 0; n-- {
				fr = append(fr, flabFrame{K: "g"})
				extra++
			}
			for n := r.Pick(0, 0, 1, 2); n > 0; n-- {
				pl := r.Range(1, 40)
				fr = append(fr, flabFrame{K: "p", L: pl})
				extra += pl
			}
			if len(fr) == 0 {
				fr = append(fr, flabFrame{K: "g"})
				extra++
			}
			for i := len(fr) - 1; i > 0; i-- {
				j := r.N(i + 1)
				fr[i], fr[j] = fr[j], fr[i]
			}
			if sum+5*len(ranges)+extra > capD-4 {
				fits = false
			}
			sp.Flight = append(sp.Flight, fr)
		}
	}
	if nOOB >= 0 && count > 0 {
		// push one range out of bounds
		k := nOOB % count
		mut := func(rg *flabRange) {
			switch r.N(4) {
			case 0:
				rg.O = L + r.Range(1, 50)
			case 1:
				rg.O = -(L + r.Range(1, 50))
			case 2:
				s := rg.O
				if s < 0 {
					s += L
				}
				rg.L = L - s + r.Range(1, 50)
			default:
				s := rg.O
				if s < 0 {
					s += L
				}
				rg.L = -(L - s + r.Range(1, 50)) // ends before it starts
			}
		}
		i := 0
		if random {
			for d := range sp.RFlight {
				for q := range sp.RFlight[d].Ranges {
					if i == k {
						mut(&sp.RFlight[d].Ranges[q])
					}
					i++
				}
			}
		} else {
			for d := range sp.Flight {
				for q := range sp.Flight[d] {
					if sp.Flight[d][q].K == "c" {
						if i == k {
							rg := flabRange{sp.Flight[d][q].O, sp.Flight[d][q].L}
							mut(&rg)
							sp.Flight[d][q].O, sp.Flight[d][q].L = rg.O, rg.L
						}
						i++
					}
				}
			}
		}
	} else if broken == "flight-oob" {
		broken = ""
	}
	if broken == "flight-empty" {
		sp.Flight, sp.RFlight = nil, nil
	}
	if broken == "bad-params" {
		d := r.N(len(sp.RFlight))
		sp.RFlight[d].RF = flabBreakRF(r, sp.RFlight[d].RF, true)
	}
	if broken != "" {
		sc.Class = broken
	} else if !fits {
		sc.Class = "oversize"
	}
	// exact packet sizes for the flight
	if r.P(0.35) {
		n := r.Range(1, D)
		for i := 0; i < n; i++ {
			sp.Plans = append(sp.Plans, flabPlan{PS: r.Pick(sc.MaxSize, sc.MaxSize, sc.MaxSize-r.N(40))})
		}
		if sc.Class == "valid" {
			for _, p := range sp.Plans {
				if p.PS < sc.MaxSize {
					sc.Class = "oversize" // the smaller packet may not hold the datagram any more
				}
			}
		}
	}
}

func flabGen(seed uint64, tier string) KScenario {
	r := NewKRng(seed)
	sc := &flabScenario{Seed: seed, Class: "valid"}
	switch x := r.N(100); {
	case x < 10:
		sc.Mode = "default"
	case x < 28:
		sc.Mode = "scramble"
	default:
		sc.Mode = "uquic"
	}
	sc.Lossy = r.P(0.5)
	sc.PeerPing = r.P(0.25)
	if sc.Lossy && r.P(0.4) {
		sc.LagMs, sc.LagPct = r.Pick(1, 5, 30, 120, 400, 1000), r.Pick(10, 30, 60, 100)
	}
	sc.MaxSize = r.Pick(1200, 1200, 1252, 1280, 1350)
	sc.DCID = r.Pick(8, 8, 8, 12, 20)
	sc.SCID = r.Pick(0, 0, 4, 8, 20)
	sc.TokenLen = r.Pick(0, 0, 0, 16, 70)
	sc.InitPN = int64(r.Pick(0, 0, 1, 1, 2, 77))
	capacity := sc.MaxSize - sc.flabHdrMax() - 16

	if sc.Mode == "uquic" {
		sc.Spec.Kind = []string{"nil", "qf", "qf", "rf", "rf", "multi", "flight", "flight", "rflight", "rflight"}[r.N(10)]
		switch r.N(6) {
		case 0:
			sc.Spec.PNLens = []int{1}
		case 1:
			sc.Spec.PNLens = []int{1, 2}
		case 2:
			sc.Spec.PNLens = []int{r.Pick(2, 3, 4)}
		}
		if r.P(0.3) {
			sc.Spec.UDPMin = r.Pick(1, 600, 1200, 1350)
		}
	} else if r.P(0.3) {
		sc.MaxSize = 1452
		capacity = sc.MaxSize - sc.flabHdrMax() - 16
	}

	// ---- ClientHello
	ch := &sc.CH
	ch.Seed = r.U64()
	var L int
	switch x := r.N(100); {
	case x < 3:
		L = 0
	case x < 12:
		L = r.Range(1, 60)
	case x < 45:
		L = r.Range(60, capacity-100)
	case x < 60:
		L = r.Range(capacity-150, capacity+150)
	default:
		L = r.Range(capacity, 4*capacity-200)
	}
	ch.SNI, ch.ECH = -1, -1
	if sc.Mode == "scramble" {
		if L < 120 {
			L = r.Range(120, 400)
		}
	} else if L > 0 && (L < 120 || r.P(0.25)) {
		ch.Raw = true
	}
	if !ch.Raw && L > 0 {
		if r.P(0.85) {
			ch.SNI = r.Pick(1, 2, 3, 9, 16, 31, 64, 250)
		}
		if r.P(0.5) {
			ch.ECH = r.Pick(0, 5, 11, 12, 13, 40, 200, 280)
		}
		ch.NExt = r.Range(0, 8)
		ch.SNIPos, ch.ECHPos, ch.PadPos = r.N(12), r.N(12), r.N(12)
		ch.SID = r.Pick(0, 0, 32)
		ch.NCS = r.Range(1, 12)
	}
	ch.Len = L
	if L > 1 && r.P(0.3) {
		for n := r.Range(1, 3); n > 0; n-- {
			ch.Parts = append(ch.Parts, r.Range(1, max(1, L/2)))
		}
	}
	if L > 0 && r.P(0.15) {
		ch.Len2 = r.Pick(r.Range(1, 300), r.Range(100, capacity), r.Range(capacity, 2*capacity))
		ch.HRRDly = r.Pick(0, 0, 50, 300, 1000, 3000)
	}
	L = len(flabBuildCH(ch)) // the structured form may be longer than the target

	// ---- framing specification
	sp := &sc.Spec
	plansOK := true
	switch sp.Kind {
	case "qf":
		nfix := r.Pick(0, 0, 0, 1, 1, 2, 3)
		explicit := false
		F := 0
		for i := 0; i < nfix; i++ {
			l := r.Pick(1, 2, 17, 62, 63, 64, 100, 300, r.Range(1, 500))
			sp.Frames = append(sp.Frames, flabFrame{K: "c", O: F, L: l})
			F += l
		}
		sp.Frames = append(sp.Frames, flabFrame{K: "c", O: F})
		if nfix > 0 && L > F && r.P(0.2) {
			// every length explicit: the layout tiles exactly this ClientHello (any shorter slice - a later datagram's
			// remainder, a retransmitted piece - does not fit it and must be refused, never zero-extended)
			sp.Frames[len(sp.Frames)-1].L = L - F
			explicit = true
		}
		ovh := 5 * (nfix + 1)
		for n := r.Pick(0, 0, 1, 3); n > 0; n-- {
			sp.Frames = append(sp.Frames, flabFrame{K: "g"})
			ovh++
		}
		for n := r.Pick(0, 0, 1, 2); n > 0; n-- {
			pl := r.Range(1, 60)
			sp.Frames = append(sp.Frames, flabFrame{K: "p", L: pl})
			ovh += pl
		}
		if r.P(0.15) {
			sp.Frames = nil // the documented pass-through form
			nfix, F, ovh = 0, 0, 5
		}
		for i := len(sp.Frames) - 1; i > 0; i-- {
			j := r.N(i + 1)
			sp.Frames[i], sp.Frames[j] = sp.Frames[j], sp.Frames[i]
		}
		if nfix > 0 {
			plansOK = false
			if sc.Lossy || L+ovh > capacity || F > L || ch.Len2 > 0 {
				// some slice (a later datagram's remainder, a retransmitted piece) can be
				// shorter than the fixed part of the layout
				sc.Class = "qf-short-slice"
			}
			if explicit && sc.Class == "qf-short-slice" {
				// (a class of its own: without a remainder frame a *longer* slice - the second ClientHello after a
				// HelloRetryRequest - is silently cut off, which is the known non-tiling defect; a shorter one must be refused)
				sc.Class = "qf-explicit"
			}
		}
		if len(sp.Frames) > 0 && r.P(0.06) {
			sc.Class = "qf-nontiling"
			switch r.N(3) {
			case 0: // no frame takes the remainder
				var fr []flabFrame
				for _, f := range sp.Frames {
					if !(f.K == "c" && f.L == 0) {
						fr = append(fr, f)
					}
				}
				fr = append(fr, flabFrame{K: "c", O: F, L: r.Range(1, 30)})
				sp.Frames = fr
			case 1: // the layout does not start at 0
				k := r.Range(1, 40)
				for i := range sp.Frames {
					if sp.Frames[i].K == "c" {
						sp.Frames[i].O += k
					}
				}
			default: // a hole between two frames
				k := r.Range(1, 40)
				for i := range sp.Frames {
					if sp.Frames[i].K == "c" && sp.Frames[i].L == 0 {
						sp.Frames[i].O += k
					}
				}
			}
		}
	case "rf":
		length := 0
		if r.P(0.7) {
			lo := max(70, L/5+40)
			if lo < capacity-30 {
				length = r.Range(lo, capacity-30)
			}
		}
		sp.RF = flabGenRF(r, length)
		if r.P(0.06) {
			// a Length the CRYPTO frames alone exceed; the packer reserves Length-16 for CRYPTO
			sp.RF = flabGenRF(r, r.Range(1, 59))
			sc.Class = "rf-small-length"
			if L > 150 {
				ch.Len, ch.Raw, ch.Parts = r.Range(1, 150), true, nil
				ch.SNI, ch.ECH = -1, -1
				L = ch.Len
			}
			ch.Len2 = 0
		}
		if sc.Class == "valid" && r.P(0.08) {
			sp.RF = flabBreakRF(r, sp.RF, false)
			sc.Class = "bad-params"
		}
	case "multi":
		n := r.Range(1, 4)
		for i := 0; i < n; i++ {
			length := 0
			if r.P(0.5) {
				length = r.Range(70, capacity-30)
			}
			sp.Multi = append(sp.Multi, flabGenRF(r, length))
		}
		if x := r.N(100); x < 4 {
			sp.Multi = nil
			sc.Class = "bad-params"
		} else if x < 12 {
			i := r.N(n)
			sp.Multi[i] = flabBreakRF(r, sp.Multi[i], false)
			if i == 0 {
				sc.Class = "bad-params"
			} else {
				sc.Class = "bad-params-later-datagram"
			}
		}
	case "flight":
		flabGenFlight(r, sc, L, false)
		plansOK = false
	case "rflight":
		flabGenFlight(r, sc, L, true)
		plansOK = false
	}
	if sc.Mode == "uquic" && plansOK && r.P(0.35) {
		for n := r.Range(1, 3); n > 0; n-- {
			p := flabPlan{}
			if r.P(0.6) {
				p.CL = r.Range(max(20, L/6), max(21, capacity))
			}
			if r.P(0.6) {
				p.PS = r.Pick(sc.MaxSize, sc.MaxSize, r.Range(700, sc.MaxSize))
			}
			sp.Plans = append(sp.Plans, p)
		}
	}

	// ---- network
	if sc.Lossy {
		n := r.Range(1, 12)
		if tier == "thorough" && r.P(0.3) {
			n = r.Range(12, 40)
		}
		pDrop := 0.1 + r.F()*0.6
		for i := 0; i < n; i++ {
			op := flabOp{K: "ok", A: r.Pick(5, 10, 10, 20, 80, 400), B: r.Pick(0, 0, 1, 10, 25, 200, 900)}
			if x := r.F(); x < pDrop {
				op.K = "drop"
			} else if x < pDrop+0.1 {
				op.K = "dup"
			}
			if r.P(0.2) {
				op.C = 1
			}
			if r.P(0.15) {
				op.D = r.Pick(1, 30, 100, 200, 300, 600, 1000)
			}
			sc.Ops = append(sc.Ops, op)
		}
		if r.P(0.3) {
			for n := r.Range(1, 5); n > 0; n-- {
				sc.Inject = append(sc.Inject, flabInj{At: r.Pick(r.Range(1, 400), r.Range(1, 4000))})
			}
		}
	}
	return sc
}

// ---------------------------------------------------------------- model TLS stack

var flabFillerTypes = []uint16{10, 11, 13, 16, 5, 18, 23, 27, 35, 43, 45, 51, 57, 0x0a0a, 0x4469, 0xff01}

// flabBuildCH returns the ClientHello the model TLS stack writes.
func flabBuildCH(c *flabCHSpec) []byte {
	if c.Len <= 0 {
		return nil
	}
	r := NewKRng(c.Seed)
	if c.Raw {
		b := r.Bytes(c.Len)
		for i := range b {
			b[i] ^= byte(i*31 + (i>>8)*7)
		}
		return b
	}
	type ext struct {
		typ  uint16
		data []byte
	}
	var exts []ext
	for i := 0; i < c.NExt; i++ {
		exts = append(exts, ext{flabFillerTypes[r.N(len(flabFillerTypes))], r.Bytes(r.Pick(0, 2, 5, 9, 34, 70))})
	}
	ins := func(pos int, e ext) {
		pos %= len(exts) + 1
		exts = append(exts, ext{})
		copy(exts[pos+1:], exts[pos:])
		exts[pos] = e
	}
	if c.SNI >= 0 {
		name := make([]byte, c.SNI)
		for i := range name {
			name[i] = 'a' + byte(r.N(26))
		}
		d := []byte{byte((3 + c.SNI) >> 8), byte(3 + c.SNI), 0, byte(c.SNI >> 8), byte(c.SNI)}
		ins(c.SNIPos, ext{0, append(d, name...)})
	}
	if c.ECH >= 0 {
		ins(c.ECHPos, ext{0xfe0d, r.Bytes(c.ECH)})
	}
	prefix := 4 + 2 + 32 + 1 + c.SID + 2 + 2*c.NCS + 2 + 2
	natural := prefix
	for _, e := range exts {
		natural += 4 + len(e.data)
	}
	if c.Len >= natural+4 {
		n := c.Len - natural - 4
		if n > 60000 {
			n = 60000
		}
		pad := r.Bytes(n)
		for i := range pad {
			pad[i] ^= byte(i * 13)
		}
		ins(c.PadPos, ext{21, pad})
	}
	var body []byte
	body = append(body, 3, 3)
	body = append(body, r.Bytes(32)...)
	body = append(body, byte(c.SID))
	body = append(body, r.Bytes(c.SID)...)
	body = append(body, byte(2*c.NCS>>8), byte(2*c.NCS))
	for i := 0; i < c.NCS; i++ {
		body = append(body, 0x13, byte(1+i))
	}
	body = append(body, 1, 0)
	var eb []byte
	for _, e := range exts {
		eb = append(eb, byte(e.typ>>8), byte(e.typ), byte(len(e.data)>>8), byte(len(e.data)))
		eb = append(eb, e.data...)
	}
	body = append(body, byte(len(eb)>>8), byte(len(eb)))
	body = append(body, eb...)
	out := []byte{1, byte(len(body) >> 16), byte(len(body) >> 8), byte(len(body))}
	return append(out, body...)
}

// ---------------------------------------------------------------- fakes around the real packer

// flabSealer leaves the payload in the clear and writes a recognisable tag.
type flabSealer struct{}

func (flabSealer) Seal(dst, src []byte, _ protocol.PacketNumber, _ []byte) []byte {
	if cap(dst) < len(src)+16 {
		return dst
	}
	out := dst[:len(src)+16]
	if len(src) > 0 && &out[0] != &src[0] {
		copy(out, src)
	}
	for i := 0; i < 16; i++ {
		out[len(src)+i] = 0xA5
	}
	return out
}
func (flabSealer) EncryptHeader([]byte, *byte, []byte) {}
func (flabSealer) Overhead() int                       { return 16 }

type flabKeys struct{}

func (flabKeys) GetInitialSealer() (handshake.LongHeaderSealer, error) { return flabSealer{}, nil }
func (flabKeys) GetHandshakeSealer() (handshake.LongHeaderSealer, error) {
	return nil, handshake.ErrKeysNotYetAvailable
}
func (flabKeys) Get0RTTSealer() (handshake.LongHeaderSealer, error) {
	return nil, handshake.ErrKeysNotYetAvailable
}
func (flabKeys) Get1RTTSealer() (handshake.ShortHeaderSealer, error) {
	return nil, handshake.ErrKeysNotYetAvailable
}

type flabFramer struct{}

func (flabFramer) HasData() bool { return false }
func (flabFramer) Append(f []ackhandler.Frame, s []ackhandler.StreamFrame, _ protocol.ByteCount, _ monotime.Time, _ protocol.Version) ([]ackhandler.Frame, []ackhandler.StreamFrame, protocol.ByteCount) {
	return f, s, 0
}

// flabAcks is the ACK source: it has an ACK exactly when the model peer sent
// an ack-eliciting Initial packet that has not been acknowledged yet.
type flabAcks struct {
	pending bool
	largest protocol.PacketNumber
	gave    bool
}

func (a *flabAcks) GetAckFrame(lvl protocol.EncryptionLevel, _ monotime.Time, _ bool) *wire.AckFrame {
	if lvl != protocol.EncryptionInitial || !a.pending {
		return nil
	}
	a.pending, a.gave = false, true
	return &wire.AckFrame{AckRanges: []wire.AckRange{{Smallest: 0, Largest: a.largest}}}
}

// ---------------------------------------------------------------- independent wire readers

func flabVarint(b []byte) (uint64, int, bool) {
	if len(b) == 0 {
		return 0, 0, false
	}
	n := 1 << (b[0] >> 6)
	if len(b) < n {
		return 0, 0, false
	}
	v := uint64(b[0] & 0x3f)
	for i := 1; i < n; i++ {
		v = v<<8 | uint64(b[i])
	}
	return v, n, true
}

type flabFr struct {
	typ     byte // 0 padding run, 1 ping, 2 ack, 6 crypto, 0x1c close
	off, ln uint64
	pos     int // start of the CRYPTO data in the payload
}

// flabReadFrames walks an Initial payload byte by byte (RFC 9000 section 19).
func flabReadFrames(p []byte) (out []flabFr, bad string) {
	i := 0
	vi := func() (uint64, bool) {
		v, n, ok := flabVarint(p[i:])
		i += n
		return v, ok
	}
	for i < len(p) {
		t := p[i]
		switch t {
		case 0x00:
			j := i
			for j < len(p) && p[j] == 0 {
				j++
			}
			out = append(out, flabFr{typ: 0, ln: uint64(j - i)})
			i = j
		case 0x01:
			out = append(out, flabFr{typ: 1})
			i++
		case 0x06:
			i++
			off, ok1 := vi()
			ln, ok2 := vi()
			if !ok1 || !ok2 || ln > uint64(len(p)-i) {
				return out, "truncated CRYPTO frame"
			}
			out = append(out, flabFr{typ: 6, off: off, ln: ln, pos: i})
			i += int(ln)
		case 0x02, 0x03:
			i++
			largest, ok1 := vi()
			_, ok2 := vi()
			cnt, ok3 := vi()
			first, ok4 := vi()
			if !ok1 || !ok2 || !ok3 || !ok4 || cnt > 1000 {
				return out, "truncated ACK frame"
			}
			for k := uint64(0); k < 2*cnt; k++ {
				if _, ok := vi(); !ok {
					return out, "truncated ACK frame"
				}
			}
			if t == 0x03 {
				for k := 0; k < 3; k++ {
					if _, ok := vi(); !ok {
						return out, "truncated ACK frame"
					}
				}
			}
			out = append(out, flabFr{typ: 2, off: largest, ln: first})
		case 0x1c:
			i++
			code, ok1 := vi()
			_, ok2 := vi()
			rl, ok3 := vi()
			if !ok1 || !ok2 || !ok3 || rl > uint64(len(p)-i) {
				return out, "truncated CONNECTION_CLOSE frame"
			}
			i += int(rl)
			out = append(out, flabFr{typ: 0x1c, off: code, ln: rl})
		default:
			return out, fmt.Sprintf("frame type 0x%02x", t)
		}
	}
	return out, ""
}

// flabParseInitial reads the long header of an Initial packet whose header
// protection is the identity (RFC 9000 section 17.2.2).
func flabParseInitial(b []byte) (pn uint64, payload []byte, pktLen int, bad string) {
	if len(b) < 7 {
		return 0, nil, 0, "datagram shorter than a long header"
	}
	fb := b[0]
	if fb&0xc0 != 0xc0 {
		return 0, nil, 0, "not a long header with the fixed bit"
	}
	if (fb>>4)&3 != 0 {
		return 0, nil, 0, "long header packet is not an Initial"
	}
	pos := 5
	for k := 0; k < 2; k++ { // DCID, SCID
		if pos >= len(b) {
			return 0, nil, 0, "truncated header"
		}
		pos += 1 + int(b[pos])
	}
	if pos >= len(b) {
		return 0, nil, 0, "truncated header"
	}
	tl, n, ok := flabVarint(b[pos:])
	if !ok || tl > uint64(len(b)) {
		return 0, nil, 0, "truncated header"
	}
	pos += n + int(tl)
	if pos >= len(b) {
		return 0, nil, 0, "truncated header"
	}
	ln, n, ok := flabVarint(b[pos:])
	if !ok {
		return 0, nil, 0, "truncated header"
	}
	pos += n
	pnl := int(fb&3) + 1
	if uint64(pos)+ln > uint64(len(b)) {
		return 0, nil, 0, "Length field reaches beyond the datagram"
	}
	if int(ln) < pnl+16 {
		return 0, nil, 0, "Length field shorter than packet number plus tag"
	}
	for k := 0; k < pnl; k++ {
		pn = pn<<8 | uint64(b[pos+k])
	}
	return pn, b[pos+pnl : pos+int(ln)-16], pos + int(ln), ""
}

// ---------------------------------------------------------------- the lab

type flabDgram struct {
	ord       int
	pn        int64
	ranges    [][2]int
	eliciting bool
}

type flabEvt struct {
	at     time.Time
	seq    int
	isAck  bool
	ping   bool // a PING-only Initial packet of the peer
	hrr    bool
	dg     *flabDgram
	ranges []wire.AckRange
	delay  time.Duration
	noAck  bool
	ackDly time.Duration
}

type flabLab struct {
	sc  *flabScenario
	res *KResult
	tag string
	ch  []byte // the Initial CRYPTO stream as written by the TLS stack so far
	L   int
	ch2 []byte // second ClientHello, written when the peer's HelloRetryRequest arrives

	str  *initialCryptoStream
	sph  ackhandler.SentPacketHandler
	rq   *retransmissionQueue
	pk   packer
	up   *uPacketPacker
	acks *flabAcks
	fp   *wire.FrameParser

	emitted    []bool
	nEmitted   int
	have       []bool
	nHave      int
	peerPNs    map[int64]bool
	peerPkts   int
	nDgrams    int
	cleanSent  int
	events     []flabEvt
	seq        int
	pacingAt   monotime.Time
	ended      bool
	done       bool
	progressed bool // an ACK or a timer has been processed: later packets are not the first flight
	drainedChk bool
	usedNeg    bool
	hrrSent    bool
	sawLoss    bool
	shape      strings.Builder
}

func (l *flabLab) fail(sig, format string, a ...any) {
	l.res.Fail(sig+" ["+l.tag+"]", format, a...)
	l.ended = true
}

func (l *flabLab) phase() string {
	if l.progressed {
		return "after the first ACK or timer"
	}
	return "first flight"
}

func flabRun(t *testing.T, ksc KScenario, res *KResult) {
	sc := ksc.(*flabScenario)
	monotime.VerifSetStart(time.Now().Add(-time.Hour))
	t0 := time.Now()
	l := &flabLab{sc: sc, res: res, peerPNs: map[int64]bool{}}
	l.tag = sc.Mode
	if sc.Mode == "uquic" {
		l.tag = "uquic/" + sc.Spec.Kind
	}
	if sc.Mode == "scramble" {
		switch {
		case sc.CH.SNI >= 0 && sc.CH.ECH >= 0:
			l.tag += " (ClientHello with SNI and ECH)"
		case sc.CH.SNI >= 0:
			l.tag += " (ClientHello with SNI)"
		case sc.CH.ECH >= 0:
			l.tag += " (ClientHello with ECH, without SNI)"
		default:
			l.tag += " (ClientHello without SNI and ECH)"
		}
	}
	l.tag += ", config " + sc.Class
	l.ch = flabBuildCH(&sc.CH)
	l.L = len(l.ch)
	if sc.CH.Len2 > 0 && l.L > 0 {
		c2 := sc.CH
		c2.Seed, c2.Len = KMix(sc.CH.Seed, 2), sc.CH.Len2
		if c2.Len < 120 {
			c2.Raw = true
		}
		l.ch2 = flabBuildCH(&c2)
	}
	l.emitted = make([]bool, l.L)
	l.have = make([]bool, l.L)
	res.Probe("mode/" + sc.Mode)
	if sc.Mode == "uquic" {
		res.Probe("kind/" + sc.Spec.Kind)
	}
	res.Probe("class/" + sc.Class)
	if !l.setup() {
		return
	}
	l.run()
	res.SimNS = int64(time.Since(t0))
	res.TraceU(uint64(l.nDgrams), uint64(l.nHave), uint64(l.nEmitted), uint64(res.Events), uint64(res.SimNS))
	res.TraceAdd(res.Violation)
	res.Shape(l.tag)
	res.Shape(l.shape.String())
	res.Nontrivial = res.Nontrivial || l.nDgrams > 0
}

func (l *flabLab) buildSpec() *QUICSpec {
	sp := &l.sc.Spec
	spec := &QUICSpec{UDPDatagramMinSize: sp.UDPMin}
	ips := &spec.InitialPacketSpec
	ips.InitPacketNumber = uint64(l.sc.InitPN)
	for _, p := range sp.Plans {
		ips.InitialPackets = append(ips.InitialPackets, InitialPacketPlan{CryptoLength: p.CL, PacketSize: p.PS})
	}
	conv := func(in []flabFrame) QUICFrames {
		out := QUICFrames{}
		for _, f := range in {
			switch f.K {
			case "c":
				out = append(out, QUICFrameCrypto{Offset: f.O, Length: f.L})
				if f.O < 0 || f.L < 0 {
					l.usedNeg = true
				}
			case "g":
				out = append(out, QUICFramePing{})
			default:
				out = append(out, QUICFramePadding{Length: f.L})
			}
		}
		return out
	}
	switch sp.Kind {
	case "nil":
	case "qf":
		ips.FrameBuilder = conv(sp.Frames)
	case "rf":
		rf := sp.RF.real()
		ips.FrameBuilder = &rf
	case "multi":
		m := &QUICMultiDatagramFrames{}
		for _, f := range sp.Multi {
			m.PerDatagram = append(m.PerDatagram, f.real())
		}
		ips.FrameBuilder = m
	case "flight":
		f := &QUICFlightFrames{}
		for _, d := range sp.Flight {
			f.Datagrams = append(f.Datagrams, conv(d))
		}
		ips.FrameBuilder = f
	case "rflight":
		f := &QUICRandomFlightFrames{}
		for _, d := range sp.RFlight {
			dg := QUICRandomFlightDatagram{Frames: d.RF.real()}
			for _, rg := range d.Ranges {
				dg.CryptoRanges = append(dg.CryptoRanges, QUICCryptoRange{Offset: rg.O, Length: rg.L})
				if rg.O < 0 || rg.L < 0 {
					l.usedNeg = true
				}
			}
			f.PerDatagram = append(f.PerDatagram, dg)
		}
		ips.FrameBuilder = f
	}
	return spec
}

func (l *flabLab) setup() bool {
	sc := l.sc
	l.str = newInitialCryptoStream(true)
	switch sc.Mode {
	case "scramble":
		l.str.scramble = true // whatever the environment of the worker says
	default:
		l.str.DisableScrambling() // the uQUIC connection does this; the plain client via the environment switch
	}
	rtt := utils.NewRTTStats()
	mk := ackhandler.NewAckHandler
	if sc.Mode == "uquic" {
		mk = ackhandler.NewUAckHandler
	}
	l.sph = mk(protocol.PacketNumber(sc.InitPN), protocol.ByteCount(sc.MaxSize), rtt, &utils.ConnectionStats{}, false, false,
		func(protocol.PacketNumber) {}, protocol.PerspectiveClient, nil, utils.DefaultLogger)
	if sc.Mode == "uquic" && len(sc.Spec.PNLens) > 0 {
		var lens []PacketNumberLen
		for _, x := range sc.Spec.PNLens {
			lens = append(lens, PacketNumberLen(x))
		}
		if len(lens) == 1 {
			ackhandler.SetInitialPacketNumberLength(l.sph, lens[0])
		} else {
			ackhandler.SetInitialPacketNumberLengths(l.sph, protocol.PacketNumber(sc.InitPN), lens)
		}
	}
	l.rq = newRetransmissionQueue()
	l.acks = &flabAcks{}
	l.fp = wire.NewFrameParser(false, false, false)
	r := NewKRng(KMix(sc.Seed, 77))
	dcid := protocol.ParseConnectionID(r.Bytes(sc.DCID))
	scid := protocol.ParseConnectionID(r.Bytes(sc.SCID))
	base := newPacketPacker(scid, func() protocol.ConnectionID { return dcid }, l.str, newCryptoStream(), l.sph, l.rq,
		flabKeys{}, flabFramer{}, l.acks, nil, protocol.PerspectiveClient)
	if sc.TokenLen > 0 {
		base.SetToken(r.Bytes(sc.TokenLen))
	}
	l.pk = base
	if sc.Mode == "uquic" {
		l.up = newUPacketPacker(base, l.buildSpec())
		l.pk = l.up
	}
	// the TLS stack writes the ClientHello (possibly in several pieces) before anything is packed
	rest := l.ch
	for _, n := range sc.CH.Parts {
		if n >= len(rest) {
			break
		}
		if _, err := l.str.Write(rest[:n]); err != nil {
			l.res.Fail("lab: the crypto stream rejected the model ClientHello", "%v", err)
			return false
		}
		rest = rest[n:]
		l.res.Probe("ch-written-in-parts")
	}
	if len(rest) > 0 {
		if _, err := l.str.Write(rest); err != nil {
			l.res.Fail("lab: the crypto stream rejected the model ClientHello", "%v", err)
			return false
		}
	}
	if sc.Mode == "scramble" && l.L > 0 {
		n := 0
		for _, c := range l.str.cuts {
			if c.start != protocol.InvalidByteCount {
				n++
			}
		}
		l.res.Probe(fmt.Sprintf("scrambler-cuts/%d", n))
	}
	return true
}

// safely runs one call into the packer; a panic there is a violation of its own.
func (l *flabLab) safely(what string, f func() (*coalescedPacket, error)) (pkt *coalescedPacket, err error, ok bool) {
	defer func() {
		if p := recover(); p != nil {
			l.fail("panic while packing an Initial packet ("+l.phase()+"): "+ksanitize(fmt.Sprint(p)), "%s: %v", what, p)
			pkt, err, ok = nil, nil, false
		}
	}()
	l.acks.gave = false
	pkt, err = f()
	return pkt, err, true
}

func (l *flabLab) onPackError(err error, what string) {
	msg := ksanitize(err.Error())
	l.res.Logf("%s: error %v (datagrams so far %d)", what, err, l.nDgrams)
	if strings.Contains(err.Error(), "does not fit the packet buffer") {
		// packet size limits are the business of C10, whenever they strike
		l.res.Probe("packet-larger-than-the-buffer-refused")
		l.ended = true
		return
	}
	if l.nDgrams == 0 {
		// rejected before anything was sent
		if l.sc.Class == "valid" {
			l.fail("in-range configuration rejected with an error: "+msg, "%s: %v", what, err)
			return
		}
		l.res.Probe("rejected-config/" + l.sc.Class)
		l.shape.WriteString("R")
	} else {
		l.fail("error after part of the ClientHello was sent ("+l.phase()+"): "+msg, "%s: %v; %d datagrams were sent, the peer has %d of %d bytes",
			what, err, l.nDgrams, l.nHave, l.L)
		return
	}
	l.ended = true
	// the connection now closes: its CONNECTION_CLOSE must be a well-formed Initial too
	pkt, cerr, ok := l.safely("close", func() (*coalescedPacket, error) {
		return l.pk.PackConnectionClose(&qerr.TransportError{ErrorCode: qerr.InternalError, ErrorMessage: "x"}, protocol.ByteCount(l.sc.MaxSize), protocol.Version1)
	})
	if ok && cerr == nil && pkt != nil {
		data := append([]byte(nil), pkt.buffer.Data...)
		pkt.buffer.Release()
		l.checkDatagram(data, "close")
		l.res.Probe("connection-close-checked")
	}
}

// emit registers a packed datagram with the ack handler, checks it and hands it to the network.
func (l *flabLab) emit(pkt *coalescedPacket, now monotime.Time, what string) {
	data := append([]byte(nil), pkt.buffer.Data...)
	for _, p := range pkt.longHdrPackets {
		largestAcked := protocol.InvalidPacketNumber
		if p.ack != nil {
			largestAcked = p.ack.LargestAcked()
		}
		l.sph.SentPacket(now, p.header.PacketNumber, largestAcked, p.streamFrames, p.frames, p.EncryptionLevel(), protocol.ECNNon, p.length, false, false)
	}
	short := pkt.shortHdrPacket != nil
	n := len(pkt.longHdrPackets)
	pkt.buffer.Release()
	if short || n != 1 {
		l.fail("packer produced something other than one Initial packet", "%s: long=%d short=%v", what, n, short)
		return
	}
	dg := l.checkDatagram(data, what)
	if dg == nil {
		return
	}
	dg.ord = l.nDgrams
	l.nDgrams++
	l.res.Events++
	op := flabOp{K: "ok", A: 10}
	if dg.ord < len(l.sc.Ops) {
		op = l.sc.Ops[dg.ord]
	} else {
		l.cleanSent++
	}
	lat := time.Duration(max(op.A, 1)) * time.Millisecond
	if op.D > 0 {
		l.push(flabEvt{at: time.Now().Add(time.Duration(op.D) * time.Millisecond), isAck: true, ping: true})
	}
	ev := flabEvt{at: time.Now().Add(lat), dg: dg, noAck: op.C == 1, ackDly: time.Duration(op.B) * time.Millisecond}
	switch op.K {
	case "drop":
		l.res.Fault("datagram-dropped")
		l.shape.WriteString("x")
		l.sawLoss = true
		return
	case "dup":
		l.res.Fault("datagram-duplicated")
		l.push(ev)
		ev.at = ev.at.Add(7 * time.Millisecond)
	}
	if op.C == 1 {
		l.res.Fault("ack-lost")
	}
	l.shape.WriteString("s")
	l.push(ev)
}

func (l *flabLab) push(ev flabEvt) {
	ev.seq = l.seq
	l.seq++
	l.events = append(l.events, ev)
}

// checkDatagram is the per-packet oracle.
func (l *flabLab) checkDatagram(data []byte, what string) *flabDgram {
	res := l.res
	pn, payload, pktLen, bad := flabParseInitial(data)
	if bad != "" {
		l.fail("datagram does not start with a well-formed Initial packet: "+bad, "%s: %d bytes", what, len(data))
		return nil
	}
	for i := pktLen - 16; i < pktLen; i++ {
		if data[i] != 0xA5 {
			l.fail("Initial header Length field does not match the sealed packet", "%s: tag not found at %d..%d", what, pktLen-16, pktLen)
			return nil
		}
	}
	for _, b := range data[pktLen:] {
		if b != 0 {
			res.Probe("bytes-after-the-initial-packet")
			break
		}
	}
	if len(data) > l.sc.MaxSize {
		res.Probe("datagram-larger-than-max-size") // C10's business
	}
	if len(payload) == 0 {
		l.fail("Initial packet without any frame", "%s: pn %d", what, pn)
		return nil
	}
	// 1. the real wire parser
	var real []flabFr
	var realData [][]byte
	b := payload
	for len(b) > 0 {
		ft, n, err := l.fp.ParseType(b, protocol.EncryptionInitial)
		if err == io.EOF {
			break
		}
		if err != nil {
			l.fail("Initial payload rejected by the wire frame parser", "%s: pn %d at %d/%d: %v", what, pn, len(payload)-len(b)+n, len(payload), err)
			return nil
		}
		b = b[n:]
		switch {
		case ft.IsAckFrameType():
			f, n, err := l.fp.ParseAckFrame(ft, b, protocol.EncryptionInitial, protocol.Version1)
			if err != nil {
				l.fail("Initial payload rejected by the wire frame parser", "%s: pn %d ACK: %v", what, pn, err)
				return nil
			}
			b = b[n:]
			real = append(real, flabFr{typ: 2, off: uint64(f.LargestAcked()), ln: uint64(f.AckRanges[0].Len() - 1)})
			realData = append(realData, nil)
		default:
			f, n, err := l.fp.ParseLessCommonFrame(ft, b, protocol.Version1)
			if err != nil {
				l.fail("Initial payload rejected by the wire frame parser", "%s: pn %d frame 0x%x: %v", what, pn, uint64(ft), err)
				return nil
			}
			b = b[n:]
			switch x := f.(type) {
			case *wire.PingFrame:
				real = append(real, flabFr{typ: 1})
				realData = append(realData, nil)
			case *wire.CryptoFrame:
				real = append(real, flabFr{typ: 6, off: uint64(x.Offset), ln: uint64(len(x.Data))})
				realData = append(realData, x.Data)
			case *wire.ConnectionCloseFrame:
				real = append(real, flabFr{typ: 0x1c, off: x.ErrorCode, ln: uint64(len(x.ReasonPhrase))})
				realData = append(realData, nil)
			default:
				l.fail(fmt.Sprintf("frame type 0x%02x in an Initial packet", uint64(ft)), "%s: pn %d", what, pn)
				return nil
			}
		}
	}
	// 2. the independent reader
	own, bad := flabReadFrames(payload)
	if bad != "" {
		if strings.HasPrefix(bad, "frame type") {
			l.fail(bad+" in an Initial packet", "%s: pn %d", what, pn)
		} else {
			l.fail("independent frame reader: "+bad, "%s: pn %d", what, pn)
		}
		return nil
	}
	dg := &flabDgram{pn: int64(pn)}
	k := 0
	var nCrypto, nPing, nPad int
	for _, f := range own {
		if f.typ == 0 {
			nPad++
			continue
		}
		if k >= len(real) || real[k].typ != f.typ || real[k].off != f.off || real[k].ln != f.ln ||
			(f.typ == 6 && !bytes.Equal(realData[k], payload[f.pos:f.pos+int(f.ln)])) {
			l.fail("independent frame reader and wire frame parser disagree", "%s: pn %d frame %d: own %+v real %+v", what, pn, k, f, real)
			return nil
		}
		k++
		switch f.typ {
		case 1:
			nPing++
		case 2:
			if !l.acks.gave {
				l.fail("ACK frame in an Initial packet although the peer sent nothing to acknowledge", "%s: pn %d", what, pn)
				return nil
			}
			res.Probe("ack-frame-sent")
		case 0x1c:
			if what != "close" {
				l.fail("CONNECTION_CLOSE frame in an Initial packet although the connection is not closing", "%s: pn %d", what, pn)
				return nil
			}
		case 6:
			nCrypto++
			if f.off+f.ln > uint64(l.L) {
				l.fail("CRYPTO frame reaches beyond the end of the ClientHello", "%s: pn %d: [%d,%d) of %d bytes", what, pn, f.off, f.off+f.ln, l.L)
				return nil
			}
			got := payload[f.pos : f.pos+int(f.ln)]
			want := l.ch[f.off : f.off+f.ln]
			if !bytes.Equal(got, want) {
				at := 0
				for at < len(got) && got[at] == want[at] {
					at++
				}
				diag := "other bytes"
				if idx := bytes.Index(l.ch, got); idx >= 0 {
					diag = fmt.Sprintf("these are the ClientHello bytes at offset %d (shifted)", idx)
				} else {
					zero := true
					for _, c := range got[at:] {
						zero = zero && c == 0
					}
					if zero {
						diag = "zeros from there on (zero-extended)"
					}
				}
				l.fail("CRYPTO frame bytes differ from the ClientHello at the frame's offset", "%s: pn %d: frame [%d,%d) first difference at stream offset %d: %s",
					what, pn, f.off, f.off+f.ln, int(f.off)+at, diag)
				return nil
			}
			if f.ln == 0 {
				res.Probe("empty-crypto-frame")
			}
			dg.ranges = append(dg.ranges, [2]int{int(f.off), int(f.off + f.ln)})
			for i := int(f.off); i < int(f.off+f.ln); i++ {
				if !l.emitted[i] {
					l.emitted[i] = true
					l.nEmitted++
				}
			}
		}
	}
	if k != len(real) {
		l.fail("independent frame reader and wire frame parser disagree", "%s: pn %d: own found %d frames, real %d", what, pn, k, len(real))
		return nil
	}
	dg.eliciting = nCrypto+nPing > 0
	if nPing > 0 {
		res.Probe("ping-frame-sent")
	}
	if nPad > 0 {
		res.Probe("padding-sent")
	}
	if nCrypto > 1 {
		res.Probe("several-crypto-frames-in-one-packet")
	}
	res.TraceU(pn, uint64(len(payload)), uint64(nCrypto), uint64(nPing), KHashS(string(payload)))
	res.Logf("%s: pn %d payload %d bytes, crypto %v ping %d padding runs %d", what, pn, len(payload), dg.ranges, nPing, nPad)
	return dg
}

// clientStep is the send half of the connection's run loop.
func (l *flabLab) clientStep() {
	now := monotime.Now()
	v := protocol.Version1
	maxSize := protocol.ByteCount(l.sc.MaxSize)
	if to := l.sph.GetLossDetectionTimeout(); !to.IsZero() && !to.After(now) {
		if err := l.sph.OnLossDetectionTimeout(now); err != nil {
			l.fail("lab: OnLossDetectionTimeout failed", "%v", err)
			return
		}
		l.progressed = true
		l.res.Probe("loss-timer-fired")
		l.shape.WriteString("T")
	}
	l.pacingAt = 0
	for iter := 0; iter < 200 && !l.ended; iter++ {
		mode := l.sph.SendMode(now)
		l.res.Logf("  client step at %v: send mode %v", time.Duration(now), mode)
		switch mode {
		case ackhandler.SendAny:
			retr := l.rq.HasData(protocol.EncryptionInitial)
			pkt, err, ok := l.safely("pack", func() (*coalescedPacket, error) { return l.pk.PackCoalescedPacket(false, maxSize, now, v) })
			if !ok {
				return
			}
			if err != nil {
				l.onPackError(err, "PackCoalescedPacket")
				return
			}
			if pkt == nil {
				l.nothingToSend()
				return
			}
			if retr {
				l.res.Probe("retransmission-packed")
				if l.up != nil && !l.up.flightPlanned {
					l.res.Probe("retransmission-reframed-by-builder")
				}
			}
			l.emit(pkt, now, "pack")
		case ackhandler.SendNone:
			return
		case ackhandler.SendPacingLimited, ackhandler.SendAck:
			if mode == ackhandler.SendPacingLimited {
				l.pacingAt = l.sph.TimeUntilSend()
				l.res.Probe("pacing-limited")
			} else {
				l.res.Probe("cwnd-limited")
			}
			pkt, err, ok := l.safely("pack-ack", func() (*coalescedPacket, error) { return l.pk.PackCoalescedPacket(true, maxSize, now, v) })
			if !ok {
				return
			}
			if err != nil {
				l.onPackError(err, "PackCoalescedPacket(onlyAck)")
				return
			}
			if pkt != nil {
				l.emit(pkt, now, "pack-ack")
			}
			return
		case ackhandler.SendPTOInitial:
			l.res.Probe("pto-initial")
			l.shape.WriteString("P")
			var pkt *coalescedPacket
			for pkt == nil {
				if !l.sph.QueueProbePacket(protocol.EncryptionInitial) {
					break
				}
				var err error
				var ok bool
				pkt, err, ok = l.safely("pto", func() (*coalescedPacket, error) {
					return l.pk.PackPTOProbePacket(protocol.EncryptionInitial, maxSize, false, now, v)
				})
				if !ok {
					return
				}
				if err != nil {
					l.onPackError(err, "PackPTOProbePacket")
					return
				}
			}
			if pkt != nil && l.up != nil {
				if l.up.flightPlanned {
					l.res.Probe("pto-after-planned-flight")
				} else {
					l.res.Probe("pto-reframed-by-builder")
				}
			}
			if pkt == nil {
				var err error
				var ok bool
				pkt, err, ok = l.safely("pto-ping", func() (*coalescedPacket, error) {
					return l.pk.PackPTOProbePacket(protocol.EncryptionInitial, maxSize, true, now, v)
				})
				if !ok {
					return
				}
				if err != nil {
					l.onPackError(err, "PackPTOProbePacket(ping)")
					return
				}
				l.res.Probe("pto-ping-only")
			}
			if pkt == nil {
				l.fail("lab: no PTO probe packet", "mode %v", mode)
				return
			}
			l.emit(pkt, now, "pto")
		default:
			l.fail("lab: unexpected send mode", "%v", mode)
			return
		}
	}
}

// nothingToSend is called when the packer returns no packet although the ack handler allows sending.
func (l *flabLab) nothingToSend() {
	planned := l.up != nil && len(l.up.flightPayloads) > 0
	if l.str.HasData() || planned {
		// nothing will ever change that: no ACK and no timer makes the stream poppable
		l.fail("packer produces no packet although ClientHello bytes are still queued, and reports no error",
			"%d of %d bytes emitted in %d datagrams, stream write offset %d", l.nEmitted, l.L, l.nDgrams, l.str.writeOffset)
		return
	}
	if l.rq.HasData(protocol.EncryptionInitial) {
		l.fail("packer produces no packet although retransmissions are queued, and reports no error", "%d datagrams so far", l.nDgrams)
		return
	}
	if !l.drainedChk {
		l.drainedChk = true
		if l.nDgrams == 0 && l.L > 0 {
			l.fail("nothing is ever sent although the TLS stack wrote a complete ClientHello, and no error is reported",
				"%d bytes written, HasData()=%v, stream write offset %d", l.L, l.str.HasData(), l.str.writeOffset)
			return
		}
		if l.nEmitted != l.L {
			first := 0
			for first < l.L && l.emitted[first] {
				first++
			}
			l.fail("the CRYPTO ranges sent do not cover the ClientHello although the packer has nothing left to send",
				"%d of %d bytes emitted in %d datagrams; first missing offset %d", l.nEmitted, l.L, l.nDgrams, first)
			return
		}
		if l.L > 0 && !l.hrrSent {
			l.res.Probe(fmt.Sprintf("first-flight-datagrams/%d", min(l.nDgrams, 6)))
			if l.usedNeg {
				l.res.Probe("negative-range-laid-out")
			}
		}
	}
}

func (l *flabLab) peerReceive(ev flabEvt) {
	dg := ev.dg
	dup := l.peerPNs[dg.pn]
	l.peerPNs[dg.pn] = true
	if !dup {
		for _, rg := range dg.ranges {
			for i := rg[0]; i < rg[1]; i++ {
				if !l.have[i] {
					l.have[i] = true
					l.nHave++
				}
			}
		}
	}
	hrr := false
	if l.nHave == l.L {
		if l.ch2 != nil {
			if !l.hrrSent {
				// the peer has the whole first ClientHello: it answers with a HelloRetryRequest
				// (that answer is never lost here, it only takes its time)
				l.hrrSent, hrr = true, true
			}
		} else {
			l.done = true
		}
	}
	if (ev.noAck || !dg.eliciting) && !hrr {
		return // a lost ACK; or a packet that does not elicit one
	}
	pns := make([]int64, 0, len(l.peerPNs))
	for pn := range l.peerPNs {
		pns = append(pns, pn)
	}
	sort.Slice(pns, func(a, b int) bool { return pns[a] > pns[b] })
	var ranges []wire.AckRange
	for _, pn := range pns {
		p := protocol.PacketNumber(pn)
		if n := len(ranges); n > 0 && ranges[n-1].Smallest == p+1 {
			ranges[n-1].Smallest = p
		} else {
			ranges = append(ranges, wire.AckRange{Smallest: p, Largest: p})
		}
	}
	dly := ev.ackDly
	if hrr {
		dly += time.Duration(l.sc.CH.HRRDly) * time.Millisecond
	}
	l.push(flabEvt{at: time.Now().Add(dly + 10*time.Millisecond), isAck: true, hrr: hrr, ranges: ranges, delay: ev.ackDly})
}

func (l *flabLab) clientReceiveAck(ev flabEvt) {
	now := monotime.Now()
	l.progressed = true
	l.sph.ReceivedPacket(protocol.EncryptionInitial, now)
	if ev.ping {
		l.res.Fault("peer-ping-packet")
		l.acks.pending = true
		l.acks.largest = protocol.PacketNumber(l.peerPkts)
		l.peerPkts++
		l.shape.WriteString("p")
		return
	}
	ack := &wire.AckFrame{AckRanges: ev.ranges, DelayTime: ev.delay}
	if _, err := l.sph.ReceivedAck(ack, protocol.EncryptionInitial, now); err != nil {
		l.fail("lab: honest ACK rejected by the ack handler", "%v: %v", ev.ranges, err)
		return
	}
	l.shape.WriteString("a")
	l.res.Logf("  client received ACK %v", ev.ranges)
	if l.sc.PeerPing || ev.hrr {
		l.acks.pending = true
		l.acks.largest = protocol.PacketNumber(l.peerPkts)
	}
	l.peerPkts++
	if ev.hrr {
		// the TLS stack answers the HelloRetryRequest with a second ClientHello on the same stream
		if _, err := l.str.Write(l.ch2); err != nil {
			l.fail("lab: the crypto stream rejected the second ClientHello", "%v", err)
			return
		}
		l.ch = append(l.ch, l.ch2...)
		l.L = len(l.ch)
		l.emitted = append(l.emitted, make([]bool, len(l.ch2))...)
		l.have = append(l.have, make([]bool, len(l.ch2))...)
		l.ch2 = nil
		l.drainedChk = false
		l.res.Probe("second-clienthello-after-hrr")
		l.shape.WriteString("H")
	}
}

func (l *flabLab) run() {
	for _, in := range l.sc.Inject {
		l.push(flabEvt{at: time.Now().Add(time.Duration(max(in.At, 1)) * time.Millisecond), isAck: true, ping: true})
	}
	l.clientStep()
	if l.ended {
		return
	}
	if l.L == 0 {
		if l.nDgrams != 0 {
			l.fail("datagrams sent although the TLS stack wrote nothing", "%d", l.nDgrams)
		}
		l.res.Probe("empty-clienthello")
		return
	}
	if l.nDgrams == 0 {
		l.fail("lab: nothing sent and nothing reported", "L=%d", l.L)
		return
	}
	// liveness bound: datagrams sent after the last network fault. Small CryptoLength plans and
	// small QUICRandomFrames.Length values legitimately need many datagrams.
	minSlice := l.sc.MaxSize - l.sc.flabHdrMax() - 16
	for _, p := range l.sc.Spec.Plans {
		if p.CL > 0 && p.CL < minSlice {
			minSlice = p.CL
		}
	}
	if l.sc.Spec.Kind == "rf" && l.sc.Spec.RF.Length > 40 && int(l.sc.Spec.RF.Length)-30 < minSlice {
		minSlice = int(l.sc.Spec.RF.Length) - 30
	}
	cleanBound := 60 + 3*((l.L+len(l.ch2))/max(minSlice, 1)+1)
	lastDgrams, lastEvents := -1, -1
	for iter := 0; iter < 4000 && !l.ended && !l.done; iter++ {
		// earliest thing to wait for
		var next time.Time
		consider := func(t time.Time) {
			if next.IsZero() || t.Before(next) {
				next = t
			}
		}
		for _, ev := range l.events {
			consider(ev.at)
		}
		nowM := monotime.Now()
		nowT := time.Now()
		if to := l.sph.GetLossDetectionTimeout(); !to.IsZero() {
			consider(nowT.Add(to.Sub(nowM)))
		}
		if !l.pacingAt.IsZero() {
			consider(nowT.Add(l.pacingAt.Sub(nowM)))
		}
		if next.IsZero() {
			l.fail("client went idle while the peer still misses ClientHello bytes",
				"peer has %d of %d bytes after %d datagrams; nothing outstanding, no timer", l.nHave, l.L, l.nDgrams)
			return
		}
		if d := next.Sub(nowT); d > 0 {
			time.Sleep(d)
		} else if l.nDgrams == lastDgrams && len(l.events) == lastEvents {
			// a deadline that is due but changes nothing (the pacer's budget is a rounding
			// error short at its own deadline): real time would move on
			time.Sleep(time.Millisecond)
		}
		lastDgrams, lastEvents = l.nDgrams, len(l.events)
		if l.sc.LagMs > 0 && int(KMix(l.sc.Seed, 99, uint64(iter))%100) < l.sc.LagPct {
			time.Sleep(time.Duration(l.sc.LagMs) * time.Millisecond)
			l.res.Fault("client-event-loop-late")
		}
		nowT = time.Now()
		// deliver what is due, in order
		for {
			best := -1
			for i, ev := range l.events {
				if ev.at.After(nowT) {
					continue
				}
				if best < 0 || ev.at.Before(l.events[best].at) || (ev.at.Equal(l.events[best].at) && ev.seq < l.events[best].seq) {
					best = i
				}
			}
			if best < 0 {
				break
			}
			ev := l.events[best]
			l.events = append(l.events[:best], l.events[best+1:]...)
			l.res.Events++
			if ev.isAck {
				l.clientReceiveAck(ev)
			} else {
				l.peerReceive(ev)
			}
			if l.ended || l.done {
				break
			}
		}
		if l.ended || l.done {
			break
		}
		l.clientStep()
		if l.cleanSent > cleanBound && l.sc.Class != "rf-small-length" {
			l.fail("peer never gets the whole ClientHello although loss stopped",
				"peer has %d of %d bytes; %d datagrams sent, %d of them after the last network fault", l.nHave, l.L, l.nDgrams, l.cleanSent)
			return
		}
	}
	if l.ended {
		return
	}
	if !l.done {
		l.res.Probe("iteration-bound-hit")
		return
	}
	l.res.Probe("peer-complete")
	if l.sawLoss {
		l.res.Probe("peer-complete-after-loss")
	}
	// the peer's reassembly: every byte it holds came from a checked frame; completeness is the bitmap
	for i := 0; i < l.L; i++ {
		if !l.have[i] {
			l.fail("lab: peer marked complete with a hole", "offset %d", i)
			return
		}
	}
}
