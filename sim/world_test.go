package verifsim

// World simulation: real client and server endpoints of /repo inside one
// synctest bubble, joined by a discrete-event network that the simulator owns.

import (
	"bytes"
	"container/heap"
	"context"
	"crypto/ecdsa"
	"crypto/elliptic"
	"crypto/rand"
	"crypto/sha256"
	"crypto/x509"
	"crypto/x509/pkix"
	"encoding/binary"
	"errors"
	"fmt"
	"github.com/refraction-networking/uquic/internal/protocol"
	"math/big"
	"net"
	"runtime"
	"sort"
	"strings"
	"sync"
	"syscall"
	"testing"
	"testing/synctest"
	"time"

	quic "github.com/refraction-networking/uquic"
	"github.com/refraction-networking/uquic/internal/monotime"
	"github.com/refraction-networking/uquic/qlogwriter"
	"github.com/refraction-networking/uquic/testutils/simnet"
	tls "github.com/refraction-networking/utls"
)

// ---------------------------------------------------------------- scenario

type WFault struct {
	Dir  int    `json:"d"`
	Ord  int    `json:"n"`
	Kind string `json:"k"` // drop | dup | delay | corrupt | trunc
	A    int64  `json:"a,omitempty"`
	B    int64  `json:"b,omitempty"`
}

type WOutage struct {
	Dir    int   `json:"d"` // 0 c->s, 1 s->c, 2 both
	FromMS int64 `json:"from"`
	ToMS   int64 `json:"to"`
	// the outage also wipes the client's NAT binding: what the server sends afterwards is dropped until the client has
	// sent a datagram of its own again (a sender that waits to be woken up by its peer waits for ever)
	NAT bool `json:"nat,omitempty"`
}

type WInject struct {
	AtMS int64  `json:"at"`   // simulated time of delivery
	To   int    `json:"to"`   // 0 = to the server, 1 = to the client
	Kind string `json:"kind"` // see inject_test.go
	A    int64  `json:"a,omitempty"`
	B    int64  `json:"b,omitempty"`
}

type WNet struct {
	LatencyUS int64 `json:"latency_us"`
	JitterUS  int64 `json:"jitter_us"`
	// lazy per-datagram fault rates used while searching; replay files carry Explicit=true and the list
	Drop         float64   `json:"drop,omitempty"`
	Dup          float64   `json:"dup,omitempty"`
	Delay        float64   `json:"delay,omitempty"`
	Corrupt      float64   `json:"corrupt,omitempty"`
	Trunc        float64   `json:"trunc,omitempty"`
	FaultUntilMS int64     `json:"fault_until_ms,omitempty"` // lazy faults only before this time (0 = always)
	Explicit     bool      `json:"explicit"`
	MTU          [2]int    `json:"mtu,omitempty"`     // datagrams larger than this vanish (0 = none)
	AltMTU       int       `json:"alt_mtu,omitempty"` // the same on the client's other paths only: from and to its second interface, and towards its address after a NAT rebinding
	Outages      []WOutage `json:"outages,omitempty"`
	RebindAtOrd  int       `json:"rebind_at,omitempty"` // from this client datagram on, the client's source address changes
	Burst        int       `json:"burst,omitempty"`     // deliver up to n due events before waiting for quiescence
	// lazy, packet-type targeted loss (search only; replay files carry the resulting drops explicitly): from AfterMS on, the
	// first N client datagrams that contain an Initial packet vanish
	DropInitials        int   `json:"drop_initials,omitempty"`
	DropInitialsAfterMS int64 `json:"drop_initials_after_ms,omitempty"`
	// the same for client datagrams that contain a Handshake packet (the client's address stays unvalidated for longer)
	DropHandshakes        int   `json:"drop_handshakes,omitempty"`
	DropHandshakesAfterMS int64 `json:"drop_handshakes_after_ms,omitempty"`
}

type WConfig struct {
	Client       string   `json:"client"` // plain | unil | chrome115 | chrome115v6 | chrome146 | firefox116 | firefox116b | firefox116c
	Derive       *WDerive `json:"derive,omitempty"`
	Version      int      `json:"version"` // 1 or 2 (plain clients); server offers both
	ServerCIDLen int      `json:"server_cid_len"`
	ClientCIDLen int      `json:"client_cid_len"`
	Retry        bool     `json:"retry,omitempty"`
	ChainLen     int      `json:"chain_len,omitempty"`
	// windows (0 = library default)
	Win            [4]uint64 `json:"win,omitempty"` // client stream, client conn, server stream, server conn initial windows
	MaxWin         [4]uint64 `json:"max_win,omitempty"`
	IdleMS         [2]int64  `json:"idle_ms,omitempty"` // client, server MaxIdleTimeout
	KeepAliveMS    [2]int64  `json:"keepalive_ms,omitempty"`
	HSIdleMS       [2]int64  `json:"hs_idle_ms,omitempty"`
	MaxStreams     [2]int64  `json:"max_streams,omitempty"` // incoming bidi limit client, server
	MaxUniStreams  [2]int64  `json:"max_uni_streams,omitempty"`
	NoPMTUD        [2]bool   `json:"no_pmtud,omitempty"`
	InitialPktSize [2]int    `json:"initial_pkt_size,omitempty"`
	Datagrams      [2]bool   `json:"datagrams,omitempty"`
	KeyUpdate      int       `json:"key_update,omitempty"` // packets per key generation (0 = default)
	ResetPartial   [2]bool   `json:"reset_partial,omitempty"`
	Allow0RTT      bool      `json:"allow_0rtt,omitempty"`
	V6             bool      `json:"v6,omitempty"`        // the endpoints have native IPv6 addresses
	SchedNum       uint32    `json:"sched_num,omitempty"` // run-next perturbation (n/256)
}

// WDerive describes modifications applied to a built-in spec (C02/C09/C10/C11 families); see specs_test.go.
type WDerive struct {
	tokBacking    []byte // (not serialised) buffer whose head is the spec's ClientTokenPrefix
	tokPrefixLen  int
	Builder       string   `json:"builder,omitempty"`
	P             []int64  `json:"p,omitempty"`
	InitPN        int64    `json:"init_pn,omitempty"`
	PNLens        []int    `json:"pn_lens,omitempty"`
	Token         string   `json:"token,omitempty"`
	SrcCIDLen     int      `json:"src_cid_len,omitempty"`
	DstCIDLen     int      `json:"dst_cid_len,omitempty"`
	UDPMin        int      `json:"udp_min,omitempty"`
	Suppress      []uint64 `json:"suppress,omitempty"`
	Shuffle       int      `json:"shuffle,omitempty"` // 0 keep, 1 on, 2 off
	PadCH         int      `json:"pad_ch,omitempty"`
	TPs           string   `json:"tps,omitempty"`
	Plans         []int    `json:"plans,omitempty"`          // InitialPackets: pairs (CryptoLength, PacketSize) per datagram
	GreaseExact   bool     `json:"grease_exact,omitempty"`   // two private parameters with GREASE-shaped IDs (31*N+27) in the list, one of them suppressed by its exact ID
	DupSuppressed uint64   `json:"dup_suppressed,omitempty"` // a private-use parameter listed several times in the spec and suppressed
	ISCID         string   `json:"iscid,omitempty"`          // explicit initial_source_connection_id value (hex): goes out as written; the server will reject the connection when it differs from the header's source ID
	CIDLimit      int      `json:"cid_limit,omitempty"`      // active_connection_id_limit advertised by the spec (2..8; replaces or adds the parameter)
}

// ---------------------------------------------------------------- router

type DgramRec struct {
	Faults    []WFault // the faults applied to this datagram
	Dir       int
	Ord       int
	SentNS    int64
	Size      int
	Fate      string // "", drop, dup, delay, corrupt, trunc, outage, mtu
	Delivered []int64
	Damaged   bool
	PktState  []int8 // per packet of the datagram: 0 delivered intact, 1 possibly lost (framing of an earlier packet damaged), 2 damaged
	Pkts      []*TapPacket
	Hash      uint64
	Client    string // the client-side address of the datagram (source for dir 0, destination for dir 1)
}

type wEvent struct {
	at  time.Time
	seq uint64
	fn  func()
}
type wHeap []wEvent

func (h wHeap) Len() int { return len(h) }
func (h wHeap) Less(i, j int) bool {
	if h[i].at.Equal(h[j].at) {
		return h[i].seq < h[j].seq
	}
	return h[i].at.Before(h[j].at)
}
func (h wHeap) Swap(i, j int) { h[i], h[j] = h[j], h[i] }
func (h *wHeap) Push(x any)   { *h = append(*h, x.(wEvent)) }
func (h *wHeap) Pop() any     { o := *h; n := len(o); x := o[n-1]; *h = o[:n-1]; return x }

var (
	wClientAddr  = &net.UDPAddr{IP: net.IPv4(10, 0, 0, 1).To4(), Port: 9001}
	wClientAddr2 = &net.UDPAddr{IP: net.IPv4(10, 0, 0, 77).To4(), Port: 7707} // after NAT rebinding
	wClientAddr3 = &net.UDPAddr{IP: net.IPv4(10, 0, 9, 1).To4(), Port: 9301}  // the client's second interface (client-initiated migration)
	wServerAddr  = &net.UDPAddr{IP: net.IPv4(10, 0, 0, 2).To4(), Port: 443}
)

type World struct {
	initialsDropped   int
	handshakesDropped int
	T                 *testing.T
	Seed              uint64
	Net               *WNet
	Res               *KResult
	Start             time.Time

	mu        sync.Mutex
	q         wHeap
	seq       uint64
	wake      chan struct{}
	done      chan struct{}
	drvDone   chan struct{}
	nodes     map[string]simnet.PacketReceiver
	Tap       *Wiretap
	Log       [2][]*DgramRec
	explicit  map[[2]int][]WFault
	Fired     []WFault // non-default decisions taken (becomes the explicit list of the replay file)
	rebound   bool
	OnSend    func(rec *DgramRec, data []byte) // oracle hook, called at send time (after tap decode)
	OnDeliver func(rec *DgramRec, data []byte, damaged bool)
	OnInject  func(to int, data []byte)
	bytes     [2]int64 // bytes put on the wire per direction
	trace     uint64
	raw       [2][][]byte // the first datagrams of each direction, as put on the wire
}

func NewWorld(t *testing.T, seed uint64, n *WNet, res *KResult) *World {
	w := &World{T: t, Seed: seed, Net: n, Res: res, Start: time.Now(), wake: make(chan struct{}, 1), done: make(chan struct{}),
		drvDone: make(chan struct{}), nodes: map[string]simnet.PacketReceiver{}, explicit: map[[2]int][]WFault{}}
	w.Tap = NewWiretap(func() int64 { return int64(time.Since(w.Start)) })
	return w
}

func wHasInitial(rec *DgramRec) bool {
	for _, p := range rec.Pkts {
		if p.Type == TapInitial {
			return true
		}
	}
	return false
}

func wHasType(rec *DgramRec, t int) bool {
	for _, p := range rec.Pkts {
		if p.Type == t {
			return true
		}
	}
	return false
}

func (w *World) SetFaults(fs []WFault) {
	for _, f := range fs {
		k := [2]int{f.Dir, f.Ord}
		w.explicit[k] = append(w.explicit[k], f)
	}
}

func (w *World) rawDatagram(dir, ord int) []byte {
	if ord < len(w.raw[dir]) {
		return w.raw[dir][ord]
	}
	return nil
}

func (w *World) NowNS() int64 { return int64(time.Since(w.Start)) }

func (w *World) AddNode(addr net.Addr, r simnet.PacketReceiver) { w.nodes[addr.String()] = r }

func (w *World) push(at time.Time, fn func()) {
	w.seq++
	heap.Push(&w.q, wEvent{at, w.seq, fn})
	select {
	case w.wake <- struct{}{}:
	default:
	}
}

// At schedules a simulator event at an absolute simulated offset.
func (w *World) At(off time.Duration, fn func()) {
	w.mu.Lock()
	defer w.mu.Unlock()
	w.push(w.Start.Add(off), fn)
}

func (w *World) draw(purpose uint64, dir, ord int) *KRng {
	return NewKRng(KMix(w.Seed, purpose, uint64(dir), uint64(ord)))
}

func (w *World) inOutage(dir int, ns int64) bool {
	ms := ns / 1e6
	for _, o := range w.Net.Outages {
		if (o.Dir == dir || o.Dir == 2) && ms >= o.FromMS && ms < o.ToMS {
			return true
		}
	}
	return false
}

// SendPacket implements simnet.Router: every datagram of every endpoint passes here.
func (w *World) SendPacket(p simnet.Packet) error {
	w.mu.Lock()
	defer w.mu.Unlock()
	dir := 0
	if p.From.String() == wServerAddr.String() {
		dir = 1
	}
	ord := len(w.Log[dir])
	now := w.NowNS()
	from, to := p.From, p.To
	if dir == 0 && w.Net.RebindAtOrd > 0 && ord >= w.Net.RebindAtOrd && p.From.String() == wClientAddr.String() {
		from = wClientAddr2
		w.rebound = true
	}
	caddr := from.String()
	if dir == 1 {
		caddr = to.String()
	}
	rec := &DgramRec{Dir: dir, Ord: ord, SentNS: now, Size: len(p.Data), Hash: KHashS(string(p.Data)), Client: caddr}
	// (the wiretap sits on the client's side of the NAT: it knows one client under its private address)
	tapAddr := caddr
	if tapAddr == wClientAddr2.String() || tapAddr == wClientAddr3.String() {
		tapAddr = wClientAddr.String() // (and one client behind its two interfaces)
	}
	rec.Pkts = w.Tap.Datagram(dir, ord, tapAddr, p.Data)
	w.Log[dir] = append(w.Log[dir], rec)
	if len(w.raw[dir]) < 256 {
		w.raw[dir] = append(w.raw[dir], p.Data)
	}
	w.bytes[dir] += int64(len(p.Data))
	if len(p.Data) > 1300 && len(rec.Pkts) > 0 && rec.Pkts[0].Type == Tap1RTT {
		w.Res.Probe("pmtud:1rtt-datagram-above-1300-bytes")
	}
	w.trace = KMix(w.trace, uint64(now), uint64(dir), uint64(len(p.Data)), rec.Hash)
	if w.OnSend != nil {
		w.OnSend(rec, p.Data)
	}
	// fate
	var faults []WFault
	if w.Net.Explicit {
		faults = w.explicit[[2]int{dir, ord}]
	} else if w.Net.DropInitials > w.initialsDropped && dir == 0 && now/1e6 >= w.Net.DropInitialsAfterMS && wHasInitial(rec) {
		w.initialsDropped++
		faults = []WFault{{Dir: dir, Ord: ord, Kind: "drop"}}
		w.Fired = append(w.Fired, faults...)
	} else if w.Net.DropHandshakes > w.handshakesDropped && dir == 0 && now/1e6 >= w.Net.DropHandshakesAfterMS && wHasType(rec, TapHandshake) {
		w.handshakesDropped++
		faults = []WFault{{Dir: dir, Ord: ord, Kind: "drop"}}
		w.Fired = append(w.Fired, faults...)
	} else if pinned := w.explicit[[2]int{dir, ord}]; len(pinned) > 0 {
		// faults a generator pinned to a datagram on top of the random rates
		faults = pinned
		w.Fired = append(w.Fired, faults...)
	} else if w.Net.FaultUntilMS == 0 || now/1e6 < w.Net.FaultUntilMS {
		r := w.draw(1, dir, ord)
		switch x := r.F(); {
		case x < w.Net.Drop:
			faults = []WFault{{Dir: dir, Ord: ord, Kind: "drop"}}
		case x < w.Net.Drop+w.Net.Dup:
			faults = []WFault{{Dir: dir, Ord: ord, Kind: "dup", A: int64(r.Pick(0, 50, 3000, 40000, 300000))}}
		case x < w.Net.Drop+w.Net.Dup+w.Net.Delay:
			faults = []WFault{{Dir: dir, Ord: ord, Kind: "delay", A: int64(r.Pick(500, 5000, 30000, 150000, 1200000))}}
		case x < w.Net.Drop+w.Net.Dup+w.Net.Delay+w.Net.Corrupt:
			off := int64(r.N(len(p.Data)))
			if r.P(0.3) {
				off = int64(r.N(min(len(p.Data), 30)))
			}
			faults = []WFault{{Dir: dir, Ord: ord, Kind: "corrupt", A: off, B: int64(1 << r.N(8))}}
		case x < w.Net.Drop+w.Net.Dup+w.Net.Delay+w.Net.Corrupt+w.Net.Trunc:
			faults = []WFault{{Dir: dir, Ord: ord, Kind: "trunc", A: int64(r.N(len(p.Data)))}}
		}
		w.Fired = append(w.Fired, faults...)
	}
	lr := w.draw(2, dir, ord)
	lat := time.Duration(w.Net.LatencyUS+lr.N64(w.Net.JitterUS+1)) * time.Microsecond
	data := p.Data
	copies := 1
	var dupDelay time.Duration
	damaged := false
	rec.Faults = faults
	for _, f := range faults {
		w.Res.Fault(f.Kind)
		rec.Fate += f.Kind + " "
		switch f.Kind {
		case "drop":
			copies = 0
		case "dup":
			copies = 2
			dupDelay = time.Duration(f.A) * time.Microsecond
		case "delay":
			lat += time.Duration(f.A) * time.Microsecond
		case "corrupt":
			if int(f.A) < len(data) && f.B&0xff != 0 {
				data = append([]byte{}, data...)
				data[f.A] ^= byte(f.B)
				damaged = true
			}
		case "trunc":
			if int(f.A) < len(data) {
				data = append([]byte{}, data[:f.A]...)
				damaged = true
			}
		}
	}
	if w.inOutage(dir, now) {
		copies = 0
		rec.Fate += "outage "
		w.Res.Fault("outage")
	}
	if dir == 1 && copies > 0 {
		for _, o := range w.Net.Outages {
			if !o.NAT || now/1e6 < o.ToMS {
				continue
			}
			reopened := false
			for i := len(w.Log[0]) - 1; i >= 0 && !reopened; i-- {
				if w.Log[0][i].SentNS/1e6 < o.ToMS {
					break
				}
				reopened = true
			}
			if !reopened {
				copies = 0
				rec.Fate += "nat "
				w.Res.Fault("nat-binding-lost")
				break
			}
		}
	}
	if m := w.Net.MTU[dir]; m > 0 && len(p.Data) > m {
		copies = 0
		rec.Fate += "mtu "
		w.Res.Fault("mtu-blackhole")
	}
	if m := w.Net.AltMTU; m > 0 && len(p.Data) > m && (caddr == wClientAddr3.String() || (dir == 1 && caddr == wClientAddr2.String())) {
		// (a NAT rebinding is invisible to the client: only what the server sends to the new address meets the smaller MTU)
		copies = 0
		rec.Fate += "altmtu "
		w.Res.Fault("alt-path-mtu-blackhole")
	}
	rec.Damaged = damaged
	rec.PktState = make([]int8, len(rec.Pkts))
	for _, f := range faults {
		switch f.Kind {
		case "corrupt":
			if int(f.A) >= len(p.Data) || f.B&0xff == 0 {
				continue
			}
			for i, pk := range rec.Pkts {
				if int(f.A) >= pk.Off && int(f.A) < pk.Off+pk.Size {
					rec.PktState[i] = 2
					// damage to a long header (length field, connection IDs) can break the framing of what follows
					if pk.Type != Tap1RTT && int(f.A) < pk.Off+max(pk.HdrLen, 7) {
						for j := i + 1; j < len(rec.Pkts); j++ {
							rec.PktState[j] = max(rec.PktState[j], 1)
						}
					}
				}
			}
		case "trunc":
			for i, pk := range rec.Pkts {
				if pk.Off+pk.Size > int(f.A) {
					rec.PktState[i] = 2
				}
			}
		}
	}
	dest := to
	if dir == 1 && to.String() == wClientAddr2.String() {
		dest = wClientAddr // NAT maps back
	}
	pkt := simnet.Packet{From: from, To: dest, Data: data}
	for i := 0; i < copies; i++ {
		d := lat
		if i == 1 {
			d += dupDelay
		}
		w.push(time.Now().Add(d), func() { w.deliver(rec, pkt, damaged) })
	}
	return nil
}

func (w *World) deliver(rec *DgramRec, pkt simnet.Packet, damaged bool) {
	n, ok := w.nodes[pkt.To.String()]
	if !ok {
		return
	}
	now := w.NowNS()
	w.mu.Lock()
	firstCopy := len(rec.Delivered) == 0
	rec.Delivered = append(rec.Delivered, now)
	if firstCopy {
		w.Tap.Delivered(rec.Dir, rec.Ord, rec.PktState)
	}
	w.trace = KMix(w.trace, uint64(now), 77, uint64(rec.Dir), uint64(rec.Ord))
	if w.OnDeliver != nil {
		w.OnDeliver(rec, pkt.Data, damaged)
	}
	w.mu.Unlock()
	n.RecvPacket(pkt)
}

// InjectTo delivers a crafted datagram (on-path attacker) to the client (to=1) or the server (to=0).
func (w *World) InjectTo(to int, data []byte) {
	var pkt simnet.Packet
	if to == 1 {
		pkt = simnet.Packet{From: wServerAddr, To: wClientAddr, Data: data}
	} else {
		from := net.Addr(wClientAddr)
		if w.rebound {
			from = wClientAddr2
		}
		pkt = simnet.Packet{From: from, To: wServerAddr, Data: data}
	}
	if n, ok := w.nodes[pkt.To.String()]; ok {
		w.Res.Fault("inject")
		if w.OnInject != nil {
			w.OnInject(to, data)
		}
		w.trace = KMix(w.trace, uint64(w.NowNS()), 99, uint64(to), KHashS(string(data)))
		n.RecvPacket(pkt)
	}
}

// drive is the lock-step event loop: wait for quiescence, execute the earliest event, repeat.
func (w *World) drive() {
	defer close(w.drvDone)
	for {
		synctest.Wait()
		w.mu.Lock()
		if w.q.Len() == 0 {
			w.mu.Unlock()
			select {
			case <-w.done:
				return
			case <-w.wake:
				continue
			}
		}
		e := w.q[0]
		now := time.Now()
		if e.at.After(now) {
			w.mu.Unlock()
			t := time.NewTimer(e.at.Sub(now))
			select {
			case <-w.done:
				t.Stop()
				return
			case <-t.C:
			case <-w.wake:
				t.Stop()
			}
			continue
		}
		burst := max(1, w.Net.Burst)
		var evs []wEvent
		for len(evs) < burst && w.q.Len() > 0 && !w.q[0].at.After(now) {
			evs = append(evs, heap.Pop(&w.q).(wEvent))
		}
		w.mu.Unlock()
		for _, e := range evs {
			e.fn()
			w.Res.Events++
		}
	}
}

func (w *World) StartDriver() { go w.drive() }

// Stop ends the driver; call after every endpoint has been closed.
func (w *World) Stop() {
	close(w.done)
	<-w.drvDone
	w.Res.SimNS = w.NowNS()
	w.Res.TraceU(w.trace, uint64(w.Res.SimNS))
	if wOnStop != nil {
		wOnStop(w)
	}
}

// Path MTU discovery only runs on sockets on which the library can set the don't-fragment bit, which it finds out through
// SyscallConn(): the simulated sockets answer with the raw connection of one real (never used) loopback UDP socket of the
// process, so that setting the option succeeds and DPLPMTUD probes, MTU raises and black-holed probes are part of every
// simulated connection (unless the scenario's Config disables discovery).
type wDFConn struct{ *simnet.SimConn }

var wRealRaw = func() syscall.RawConn {
	c, err := net.ListenUDP("udp4", &net.UDPAddr{IP: net.IPv4(127, 0, 0, 1)})
	if err != nil {
		return nil
	}
	rc, err := c.SyscallConn()
	if err != nil {
		return nil
	}
	return rc
}()

func (c wDFConn) SyscallConn() (syscall.RawConn, error) {
	if wRealRaw == nil {
		return nil, errors.New("no real socket available")
	}
	return wRealRaw, nil
}

func wDF(c *simnet.SimConn) net.PacketConn {
	if wRealRaw == nil {
		return c
	}
	return wDFConn{c}
}

// wVarint: QUIC variable-length integer encoding
func wVarint(v uint64) []byte {
	switch {
	case v < 1<<6:
		return []byte{byte(v)}
	case v < 1<<14:
		return []byte{0x40 | byte(v>>8), byte(v)}
	case v < 1<<30:
		return []byte{0x80 | byte(v>>24), byte(v >> 16), byte(v >> 8), byte(v)}
	}
	return []byte{0xc0 | byte(v>>56), byte(v >> 48), byte(v >> 40), byte(v >> 32), byte(v >> 24), byte(v >> 16), byte(v >> 8), byte(v)}
}

// wDrained polls (in simulated time) until none of the transports holds anything any more - no connection ID routed to a
// connection or to a closed-connection handler, no stateless-reset token - or until bound has passed; it returns what is
// left ("" = drained). Read through the overlay accessor quic.VerifTransportTables.
func wDrained(names []string, trs []*quic.Transport, bound time.Duration) string {
	t0 := time.Now()
	for {
		left := ""
		for i, tr := range trs {
			if live, closed, tok := quic.VerifTransportTables(tr); live+closed+tok > 0 {
				left = fmt.Sprintf("%s: %d connection IDs routed to connections, %d to closed-connection handlers, %d stateless-reset tokens, %v after the workload ended", names[i], live, closed, tok, time.Since(t0).Round(time.Millisecond))
				break
			}
		}
		if left == "" || time.Since(t0) > bound {
			return left
		}
		time.Sleep(250 * time.Millisecond)
	}
}

// wOnStop, if set, sees every world when its driver has stopped (differential workloads capture the history here).
var wOnStop func(w *World)

// shape: abstract signature of the exchange (direction, packet types, frame kinds, fate)
func (w *World) FeedShape() {
	var all []*DgramRec
	all = append(all, w.Log[0]...)
	all = append(all, w.Log[1]...)
	sort.SliceStable(all, func(i, j int) bool { return all[i].SentNS < all[j].SentNS })
	var b strings.Builder
	for _, r := range all {
		fmt.Fprintf(&b, "%d", r.Dir)
		for _, p := range r.Pkts {
			b.WriteByte("IZHRV1U"[p.Type])
			seen := map[string]bool{}
			for _, f := range p.Frames {
				if !seen[f.Name] {
					seen[f.Name] = true
					b.WriteByte(byte('a' + f.Type%26))
				}
			}
		}
		if r.Fate != "" {
			b.WriteString("!" + r.Fate[:2])
		}
		b.WriteByte(';')
	}
	w.Res.Shape(b.String())
}

// ---------------------------------------------------------------- certificates

type wPKI struct {
	cert tls.Certificate
	pool *x509.CertPool
}

// wAltServerName: a second host name the server's certificate is valid for
const wAltServerName = "second.localhost"

func wGenPKI(chain int) *wPKI {
	nb, na := time.Date(1990, 1, 1, 0, 0, 0, 0, time.UTC), time.Date(2100, 1, 1, 0, 0, 0, 0, time.UTC)
	caKey, _ := ecdsa.GenerateKey(elliptic.P256(), rand.Reader)
	caT := &x509.Certificate{SerialNumber: big.NewInt(1), Subject: pkix.Name{CommonName: "verif ca"}, NotBefore: nb, NotAfter: na, IsCA: true,
		KeyUsage: x509.KeyUsageCertSign | x509.KeyUsageDigitalSignature, BasicConstraintsValid: true}
	caDER, err := x509.CreateCertificate(rand.Reader, caT, caT, &caKey.PublicKey, caKey)
	if err != nil {
		panic(err)
	}
	ca, _ := x509.ParseCertificate(caDER)
	pool := x509.NewCertPool()
	pool.AddCert(ca)
	parent, parentKey := ca, caKey
	var ders [][]byte
	for i := 0; i < chain; i++ {
		k, _ := ecdsa.GenerateKey(elliptic.P256(), rand.Reader)
		tm := &x509.Certificate{SerialNumber: big.NewInt(int64(10 + i)), Subject: pkix.Name{CommonName: fmt.Sprintf("intermediate %d with a long name to fill the flight %s", i, strings.Repeat("x", 40))},
			NotBefore: nb, NotAfter: na, IsCA: true, KeyUsage: x509.KeyUsageCertSign, BasicConstraintsValid: true}
		der, err := x509.CreateCertificate(rand.Reader, tm, parent, &k.PublicKey, parentKey)
		if err != nil {
			panic(err)
		}
		c, _ := x509.ParseCertificate(der)
		ders = append([][]byte{der}, ders...)
		parent, parentKey = c, k
	}
	k, _ := ecdsa.GenerateKey(elliptic.P256(), rand.Reader)
	lt := &x509.Certificate{SerialNumber: big.NewInt(2), Subject: pkix.Name{CommonName: "localhost"}, DNSNames: []string{"localhost", wAltServerName}, NotBefore: nb, NotAfter: na,
		KeyUsage: x509.KeyUsageDigitalSignature, ExtKeyUsage: []x509.ExtKeyUsage{x509.ExtKeyUsageServerAuth}}
	der, err := x509.CreateCertificate(rand.Reader, lt, parent, &k.PublicKey, parentKey)
	if err != nil {
		panic(err)
	}
	return &wPKI{cert: tls.Certificate{Certificate: append([][]byte{der}, ders...), PrivateKey: k}, pool: pool}
}

// ---------------------------------------------------------------- nodes

const wALPN = "h3" // the built-in fingerprints carry ALPN h3

type Nodes struct {
	W            *World
	Cfg          *WConfig
	PKI          *wPKI
	CConn        *simnet.SimConn
	SConn        *simnet.SimConn
	CTr          *quic.Transport
	UTr          *quic.UTransport
	STr          *quic.Transport
	Ln           *quic.Listener
	ELn          *quic.EarlyListener
	CTLS         *tls.Config
	STLS         *tls.Config
	CQ           *quic.Config
	SQ           *quic.Config
	Spec         *quic.QUICSpec
	QLog         [2]*wQLog // endpoint-side view: in-memory qlog of the client's (0) and the server's (1) connections
	SessionCache tls.ClientSessionCache
	TokenStore   quic.TokenStore
}

func wWin(v uint64) uint64 { return v }

func (c *WConfig) quicConfig(side int) *quic.Config {
	q := &quic.Config{}
	q.InitialStreamReceiveWindow = c.Win[side*2]
	q.InitialConnectionReceiveWindow = c.Win[side*2+1]
	q.MaxStreamReceiveWindow = c.MaxWin[side*2]
	q.MaxConnectionReceiveWindow = c.MaxWin[side*2+1]
	q.MaxIdleTimeout = time.Duration(c.IdleMS[side]) * time.Millisecond
	q.KeepAlivePeriod = time.Duration(c.KeepAliveMS[side]) * time.Millisecond
	q.HandshakeIdleTimeout = time.Duration(c.HSIdleMS[side]) * time.Millisecond
	q.MaxIncomingStreams = c.MaxStreams[side]
	q.MaxIncomingUniStreams = c.MaxUniStreams[side]
	q.DisablePathMTUDiscovery = c.NoPMTUD[side]
	q.InitialPacketSize = uint16(c.InitialPktSize[side])
	q.EnableDatagrams = c.Datagrams[side]
	q.EnableStreamResetPartialDelivery = c.ResetPartial[side]
	if side == 1 {
		q.Allow0RTT = c.Allow0RTT
		q.Versions = []quic.Version{quic.Version1, quic.Version2}
	} else {
		if c.Version == 2 {
			q.Versions = []quic.Version{quic.Version2}
		} else {
			q.Versions = []quic.Version{quic.Version1}
		}
	}
	return q
}

// NewNodes creates the endpoints' sockets, transports and the listener.
func NewNodes(w *World, cfg *WConfig) (*Nodes, error) {
	n := &Nodes{W: w, Cfg: cfg}
	n.PKI = wGenPKI(cfg.ChainLen)
	n.CConn = simnet.NewBlockingSimConn(wClientAddr, w)
	n.SConn = simnet.NewBlockingSimConn(wServerAddr, w)
	n.STLS = &tls.Config{Certificates: []tls.Certificate{n.PKI.cert}, NextProtos: []string{wALPN}, KeyLogWriter: w.Tap}
	n.CTLS = &tls.Config{RootCAs: n.PKI.pool, ServerName: "localhost", NextProtos: []string{wALPN}, KeyLogWriter: w.Tap}
	n.CQ, n.SQ = cfg.quicConfig(0), cfg.quicConfig(1)
	n.QLog[0], n.QLog[1] = &wQLog{w: w}, &wQLog{w: w}
	n.CQ.Tracer = func(context.Context, bool, quic.ConnectionID) qlogwriter.Trace { return n.QLog[0] }
	n.SQ.Tracer = func(context.Context, bool, quic.ConnectionID) qlogwriter.Trace { return n.QLog[1] }
	n.STr = &quic.Transport{Conn: wDF(n.SConn), ConnectionIDLength: cfg.ServerCIDLen}
	if cfg.Retry {
		n.STr.VerifySourceAddress = func(net.Addr) bool { return true }
	}
	n.CTr = &quic.Transport{Conn: wDF(n.CConn), ConnectionIDLength: cfg.ClientCIDLen}
	switch cfg.Client {
	case "", "plain":
	case "unil":
		n.UTr = &quic.UTransport{Transport: n.CTr}
	default:
		spec, err := wBuildSpec(cfg)
		if err != nil {
			return n, err
		}
		n.Spec = spec
		n.UTr = &quic.UTransport{Transport: n.CTr, QUICSpec: spec}
	}
	return n, nil
}

func (n *Nodes) Listen() error {
	var err error
	if n.Cfg.Allow0RTT {
		n.ELn, err = n.STr.ListenEarly(n.STLS, n.SQ)
	} else {
		n.Ln, err = n.STr.Listen(n.STLS, n.SQ)
	}
	return err
}

func (n *Nodes) Accept(ctx context.Context) (*quic.Conn, error) {
	if n.ELn != nil {
		return n.ELn.Accept(ctx)
	}
	return n.Ln.Accept(ctx)
}

func (n *Nodes) Dial(ctx context.Context) (*quic.Conn, error) {
	if n.UTr != nil {
		return n.UTr.Dial(ctx, wServerAddr, n.CTLS, n.CQ)
	}
	return n.CTr.Dial(ctx, wServerAddr, n.CTLS, n.CQ)
}

func (n *Nodes) DialEarly(ctx context.Context) (*quic.Conn, error) {
	if n.UTr != nil {
		return n.UTr.DialEarly(ctx, wServerAddr, n.CTLS, n.CQ)
	}
	return n.CTr.DialEarly(ctx, wServerAddr, n.CTLS, n.CQ)
}

// Close shuts every endpoint down (listener, transports, sockets).
func (n *Nodes) Close() {
	if n.Ln != nil {
		n.Ln.Close()
	}
	if n.ELn != nil {
		n.ELn.Close()
	}
	if n.CTr != nil {
		n.CTr.Close()
	}
	if n.STr != nil {
		n.STr.Close()
	}
	n.CConn.Close()
	n.SConn.Close()
}

// ---------------------------------------------------------------- helpers

// wPayload returns position-dependent content: byte i of stream key k.
func wPayload(key uint64, off, n int) []byte {
	b := make([]byte, n)
	for i := range b {
		p := uint64(off + i)
		x := KMix(key, p>>3)
		b[i] = byte(x >> (8 * (p & 7)))
	}
	return b
}

func wCheckPayload(key uint64, off int, got []byte) int {
	want := wPayload(key, off, len(got))
	if bytes.Equal(want, got) {
		return -1
	}
	for i := range got {
		if got[i] != want[i] {
			return off + i
		}
	}
	return -1
}

func wHash(b []byte) uint64 {
	h := sha256.Sum256(b)
	return binary.BigEndian.Uint64(h[:8])
}

// wBegin prepares per-run global state; wEnd restores it.
func wBegin(cfg *WConfig) {
	monotime.VerifSetStart(time.Now().Add(-time.Hour))
	if cfg.V6 {
		// native IPv6 addresses; the client and its rebinding address are neighbours in one /64
		wClientAddr = &net.UDPAddr{IP: net.ParseIP("2001:db8:1:2::a"), Port: 9001}
		wClientAddr2 = &net.UDPAddr{IP: net.ParseIP("2001:db8:1:2:7777::77"), Port: 7707}
		wClientAddr3 = &net.UDPAddr{IP: net.ParseIP("2001:db8:9:9::a"), Port: 9301}
		wServerAddr = &net.UDPAddr{IP: net.ParseIP("2001:db8:ffff::2"), Port: 443}
	} else {
		wClientAddr = &net.UDPAddr{IP: net.IPv4(10, 0, 0, 1).To4(), Port: 9001}
		wClientAddr2 = &net.UDPAddr{IP: net.IPv4(10, 0, 0, 77).To4(), Port: 7707}
		wClientAddr3 = &net.UDPAddr{IP: net.IPv4(10, 0, 9, 1).To4(), Port: 9301}
		wServerAddr = &net.UDPAddr{IP: net.IPv4(10, 0, 0, 2).To4(), Port: 443}
	}
	// (drawn from crypto/rand, which the kernel has seeded for this run)
	var vb [16]byte
	rand.Read(vb[:])
	protocol.VerifSeedVersionNegotiation(binary.BigEndian.Uint64(vb[:8]), binary.BigEndian.Uint64(vb[8:]))
	if cfg.SchedNum > 0 {
		runtime.SimSched(KMix(uint64(cfg.SchedNum), 0x5ced), cfg.SchedNum)
	}
	wSetKeyUpdateInterval(cfg.KeyUpdate)
}

func wEnd() {
	wSetKeyUpdateInterval(0)
}

// ---------------------------------------------------------------- endpoint-side view (qlog in memory)

type wQEvent struct {
	AtNS int64
	Ev   qlogwriter.Event
}

// wQLog implements qlogwriter.Trace and Recorder: events are appended to a slice (no clock reads other than the
// bubble's, no randomness: recording does not perturb the schedule).
type wQLog struct {
	mu     sync.Mutex
	w      *World
	Events []wQEvent
}

func (q *wQLog) AddProducer() qlogwriter.Recorder { return q }
func (q *wQLog) SupportsSchemas(string) bool      { return true }
func (q *wQLog) Close() error                     { return nil }
func (q *wQLog) RecordEvent(ev qlogwriter.Event) {
	q.mu.Lock()
	if len(q.Events) < 400000 {
		q.Events = append(q.Events, wQEvent{q.w.NowNS(), ev})
	}
	q.mu.Unlock()
}
