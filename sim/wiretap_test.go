package verifsim

// Wiretap: an independent observer of every datagram on the simulated network.
// It re-implements QUIC packet protection (RFC 9001 / 9369), header parsing and
// frame parsing (RFC 9000 / 9221 + RESET_STREAM_AT) and the little TLS parsing it
// needs, and shares no code with /repo. Keys: Initial secrets from the client's
// first destination connection ID, all later secrets from the NSS key log that
// both endpoints write (indexed by the ClientHello random, so any number of
// connections can be followed).

import (
	"bytes"
	"crypto/aes"
	"crypto/cipher"
	"crypto/hkdf"
	"crypto/sha256"
	"crypto/sha512"
	"encoding/binary"
	"encoding/hex"
	"errors"
	"fmt"
	"hash"
	"sort"
	"strings"
	"sync"

	"golang.org/x/crypto/chacha20"
	"golang.org/x/crypto/chacha20poly1305"
)

// ---------------------------------------------------------------- crypto (RFC 9001 / 9369)

var tapSaltV1, _ = hex.DecodeString("38762cf7f55934b34d179ae6a4c80cadccbb7f0a")
var tapSaltV2, _ = hex.DecodeString("0dede3def700a6db819381be6e269dcbf9bd2ed9")
var tapRetryKeyV1, _ = hex.DecodeString("be0c690b9f66575a1d766b54e368c84e")
var tapRetryNonceV1, _ = hex.DecodeString("461599d35d632bf2239825bb")
var tapRetryKeyV2, _ = hex.DecodeString("8fb4b01b56ac48e260fbcbcead7ccc92")
var tapRetryNonceV2, _ = hex.DecodeString("d86969bc2d7c6d9990efb04a")

const (
	tapV1 uint32 = 0x00000001
	tapV2 uint32 = 0x6b3343cf
)

func tapExpandLabel(h func() hash.Hash, secret []byte, label string, n int) []byte {
	var b []byte
	b = binary.BigEndian.AppendUint16(b, uint16(n))
	b = append(b, byte(6+len(label)))
	b = append(b, "tls13 "...)
	b = append(b, label...)
	b = append(b, 0)
	out, err := hkdf.Expand(h, secret, string(b), n)
	if err != nil {
		panic(err)
	}
	return out
}

type tapKeys struct {
	aead   cipher.AEAD
	iv     []byte
	hpAES  cipher.Block
	hpCha  []byte
	secret []byte
	h      func() hash.Hash
	suite  uint16
	v2     bool
}

func tapHashFor(secret []byte) func() hash.Hash {
	if len(secret) == 48 {
		return sha512.New384
	}
	return sha256.New
}

func tapDeriveKeys(secret []byte, v2 bool, suite uint16) *tapKeys {
	h := tapHashFor(secret)
	pfx := "quic "
	if v2 {
		pfx = "quicv2 "
	}
	k := &tapKeys{secret: secret, h: h, suite: suite, v2: v2}
	switch suite {
	case 0x1301, 0x1302:
		kl := 16
		if suite == 0x1302 {
			kl = 32
		}
		blk, _ := aes.NewCipher(tapExpandLabel(h, secret, pfx+"key", kl))
		k.aead, _ = cipher.NewGCM(blk)
		k.hpAES, _ = aes.NewCipher(tapExpandLabel(h, secret, pfx+"hp", kl))
	case 0x1303:
		k.aead, _ = chacha20poly1305.New(tapExpandLabel(h, secret, pfx+"key", 32))
		k.hpCha = tapExpandLabel(h, secret, pfx+"hp", 32)
	default:
		return nil
	}
	k.iv = tapExpandLabel(h, secret, pfx+"iv", 12)
	return k
}

// next generation after a key update: new secret, same header-protection key
func (k *tapKeys) next() *tapKeys {
	lbl := "quic ku"
	if k.v2 {
		lbl = "quicv2 ku"
	}
	ns := tapExpandLabel(k.h, k.secret, lbl, len(k.secret))
	n := tapDeriveKeys(ns, k.v2, k.suite)
	n.hpAES, n.hpCha = k.hpAES, k.hpCha
	return n
}

func (k *tapKeys) mask(sample []byte) []byte {
	if k.hpAES != nil {
		m := make([]byte, 16)
		k.hpAES.Encrypt(m, sample)
		return m[:5]
	}
	c, _ := chacha20.NewUnauthenticatedCipher(k.hpCha, sample[4:16])
	c.SetCounter(binary.LittleEndian.Uint32(sample[:4]))
	m := make([]byte, 5)
	c.XORKeyStream(m, m)
	return m
}

func tapInitialKeys(dcid []byte, v2 bool) (client, server *tapKeys) {
	salt := tapSaltV1
	if v2 {
		salt = tapSaltV2
	}
	init, _ := hkdf.Extract(sha256.New, dcid, salt)
	cs := tapExpandLabel(sha256.New, init, "client in", 32)
	ss := tapExpandLabel(sha256.New, init, "server in", 32)
	return tapDeriveKeys(cs, v2, 0x1301), tapDeriveKeys(ss, v2, 0x1301)
}

// tapRetryTagOK recomputes the Retry integrity tag (RFC 9001 5.8).
func tapRetryTagOK(odcid, retry []byte, v2 bool) bool {
	if len(retry) < 16 {
		return false
	}
	key, nonce := tapRetryKeyV1, tapRetryNonceV1
	if v2 {
		key, nonce = tapRetryKeyV2, tapRetryNonceV2
	}
	blk, _ := aes.NewCipher(key)
	g, _ := cipher.NewGCM(blk)
	pseudo := append([]byte{byte(len(odcid))}, odcid...)
	pseudo = append(pseudo, retry[:len(retry)-16]...)
	tag := g.Seal(nil, nonce, nil, pseudo)
	return bytes.Equal(tag, retry[len(retry)-16:])
}

func tapVarint(b []byte) (uint64, int, error) {
	if len(b) == 0 {
		return 0, 0, errors.New("eof")
	}
	l := 1 << (b[0] >> 6)
	if len(b) < l {
		return 0, 0, errors.New("eof")
	}
	v := uint64(b[0] & 0x3f)
	for i := 1; i < l; i++ {
		v = v<<8 | uint64(b[i])
	}
	return v, l, nil
}

// RFC 9000 A.3
func tapDecodePN(largest int64, truncated uint64, nbits uint) uint64 {
	expected := uint64(largest + 1)
	win := uint64(1) << nbits
	hwin := win / 2
	mask := win - 1
	cand := (expected &^ mask) | truncated
	if cand+hwin <= expected && cand < (1<<62)-win {
		return cand + win
	}
	if cand > expected+hwin && cand >= win {
		return cand - win
	}
	return cand
}

// ---------------------------------------------------------------- frames

type TapFrame struct {
	Type     uint64
	Name     string
	StreamID uint64
	Offset   uint64
	Length   uint64
	Fin      bool
	Data     []byte
	Ranges   [][2]uint64 // ACK: (smallest, largest), descending
	AckDelay uint64
	ECN      [3]uint64
	HasECN   bool
	Max      uint64 // MAX_DATA, MAX_STREAM_DATA, MAX_STREAMS, *_BLOCKED
	Seq      uint64 // NEW_CONNECTION_ID / RETIRE_CONNECTION_ID
	RetirePT uint64
	CID      []byte
	Token    []byte // NEW_CONNECTION_ID reset token, NEW_TOKEN token, PATH_* data
	Code     uint64 // error code (RESET_STREAM, STOP_SENDING, CONNECTION_CLOSE)
	FType    uint64 // CONNECTION_CLOSE frame type
	Reason   string
	Final    uint64 // RESET_STREAM final size
	Reliable uint64 // RESET_STREAM_AT
	NPad     int    // PADDING run length
	HasLen   bool   // STREAM / DATAGRAM with explicit length
}

func (f *TapFrame) AckEliciting() bool {
	switch f.Type {
	case 0x00, 0x02, 0x03, 0x1c, 0x1d:
		return false
	}
	return true
}

func tapParseFrames(b []byte) (out []TapFrame, err error) {
	rd := func() uint64 {
		if err != nil {
			return 0
		}
		v, n, e := tapVarint(b)
		if e != nil {
			err = errors.New("truncated varint in frame")
			return 0
		}
		b = b[n:]
		return v
	}
	take := func(n uint64) []byte {
		if err != nil {
			return nil
		}
		if uint64(len(b)) < n {
			err = errors.New("frame body exceeds packet")
			return nil
		}
		d := b[:n]
		b = b[n:]
		return d
	}
	for len(b) > 0 && err == nil {
		t := rd()
		f := TapFrame{Type: t}
		switch {
		case t == 0x00:
			n := 1
			for len(b) > 0 && b[0] == 0 {
				b = b[1:]
				n++
			}
			f.Name, f.NPad = "PADDING", n
		case t == 0x01:
			f.Name = "PING"
		case t == 0x02 || t == 0x03:
			f.Name = "ACK"
			largest := rd()
			f.AckDelay = rd()
			cnt := rd()
			first := rd()
			if err != nil {
				break
			}
			if first > largest {
				err = errors.New("ACK first range below zero")
				break
			}
			smallest := largest - first
			f.Ranges = append(f.Ranges, [2]uint64{smallest, largest})
			for i := uint64(0); i < cnt && err == nil; i++ {
				gap := rd()
				l := rd()
				if err != nil {
					break
				}
				if smallest < gap+2 {
					err = errors.New("ACK range underflow")
					break
				}
				lg := smallest - gap - 2
				if l > lg {
					err = errors.New("ACK range underflow")
					break
				}
				smallest = lg - l
				f.Ranges = append(f.Ranges, [2]uint64{smallest, lg})
			}
			if t == 0x03 {
				f.HasECN = true
				f.ECN[0], f.ECN[1], f.ECN[2] = rd(), rd(), rd()
			}
		case t == 0x04:
			f.Name = "RESET_STREAM"
			f.StreamID, f.Code, f.Final = rd(), rd(), rd()
		case t == 0x24:
			f.Name = "RESET_STREAM_AT"
			f.StreamID, f.Code, f.Final, f.Reliable = rd(), rd(), rd(), rd()
		case t == 0x05:
			f.Name = "STOP_SENDING"
			f.StreamID, f.Code = rd(), rd()
		case t == 0x06:
			f.Name = "CRYPTO"
			f.Offset = rd()
			f.Length = rd()
			f.Data = take(f.Length)
		case t == 0x07:
			f.Name = "NEW_TOKEN"
			f.Token = take(rd())
		case t >= 0x08 && t <= 0x0f:
			f.Name = "STREAM"
			f.StreamID = rd()
			if t&0x04 != 0 {
				f.Offset = rd()
			}
			if t&0x02 != 0 {
				f.HasLen = true
				f.Length = rd()
				f.Data = take(f.Length)
			} else {
				f.Data = b
				f.Length = uint64(len(b))
				b = nil
			}
			f.Fin = t&0x01 != 0
		case t == 0x10:
			f.Name, f.Max = "MAX_DATA", rd()
		case t == 0x11:
			f.Name = "MAX_STREAM_DATA"
			f.StreamID, f.Max = rd(), rd()
		case t == 0x12 || t == 0x13:
			f.Name, f.Max = "MAX_STREAMS", rd()
		case t == 0x14:
			f.Name, f.Max = "DATA_BLOCKED", rd()
		case t == 0x15:
			f.Name = "STREAM_DATA_BLOCKED"
			f.StreamID, f.Max = rd(), rd()
		case t == 0x16 || t == 0x17:
			f.Name, f.Max = "STREAMS_BLOCKED", rd()
		case t == 0x18:
			f.Name = "NEW_CONNECTION_ID"
			f.Seq, f.RetirePT = rd(), rd()
			l := take(1)
			if err == nil {
				if l[0] < 1 || l[0] > 20 {
					err = errors.New("NEW_CONNECTION_ID with invalid length")
					break
				}
				f.CID = take(uint64(l[0]))
				f.Token = take(16)
			}
		case t == 0x19:
			f.Name, f.Seq = "RETIRE_CONNECTION_ID", rd()
		case t == 0x1a:
			f.Name, f.Token = "PATH_CHALLENGE", take(8)
		case t == 0x1b:
			f.Name, f.Token = "PATH_RESPONSE", take(8)
		case t == 0x1c:
			f.Name = "CONNECTION_CLOSE"
			f.Code, f.FType = rd(), rd()
			f.Reason = string(take(rd()))
		case t == 0x1d:
			f.Name = "CONNECTION_CLOSE_APP"
			f.Code = rd()
			f.Reason = string(take(rd()))
		case t == 0x1e:
			f.Name = "HANDSHAKE_DONE"
		case t == 0x30:
			f.Name = "DATAGRAM"
			f.Data = b
			f.Length = uint64(len(b))
			b = nil
		case t == 0x31:
			f.Name, f.HasLen = "DATAGRAM", true
			f.Length = rd()
			f.Data = take(f.Length)
		default:
			err = fmt.Errorf("unknown frame type %#x", t)
		}
		if err == nil {
			out = append(out, f)
		}
	}
	return out, err
}

// ---------------------------------------------------------------- packets

const (
	TapInitial = iota
	Tap0RTT
	TapHandshake
	TapRetry
	TapVN
	Tap1RTT
	TapUnknown // could not be attributed / decrypted (stateless reset, garbage)
)

var tapTypeName = []string{"Initial", "0RTT", "Handshake", "Retry", "VN", "1RTT", "Unknown"}

type TapPacket struct {
	Dir       int // 0 = client->server, 1 = server->client
	Ord       int // ordinal of the datagram in its direction
	Conn      *TapConn
	Type      int
	Version   uint32
	DCID      []byte
	SCID      []byte
	Token     []byte
	PN        int64
	PNLen     int
	KeyPhase  int
	Off       int // offset of the packet inside the datagram
	Size      int // bytes of this packet in the datagram
	Frames    []TapFrame
	Opened    bool
	Err       string
	Trailing  int      // bytes after the last packet of the datagram (uQUIC pads with zeros outside the packet)
	Versions  []uint32 // Version Negotiation
	RetryOK   bool     // Retry: integrity tag valid for the connection's original DCID
	LargestAc int64    // largest acknowledged number the sender had been told about (in that space) when it sent this
	SentNS    int64
	HdrLen    int  // bytes before the packet number field
	Reset     bool // an unopenable short-header packet ending in a stateless-reset token its sender had issued (RFC 9000 10.3)
	Repeat    bool // byte-identical repetition of an earlier packet (RFC 9000 10.2.1 allows it for CONNECTION_CLOSE)
}

func (p *TapPacket) Space() int {
	switch p.Type {
	case TapInitial:
		return 0
	case TapHandshake:
		return 1
	}
	return 2
}

func (p *TapPacket) AckEliciting() bool {
	for i := range p.Frames {
		if p.Frames[i].AckEliciting() {
			return true
		}
	}
	return false
}

func (p *TapPacket) String() string {
	var fs []string
	for _, f := range p.Frames {
		switch f.Name {
		case "PADDING":
			fs = append(fs, fmt.Sprintf("PAD%d", f.NPad))
		case "CRYPTO":
			fs = append(fs, fmt.Sprintf("CRYPTO[%d+%d]", f.Offset, f.Length))
		case "STREAM":
			fs = append(fs, fmt.Sprintf("STREAM%d[%d+%d%s]", f.StreamID, f.Offset, f.Length, map[bool]string{true: " FIN"}[f.Fin]))
		case "ACK":
			fs = append(fs, fmt.Sprintf("ACK%v", f.Ranges))
		case "NEW_CONNECTION_ID":
			fs = append(fs, fmt.Sprintf("NEW_CONNECTION_ID(seq %d, retire prior to %d, %x)", f.Seq, f.RetirePT, f.CID))
		case "RETIRE_CONNECTION_ID":
			fs = append(fs, fmt.Sprintf("RETIRE_CONNECTION_ID(%d)", f.Seq))
		default:
			fs = append(fs, f.Name)
		}
	}
	d := "c>s"
	if p.Dir == 1 {
		d = "s>c"
	}
	return fmt.Sprintf("%s#%d %s pn=%d/%d %v %s", d, p.Ord, tapTypeName[p.Type], p.PN, p.PNLen, fs, p.Err)
}

// crypto stream reassembly (only what the tap needs: contiguous prefix)
type tapStream struct {
	buf      []byte
	have     []bool
	high     uint64
	conflict bool
}

func (s *tapStream) add(off uint64, d []byte) {
	end := off + uint64(len(d))
	if end > 1<<22 {
		return
	}
	if uint64(len(s.buf)) < end {
		s.buf = append(s.buf, make([]byte, end-uint64(len(s.buf)))...)
		s.have = append(s.have, make([]bool, end-uint64(len(s.have)))...)
	}
	for i, b := range d {
		p := off + uint64(i)
		if s.have[p] && s.buf[p] != b {
			s.conflict = true
		}
		s.buf[p], s.have[p] = b, true
	}
	if end > s.high {
		s.high = end
	}
}

func (s *tapStream) prefix() []byte {
	n := 0
	for n < len(s.have) && s.have[n] {
		n++
	}
	return s.buf[:n]
}

// TapConn is everything the observer knows about one connection.
type TapConn struct {
	ID         int
	ClientAddr string
	ODCID      []byte // destination CID of the very first Initial
	InitDCID   []byte // DCID the current Initial keys derive from (changes after Retry)
	Version    uint32
	Random     []byte // ClientHello random
	Suite      uint16
	cids       [2]map[string]bool // cids[dir]: connection IDs usable as DCID in that direction
	initKeys   [2]*tapKeys
	hsKeys     [2]*tapKeys
	appKeys    [2][]*tapKeys          // generations
	phase      [2]int                 // generation in use (highest seen)
	largest    [2][3]int64            // largest packet number sent
	seenPN     [2][3]map[int64]uint64 // packet number -> hash of the plaintext payload
	ackedTo    [2][3]int64            // largest acknowledged number delivered to the sender dir
	Crypto     [2][3]*tapStream
	Packets    []*TapPacket
	CH         *TapClientHello
	chLen      int
	Retried    bool
	RetryToken []byte
	RetrySCID  []byte
	retrySCIDs map[string]bool // source CIDs of all valid Retry packets seen (one per client Initial datagram)
	SrvTP      []TapTP         // server transport parameters (EncryptedExtensions)
	srvTPDone  bool
	Closed     [2]bool // CONNECTION_CLOSE seen from dir
	FirstHS    [2]int  // index into Packets of first Handshake packet, -1
	saw0RTT    bool
	resetTok   [2]map[string]bool  // stateless-reset tokens issued by the endpoint sending in dir
	ServerSCID []byte              // source CID of the server connection the client is talking to
	Shadow     bool                // a second server-side connection created from a replayed/delayed ClientHello; the client ignores it
	shadows    map[string]*TapConn // by server SCID
	Main       *TapConn
}

type Wiretap struct {
	mu           sync.Mutex
	keylog       map[string]map[string][]byte // client random hex -> label -> secret
	partial      []byte
	Conns        []*TapConn
	byAddr       map[string][]*TapConn
	shadowBySCID map[string]*TapConn // server source ID -> shadow connection
	All          []*TapPacket
	Fails        []string // packets that should have been decodable but were not
	nowNS        func() int64
	Dgrams       [2]int
	pending      [2]map[int][]*TapPacket // packets per datagram ordinal, for delivery notification
}

func NewWiretap(now func() int64) *Wiretap {
	w := &Wiretap{keylog: map[string]map[string][]byte{}, byAddr: map[string][]*TapConn{}, nowNS: now}
	w.pending[0], w.pending[1] = map[int][]*TapPacket{}, map[int][]*TapPacket{}
	return w
}

// Write implements io.Writer for tls.Config.KeyLogWriter.
func (w *Wiretap) Write(p []byte) (int, error) {
	w.mu.Lock()
	defer w.mu.Unlock()
	w.partial = append(w.partial, p...)
	for {
		i := bytes.IndexByte(w.partial, '\n')
		if i < 0 {
			break
		}
		f := strings.Fields(string(w.partial[:i]))
		w.partial = w.partial[i+1:]
		if len(f) == 3 {
			sec, err := hex.DecodeString(f[2])
			if err == nil {
				if w.keylog[f[1]] == nil {
					w.keylog[f[1]] = map[string][]byte{}
				}
				if _, dup := w.keylog[f[1]][f[0]]; !dup {
					w.keylog[f[1]][f[0]] = sec
				}
			}
		}
	}
	return len(p), nil
}

func (w *Wiretap) secret(c *TapConn, label string) []byte {
	if c.Random == nil {
		return nil
	}
	return w.keylog[hex.EncodeToString(c.Random)][label]
}

func (w *Wiretap) newConn(addr string, dcid []byte, ver uint32) *TapConn {
	c := &TapConn{ID: len(w.Conns), ClientAddr: addr, ODCID: append([]byte{}, dcid...), InitDCID: append([]byte{}, dcid...), Version: ver}
	c.cids[0], c.cids[1] = map[string]bool{string(dcid): true}, map[string]bool{}
	c.initKeys[0], c.initKeys[1] = tapInitialKeys(dcid, ver == tapV2)
	for d := 0; d < 2; d++ {
		for s := 0; s < 3; s++ {
			c.largest[d][s] = -1
			c.ackedTo[d][s] = -1
			c.seenPN[d][s] = map[int64]uint64{}
			c.Crypto[d][s] = &tapStream{}
		}
		c.FirstHS[d] = -1
		c.resetTok[d] = map[string]bool{}
	}
	w.Conns = append(w.Conns, c)
	w.byAddr[addr] = append(w.byAddr[addr], c)
	return c
}

// tapSeal1RTT builds a protected 1-RTT packet as the endpoint sending in direction dir would (current key phase, 4-byte packet
// number), from the secrets the observer holds: the simulator's way of playing a peer that frames its packets differently
// from the in-tree sender. The caller holds w.mu.
func (c *TapConn) tapSeal1RTT(dir int, dcid []byte, pn uint64, payload []byte) []byte {
	if len(c.appKeys[dir]) == 0 {
		return nil
	}
	k := c.appKeys[dir][c.phase[dir]]
	hdr := []byte{0x40 | byte(c.phase[dir]&1)<<2 | 3}
	hdr = append(hdr, dcid...)
	pnOff := len(hdr)
	hdr = append(hdr, byte(pn>>24), byte(pn>>16), byte(pn>>8), byte(pn))
	nonce := append([]byte{}, k.iv...)
	for i := 0; i < 8; i++ {
		nonce[len(nonce)-1-i] ^= byte(pn >> (8 * i))
	}
	pkt := append(append([]byte{}, hdr...), k.aead.Seal(nil, nonce, payload, hdr)...)
	m := k.mask(pkt[pnOff+4 : pnOff+20])
	pkt[0] ^= m[0] & 0x1f
	for i := 0; i < 4; i++ {
		pkt[pnOff+i] ^= m[1+i]
	}
	return pkt
}

// shadowOf returns (creating it if needed) the shadow of c that the server runs under source ID scid.
func (w *Wiretap) shadowOf(c *TapConn, clientAddr string, scid []byte) *TapConn {
	if sh := c.shadows[string(scid)]; sh != nil {
		return sh
	}
	sh := w.newConn(clientAddr, c.InitDCID, c.Version)
	sh.ODCID, sh.Shadow, sh.Main, sh.ServerSCID = c.ODCID, true, c, append([]byte{}, scid...)
	w.byAddr[clientAddr] = w.byAddr[clientAddr][:len(w.byAddr[clientAddr])-1] // not a candidate for lookups
	if c.shadows == nil {
		c.shadows = map[string]*TapConn{}
	}
	c.shadows[string(scid)] = sh
	if w.shadowBySCID == nil {
		w.shadowBySCID = map[string]*TapConn{}
	}
	w.shadowBySCID[string(scid)] = sh
	return sh
}

func (w *Wiretap) findConn(addr string, dir int, dcid, scid []byte, long bool) *TapConn {
	cs := w.byAddr[addr]
	for i := len(cs) - 1; i >= 0; i-- {
		c := cs[i]
		if long {
			if c.cids[dir][string(dcid)] {
				return c
			}
			// the peer's CID is learnt from its first packet: match on the other side's known ids
			if len(scid) > 0 && c.cids[1-dir][string(scid)] {
				return c
			}
		}
	}
	return nil
}

func (w *Wiretap) ensureKeys(c *TapConn) {
	if c.Random == nil {
		if p := c.Crypto[0][0].prefix(); len(p) >= 38 && p[0] == 1 {
			c.Random = append([]byte{}, p[6:38]...)
		}
	}
	if c.Random == nil {
		return
	}
	if c.Suite == 0 {
		// ServerHello: type(1) len(3) version(2) random(32) sidlen(1) sid suite(2)
		if p := c.Crypto[1][0].prefix(); len(p) >= 39 && p[0] == 2 {
			sl := int(p[38])
			if len(p) >= 39+sl+2 {
				c.Suite = binary.BigEndian.Uint16(p[39+sl:])
			}
		}
	}
	if c.Suite == 0 {
		return
	}
	v2 := c.Version == tapV2
	labels := [2][2]string{{"CLIENT_HANDSHAKE_TRAFFIC_SECRET", "CLIENT_TRAFFIC_SECRET_0"}, {"SERVER_HANDSHAKE_TRAFFIC_SECRET", "SERVER_TRAFFIC_SECRET_0"}}
	for d := 0; d < 2; d++ {
		if c.hsKeys[d] == nil {
			if s := w.secret(c, labels[d][0]); s != nil {
				c.hsKeys[d] = tapDeriveKeys(s, v2, c.Suite)
			}
		}
		if len(c.appKeys[d]) == 0 {
			if s := w.secret(c, labels[d][1]); s != nil {
				c.appKeys[d] = []*tapKeys{tapDeriveKeys(s, v2, c.Suite)}
			}
		}
	}
}

// tryOpen removes header protection and opens the packet. largest = largest packet number sent so far in the space.
func tapTryOpen(k *tapKeys, pkt []byte, pnOff int, largest int64, long bool) (pn int64, pnLen int, first byte, pt []byte, ok bool) {
	if k == nil || pnOff+4+16 > len(pkt) {
		return 0, 0, 0, nil, false
	}
	b := append([]byte{}, pkt...)
	m := k.mask(b[pnOff+4 : pnOff+20])
	if long {
		b[0] ^= m[0] & 0x0f
	} else {
		b[0] ^= m[0] & 0x1f
	}
	pnLen = int(b[0]&3) + 1
	var tr uint64
	for i := 0; i < pnLen; i++ {
		b[pnOff+i] ^= m[1+i]
		tr = tr<<8 | uint64(b[pnOff+i])
	}
	upn := tapDecodePN(largest, tr, uint(8*pnLen))
	nonce := append([]byte{}, k.iv...)
	for i := 0; i < 8; i++ {
		nonce[len(nonce)-1-i] ^= byte(upn >> (8 * i))
	}
	out, err := k.aead.Open(nil, nonce, b[pnOff+pnLen:], b[:pnOff+pnLen])
	if err != nil {
		return 0, 0, 0, nil, false
	}
	return int64(upn), pnLen, b[0], out, true
}

// Datagram is called by the router for every datagram put on the wire (before its fate is decided).
// clientAddr is the client's address as seen on the wire.
func (w *Wiretap) Datagram(dir, ord int, clientAddr string, d []byte) []*TapPacket {
	w.mu.Lock()
	defer w.mu.Unlock()
	w.Dgrams[dir]++
	var out []*TapPacket
	off := 0
	total := len(d)
	now := w.nowNS()
	fail := func(p *TapPacket, msg string) {
		p.Err = msg
		w.Fails = append(w.Fails, fmt.Sprintf("%s#%d off=%d %s: %s", map[int]string{0: "c>s", 1: "s>c"}[dir], ord, p.Off, tapTypeName[p.Type], msg))
	}
	for len(d) > 0 {
		p := &TapPacket{Dir: dir, Ord: ord, Off: off, PN: -1, SentNS: now, Type: TapUnknown, LargestAc: -1}
		if len(out) > 0 && d[0] == 0 && bytes.Count(d, []byte{0}) == len(d) {
			out[len(out)-1].Trailing = len(d)
			break
		}
		var k *tapKeys
		var pnOff, end int
		long := d[0]&0x80 != 0
		if long {
			if len(d) < 7 {
				p.Size = len(d)
				fail(p, "long header too short")
				out = append(out, p)
				break
			}
			p.Version = binary.BigEndian.Uint32(d[1:5])
			q := 5
			dl := int(d[q])
			if q+1+dl+1 > len(d) {
				p.Size = len(d)
				fail(p, "truncated connection IDs")
				out = append(out, p)
				break
			}
			p.DCID = append([]byte{}, d[q+1:q+1+dl]...)
			q += 1 + dl
			sl := int(d[q])
			if q+1+sl > len(d) {
				p.Size = len(d)
				fail(p, "truncated connection IDs")
				out = append(out, p)
				break
			}
			p.SCID = append([]byte{}, d[q+1:q+1+sl]...)
			q += 1 + sl
			if p.Version == 0 {
				p.Type, p.Size = TapVN, len(d)
				for ; q+4 <= len(d); q += 4 {
					p.Versions = append(p.Versions, binary.BigEndian.Uint32(d[q:]))
				}
				p.Conn = w.findConn(clientAddr, dir, p.DCID, p.SCID, true)
				out = append(out, p)
				break
			}
			t := (d[0] >> 4) & 3
			if p.Version == tapV2 {
				t = (t + 3) & 3
			}
			c := w.findConn(clientAddr, dir, p.DCID, p.SCID, true)
			if dir == 0 && t == 0 && (c == nil || !c.cids[0][string(p.DCID)]) {
				// a client Initial towards a destination ID no connection knows starts a new connection
				// (a source ID that happens to equal an older connection's proves nothing: short IDs collide)
				c = w.newConn(clientAddr, p.DCID, p.Version)
			}
			// A delayed or duplicated client Initial that arrives after the server has forgotten the original
			// destination CID makes the server start another connection from the same ClientHello. It shares the
			// Initial keys but has its own source CID, numbering and TLS secrets (which collide in the key log):
			// follow it separately as a shadow and never judge its protected packets.
			if sh := w.shadowBySCID[string(p.SCID)]; sh != nil && dir == 1 && t != 3 {
				// a source ID already known to belong to a shadow (with zero-length client IDs the address lookup
				// above returns the newest connection of the address, not the one the shadow was split off from)
				c = sh
			} else if c != nil && dir == 1 && t != 3 {
				if c.ServerSCID == nil {
					c.ServerSCID = append([]byte{}, p.SCID...)
				} else if !bytes.Equal(c.ServerSCID, p.SCID) {
					c = w.shadowOf(c, clientAddr, p.SCID)
				}
			}
			p.Conn = c
			if c != nil && !c.Shadow && dir == 1 && len(p.SCID) > 0 {
				c.cids[0][string(p.SCID)] = true // the client will address the server by this id
			}
			if c != nil && dir == 0 {
				c.cids[1][string(p.SCID)] = true
			}
			switch t {
			case 0:
				p.Type = TapInitial
				tl, n, e := tapVarint(d[q:])
				if e != nil || q+n+int(tl) > len(d) {
					p.Size = len(d)
					fail(p, "bad token length")
					out = append(out, p)
					return w.finish(dir, ord, out)
				}
				q += n
				p.Token = append([]byte{}, d[q:q+int(tl)]...)
				q += int(tl)
				if c != nil {
					if dir == 0 && c.Retried && !bytes.Equal(c.InitDCID, p.DCID) && c.retrySCIDs[string(p.DCID)] {
						c.RetrySCID = append([]byte{}, p.DCID...) // the Retry the client acted on
						c.InitDCID = append([]byte{}, p.DCID...)
						c.initKeys[0], c.initKeys[1] = tapInitialKeys(p.DCID, c.Version == tapV2)
						c.cids[0][string(p.DCID)] = true
					}
					k = c.initKeys[dir]
				}
			case 1:
				p.Type = Tap0RTT
			case 2:
				p.Type = TapHandshake
				if c != nil {
					w.ensureKeys(c)
					k = c.hsKeys[dir]
				}
			case 3:
				p.Type, p.Size = TapRetry, len(d)
				p.Token = append([]byte{}, d[q:max(q, len(d)-16)]...)
				if c != nil {
					p.RetryOK = tapRetryTagOK(c.InitDCID, d, p.Version == tapV2)
					if dir == 1 && p.RetryOK && bytes.Equal(c.InitDCID, c.ODCID) {
						if !c.Retried {
							c.Retried = true
							c.RetryToken = p.Token
							c.RetrySCID = append([]byte{}, p.SCID...)
							c.retrySCIDs = map[string]bool{}
						}
						c.retrySCIDs[string(p.SCID)] = true
					}
				}
				out = append(out, p)
				return w.finish(dir, ord, out)
			}
			l, n, e := tapVarint(d[q:])
			if e != nil || q+n+int(l) > len(d) {
				p.Size = len(d)
				fail(p, "length field exceeds datagram")
				out = append(out, p)
				return w.finish(dir, ord, out)
			}
			q += n
			pnOff, end = q, q+int(l)
			p.HdrLen = pnOff
		} else {
			p.Type = Tap1RTT
			end = len(d)
		}
		p.Size = end
		if p.Type == Tap0RTT {
			// early secret is not in the key log of this TLS stack: header-only tracking
			p.Err = "0-RTT payload not observable"
			if p.Conn != nil {
				p.Conn.saw0RTT = true
			}
			out = append(out, p)
			d = d[end:]
			off += end
			continue
		}
		opened := false
		if long {
			if p.Conn == nil {
				fail(p, "long-header packet for an unknown connection")
			} else if k == nil && p.Conn.Shadow {
				p.Err = "shadow connection: secrets not observable"
			} else if k == nil {
				fail(p, "no keys for this packet type yet")
			} else {
				sp := p.Space()
				pn, pl, fb, pt, ok := tapTryOpen(k, d[:end], pnOff, p.Conn.largest[dir][sp], true)
				if !ok && p.Type != Tap0RTT {
					// with zero-length connection IDs several connections of one address look alike: try the others
					for _, oc := range w.byAddr[clientAddr] {
						if oc == p.Conn {
							continue
						}
						ok2 := false
						var k2 *tapKeys
						if p.Type == TapInitial {
							k2 = oc.initKeys[dir]
						} else {
							w.ensureKeys(oc)
							k2 = oc.hsKeys[dir]
						}
						if pn, pl, fb, pt, ok2 = tapTryOpen(k2, d[:end], pnOff, oc.largest[dir][sp], true); ok2 {
							if dir == 1 && !oc.Shadow && oc.ServerSCID != nil && len(p.SCID) > 0 && !bytes.Equal(oc.ServerSCID, p.SCID) {
								oc = w.shadowOf(oc, clientAddr, p.SCID) // the keys are oc's, the source ID is not: a shadow of oc
							}
							p.Conn, ok = oc, true
							break
						}
					}
				}
				if ok {
					opened = true
					p.PN, p.PNLen = pn, pl
					_ = fb
					w.accept(p, pt)
				} else {
					fail(p, "AEAD open failed")
				}
			}
		} else if n := len(out); n > 0 && out[n-1].Conn != nil && out[n-1].Conn.Shadow {
			// coalesced behind a packet of a shadow connection
			p.Conn, p.Err = out[n-1].Conn, "shadow connection: secrets not observable"
		} else {
			// short header: find the connection by DCID prefix (or by address for zero-length IDs), confirm by AEAD
			cands := w.byAddr[clientAddr]
			for i := len(cands) - 1; i >= 0 && !opened; i-- {
				c := cands[i]
				w.ensureKeys(c)
				if len(c.appKeys[dir]) == 0 {
					continue
				}
				lens := map[int]bool{}
				for id := range c.cids[dir] {
					if len(d) > len(id) && string(d[1:1+len(id)]) == id {
						lens[len(id)] = true
					}
				}
				if len(c.cids[dir]) == 0 || c.cids[dir][""] {
					lens[0] = true
				}
				var ls []int
				for l := range lens {
					ls = append(ls, l)
				}
				sort.Sort(sort.Reverse(sort.IntSlice(ls)))
				for _, cl := range ls {
					gens := c.appKeys[dir]
					// try the current generation, the previous one, and the next one (key update)
					try := []int{c.phase[dir]}
					if c.phase[dir] > 0 {
						try = append(try, c.phase[dir]-1)
					}
					try = append(try, c.phase[dir]+1)
					for _, g := range try {
						for len(gens) <= g {
							gens = append(gens, gens[len(gens)-1].next())
						}
						pn, pl, fb, pt, ok := tapTryOpen(gens[g], d[:end], 1+cl, c.largest[dir][2], false)
						if ok {
							c.appKeys[dir] = gens
							if g > c.phase[dir] {
								c.phase[dir] = g
							}
							opened = true
							p.Conn, p.PN, p.PNLen = c, pn, pl
							p.KeyPhase = int(fb>>2) & 1
							p.DCID = append([]byte{}, d[1:1+cl]...)
							p.HdrLen = 1 + cl
							if p.KeyPhase != g&1 {
								fail(p, "key phase bit does not match the key generation that opens the packet")
							}
							w.accept(p, pt)
							break
						}
					}
					if opened {
						break
					}
				}
			}
			if !opened {
				p.Type = TapUnknown // stateless reset or garbage: classified by the oracles
				// a shadow server connection (see above) also sends 1-RTT packets; its secrets collide in the key log
				if dir == 1 {
					for _, c := range cands {
						for _, sh := range c.shadows {
							p.Conn, p.Err, p.Type = sh, "shadow connection: secrets not observable", Tap1RTT
						}
					}
				}
				if p.Conn == nil && len(d) >= 21 {
					tok := string(d[len(d)-16:])
					for _, c := range cands {
						if c.resetTok[dir][tok] {
							p.Reset, p.Conn = true, c
						}
					}
				}
			}
		}
		if p.Conn != nil && p.Conn.Shadow && p.Type == TapUnknown {
			p.Type = Tap1RTT
		}
		p.Opened = opened
		out = append(out, p)
		d = d[end:]
		off += end
	}
	_ = total
	return w.finish(dir, ord, out)
}

func (w *Wiretap) finish(dir, ord int, out []*TapPacket) []*TapPacket {
	w.pending[dir][ord] = out
	w.All = append(w.All, out...)
	return out
}

// accept records an opened packet and updates per-connection state.
func (w *Wiretap) accept(p *TapPacket, pt []byte) {
	c := p.Conn
	dir, sp := p.Dir, p.Space()
	fs, err := tapParseFrames(pt)
	p.Frames = fs
	if err != nil {
		p.Err = "frame parse: " + err.Error()
		w.Fails = append(w.Fails, p.String())
	}
	if len(pt) == 0 {
		p.Err = "empty payload"
		w.Fails = append(w.Fails, p.String())
	}
	p.LargestAc = c.ackedTo[dir][sp]
	ph := KHashS(string(pt))
	if old, seen := c.seenPN[dir][sp][p.PN]; seen {
		if old != ph {
			p.Err = "packet number reused"
		} else {
			p.Repeat = true
		}
	}
	c.seenPN[dir][sp][p.PN] = ph
	if p.PN > c.largest[dir][sp] {
		c.largest[dir][sp] = p.PN
	}
	if p.Type == TapHandshake && c.FirstHS[dir] < 0 {
		c.FirstHS[dir] = len(c.Packets)
	}
	c.Packets = append(c.Packets, p)
	for i := range fs {
		f := &fs[i]
		switch f.Name {
		case "CRYPTO":
			c.Crypto[dir][sp].add(f.Offset, f.Data)
		case "NEW_CONNECTION_ID":
			c.cids[1-dir][string(f.CID)] = true
			c.resetTok[dir][string(f.Token)] = true
		case "CONNECTION_CLOSE", "CONNECTION_CLOSE_APP":
			c.Closed[dir] = true
		}
	}
	if dir == 0 && sp == 0 && c.CH == nil {
		if pre := c.Crypto[0][0].prefix(); len(pre) >= 4 && pre[0] == 1 {
			n := int(pre[1])<<16 | int(pre[2])<<8 | int(pre[3])
			if len(pre) >= 4+n {
				c.chLen = 4 + n
				c.CH, _ = tapParseClientHello(pre[:4+n])
			}
		}
	}
	if dir == 1 && sp == 1 && !c.srvTPDone {
		// EncryptedExtensions is the first message of the server's Handshake flight
		if pre := c.Crypto[1][1].prefix(); len(pre) >= 4 && pre[0] == 8 {
			n := int(pre[1])<<16 | int(pre[2])<<8 | int(pre[3])
			if len(pre) >= 4+n {
				c.srvTPDone = true
				body := pre[4 : 4+n]
				if len(body) >= 2 {
					exts := body[2:]
					for len(exts) >= 4 {
						et := binary.BigEndian.Uint16(exts)
						el := int(binary.BigEndian.Uint16(exts[2:]))
						if 4+el > len(exts) {
							break
						}
						if et == 0x39 {
							c.SrvTP, _ = tapParseTPs(exts[4 : 4+el])
							if tp, ok := tapTP(c.SrvTP, 0x02); ok {
								c.resetTok[1][string(tp.Val)] = true
							}
						}
						exts = exts[4+el:]
					}
				}
			}
		}
	}
}

// Delivered is called by the router when a datagram reaches its destination undamaged.
func (w *Wiretap) Delivered(dir, ord int, state []int8) {
	w.mu.Lock()
	defer w.mu.Unlock()
	for i, p := range w.pending[dir][ord] {
		if !p.Opened || p.Conn == nil || (i < len(state) && state[i] != 0) {
			continue
		}
		for i := range p.Frames {
			if f := &p.Frames[i]; f.Name == "ACK" && len(f.Ranges) > 0 {
				sp := p.Space()
				if l := int64(f.Ranges[0][1]); l > p.Conn.ackedTo[1-dir][sp] {
					p.Conn.ackedTo[1-dir][sp] = l
				}
			}
		}
	}
}

// ---------------------------------------------------------------- TLS bits

type TapExt struct {
	Type uint16
	Body []byte
}

type TapTP struct {
	ID  uint64
	Val []byte
}

func (t TapTP) Uint() (uint64, bool) {
	v, n, err := tapVarint(t.Val)
	return v, err == nil && n == len(t.Val)
}

type TapClientHello struct {
	Raw         []byte
	Version     uint16
	Random      []byte
	SessionID   []byte
	Suites      []uint16
	Compress    []byte
	Exts        []TapExt
	TPs         []TapTP
	HasTP       bool
	TPCodepoint uint16
}

func tapParseClientHello(b []byte) (*TapClientHello, error) {
	ch := &TapClientHello{Raw: b}
	if len(b) < 4+2+32+1 || b[0] != 1 {
		return nil, errors.New("not a ClientHello")
	}
	p := b[4:]
	ch.Version = binary.BigEndian.Uint16(p)
	ch.Random = p[2:34]
	p = p[34:]
	sl := int(p[0])
	if len(p) < 1+sl+2 {
		return nil, errors.New("short")
	}
	ch.SessionID = p[1 : 1+sl]
	p = p[1+sl:]
	cl := int(binary.BigEndian.Uint16(p))
	if len(p) < 2+cl+1 {
		return nil, errors.New("short")
	}
	for i := 0; i+1 < cl; i += 2 {
		ch.Suites = append(ch.Suites, binary.BigEndian.Uint16(p[2+i:]))
	}
	p = p[2+cl:]
	ml := int(p[0])
	if len(p) < 1+ml {
		return nil, errors.New("short")
	}
	ch.Compress = p[1 : 1+ml]
	p = p[1+ml:]
	if len(p) == 0 {
		return ch, nil
	}
	if len(p) < 2 {
		return nil, errors.New("short")
	}
	el := int(binary.BigEndian.Uint16(p))
	p = p[2:]
	if len(p) < el {
		return nil, errors.New("short extensions")
	}
	p = p[:el]
	for len(p) >= 4 {
		t := binary.BigEndian.Uint16(p)
		l := int(binary.BigEndian.Uint16(p[2:]))
		if 4+l > len(p) {
			return nil, errors.New("short extension")
		}
		body := p[4 : 4+l]
		ch.Exts = append(ch.Exts, TapExt{t, body})
		if t == 0x39 || t == 0xffa5 {
			ch.HasTP, ch.TPCodepoint = true, t
			ch.TPs, _ = tapParseTPs(body)
		}
		p = p[4+l:]
	}
	return ch, nil
}

func tapParseTPs(b []byte) ([]TapTP, error) {
	var out []TapTP
	for len(b) > 0 {
		id, n, err := tapVarint(b)
		if err != nil {
			return out, err
		}
		b = b[n:]
		l, n, err := tapVarint(b)
		if err != nil || uint64(len(b)-n) < l {
			return out, errors.New("short transport parameter")
		}
		b = b[n:]
		out = append(out, TapTP{id, append([]byte{}, b[:l]...)})
		b = b[l:]
	}
	return out, nil
}

func tapTP(tps []TapTP, id uint64) (TapTP, bool) {
	for _, t := range tps {
		if t.ID == id {
			return t, true
		}
	}
	return TapTP{}, false
}

func tapTPUint(tps []TapTP, id uint64, def uint64) uint64 {
	if t, ok := tapTP(tps, id); ok {
		if v, ok := t.Uint(); ok {
			return v
		}
	}
	return def
}
