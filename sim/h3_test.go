//go:build sim_h3 || simall

package verifsim

// W:h3 - property C18 (HTTP/3 carries requests and responses end to end without loss or
// alteration). Real http3.Server on the world's server transport, real http3.Transport (or a
// scripted raw peer writing hand-made HTTP/3 bytes on real QUIC streams) on the client
// transport. Oracle = reference model of what the handler and the client must observe.

import (
	"bytes"
	"compress/gzip"
	"context"
	"errors"
	"fmt"
	"io"
	"log/slog"
	"net"
	"net/http"
	"net/http/httptrace"
	"net/textproto"
	"runtime"
	"sort"
	"strconv"
	"strings"
	"sync"
	"testing"
	"time"

	"github.com/quic-go/qpack"
	quic "github.com/refraction-networking/uquic"
	"github.com/refraction-networking/uquic/http3"
	"github.com/refraction-networking/uquic/quicvarint"
	"github.com/refraction-networking/uquic/testutils/simnet"
	tls "github.com/refraction-networking/utls"
)

// ---------------------------------------------------------------- scenario

type H3KV struct {
	K   string `json:"k"`
	V   string `json:"v"`
	Pad int    `json:"pad,omitempty"` // V is extended by this many generated characters
}

type H3Early struct {
	Code int    `json:"code"`
	Hdr  []H3KV `json:"hdr,omitempty"`
}

// H3Handler: what the handler does for one request id.
type H3Handler struct {
	Status    int       `json:"status"`
	Implicit  bool      `json:"implicit,omitempty"` // no WriteHeader call (implicit 200)
	Early     []H3Early `json:"early,omitempty"`
	DropEarly bool      `json:"drop_early,omitempty"` // delete the fields of the informational responses before the final one
	Hdr       []H3KV    `json:"hdr,omitempty"`
	RawKeys   bool      `json:"rawkeys,omitempty"`
	Date      int       `json:"date,omitempty"`  // 0 left to the server, 1 suppressed (nil), 2 custom
	CType     int       `json:"ctype,omitempty"` // 0 explicit, 1 unset (sniffing), 2 suppressed (nil)
	Body      int       `json:"body"`
	WChunk    int64     `json:"wchunk,omitempty"`
	Flush     int64     `json:"flush,omitempty"` // 0 never; else pattern deciding after which writes Flush is called
	FlushHdr  bool      `json:"flush_hdr,omitempty"`
	GapUS     int64     `json:"gap_us,omitempty"` // sleep after every 4th write
	CL        int       `json:"cl,omitempty"`     // 0 not set, 1 right, 2 declared larger than written, 3 declared smaller than written
	CLDelta   int       `json:"cl_delta,omitempty"`
	Trl       []H3KV    `json:"trl,omitempty"`  // declared trailers (Trailer header); an empty V with Pad<0 = declared but never set
	UTrl      []H3KV    `json:"utrl,omitempty"` // undeclared trailers (http.TrailerPrefix)
	TrlJoin   bool      `json:"trl_join,omitempty"`
	BadTrl    int       `json:"bad_trl,omitempty"` // a forbidden trailer name (must be ignored): 1 set with http.TrailerPrefix, 2 declared in the Trailer header
	Gzip      bool      `json:"gzip,omitempty"`    // compress when the request accepts gzip
	Read      int       `json:"read,omitempty"`    // 0 whole body first, 1 never, 2 first ReadN bytes, 3 after the response was written
	ReadN     int       `json:"read_n,omitempty"`
	RBuf      int64     `json:"rbuf,omitempty"`
	Panic     int       `json:"panic,omitempty"` // 0 no, 1 before any write, 2 after write PanicAt, 3 http.ErrAbortHandler, 4 at the very end
	PanicAt   int       `json:"panic_at,omitempty"`
	SlowUS    int64     `json:"slow_us,omitempty"`
	WaitCtx   bool      `json:"wait_ctx,omitempty"` // before returning, wait until the request context is done (bounded)
	GoOn      bool      `json:"go_on,omitempty"`    // keep writing after a write error
}

type H3Req struct {
	Method   string    `json:"m"`
	Path     string    `json:"p"` // appended to /r/<index>
	Query    string    `json:"q,omitempty"`
	Host     string    `json:"host,omitempty"`
	Hdr      []H3KV    `json:"hdr,omitempty"`
	RawKeys  bool      `json:"rawkeys,omitempty"`
	Body     int       `json:"body"` // -1 = nil Body
	NoBody   bool      `json:"nobody,omitempty"`
	BChunk   int64     `json:"bchunk,omitempty"`
	BGapUS   int64     `json:"bgap_us,omitempty"`
	CL       int       `json:"cl,omitempty"` // 0 unknown, 1 right, 2 declared larger than the body, 3 declared smaller than the body
	CLDelta  int       `json:"cl_delta,omitempty"`
	Trl      []H3KV    `json:"trl,omitempty"`
	TrlEarly bool      `json:"trl_early,omitempty"` // trailer values present before the body is read
	AtMS     int64     `json:"at,omitempty"`
	Batch    int       `json:"batch,omitempty"`
	CancelOn int       `json:"cancel_on,omitempty"` // 0 never, 1 after CancelUS, 2 when the response header arrived, 3 after CancelN body bytes
	CancelUS int64     `json:"cancel_us,omitempty"`
	CancelN  int       `json:"cancel_n,omitempty"`
	RBuf     int64     `json:"rbuf,omitempty"`
	Abandon  int       `json:"abandon,omitempty"` // 0 no; n: close the body after n-1 bytes
	H        H3Handler `json:"h"`
}

type H3Opts struct {
	SrvLogger  bool   `json:"srv_logger,omitempty"`
	CliLogger  bool   `json:"cli_logger,omitempty"`
	ConnCtx    bool   `json:"conn_ctx,omitempty"`
	SrvDgram   bool   `json:"srv_dgram,omitempty"`
	CliDgram   bool   `json:"cli_dgram,omitempty"`
	MaxHdr     int    `json:"max_hdr,omitempty"`
	MaxRespHdr int    `json:"max_resp_hdr,omitempty"`
	NoGzip     bool   `json:"no_gzip,omitempty"` // Transport.DisableCompression
	AddSet     bool   `json:"add_settings,omitempty"`
	IdleMS     int64  `json:"idle_ms,omitempty"` // Server.IdleTimeout
	Serve      int    `json:"serve,omitempty"`   // 0 ServeListener, 1 ServeQUICConn per accepted connection
	Early      bool   `json:"early,omitempty"`   // ListenEarly / DialEarly
	Conc       int    `json:"conc"`
	BatchGapMS int64  `json:"batch_gap_ms,omitempty"`
	Kill       string `json:"kill,omitempty"` // "", h3t-close, ctr-close, srv-close, srv-shutdown
	KillAtMS   int64  `json:"kill_at,omitempty"`
}

type H3Scenario struct {
	Seed    uint64        `json:"seed"`
	Cfg     WConfig       `json:"cfg"`
	Net     WNet          `json:"net"`
	Faults  []WFault      `json:"faults"`
	Faulty  bool          `json:"faulty"` // scenario class: network faults enabled (failures allowed, wrong data never)
	Opt     H3Opts        `json:"opt"`
	Raw     bool          `json:"raw,omitempty"`     // raw peer class: a scripted client executes Streams against http3.Server
	RawSrv  bool          `json:"raw_srv,omitempty"` // mirror image: a scripted server answers http3.Transport with Streams
	Reqs    []H3Req       `json:"reqs,omitempty"`
	Streams []H3RawStream `json:"streams,omitempty"`
	// no qlog tracer on either endpoint (the default of every application): whatever the code records for a trace must
	// not be needed - or dereferenced - when nobody records
	NoQlog bool `json:"no_qlog,omitempty"`
}

func (s *H3Scenario) KSeed() uint64 { return s.Seed }

func init() {
	KRegister(&KSim{Name: "h3", New: func() KScenario { return &H3Scenario{} }, Gen: genH3, Run: runH3})
}

// ---------------------------------------------------------------- generator

const h3Filler = "abcdefghijklmnopqrstuvwxyzABCDEFGHIJKLMNOPQRSTUVWXYZ0123456789 -_.,;=/"

func h3Val(kv H3KV) string {
	if kv.Pad <= 0 {
		return kv.V
	}
	b := make([]byte, kv.Pad)
	r := NewKRng(KMix(KHashS(kv.K), uint64(kv.Pad), KHashS(kv.V)))
	for i := range b {
		b[i] = h3Filler[r.N(len(h3Filler))]
	}
	if b[len(b)-1] == ' ' {
		b[len(b)-1] = 'x'
	}
	if kv.V == "" && b[0] == ' ' {
		b[0] = 'y'
	}
	return kv.V + string(b)
}

func h3Chunk(pattern int64, k int) int {
	r := NewKRng(KMix(uint64(pattern), uint64(k)))
	return r.Pick(1, 7, 100, 1000, 1200, 4096, 8192, 16384, 70000)
}

var h3Sizes = []int{0, 0, 1, 100, 1199, 1200, 1201, 4095, 4096, 4097, 8192, 16384, 65536, 200000}

func h3GenSize(r *KRng, tier string, maxBody int) int {
	s := h3Sizes[r.N(len(h3Sizes))]
	if r.P(0.15) {
		s = r.N(20000)
	}
	if (tier == "thorough" && r.P(0.05)) || r.P(0.01) {
		s = 1 << 20
	}
	return min(s, maxBody)
}

func h3GenValue(r *KRng, small bool) (string, int) {
	vals := []string{"v", "a b\tc", "x=1; y=2", "\"quoted, value\"", "", "caf\xc3\xa9", "\xfflatin\xe9", "0", "*/*;q=0.8", "W/\"etag-1\""}
	v := vals[r.N(len(vals))]
	pad := 0
	if r.P(0.25) {
		pad = r.Pick(1, 30, 200, 1000, 5000)
		if !small && r.P(0.2) {
			pad = r.Pick(16000, 60000, 100000)
		}
		if small {
			pad = min(pad, 200)
		}
	}
	if strings.HasSuffix(v, " ") || strings.HasSuffix(v, "\t") {
		v += "."
	}
	return v, pad
}

func h3GenHdr(r *KRng, n int, prefix string, small bool) []H3KV {
	var out []H3KV
	for i := 0; i < n; i++ {
		names := []string{"X-Sim-%d", "x-lower-%d", "X-MiXeD-cAsE-%d", "x_Under.score~%d", "Accept-Language", "Cache-Control", "X-Repeated", "X-Repeated", "If-None-Match", "Authorization"}
		nm := names[r.N(len(names))]
		if strings.Contains(nm, "%d") {
			nm = fmt.Sprintf(nm, i)
		}
		nm = prefix + nm
		v, pad := h3GenValue(r, small)
		out = append(out, H3KV{K: nm, V: v, Pad: pad})
		if r.P(0.3) { // repeated field
			v2, pad2 := h3GenValue(r, small)
			out = append(out, H3KV{K: nm, V: v2, Pad: pad2})
		}
	}
	return out
}

func h3GenTrl(r *KRng, n int, tag string) []H3KV {
	var out []H3KV
	for i := 0; i < n; i++ {
		nm := fmt.Sprintf([]string{"X-%s-Trl-%d", "x-%s-sum-%d", "Grpc-%s-Status-%d"}[r.N(3)], tag, i)
		v, pad := h3GenValue(r, true)
		out = append(out, H3KV{K: nm, V: v, Pad: pad})
		if r.P(0.3) {
			out = append(out, H3KV{K: nm, V: "second", Pad: r.Pick(0, 0, 50)})
		}
	}
	return out
}

func h3GenNet(r *KRng, n *WNet, faulty bool) {
	n.LatencyUS = int64(r.Pick(200, 2000, 5000, 5000, 20000, 80000))
	n.JitterUS = int64(r.Pick(0, 100, 1000, 3000, 10000))
	if r.P(0.3) {
		n.Burst = r.Pick(2, 3, 8, 16)
	}
	if !faulty {
		return
	}
	if r.P(0.7) {
		n.Drop = r.F() * 0.05
	}
	if r.P(0.4) {
		n.Dup = r.F() * 0.03
	}
	if r.P(0.5) {
		n.Delay = r.F() * 0.05
	}
	if r.P(0.3) {
		n.Corrupt = r.F() * 0.01
	}
	if r.P(0.2) {
		n.Trunc = r.F() * 0.01
	}
	if n.Drop+n.Dup+n.Delay+n.Corrupt+n.Trunc == 0 {
		n.Drop = 0.02
	}
	n.FaultUntilMS = int64(r.Pick(500, 2000, 5000))
}

func genH3(seed uint64, tier string) KScenario {
	r := NewKRng(seed)
	sc := &H3Scenario{Seed: seed, NoQlog: KMix(seed, 0x71a6)%2 == 0}
	genCommonCfg(r, &sc.Cfg)
	sc.Cfg.IdleMS = [2]int64{int64(r.Pick(8000, 15000, 30000)), int64(r.Pick(8000, 15000, 30000))}
	sc.Faulty = r.P(0.35)
	h3GenNet(r, &sc.Net, sc.Faulty)
	o := &sc.Opt
	o.SrvLogger, o.CliLogger, o.ConnCtx = r.P(0.5), r.P(0.5), r.P(0.4)
	o.SrvDgram, o.CliDgram = r.P(0.3), r.P(0.3)
	if o.SrvDgram {
		sc.Cfg.Datagrams[1] = true
	}
	if o.CliDgram {
		sc.Cfg.Datagrams[0] = true
	}
	if r.P(0.2) {
		o.MaxHdr = r.Pick(2048, 4096, 16384)
	}
	if r.P(0.15) {
		o.MaxRespHdr = r.Pick(2048, 8192)
	}
	o.NoGzip = r.P(0.3)
	o.AddSet = r.P(0.3)
	if r.P(0.2) {
		o.IdleMS = int64(r.Pick(700, 5000))
	}
	o.Serve = r.N(2)
	o.Early = r.P(0.5)
	maxBody := 1 << 20
	if w := sc.Cfg.Win[0]; w > 0 {
		maxBody = int(min(w, sc.Cfg.Win[2])) * 60
	}
	switch c := r.N(100); {
	case c < 22:
		sc.Raw = true
		o.IdleMS = 0 // the raw peer's waiting periods would run into it
		genH3Raw(r, sc, tier)
		h3ClampRaw(sc, maxBody/6)
		return sc
	case c < 32:
		sc.RawSrv = true
		genH3RawSrv(r, sc, tier)
		h3ClampRaw(sc, maxBody/6)
		return sc
	}
	n := r.Pick(1, 1, 2, 3, 4, 6, 10)
	if tier == "thorough" && r.P(0.2) {
		n = r.Range(10, 30)
	}
	o.Conc = 1 + r.N(n)
	nb := 1
	if r.P(0.3) {
		nb = 1 + r.N(3)
		o.BatchGapMS = int64(r.Pick(0, 5, 300, 1500))
	}
	for i := 0; i < n; i++ {
		smallHdr := (o.MaxHdr > 0 || o.MaxRespHdr > 0) && r.P(0.85)
		sc.Reqs = append(sc.Reqs, h3GenReq(r, tier, maxBody, n, nb, smallHdr))
	}
	if r.P(0.12) {
		o.Kill = []string{"h3t-close", "ctr-close", "srv-close", "srv-shutdown"}[r.N(4)]
		o.KillAtMS = int64(r.Pick(1, 20, 60, 200, 700))
	}
	return sc
}

func h3GenReq(r *KRng, tier string, maxBody, n, nb int, smallHdr bool) H3Req {
	var q H3Req
	q.Method = []string{"GET", "GET", "GET", "POST", "POST", "PUT", "HEAD", "DELETE", "OPTIONS", "PATCH", "PURGE", "M-SEARCH", "query"}[r.N(13)]
	q.Path = []string{"", "/", "/a/b", "/with%20space/%2Fslash", "/caf%C3%A9", "/a.b-c_d~e", "//double", "/;p=1/x"}[r.N(8)]
	if r.P(0.4) {
		q.Query = []string{"a=1&b=2", "q=a+b%26c", "", "x", "k=%E2%82%AC&k=2", "redirect=https://x.test/?y=1"}[r.N(6)]
	}
	if r.P(0.15) {
		q.Host = []string{"example.test", "example.test:8443", "[::1]:443", "xn--caf-dma.test"}[r.N(4)]
	}
	q.Hdr = h3GenHdr(r, r.Pick(0, 1, 2, 3, 6, 14), "", smallHdr)
	q.RawKeys = r.P(0.3)
	if r.P(0.25) { // cookie crumbs
		for i, k := 0, 1+r.N(3); i < k; i++ {
			q.Hdr = append(q.Hdr, H3KV{K: "Cookie", V: fmt.Sprintf("c%d=v%d", i, r.N(100)) + []string{"", "; extra=1"}[r.N(2)]})
		}
	}
	switch r.N(8) {
	case 0:
		q.Hdr = append(q.Hdr, H3KV{K: "Accept-Encoding", V: "gzip"})
	case 1:
		q.Hdr = append(q.Hdr, H3KV{K: "Accept-Encoding", V: "identity"})
	case 2:
		q.Hdr = append(q.Hdr, H3KV{K: "Range", V: "bytes=0-"})
	}
	switch r.N(6) {
	case 0:
		q.Hdr = append(q.Hdr, H3KV{K: "User-Agent", V: "h3sim/1.0 (verif)"})
	case 1:
		q.Hdr = append(q.Hdr, H3KV{K: "User-Agent", V: ""})
	}
	if r.P(0.1) {
		q.Hdr = append(q.Hdr, H3KV{K: "Te", V: "trailers"})
	}
	if r.P(0.05) {
		q.Hdr = append(q.Hdr, H3KV{K: []string{"Connection", "Keep-Alive", "Proxy-Connection", "Upgrade"}[r.N(4)], V: "keep-alive"})
	}
	q.Body = -1
	hasBody := q.Method != "GET" && q.Method != "HEAD" && q.Method != "DELETE" && q.Method != "OPTIONS"
	if q.Method == "GET" && r.P(0.1) || q.Method == "DELETE" && r.P(0.3) {
		hasBody = true
	}
	if hasBody {
		q.Body = h3GenSize(r, tier, maxBody)
		if n > 4 {
			q.Body = min(q.Body, 65536)
		}
		q.NoBody = q.Body == 0 && r.P(0.5)
		q.BChunk = int64(r.U64() >> 1)
		if r.P(0.15) {
			q.BGapUS = int64(r.Pick(100, 3000, 20000))
			q.Body = min(q.Body, 20000)
		}
		q.CL = r.Pick(0, 1, 1, 1)
		if r.P(0.08) && q.Body >= 2 {
			q.CL = r.Pick(2, 3)
			q.CLDelta = r.Pick(1, 1, 100, 5000)
			if q.CL == 3 {
				q.CLDelta = min(q.CLDelta, q.Body-1)
			}
		}
		if r.P(0.25) && !q.NoBody {
			q.Trl = h3GenTrl(r, 1+r.N(3), "Req")
			q.TrlEarly = r.P(0.3)
		}
	}
	q.AtMS = int64(r.Pick(0, 0, 0, 3, 50, 400))
	q.Batch = r.N(nb)
	q.RBuf = int64(r.U64() >> 1)
	if r.P(0.1) {
		q.CancelOn = 1 + r.N(3)
		q.CancelUS = int64(r.Pick(0, 100, 3000, 30000, 200000))
		q.CancelN = r.Pick(0, 1, 1000, 30000)
	} else if r.P(0.08) {
		q.Abandon = 1 + r.Pick(0, 1, 500, 5000, 100000)
	}
	// handler
	h := &q.H
	h.Status = r.Pick(200, 200, 200, 200, 201, 204, 304, 404, 500, 299, 418, 599)
	h.Implicit = h.Status == 200 && r.P(0.4)
	if r.P(0.15) {
		for i, k := 0, 1+r.N(3); i < k; i++ {
			e := H3Early{Code: r.Pick(103, 103, 102, 199)}
			for j, m := 0, r.N(3); j < m; j++ {
				e.Hdr = append(e.Hdr, H3KV{K: "Link", V: fmt.Sprintf("</style-%d-%d.css>; rel=preload; as=style", i, j)})
			}
			h.Early = append(h.Early, e)
		}
		h.DropEarly = r.P(0.5)
	}
	h.Hdr = h3GenHdr(r, r.Pick(0, 1, 2, 4, 9, 15), "R-", smallHdr)
	h.RawKeys = r.P(0.3)
	if r.P(0.2) {
		for i, k := 0, 1+r.N(3); i < k; i++ {
			h.Hdr = append(h.Hdr, H3KV{K: "Set-Cookie", V: fmt.Sprintf("s%d=%d; Path=/", i, r.N(1000))})
		}
	}
	h.Date = r.Pick(0, 0, 0, 1, 2)
	h.CType = r.Pick(0, 0, 1, 1, 2)
	h.Body = h3GenSize(r, tier, maxBody)
	if n > 4 {
		h.Body = min(h.Body, 65536)
	}
	h.WChunk = int64(r.U64() >> 1)
	if r.P(0.5) {
		h.Flush = int64(r.U64()>>1) | 1
	}
	h.FlushHdr = r.P(0.2)
	if r.P(0.15) {
		h.GapUS = int64(r.Pick(100, 3000, 20000))
	}
	h.CL = r.Pick(0, 0, 1)
	if h.Status == 204 {
		h.CL = 0
	}
	if r.P(0.08) && h.Body >= 2 && h.Status != 204 && h.Status != 304 && q.Method != "HEAD" {
		h.CL = r.Pick(2, 3)
		h.CLDelta = r.Pick(1, 1, 100, 5000)
		if h.CL == 3 {
			h.CLDelta = min(h.CLDelta, h.Body) // may declare 0
		}
	}
	if r.P(0.25) {
		h.Trl = h3GenTrl(r, 1+r.N(3), "Resp")
		h.TrlJoin = r.P(0.4)
		if r.P(0.2) {
			h.Trl = append(h.Trl, H3KV{K: "X-Declared-Never-Set", Pad: -1})
		}
	}
	if r.P(0.15) {
		h.UTrl = h3GenTrl(r, 1+r.N(2), "Und")
	}
	h.BadTrl = r.Pick(0, 0, 0, 0, 0, 0, 0, 0, 0, 0, 0, 0, 0, 0, 0, 0, 0, 0, 0, 0, 0, 0, 1, 2, 2)
	h.Gzip = r.P(0.3) && h.CL < 2
	h.Read = r.Pick(0, 0, 0, 0, 1, 2, 3)
	h.ReadN = r.Pick(0, 1, 1000, 10000)
	h.RBuf = int64(r.U64() >> 1)
	if r.P(0.06) {
		h.Panic = 1 + r.N(4)
		h.PanicAt = r.N(6)
	}
	if r.P(0.15) {
		h.SlowUS = int64(r.Pick(100, 5000, 50000, 400000))
	}
	h.WaitCtx = r.P(0.05) && (q.CancelOn != 0 || q.Abandon != 0)
	h.GoOn = r.P(0.5)
	h3CapKeys(&q)
	return q
}

// h3MaxKeys bounds the number of distinct field names in one header map. (Maps with 8 or more entries iterate in hash
// order, and http3 writes header fields in map order; the simulation build pins the runtime's hash keys, so this is
// replayable - selftest-det covers header maps of 8-20 names.)
const h3MaxKeys = 20

func h3TrimKeys(kvs []H3KV, budget int) []H3KV {
	seen := map[string]bool{}
	var out []H3KV
	for _, kv := range kvs {
		k := strings.ToLower(kv.K)
		if !seen[k] && len(seen) >= budget {
			continue
		}
		seen[k] = true
		out = append(out, kv)
	}
	return out
}

func h3Distinct(kvs []H3KV) int {
	seen := map[string]bool{}
	for _, kv := range kvs {
		seen[strings.ToLower(kv.K)] = true
	}
	return len(seen)
}

func h3CapKeys(q *H3Req) {
	q.Hdr = h3TrimKeys(q.Hdr, h3MaxKeys)
	q.Trl = h3TrimKeys(q.Trl, h3MaxKeys)
	h := &q.H
	fixed := 3 // Date, Content-Type, Content-Length: set by the handler or added by the server
	if h.Gzip {
		fixed++
	}
	for _, e := range h.Early {
		if len(e.Hdr) > 0 {
			fixed++
			break
		}
	}
	if h.BadTrl != 0 {
		fixed++
	}
	h.UTrl = h3TrimKeys(h.UTrl, 3)
	fixed += h3Distinct(h.UTrl)
	if len(h.Trl) > 0 {
		h.Trl = h3TrimKeys(h.Trl, max(1, min(4, h3MaxKeys-fixed-2)))
		fixed += 1 + h3Distinct(h.Trl)
	}
	h.Hdr = h3TrimKeys(h.Hdr, max(0, h3MaxKeys-fixed))
}

// ---------------------------------------------------------------- run state

type h3Verdict struct {
	prio        int
	sig, detail string
}

// one invocation of the handler for a request id
type h3SrvObs struct {
	method, uri, host, proto string
	hdr                      http.Header
	cl                       int64
	bodyN                    int
	bodyErr                  error
	bodyEOF                  bool
	bodyRead                 bool // the handler tried to read to the end
	trl                      http.Header
	writeErr                 error
	errCL, notAllowed        bool
	wrote                    int
	done                     bool
	t0, t1                   int64
}

type h3EarlyObs struct {
	code int
	hdr  http.Header
}

type h3Obs struct {
	mu    sync.Mutex
	calls []*h3SrvObs
	// client side
	started, finished bool
	rtErr             error
	status            int
	hdr               http.Header
	cl                int64
	uncompressed      bool
	early             []h3EarlyObs
	bodyN             int
	bodyErr           error
	bodyEOF           bool
	trl               http.Header
	cancelled         bool // the client cancelled the context before the exchange finished
	abandoned         bool
	uploadErr         bool
	runDead           bool // the run's horizon had passed when RoundTrip returned
	t0, t1            int64
}

type h3Run struct {
	sc     *H3Scenario
	res    *KResult
	w      *World
	nodes  *Nodes
	on     map[string]bool
	runCtx context.Context

	mu       sync.Mutex
	verdicts []h3Verdict
	beyond   []string
	obs      []*h3Obs
	plans    []*h3Plan
	cconns   []*quic.Conn
	sconns   []*quic.Conn
	killed   bool
	h3t      *http3.Transport
	srv      *http3.Server
	hwg      sync.WaitGroup // running handlers
	closing  bool           // the server is being closed: no new connection is handed to it
	raw      *h3RawState
}

// flag records a finding; the most severe one (lowest prio) becomes the verdict of the run.
// 0 wrong data, 1 misdelivery / duplication, 2 silent Content-Length disagreement, 3 wrong or missing protocol error,
// 4 completion / liveness, 5 minor deviation.
// Deviations from RFC 9114 that C18 does not speak about (it names unknown and forbidden frame and stream TYPES, Content-Length
// disagreement and panics): a frame cut off by the end of the stream, reserved HTTP/2 setting identifiers, a closed critical stream.
// Observed and counted, not judged.
var h3BeyondProperty = []string{"truncated by the end of the stream", "SETTINGS with a reserved HTTP/2 setting identifier", "control stream closed"}

func (x *h3Run) flag(prio int, sig, f string, a ...any) {
	x.mu.Lock()
	defer x.mu.Unlock()
	for _, b := range h3BeyondProperty {
		if strings.Contains(sig, b) {
			x.beyond = append(x.beyond, b)
			return
		}
	}
	if len(x.verdicts) < 64 {
		x.verdicts = append(x.verdicts, h3Verdict{prio, sig, fmt.Sprintf(f, a...)})
	}
}

func (x *h3Run) verdict() {
	x.mu.Lock()
	defer x.mu.Unlock()
	for _, b := range x.beyond {
		x.res.Probe("rfc9114-deviation-outside-the-property: " + b)
	}
	x.beyond = nil
	sort.SliceStable(x.verdicts, func(i, j int) bool { return x.verdicts[i].prio < x.verdicts[j].prio })
	if x.res.Blocked != "" {
		var keep []h3Verdict
		for _, v := range x.verdicts {
			if v.prio <= 1 {
				keep = append(keep, v)
			}
		}
		x.verdicts = keep
		if len(keep) > 0 {
			x.res.Blocked = ""
		}
	}
	for k, v := range x.verdicts {
		if k == 0 {
			if x.on["C18"] || x.on["all"] {
				x.res.Fail(v.sig, "%s", v.detail)
			} else {
				x.res.Note("C18: " + v.sig)
			}
		} else if k < 4 {
			x.res.Note("also: " + v.sig)
		}
		x.res.Logf("verdict[%d] prio %d: %s -- %s", k, v.prio, v.sig, v.detail)
	}
}

// clean: nothing the simulator or the scenario does may legitimately make an exchange fail
func (x *h3Run) clean() bool { return !x.sc.Faulty && x.sc.Opt.Kill == "" }

func h3ErrClass(err error) string {
	if err == nil {
		return "nil"
	}
	var he *http3.Error
	var se *quic.StreamError
	var ae *quic.ApplicationError
	var te *quic.TransportError
	var ie *quic.IdleTimeoutError
	switch {
	case errors.Is(err, context.Canceled):
		return "context canceled"
	case errors.Is(err, context.DeadlineExceeded):
		return "context deadline exceeded"
	case errors.As(err, &he):
		return fmt.Sprintf("http3 error %s remote=%v", h3ErrName(uint64(he.ErrorCode)), he.Remote)
	case errors.As(err, &se):
		return fmt.Sprintf("stream error %s remote=%v", h3ErrName(uint64(se.ErrorCode)), se.Remote)
	case errors.As(err, &ae):
		return fmt.Sprintf("application error %s remote=%v", h3ErrName(uint64(ae.ErrorCode)), ae.Remote)
	case errors.As(err, &te):
		return "transport error " + wErrName(uint64(te.ErrorCode))
	case errors.As(err, &ie):
		return "idle timeout"
	case err == io.EOF:
		return "EOF"
	case err == io.ErrUnexpectedEOF:
		return "unexpected EOF"
	}
	s := stripNums(err.Error())
	if len(s) > 90 {
		s = s[:90]
	}
	return s
}

func h3ErrName(code uint64) string {
	names := map[uint64]string{0x100: "H3_NO_ERROR", 0x101: "H3_GENERAL_PROTOCOL_ERROR", 0x102: "H3_INTERNAL_ERROR", 0x103: "H3_STREAM_CREATION_ERROR",
		0x104: "H3_CLOSED_CRITICAL_STREAM", 0x105: "H3_FRAME_UNEXPECTED", 0x106: "H3_FRAME_ERROR", 0x107: "H3_EXCESSIVE_LOAD", 0x108: "H3_ID_ERROR",
		0x109: "H3_SETTINGS_ERROR", 0x10a: "H3_MISSING_SETTINGS", 0x10b: "H3_REQUEST_REJECTED", 0x10c: "H3_REQUEST_CANCELLED", 0x10d: "H3_REQUEST_INCOMPLETE",
		0x10e: "H3_MESSAGE_ERROR", 0x10f: "H3_CONNECT_ERROR", 0x110: "H3_VERSION_FALLBACK", 0x200: "QPACK_DECOMPRESSION_FAILED", 0x201: "QPACK_ENCODER_STREAM_ERROR",
		0x202: "QPACK_DECODER_STREAM_ERROR", 0: "code-0"}
	if n, ok := names[code]; ok {
		return n
	}
	return fmt.Sprintf("code-%#x", code)
}

// ---------------------------------------------------------------- model: what the handler writes

type h3Plan struct {
	autoGzip  bool // the transport asks for gzip on its own and decodes transparently
	gzipped   bool // the handler compresses
	plainKey  uint64
	plainLen  int
	wire      []byte // bytes the handler passes to Write (nil: generated from plainKey on the fly)
	wireLen   int
	declCL    int64 // -1 none
	bodyOK    bool  // status allows a body
	head      bool
	final     http.Header   // header map as the handler leaves it before the final WriteHeader
	early     []http.Header // snapshot at every informational WriteHeader
	trailers  http.Header   // trailer fields with values (canonical names)
	reqHdr    http.Header   // request header fields the handler must see
	reqAnyUA  bool
	reqTrl    http.Header
	reqURI    string
	reqHost   string
	reqSent   int   // request body bytes the client puts on the stream at most
	reqDeclCL int64 // > 0: declared
	hdrBig    int   // 0 request fits MaxHeaderBytes, 1 unclear, 2 clearly too large
	respBig   int
}

func h3Canon(k string) string { return textproto.CanonicalMIMEHeaderKey(k) }

func h3SetHdr(hd http.Header, kvs []H3KV, raw bool) {
	for _, kv := range kvs {
		if raw {
			hd[kv.K] = append(hd[kv.K], h3Val(kv))
		} else {
			hd.Add(kv.K, h3Val(kv))
		}
	}
}

func h3CanonHeader(in http.Header) http.Header {
	out := http.Header{}
	keys := make([]string, 0, len(in))
	for k := range in {
		keys = append(keys, k)
	}
	sort.Strings(keys)
	for _, k := range keys {
		out[h3Canon(k)] = append(out[h3Canon(k)], in[k]...)
	}
	return out
}

// h3ApplyEarly / h3ApplyFinal are executed by the handler on the real header map and by the model on its own map.
func h3ApplyEarly(hd http.Header, e *H3Early) { h3SetHdr(hd, e.Hdr, false) }

func h3ApplyFinal(hd http.Header, h *H3Handler, p *h3Plan) {
	if h.DropEarly {
		for i := range h.Early {
			for _, kv := range h.Early[i].Hdr {
				hd.Del(kv.K)
			}
		}
	}
	h3SetHdr(hd, h.Hdr, h.RawKeys)
	switch h.Date {
	case 1:
		hd["Date"] = nil
	case 2:
		hd.Set("Date", "Tue, 01 Jan 1980 00:00:00 GMT")
	}
	switch h.CType {
	case 0:
		hd.Set("Content-Type", "text/x-sim; charset=utf-8")
	case 2:
		hd["Content-Type"] = nil
	}
	if p.gzipped {
		hd.Set("Content-Encoding", "gzip")
	}
	if p.declCL >= 0 {
		hd.Set("Content-Length", strconv.FormatInt(p.declCL, 10))
	}
	var names []string
	seen := map[string]bool{}
	for _, kv := range h.Trl {
		if !seen[h3Canon(kv.K)] {
			seen[h3Canon(kv.K)] = true
			names = append(names, kv.K)
		}
	}
	if h.BadTrl == 2 {
		names = append(names, "Authorization")
	}
	if h.TrlJoin && len(names) > 0 {
		hd.Set("Trailer", strings.Join(names, ", "))
	} else {
		for _, n := range names {
			hd.Add("Trailer", n)
		}
	}
}

func h3IsSpecialReqKey(k string) bool {
	switch strings.ToLower(k) {
	case "accept-encoding", "range", "user-agent", "cookie", "connection", "keep-alive", "proxy-connection", "upgrade", "te":
		return true
	}
	return false
}

func (x *h3Run) reqURI(i int) string {
	q := &x.sc.Reqs[i]
	u := fmt.Sprintf("/r/%d%s", i, q.Path)
	if q.Query != "" {
		u += "?" + q.Query
	}
	return u
}

func h3FieldSize(hd http.Header) int {
	n := 0
	for k, vv := range hd {
		for _, v := range vv {
			n += len(k) + len(v) + 32
		}
	}
	return n
}

func h3BigClass(size, limit int) int {
	if limit <= 0 {
		limit = 1 << 20
	}
	switch {
	case size < limit/2:
		return 0
	case size > limit+1000:
		return 2
	}
	return 1
}

func (x *h3Run) makePlan(i int) *h3Plan {
	q := &x.sc.Reqs[i]
	h := &q.H
	p := &h3Plan{plainKey: KMix(x.sc.Seed, 0xb0d2, uint64(i)), plainLen: h.Body, declCL: -1}
	// ---- request as the handler must see it
	want := http.Header{}
	for _, kv := range q.Hdr {
		switch strings.ToLower(kv.K) {
		case "host", "content-length", "connection", "proxy-connection", "transfer-encoding", "upgrade", "keep-alive":
			continue
		}
		want[h3Canon(kv.K)] = append(want[h3Canon(kv.K)], h3Val(kv))
	}
	if ua, ok := want["User-Agent"]; ok {
		if ua[0] == "" {
			delete(want, "User-Agent")
		} else {
			want["User-Agent"] = ua[:1]
		}
	} else {
		p.reqAnyUA = true
	}
	if c := want["Cookie"]; len(c) > 0 {
		want["Cookie"] = []string{strings.Join(c, "; ")}
	}
	ae, rg := "", ""
	if v := want["Accept-Encoding"]; len(v) > 0 {
		ae = v[0]
	}
	if v := want["Range"]; len(v) > 0 {
		rg = v[0]
	}
	p.autoGzip = !x.sc.Opt.NoGzip && q.Method != "HEAD" && ae == "" && rg == ""
	if p.autoGzip {
		want["Accept-Encoding"] = []string{"gzip"}
		ae = "gzip"
	}
	p.reqHdr = want
	p.reqTrl = http.Header{}
	if q.Body >= 0 {
		for _, kv := range q.Trl {
			p.reqTrl[h3Canon(kv.K)] = append(p.reqTrl[h3Canon(kv.K)], h3Val(kv))
		}
	}
	p.reqURI = x.reqURI(i)
	p.reqHost = "localhost"
	if q.Host != "" {
		p.reqHost = q.Host
	}
	p.reqSent = max(q.Body, 0)
	switch q.CL {
	case 1:
		p.reqDeclCL = int64(q.Body)
	case 2:
		p.reqDeclCL = int64(q.Body + q.CLDelta)
	case 3:
		p.reqDeclCL = int64(q.Body - q.CLDelta)
		p.reqSent = q.Body - q.CLDelta
	}
	if q.Body < 0 {
		p.reqDeclCL = 0
	}
	sz := h3FieldSize(want) + h3FieldSize(p.reqTrl)/2 + len(p.reqURI) + len(p.reqHost) + len(q.Method) + 5*40 + 100
	p.hdrBig = h3BigClass(sz, x.sc.Opt.MaxHdr)
	// ---- response
	p.head = q.Method == "HEAD"
	st := h.Status
	if h.Implicit {
		st = 200
	}
	p.bodyOK = st != 204 && st != 304
	p.gzipped = h.Gzip && strings.Contains(ae, "gzip") && h.Body > 0
	p.wireLen = h.Body
	if p.gzipped {
		var buf bytes.Buffer
		zw := gzip.NewWriter(&buf)
		zw.Write(wPayload(p.plainKey, 0, p.plainLen))
		zw.Close()
		p.wire = buf.Bytes()
		p.wireLen = len(p.wire)
	}
	switch h.CL {
	case 1:
		p.declCL = int64(p.wireLen)
	case 2:
		p.declCL = int64(p.wireLen + h.CLDelta)
	case 3:
		p.declCL = int64(max(p.wireLen-h.CLDelta, 0))
	}
	hd := http.Header{}
	for k := range h.Early {
		h3ApplyEarly(hd, &h.Early[k])
		p.early = append(p.early, h3CanonHeader(hd))
	}
	h3ApplyFinal(hd, h, p)
	p.final = h3CanonHeader(hd)
	p.trailers = http.Header{}
	for _, kv := range h.Trl {
		if kv.Pad >= 0 {
			p.trailers[h3Canon(kv.K)] = append(p.trailers[h3Canon(kv.K)], h3Val(kv))
		}
	}
	for _, kv := range h.UTrl {
		p.trailers[h3Canon(kv.K)] = append(p.trailers[h3Canon(kv.K)], h3Val(kv))
	}
	p.respBig = h3BigClass(h3FieldSize(p.final)+200, x.sc.Opt.MaxRespHdr)
	for _, e := range p.early {
		p.respBig = max(p.respBig, h3BigClass(h3FieldSize(e)+100, x.sc.Opt.MaxRespHdr))
	}
	if x.sc.Opt.MaxRespHdr > 0 {
		p.respBig = max(p.respBig, h3BigClass(h3FieldSize(p.trailers)+100, x.sc.Opt.MaxRespHdr))
	}
	if x.sc.Opt.MaxHdr > 0 {
		p.hdrBig = max(p.hdrBig, h3BigClass(h3FieldSize(p.reqTrl)+100, x.sc.Opt.MaxHdr))
	}
	return p
}

func (p *h3Plan) wireBytes(off, n int) []byte {
	if p.wire != nil {
		return p.wire[off : off+n]
	}
	return wPayload(p.plainKey, off, n)
}

// clientBody: what the client must read (after transparent decoding, if any)
func (p *h3Plan) clientCheck(off int, got []byte) int {
	if p.gzipped && !p.autoGzip {
		if off+len(got) > len(p.wire) {
			return len(p.wire)
		}
		for k := range got {
			if got[k] != p.wire[off+k] {
				return off + k
			}
		}
		return -1
	}
	return wCheckPayload(p.plainKey, off, got)
}

func (p *h3Plan) clientLen() int {
	if p.head || !p.bodyOK {
		return 0
	}
	if p.gzipped && !p.autoGzip {
		return p.wireLen
	}
	return p.plainLen
}

// ---------------------------------------------------------------- handler

func h3ParseID(path, prefix string) (int, bool) {
	if !strings.HasPrefix(path, prefix) {
		return 0, false
	}
	rest := path[len(prefix):]
	if j := strings.IndexByte(rest, '/'); j >= 0 {
		rest = rest[:j]
	}
	n, err := strconv.Atoi(rest)
	return n, err == nil && n >= 0
}

// srvReadBody reads the request body (all of it, or the first limit bytes) and checks every byte against the model.
func (x *h3Run) srvReadBody(what string, so *h3SrvObs, body io.Reader, key uint64, pat int64, limit int, maxLen int) {
	zeros := 0
	for k := 0; ; k++ {
		buf := make([]byte, h3Chunk(pat, k))
		n, err := body.Read(buf)
		if n > 0 {
			zeros = 0
			if so.bodyN+n > maxLen {
				x.flag(0, "handler read more request body bytes than the client sent", "%s: %d > %d", what, so.bodyN+n, maxLen)
			} else if bad := wCheckPayload(key, so.bodyN, buf[:n]); bad >= 0 {
				x.flag(0, "request body bytes seen by the handler differ from the bytes sent", "%s: first difference at offset %d (read of %d at %d)", what, bad, n, so.bodyN)
			}
			so.bodyN += n
		}
		if err == io.EOF {
			so.bodyEOF, so.bodyRead = true, true
			return
		}
		if err != nil {
			so.bodyErr, so.bodyRead = err, true
			return
		}
		if limit >= 0 && so.bodyN >= limit {
			return
		}
		if n == 0 {
			if zeros++; zeros > 16 {
				x.flag(4, "request body Read keeps returning 0 bytes without an error", "%s", what)
				return
			}
		}
	}
}

// closeServer closes the http3.Server. Server.Close holds the server's mutex while it waits for the handlers, and a
// goroutine blocked on a sync.Mutex keeps the bubble's clock from advancing; so a short graceful shutdown comes first:
// it lets the accept loop leave (it needs the same mutex) before Close starts waiting.
func (x *h3Run) closeServer(grace time.Duration) {
	x.mu.Lock()
	x.closing = true
	x.mu.Unlock()
	ctx, cancel := context.WithTimeout(context.Background(), grace)
	x.srv.Shutdown(ctx)
	cancel()
}

func (x *h3Run) serveHTTP(w http.ResponseWriter, r *http.Request) {
	x.hwg.Add(1)
	defer x.hwg.Done()
	if x.sc.Raw {
		x.serveRaw(w, r)
		return
	}
	i, ok := h3ParseID(r.URL.Path, "/r/")
	if !ok || i >= len(x.sc.Reqs) {
		x.flag(1, "handler invoked for a request nobody sent", "%s %s", r.Method, r.RequestURI)
		w.WriteHeader(400)
		return
	}
	q := &x.sc.Reqs[i]
	h := &q.H
	p := x.plans[i]
	o := x.obs[i]
	so := &h3SrvObs{method: r.Method, uri: r.RequestURI, host: r.Host, proto: r.Proto, hdr: r.Header.Clone(), cl: r.ContentLength, t0: x.w.NowNS()}
	defer func() { so.t1 = x.w.NowNS() }()
	o.mu.Lock()
	o.calls = append(o.calls, so)
	o.mu.Unlock()
	what := fmt.Sprintf("request #%d", i)
	x.checkRequestHead(i, so, r)
	if x.sc.Opt.ConnCtx && r.Context().Value(h3CtxKey{}) != "h3sim" {
		x.flag(1, "value set by ConnContext missing from the request context", "%s", what)
	}
	if r.Context().Value(http3.ServerContextKey) != x.srv {
		x.flag(1, "ServerContextKey missing from the request context", "%s", what)
	}
	bodyKey := KMix(x.sc.Seed, 0xb0d1, uint64(i))
	readAll := func(limit int) {
		x.srvReadBody(what, so, r.Body, bodyKey, h.RBuf, limit, p.reqSent)
		if so.bodyEOF {
			so.trl = r.Trailer.Clone()
		}
	}
	switch h.Panic {
	case 1:
		x.res.Probe("h:panic-before-write")
		panic("h3sim: handler panics before writing")
	case 3:
		x.res.Probe("h:panic-abort-handler")
		panic(http.ErrAbortHandler)
	}
	if h.SlowUS > 0 {
		x.res.Probe("h:slow")
		time.Sleep(time.Duration(h.SlowUS) * time.Microsecond)
	}
	switch h.Read {
	case 0:
		readAll(-1)
	case 1:
		x.res.Probe("h:body-not-read")
	case 2:
		x.res.Probe("h:body-read-partially")
		readAll(h.ReadN)
	}
	hd := w.Header()
	for k := range h.Early {
		h3ApplyEarly(hd, &h.Early[k])
		w.WriteHeader(h.Early[k].Code)
		x.res.Probe("h:1xx")
	}
	h3ApplyFinal(hd, h, p)
	if !h.Implicit {
		w.WriteHeader(h.Status)
	}
	fl, _ := w.(http.Flusher)
	if h.FlushHdr {
		x.res.Probe("h:flush-header")
		fl.Flush()
	}
	if p.gzipped {
		x.res.Probe("h:gzip")
	}
	for k, off := 0, 0; off < p.wireLen; k++ {
		n := min(h3Chunk(h.WChunk, k), p.wireLen-off)
		m, err := w.Write(p.wireBytes(off, n))
		if err != nil {
			if so.writeErr == nil {
				so.writeErr = err
			}
			if errors.Is(err, http.ErrContentLength) {
				so.errCL = true
			}
			if errors.Is(err, http.ErrBodyNotAllowed) {
				so.notAllowed = true
			}
			if !h.GoOn || so.notAllowed {
				break
			}
		} else if m != n {
			x.flag(1, "ResponseWriter.Write returned a short count without an error", "%s: %d of %d", what, m, n)
		} else {
			so.wrote += m
		}
		off += n
		if h.Flush != 0 && KMix(uint64(h.Flush), uint64(k))%3 == 0 {
			x.res.Probe("h:flush-body")
			fl.Flush()
		}
		if h.GapUS > 0 && k%4 == 3 {
			time.Sleep(time.Duration(h.GapUS) * time.Microsecond)
		}
		if h.Panic == 2 && k >= h.PanicAt {
			x.res.Probe("h:panic-mid-body")
			panic("h3sim: handler panics in the middle of the body")
		}
	}
	if h.Panic == 2 {
		x.res.Probe("h:panic-mid-body")
		panic("h3sim: handler panics after the body")
	}
	if h.Read == 3 {
		x.res.Probe("h:body-read-after-response")
		readAll(-1)
	}
	for _, kv := range h.Trl {
		if kv.Pad >= 0 {
			hd.Add(kv.K, h3Val(kv))
			x.res.Probe("h:trailer-declared")
		}
	}
	for _, kv := range h.UTrl {
		hd.Add(http.TrailerPrefix+kv.K, h3Val(kv))
		x.res.Probe("h:trailer-undeclared")
	}
	switch h.BadTrl {
	case 1:
		x.res.Probe("h:forbidden-trailer-name-prefixed")
		hd.Set(http.TrailerPrefix+"Content-Length", "1")
	case 2:
		x.res.Probe("h:forbidden-trailer-name-declared")
	}
	if h.WaitCtx {
		x.res.Probe("h:wait-ctx")
		select {
		case <-r.Context().Done():
			x.res.Probe("h:request-context-cancelled")
		case <-time.After(2 * time.Second):
		}
	}
	if h.Panic == 4 {
		x.res.Probe("h:panic-at-end")
		panic("h3sim: handler panics at the end")
	}
	if x.res.KeepLog {
		var ks []string
		for k := range hd {
			ks = append(ks, k)
		}
		x.res.Logf("%s: header map order at handler end: %q", what, ks)
	}
	if len(hd) > 8 {
		x.res.Probe("h:header-map-above-8-keys")
		x.res.Logf("%s: %d keys in the response header map", what, len(hd))
	}
	so.done = true
}

type h3CtxKey struct{}

func h3HdrDiff(want, got http.Header, skip map[string]bool) (kind, detail string) {
	keys := map[string]bool{}
	for k := range want {
		keys[k] = true
	}
	for k := range got {
		keys[k] = true
	}
	names := make([]string, 0, len(keys))
	for k := range keys {
		names = append(names, k)
	}
	sort.Strings(names)
	short := func(v []string) string {
		s := fmt.Sprintf("%q", v)
		if len(s) > 160 {
			s = s[:160] + "..."
		}
		return s
	}
	for _, k := range names {
		if skip[k] {
			continue
		}
		wv, gv := want[k], got[k]
		if len(wv) == 0 && len(gv) == 0 {
			continue
		}
		switch {
		case len(gv) == 0:
			return "field missing", fmt.Sprintf("%s: want %s", k, short(wv))
		case len(wv) == 0:
			return "unexpected field", fmt.Sprintf("%s: got %s", k, short(gv))
		case len(wv) != len(gv):
			return "number of values of a repeated field differs", fmt.Sprintf("%s: want %d %s got %d %s", k, len(wv), short(wv), len(gv), short(gv))
		}
		for j := range wv {
			if wv[j] != gv[j] {
				return "field value differs", fmt.Sprintf("%s[%d]: want %s got %s", k, j, short(wv[j:j+1]), short(gv[j:j+1]))
			}
		}
	}
	return "", ""
}

func (x *h3Run) checkRequestHead(i int, so *h3SrvObs, r *http.Request) {
	q := &x.sc.Reqs[i]
	p := x.plans[i]
	what := fmt.Sprintf("request #%d", i)
	if so.method != q.Method {
		x.flag(0, "handler saw a different method than the client sent", "%s: %q vs %q", what, so.method, q.Method)
	}
	if so.uri != p.reqURI || r.URL.RequestURI() != p.reqURI {
		x.flag(0, "handler saw a different request URI than the client sent", "%s: %q / %q vs %q", what, so.uri, r.URL.RequestURI(), p.reqURI)
	}
	if so.host != p.reqHost {
		x.flag(0, "handler saw a different host than the client sent", "%s: %q vs %q", what, so.host, p.reqHost)
	}
	if r.ProtoMajor != 3 {
		x.flag(1, "handler saw a protocol version other than HTTP/3", "%s: %s", what, so.proto)
	}
	got := so.hdr.Clone()
	if v, ok := got["Content-Length"]; ok {
		if len(v) != 1 || v[0] != strconv.FormatInt(so.cl, 10) {
			x.flag(0, "Content-Length header field and Request.ContentLength disagree", "%s: %q vs %d", what, v, so.cl)
		}
		delete(got, "Content-Length")
	}
	if p.reqDeclCL > 0 {
		if so.cl != p.reqDeclCL {
			x.flag(0, "handler saw a different Content-Length than the client declared", "%s: %d vs %d", what, so.cl, p.reqDeclCL)
		}
	} else if so.cl != -1 && so.cl != 0 {
		x.flag(0, "handler saw a Content-Length although the client declared none", "%s: %d", what, so.cl)
	}
	skip := map[string]bool{}
	if p.reqAnyUA {
		skip["User-Agent"] = true
		if len(got["User-Agent"]) > 1 {
			x.flag(0, "request header fields seen by the handler differ from those sent: several User-Agent fields", "%s: %q", what, got["User-Agent"])
		}
	}
	if kind, d := h3HdrDiff(p.reqHdr, got, skip); kind != "" {
		x.flag(0, "request header fields seen by the handler differ from those sent: "+kind, "%s: %s", what, d)
	}
	if len(got["Cookie"]) > 0 {
		x.res.Probe("req:cookie")
	}
}

// ---------------------------------------------------------------- client

type h3Upload struct {
	key         uint64
	size        int
	pat         int64
	gapUS       int64
	off, k      int
	req         *http.Request
	trl         []H3KV
	eofWithData bool
	closed      bool
}

func (u *h3Upload) Read(p []byte) (int, error) {
	if u.off >= u.size {
		u.setTrailers()
		return 0, io.EOF
	}
	if u.gapUS > 0 && u.k > 0 {
		time.Sleep(time.Duration(u.gapUS) * time.Microsecond)
	}
	n := min(h3Chunk(u.pat, u.k), len(p), u.size-u.off)
	u.k++
	copy(p, wPayload(u.key, u.off, n))
	u.off += n
	if u.off >= u.size && u.eofWithData {
		u.setTrailers()
		return n, io.EOF
	}
	return n, nil
}

func (u *h3Upload) setTrailers() {
	if u.trl == nil {
		return
	}
	for _, kv := range u.trl {
		u.req.Trailer[h3Canon(kv.K)] = nil
	}
	for _, kv := range u.trl {
		u.req.Trailer[h3Canon(kv.K)] = append(u.req.Trailer[h3Canon(kv.K)], h3Val(kv))
	}
	u.trl = nil
}

func (u *h3Upload) Close() error { u.closed = true; return nil }

func (x *h3Run) doReq(i int) {
	q := &x.sc.Reqs[i]
	p := x.plans[i]
	o := x.obs[i]
	what := fmt.Sprintf("request #%d", i)
	ctx, cancel := context.WithCancel(x.runCtx)
	defer cancel()
	doCancel := func() {
		o.mu.Lock()
		if !o.finished {
			o.cancelled = true
		}
		o.mu.Unlock()
		x.res.Fault("client-cancel")
		cancel()
	}
	if q.CancelOn == 1 {
		t := time.AfterFunc(time.Duration(q.CancelUS)*time.Microsecond, doCancel)
		defer t.Stop()
	}
	ctx = httptrace.WithClientTrace(ctx, &httptrace.ClientTrace{Got1xxResponse: func(code int, h textproto.MIMEHeader) error {
		o.mu.Lock()
		o.early = append(o.early, h3EarlyObs{code, http.Header(h).Clone()})
		o.mu.Unlock()
		return nil
	}})
	req, err := http.NewRequestWithContext(ctx, q.Method, "https://localhost"+p.reqURI, nil)
	if err != nil {
		x.flag(1, "harness: request could not be built", "%s: %v", what, err)
		return
	}
	if req.URL.RequestURI() != p.reqURI {
		x.flag(1, "harness: URL does not round-trip", "%s: %q vs %q", what, req.URL.RequestURI(), p.reqURI)
		return
	}
	if q.Host != "" {
		req.Host = q.Host
	}
	for _, kv := range q.Hdr {
		if q.RawKeys && !h3IsSpecialReqKey(kv.K) {
			req.Header[kv.K] = append(req.Header[kv.K], h3Val(kv))
		} else {
			req.Header.Add(kv.K, h3Val(kv))
		}
	}
	var up *h3Upload
	if q.Body >= 0 {
		up = &h3Upload{key: KMix(x.sc.Seed, 0xb0d1, uint64(i)), size: q.Body, pat: q.BChunk, gapUS: q.BGapUS, req: req, eofWithData: q.BChunk&1 == 1}
		req.Body = up
		if q.NoBody && q.Body == 0 {
			req.Body = http.NoBody
		}
		switch q.CL {
		case 0:
			req.ContentLength = int64(-(q.BChunk >> 1 & 1))
		default:
			req.ContentLength = p.reqDeclCL
		}
		if len(q.Trl) > 0 && req.Body != http.NoBody {
			req.Trailer = http.Header{}
			for _, kv := range q.Trl {
				req.Trailer[h3Canon(kv.K)] = nil
			}
			up.trl = q.Trl
			if q.TrlEarly {
				up.setTrailers()
			}
			x.res.Probe("req:trailers")
		}
	}
	o.mu.Lock()
	o.started, o.t0 = true, x.w.NowNS()
	o.mu.Unlock()
	defer func() { o.t1 = x.w.NowNS() }()
	resp, err := x.h3t.RoundTrip(req)
	if err != nil {
		o.mu.Lock()
		o.rtErr, o.finished, o.runDead = err, true, x.runCtx.Err() != nil
		o.mu.Unlock()
		return
	}
	o.mu.Lock()
	o.status, o.hdr, o.cl, o.uncompressed = resp.StatusCode, resp.Header.Clone(), resp.ContentLength, resp.Uncompressed
	o.mu.Unlock()
	if q.CancelOn == 2 {
		doCancel()
	}
	zeros := 0
	for k := 0; ; k++ {
		if q.Abandon > 0 && o.bodyN >= q.Abandon-1 {
			o.mu.Lock()
			o.abandoned = true
			o.mu.Unlock()
			x.res.Fault("client-abandons-body")
			break
		}
		if q.CancelOn == 3 && o.bodyN >= q.CancelN && ctx.Err() == nil {
			doCancel()
		}
		buf := make([]byte, h3Chunk(q.RBuf, k))
		n, err := resp.Body.Read(buf)
		if n > 0 {
			zeros = 0
			if bad := p.clientCheck(o.bodyN, buf[:n]); bad >= 0 {
				x.flag(0, "response body bytes read by the client differ from the bytes the handler wrote", "%s: first difference at offset %d (read of %d at %d, body %d)", what, bad, n, o.bodyN, p.clientLen())
			}
			o.mu.Lock()
			o.bodyN += n
			o.mu.Unlock()
		}
		if err == io.EOF {
			o.mu.Lock()
			o.bodyEOF = true
			o.trl = resp.Trailer.Clone()
			o.mu.Unlock()
			break
		}
		if err != nil {
			o.mu.Lock()
			o.bodyErr = err
			o.mu.Unlock()
			break
		}
		if n == 0 {
			if zeros++; zeros > 16 {
				x.flag(4, "response body Read keeps returning 0 bytes without an error", "%s", what)
				break
			}
		}
	}
	resp.Body.Close()
	o.mu.Lock()
	o.finished = true
	o.mu.Unlock()
}

// ---------------------------------------------------------------- world wiring

type h3Listener struct {
	x  *h3Run
	ln interface {
		Accept(context.Context) (*quic.Conn, error)
		Addr() net.Addr
		Close() error
	}
}

func (l *h3Listener) Accept(ctx context.Context) (*quic.Conn, error) {
	c, err := l.ln.Accept(ctx)
	if err == nil {
		l.x.mu.Lock()
		l.x.sconns = append(l.x.sconns, c)
		l.x.mu.Unlock()
	}
	return c, err
}
func (l *h3Listener) Addr() net.Addr { return l.ln.Addr() }
func (l *h3Listener) Close() error   { return nil } // the world owns the listener

func (sc *H3Scenario) horizon() time.Duration {
	idle := max(sc.Cfg.IdleMS[0], sc.Cfg.IdleMS[1], 5000)
	if !sc.Faulty {
		return 120 * time.Second
	}
	return time.Duration(sc.Net.FaultUntilMS+2*idle+20000) * time.Millisecond
}

func runH3(t *testing.T, ksc KScenario, res *KResult) {
	sc := ksc.(*H3Scenario)
	wBegin(&sc.Cfg)
	defer wEnd()
	oldLog := slog.Default()
	slog.SetDefault(slog.New(slog.NewTextHandler(io.Discard, nil)))
	defer slog.SetDefault(oldLog)
	w := NewWorld(t, sc.Seed, &sc.Net, res)
	w.SetFaults(sc.Faults)
	nodes, err := NewNodes(w, &sc.Cfg)
	if err != nil {
		res.Fail("spec could not be built", "%v", err)
		return
	}
	if sc.NoQlog {
		nodes.CQ.Tracer, nodes.SQ.Tracer = nil, nil
	}
	wo := NewWireOracles(w, nodes, res)
	x := &h3Run{sc: sc, res: res, w: w, nodes: nodes, on: wOraclesEnabled("C18")}
	wo.on = x.on
	n0 := runtime.NumGoroutine()
	w.StartDriver()
	defer func() {
		nodes.Close()
		w.Stop()
		if !sc.Net.Explicit {
			sc.Net.Explicit = true
			sc.Faults = w.Fired
		}
		wo.Finish()
		w.FeedShape()
		if runtime.NumGoroutine() > n0 {
			// something is still running: give it a (simulated) second, then name the leak if it is the one known in http3
			time.Sleep(time.Second)
			buf := make([]byte, 1<<20)
			buf = buf[:runtime.Stack(buf, true)]
			if strings.Contains(string(buf), "http3.(*rawConn).closeQlogger") {
				// rawConn.closeQlogger waits for request streams whose receive side nobody finished (only with qlog enabled,
				// which the world's recorder does). C18 does not speak about goroutines: counted and tolerated, not judged.
				res.Probe("http3-closeQlogger-goroutine-left-behind")
				res.TolerateLeak = "http3.(*rawConn).closeQlogger"
			}
		}
	}()
	horizon := sc.horizon()
	runCtx, cancelRun := context.WithTimeout(context.Background(), horizon)
	defer cancelRun()
	x.runCtx = runCtx

	// ---- server
	o := &sc.Opt
	stls := http3.ConfigureTLSConfig(nodes.STLS)
	var ln *h3Listener
	if o.Early {
		eln, err := nodes.STr.ListenEarly(stls, nodes.SQ)
		if err != nil {
			res.Fail("Listen failed", "%v", err)
			return
		}
		nodes.ELn = eln
		ln = &h3Listener{x: x, ln: eln}
	} else {
		l, err := nodes.STr.Listen(stls, nodes.SQ)
		if err != nil {
			res.Fail("Listen failed", "%v", err)
			return
		}
		nodes.Ln = l
		ln = &h3Listener{x: x, ln: l}
	}
	discard := slog.New(slog.NewTextHandler(io.Discard, &slog.HandlerOptions{Level: slog.LevelDebug}))
	srv := &http3.Server{Handler: http.HandlerFunc(x.serveHTTP), EnableDatagrams: o.SrvDgram, MaxHeaderBytes: o.MaxHdr,
		IdleTimeout: time.Duration(o.IdleMS) * time.Millisecond}
	if o.SrvLogger {
		srv.Logger = discard
		res.Probe("opt:server-logger-set")
	} else {
		res.Probe("opt:server-logger-nil")
	}
	if o.ConnCtx {
		srv.ConnContext = func(ctx context.Context, c *quic.Conn) context.Context {
			return context.WithValue(ctx, h3CtxKey{}, "h3sim")
		}
		res.Probe("opt:conn-context")
	}
	if o.AddSet {
		srv.AdditionalSettings = map[uint64]uint64{0x4d44: 7, 0x1f*5 + 0x21: 99}
	}
	x.srv = srv
	if sc.RawSrv {
		rs := &h3RawState{allDone: make(chan struct{})}
		for range sc.Streams {
			rs.obs = append(rs.obs, &h3RawObs{})
			rs.cli = append(rs.cli, &h3Obs{})
			rs.srvDone = append(rs.srvDone, make(chan struct{}))
			rs.cliDone = append(rs.cliDone, make(chan struct{}))
		}
		x.raw = rs
	}
	var swg sync.WaitGroup
	swg.Add(1)
	go func() {
		defer swg.Done()
		if sc.RawSrv {
			x.rawServer(ln)
			return
		}
		if o.Serve == 0 {
			srv.ServeListener(ln)
			return
		}
		for {
			c, err := ln.Accept(runCtx)
			if err != nil {
				return
			}
			x.mu.Lock()
			closing := x.closing
			x.mu.Unlock()
			if closing {
				c.CloseWithError(0x100, "")
				continue
			}
			swg.Add(1)
			go func() {
				defer swg.Done()
				srv.ServeQUICConn(c)
			}()
		}
	}()

	// ---- client
	var extraTr []*quic.Transport
	var extraPC []*simnet.SimConn
	defer func() {
		for _, tr := range extraTr {
			tr.Close()
		}
		for _, pc := range extraPC {
			pc.Close()
		}
	}()
	ndial := 0
	dial := func(ctx context.Context, addr string, tc *tls.Config, qc *quic.Config) (*quic.Conn, error) {
		// one socket per connection: with zero-length source connection IDs a socket carries one connection only
		x.mu.Lock()
		k := ndial
		ndial++
		ctr, utr := nodes.CTr, nodes.UTr
		if k > 0 {
			pc := simnet.NewBlockingSimConn(&net.UDPAddr{IP: wClientAddr.IP, Port: wClientAddr.Port + k}, w)
			ctr = &quic.Transport{Conn: pc, ConnectionIDLength: sc.Cfg.ClientCIDLen}
			extraTr, extraPC = append(extraTr, ctr), append(extraPC, pc)
			if utr != nil {
				utr = &quic.UTransport{Transport: ctr, QUICSpec: nodes.Spec}
			}
			res.Probe("cli:extra-connection")
		}
		x.mu.Unlock()
		var c *quic.Conn
		var err error
		switch {
		case utr != nil && o.Early:
			c, err = utr.DialEarly(ctx, wServerAddr, tc, qc)
		case utr != nil:
			c, err = utr.Dial(ctx, wServerAddr, tc, qc)
		case o.Early:
			c, err = ctr.DialEarly(ctx, wServerAddr, tc, qc)
		default:
			c, err = ctr.Dial(ctx, wServerAddr, tc, qc)
		}
		if err == nil {
			x.mu.Lock()
			x.cconns = append(x.cconns, c)
			x.mu.Unlock()
		}
		return c, err
	}
	switch {
	case sc.Raw:
		x.runRaw(dial)
	case sc.RawSrv:
		x.runRawSrvClient(dial, discard)
	default:
		x.runTransport(dial, discard)
	}
	cause := x.connCauses()
	cancelRun()
	if x.h3t != nil {
		x.h3t.Close()
	}
	x.mu.Lock()
	cconns, sconns := append([]*quic.Conn{}, x.cconns...), append([]*quic.Conn{}, x.sconns...)
	x.mu.Unlock()
	for _, c := range cconns {
		c.CloseWithError(0x100, "")
	}
	for _, c := range sconns {
		c.CloseWithError(0x100, "")
	}
	x.hwg.Wait()
	x.closeServer(time.Millisecond)
	swg.Wait()
	time.Sleep(50 * time.Millisecond)

	// ---- verdicts
	switch {
	case sc.Raw:
		x.judgeRaw()
	case sc.RawSrv:
		x.judgeRawSrv(cause)
	default:
		x.judgeTransport(cause)
	}
	for _, p := range w.Tap.All {
		rec := w.Log[p.Dir][p.Ord]
		res.Logf("  %d %s {%s-> %v}", p.SentNS/1000, p.String(), rec.Fate, rec.Delivered)
		if res.KeepLog {
			for k := range p.Frames {
				if f := &p.Frames[k]; f.Name == "STREAM" && len(f.Data) > 0 {
					res.Logf("      stream %d [%d+%d] %x", f.StreamID, f.Offset, len(f.Data), f.Data[:min(len(f.Data), 400)])
				}
			}
		}
	}
	x.verdict()
	if res.KeepLog {
		// verbose replays list the goroutines that are still around (leak hunting)
		buf := make([]byte, 1<<20)
		buf = buf[:runtime.Stack(buf, true)]
		for _, g := range strings.Split(string(buf), "\n\n") {
			if strings.Contains(g, "synctest bubble") && !strings.Contains(g, "runH3") && !strings.Contains(g, "World).drive") {
				res.Logf("goroutine still alive at the end of the run:\n%s", g)
			}
		}
	}
}

// connCauses: why the connections ended, sampled before the harness closes them itself
func (x *h3Run) connCauses() [2]error {
	x.mu.Lock()
	defer x.mu.Unlock()
	var out [2]error
	pick := func(side int, conns []*quic.Conn) {
		for _, c := range conns {
			e := context.Cause(c.Context())
			if e == nil {
				continue
			}
			var ae *quic.ApplicationError
			plain := errors.As(e, &ae) && (ae.ErrorCode == 0x100 || ae.ErrorCode == 0)
			if out[side] == nil || !plain {
				out[side] = e
				if !plain {
					return
				}
			}
		}
	}
	pick(0, x.cconns)
	pick(1, x.sconns)
	return out
}

func (x *h3Run) runTransport(dial func(context.Context, string, *tls.Config, *quic.Config) (*quic.Conn, error), discard *slog.Logger) {
	sc, o, res := x.sc, &x.sc.Opt, x.res
	h3t := &http3.Transport{TLSClientConfig: x.nodes.CTLS, QUICConfig: x.nodes.CQ, Dial: dial, EnableDatagrams: o.CliDgram,
		MaxResponseHeaderBytes: o.MaxRespHdr, DisableCompression: o.NoGzip}
	if o.CliLogger {
		h3t.Logger = discard
	}
	if o.AddSet {
		h3t.AdditionalSettings = map[uint64]uint64{0x4d45: 1}
	}
	x.h3t = h3t
	x.obs = make([]*h3Obs, len(sc.Reqs))
	x.plans = make([]*h3Plan, len(sc.Reqs))
	nb := 0
	for i := range sc.Reqs {
		x.obs[i] = &h3Obs{}
		x.plans[i] = x.makePlan(i)
		nb = max(nb, sc.Reqs[i].Batch+1)
		x.probeReq(i)
	}
	var kwg sync.WaitGroup
	killStop := make(chan struct{})
	if o.Kill != "" {
		kwg.Add(1)
		go func() {
			defer kwg.Done()
			select {
			case <-time.After(time.Duration(o.KillAtMS) * time.Millisecond):
			case <-killStop:
				return
			}
			x.mu.Lock()
			x.killed = true
			x.mu.Unlock()
			res.Fault("kill:" + o.Kill)
			switch o.Kill {
			case "h3t-close":
				h3t.Close()
			case "ctr-close":
				x.nodes.CTr.Close()
			case "srv-close":
				x.closeServer(time.Millisecond)
			case "srv-shutdown":
				x.closeServer(500 * time.Millisecond)
			}
		}()
	}
	conc := max(1, o.Conc)
	for b := 0; b < nb; b++ {
		var wg sync.WaitGroup
		sem := make(chan struct{}, conc)
		for i := range sc.Reqs {
			if sc.Reqs[i].Batch != b {
				continue
			}
			wg.Add(1)
			go func() {
				defer wg.Done()
				sem <- struct{}{}
				defer func() { <-sem }()
				if at := sc.Reqs[i].AtMS; at > 0 {
					select {
					case <-time.After(time.Duration(at) * time.Millisecond):
					case <-x.runCtx.Done():
					}
				}
				x.doReq(i)
			}()
		}
		wg.Wait()
		if b+1 < nb && o.BatchGapMS > 0 {
			time.Sleep(time.Duration(o.BatchGapMS) * time.Millisecond)
		}
	}
	close(killStop)
	kwg.Wait()
	// let the handlers that are still running finish (bounded sleeps), so that their observations are complete
	time.Sleep(100 * time.Millisecond)
}

func (x *h3Run) probeReq(i int) {
	q, res := &x.sc.Reqs[i], x.res
	h := &q.H
	res.Probe("req:" + q.Method)
	if q.Body > 0 {
		res.Probe("req:body")
	}
	if q.Body > 100000 {
		res.Probe("req:body-large")
	}
	if q.CL >= 2 {
		res.Probe(fmt.Sprintf("req:content-length-wrong-%d", q.CL))
		res.Fault("wrong-content-length")
	}
	if q.RawKeys {
		res.Probe("req:non-canonical-header-keys")
	}
	if h.CL >= 2 {
		res.Probe(fmt.Sprintf("h:content-length-wrong-%d", h.CL))
		res.Fault("wrong-content-length")
	}
	if h.Panic != 0 {
		res.Fault("handler-panic")
	}
	if q.Method == "HEAD" {
		res.Probe("h:head-response")
	}
	res.Probe(fmt.Sprintf("h:status-%d", h.Status))
	if x.plans[i].autoGzip {
		res.Probe("req:transport-asks-gzip")
	}
	if x.plans[i].hdrBig == 2 {
		res.Probe("req:header-above-server-limit")
	}
	if x.plans[i].respBig == 2 {
		res.Probe("h:header-above-client-limit")
	}
	for _, kv := range q.Hdr {
		if kv.Pad >= 16000 {
			res.Probe("req:long-header-value")
		}
	}
}

// ---------------------------------------------------------------- final oracle (Transport class)

func (x *h3Run) judgeTransport(cause [2]error) {
	sc, res := x.sc, x.res
	clean := x.clean()
	anyIncomplete := false
	for i := range sc.Reqs {
		q, p, o := &sc.Reqs[i], x.plans[i], x.obs[i]
		h := &q.H
		what := fmt.Sprintf("request #%d (%s %s)", i, q.Method, p.reqURI)
		o.mu.Lock()
		res.TraceAdd(fmt.Sprintf("%d:%v:%d:%d:%v:%s:%s:%d", i, o.finished, o.status, o.bodyN, o.bodyEOF, h3ErrClass(o.rtErr), h3ErrClass(o.bodyErr), len(o.calls)))
		res.Logf("%s: [%d..%d us] started=%v finished=%v rtErr=%v status=%d cl=%d bodyN=%d eof=%v bodyErr=%v cancelled=%v abandoned=%v calls=%d early=%d trl=%v", what, o.t0/1000, o.t1/1000, o.started, o.finished, o.rtErr,
			o.status, o.cl, o.bodyN, o.bodyEOF, o.bodyErr, o.cancelled, o.abandoned, len(o.calls), len(o.early), o.trl)
		for k, so := range o.calls {
			res.Logf("   call %d: [%d..%d us] cl=%d bodyN=%d eof=%v bodyErr=%v writeErr=%v wrote=%d done=%v trl=%v", k, so.t0/1000, so.t1/1000, so.cl, so.bodyN, so.bodyEOF, so.bodyErr, so.writeErr, so.wrote, so.done, so.trl)
		}
		if !o.started {
			o.mu.Unlock()
			continue
		}
		if !o.finished {
			anyIncomplete = true
		}
		// the exchange is one the model fully predicts
		modelled := p.hdrBig == 0 && p.respBig == 0
		mustComplete := clean && modelled && q.CancelOn == 0 && q.Abandon == 0 && h.Panic == 0 && q.CL < 2
		// ---------------- server side
		if len(o.calls) > 1 && clean {
			x.flag(1, "handler invoked more than once for one request", "%s: %d calls", what, len(o.calls))
		}
		if len(o.calls) > 0 && p.hdrBig == 2 {
			x.flag(3, "handler invoked although the request header exceeds Server.MaxHeaderBytes", "%s", what)
		}
		for _, so := range o.calls {
			if so.bodyEOF {
				switch {
				case q.CL == 2:
					x.flag(2, "request body shorter than its declared Content-Length ended with a clean EOF at the handler", "%s: declared %d, read %d then io.EOF; RoundTrip error: %v", what, p.reqDeclCL, so.bodyN, o.rtErr)
				case q.CL == 3:
					x.flag(2, "request body longer than its declared Content-Length ended with a clean EOF at the handler", "%s: declared %d, body %d, read %d then io.EOF", what, p.reqDeclCL, q.Body, so.bodyN)
				case so.bodyN != max(q.Body, 0):
					x.flag(0, "request body truncated: handler reached a clean EOF before all bytes", "%s: %d of %d", what, so.bodyN, q.Body)
				default:
					res.Probe("srv:body-complete")
					if kind, d := h3HdrDiff(p.reqTrl, h3NonEmpty(so.trl), nil); kind != "" {
						x.flag(0, "request trailers seen by the handler differ from those sent: "+kind, "%s: %s", what, d)
					} else if len(p.reqTrl) > 0 {
						res.Probe("srv:trailers-seen")
					}
				}
			} else if so.bodyRead && mustComplete && h.CL >= 2 {
				// the response disagrees with its own Content-Length: the client reports that at its reader and resets the
				// exchange (H3_MESSAGE_ERROR), which also ends the request body the handler may still be reading
				res.Probe("srv:body-read-ended-by-the-client-rejecting-the-response")
			} else if so.bodyRead && mustComplete && (h.Read == 0 || h.Read == 3) {
				x.flag(4, "handler could not read the request body in a fault-free run", "%s: %d of %d then %s", what, so.bodyN, q.Body, h3ErrClass(so.bodyErr))
			}
			if p.wireLen > 0 && !p.bodyOK && so.wrote+0 >= 0 && !so.notAllowed && so.done && so.writeErr == nil {
				x.flag(5, "Write on a response whose status forbids a body did not return ErrBodyNotAllowed", "%s: status %d", what, h.Status)
			}
			if so.notAllowed {
				res.Probe("srv:body-not-allowed")
			}
			if so.errCL {
				res.Probe("srv:write-beyond-content-length-refused")
			}
		}
		// ---------------- client side
		if !o.finished {
			o.mu.Unlock()
			continue
		}
		if o.rtErr != nil {
			switch {
			case o.cancelled || o.runDead:
				res.Probe("cli:cancelled-before-response")
			case h.Panic != 0:
				res.Probe("cli:error-after-handler-panic")
			case p.respBig == 2:
				res.Probe("cli:oversized-response-header-refused")
			case sc.Opt.IdleMS > 0 && h3IsNoError(o.rtErr):
				res.Probe("cli:request-raced-server-idle-timeout")
			case mustComplete && (errors.Is(o.rtErr, context.Canceled) || errors.Is(o.rtErr, context.DeadlineExceeded)) && len(o.calls) == 0:
				// http3.Transport dials with the context of the first request; a request that shares the dial fails with that
				// request's cancellation. A robustness matter the property does not speak about: counted, not judged.
				res.Probe("cli:dial-shared-with-a-cancelled-request")
			case mustComplete:
				x.flag(4, "RoundTrip failed in a fault-free run: "+h3ErrClass(o.rtErr), "%s: %v", what, o.rtErr)
			default:
				res.Probe("cli:roundtrip-error-tolerated")
			}
			o.mu.Unlock()
			continue
		}
		res.Probe("cli:response")
		if p.hdrBig == 2 || (p.hdrBig == 1 && o.status == 431 && len(o.calls) == 0) {
			if o.status != 431 {
				x.flag(3, "request header above Server.MaxHeaderBytes not answered with 431", "%s: status %d", what, o.status)
			} else {
				res.Probe("cli:431")
			}
			o.mu.Unlock()
			continue
		}
		if p.respBig == 2 {
			x.flag(3, "response header above Transport.MaxResponseHeaderBytes delivered to the client", "%s", what)
		}
		if len(o.calls) == 0 {
			x.flag(1, "client received a response although the handler was never invoked", "%s: status %d", what, o.status)
			o.mu.Unlock()
			continue
		}
		so := o.calls[len(o.calls)-1]
		wantStatus := h.Status
		if h.Implicit {
			wantStatus = 200
		}
		if o.status != wantStatus {
			x.flag(0, "client saw a different status code than the handler wrote", "%s: %d vs %d", what, o.status, wantStatus)
		}
		// informational responses
		if len(o.early) != len(p.early) {
			x.flag(0, "number of informational responses delivered to the client differs from what the handler wrote", "%s: %d vs %d", what, len(o.early), len(p.early))
		} else {
			for k := range p.early {
				if o.early[k].code != h.Early[k].Code {
					x.flag(0, "informational response status differs", "%s: #%d %d vs %d", what, k, o.early[k].code, h.Early[k].Code)
				}
				if kind, d := h3HdrDiff(p.early[k], o.early[k].hdr, map[string]bool{"Date": true}); kind != "" {
					x.flag(0, "informational response header fields differ from what the handler wrote: "+kind, "%s: #%d %s", what, k, d)
				}
			}
			if len(p.early) > 0 {
				res.Probe("cli:1xx-delivered")
			}
		}
		// header fields
		want := p.final.Clone()
		got := o.hdr.Clone()
		skip := map[string]bool{}
		delete(want, "Trailer")
		if h.Date == 0 {
			skip["Date"] = true
			if len(got["Date"]) != 1 {
				x.flag(5, "response without exactly one Date field", "%s: %q", what, got["Date"])
			}
		}
		if h.CType == 1 {
			skip["Content-Type"] = true
			if len(got["Content-Type"]) > 1 {
				x.flag(0, "response header fields differ from what the handler wrote: several Content-Type fields", "%s", what)
			}
		}
		decoded := p.gzipped && p.autoGzip
		if decoded {
			delete(want, "Content-Encoding")
			if !o.uncompressed {
				x.flag(1, "transparently decoded response not marked Uncompressed", "%s", what)
			}
			res.Probe("cli:gzip-decoded")
		} else if p.gzipped {
			res.Probe("cli:gzip-passed-through")
		}
		// Content-Length
		gotCL, hasCL := got["Content-Length"]
		delete(got, "Content-Length")
		delete(want, "Content-Length")
		bodyLen := int64(p.wireLen)
		if !p.bodyOK {
			bodyLen = 0
		}
		switch {
		case decoded:
			if hasCL || o.cl != -1 {
				x.flag(0, "transparently decoded response still carries a Content-Length", "%s: %q / %d", what, gotCL, o.cl)
			}
		case p.declCL >= 0:
			if !hasCL || len(gotCL) != 1 || gotCL[0] != strconv.FormatInt(p.declCL, 10) || o.cl != p.declCL {
				x.flag(0, "client saw a different Content-Length than the handler declared", "%s: %q / %d vs %d", what, gotCL, o.cl, p.declCL)
			}
		case hasCL:
			if len(gotCL) != 1 || gotCL[0] != strconv.FormatInt(bodyLen, 10) || o.cl != bodyLen {
				x.flag(0, "Content-Length added by the server differs from the number of body bytes the handler wrote", "%s: %q / %d vs %d", what, gotCL, o.cl, bodyLen)
			} else if wantStatus == 204 {
				x.flag(5, "204 response carries a Content-Length field", "%s", what)
			}
			res.Probe("cli:content-length-added-by-server")
		default:
			if o.cl != -1 && !(o.cl == 0 && wantStatus == 204) {
				x.flag(0, "Response.ContentLength set although no Content-Length field was received", "%s: %d", what, o.cl)
			}
		}
		if kind, d := h3HdrDiff(want, got, skip); kind != "" {
			x.flag(0, "response header fields seen by the client differ from what the handler wrote: "+kind, "%s: %s", what, d)
		}
		// body
		wantLen := p.clientLen()
		switch {
		case o.bodyEOF:
			switch {
			case h.Panic != 0:
				x.flag(3, "handler panicked but the client read a complete response", "%s: panic mode %d, %d bytes then io.EOF", what, h.Panic, o.bodyN)
			case h.CL == 2 && p.bodyOK && !p.head:
				x.flag(2, "response body shorter than its declared Content-Length ended with a clean EOF at the client", "%s: declared %d, read %d then io.EOF", what, p.declCL, o.bodyN)
			case h.CL == 3 && p.bodyOK && !p.head:
				if !so.errCL {
					x.flag(2, "response body longer than its declared Content-Length: neither the handler's Write nor the client's Read reported an error", "%s: declared %d, handler wrote %d, client read %d then io.EOF", what, p.declCL, so.wrote, o.bodyN)
				} else if int64(o.bodyN) > p.declCL {
					x.flag(0, "client read more body bytes than the declared Content-Length", "%s: %d > %d", what, o.bodyN, p.declCL)
				}
			case o.bodyN < wantLen && so.writeErr != nil:
				// the handler was told that its write failed (e.g. the client reset the stream); cannot happen with a clean EOF
				x.flag(0, "response body truncated: client reached a clean EOF before all bytes the handler wrote", "%s: %d of %d (handler write error %v)", what, o.bodyN, wantLen, so.writeErr)
			case o.bodyN != wantLen:
				x.flag(0, "response body truncated or extended: clean EOF at a different length than the handler wrote", "%s: %d vs %d", what, o.bodyN, wantLen)
			default:
				res.Probe("cli:body-complete")
				wt := p.trailers
				gt := h3NonEmpty(o.trl)
				if (p.head || !p.bodyOK) && len(gt) == 0 {
					wt = nil // trailers on a response without content may be dropped
				}
				if kind, d := h3HdrDiff(wt, gt, nil); kind != "" {
					x.flag(0, "response trailers seen by the client differ from what the handler wrote: "+kind, "%s: %s", what, d)
				} else if len(wt) > 0 {
					res.Probe("cli:trailers-seen")
				}
			}
		case o.abandoned:
			res.Probe("cli:abandoned")
		case o.bodyErr != nil:
			switch {
			case o.cancelled:
				res.Probe("cli:cancelled-during-body")
			case h.Panic != 0:
				res.Probe("cli:error-after-handler-panic")
			case h.CL >= 2:
				res.Probe("cli:content-length-mismatch-reported")
			case sc.Opt.IdleMS > 0 && h3IsNoError(o.bodyErr):
				res.Probe("cli:request-raced-server-idle-timeout")
			case mustComplete:
				x.flag(4, "reading the response body failed in a fault-free run: "+h3ErrClass(o.bodyErr), "%s: after %d of %d bytes: %v", what, o.bodyN, wantLen, o.bodyErr)
			default:
				res.Probe("cli:body-error-tolerated")
			}
		}
		o.mu.Unlock()
	}
	// ---------------- connection level
	x.judgeConn(cause, anyIncomplete)
}

func h3IsNoError(err error) bool {
	var he *http3.Error
	return errors.As(err, &he) && he.Remote && he.ErrorCode == http3.ErrCodeNoError
}

func h3NonEmpty(h http.Header) http.Header {
	out := http.Header{}
	for k, v := range h {
		if len(v) > 0 {
			out[k] = v
		}
	}
	return out
}

// judgeConn: why did connections end; was anything left hanging at the horizon
func (x *h3Run) judgeConn(cause [2]error, incomplete bool) {
	sc, res := x.sc, x.res
	benign := func(err error) bool {
		var ae *quic.ApplicationError
		if errors.As(err, &ae) {
			return ae.ErrorCode == 0x100 || ae.ErrorCode == 0
		}
		return err == nil || errors.Is(err, context.Canceled)
	}
	for side, err := range cause {
		if benign(err) {
			continue
		}
		var te *quic.TransportError
		if errors.As(err, &te) {
			who := side
			if te.Remote {
				who = 1 - side
			}
			if kf := wKnownC12(x.w, &sc.Cfg, who, uint64(te.ErrorCode)); kf != "" && !x.on["C12"] {
				res.Blocked = kf
				return
			}
		}
		var ae *quic.ApplicationError
		if errors.As(err, &ae) && !sc.Raw && !sc.RawSrv {
			x.flag(3, "HTTP/3 connection error between conformant endpoints: "+h3ErrName(uint64(ae.ErrorCode)), "side %d: %v", side, err)
			continue
		}
		var ie *quic.IdleTimeoutError
		var ht *quic.HandshakeTimeoutError
		if side == 1 && (errors.As(err, &ie) || errors.As(err, &ht)) && len(x.sconns) > len(x.cconns) {
			res.Probe("srv:connection-of-a-cancelled-dial-idled-out") // a cancelled Dial sends no CONNECTION_CLOSE
			continue
		}
		if errors.As(err, &ie) && len(x.cconns) > 1 {
			// after a failed exchange http3.Transport forgets its connection without closing it (removeClient) and
			// dials a new one; the orphan lives on until its idle timeout
			res.Probe("cli:orphaned-connection-idled-out")
			continue
		}
		if x.clean() && !sc.Raw && !sc.RawSrv {
			x.flag(4, "connection failed in a fault-free run: "+h3ErrClass(err), "side %d: %v", side, err)
		}
	}
	if sc.Raw || sc.RawSrv {
		return
	}
	if incomplete && x.clean() {
		x.flag(4, "exchange still pending at the horizon of a fault-free run", "horizon %v", sc.horizon())
	}
	if sc.Faulty && sc.Opt.Kill == "" && (incomplete || !benign(cause[0]) || !benign(cause[1])) && len(x.verdicts) == 0 {
		pre := res.Violation
		c0, c1 := cause[0], cause[1]
		if benign(c0) {
			c0 = nil
		}
		if benign(c1) {
			c1 = nil
		}
		if incomplete || c0 != nil || c1 != nil {
			judgeFailure(x.w, &sc.Cfg, &sc.Net, len(sc.Faults), res, c0, c1, len(x.sconns) == 0, sc.horizon())
		}
		if res.Violation != pre && !x.on["C01"] && !x.on["all"] {
			res.Note("C01: " + res.Violation)
			res.Violation, res.Detail = "", ""
		}
	}
}

// ---------------------------------------------------------------- raw peer (placeholder section replaced below)

type H3RawFrame struct {
	K string `json:"k"` // headers | trailers | data | unk | settings | goaway | cancel_push | max_push_id | push_promise | reserved
	T uint64 `json:"t,omitempty"`
	N int    `json:"n,omitempty"`
	V int    `json:"v,omitempty"` // headers: malformation variant; settings: content variant
	W int    `json:"w,omitempty"` // varint width of type and length: 0 minimal, 1..3 = 2, 4, 8 bytes
}

type H3RawStream struct {
	Kind     string       `json:"kind"` // req | uni
	UType    uint64       `json:"utype,omitempty"`
	Frames   []H3RawFrame `json:"frames"`
	CutPPM   int          `json:"cut_ppm,omitempty"` // > 0: only this fraction of the byte sequence is written
	End      string       `json:"end"`               // fin | reset | close | open
	Split    int64        `json:"split,omitempty"`
	GapUS    int64        `json:"gap_us,omitempty"`
	Method   string       `json:"m,omitempty"`
	Hdr      []H3KV       `json:"hdr,omitempty"`
	CLDecl   int          `json:"cl,omitempty"` // 0 no content-length, 1 right, 2 larger than the DATA frames, 3 smaller
	RespN    int          `json:"resp_n,omitempty"`
	RespTrl  bool         `json:"resp_trl,omitempty"`
	RStop    int          `json:"rstop,omitempty"`     // n > 0: after n-1 response bytes the peer stops reading (RStopAct)
	RStopAct string       `json:"rstop_act,omitempty"` // stop | close
	AtMS     int64        `json:"at,omitempty"`
}

// ---------------------------------------------------------------- raw peer: byte sequences

type h3Span struct {
	start, hdrEnd, end int
	f                  *H3RawFrame
}

func h3Varint(b []byte, v uint64, w int) []byte {
	if w > 0 {
		l := []int{0, 2, 4, 8}[w&3]
		if quicvarint.Len(v) <= l {
			return quicvarint.AppendWithLen(b, v, l)
		}
	}
	return quicvarint.Append(b, v)
}

func h3QPACK(fields [][2]string) []byte {
	var buf bytes.Buffer
	enc := qpack.NewEncoder(&buf)
	for _, f := range fields {
		enc.WriteField(qpack.HeaderField{Name: f[0], Value: f[1]})
	}
	enc.Close()
	return buf.Bytes()
}

func (x *h3Run) rawPath(idx int) string { return fmt.Sprintf("/s/%d/raw?i=%d", idx, idx) }

func h3RawDataLen(st *H3RawStream) int {
	n := 0
	for i := range st.Frames {
		if st.Frames[i].K == "data" {
			n += st.Frames[i].N
		}
	}
	return n
}

func (x *h3Run) rawReqFields(idx int, st *H3RawStream, v int) [][2]string {
	m := st.Method
	if m == "" {
		m = "POST"
	}
	f := [][2]string{{":method", m}, {":scheme", "https"}, {":authority", "raw.test"}, {":path", x.rawPath(idx)}}
	switch v {
	case 3:
		f = f[1:] // no :method
	case 7:
		f = append(f, [2]string{":method", m})
	case 9:
		f = append(f, [2]string{":status", "200"})
	}
	for _, kv := range st.Hdr {
		f = append(f, [2]string{strings.ToLower(kv.K), h3Val(kv)})
	}
	total := h3RawDataLen(st)
	switch st.CLDecl {
	case 1:
		f = append(f, [2]string{"content-length", strconv.Itoa(total)})
	case 2:
		f = append(f, [2]string{"content-length", strconv.Itoa(total + 7)})
	case 3:
		f = append(f, [2]string{"content-length", strconv.Itoa(max(total-1, 0))})
	}
	switch v {
	case 1:
		f = append(f, [2]string{"X-Upper", "1"})
	case 2:
		f = append(f, [2]string{":path", "/late"})
		f[3] = [2]string{"x-early", "1"}
	case 4:
		f = append(f, [2]string{"connection", "close"})
	case 8:
		f = append(f, [2]string{"te", "gzip"})
	}
	return f
}

var h3RawTrailer = [][2]string{{"x-raw-trl", "first"}, {"x-raw-trl", "second value"}, {"grpc-status", "0"}}

func (x *h3Run) rawBuild(idx int, st *H3RawStream) ([]byte, []h3Span) {
	var b []byte
	var spans []h3Span
	if st.Kind == "uni" {
		b = quicvarint.Append(b, st.UType)
	}
	dataOff := 0
	nHeaders := 0
	for i := range st.Frames {
		f := &st.Frames[i]
		var t uint64
		var pl []byte
		switch f.K {
		case "headers":
			t = 1
			switch {
			case x.sc.RawSrv && (f.V == 10 || nHeaders == 0):
				pl = h3QPACK(x.rawRespFields(idx, st, f.V))
			case nHeaders == 0:
				pl = h3QPACK(x.rawReqFields(idx, st, f.V))
			default:
				pl = h3QPACK(h3RawTrailer)
			}
			if f.V != 10 {
				nHeaders++
			}
		case "trailers":
			t, pl = 1, h3QPACK(h3RawTrailer)
			nHeaders++
		case "data":
			t, pl = 0, wPayload(KMix(x.sc.Seed, 0x5a, uint64(idx)), dataOff, f.N)
			dataOff += f.N
		case "settings":
			t = 4
			switch f.V {
			case 0:
				pl = quicvarint.Append(quicvarint.Append(pl, 0x6), 65536)
				pl = quicvarint.Append(quicvarint.Append(pl, 0x1f*9+0x21), 12345)
			case 1:
				pl = quicvarint.Append(quicvarint.Append(pl, 0x2), 0) // HTTP/2 ENABLE_PUSH: reserved
			case 3:
				pl = quicvarint.Append(quicvarint.Append(pl, 0x33), 1)
			}
		case "goaway":
			t, pl = 7, quicvarint.Append(nil, 0)
		case "cancel_push":
			t, pl = 3, quicvarint.Append(nil, 0)
		case "max_push_id":
			t, pl = 0xd, quicvarint.Append(nil, 3)
		case "push_promise":
			t, pl = 5, append(quicvarint.Append(nil, 0), h3QPACK([][2]string{{":method", "GET"}})...)
		default: // unk, reserved
			t, pl = f.T, NewKRng(KMix(x.sc.Seed, 0x5c, uint64(idx), uint64(i))).Bytes(f.N)
		}
		sp := h3Span{start: len(b), f: f}
		b = h3Varint(b, t, f.W)
		b = h3Varint(b, uint64(len(pl)), f.W)
		sp.hdrEnd = len(b)
		b = append(b, pl...)
		sp.end = len(b)
		spans = append(spans, sp)
	}
	return b, spans
}

// h3DeclaredCL: the content-length value the script's header section declares
func h3DeclaredCL(st *H3RawStream) (int, bool) {
	total := h3RawDataLen(st)
	switch st.CLDecl {
	case 1:
		return total, true
	case 2:
		return total + 7, true
	case 3:
		return max(total-1, 0), true
	}
	return 0, false
}

func h3RawCutoff(st *H3RawStream, total int) int {
	if st.CutPPM <= 0 {
		return total
	}
	return min(total, int(int64(total)*int64(st.CutPPM)/1000000))
}

// ---------------------------------------------------------------- raw peer: what RFC 9114 requires

type h3RawExpect struct {
	label    string
	want     string   // ok | conn | stream | any
	codes    []uint64 // acceptable error codes
	handler  int      // 0 must not be invoked, 1 must be invoked, 2 may be
	complete bool     // the handler sees the whole request, the peer the whole response
	bodyLen  int      // DATA bytes written by the peer (upper bound of what a handler can read)
	trailers bool
}

type h3RawConnState struct{ ctrl, qenc, qdec bool }

func h3Conn(label string, codes ...uint64) h3RawExpect {
	return h3RawExpect{label: label, want: "conn", codes: codes, handler: 2}
}

func (x *h3Run) rawExpectReq(idx int, st *H3RawStream, spans []h3Span, cutoff int) h3RawExpect {
	seenH, seenT := false, false
	body := 0
	headersBad := 0
	with := func(e h3RawExpect) h3RawExpect {
		e.bodyLen = body
		if !seenH || headersBad != 0 {
			e.handler = 0
		}
		return e
	}
	for _, sp := range spans {
		f := sp.f
		if sp.start >= cutoff {
			break
		}
		if sp.hdrEnd > cutoff {
			if st.End == "fin" {
				return with(h3Conn("frame header truncated by the end of the stream", 0x106))
			}
			return with(h3RawExpect{want: "any", handler: 2})
		}
		switch f.K {
		case "unk":
		case "reserved":
			return with(h3Conn("reserved (HTTP/2) frame type on a request stream", 0x105))
		case "settings", "goaway", "cancel_push", "max_push_id", "push_promise":
			return with(h3Conn(strings.ToUpper(f.K)+" frame on a request stream", 0x105))
		case "data":
			if !seenH {
				return with(h3Conn("DATA frame before HEADERS", 0x105))
			}
			if seenT {
				return with(h3Conn("DATA frame after the trailer section", 0x105))
			}
		case "headers", "trailers":
			if seenT {
				return with(h3Conn("HEADERS frame after the trailer section", 0x105))
			}
		}
		if sp.end > cutoff {
			if f.K == "data" {
				body += cutoff - sp.hdrEnd
			}
			if st.End == "fin" {
				k := strings.ToUpper(f.K)
				if f.K == "unk" {
					k = "unknown"
				}
				return with(h3Conn(k+" frame truncated by the end of the stream", 0x106))
			}
			return with(h3RawExpect{want: "any", handler: 2})
		}
		switch f.K {
		case "data":
			body += f.N
		case "headers", "trailers":
			if !seenH {
				seenH = true
				headersBad = f.V
			} else {
				seenT = true
			}
		}
		if headersBad != 0 {
			break
		}
	}
	if headersBad != 0 {
		return with(h3RawExpect{label: fmt.Sprintf("malformed request header section (variant %d)", headersBad), want: "stream", codes: []uint64{0x10e}})
	}
	switch st.End {
	case "fin":
		if !seenH {
			return with(h3RawExpect{label: "stream finished without a HEADERS frame", want: "any"})
		}
		// (against the DATA bytes that survive a cut at a frame boundary, not against the whole script)
		if cl, ok := h3DeclaredCL(st); ok && cl > body {
			return with(h3RawExpect{label: "content-length larger than the sum of the DATA frames", want: "stream", codes: []uint64{0x10e}, handler: 2})
		} else if ok && cl < body {
			return with(h3RawExpect{label: "content-length smaller than the sum of the DATA frames", want: "stream", codes: []uint64{0x10e}, handler: 2})
		}
		if st.RStop > 0 {
			return with(h3RawExpect{want: "any", handler: 1, trailers: seenT})
		}
		return with(h3RawExpect{want: "ok", handler: 1, complete: true, trailers: seenT})
	}
	return with(h3RawExpect{want: "any", handler: 2})
}

func (x *h3Run) rawExpectUni(st *H3RawStream, spans []h3Span, cutoff int, cs *h3RawConnState) h3RawExpect {
	tlen := quicvarint.Len(st.UType)
	if cutoff < tlen {
		return h3RawExpect{want: "any"}
	}
	switch st.UType {
	case 1:
		return h3Conn("push stream opened by the client", 0x103)
	case 2:
		if cs.qenc {
			return h3Conn("second QPACK encoder stream", 0x103)
		}
		cs.qenc = true
		return h3RawExpect{want: "ok"}
	case 3:
		if cs.qdec {
			return h3Conn("second QPACK decoder stream", 0x103)
		}
		cs.qdec = true
		return h3RawExpect{want: "ok"}
	case 0:
	default:
		return h3RawExpect{want: "ok"}
	}
	if cs.ctrl {
		return h3Conn("second control stream", 0x103)
	}
	cs.ctrl = true
	first := true
	for _, sp := range spans {
		f := sp.f
		if sp.start >= cutoff {
			break
		}
		if sp.hdrEnd > cutoff || sp.end > cutoff {
			if st.End == "fin" || st.End == "reset" {
				return h3Conn("control stream closed", 0x104, 0x106)
			}
			return h3RawExpect{want: "any"}
		}
		if first {
			first = false
			if f.K != "settings" {
				return h3Conn("control stream does not start with SETTINGS", 0x10a)
			}
			if f.V == 1 {
				return h3Conn("SETTINGS with a reserved HTTP/2 setting identifier", 0x109)
			}
			if f.V == 3 && x.sc.Opt.SrvDgram {
				// RFC 9297: SETTINGS_H3_DATAGRAM = 1 needs the QUIC datagram transport parameter
				plain := x.sc.Cfg.Client == "" || x.sc.Cfg.Client == "plain" || x.sc.Cfg.Client == "unil"
				switch {
				case plain && !x.sc.Cfg.Datagrams[0]:
					return h3Conn("SETTINGS_H3_DATAGRAM without QUIC datagram support", 0x109)
				case !plain:
					return h3RawExpect{want: "any"}
				}
			}
			continue
		}
		switch f.K {
		case "settings":
			return h3Conn("second SETTINGS frame on the control stream", 0x105)
		case "data", "headers", "trailers", "push_promise":
			return h3Conn(strings.ToUpper(f.K)+" frame on the control stream", 0x105)
		case "reserved":
			return h3Conn("reserved (HTTP/2) frame type on the control stream", 0x105)
		}
	}
	if st.End == "fin" || st.End == "reset" {
		return h3Conn("control stream closed", 0x104)
	}
	return h3RawExpect{want: "ok"}
}

// ---------------------------------------------------------------- raw peer: execution

type h3RawObs struct {
	ran      bool
	exp      h3RawExpect
	openErr  error
	writeErr error
	wrote    int
	resp     []byte
	respErr  error
	respEOF  bool
	connErr  error // cause of the connection's end, sampled after the stream's script and the waiting period
	calls    []*h3SrvObs
	stopped  bool
	sid      int64
}

type h3RawState struct {
	obs     []*h3RawObs
	conn    *quic.Conn
	ended   bool // an input that must be fatal for the connection has been sent: the history ends
	pingOK  bool
	pingRan bool
	pingErr string
	cause   [2]error
	// mirror class
	cli     []*h3Obs
	srvDone []chan struct{}
	cliDone []chan struct{}
	allDone chan struct{}
}

func (x *h3Run) rawWait() time.Duration {
	d := 4*time.Duration(x.sc.Net.LatencyUS+x.sc.Net.JitterUS)*time.Microsecond + 300*time.Millisecond
	if x.sc.Faulty {
		d += 3 * time.Second
	}
	return d
}

func (x *h3Run) runRaw(dial func(context.Context, string, *tls.Config, *quic.Config) (*quic.Conn, error)) {
	sc, res := x.sc, x.res
	rs := &h3RawState{obs: make([]*h3RawObs, len(sc.Streams))}
	x.raw = rs
	for i := range rs.obs {
		rs.obs[i] = &h3RawObs{}
	}
	tc := x.nodes.CTLS.Clone()
	conn, err := dial(x.runCtx, "", tc, x.nodes.CQ)
	if err != nil {
		if x.clean() {
			x.flag(4, "raw peer: QUIC handshake failed in a fault-free run: "+h3ErrClass(err), "%v", err)
		}
		return
	}
	rs.conn = conn
	select {
	case <-conn.HandshakeComplete():
	case <-conn.Context().Done():
	case <-x.runCtx.Done():
	}
	// the server's own unidirectional streams are drained
	var uwg sync.WaitGroup
	uwg.Add(1)
	go func() {
		defer uwg.Done()
		for {
			s, err := conn.AcceptUniStream(x.runCtx)
			if err != nil {
				return
			}
			uwg.Add(1)
			go func() {
				defer uwg.Done()
				io.Copy(io.Discard, s)
			}()
		}
	}()
	cs := &h3RawConnState{}
	for i := range sc.Streams {
		if rs.ended || conn.Context().Err() != nil || x.runCtx.Err() != nil {
			break
		}
		st := &sc.Streams[i]
		if st.AtMS > 0 {
			time.Sleep(time.Duration(st.AtMS) * time.Millisecond)
		}
		x.rawStream(i, st, cs)
	}
	// is the connection still usable?
	if !rs.ended && conn.Context().Err() == nil && x.runCtx.Err() == nil {
		rs.pingRan = true
		ping := &H3RawStream{Kind: "req", Method: "GET", Frames: []H3RawFrame{{K: "headers"}}, End: "fin", RespN: 10}
		o := &h3RawObs{}
		x.mu.Lock()
		rs.obs = append(rs.obs, o)
		x.mu.Unlock()
		x.rawExec(len(sc.Streams), ping, o)
		r := h3ParseResp(o.resp)
		rs.pingOK = o.respEOF && r.err == "" && r.status == 200
		rs.pingErr = fmt.Sprintf("write %v, read %v after %d bytes, parse %q status %d, connection %v", o.writeErr, o.respErr, len(o.resp), r.err, r.status, context.Cause(conn.Context()))
	}
	rs.cause = x.connCauses()
	conn.CloseWithError(0x100, "")
	uwg.Wait()
	time.Sleep(50 * time.Millisecond)
	_ = res
}

func (x *h3Run) rawStream(i int, st *H3RawStream, cs *h3RawConnState) {
	rs := x.raw
	o := rs.obs[i]
	b, spans := x.rawBuild(i, st)
	cutoff := h3RawCutoff(st, len(b))
	if st.Kind == "uni" {
		o.exp = x.rawExpectUni(st, spans, cutoff, cs)
	} else {
		o.exp = x.rawExpectReq(i, st, spans, cutoff)
	}
	if o.exp.label != "" {
		x.res.Fault("raw-anomaly")
	}
	x.rawExec(i, st, o)
	if o.exp.want == "conn" || st.End == "close" || (st.RStop > 0 && st.RStopAct == "close") {
		rs.ended = true
	}
}

// rawExec writes the stream's byte sequence in pieces, ends it as scripted, collects the reaction.
func (x *h3Run) rawExec(i int, st *H3RawStream, o *h3RawObs) {
	conn := x.raw.conn
	o.ran = true
	b, _ := x.rawBuild(i, st)
	b = b[:h3RawCutoff(st, len(b))]
	var wr io.Writer
	var finish func()
	var rdone chan struct{}
	switch st.Kind {
	case "uni":
		s, err := conn.OpenUniStreamSync(x.runCtx)
		if err != nil {
			o.openErr = err
			return
		}
		wr = s
		finish = func() {
			switch st.End {
			case "fin":
				s.Close()
			case "reset":
				time.Sleep(x.rawWait() / 2) // RESET_STREAM discards unread data: let the bytes be consumed first
				s.CancelWrite(0x10c)
			}
		}
	default:
		s, err := conn.OpenStreamSync(x.runCtx)
		if err != nil {
			o.openErr = err
			return
		}
		wr = s
		finish = func() {
			switch st.End {
			case "fin":
				s.Close()
			case "reset":
				s.CancelWrite(0x10c)
			}
		}
		rdone = make(chan struct{})
		go func() {
			defer close(rdone)
			buf := make([]byte, 4096)
			for {
				if st.RStop > 0 && len(o.resp) >= st.RStop-1 {
					o.stopped = true
					x.res.Fault("raw-peer-stops-reading")
					if st.RStopAct == "close" {
						conn.CloseWithError(0x100, "")
					} else {
						s.CancelRead(0x10c)
					}
					return
				}
				n, err := s.Read(buf)
				o.resp = append(o.resp, buf[:n]...)
				if err == io.EOF {
					o.respEOF = true
					return
				}
				if err != nil {
					o.respErr = err
					return
				}
			}
		}()
	}
	for k, off := 0, 0; off < len(b); k++ {
		n := len(b) - off
		if st.Split != 0 {
			n = min(n, NewKRng(KMix(uint64(st.Split), uint64(k))).Pick(1, 1, 2, 3, 5, 17, 100, 1000, 1200, 5000))
		}
		m, err := wr.Write(b[off : off+n])
		o.wrote += m
		if err != nil {
			o.writeErr = err
			break
		}
		off += n
		if st.GapUS > 0 && off < len(b) {
			time.Sleep(time.Duration(st.GapUS) * time.Microsecond)
		}
	}
	if st.End == "close" {
		x.res.Fault("raw-peer-closes-connection")
		conn.CloseWithError(0x100, "")
	} else if o.writeErr == nil {
		finish()
	}
	wait := x.rawWait()
	if rdone != nil && o.exp.want != "conn" {
		// a response (or a stream error) is due; a scripted end that leaves the request unfinished gets the short wait
		if o.exp.want == "ok" || st.End == "fin" {
			wait += 3 * time.Second
		}
		select {
		case <-rdone:
		case <-time.After(wait):
		case <-conn.Context().Done():
		}
	} else {
		select {
		case <-conn.Context().Done():
		case <-time.After(wait):
		}
	}
	o.connErr = context.Cause(conn.Context())
	if rdone != nil {
		select {
		case <-rdone:
		default:
			// unblock the reader: nothing more is expected on this stream
			if s, ok := wr.(*quic.Stream); ok {
				s.CancelRead(0x10c)
			}
			<-rdone
			o.respErr = nil
		}
	}
}

// ---------------------------------------------------------------- raw peer: response parser

type h3RawResp struct {
	status int
	hdr    http.Header
	ninfo  int
	body   []byte
	trl    http.Header
	err    string
}

func h3ParseResp(b []byte) h3RawResp {
	r := h3RawResp{}
	dec := qpack.NewDecoder()
	for len(b) > 0 {
		t, n, err := quicvarint.Parse(b)
		if err != nil {
			r.err = "truncated frame type"
			return r
		}
		b = b[n:]
		l, n, err := quicvarint.Parse(b)
		if err != nil {
			r.err = "truncated frame length"
			return r
		}
		b = b[n:]
		if uint64(len(b)) < l {
			r.err = "truncated frame payload"
			if t == 0 {
				r.body = append(r.body, b...)
			}
			return r
		}
		pl := b[:l]
		b = b[l:]
		switch t {
		case 0:
			if r.status == 0 {
				r.err = "DATA before HEADERS"
				return r
			}
			r.body = append(r.body, pl...)
		case 1:
			h := http.Header{}
			status := 0
			next := dec.Decode(pl)
			for {
				hf, err := next()
				if err == io.EOF {
					break
				}
				if err != nil {
					r.err = "header block does not decode"
					return r
				}
				if hf.Name == ":status" {
					status, _ = strconv.Atoi(hf.Value)
				} else {
					h.Add(hf.Name, hf.Value)
				}
			}
			switch {
			case r.status == 0 && status >= 100 && status < 200:
				r.ninfo++
			case r.status == 0:
				r.status, r.hdr = status, h
			case r.trl == nil:
				r.trl = h
			default:
				r.err = "HEADERS after trailers"
				return r
			}
		}
	}
	return r
}

// ---------------------------------------------------------------- raw peer: handler

func (x *h3Run) serveRaw(w http.ResponseWriter, r *http.Request) {
	i, ok := h3ParseID(r.URL.Path, "/s/")
	if !ok || i > len(x.sc.Streams) {
		x.flag(1, "handler invoked for a request nobody sent", "%s %s", r.Method, r.RequestURI)
		w.WriteHeader(400)
		return
	}
	var st *H3RawStream
	if i == len(x.sc.Streams) {
		st = &H3RawStream{Kind: "req", Method: "GET", RespN: 10}
	} else {
		st = &x.sc.Streams[i]
	}
	x.mu.Lock()
	o := x.raw.obs[i]
	x.mu.Unlock()
	so := &h3SrvObs{method: r.Method, uri: r.RequestURI, host: r.Host, proto: r.Proto, hdr: r.Header.Clone(), cl: r.ContentLength, t0: x.w.NowNS()}
	defer func() { so.t1 = x.w.NowNS() }()
	x.mu.Lock()
	o.calls = append(o.calls, so)
	x.mu.Unlock()
	what := fmt.Sprintf("raw stream #%d", i)
	wantM := st.Method
	if wantM == "" {
		wantM = "POST"
	}
	if so.method != wantM || so.uri != x.rawPath(i) || so.host != "raw.test" {
		x.flag(0, "handler saw a different request line than the raw peer sent", "%s: %s %s host %s", what, so.method, so.uri, so.host)
	}
	want := http.Header{}
	for _, kv := range st.Hdr {
		want.Add(kv.K, h3Val(kv))
	}
	if c := want["Cookie"]; len(c) > 0 {
		want["Cookie"] = []string{strings.Join(c, "; ")}
	}
	got := so.hdr.Clone()
	delete(got, "Content-Length")
	if kind, d := h3HdrDiff(want, got, nil); kind != "" {
		x.flag(0, "request header fields seen by the handler differ from those the raw peer sent: "+kind, "%s: %s", what, d)
	}
	x.srvReadBody(what, so, r.Body, KMix(x.sc.Seed, 0x5a, uint64(i)), int64(i)*7+3, -1, h3RawDataLen(st))
	if so.bodyEOF {
		so.trl = r.Trailer.Clone()
	}
	hd := w.Header()
	hd.Set("X-Raw", strconv.Itoa(i))
	hd.Set("Content-Type", "application/x-raw")
	if st.RespTrl {
		hd.Set("Trailer", "X-Resp-Trl")
	}
	if so.bodyErr != nil {
		w.WriteHeader(400)
	}
	key := KMix(x.sc.Seed, 0x5b, uint64(i))
	for k, off := 0, 0; off < st.RespN; k++ {
		n := min(h3Chunk(int64(i)+11, k), st.RespN-off)
		if _, err := w.Write(wPayload(key, off, n)); err != nil {
			so.writeErr = err
			break
		}
		off += n
		if k%2 == 0 {
			w.(http.Flusher).Flush()
		}
	}
	if st.RespTrl {
		hd.Set("X-Resp-Trl", "done")
	}
	so.done = true
}

// ---------------------------------------------------------------- raw peer: verdicts

func h3RawGot(o *h3RawObs, r *h3RawResp) (kind string, code uint64, text string) {
	var ae *quic.ApplicationError
	var se *quic.StreamError
	var te *quic.TransportError
	if o.connErr != nil && errors.As(o.connErr, &ae) && ae.Remote {
		return "conn", uint64(ae.ErrorCode), "connection error " + h3ErrName(uint64(ae.ErrorCode))
	}
	if o.connErr != nil && errors.As(o.connErr, &te) {
		return "dead", 0, "transport error"
	}
	if o.respErr != nil && errors.As(o.respErr, &se) && se.Remote {
		return "stream", uint64(se.ErrorCode), "stream error " + h3ErrName(uint64(se.ErrorCode))
	}
	if r.status != 0 {
		return "response", uint64(r.status), "a response"
	}
	if o.writeErr != nil && errors.As(o.writeErr, &se) && se.Remote {
		return "stream", uint64(se.ErrorCode), "STOP_SENDING " + h3ErrName(uint64(se.ErrorCode))
	}
	if o.connErr != nil {
		return "dead", 0, "connection ended"
	}
	return "none", 0, "no reaction"
}

func (x *h3Run) judgeRaw() {
	sc, res, rs := x.sc, x.res, x.raw
	if rs == nil {
		return
	}
	for i := range sc.Streams {
		st, o := &sc.Streams[i], rs.obs[i]
		if !o.ran {
			continue
		}
		e := o.exp
		r := h3ParseResp(o.resp)
		kind, code, text := h3RawGot(o, &r)
		what := fmt.Sprintf("raw stream #%d (%s type %d, %d frames, cut %d ppm, end %s)", i, st.Kind, st.UType, len(st.Frames), st.CutPPM, st.End)
		res.TraceAdd(fmt.Sprintf("%d:%s:%d:%d:%d:%d", i, kind, code, len(o.resp), o.wrote, len(o.calls)))
		res.Logf("%s: expect %s %v %q handler=%d complete=%v body=%d | got %s; wrote %d writeErr=%v resp %d bytes eof=%v err=%v parse=%q status=%d calls=%d connErr=%v", what, e.want, e.codes, e.label,
			e.handler, e.complete, e.bodyLen, text, o.wrote, o.writeErr, len(o.resp), o.respEOF, o.respErr, r.err, r.status, len(o.calls), o.connErr)
		if o.openErr != nil {
			continue
		}
		label := e.label
		if label == "" {
			label = "well-formed input"
		}
		res.Probe("raw:" + label + " -> " + text)
		okCode := func() bool {
			for _, c := range e.codes {
				if c == code {
					return true
				}
			}
			return false
		}
		req := func(k string) string {
			var n []string
			for _, c := range e.codes {
				n = append(n, h3ErrName(c))
			}
			return k + " " + strings.Join(n, " or ")
		}
		// ---- handler side
		for _, so := range o.calls {
			res.Logf("   call: [%d..%d us] cl=%d bodyN=%d eof=%v err=%v trl=%v done=%v", so.t0/1000, so.t1/1000, so.cl, so.bodyN, so.bodyEOF, so.bodyErr, so.trl, so.done)
			if e.handler == 0 && e.want == "any" {
				x.flag(3, "raw peer: "+label+": handler invoked", "%s", what)
			}
			if so.bodyEOF && e.complete {
				if so.bodyN != e.bodyLen {
					x.flag(0, "raw peer: request body truncated: handler reached a clean EOF before all DATA bytes", "%s: %d of %d", what, so.bodyN, e.bodyLen)
				}
				var wt http.Header
				if e.trailers {
					wt = http.Header{}
					for _, f := range h3RawTrailer {
						wt.Add(f[0], f[1])
					}
				}
				if kind, d := h3HdrDiff(wt, h3NonEmpty(so.trl), nil); kind != "" {
					x.flag(0, "raw peer: request trailers seen by the handler differ from those sent: "+kind, "%s: %s", what, d)
				}
			}
		}
		if len(o.calls) > 1 {
			x.flag(1, "handler invoked more than once for one request", "%s", what)
		}
		// ---- reaction seen by the peer
		if text == "transport error" {
			continue
		}
		switch e.want {
		case "conn":
			switch {
			case kind == "conn" && okCode():
			case kind == "conn":
				x.flag(3, "raw peer: "+label+": RFC 9114 requires "+req("connection error")+", observed "+text, "%s", what)
			case sc.Faulty && (kind == "none" || kind == "dead"):
			default:
				x.flag(3, "raw peer: "+label+": RFC 9114 requires "+req("connection error")+", observed "+text, "%s", what)
			}
		case "stream":
			switch {
			case kind == "stream" && okCode():
			case sc.Faulty && (kind == "none" || kind == "dead"):
			default:
				x.flag(3, "raw peer: "+label+": RFC 9114 requires "+req("stream error")+", observed "+text, "%s", what)
			}
		case "ok":
			if st.Kind == "uni" {
				if kind == "conn" {
					x.flag(3, "raw peer: "+label+" on a unidirectional stream must be tolerated, observed "+text, "%s", what)
				}
				break
			}
			switch {
			case kind == "response" && !(o.respEOF && r.err == ""):
				if !sc.Faulty {
					x.flag(4, "raw peer: response to a well-formed request incomplete within the waiting period", "%s: %d bytes, parse %q, read error %v", what, len(o.resp), r.err, o.respErr)
				}
			case kind == "response":
				if r.status != 200 {
					x.flag(3, "raw peer: well-formed request answered with an error status", "%s: %d", what, r.status)
				}
				if len(r.body) != st.RespN || wCheckPayload(KMix(sc.Seed, 0x5b, uint64(i)), 0, r.body) >= 0 {
					x.flag(0, "raw peer: response body differs from what the handler wrote", "%s: %d bytes vs %d", what, len(r.body), st.RespN)
				}
				if r.hdr.Get("X-Raw") != strconv.Itoa(i) {
					x.flag(0, "raw peer: response header differs from what the handler wrote", "%s: %v", what, r.hdr)
				}
				if st.RespTrl && (r.trl == nil || r.trl.Get("X-Resp-Trl") != "done") {
					x.flag(0, "raw peer: response trailers missing", "%s: %v", what, r.trl)
				}
				if len(o.calls) == 0 {
					x.flag(1, "raw peer: response although the handler was never invoked", "%s", what)
				}
			case sc.Faulty:
			default:
				x.flag(3, "raw peer: well-formed request (unknown frames, arbitrary write boundaries) not answered: "+text, "%s: response parse %q after %d bytes", what, r.err, len(o.resp))
			}
		case "any":
			if kind == "response" && len(o.calls) == 0 {
				x.flag(1, "raw peer: response although the handler was never invoked", "%s", what)
			}
		}
	}
	if rs.pingRan && !rs.pingOK && !sc.Faulty {
		x.flag(4, "raw peer: connection unusable after inputs that must be tolerated", "%s", rs.pingErr)
	} else if rs.pingOK {
		res.Probe("raw:connection-alive-at-end")
	}
	// cross-check: the CONNECTION_CLOSE the peer's API reported is the one on the wire
	var ae *quic.ApplicationError
	if rs.conn != nil {
		if c := context.Cause(rs.conn.Context()); c != nil && errors.As(c, &ae) && ae.Remote {
			seen := false
			for _, p := range x.w.Tap.All {
				if p.Dir != 1 {
					continue
				}
				for k := range p.Frames {
					if f := &p.Frames[k]; f.Name == "CONNECTION_CLOSE_APP" {
						seen = true
						if f.Code != uint64(ae.ErrorCode) {
							x.flag(1, "CONNECTION_CLOSE code on the wire differs from the code reported to the peer", "wire %#x api %#x", f.Code, uint64(ae.ErrorCode))
						}
					}
				}
			}
			if seen {
				res.Probe("raw:close-code-confirmed-on-the-wire")
			}
		}
	}
	x.judgeConn(rs.cause, false)
}

// ---------------------------------------------------------------- raw peer: generator

func h3GenRawReq(r *KRng) H3RawStream {
	st := H3RawStream{Kind: "req", End: "fin", Method: []string{"POST", "PUT", "GET", "PATCH"}[r.N(4)]}
	unk := func() H3RawFrame {
		t := uint64(0x1f*r.N(1000) + 0x21)
		if r.P(0.4) {
			t = uint64(r.Pick(0x40, 0xff, 0x4000, 0x1234567, 0xe, 0xa, 0xb, 0xc))
		}
		return H3RawFrame{K: "unk", T: t, N: r.Pick(0, 1, 5, 100, 1500, 9000), W: r.N(4)}
	}
	maybeUnk := func() {
		for r.P(0.3) {
			st.Frames = append(st.Frames, unk())
		}
	}
	maybeUnk()
	st.Frames = append(st.Frames, H3RawFrame{K: "headers", W: r.N(4)})
	if st.Method != "GET" || r.P(0.2) {
		for k, n := 0, r.N(4); k < n; k++ {
			maybeUnk()
			st.Frames = append(st.Frames, H3RawFrame{K: "data", N: r.Pick(0, 1, 100, 1200, 5000, 20000), W: r.N(4)})
		}
		st.CLDecl = r.Pick(0, 0, 1)
		if r.P(0.3) {
			maybeUnk()
			st.Frames = append(st.Frames, H3RawFrame{K: "trailers", W: r.N(4)})
		}
	}
	maybeUnk()
	for k, n := 0, r.N(3); k < n; k++ {
		st.Hdr = append(st.Hdr, H3KV{K: fmt.Sprintf("x-raw-%d", k), V: "v", Pad: r.Pick(0, 10, 300)})
	}
	if r.P(0.2) {
		st.Hdr = append(st.Hdr, H3KV{K: "cookie", V: "a=1"}, H3KV{K: "cookie", V: "b=2"})
	}
	if r.P(0.7) {
		st.Split = int64(r.U64()>>1) | 1
		st.GapUS = int64(r.Pick(0, 0, 50, 1000, 12000))
	}
	st.RespN = r.Pick(0, 10, 1000, 5000, 30000)
	st.RespTrl = r.P(0.3)
	return st
}

func h3ClampRaw(sc *H3Scenario, limit int) {
	for i := range sc.Streams {
		st := &sc.Streams[i]
		st.RespN = min(st.RespN, limit)
		for k := range st.Frames {
			st.Frames[k].N = min(st.Frames[k].N, limit)
		}
	}
}

func genH3Raw(r *KRng, sc *H3Scenario, tier string) {
	ctrl := H3RawStream{Kind: "uni", UType: 0, End: "open", Frames: []H3RawFrame{{K: "settings", V: r.Pick(0, 0, 2, 3)}}}
	if r.P(0.3) {
		ctrl.Frames = append(ctrl.Frames, H3RawFrame{K: "unk", T: uint64(0x1f*r.N(50) + 0x21), N: r.N(30)})
	}
	if r.P(0.2) {
		ctrl.Frames = append(ctrl.Frames, H3RawFrame{K: "max_push_id"})
	}
	if r.P(0.5) {
		ctrl.Split = int64(r.U64()>>1) | 1
		ctrl.GapUS = int64(r.Pick(0, 100, 5000))
	}
	if r.P(0.9) {
		sc.Streams = append(sc.Streams, ctrl)
	}
	n := r.Pick(1, 1, 2, 3, 5)
	for i := 0; i < n; i++ {
		switch r.N(10) {
		case 0:
			sc.Streams = append(sc.Streams, H3RawStream{Kind: "uni", UType: uint64(0x1f*r.N(100) + 0x21), End: []string{"open", "fin", "reset"}[r.N(3)], Frames: []H3RawFrame{{K: "unk", T: 0x21, N: r.N(200)}}})
		case 1:
			sc.Streams = append(sc.Streams, H3RawStream{Kind: "uni", UType: uint64(r.Pick(2, 3, 0x54, 0x41)), End: "open"})
		default:
			sc.Streams = append(sc.Streams, h3GenRawReq(r))
		}
	}
	if r.P(0.6) {
		// one anomalous stream
		st := h3GenRawReq(r)
		pos := func() int { return r.N(len(st.Frames) + 1) }
		insert := func(f H3RawFrame, at int) {
			st.Frames = append(st.Frames[:at], append([]H3RawFrame{f}, st.Frames[at:]...)...)
		}
		switch r.N(20) {
		case 0:
			insert(H3RawFrame{K: "data", N: r.Pick(0, 10, 2000)}, 0)
		case 1:
			insert(H3RawFrame{K: []string{"settings", "goaway", "cancel_push", "max_push_id", "push_promise"}[r.N(5)]}, pos())
		case 2:
			insert(H3RawFrame{K: "reserved", T: uint64(r.Pick(2, 6, 8, 9)), N: r.Pick(0, 5, 100)}, pos())
		case 3:
			st.Frames = append(st.Frames, H3RawFrame{K: "trailers"}, H3RawFrame{K: "trailers"})
		case 4:
			st.Frames = append(st.Frames, H3RawFrame{K: "trailers"}, H3RawFrame{K: "data", N: r.Pick(0, 1, 1000)})
		case 5:
			for k := range st.Frames {
				if st.Frames[k].K == "headers" {
					st.Frames[k].V = r.Pick(1, 2, 3, 4, 7, 8, 9)
				}
			}
		case 6:
			st.CLDecl = r.Pick(2, 3)
			if h3RawDataLen(&st) == 0 {
				st.Frames = append(st.Frames, H3RawFrame{K: "data", N: 100})
			}
		case 7, 8, 9:
			st.CutPPM = 1 + r.N(999999)
			st.End = []string{"fin", "fin", "reset", "close"}[r.N(4)]
		case 10:
			st.RStop = 1 + r.Pick(0, 1, 100, 3000)
			st.RStopAct = []string{"stop", "close"}[r.N(2)]
		case 11:
			st.Frames = nil
			for r.P(0.5) {
				st.Frames = append(st.Frames, H3RawFrame{K: "unk", T: 0x21, N: r.N(50)})
			}
		case 12:
			st = H3RawStream{Kind: "uni", UType: 0, End: "open", Frames: []H3RawFrame{{K: "settings"}}} // second control stream (or a first one)
		case 13:
			st = H3RawStream{Kind: "uni", UType: 1, End: "open", Frames: []H3RawFrame{{K: "unk", T: 0x21, N: 3}}}
		case 14:
			st = H3RawStream{Kind: "uni", UType: uint64(r.Pick(2, 3)), End: "open"}
			sc.Streams = append(sc.Streams, st)
		case 15:
			// anomalies on the (first) control stream
			c := H3RawStream{Kind: "uni", UType: 0, End: "open"}
			switch r.N(6) {
			case 0:
				c.Frames = []H3RawFrame{{K: []string{"data", "goaway", "max_push_id", "headers"}[r.N(4)], N: 3}}
			case 1:
				c.Frames = []H3RawFrame{{K: "settings", V: 1}}
			case 2:
				c.Frames = []H3RawFrame{{K: "settings"}, {K: "settings", V: 2}}
			case 3:
				c.Frames = []H3RawFrame{{K: "settings"}, {K: []string{"data", "headers", "reserved"}[r.N(3)], T: 6, N: 4}}
			case 4:
				c.Frames = []H3RawFrame{{K: "settings"}}
				c.End = []string{"fin", "reset"}[r.N(2)]
			case 5:
				c.Frames = []H3RawFrame{{K: "settings"}, {K: "unk", T: 0x21, N: 40}}
				c.CutPPM = 1 + r.N(999999)
				c.End = []string{"fin", "reset", "open"}[r.N(3)]
			}
			if len(sc.Streams) > 0 && sc.Streams[0].Kind == "uni" && sc.Streams[0].UType == 0 {
				sc.Streams = sc.Streams[1:]
			}
			st = c
		}
		at := r.N(len(sc.Streams) + 1)
		if r.P(0.5) {
			at = len(sc.Streams)
		}
		sc.Streams = append(sc.Streams[:at], append([]H3RawStream{st}, sc.Streams[at:]...)...)
	}
}

// ---------------------------------------------------------------- mirror image: scripted server against http3.Transport

func (x *h3Run) rawRespFields(idx int, st *H3RawStream, v int) [][2]string {
	if v == 10 {
		return [][2]string{{":status", "103"}, {"link", "</a.css>; rel=preload"}}
	}
	f := [][2]string{{":status", "200"}, {"x-raw-srv", strconv.Itoa(idx)}, {"content-type", "application/x-raw"}}
	switch v {
	case 3:
		f = f[1:]
	case 7:
		f = append(f, [2]string{":status", "200"})
	case 9:
		f = append(f, [2]string{":method", "GET"})
	}
	for _, kv := range st.Hdr {
		f = append(f, [2]string{strings.ToLower(kv.K), h3Val(kv)})
	}
	total := h3RawDataLen(st)
	switch st.CLDecl {
	case 1:
		f = append(f, [2]string{"content-length", strconv.Itoa(total)})
	case 2:
		f = append(f, [2]string{"content-length", strconv.Itoa(total + 7)})
	case 3:
		f = append(f, [2]string{"content-length", strconv.Itoa(max(total-1, 0))})
	}
	switch v {
	case 1:
		f = append(f, [2]string{"X-Upper", "1"})
	case 2:
		f = append(f, [2]string{":status", "200"})
		f[0] = [2]string{"x-early", "1"}
	case 4:
		f = append(f, [2]string{"connection", "close"})
	}
	return f
}

// what RFC 9114 requires of a client that receives the scripted response
func (x *h3Run) rawExpectResp(idx int, st *H3RawStream, spans []h3Span, cutoff int) h3RawExpect {
	seenH, seenT := false, false
	body, ninfo, bad := 0, 0, 0
	with := func(e h3RawExpect) h3RawExpect {
		e.bodyLen = body
		e.handler = ninfo
		return e
	}
	for _, sp := range spans {
		f := sp.f
		if sp.start >= cutoff {
			break
		}
		if sp.hdrEnd > cutoff {
			if st.End == "fin" {
				return with(h3Conn("frame header truncated by the end of the stream", 0x106))
			}
			return with(h3RawExpect{want: "any"})
		}
		switch f.K {
		case "unk", "push_promise":
		case "reserved":
			return with(h3Conn("reserved (HTTP/2) frame type on a response stream", 0x105))
		case "settings", "goaway", "cancel_push", "max_push_id":
			return with(h3Conn(strings.ToUpper(f.K)+" frame on a response stream", 0x105))
		case "data":
			if !seenH {
				return with(h3Conn("DATA frame before HEADERS", 0x105))
			}
			if seenT {
				return with(h3Conn("DATA frame after the trailer section", 0x105))
			}
		case "headers", "trailers":
			if seenT {
				return with(h3Conn("HEADERS frame after the trailer section", 0x105))
			}
		}
		if sp.end > cutoff {
			if f.K == "data" {
				body += cutoff - sp.hdrEnd
			}
			if st.End == "fin" {
				k := strings.ToUpper(f.K)
				if f.K == "unk" {
					k = "unknown"
				}
				return with(h3Conn(k+" frame truncated by the end of the stream", 0x106))
			}
			return with(h3RawExpect{want: "any"})
		}
		switch f.K {
		case "data":
			body += f.N
		case "headers", "trailers":
			switch {
			case !seenH && f.V == 10:
				ninfo++
			case !seenH:
				seenH, bad = true, f.V
			default:
				seenT = true
			}
		}
		if bad != 0 {
			return with(h3RawExpect{label: fmt.Sprintf("malformed response header section (variant %d)", bad), want: "stream", codes: []uint64{0x10e}})
		}
	}
	if st.End != "fin" || st.Split == -1 {
		return with(h3RawExpect{want: "any"})
	}
	if !seenH {
		return with(h3RawExpect{label: "response stream finished without a final HEADERS frame", want: "cerr"})
	}
	if cl, ok := h3DeclaredCL(st); ok && cl > body {
		return with(h3RawExpect{label: "content-length larger than the sum of the DATA frames", want: "cerr"})
	} else if ok && cl < body {
		return with(h3RawExpect{label: "content-length smaller than the sum of the DATA frames", want: "cerr"})
	}
	return with(h3RawExpect{want: "ok", complete: true, trailers: seenT})
}

func (x *h3Run) rawExpectSrvUni(st *H3RawStream, spans []h3Span, cutoff int, cs *h3RawConnState) h3RawExpect {
	if cutoff < quicvarint.Len(st.UType) {
		return h3RawExpect{want: "any"}
	}
	switch st.UType {
	case 1:
		return h3Conn("push stream although the client never sent MAX_PUSH_ID", 0x108)
	case 2:
		if cs.qenc {
			return h3Conn("second QPACK encoder stream", 0x103)
		}
		cs.qenc = true
		return h3RawExpect{want: "ok"}
	case 3:
		if cs.qdec {
			return h3Conn("second QPACK decoder stream", 0x103)
		}
		cs.qdec = true
		return h3RawExpect{want: "ok"}
	case 0:
	default:
		return h3RawExpect{want: "ok"}
	}
	if cs.ctrl {
		return h3Conn("second control stream", 0x103)
	}
	cs.ctrl = true
	first := true
	for _, sp := range spans {
		f := sp.f
		if sp.start >= cutoff {
			break
		}
		if sp.hdrEnd > cutoff || sp.end > cutoff {
			if st.End == "fin" || st.End == "reset" {
				return h3Conn("control stream closed", 0x104, 0x106)
			}
			return h3RawExpect{want: "any"}
		}
		if first {
			first = false
			if f.K != "settings" {
				return h3Conn("control stream does not start with SETTINGS", 0x10a)
			}
			if f.V == 1 {
				return h3Conn("SETTINGS with a reserved HTTP/2 setting identifier", 0x109)
			}
			if f.V == 3 {
				return h3RawExpect{want: "any"}
			}
			continue
		}
		switch f.K {
		case "settings":
			return h3Conn("second SETTINGS frame on the control stream", 0x105)
		case "data", "headers", "trailers", "push_promise":
			return h3Conn(strings.ToUpper(f.K)+" frame on the control stream", 0x105)
		case "max_push_id":
			return h3Conn("MAX_PUSH_ID frame sent by a server", 0x105)
		case "reserved":
			return h3Conn("reserved (HTTP/2) frame type on the control stream", 0x105)
		case "goaway":
			return h3RawExpect{want: "any"}
		}
	}
	if st.End == "fin" || st.End == "reset" {
		return h3Conn("control stream closed", 0x104)
	}
	return h3RawExpect{want: "ok"}
}

// rawServer: the scripted server. It serves the first connection only.
func (x *h3Run) rawServer(ln *h3Listener) {
	sc, rs := x.sc, x.raw
	conn, err := ln.Accept(x.runCtx)
	if err != nil {
		for _, ch := range rs.srvDone {
			close(ch)
		}
		return
	}
	x.mu.Lock()
	rs.conn = conn
	x.mu.Unlock()
	var wg sync.WaitGroup
	defer wg.Wait()
	wg.Add(1)
	go func() {
		defer wg.Done()
		for {
			s, err := conn.AcceptUniStream(x.runCtx)
			if err != nil {
				return
			}
			wg.Add(1)
			go func() {
				defer wg.Done()
				io.Copy(io.Discard, s)
			}()
		}
	}()
	cs := &h3RawConnState{}
	for i := range sc.Streams {
		st, o := &sc.Streams[i], rs.obs[i]
		if rs.ended || conn.Context().Err() != nil || x.runCtx.Err() != nil {
			close(rs.srvDone[i])
			continue
		}
		b, spans := x.rawBuild(i, st)
		cutoff := h3RawCutoff(st, len(b))
		b = b[:cutoff]
		o.ran = true
		var wr io.Writer
		var finish func()
		wait := x.rawWait()
		if st.Kind == "uni" {
			o.exp = x.rawExpectSrvUni(st, spans, cutoff, cs)
			s, err := conn.OpenUniStreamSync(x.runCtx)
			if err != nil {
				o.openErr = err
				close(rs.srvDone[i])
				continue
			}
			wr = s
			finish = func() {
				switch st.End {
				case "fin":
					s.Close()
				case "reset":
					time.Sleep(wait / 2) // RESET_STREAM discards unread data: let the bytes be consumed first
					s.CancelWrite(0x102)
				}
			}
		} else {
			o.exp = x.rawExpectResp(i, st, spans, cutoff)
			actx, cancel := context.WithTimeout(x.runCtx, wait+10*time.Second)
			s, err := conn.AcceptStream(actx)
			cancel()
			if err != nil {
				o.openErr = err
				close(rs.srvDone[i])
				continue
			}
			wr = s
			o.sid = int64(s.StreamID())
			wg.Add(1)
			go func() {
				defer wg.Done()
				_, o.respErr = io.Copy(io.Discard, s) // the request; its error is the reset code the client used, if any
			}()
			finish = func() {
				switch st.End {
				case "fin":
					s.Close()
				case "reset":
					s.CancelWrite(0x102)
				}
			}
		}
		if o.exp.label != "" {
			x.res.Fault("raw-anomaly")
		}
		for k, off := 0, 0; off < len(b); k++ {
			n := len(b) - off
			if st.Split > 0 {
				n = min(n, NewKRng(KMix(uint64(st.Split), uint64(k))).Pick(1, 1, 2, 3, 5, 17, 100, 1000, 1200, 5000))
			}
			m, err := wr.Write(b[off : off+n])
			o.wrote += m
			if err != nil {
				o.writeErr = err
				break
			}
			off += n
			if st.GapUS > 0 && off < len(b) {
				time.Sleep(time.Duration(st.GapUS) * time.Microsecond)
			}
		}
		if st.End == "close" {
			x.res.Fault("raw-peer-closes-connection")
			conn.CloseWithError(0x100, "")
		} else if o.writeErr == nil {
			finish()
		}
		if st.Kind == "uni" {
			select {
			case <-conn.Context().Done():
			case <-time.After(wait):
			}
		} else {
			select {
			case <-rs.cliDone[i]:
				if o.exp.want == "conn" {
					select {
					case <-conn.Context().Done():
					case <-time.After(wait):
					}
				}
			case <-time.After(wait + 12*time.Second):
			}
		}
		o.connErr = context.Cause(conn.Context())
		if o.exp.want == "conn" || st.End == "close" {
			rs.ended = true
		}
		close(rs.srvDone[i])
	}
	// keep the connection until the client driver is done, then close it
	select {
	case <-rs.allDone:
	case <-x.runCtx.Done():
	}
	x.mu.Lock()
	rs.cause = [2]error{nil, context.Cause(conn.Context())}
	x.mu.Unlock()
	conn.CloseWithError(0x100, "")
}

func (x *h3Run) runRawSrvClient(dial func(context.Context, string, *tls.Config, *quic.Config) (*quic.Conn, error), discard *slog.Logger) {
	sc, o := x.sc, &x.sc.Opt
	rs := x.raw
	h3t := &http3.Transport{TLSClientConfig: x.nodes.CTLS, QUICConfig: x.nodes.CQ, Dial: dial, EnableDatagrams: o.CliDgram,
		MaxResponseHeaderBytes: o.MaxRespHdr, DisableCompression: true}
	if o.CliLogger {
		h3t.Logger = discard
	}
	x.h3t = h3t
	defer close(rs.allDone)
	for i := range sc.Streams {
		st := &sc.Streams[i]
		if st.Kind == "uni" {
			x.mu.Lock()
			have := rs.conn != nil
			x.mu.Unlock()
			if have {
				<-rs.srvDone[i]
			}
			continue
		}
		if rs.ended || x.runCtx.Err() != nil {
			close(rs.cliDone[i])
			continue
		}
		// the uni scripts in front of this one have been executed (if there is a connection to execute them on)
		x.mu.Lock()
		have := rs.conn != nil
		x.mu.Unlock()
		if have {
			for j := 0; j < i; j++ {
				<-rs.srvDone[j]
			}
			if rs.ended {
				close(rs.cliDone[i])
				continue
			}
		}
		x.rawSrvRequest(i, st)
		close(rs.cliDone[i])
		<-rs.srvDone[i]
	}
	for i := range sc.Streams {
		<-rs.srvDone[i]
	}
}

func (x *h3Run) rawSrvRequest(i int, st *H3RawStream) {
	co := x.raw.cli[i]
	ctx, cancel := context.WithTimeout(x.runCtx, x.rawWait()+8*time.Second)
	defer cancel()
	ctx = httptrace.WithClientTrace(ctx, &httptrace.ClientTrace{Got1xxResponse: func(code int, h textproto.MIMEHeader) error {
		co.early = append(co.early, h3EarlyObs{code, http.Header(h).Clone()})
		return nil
	}})
	var body io.Reader
	if i%2 == 1 {
		body = bytes.NewReader(wPayload(KMix(x.sc.Seed, 0x5d, uint64(i)), 0, 3000))
	}
	req, err := http.NewRequestWithContext(ctx, []string{"GET", "POST"}[i%2], fmt.Sprintf("https://localhost/c/%d", i), body)
	if err != nil {
		return
	}
	co.started = true
	resp, err := x.h3t.RoundTrip(req)
	if err != nil {
		co.rtErr, co.finished = err, true
		return
	}
	co.status, co.hdr, co.cl = resp.StatusCode, resp.Header.Clone(), resp.ContentLength
	key := KMix(x.sc.Seed, 0x5a, uint64(i))
	zeros := 0
	for k := 0; ; k++ {
		buf := make([]byte, h3Chunk(int64(i)*13+5, k))
		n, err := resp.Body.Read(buf)
		if n > 0 {
			zeros = 0
			if co.bodyN+n > h3RawDataLen(st) || wCheckPayload(key, co.bodyN, buf[:n]) >= 0 {
				x.flag(0, "raw server: response body bytes read by the client differ from the DATA payload sent", "script #%d: read of %d at %d", i, n, co.bodyN)
			}
			co.bodyN += n
		}
		if err == io.EOF {
			co.bodyEOF, co.trl = true, resp.Trailer.Clone()
			break
		}
		if err != nil {
			co.bodyErr = err
			break
		}
		if n == 0 {
			if zeros++; zeros > 16 {
				x.flag(4, "response body Read keeps returning 0 bytes without an error", "script #%d", i)
				break
			}
		}
	}
	resp.Body.Close()
	co.finished = true
}

func (x *h3Run) judgeRawSrv(cause [2]error) {
	sc, res, rs := x.sc, x.res, x.raw
	for i := range sc.Streams {
		st, o, co := &sc.Streams[i], rs.obs[i], rs.cli[i]
		if !o.ran || o.openErr != nil {
			continue
		}
		e := o.exp
		var ae *quic.ApplicationError
		var se *quic.StreamError
		kind, code, text := "none", uint64(0), "no reaction"
		switch {
		case o.connErr != nil && errors.As(o.connErr, &ae) && ae.Remote:
			kind, code, text = "conn", uint64(ae.ErrorCode), "connection error "+h3ErrName(uint64(ae.ErrorCode))
		case o.connErr != nil && !errors.As(o.connErr, &ae):
			kind, text = "dead", "transport error"
		case o.respErr != nil && errors.As(o.respErr, &se) && se.Remote && se.ErrorCode != 0x10c:
			kind, code, text = "stream", uint64(se.ErrorCode), "stream error "+h3ErrName(uint64(se.ErrorCode))
		case o.writeErr != nil && errors.As(o.writeErr, &se) && se.Remote && se.ErrorCode != 0x10c:
			kind, code, text = "stream", uint64(se.ErrorCode), "stream error "+h3ErrName(uint64(se.ErrorCode))
		case co.finished && co.rtErr == nil && co.bodyEOF:
			kind, text = "response", "a complete response at the client"
		case co.finished && (co.rtErr != nil || co.bodyErr != nil):
			kind, text = "cerr", "an error at the client only"
		}
		if st.Kind == "resp" && kind != "conn" && kind != "stream" && kind != "dead" {
			// a stream error sent after the script had finished writing is invisible to the server's API: look on the wire
			for _, p := range x.w.Tap.All {
				if p.Dir != 0 {
					continue
				}
				for k := range p.Frames {
					if f := &p.Frames[k]; (f.Name == "STOP_SENDING" || f.Name == "RESET_STREAM") && int64(f.StreamID) == o.sid && f.Code != 0x10c && f.Code != 0x100 {
						kind, code, text = "stream", f.Code, "stream error "+h3ErrName(f.Code)
					}
				}
			}
		}
		what := fmt.Sprintf("raw server script #%d (%s type %d, %d frames, cut %d ppm, end %s)", i, st.Kind, st.UType, len(st.Frames), st.CutPPM, st.End)
		res.TraceAdd(fmt.Sprintf("%d:%s:%d:%d:%d:%d:%v", i, kind, code, o.wrote, co.status, co.bodyN, co.bodyEOF))
		res.Logf("%s: expect %s %v %q | got %s; wrote %d writeErr=%v reqErr=%v connErr=%v | client: finished=%v rtErr=%v status=%d bodyN=%d eof=%v bodyErr=%v early=%d trl=%v", what, e.want, e.codes, e.label, text,
			o.wrote, o.writeErr, o.respErr, o.connErr, co.finished, co.rtErr, co.status, co.bodyN, co.bodyEOF, co.bodyErr, len(co.early), co.trl)
		label := e.label
		if label == "" {
			label = "well-formed input"
		}
		res.Probe("rawsrv:" + label + " -> " + text)
		if kind == "dead" {
			continue
		}
		okCode := false
		var names []string
		for _, c := range e.codes {
			okCode = okCode || c == code
			names = append(names, h3ErrName(c))
		}
		switch e.want {
		case "conn":
			if !(kind == "conn" && okCode) && !(sc.Faulty && (kind == "none" || kind == "cerr")) {
				x.flag(3, "raw server: "+label+": RFC 9114 requires connection error "+strings.Join(names, " or ")+", observed "+text, "%s", what)
			}
		case "stream":
			// (a stream that has already ended in both directions cannot carry the error code any more: an error
			// returned to the caller is then all there is)
			if !(kind == "stream" && okCode) && kind != "cerr" && !(sc.Faulty && kind == "none") {
				x.flag(3, "raw server: "+label+": RFC 9114 requires stream error "+strings.Join(names, " or ")+", observed "+text, "%s", what)
			}
		case "cerr":
			if kind == "response" {
				x.flag(2, "raw server: "+label+": the client read the response to a clean EOF", "%s: %d bytes", what, co.bodyN)
			}
		case "ok":
			if st.Kind == "uni" {
				if kind == "conn" {
					x.flag(3, "raw server: "+label+" on a unidirectional stream must be tolerated, observed "+text, "%s", what)
				}
				break
			}
			switch {
			case kind == "response":
				if co.status != 200 || co.hdr.Get("X-Raw-Srv") != strconv.Itoa(i) {
					x.flag(0, "raw server: client saw a different status or header than the script sent", "%s: %d %v", what, co.status, co.hdr)
				}
				want := http.Header{}
				for _, kv := range st.Hdr {
					want.Add(kv.K, h3Val(kv))
				}
				got := co.hdr.Clone()
				for _, k := range []string{"X-Raw-Srv", "Content-Type", "Content-Length"} {
					delete(got, k)
				}
				if k, d := h3HdrDiff(want, got, nil); k != "" {
					x.flag(0, "raw server: response header fields seen by the client differ from the script: "+k, "%s: %s", what, d)
				}
				if co.bodyN != e.bodyLen {
					x.flag(0, "raw server: client reached a clean EOF at a different length than the DATA frames carried", "%s: %d vs %d", what, co.bodyN, e.bodyLen)
				}
				if len(co.early) != e.handler {
					x.flag(0, "raw server: number of informational responses delivered differs from the script", "%s: %d vs %d", what, len(co.early), e.handler)
				}
				var wt http.Header
				if e.trailers {
					wt = http.Header{}
					for _, f := range h3RawTrailer {
						wt.Add(f[0], f[1])
					}
				}
				if k, d := h3HdrDiff(wt, h3NonEmpty(co.trl), nil); k != "" {
					x.flag(0, "raw server: response trailers seen by the client differ from the script: "+k, "%s: %s", what, d)
				}
			case sc.Faulty:
			default:
				x.flag(3, "raw server: well-formed response (unknown frames, arbitrary write boundaries) not delivered: "+text, "%s: rtErr=%v bodyErr=%v", what, co.rtErr, co.bodyErr)
			}
		}
	}
	x.judgeConn([2]error{cause[0], nil}, false)
}

func genH3RawSrv(r *KRng, sc *H3Scenario, tier string) {
	sc.Opt.MaxRespHdr = 0
	ctrl := H3RawStream{Kind: "uni", UType: 0, End: "open", Frames: []H3RawFrame{{K: "settings", V: r.Pick(0, 0, 2)}}}
	if r.P(0.3) {
		ctrl.Frames = append(ctrl.Frames, H3RawFrame{K: "unk", T: uint64(0x1f*r.N(50) + 0x21), N: r.N(30)})
	}
	if r.P(0.5) {
		ctrl.Split = int64(r.U64()>>1) | 1
		ctrl.GapUS = int64(r.Pick(0, 100, 5000))
	}
	if r.P(0.9) {
		sc.Streams = append(sc.Streams, ctrl)
	}
	resp := func() H3RawStream {
		st := h3GenRawReq(r)
		st.Kind, st.Method, st.RespN, st.RespTrl = "resp", "", 0, false
		hasData := false
		var fr []H3RawFrame
		for _, f := range st.Frames {
			if f.K == "headers" {
				for k := 0; k < 4 && r.P(0.25); k++ {
					fr = append(fr, H3RawFrame{K: "headers", V: 10, W: r.N(4)})
				}
			}
			hasData = hasData || f.K == "data"
			fr = append(fr, f)
		}
		st.Frames = fr
		if !hasData {
			st.CLDecl = 0
		}
		var hd []H3KV
		for _, kv := range st.Hdr {
			if kv.K != "cookie" {
				hd = append(hd, kv)
			}
		}
		st.Hdr = hd
		return st
	}
	n := r.Pick(1, 1, 2, 3, 5)
	for i := 0; i < n; i++ {
		switch r.N(10) {
		case 0:
			sc.Streams = append(sc.Streams, H3RawStream{Kind: "uni", UType: uint64(0x1f*r.N(100) + 0x21), End: []string{"open", "fin", "reset"}[r.N(3)], Frames: []H3RawFrame{{K: "unk", T: 0x21, N: r.N(200)}}})
		case 1:
			sc.Streams = append(sc.Streams, H3RawStream{Kind: "uni", UType: uint64(r.Pick(2, 3, 0x54, 0x41)), End: "open"})
		default:
			sc.Streams = append(sc.Streams, resp())
		}
	}
	if r.P(0.6) {
		st := resp()
		pos := func() int { return r.N(len(st.Frames) + 1) }
		insert := func(f H3RawFrame, at int) {
			st.Frames = append(st.Frames[:at], append([]H3RawFrame{f}, st.Frames[at:]...)...)
		}
		switch r.N(16) {
		case 0:
			insert(H3RawFrame{K: "data", N: r.Pick(0, 10, 2000)}, 0)
		case 1:
			insert(H3RawFrame{K: []string{"settings", "goaway", "cancel_push", "max_push_id"}[r.N(4)]}, pos())
		case 2:
			insert(H3RawFrame{K: "reserved", T: uint64(r.Pick(2, 6, 8, 9)), N: r.Pick(0, 5, 100)}, pos())
		case 3:
			st.Frames = append(st.Frames, H3RawFrame{K: "trailers"}, H3RawFrame{K: "trailers"})
		case 4:
			st.Frames = append(st.Frames, H3RawFrame{K: "trailers"}, H3RawFrame{K: "data", N: r.Pick(0, 1, 1000)})
		case 5:
			for k := range st.Frames {
				if st.Frames[k].K == "headers" && st.Frames[k].V == 0 {
					st.Frames[k].V = r.Pick(1, 2, 3, 4, 7, 9)
				}
			}
		case 6:
			st.CLDecl = r.Pick(2, 3)
			if h3RawDataLen(&st) == 0 {
				st.Frames = append(st.Frames, H3RawFrame{K: "data", N: 100})
			}
		case 7, 8, 9:
			st.CutPPM = 1 + r.N(999999)
			st.End = []string{"fin", "fin", "reset", "close"}[r.N(4)]
		case 10:
			st = H3RawStream{Kind: "uni", UType: 0, End: "open", Frames: []H3RawFrame{{K: "settings"}}}
		case 11:
			st = H3RawStream{Kind: "uni", UType: 1, End: "open", Frames: []H3RawFrame{{K: "unk", T: 0x21, N: 3}}}
		case 12:
			st = H3RawStream{Kind: "uni", UType: uint64(r.Pick(2, 3)), End: "open"}
			sc.Streams = append(sc.Streams, st)
		default:
			c := H3RawStream{Kind: "uni", UType: 0, End: "open"}
			switch r.N(7) {
			case 0:
				c.Frames = []H3RawFrame{{K: []string{"data", "goaway", "headers"}[r.N(3)], N: 3}}
			case 1:
				c.Frames = []H3RawFrame{{K: "settings", V: 1}}
			case 2:
				c.Frames = []H3RawFrame{{K: "settings"}, {K: "settings", V: 2}}
			case 3:
				c.Frames = []H3RawFrame{{K: "settings"}, {K: []string{"data", "headers", "reserved"}[r.N(3)], T: 6, N: 4}}
			case 4:
				c.Frames = []H3RawFrame{{K: "settings"}}
				c.End = []string{"fin", "reset"}[r.N(2)]
			case 5:
				c.Frames = []H3RawFrame{{K: "settings"}, {K: "unk", T: 0x21, N: 40}}
				c.CutPPM = 1 + r.N(999999)
				c.End = []string{"fin", "reset", "open"}[r.N(3)]
			case 6:
				c.Frames = []H3RawFrame{{K: "settings"}, {K: "max_push_id"}}
			}
			if len(sc.Streams) > 0 && sc.Streams[0].Kind == "uni" && sc.Streams[0].UType == 0 {
				sc.Streams = sc.Streams[1:]
			}
			st = c
		}
		at := r.N(len(sc.Streams) + 1)
		if r.P(0.5) {
			at = len(sc.Streams)
		}
		sc.Streams = append(sc.Streams[:at], append([]H3RawStream{st}, sc.Streams[at:]...)...)
	}
	// the client driver needs at least one request to make the connection exist
	hasResp := false
	for i := range sc.Streams {
		hasResp = hasResp || sc.Streams[i].Kind == "resp"
	}
	if !hasResp {
		sc.Streams = append(sc.Streams, resp())
	}
}
