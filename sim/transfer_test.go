package verifsim

// W:transfer - property C01 (stream data intact, in order, exactly once under any
// network faults; datagrams unmodified and at most once; liveness when the path is
// not dead). Every run also feeds the wire oracles (oracle_wire_test.go).

import (
	"context"
	"errors"
	"fmt"
	"io"
	"strings"
	"sync"
	"sync/atomic"
	"testing"
	"time"

	quic "github.com/refraction-networking/uquic"
	"github.com/refraction-networking/uquic/testutils/simnet"
)

type TStream struct {
	From   int   `json:"from"` // 0 client opens, 1 server opens
	Uni    bool  `json:"uni,omitempty"`
	Size   int   `json:"size"`
	Back   int   `json:"back,omitempty"` // bidi: bytes written by the acceptor
	WChunk int64 `json:"wchunk"`         // write chunking pattern
	RBuf   int64 `json:"rbuf"`           // read buffer pattern
	AtMS   int64 `json:"at,omitempty"`   // start offset after the handshake
	RLagMS int64 `json:"rlag,omitempty"` // the accepting application starts reading this long after it accepted the stream
	// (unidirectional streams) the writer gives up after this many bytes: CancelWrite - after SetReliableBoundary when
	// Reliable is set, so that with RESET_STREAM_AT negotiated the reader still gets every byte written so far
	AbortAt  int  `json:"abort_at,omitempty"`
	Reliable bool `json:"reliable,omitempty"`
}

type TDgram struct {
	From int   `json:"from"`
	AtMS int64 `json:"at"`
	Size int   `json:"size"`
}

// TMigrate: the client itself moves the connection to its second interface (AddPath, Probe, Switch) in mid-transfer.
type TMigrate struct {
	AtMS   int64 `json:"at"`
	Switch bool  `json:"switch,omitempty"` // false: the path is only probed, then closed
}

type TransferScenario struct {
	Seed        uint64    `json:"seed"`
	Cfg         WConfig   `json:"cfg"`
	Net         WNet      `json:"net"`
	Faults      []WFault  `json:"faults"`
	Streams     []TStream `json:"streams"`
	Dgrams      []TDgram  `json:"dgrams,omitempty"`
	HorizonMS   int64     `json:"horizon_ms"`
	LateRebind  bool      `json:"late_rebind,omitempty"` // at the end: the client's address changes, then a burst of three ack-eliciting packets on a quiet connection
	Migrate     *TMigrate `json:"migrate,omitempty"`
	ForeignPeer bool      `json:"foreign_peer,omitempty"` // at the end: a packet framed unlike the in-tree sender's (ACK frame last) is played to the client
}

func (s *TransferScenario) KSeed() uint64 { return s.Seed }

func init() {
	KRegister(&KSim{Name: "transfer", New: func() KScenario { return &TransferScenario{} }, Gen: genTransfer, Run: runTransfer, Sweep: sweepTransfer})
}

var wClientKinds = []string{"plain", "plain", "plain", "unil", "chrome115", "chrome146", "chrome115v6", "firefox116"}

func genNet(r *KRng, sc *WNet, heavy bool) {
	sc.LatencyUS = int64(r.Pick(200, 2000, 5000, 5000, 20000, 80000))
	sc.JitterUS = int64(r.Pick(0, 100, 1000, 3000, 10000, 30000))
	// swarm: every run enables a random subset of fault kinds with its own rates
	if r.P(0.85) {
		if r.P(0.7) {
			sc.Drop = r.F() * 0.12
		}
		if r.P(0.4) {
			sc.Dup = r.F() * 0.06
		}
		if r.P(0.4) {
			sc.Delay = r.F() * 0.08
		}
		if r.P(0.35) {
			sc.Corrupt = r.F() * 0.03
		}
		if r.P(0.25) {
			sc.Trunc = r.F() * 0.02
		}
	}
	if heavy && r.P(0.3) {
		sc.Drop = 0.1 + r.F()*0.2
	}
	if r.P(0.3) {
		sc.Burst = r.Pick(2, 3, 8, 16)
	}
}

func genCommonCfg(r *KRng, cfg *WConfig) {
	cfg.Client = wClientKinds[r.N(len(wClientKinds))]
	cfg.Version = r.Pick(1, 1, 2)
	cfg.ServerCIDLen = r.Pick(4, 4, 8, 8, 12, 20, 5)
	cfg.ClientCIDLen = r.Pick(0, 4, 4, 8, 20)
	if cfg.Client != "plain" && cfg.Client != "unil" {
		cfg.ClientCIDLen = 4 // spec decides the wire value
	}
	cfg.Retry = r.P(0.15)
	cfg.ChainLen = r.Pick(0, 0, 0, 1, 4, 12)
	if r.P(0.4) {
		w := uint64(r.Pick(2000, 8000, 30000, 100000))
		cfg.Win = [4]uint64{w, w * uint64(r.Pick(1, 2, 4)), w, w * uint64(r.Pick(1, 2, 4))}
		if r.P(0.5) {
			cfg.MaxWin = [4]uint64{cfg.Win[0], cfg.Win[1], cfg.Win[2], cfg.Win[3]}
		}
	}
	cfg.NoPMTUD = [2]bool{r.P(0.3), r.P(0.3)}
	if r.P(0.2) {
		cfg.SchedNum = uint32(r.Pick(16, 64, 128))
	}
}

func genTransfer(seed uint64, tier string) KScenario {
	r := NewKRng(seed)
	sc := &TransferScenario{Seed: seed}
	genCommonCfg(r, &sc.Cfg)
	genNet(r, &sc.Net, true)
	idle := int64(r.Pick(4000, 8000, 15000, 30000))
	sc.Cfg.IdleMS = [2]int64{idle, int64(r.Pick(4000, 8000, 15000, 30000))}
	sc.Cfg.Datagrams = [2]bool{r.P(0.4), r.P(0.4)}
	if r.P(0.2) {
		// few concurrent incoming streams: the opener's later streams wait for the MAX_STREAMS that completed streams earn
		sc.Cfg.MaxStreams = [2]int64{int64(r.Pick(1, 2, 3)), int64(r.Pick(1, 2, 3))}
		sc.Cfg.MaxUniStreams = [2]int64{int64(r.Pick(1, 2, 3)), int64(r.Pick(1, 2, 3))}
	}
	if r.P(0.15) {
		sc.Cfg.KeyUpdate = r.Pick(3, 10, 40)
	}
	if r.P(0.15) {
		m := r.Pick(1250, 1300, 1400)
		sc.Net.MTU = [2]int{m, m}
		if r.P(0.5) {
			sc.Net.MTU[r.N(2)] = 0
		}
	}
	if r.P(0.2) {
		from := int64(r.Range(0, 3000))
		sc.Net.Outages = append(sc.Net.Outages, WOutage{Dir: r.N(3), FromMS: from, ToMS: from + int64(r.Pick(50, 500, 2000, int(idle)-500, int(idle)+3000))})
	}
	lateConfirm := false
	if len(sc.Net.Outages) == 0 && r.P(0.04) {
		lateConfirm = true
		// the server falls silent (for the client) between its handshake flight and HANDSHAKE_DONE, for longer than the
		// handshake idle timeout but shorter than the idle timeout in force: the client, whose handshake is complete but not
		// confirmed, must sit it out
		idle = int64(r.Pick(15000, 30000))
		sc.Cfg.IdleMS = [2]int64{idle, idle}
		sc.Cfg.Retry, sc.Cfg.ChainLen = false, 0
		l := max(1, sc.Net.LatencyUS/1000)
		from := 2*l + int64(r.N(int(l)+1))
		sc.Net.Outages = append(sc.Net.Outages, WOutage{Dir: 1, FromMS: from, ToMS: from + int64(r.Pick(5500, 7000, int(idle)-2000))})
	}
	n := r.Pick(1, 1, 2, 3, 5, 12)
	if sc.Cfg.MaxStreams[0] > 0 {
		n = r.Pick(3, 5, 8)
	}
	if tier == "thorough" && r.P(0.2) {
		n = r.Range(12, 40)
	}
	sizes := []int{0, 1, 1199, 1200, 1201, 5000, 65536, 200000}
	if tier == "thorough" {
		sizes = append(sizes, 1<<20)
	}
	for i := 0; i < n; i++ {
		st := TStream{From: r.N(2), Uni: r.P(0.4), Size: sizes[r.N(len(sizes))], WChunk: int64(r.U64() >> 1), RBuf: int64(r.U64() >> 1), AtMS: int64(r.Pick(0, 0, 0, 3, 50, 400))}
		if n > 5 && st.Size > 65536 {
			st.Size = 65536
		}
		if !st.Uni {
			st.Back = sizes[r.N(len(sizes)-1)]
			if n > 5 && st.Back > 65536 {
				st.Back = 5000
			}
		}
		if lagP := 0.15; r.P(lagP) || (sc.Cfg.MaxStreams[0] > 0 && r.P(0.5)) {
			st.RLagMS = int64(r.Pick(40, 200, 1000))
			if sc.Cfg.MaxStreams[0] > 0 && r.P(0.6) {
				// small enough not to earn a window update, which would carry the MAX_STREAMS frame along
				st.Size, st.Back = r.Pick(1, 1200, 5000), min(st.Back, 1200)
			}
		}
		sc.Streams = append(sc.Streams, st)
	}
	if lateConfirm {
		// the client has more to send than the congestion window holds while its handshake is complete but not confirmed
		sc.Streams[0].From, sc.Streams[0].Size, sc.Streams[0].AtMS = 0, 200000, 0
		// ... and the application keeps waking the connection up (new streams) before the first probe timeout
		l := max(1, sc.Net.LatencyUS/1000)
		for k := int64(1); k <= 6; k++ {
			sc.Streams = append(sc.Streams, TStream{From: 0, Uni: true, Size: 1200, WChunk: int64(r.U64() >> 1), RBuf: int64(r.U64() >> 1), AtMS: 3*l + k*max(1, l/2)})
		}
	}
	if r.P(0.15) {
		// a short blackout of both directions that begins one to four round trips after a bulk stream starts on a connection
		// that has been established for a while: a whole flight and its acknowledgements vanish before the receiver has
		// anything of its own in flight (no frames of the handshake's end, not yet a PING added to its ACK-only packets), so
		// only the sender's own timer can restart the transfer
		big := 0
		for i := range sc.Streams {
			if sc.Streams[i].Size > sc.Streams[big].Size {
				big = i
			}
		}
		if sc.Streams[big].AtMS < 50 {
			sc.Streams[big].AtMS = int64(r.Pick(50, 150, 400))
		}
		rttUS := 2 * sc.Net.LatencyUS
		from := sc.Streams[big].AtMS + rttUS*int64(r.Range(10, 40))/10000
		sc.Net.Outages = append(sc.Net.Outages, WOutage{Dir: 2, FromMS: from, ToMS: from + max(50, rttUS*3/1000) + int64(r.Pick(0, 100, 400)), NAT: r.P(0.5)})
	}
	if sc.Cfg.Datagrams[0] || sc.Cfg.Datagrams[1] {
		for i, k := 0, r.N(12); i < k; i++ {
			sc.Dgrams = append(sc.Dgrams, TDgram{From: r.N(2), AtMS: int64(r.N(800)), Size: r.Pick(1, 20, 300, 1100, 1300)})
		}
	}
	// faults stop at some point so that liveness can be judged afterwards
	sc.Net.FaultUntilMS = int64(r.Pick(500, 2000, 5000, 20000))
	sc.HorizonMS = 0 // computed from the configuration at run time
	sc.ForeignPeer = r.P(0.3)
	if r.P(0.12) {
		// NAT rebinding in mid-transfer: from some client datagram on, the client's packets come from another address
		sc.Net.RebindAtOrd = r.Pick(6, 12, 25, 60, 150)
	} else if !sc.ForeignPeer && r.P(0.3) {
		sc.LateRebind = true
	}
	if r.P(0.2) {
		// some writers give up in mid-stream; with flow-control windows at their defaults and little data overall, so that
		// the reset never meets the known RESET_STREAM_AT final-size family (K:sendstream, section 9.3)
		var total int
		for _, st := range sc.Streams {
			total += st.Size + st.Back
		}
		if sc.Cfg.Win == [4]uint64{} && total < 400000 {
			sc.Cfg.ResetPartial = [2]bool{r.P(0.8), r.P(0.8)}
			for i := range sc.Streams {
				if st := &sc.Streams[i]; st.Uni && st.Size > 0 && r.P(0.6) {
					st.AbortAt = min(st.Size, r.Pick(1, 100, 1200, 5000, st.Size))
					st.Reliable = r.P(0.7)
				}
			}
		}
	}
	if sc.Cfg.MaxStreams == [2]int64{} && r.P(0.06) {
		// the largest stream counts there are: 2^60 is the largest legal value of the transport parameters, larger Config
		// values are clamped to it
		big := []int64{1 << 60, 1<<60 - 1, 1 << 62}
		sc.Cfg.MaxStreams = [2]int64{big[r.N(3)], big[r.N(3)]}
		sc.Cfg.MaxUniStreams = [2]int64{big[r.N(3)], big[r.N(3)]}
	}
	// the other path may carry less than the first one: whoever moves a connection starts path MTU discovery afresh
	if sc.Net.RebindAtOrd > 0 && r.P(0.5) {
		sc.Net.AltMTU = r.Pick(1300, 1350, 1400)
	}
	if sc.Net.RebindAtOrd == 0 && !sc.LateRebind && (sc.Cfg.Client == "plain" || sc.Cfg.Client == "unil") && sc.Cfg.ClientCIDLen > 0 && r.P(0.15) {
		sc.Migrate = &TMigrate{AtMS: int64(r.Pick(20, 80, 250, 700)), Switch: r.P(0.8)}
		if r.P(0.6) {
			sc.Net.AltMTU = r.Pick(1300, 1350, 1400)
		}
	}
	if r.P(0.03) {
		// One long outage of both directions on an otherwise perfect network, under an idle timeout of ten minutes: the path is
		// dead for minutes, but for less than the idle period, with data in flight when it begins. Probing must not thin out
		// so far that the idle period ends before the next probe.
		sc.Cfg.Client = "plain"
		sc.Cfg.IdleMS = [2]int64{600000, 600000}
		sc.Cfg.KeepAliveMS = [2]int64{}
		e := int64(r.Pick(100000, 200000, 330000, 450000))
		from := int64(r.Pick(1000, 1500, 3000))
		sc.Net.Drop, sc.Net.Dup, sc.Net.Delay, sc.Net.Corrupt, sc.Net.Trunc, sc.Net.Burst = 0, 0, 0, 0, 0, 0
		sc.Net.DropInitials, sc.Net.DropHandshakes = 0, 0
		sc.Net.MTU, sc.Net.AltMTU, sc.Net.RebindAtOrd = [2]int{}, 0, 0
		sc.Net.Outages = []WOutage{{Dir: 2, FromMS: from, ToMS: from + e}}
		sc.LateRebind, sc.Migrate, sc.ForeignPeer = false, nil, false
		sc.Streams[0].AtMS = from - int64(r.Pick(0, 5, 50))
		sc.Streams[0].Size = max(sc.Streams[0].Size, 1200)
		sc.Streams[0].AbortAt = 0
	}
	return sc
}

// sweepTransfer: bounded fault enumeration on a scripted two-stream scenario:
// every single fault kind at each of the first N datagrams (both directions), then all pairs.
func sweepTransfer(idx int, tier string) KScenario {
	kinds := []WFault{{Kind: "drop"}, {Kind: "dup", A: 3000}, {Kind: "delay", A: 40000}, {Kind: "corrupt", A: 0, B: 0x40}, {Kind: "corrupt", A: 30, B: 1}, {Kind: "trunc", A: 25}}
	N := 12
	if tier == "thorough" {
		N = 16
	}
	type pos struct{ d, n int }
	var ps []pos
	for d := 0; d < 2; d++ {
		for n := 0; n < N; n++ {
			ps = append(ps, pos{d, n})
		}
	}
	singles := len(ps) * len(kinds)
	clients := []string{"plain", "chrome115"}
	mk := func(ci int, fs []WFault) KScenario {
		sc := &TransferScenario{Seed: KMix(0x5eeb, uint64(idx))}
		sc.Cfg = WConfig{Client: clients[ci], Version: 1, ServerCIDLen: 8, ClientCIDLen: 4, IdleMS: [2]int64{8000, 8000}}
		sc.Net = WNet{LatencyUS: 5000, JitterUS: 0, Explicit: true}
		sc.Faults = fs
		sc.Streams = []TStream{{From: 0, Size: 5000, Back: 3000, WChunk: 11, RBuf: 7}, {From: 1, Uni: true, Size: 4000, WChunk: 5, RBuf: 3}}
		return sc
	}
	per := singles
	if idx < per*len(clients) {
		ci, k := idx/per, idx%per
		p, f := ps[k/len(kinds)], kinds[k%len(kinds)]
		f.Dir, f.Ord = p.d, p.n
		return mk(ci, []WFault{f})
	}
	idx -= per * len(clients)
	// pairs (quick: sampled by stride; thorough: all pairs of drop/dup/corrupt)
	pk := []WFault{kinds[0], kinds[1], kinds[3]}
	np := len(ps) * len(pk)
	total := np * (np - 1) / 2
	stride := 1
	if tier != "thorough" {
		stride = 23
	}
	j := idx * stride
	if j >= total {
		return nil
	}
	// decode pair index
	a := 0
	for rem := j; ; a++ {
		if rem < np-1-a {
			b := a + 1 + rem
			fa, fb := pk[a%len(pk)], pk[b%len(pk)]
			fa.Dir, fa.Ord = ps[a/len(pk)].d, ps[a/len(pk)].n
			fb.Dir, fb.Ord = ps[b/len(pk)].d, ps[b/len(pk)].n
			if fa.Dir == fb.Dir && fa.Ord == fb.Ord {
				return mk(0, []WFault{fa})
			}
			return mk(0, []WFault{fa, fb})
		}
		rem -= np - 1 - a
	}
}

// ---------------------------------------------------------------- execution

type tStreamState struct {
	mu      sync.Mutex
	wClosed [2]bool  // writer side (0 = initiator->acceptor payload, 1 = back payload) called Close
	wErr    [2]error // writer errors
	rDone   [2]bool  // reader saw EOF at full length
	rErr    [2]error
	rGot    [2]int
	id      int64
	// the writer of payload 0 resets the stream after abortAt bytes; reliable: the reader is owed all of them first
	abortAt  int
	reliable bool
}

func chunkSize(pattern int64, k int) int {
	r := NewKRng(KMix(uint64(pattern), uint64(k)))
	return r.Pick(1, 7, 100, 1000, 1200, 4096, 16384, 70000)
}

func (st *tStreamState) write(res *KResult, s io.WriteCloser, key uint64, size int, pattern int64, which int) {
	off := 0
	for k := 0; off < size; k++ {
		n := min(chunkSize(pattern, k), size-off)
		m, err := s.Write(wPayload(key, off, n))
		off += m
		if err != nil {
			st.mu.Lock()
			st.wErr[which] = err
			st.mu.Unlock()
			return
		}
		if m != n {
			res.Fail("Write returned a short count without an error", "n=%d of %d", m, n)
			return
		}
	}
	st.mu.Lock()
	st.wClosed[which] = true
	st.mu.Unlock()
	if err := s.Close(); err != nil {
		st.mu.Lock()
		st.wErr[which] = err
		st.mu.Unlock()
	}
}

const tAbortCode = quic.StreamErrorCode(0x77)

// writeAndAbort: the writer of a unidirectional stream writes n bytes and gives up.
func (st *tStreamState) writeAndAbort(res *KResult, s *quic.SendStream, key uint64, n int, pattern int64, reliable bool) {
	off := 0
	for k := 0; off < n; k++ {
		c := min(chunkSize(pattern, k), n-off)
		m, err := s.Write(wPayload(key, off, c))
		off += m
		if err != nil {
			st.mu.Lock()
			st.wErr[0] = err
			st.mu.Unlock()
			return
		}
	}
	if reliable {
		s.SetReliableBoundary()
	}
	s.CancelWrite(tAbortCode)
}

func (st *tStreamState) read(res *KResult, s io.Reader, key uint64, size int, pattern int64, which int, what string) {
	off := 0
	for k := 0; ; k++ {
		buf := make([]byte, chunkSize(pattern, k))
		n, err := s.Read(buf)
		if n > 0 {
			if off+n > size {
				res.Fail("stream delivered more bytes than were written", "%s: got %d, written %d", what, off+n, size)
				return
			}
			if bad := wCheckPayload(key, off, buf[:n]); bad >= 0 {
				res.Fail("stream bytes differ from the bytes written", "%s: first difference at offset %d (read of %d at %d)", what, bad, n, off)
				return
			}
			off += n
		}
		st.mu.Lock()
		st.rGot[which] = off
		st.mu.Unlock()
		if err == io.EOF {
			st.mu.Lock()
			closed := st.wClosed[which]
			st.mu.Unlock()
			if st.abortAt > 0 && which == 0 {
				res.Fail("end of stream on a stream its writer reset", "%s: EOF at %d (reset after %d)", what, off, st.abortAt)
			} else if off != size {
				res.Fail("end of stream before all written bytes were delivered", "%s: EOF at %d of %d", what, off, size)
			} else if !closed {
				res.Fail("end of stream seen before the writer closed the stream", "%s", what)
			}
			st.mu.Lock()
			st.rDone[which] = true
			st.mu.Unlock()
			return
		}
		if err != nil {
			var se *quic.StreamError
			if st.abortAt > 0 && which == 0 && errors.As(err, &se) {
				switch {
				case !se.Remote || se.ErrorCode != tAbortCode:
					res.Fail("reader of a stream its writer reset got another stream error than the writer's", "%s: %v", what, err)
				case off > st.abortAt:
					res.Fail("stream delivered more bytes than were written", "%s: got %d, written %d before the reset", what, off, st.abortAt)
				case st.reliable && off != st.abortAt:
					res.Fail("RESET_STREAM_AT: the reset was reported before every byte up to the reliable size had been delivered", "%s: %d of %d bytes, then %v", what, off, st.abortAt, err)
				default:
					res.Probe("stream-reset-by-its-writer")
					if st.reliable {
						res.Probe("stream-reset-after-reliable-delivery")
					}
				}
			}
			st.mu.Lock()
			st.rErr[which] = err
			st.mu.Unlock()
			return
		}
		if n == 0 && len(buf) > 0 {
			res.Fail("Read returned 0 bytes without an error", "%s", what)
			return
		}
	}
}

// horizon: last injected fault + 2 x idle timeout + 10 s
func (sc *TransferScenario) horizon() time.Duration {
	if sc.HorizonMS > 0 {
		return time.Duration(sc.HorizonMS) * time.Millisecond
	}
	idle := max(sc.Cfg.IdleMS[0], sc.Cfg.IdleMS[1], 5000)
	last := sc.Net.FaultUntilMS
	for _, o := range sc.Net.Outages {
		last = max(last, o.ToMS)
	}
	// plus the time the data itself needs at the lowest rate congestion and flow control guarantee: with persistent
	// reordering (jitter larger than the packet spacing keeps declaring packets lost) the window stays at its minimum
	// of two packets per round trip; a small flow-control window caps it further
	perRTT := int64(2400)
	for _, v := range sc.Cfg.Win {
		if v > 0 && int64(v) < perRTT {
			perRTT = int64(v)
		}
	}
	var total int64
	for _, st := range sc.Streams {
		total += int64(st.Size + st.Back)
	}
	rttMS := 2*(sc.Net.LatencyUS+sc.Net.JitterUS)/1000 + 30
	xfer := total / perRTT * rttMS * 2
	return time.Duration(last+2*idle+10000+xfer) * time.Millisecond
}

func runTransfer(t *testing.T, ksc KScenario, res *KResult) {
	sc := ksc.(*TransferScenario)
	wBegin(&sc.Cfg)
	defer wEnd()
	w := NewWorld(t, sc.Seed, &sc.Net, res)
	w.SetFaults(sc.Faults)
	nodes, err := NewNodes(w, &sc.Cfg)
	if err != nil {
		res.Fail("spec could not be built", "%v", err)
		return
	}
	wo := NewWireOracles(w, nodes, res)
	var tr2 *quic.Transport
	if sc.Migrate != nil {
		tr2 = &quic.Transport{Conn: wDF(simnet.NewBlockingSimConn(wClientAddr3, w)), ConnectionIDLength: sc.Cfg.ClientCIDLen}
	}
	w.StartDriver()
	defer func() {
		if tr2 != nil {
			tr2.Close()
		}
		nodes.Close()
		w.Stop()
		if !sc.Net.Explicit {
			sc.Net.Explicit = true
			sc.Faults = w.Fired
		}
		wo.Finish()
		w.FeedShape()
		for _, p := range w.Tap.All {
			if p.Type == TapUnknown || p.Err != "" {
				rec := w.Log[p.Dir][p.Ord]
				res.Logf("  odd packet: %d %s size=%d reset=%v {%s-> %v}", p.SentNS/1000, p.String(), p.Size, p.Reset, rec.Fate, rec.Delivered)
			}
		}
	}()
	if err := nodes.Listen(); err != nil {
		res.Fail("Listen failed", "%v", err)
		return
	}
	horizon := sc.horizon()
	ctx, cancel := context.WithTimeout(context.Background(), horizon)
	defer cancel()

	states := make([]*tStreamState, len(sc.Streams))
	for i := range states {
		states[i] = &tStreamState{id: -1}
		if sp := sc.Streams[i]; sp.Uni && sp.AbortAt > 0 {
			// RESET_STREAM_AT is in use when both endpoints enabled it (a spec-driven client advertises what its spec says)
			states[i].abortAt = sp.AbortAt
			states[i].reliable = sp.Reliable && sc.Cfg.ResetPartial == [2]bool{true, true} && (sc.Cfg.Client == "plain" || sc.Cfg.Client == "" || sc.Cfg.Client == "unil")
		}
	}
	var idMu sync.Mutex
	byID := map[[2]int64]int{} // (initiator, stream id) -> index
	key := func(i, which int) uint64 { return KMix(sc.Seed, 0x57e, uint64(i), uint64(which)) }

	type dg struct {
		sent    bool
		rcvd    int
		sendErr error
		size    int
	}
	dgs := make([]*dg, len(sc.Dgrams))
	for i := range dgs {
		dgs[i] = &dg{size: sc.Dgrams[i].Size}
	}

	var wg sync.WaitGroup
	var conns [2]*quic.Conn
	var connErr [2]error
	ready := make(chan struct{})

	// server side
	wg.Add(1)
	go func() {
		defer wg.Done()
		c, err := nodes.Accept(ctx)
		connErr[1] = err
		conns[1] = c
		close(ready)
	}()
	c, err := nodes.Dial(ctx)
	connErr[0] = err
	conns[0] = c
	if err != nil {
		cancel() // nobody is coming: release the pending Accept
	} else {
		select {
		case <-ready:
		case <-c.Context().Done():
			// the client connection died before the server application got it
			connErr[0] = context.Cause(c.Context())
			cancel()
		}
	}
	<-ready
	res.Logf("dial: err=%v; accept: err=%v (t=%v)", connErr[0], connErr[1], time.Duration(w.NowNS()))
	if connErr[0] != nil && conns[1] == nil {
		connErr[1] = nil // the cancelled Accept is ours, not a finding
	}
	if conns[0] == nil || conns[1] == nil || connErr[0] != nil {
		if conns[0] != nil {
			conns[0].CloseWithError(0, "")
		}
		if conns[1] != nil {
			conns[1].CloseWithError(0, "")
		}
		wg.Wait()
		for _, p := range w.Tap.All {
			rec := w.Log[p.Dir][p.Ord]
			res.Logf("  %d %s {%s-> %v}", p.SentNS/1000, p.String(), rec.Fate, rec.Delivered)
		}
		judgeFailure(w, &sc.Cfg, &sc.Net, len(sc.Faults), res, connErr[0], connErr[1], true, horizon)
		return
	}
	res.Probe("handshake-ok")

	var lateProbe atomic.Bool
	side := func(me int) {
		defer wg.Done()
		conn := conns[me]
		var swg sync.WaitGroup
		// acceptors
		acceptLoop := func(uni bool) {
			defer swg.Done()
			for {
				var rs *quic.ReceiveStream
				var ss *quic.Stream
				var err error
				var sid int64
				if uni {
					rs, err = conn.AcceptUniStream(ctx)
					if err == nil {
						sid = int64(rs.StreamID())
					}
				} else {
					ss, err = conn.AcceptStream(ctx)
					if err == nil {
						sid = int64(ss.StreamID())
					}
				}
				if err != nil {
					return
				}
				idMu.Lock()
				i, ok := byID[[2]int64{int64(1 - me), sid}]
				idMu.Unlock()
				if !ok && uni && lateProbe.Load() {
					go io.Copy(io.Discard, rs) // the stream of the late-rebind probe
					continue
				}
				if !ok {
					res.Fail("accepted a stream the peer never opened", "side %d stream %d", me, sid)
					return
				}
				st, spec := states[i], sc.Streams[i]
				what := fmt.Sprintf("stream #%d (id %d)", i, sid)
				swg.Add(1)
				go func() {
					defer swg.Done()
					if spec.RLagMS > 0 {
						// a slow consumer: by the time it reads (and completes) the stream, the acknowledgements for the
						// stream's packets have long been sent and the connection may be idle
						select {
						case <-time.After(time.Duration(spec.RLagMS) * time.Millisecond):
						case <-ctx.Done():
						}
					}
					if uni {
						st.read(res, rs, key(i, 0), spec.Size, spec.RBuf, 0, what)
						return
					}
					var bw sync.WaitGroup
					bw.Add(1)
					go func() {
						defer bw.Done()
						st.write(res, ss, key(i, 1), spec.Back, spec.WChunk+1, 1)
					}()
					st.read(res, ss, key(i, 0), spec.Size, spec.RBuf, 0, what)
					bw.Wait()
				}()
			}
		}
		swg.Add(2)
		go acceptLoop(true)
		go acceptLoop(false)
		// openers
		for i, spec := range sc.Streams {
			if spec.From != me {
				continue
			}
			i, spec := i, spec
			swg.Add(1)
			go func() {
				defer swg.Done()
				if spec.AtMS > 0 {
					time.Sleep(time.Duration(spec.AtMS) * time.Millisecond)
				}
				st := states[i]
				if spec.Uni {
					s, err := conn.OpenUniStreamSync(ctx)
					if err != nil {
						st.wErr[0] = err
						return
					}
					idMu.Lock()
					byID[[2]int64{int64(me), int64(s.StreamID())}] = i
					idMu.Unlock()
					if spec.AbortAt > 0 {
						st.writeAndAbort(res, s, key(i, 0), spec.AbortAt, spec.WChunk, spec.Reliable)
						return
					}
					st.write(res, s, key(i, 0), spec.Size, spec.WChunk, 0)
					return
				}
				s, err := conn.OpenStreamSync(ctx)
				if err != nil {
					st.wErr[0] = err
					return
				}
				idMu.Lock()
				byID[[2]int64{int64(me), int64(s.StreamID())}] = i
				idMu.Unlock()
				var bw sync.WaitGroup
				bw.Add(1)
				go func() {
					defer bw.Done()
					st.read(res, s, key(i, 1), spec.Back, spec.RBuf+1, 1, fmt.Sprintf("stream #%d (back)", i))
				}()
				st.write(res, s, key(i, 0), spec.Size, spec.WChunk, 0)
				bw.Wait()
			}()
		}
		// datagrams
		for i, d := range sc.Dgrams {
			if d.From != me {
				continue
			}
			i, d := i, d
			swg.Add(1)
			go func() {
				defer swg.Done()
				time.Sleep(time.Duration(d.AtMS) * time.Millisecond)
				b := make([]byte, 8, 8+d.Size)
				for k := 0; k < 8; k++ {
					b[k] = byte(uint64(i) >> (8 * k))
				}
				b = append(b, wPayload(KMix(sc.Seed, 0xd6, uint64(i)), 0, d.Size)...)
				err := conn.SendDatagram(b)
				// the application's buffer is its own again once the call has returned (a sender that reuses one scratch
				// buffer for a burst of messages): what was handed over must not change with it
				for k := range b {
					b[k] = 0xee
				}
				dgs[i].sendErr = err
				dgs[i].sent = err == nil
			}()
		}
		swg.Add(1)
		go func() {
			defer swg.Done()
			for {
				b, err := conn.ReceiveDatagram(ctx)
				if err != nil {
					return
				}
				if len(b) < 8 {
					res.Fail("received an application datagram that was never sent", "len %d", len(b))
					return
				}
				var id uint64
				for k := 0; k < 8; k++ {
					id |= uint64(b[k]) << (8 * k)
				}
				if id >= uint64(len(dgs)) || sc.Dgrams[id].From == me {
					res.Fail("received an application datagram that was never sent", "id %d", id)
					return
				}
				if len(b)-8 != dgs[id].size || wCheckPayload(KMix(sc.Seed, 0xd6, id), 0, b[8:]) >= 0 {
					res.Fail("application datagram modified in transit", "id %d len %d", id, len(b)-8)
					return
				}
				dgs[id].rcvd++
				if dgs[id].rcvd > 1 {
					res.Fail("application datagram delivered more than once", "id %d", id)
					return
				}
				res.Probe("datagram-delivered")
			}
		}()
		swg.Wait()
	}

	// wait until all transfers are complete (or the horizon), then close
	allDone := func() bool {
		for i, st := range states {
			st.mu.Lock()
			d := st.rDone[0] || st.rErr[0] != nil || st.wErr[0] != nil
			if !sc.Streams[i].Uni {
				d = d && (st.rDone[1] || st.rErr[1] != nil || st.wErr[1] != nil)
			}
			st.mu.Unlock()
			if !d {
				return false
			}
		}
		return true
	}
	if sc.Migrate != nil {
		wg.Add(1)
		go func() {
			defer wg.Done()
			tMigrate(ctx, w, sc, conns[0], tr2, res)
		}()
	}
	wg.Add(2)
	go side(0)
	go side(1)
	lastDg := int64(0)
	for _, d := range sc.Dgrams {
		lastDg = max(lastDg, d.AtMS)
	}
	for {
		time.Sleep(25 * time.Millisecond)
		if (allDone() && w.NowNS() > (lastDg+300)*1e6) || ctx.Err() != nil || conns[0].Context().Err() != nil || conns[1].Context().Err() != nil {
			break
		}
	}
	complete := allDone()
	cause := [2]error{context.Cause(conns[0].Context()), context.Cause(conns[1].Context())}
	failedAt := w.NowNS()
	res.Logf("end of transfers at %v: complete=%v cause client=%v server=%v", time.Duration(failedAt), complete, cause[0], cause[1])
	for _, p := range w.Tap.All {
		rec := w.Log[p.Dir][p.Ord]
		res.Logf("  %d %s {%s-> %v}", p.SentNS/1000, p.String(), rec.Fate, rec.Delivered)
	}
	if conns[0].Context().Err() == nil && conns[1].Context().Err() == nil && complete {
		time.Sleep(100 * time.Millisecond) // let the last ACKs fly
		// (not with forced key updates every few packets: after losses the observer's idea of the server's key generation
		// may be more than one ahead of what the client can follow)
		if on := wOraclesEnabled("C01"); sc.ForeignPeer && sc.Cfg.KeyUpdate == 0 && (on["C07"] || on["all"]) {
			tForeignPeerProbe(w, wo, res)
		} else if sc.LateRebind {
			lateProbe.Store(true)
			tLateRebindProbe(w, wo, conns[0], res)
		}
	}
	conns[0].CloseWithError(0, "done")
	conns[1].CloseWithError(0, "done")
	cancel()
	wg.Wait()

	// final verdicts
	nOK := 0
	for i, st := range states {
		spec := sc.Streams[i]
		for which := 0; which < 2; which++ {
			if which == 1 && spec.Uni {
				continue
			}
			if st.wClosed[which] && st.wErr[which] == nil && st.rErr[which] == nil && !st.rDone[which] && cause[0] == nil && cause[1] == nil && complete {
				res.Fail("writer closed without error but the reader did not obtain every byte", "stream #%d which=%d got %d", i, which, st.rGot[which])
			}
			if st.rDone[which] {
				nOK++
			}
		}
	}
	if nOK > 0 {
		res.Probe("stream-complete")
	}
	if !complete || cause[0] != nil || cause[1] != nil {
		_ = failedAt
		judgeFailure(w, &sc.Cfg, &sc.Net, len(sc.Faults), res, cause[0], cause[1], false, horizon)
	} else {
		res.Probe("all-complete")
	}
}

// tMigrate: the client application moves its connection to the second interface while transfers are running. Nothing the
// transfers owe changes with it (C01: they complete, byte for byte); the new path may carry smaller datagrams than the old.
func tMigrate(ctx context.Context, w *World, sc *TransferScenario, conn *quic.Conn, tr2 *quic.Transport, res *KResult) {
	select {
	case <-time.After(time.Duration(sc.Migrate.AtMS) * time.Millisecond):
	case <-ctx.Done():
		return
	}
	path, err := conn.AddPath(tr2)
	if err != nil {
		if conn.Context().Err() == nil {
			res.Fail("AddPath failed on a live client connection whose server allows migration", "%v", err)
		}
		return
	}
	pctx, cancel := context.WithTimeout(ctx, 6*time.Second+20*time.Duration(sc.Net.LatencyUS+sc.Net.JitterUS)*time.Microsecond)
	defer cancel()
	t0 := w.NowNS()
	err = path.Probe(pctx)
	if err != nil {
		res.Probe("migration:probe-failed")
		res.Logf("path probe failed after %v: %v", time.Duration(w.NowNS()-t0), err)
		w.mu.Lock()
		clean := len(w.Fired) == 0 && len(sc.Net.Outages) == 0
		w.mu.Unlock()
		if clean && conn.Context().Err() == nil && ctx.Err() == nil {
			res.Fail("path probe on a fault-free network did not validate the new path", "%v after %v", err, time.Duration(w.NowNS()-t0))
		}
		path.Close()
		return
	}
	res.Probe("migration:path-validated")
	if !sc.Migrate.Switch {
		if err := path.Close(); err != nil {
			res.Fail("closing a validated path that is not in use failed", "%v", err)
		}
		return
	}
	if err := path.Switch(); err != nil {
		if conn.Context().Err() == nil {
			res.Fail("Switch to a validated path failed", "%v", err)
		}
		return
	}
	res.Probe("migration:switched")
	res.Logf("client switched to its second interface at %v", time.Duration(w.NowNS()))
}

// tForeignPeerProbe (C07, "every ack-eliciting packet is covered by an ACK that becomes due no later than the maximum ack delay"):
// at the very end of a completed run the simulator plays a server that frames its packets unlike the in-tree sender - the ACK
// frame LAST, behind the ack-eliciting frames (legal: RFC 9000 puts no order on frames) - and watches for the client's
// acknowledgment. The client's answers are kept from the real server (an outage from now on), which never sent that number.
func tForeignPeerProbe(w *World, wo *WireOracles, res *KResult) {
	w.mu.Lock()
	w.Tap.mu.Lock()
	var last *TapPacket
	for _, p := range w.Tap.All {
		if p.Dir == 1 && p.Type == Tap1RTT && p.Opened && p.Conn != nil && !p.Conn.Shadow {
			last = p
		}
	}
	var pkt []byte
	var pn uint64
	var c *TapConn
	if last != nil {
		c = last.Conn
		pn = uint64(c.largest[1][2] + 1)
		// the acknowledged number is the first 1-RTT packet the client sent (long acknowledged; a recent one may already
		// belong to the client's next key generation, which this peer - still on the old one - cannot have seen)
		ackd := uint64(0)
		for _, p := range c.Packets {
			if p.Dir == 0 && p.Type == Tap1RTT && p.Opened {
				ackd = uint64(p.PN)
				break
			}
		}
		// PING, PING, then ACK{largest = that number, delay 0, no further ranges, first range 0}
		payload := []byte{0x01, 0x01, 0x02}
		payload = append(payload, wVarint(ackd)...)
		payload = append(payload, 0, 0, 0)
		pkt = c.tapSeal1RTT(1, last.DCID, pn, payload)
		if pkt != nil {
			wo.acct(c).delivered[1][2][int64(pn)] = true // the client is about to be delivered this number
			wo.forged[0] = append(wo.forged[0], int64(pn))
			// (the genuine server knows nothing of this packet and will use the number again: for the client that one is a
			// duplicate, which it neither processes nor owes an acknowledgement)
			a := wo.acct(c)
			a.surely[1][2][int64(pn)] = true
			a.maxSurely[1][2] = max(a.maxSurely[1][2], int64(pn))
		}
	}
	nowMS := w.NowNS() / 1e6
	w.Net.Outages = append(w.Net.Outages, WOutage{Dir: 0, FromMS: nowMS, ToMS: nowMS + 1000000})
	w.Tap.mu.Unlock()
	w.mu.Unlock()
	if pkt == nil {
		return
	}
	t0 := w.NowNS()
	w.InjectTo(1, pkt)
	time.Sleep(60 * time.Millisecond) // max_ack_delay is 25 ms (20 ms for some fingerprints) plus timer granularity
	w.mu.Lock()
	w.Tap.mu.Lock()
	acked := false
	for _, p := range c.Packets {
		if p.Dir != 0 || p.SentNS < t0 {
			continue
		}
		for i := range p.Frames {
			if f := &p.Frames[i]; f.Name == "ACK" && ackCovers(f, int64(pn)) {
				acked = true
			}
		}
	}
	w.Tap.mu.Unlock()
	w.mu.Unlock()
	res.Probe("foreign-peer-probe")
	if !acked && res.KeepLog && wo.n != nil {
		for _, e := range wo.n.QLog[0].Events {
			if e.AtNS >= t0 {
				res.Logf("client qlog after the probe: %d %T %+v", e.AtNS/1000, e.Ev, e.Ev)
			}
		}
		res.Logf("probe: phase %d, dcid %x, pn %d, %d bytes", c.phase[1], last.DCID, pn, len(pkt))
	}
	if !acked {
		res.Fail("ack-eliciting packet of a peer that puts its ACK frame last was not acknowledged within the maximum ack delay", "packet number %d injected at %v: no ACK covering it within 60 ms", pn, time.Duration(t0))
	}
}

// tLateRebindProbe (C07: an ACK becomes due at once on the second ack-eliciting packet - also when the packets come from
// an address the receiver has not seen before): on the quiet connection the client's address changes (NAT rebinding), then
// the client sends a burst of three full packets. Nothing else is in flight that would make the server send, so an ACK that
// is due but not sent stays visible: every packet of the burst that reached the server intact must be covered by an ACK the
// server sends within the maximum ack delay (the wire oracle's obligation list), judged 300 ms later.
func tLateRebindProbe(w *World, wo *WireOracles, conn *quic.Conn, res *KResult) {
	w.mu.Lock()
	w.Net.RebindAtOrd = max(1, len(w.Log[0]))
	w.mu.Unlock()
	str, err := conn.OpenUniStream()
	if err != nil {
		return
	}
	str.Write(make([]byte, 3300))
	str.Close()
	time.Sleep(300 * time.Millisecond)
	res.Probe("late-rebind-probe")
	w.mu.Lock()
	w.Tap.mu.Lock()
	now := w.NowNS()
	for _, c := range w.Tap.Conns {
		if c.Shadow {
			continue
		}
		a := wo.acct(c)
		for pn, due := range a.ackDue[1] {
			if now > due && !a.closed[1] && !a.closed[0] {
				delete(a.ackDue[1], pn)
				wo.report("C07", "ack-eliciting packet not acknowledged within the maximum ack delay", "server has not acknowledged 1-RTT pn %d of a burst sent from a new client address, due %v ago", pn, time.Duration(now-due))
			}
		}
	}
	w.Tap.mu.Unlock()
	w.mu.Unlock()
}

// judgeFailure decides whether an incomplete run is explained by the injected faults (legitimate) or is a liveness violation.
func judgeFailure(w *World, cfg *WConfig, netc *WNet, nExplicit int, res *KResult, cerr, serr error, handshake bool, horizon time.Duration) {
	now := w.NowNS()
	nfaults := len(w.Fired)
	if netc.Explicit && len(w.Fired) == 0 {
		nfaults = nExplicit
	}
	for side, err := range []error{cerr, serr} {
		if err == nil {
			continue
		}
		var te *quic.TransportError
		var ae *quic.ApplicationError
		var ie *quic.IdleTimeoutError
		var he *quic.HandshakeTimeoutError
		var sr *quic.StatelessResetError
		var vn *quic.VersionNegotiationError
		switch {
		case errors.As(err, &ie):
			res.Probe("idle-timeout")
			// legitimate only if that endpoint was starved of undamaged datagrams for its idle period
			idle := wEffectiveIdle(w, cfg)
			evidenceWindow := idle
			if handshake {
				// Dial/Accept had not returned yet, but the endpoint itself may already have completed the handshake
				// (a client does when it sends its Finished): whichever period is shorter is a sound lower bound for
				// "too early", the longer one is the window in which to look for evidence of a dead path
				evidenceWindow = max(idle, hsIdle(cfg, side))
				idle = min(idle, hsIdle(cfg, side))
			}
			if gap := time.Duration(w.starvedFor(side, now)); gap < idle-20*time.Millisecond {
				res.Fail("idle timeout although undamaged datagrams kept arriving", "side %d: last good delivery %v before the failure, idle period %v", side, gap, idle)
			} else if e := netc.singleOutage(); !handshake && e > 0 && nfaults == 0 && idle > e+75*time.Second {
				// (C01: "when the path is not dead for longer than the idle timeout, transfers complete" - claimed here with more
				// than a minute to spare, on a network that does nothing else wrong, for a connection that was established before)
				res.Fail("connection idled out although the path was dead for less than the idle period (one outage on an otherwise perfect network)", "side %d: outage %v, idle period %v", side, e, idle)
			} else if span := w.longestStarvation(now); 8*span > idle {
				// Recovery is owed in proportion to the fault, not to the idle period: while one direction delivers nothing for a
				// span E, retransmission timers back off to about E, what finally arrives can be acknowledged (or, waiting for
				// keys, be processed) up to 2E after it was first sent, and a round-trip sample of that size makes the next probe
				// timeout three times as long. An idle period shorter than that runs out while both endpoints wait, correctly.
				res.Probe("liveness-not-judged-starvation-long-against-the-idle-period")
			} else if since, what := w.stoppedProbing(side, now); !handshake && since > idle/2+time.Second+3*w.maxTransit() {
				// Loss recovery never gives up before the idle timeout: with probe timeouts doubling from the last ack-eliciting
				// transmission, the silence before the idle timer expires is shorter than half the idle period plus half a PTO
				// (a PTO is at most about three round trips of the slowest kind this run has seen: delayed datagrams inflate
				// the smoothed RTT and its variance).
				res.Fail("endpoint stopped retransmitting: its last ack-eliciting packets were lost and it stayed silent until the idle timeout", "side %d: nothing sent during the last %v of an idle period of %v, nothing received since; last datagram: %s", side, since, idle, what)
			} else if !w.pathDeadEvidence(now, int64(evidenceWindow)) {
				// nobody was prevented from talking: the endpoints fell silent with work left to do
				res.Fail("connection idled out with transfers incomplete although the network delivered everything it was given", "side %d: no datagram was lost or damaged during the last idle period (%v) nor just before it", side, idle)
			}
		case errors.As(err, &he):
			res.Probe("handshake-timeout")
			if gap := time.Duration(w.starvedFor(side, now)); gap < hsIdle(cfg, side)-20*time.Millisecond && nfaults <= 3 && len(netc.Outages) == 0 && netc.MTU == [2]int{} {
				res.Fail("handshake timed out although the network was (almost) fault-free", "side %d: %d faults, last good delivery %v ago", side, nfaults, gap)
			}
		case errors.As(err, &te):
			who := side
			if te.Remote {
				who = 1 - side
			}
			if kf := wKnownC12(w, cfg, who, uint64(te.ErrorCode)); kf != "" && !wOraclesEnabled("C01")["C12"] {
				// a known finding of another property (C12) ended this run: neither passed nor violated here
				res.Blocked = kf
				continue
			}
			if te.ErrorCode == 11 && cfg.Retry && w.rebound {
				// the client's address changed between the Retry and the Initial that carries the Retry token: the token is
				// rightly refused (it proves another address)
				res.Probe("retry-token-invalidated-by-address-change")
				continue
			}
			name := wErrName(uint64(te.ErrorCode))
			if te.ErrorCode == 1 || te.ErrorCode == 10 {
				// INTERNAL_ERROR / PROTOCOL_VIOLATION: the message tells the findings apart
				name += " (" + strings.TrimSpace(stripNums(te.ErrorMessage)) + ")"
			}
			res.Fail("network faults alone made an endpoint raise a transport error: "+name, "raised by side %d (0 = client): %v", who, err)
		case errors.As(err, &ae):
			if ae.ErrorMessage != "done" && !ae.Remote {
				res.Fail("unexpected application error", "side %d: %v", side, err)
			}
		case errors.As(err, &sr):
			res.Fail("stateless reset although no endpoint lost its state", "side %d", side)
		case errors.As(err, &vn):
			// a long-header packet whose version field was corrupted to zero on the way IS a Version Negotiation packet for
			// the receiver (they are not authenticated): then the error is the network's
			if wVersionFieldCorrupted(w, side, 0) {
				res.Probe("version-field-corrupted-into-a-version-negotiation-packet")
				continue
			}
			res.Fail("version negotiation failed between compatible endpoints", "side %d: %v", side, err)
		case errors.Is(err, context.DeadlineExceeded) || errors.Is(err, context.Canceled):
			// horizon reached during Dial/Accept
			if handshake {
				lastFault := w.lastFaultNS()
				if now-lastFault > int64(2*hsIdle(cfg, side)+10*time.Second) {
					res.Fail("Dial/Accept still pending long after the last fault", "side %d", side)
				}
			}
		default:
			res.Note("other failure: " + err.Error())
		}
	}
	if cerr == nil && serr == nil && !handshake {
		// nothing failed, yet the transfers did not finish within last fault + 2 x idle + 10 s (+ transfer time).
		// Progress is only owed once faults have stopped: a persistent condition (a path that black-holes every datagram
		// above a size smaller than QUIC's initial packet size keeps firing until the end) leaves nothing to judge.
		sched := netc.FaultUntilMS
		for _, o := range netc.Outages {
			sched = max(sched, o.ToMS)
		}
		if allowance := int64(horizon) - sched*1e6; now-w.lastFaultNS() < allowance {
			res.Probe("liveness-not-judged-faults-until-the-end")
			return
		}
		res.Fail("transfers did not complete although the path was alive and both connections are up", "horizon %v, last fault at %v", horizon, time.Duration(w.lastFaultNS()))
	}
}

// wEffectiveIdle: the idle period both endpoints run with after the handshake: the smaller of the two advertised
// max_idle_timeout values. A plain client advertises its Config value (default 30 s); a spec-driven client advertises what
// its spec says (and, since repair 189effd, runs with exactly that, not with its Config): read it off the wire.
func wEffectiveIdle(w *World, cfg *WConfig) time.Duration {
	client := nzIdle(cfg.IdleMS[0])
	if cfg.Client != "" && cfg.Client != "plain" && cfg.Client != "unil" {
		for _, c := range w.Tap.Conns {
			if !c.Shadow && c.CH != nil && c.CH.HasTP {
				client = int64(tapTPUint(c.CH.TPs, 0x01, 0))
				if client == 0 {
					client = 1 << 40 // no idle timeout advertised
				}
				break
			}
		}
	}
	return time.Duration(min(client, nzIdle(cfg.IdleMS[1]))) * time.Millisecond
}

// wVersionFieldCorrupted: was a datagram delivered to `side` (no later than `by` ns, 0 = any time) in which a corruption fault
// hit the version field (bytes 1-4) of a long-header packet, or which carried a Version Negotiation packet that was damaged on
// the way (its version list is not authenticated: a flipped byte removes the client's own version from it)?
func wVersionFieldCorrupted(w *World, side int, by int64) bool {
	for _, rec := range w.Log[1-side] {
		if !rec.Damaged || len(rec.Delivered) == 0 || (by > 0 && rec.Delivered[0] > by) {
			continue
		}
		for _, p := range rec.Pkts {
			if p.Type == TapVN {
				return true
			}
		}
		for _, f := range rec.Faults {
			if f.Kind != "corrupt" {
				continue
			}
			for _, p := range rec.Pkts {
				if p.Type != Tap1RTT && int(f.A) >= p.Off+1 && int(f.A) <= p.Off+4 {
					return true
				}
			}
		}
	}
	return false
}

func nzIdle(ms int64) int64 {
	if ms == 0 {
		return 30000
	}
	return ms
}

func hsIdle(cfg *WConfig, side int) time.Duration {
	if cfg.HSIdleMS[side] > 0 {
		return time.Duration(cfg.HSIdleMS[side]) * time.Millisecond
	}
	return 5 * time.Second
}

// starvedFor: time since endpoint `side` (0 client, 1 server) provably processed a packet, measured at `now`.
// Proof of processing = the endpoint itself acknowledged the packet: its idle period cannot have started before the
// (first intact) delivery of a packet it has acknowledged. Everything else (duplicates, packets below the duplicate
// horizon, packets without keys yet, Retry/VN) may or may not restart the period and is not counted.
func (w *World) starvedFor(side int, now int64) int64 {
	w.mu.Lock()
	defer w.mu.Unlock()
	dirIn := 1 - side // packets travelling towards `side`
	type key struct {
		c  *TapConn
		sp int
	}
	acked := map[key]map[int64]bool{}
	for _, rec := range w.Log[side] { // datagrams sent by `side`
		for _, p := range rec.Pkts {
			if !p.Opened || p.Conn == nil || p.Conn.Shadow {
				continue
			}
			for i := range p.Frames {
				if f := &p.Frames[i]; f.Name == "ACK" {
					k := key{p.Conn, p.Space()}
					if acked[k] == nil {
						acked[k] = map[int64]bool{}
					}
					for _, r := range f.Ranges {
						for pn := r[0]; pn <= r[1] && pn-r[0] < 1<<16; pn++ {
							acked[k][int64(pn)] = true
						}
					}
				}
			}
		}
	}
	last := int64(0)
	for _, rec := range w.Log[dirIn] {
		if len(rec.Delivered) == 0 {
			continue
		}
		for i, p := range rec.Pkts {
			if p.Opened && p.Conn != nil && rec.PktState[i] == 0 && acked[key{p.Conn, p.Space()}][p.PN] && rec.Delivered[0] > last && rec.Delivered[0] <= now {
				last = rec.Delivered[0]
			}
		}
	}
	return now - last
}

// pathDeadEvidence: was any datagram, in either direction, lost / damaged / black-holed during the window
// [f-p-1s, f], or was the last datagram sent before that window (per direction) lost? If not, the path was
// demonstrably alive and an idle timeout cannot be blamed on the network.
func (w *World) pathDeadEvidence(f, p int64) bool {
	w.mu.Lock()
	defer w.mu.Unlock()
	from := f - p - int64(time.Second)
	bad := func(r *DgramRec) bool {
		if r.Fate == "altmtu " {
			// too large for the path the endpoint chose to move to: a lost DPLPMTUD probe is no reason to fall silent, and
			// anything else of that size is the sender's own doing (a new path starts from the minimum packet size)
			return false
		}
		return len(r.Delivered) == 0 || r.Damaged || strings.Contains(r.Fate, "delay")
	}
	for d := 0; d < 2; d++ {
		var before *DgramRec
		for _, r := range w.Log[d] {
			if r.SentNS > f {
				break
			}
			if r.SentNS < from {
				before = r
				continue
			}
			if bad(r) {
				return true
			}
		}
		if before != nil && bad(before) {
			return true
		}
	}
	return false
}

// stoppedProbing: how long endpoint `side` (0 client, 1 server) has been silent at `now` after a last datagram that carried
// ack-eliciting frames (not a mere PMTUD probe), never reached the peer, and was not followed by anything the endpoint
// received. 0 when that is not the situation.
func (w *World) stoppedProbing(side int, now int64) (time.Duration, string) {
	w.mu.Lock()
	defer w.mu.Unlock()
	var last *DgramRec
	for _, r := range w.Log[side] {
		if r.SentNS <= now {
			last = r
		}
	}
	if last == nil || len(last.Delivered) > 0 {
		return 0, ""
	}
	elic, mtuProbe := false, last.Size > 1300
	for _, p := range last.Pkts {
		if !p.Opened || p.Type != Tap1RTT {
			return 0, ""
		}
		for i := range p.Frames {
			if p.Frames[i].AckEliciting() {
				elic = true
			}
			if n := p.Frames[i].Name; n != "PING" && n != "PADDING" {
				mtuProbe = false
			}
		}
	}
	if !elic || mtuProbe {
		return 0, ""
	}
	for _, r := range w.Log[1-side] {
		for _, at := range r.Delivered {
			if at >= last.SentNS && at <= now && !r.Damaged {
				return 0, ""
			}
		}
	}
	what := ""
	for _, p := range last.Pkts {
		what += p.String() + " "
	}
	return time.Duration(now - last.SentNS), what
}

// singleOutage: the length of the run's only fault, if that is one outage of both directions that begins a second or more
// after the start (the handshake is long complete on a network that has no other fault); 0 otherwise.
func (n *WNet) singleOutage() time.Duration {
	if n.Drop != 0 || n.Dup != 0 || n.Delay != 0 || n.Corrupt != 0 || n.Trunc != 0 || n.MTU != [2]int{} || n.AltMTU != 0 || n.RebindAtOrd != 0 ||
		n.DropInitials != 0 || n.DropHandshakes != 0 || len(n.Outages) != 1 || n.Outages[0].Dir != 2 || n.Outages[0].NAT || n.Outages[0].FromMS < 1000 {
		return 0
	}
	return time.Duration(n.Outages[0].ToMS-n.Outages[0].FromMS) * time.Millisecond
}

// longestStarvation: the longest span (before `before`) during which everything one direction carried was lost or damaged: from
// the first to the last datagram of a run of casualties that no intact delivery interrupts (in send order); a datagram that
// arrived late counts with its transit time. What vanished through the sender's own doing is left out: too large for a path
// the sender chose itself, or sent by the server into a NAT binding that only the silent client could reopen.
func (w *World) longestStarvation(before int64) time.Duration {
	w.mu.Lock()
	defer w.mu.Unlock()
	var longest int64
	for d := 0; d < 2; d++ {
		first, last := int64(-1), int64(-1)
		for _, r := range w.Log[d] {
			if r.SentNS > before {
				break
			}
			if r.Fate == "altmtu " || r.Fate == "nat " {
				continue
			}
			if len(r.Delivered) > 0 && !r.Damaged && r.Delivered[0] <= before {
				longest = max(longest, r.Delivered[0]-r.SentNS)
				first, last = -1, -1
				continue
			}
			if first < 0 {
				first = r.SentNS
			}
			last = r.SentNS
			longest = max(longest, last-first)
		}
	}
	return time.Duration(longest)
}

// maxTransit: the longest time a datagram of this run took from send to (first) delivery.
func (w *World) maxTransit() time.Duration {
	w.mu.Lock()
	defer w.mu.Unlock()
	var m int64
	for d := 0; d < 2; d++ {
		for _, r := range w.Log[d] {
			for _, at := range r.Delivered {
				m = max(m, at-r.SentNS)
			}
		}
	}
	return time.Duration(m)
}

func (w *World) lastFaultNS() int64 {
	w.mu.Lock()
	defer w.mu.Unlock()
	var last int64
	for d := 0; d < 2; d++ {
		for _, r := range w.Log[d] {
			if r.Fate != "" && r.Fate != "altmtu " && r.SentNS > last {
				last = r.SentNS
			}
		}
	}
	return last
}

func wErrName(code uint64) string {
	names := map[uint64]string{0: "NO_ERROR", 1: "INTERNAL_ERROR", 2: "CONNECTION_REFUSED", 3: "FLOW_CONTROL_ERROR", 4: "STREAM_LIMIT_ERROR", 5: "STREAM_STATE_ERROR",
		6: "FINAL_SIZE_ERROR", 7: "FRAME_ENCODING_ERROR", 8: "TRANSPORT_PARAMETER_ERROR", 9: "CONNECTION_ID_LIMIT_ERROR", 10: "PROTOCOL_VIOLATION", 11: "INVALID_TOKEN",
		12: "APPLICATION_ERROR", 13: "CRYPTO_BUFFER_EXCEEDED", 14: "KEY_UPDATE_ERROR", 15: "AEAD_LIMIT_REACHED", 16: "NO_VIABLE_PATH"}
	if n, ok := names[code]; ok {
		return n
	}
	if code >= 0x100 && code < 0x200 {
		return fmt.Sprintf("CRYPTO_ERROR_%#x", code)
	}
	return fmt.Sprintf("%#x", code)
}

// wKnownC12 recognises the known C12 finding "a spec-driven client enforces the limits of its Config, not the ones
// its spec advertises": the error was raised by the spec-driven client, is one of the three limit errors, and the
// limit the client's Config yields is indeed below what its ClientHello advertised (read off the wire).
func wKnownC12(w *World, cfg *WConfig, who int, code uint64) string {
	// The finding was repaired (commit 189effd, known_findings.json "fixed:"): nothing is excused any more - if a
	// spec-driven client again raises such an error it is reported by whichever check sees it.
	if true {
		return ""
	}
	if who != 0 || cfg.Client == "" || cfg.Client == "plain" || cfg.Client == "unil" {
		return ""
	}
	var tps []TapTP
	for _, c := range w.Tap.Conns {
		if !c.Shadow && c.CH != nil && c.CH.HasTP {
			tps = c.CH.TPs
		}
	}
	if tps == nil {
		return ""
	}
	or := func(v, def uint64) uint64 {
		if v == 0 {
			return def
		}
		return v
	}
	switch code {
	case 3:
		advS := max(tapTPUint(tps, 5, 0), tapTPUint(tps, 6, 0), tapTPUint(tps, 7, 0))
		if or(cfg.Win[0], 512<<10) < advS || or(cfg.Win[1], 768<<10) < tapTPUint(tps, 4, 0) {
			return "KF-C12-flow-control-window"
		}
	case 4:
		if uint64(or(uint64(cfg.MaxStreams[0]), 100)) < tapTPUint(tps, 8, 0) || uint64(or(uint64(cfg.MaxUniStreams[0]), 100)) < tapTPUint(tps, 9, 0) {
			return "KF-C12-stream-count"
		}
	case 7:
		if !cfg.Datagrams[0] && tapTPUint(tps, 0x20, 0) > 0 {
			return "KF-C12-datagram-support"
		}
	}
	return ""
}
