package verifsim

import (
	"fmt"

	quic "github.com/refraction-networking/uquic"
	"github.com/refraction-networking/uquic/internal/handshake"
)

var wSpecIDs = map[string]quic.QUICID{
	"chrome115":   quic.QUICChrome_115_IPv4,
	"chrome115v6": quic.QUICChrome_115_IPv6,
	"chrome146":   quic.QUICChrome_146_IPv4,
	"chrome146v6": quic.QUICChrome_146_IPv6,
	"firefox116":  quic.QUICFirefox_116A,
	"firefox116b": quic.QUICFirefox_116B,
	"firefox116c": quic.QUICFirefox_116C,
}

var wSpecNames = []string{"chrome115", "chrome115v6", "chrome146", "chrome146v6", "firefox116", "firefox116b", "firefox116c"}

func wBuildSpec(cfg *WConfig) (*quic.QUICSpec, error) {
	id, ok := wSpecIDs[cfg.Client]
	if !ok {
		return nil, fmt.Errorf("unknown client kind %q", cfg.Client)
	}
	spec, err := quic.QUICID2Spec(id)
	if err != nil {
		return nil, err
	}
	if cfg.Derive != nil {
		if err := wApplyDerive(&spec, cfg.Derive); err != nil {
			return nil, err
		}
	}
	return &spec, nil
}

var wKeyUpdateReset func()

func wSetKeyUpdateInterval(n int) {
	if wKeyUpdateReset != nil {
		wKeyUpdateReset()
		wKeyUpdateReset = nil
	}
	if n > 0 {
		wKeyUpdateReset = handshake.SetKeyUpdateInterval(uint64(n))
		handshake.FirstKeyUpdateInterval = uint64(n)
	} else {
		handshake.FirstKeyUpdateInterval = 100
	}
}

func wApplyDerive(spec *quic.QUICSpec, d *WDerive) error { return nil }
