package verifsim

import (
	"encoding/hex"
	"fmt"
	"strings"

	quic "github.com/refraction-networking/uquic"
	"github.com/refraction-networking/uquic/internal/handshake"
	tls "github.com/refraction-networking/utls"
)

var wSpecIDs = map[string]quic.QUICID{
	"chrome115":   quic.QUICChrome_115_IPv4,
	"chrome115v6": quic.QUICChrome_115_IPv6,
	"chrome146":   quic.QUICChrome_146_IPv4,
	"chrome146v6": quic.QUICChrome_146_IPv6,
	"firefox116":  quic.QUICFirefox_116A,
	"firefox116b": quic.QUICFirefox_116B,
	"firefox116c": quic.QUICFirefox_116C,
}

var wSpecNames = []string{"chrome115", "chrome115v6", "chrome146", "chrome146v6", "firefox116", "firefox116b", "firefox116c"}

// identifiers recorded with the reference fingerprinter (the third field of the QUICID); per the
// property only Chrome_115 IPv4/IPv6 and Firefox_116 A/B/C are claimed to be reproduced by the wire today
var wRecordedFP = map[string]string{
	"chrome115": quic.QUICChrome_115_IPv4.Fingerprint, "chrome115v6": quic.QUICChrome_115_IPv6.Fingerprint,
	"firefox116": quic.QUICFirefox_116A.Fingerprint, "firefox116b": quic.QUICFirefox_116B.Fingerprint, "firefox116c": quic.QUICFirefox_116C.Fingerprint,
}

func wBuildSpec(cfg *WConfig) (*quic.QUICSpec, error) {
	id, ok := wSpecIDs[cfg.Client]
	if !ok {
		return nil, fmt.Errorf("unknown client kind %q", cfg.Client)
	}
	spec, err := quic.QUICID2Spec(id)
	if err != nil {
		return nil, err
	}
	if cfg.Derive != nil {
		if err := wApplyDerive(&spec, cfg.Derive); err != nil {
			return nil, err
		}
	}
	return &spec, nil
}

var wKeyUpdateReset func()

func wSetKeyUpdateInterval(n int) {
	if wKeyUpdateReset != nil {
		wKeyUpdateReset()
		wKeyUpdateReset = nil
	}
	if n > 0 {
		wKeyUpdateReset = handshake.SetKeyUpdateInterval(uint64(n))
		handshake.FirstKeyUpdateInterval = uint64(n)
	} else {
		handshake.FirstKeyUpdateInterval = 100
	}
}

func wQTPExt(spec *quic.QUICSpec) *tls.QUICTransportParametersExtension {
	if spec == nil || spec.ClientHelloSpec == nil {
		return nil
	}
	for _, e := range spec.ClientHelloSpec.Extensions {
		if q, ok := e.(*tls.QUICTransportParametersExtension); ok {
			return q
		}
	}
	return nil
}

// wApplyDerive turns a built-in fingerprint into a member of the derived family described by d.
// Nothing here removes a parameter the peer requires unless d.Suppress names one explicitly
// (the generator does not do that for C02).
func wApplyDerive(spec *quic.QUICSpec, d *WDerive) error {
	ips := &spec.InitialPacketSpec
	p := func(i int, def int64) int64 {
		if i < len(d.P) {
			return d.P[i]
		}
		return def
	}
	switch d.Builder {
	case "", "keep":
	case "nil":
		ips.FrameBuilder = nil
	case "random":
		ips.FrameBuilder = &quic.QUICRandomFrames{MinPING: uint8(p(0, 0)), MaxPING: uint8(p(1, 3)), MinCRYPTO: uint8(p(2, 1)), MaxCRYPTO: uint8(p(3, 4)),
			MinPADDING: uint8(p(4, 1)), MaxPADDING: uint8(p(5, 3)), Length: uint16(p(6, 1200))}
	case "frames":
		// a QUICFrames layout that tiles the slice: cuts at p0 < p1 < p2 (bytes), last frame takes the rest, PING/PADDING in between, order from p3
		c0, c1, c2 := int(p(0, 10)), int(p(1, 60)), int(p(2, 150))
		fr := quic.QUICFrames{
			quic.QUICFrameCrypto{Offset: 0, Length: c0},
			quic.QUICFramePing{},
			quic.QUICFrameCrypto{Offset: c1, Length: c2 - c1},
			quic.QUICFramePadding{Length: int(p(4, 20))},
			quic.QUICFrameCrypto{Offset: c0, Length: c1 - c0},
			quic.QUICFrameCrypto{Offset: c2, Length: 0},
		}
		if p(3, 0)%2 == 1 {
			fr[0], fr[2] = fr[2], fr[0]
		}
		ips.FrameBuilder = fr
	case "multi":
		ips.FrameBuilder = &quic.QUICMultiDatagramFrames{PerDatagram: []quic.QUICRandomFrames{
			{MinPING: 0, MaxPING: uint8(p(0, 2)) + 1, MinCRYPTO: 1, MaxCRYPTO: uint8(p(1, 3)) + 2, MinPADDING: 1, MaxPADDING: 3, Length: uint16(p(2, 1180))},
			{MinPING: 1, MaxPING: 3, MinCRYPTO: 1, MaxCRYPTO: uint8(p(3, 2)) + 2, MinPADDING: 1, MaxPADDING: 2, Length: uint16(p(4, 900))},
		}}
	case "flight", "rflight":
		// a planned flight addressed in absolute offsets: the first datagram carries the tail (last T bytes) and the
		// head (first A bytes) of the ClientHello, the second one the middle - or everything in one datagram when the
		// ClientHello is small (p2 = 0)
		A, T := int(p(0, 600)), int(p(1, 250))
		rf := quic.QUICRandomFrames{MinPING: 0, MaxPING: uint8(p(3, 2)) + 1, MinCRYPTO: 1, MaxCRYPTO: uint8(p(4, 3)) + 2}
		if p(2, 0) == 0 {
			if d.Builder == "flight" {
				ips.FrameBuilder = &quic.QUICFlightFrames{Datagrams: []quic.QUICFrames{{quic.QUICFrameCrypto{Offset: -T}, quic.QUICFramePing{}, quic.QUICFrameCrypto{Offset: 0, Length: -T}}}}
			} else {
				ips.FrameBuilder = &quic.QUICRandomFlightFrames{PerDatagram: []quic.QUICRandomFlightDatagram{{CryptoRanges: []quic.QUICCryptoRange{{Offset: -T}, {Offset: 0, Length: -T}}, Frames: rf}}}
			}
		} else if d.Builder == "flight" {
			ips.FrameBuilder = &quic.QUICFlightFrames{Datagrams: []quic.QUICFrames{
				{quic.QUICFrameCrypto{Offset: -T}, quic.QUICFrameCrypto{Offset: 0, Length: A}},
				{quic.QUICFramePing{}, quic.QUICFrameCrypto{Offset: A, Length: -T}},
			}}
		} else {
			ips.FrameBuilder = &quic.QUICRandomFlightFrames{PerDatagram: []quic.QUICRandomFlightDatagram{
				{CryptoRanges: []quic.QUICCryptoRange{{Offset: -T}, {Offset: 0, Length: A}}, Frames: rf},
				{CryptoRanges: []quic.QUICCryptoRange{{Offset: A, Length: -T}}, Frames: rf},
			}}
		}
	default:
		return fmt.Errorf("unknown builder %q", d.Builder)
	}
	if len(d.Plans) > 0 {
		ips.InitialPackets = nil
		for i := 0; i+1 < len(d.Plans); i += 2 {
			ips.InitialPackets = append(ips.InitialPackets, quic.InitialPacketPlan{CryptoLength: d.Plans[i], PacketSize: d.Plans[i+1]})
		}
	}
	if d.InitPN != 0 {
		ips.InitPacketNumber = uint64(d.InitPN)
		if d.InitPN < 0 {
			ips.InitPacketNumber = 0
		}
	}
	if len(d.PNLens) > 0 {
		ips.InitPacketNumberLength = 0
		ips.InitPacketNumberLengths = nil
		for _, l := range d.PNLens {
			ips.InitPacketNumberLengths = append(ips.InitPacketNumberLengths, quic.PacketNumberLen(l))
		}
	}
	switch {
	case d.Token == "":
	case d.Token == "none":
		ips.ClientTokenLength, ips.ClientTokenPrefix, ips.TokenStore = 0, nil, nil
	case len(d.Token) > 4 && d.Token[:4] == "len:":
		var n int
		fmt.Sscanf(d.Token[4:], "%d", &n)
		ips.ClientTokenLength, ips.ClientTokenPrefix = n, nil
	case len(d.Token) > 7 && d.Token[:7] == "prefix:":
		var hx string
		var n int
		if parts := strings.SplitN(d.Token[7:], ":", 2); len(parts) == 2 {
			hx = parts[0]
			fmt.Sscanf(parts[1], "%d", &n)
		}
		b, _ := hex.DecodeString(hx)
		// the prefix is the head of a larger buffer of the caller's (e.g. a captured token): the rest must stay untouched
		d.tokBacking = make([]byte, len(b)+n+16)
		for i := range d.tokBacking {
			d.tokBacking[i] = 0xa5
		}
		copy(d.tokBacking, b)
		d.tokPrefixLen = len(b)
		ips.ClientTokenPrefix, ips.ClientTokenLength = d.tokBacking[:len(b)], n
	}
	if d.SrcCIDLen != 0 {
		ips.SrcConnIDLength = max(d.SrcCIDLen, 0)
		if d.SrcCIDLen < 0 {
			ips.SrcConnIDLength = 0
		}
	}
	if d.DstCIDLen != 0 {
		ips.DestConnIDLength = d.DstCIDLen
	}
	if d.UDPMin != 0 {
		spec.UDPDatagramMinSize = d.UDPMin
	}
	if len(d.Suppress) > 0 {
		spec.SuppressTransportParameters = append([]uint64{}, d.Suppress...)
	}
	if d.GreaseExact {
		// a suppression entry that is itself GREASE-shaped names exactly one ID, it is not the wildcard (that is 27)
		if q := wQTPExt(spec); q != nil {
			q.TransportParameters = append(q.TransportParameters, &tls.FakeQUICTransportParameter{Id: 31*9 + 27, Val: []byte{1}}, &tls.FakeQUICTransportParameter{Id: 31*10 + 27, Val: []byte{2, 2}})
			spec.SuppressTransportParameters = append(spec.SuppressTransportParameters, 31*9+27)
		}
	}
	if d.DupSuppressed != 0 {
		// the same private-use parameter at the front, in the middle and at the end of the list, and suppressed: none of the
		// copies may reach the wire
		if q := wQTPExt(spec); q != nil {
			mk := func(v byte) tls.TransportParameter {
				return &tls.FakeQUICTransportParameter{Id: d.DupSuppressed, Val: []byte{v, 2, 3}}
			}
			l := q.TransportParameters
			mid := len(l) / 2
			nl := append(tls.TransportParameters{mk(1)}, l[:mid]...)
			nl = append(nl, mk(2))
			nl = append(nl, l[mid:]...)
			nl = append(nl, mk(3))
			q.TransportParameters = nl
			spec.SuppressTransportParameters = append(spec.SuppressTransportParameters, d.DupSuppressed)
		}
	}
	if d.CIDLimit > 0 {
		if q := wQTPExt(spec); q != nil {
			found := false
			for i, tp := range q.TransportParameters {
				if tp.ID() == 0x0e {
					q.TransportParameters[i], found = tls.ActiveConnectionIDLimit(d.CIDLimit), true
				}
			}
			if !found {
				q.TransportParameters = append(q.TransportParameters, tls.ActiveConnectionIDLimit(d.CIDLimit))
			}
		}
	}
	if d.ISCID != "" {
		if q := wQTPExt(spec); q != nil {
			b, _ := hex.DecodeString(d.ISCID)
			for i, tp := range q.TransportParameters {
				if tp.ID() == 0x0f {
					q.TransportParameters[i] = tls.InitialSourceConnectionID(b)
				}
			}
		}
	}
	switch d.Shuffle {
	case 1:
		spec.RandomizeTransportParameters = true
	case 2:
		spec.RandomizeTransportParameters = false
	}
	if d.PadCH > 0 && spec.ClientHelloSpec != nil {
		// enlarge the ClientHello (1..4 Initial datagrams) with an unknown extension the server ignores
		spec.ClientHelloSpec.Extensions = append(spec.ClientHelloSpec.Extensions, &tls.GenericExtension{Id: 0xfe0d + 0x100, Data: make([]byte, d.PadCH)})
	}
	return nil
}
