package verifsim

// Wire oracles: invariants evaluated by the independent observer on every
// datagram of every world run (C04 sender credit, C05 packet protection and
// numbering, C07 ACK content and timeliness, C14 amplification, C16 wire clauses).
// The oracles of the properties named in VERIF_ORACLES decide the run's verdict;
// the others only leave NOTE entries in the evidence.

import (
	"fmt"
	"os"
	"strings"
	"time"

	"github.com/refraction-networking/uquic/qlog"
)

type wStreamAcct struct {
	highest uint64 // highest offset+len sent (new data)
	fin     bool
}

type wConnAcct struct {
	seenPN      [2][3]map[int64]bool // packet numbers seen on the wire, per sender and space
	probePN     [2]map[int64]bool    // 1-RTT packets that carried PATH_CHALLENGE / PATH_RESPONSE
	c           *TapConn
	lastPN      [2][3]int64
	streams     [2]map[uint64]*wStreamAcct // by sender dir
	connSent    [2]uint64
	maxData     [2]uint64            // credit delivered to sender dir (connection level)
	maxStream   [2]map[uint64]uint64 // credit delivered to sender dir (per stream), from MAX_STREAM_DATA
	tpsKnown    [2]bool              // initial credit of sender dir known (peer's transport parameters seen)
	delivered   [2][3]map[int64]bool // packet numbers that may have been delivered intact to the receiver of dir
	surely      [2][3]map[int64]bool // packet numbers certainly delivered intact
	maxSurely   [2][3]int64
	firstGenPN  [2]map[int]int64 // first packet number sent per key generation
	genSeenFrom [2]int           // highest generation delivered to endpoint from peer, indexed by receiver side's sending dir
	hsDoneDeliv bool             // HANDSHAKE_DONE delivered to the client
	hsDoneSent  bool
	ackDue      [2]map[int64]int64 // receiver side (by its sending dir): pn of ack-eliciting 1-RTT packet -> deadline ns
	sent1RTT    [2]bool
	closed      [2]bool
}

type WireOracles struct {
	muted        bool       // the scenario makes connections indistinguishable for an observer (e.g. one-byte first destination IDs that repeat from dial to dial): the per-packet oracles are off
	refusedHello bool       // the scenario makes the server refuse the ClientHello (e.g. a wrong initial_source_connection_id)
	forged       [2][]int64 // 1-RTT packet numbers of forged packets played to the client (0) / server (1)
	w            *World
	n            *Nodes
	res          *KResult
	on           map[string]bool
	accts        map[*TapConn]*wConnAcct
	fails        int
}

func wOraclesEnabled(def string) map[string]bool {
	s := os.Getenv("VERIF_ORACLES")
	if s == "" {
		s = def
	}
	m := map[string]bool{}
	for _, p := range strings.Split(s, ",") {
		if p = strings.TrimSpace(p); p != "" {
			m[p] = true
		}
	}
	return m
}

func NewWireOracles(w *World, n *Nodes, res *KResult) *WireOracles {
	o := &WireOracles{w: w, n: n, res: res, on: wOraclesEnabled("C01"), accts: map[*TapConn]*wConnAcct{}}
	w.OnSend = o.onSend
	w.OnDeliver = o.onDeliver
	return o
}

// report: violation if the property is enabled for this check, NOTE otherwise.
func (o *WireOracles) report(prop, sig, format string, a ...any) {
	if o.on[prop] || o.on["all"] {
		o.res.Fail(sig, format, a...)
	} else {
		o.res.Note(prop + ": " + sig)
	}
}

func (o *WireOracles) acct(c *TapConn) *wConnAcct {
	a := o.accts[c]
	if a == nil {
		a = &wConnAcct{c: c}
		for d := 0; d < 2; d++ {
			a.streams[d] = map[uint64]*wStreamAcct{}
			a.maxStream[d] = map[uint64]uint64{}
			a.firstGenPN[d] = map[int]int64{}
			a.ackDue[d] = map[int64]int64{}
			for s := 0; s < 3; s++ {
				a.lastPN[d][s] = -1
				a.maxSurely[d][s] = -1
				a.delivered[d][s] = map[int64]bool{}
				a.surely[d][s] = map[int64]bool{}
			}
		}
		o.accts[c] = a
	}
	return a
}

// initial stream credit the sender `dir` has for stream id, from the peer's transport parameters
func wInitialStreamCredit(tps []TapTP, senderIsClient bool, id uint64) uint64 {
	clientInitiated := id&1 == 0
	uni := id&2 != 0
	switch {
	case uni:
		return tapTPUint(tps, 0x07, 0)
	case clientInitiated == senderIsClient:
		// the stream was opened by the sender: for the receiver it is a remote-initiated bidi stream
		return tapTPUint(tps, 0x06, 0)
	default:
		return tapTPUint(tps, 0x05, 0)
	}
}

func (o *WireOracles) peerTPs(a *wConnAcct, dir int) ([]TapTP, bool) {
	if dir == 0 { // client sends: limits come from the server's parameters
		return a.c.SrvTP, a.c.SrvTP != nil
	}
	if a.c.CH != nil && a.c.CH.HasTP {
		return a.c.CH.TPs, true
	}
	return nil, false
}

// clientInitialHeaderDamaged: has the network changed a byte in the long header of a client Initial packet (or cut the
// datagram inside it) in this run? (Called with the world's lock held.)
func (o *WireOracles) clientInitialHeaderDamaged() bool {
	for _, rec := range o.w.Log[0] {
		if !rec.Damaged {
			continue
		}
		for _, f := range rec.Faults {
			if f.Kind != "corrupt" && f.Kind != "trunc" {
				continue
			}
			for _, pk := range rec.Pkts {
				if pk.Type == TapInitial && int(f.A) >= pk.Off && int(f.A) < pk.Off+max(pk.HdrLen, 7) {
					return true
				}
			}
		}
	}
	return false
}

func (o *WireOracles) onSend(rec *DgramRec, data []byte) {
	if o.muted {
		return
	}
	now := o.w.NowNS()
	for _, p := range rec.Pkts {
		if p.Type == TapUnknown && p.Reset {
			o.res.Probe("stateless-reset-on-the-wire")
			continue
		}
		if o.refusedHello && p.Dir == 1 && p.Type != TapInitial && (p.Type == TapUnknown || p.Err != "") {
			// the server refuses the ClientHello (by construction of the scenario) and says so at the Handshake and 1-RTT levels
			// too, without a ServerHello from which the observer could derive those keys
			o.res.Probe("close-at-higher-levels-without-server-hello")
			continue
		}
		if p.Dir == 1 && p.Conn == nil && p.Type != TapUnknown && p.Err == "long-header packet for an unknown connection" && o.clientInitialHeaderDamaged() {
			// The header of an Initial packet is not protected on its own: one that arrives with its connection ID bytes (or
			// their length) changed is a valid-looking first packet of a connection under IDs the client never chose. The
			// server creates that connection, cannot open the packet, and says goodbye to it - to IDs no observer knows - when
			// it gives up or shuts down.
			o.res.Probe("server-connection-from-an-initial-with-a-damaged-header")
			continue
		}
		if p.Type == TapUnknown {
			o.report("C05", "a packet on the wire cannot be opened with independently derived keys", "%s#%d offset %d (%d bytes): no known connection/key opens it; starts with %x", dirName(p.Dir), p.Ord, p.Off, p.Size, data[min(p.Off, len(data)):min(p.Off+24, len(data))])
			continue
		}
		if p.Conn != nil && p.Conn.Shadow {
			o.res.Probe("shadow-server-connection")
			continue
		}
		if p.Err != "" && p.Type != Tap0RTT {
			o.report("C05", "a packet on the wire is not well-formed: "+stripNums(p.Err), "%s", p.String())
			continue
		}
		if !p.Opened || p.Conn == nil {
			continue
		}
		a := o.acct(p.Conn)
		d, sp := p.Dir, p.Space()
		// packet numbers strictly increase per sender and space; the only repetition allowed is the verbatim
		// CONNECTION_CLOSE packet of a closed connection (RFC 9000 10.2.1)
		if p.Repeat {
			if !a.closed[d] {
				o.report("C05", "packet repeated verbatim by a connection that is not closed", "%s", p.String())
			}
			continue
		}
		// (a path probe - PATH_CHALLENGE / PATH_RESPONSE to another address - is written to the socket directly and may overtake
		// packets with lower numbers that are still in the send queue: an inversion against probes only is not a reuse)
		if p.PN <= a.lastPN[d][sp] {
			onlyProbes := !a.seenPN[d][sp][p.PN]
			for pn := p.PN + 1; pn <= a.lastPN[d][sp] && onlyProbes; pn++ {
				if a.seenPN[d][sp][pn] && !a.probePN[d][pn] {
					onlyProbes = false
				}
			}
			if !onlyProbes || sp != 2 {
				o.report("C05", "packet number not strictly increasing within a number space", "%s", p.String())
			} else {
				o.res.Probe("path-probe-overtook-queued-packets")
			}
		}
		if a.seenPN[d][sp] == nil {
			a.seenPN[d][sp] = map[int64]bool{}
		}
		a.seenPN[d][sp][p.PN] = true
		if sp == 2 {
			for i := range p.Frames {
				if n := p.Frames[i].Name; n == "PATH_CHALLENGE" || n == "PATH_RESPONSE" {
					if a.probePN[d] == nil {
						a.probePN[d] = map[int64]bool{}
					}
					a.probePN[d][p.PN] = true
				}
			}
		}
		a.lastPN[d][sp] = max(a.lastPN[d][sp], p.PN)
		// the truncated packet number must be decodable given what the sender knows to be acknowledged (RFC 9000 17.1)
		specInitial := p.Type == TapInitial && d == 0 && o.n.Spec != nil
		if !specInitial {
			unacked := p.PN - p.LargestAc // LargestAc = -1 when nothing was acknowledged yet
			if p.PNLen < 4 && uint64(2*unacked) >= uint64(1)<<(8*uint(p.PNLen)) {
				o.report("C05", "packet number encoded too short for the unacknowledged range", "%s: largest acked known to sender %d", p.String(), p.LargestAc)
			}
		}
		if p.Type == Tap1RTT {
			a.sent1RTT[d] = true
			gen := p.Conn.phase[d]
			if _, ok := a.firstGenPN[d][gen]; !ok {
				a.firstGenPN[d][gen] = p.PN
				if gen > 0 {
					o.res.Probe("key-update")
					initiator := a.genSeenFrom[d] < gen
					if initiator {
						// RFC 9001 6.1/6.2: only after handshake confirmation and after an ACK for a packet of the current phase
						// (a client may also treat an acknowledged 1-RTT packet as confirmation, RFC 9001 4.1.2)
						confirmed := (d == 1 && a.hsDoneSent) || (d == 0 && (a.hsDoneDeliv || p.Conn.ackedTo[0][2] >= a.firstGenPN[0][0]))
						for i := range p.Frames {
							// (the server's handshake is confirmed when it is complete: the packet that carries HANDSHAKE_DONE
							// itself may already be protected with the next keys)
							if d == 1 && p.Frames[i].Name == "HANDSHAKE_DONE" {
								confirmed = true
							}
						}
						// (a path probe may overtake the queued packet that carries HANDSHAKE_DONE, see above)
						if !confirmed && a.probePN[d][p.PN] {
							o.res.Probe("path-probe-overtook-queued-packets")
						} else if !confirmed {
							o.report("C05", "key update initiated before the handshake was confirmed", "%s", p.String())
						}
						// the first update only needs the confirmed handshake; subsequent ones need an ACK for the current phase
						if first, ok := a.firstGenPN[d][gen-1]; gen >= 2 && (!ok || p.Conn.ackedTo[d][2] < first) {
							o.report("C05", "key update initiated before a packet of the current phase was acknowledged", "%s: first pn of previous phase %d, largest acked delivered %d", p.String(), first, p.Conn.ackedTo[d][2])
						}
					}
				}
			}
		}
		tps, haveTP := o.peerTPs(a, d)
		for i := range p.Frames {
			f := &p.Frames[i]
			switch f.Name {
			case "HANDSHAKE_DONE":
				if d == 1 {
					a.hsDoneSent = true
				} else {
					o.report("C05", "HANDSHAKE_DONE sent by a client", "%s", p.String())
				}
			case "CONNECTION_CLOSE", "CONNECTION_CLOSE_APP":
				a.closed[d] = true
			case "STREAM":
				if p.Type == Tap0RTT {
					continue
				}
				st := a.streams[d][f.StreamID]
				if st == nil {
					st = &wStreamAcct{}
					a.streams[d][f.StreamID] = st
				}
				end := f.Offset + f.Length
				if end > st.highest {
					newBytes := end - st.highest
					st.highest = end
					a.connSent[d] += newBytes
					if haveTP && !p.Conn.Used0RTTMaybe() {
						limit := max(wInitialStreamCredit(tps, d == 0, f.StreamID), a.maxStream[d][f.StreamID])
						if end > limit {
							o.report("C04", "sender transmitted stream data beyond the stream credit delivered to it", "%s: stream %d end %d > limit %d", p.String(), f.StreamID, end, limit)
						}
						climit := max(tapTPUint(tps, 0x04, 0), a.maxData[d])
						if a.connSent[d] > climit {
							o.report("C04", "sender transmitted stream data beyond the connection credit delivered to it", "%s: total %d > limit %d", p.String(), a.connSent[d], climit)
						}
					}
				}
			case "MAX_STREAM_DATA", "MAX_DATA":
				// C04: a limit is raised by what the application has consumed plus the current window, and the window (auto-tuned
				// or not) stays within the maximum the receiver's Config sets: no limit is further ahead of the data the peer has
				// sent so far (a superset of what was consumed) than that maximum
				if o.n == nil || p.Conn.Used0RTTMaybe() || (d == 0 && o.n.Cfg.Client != "" && o.n.Cfg.Client != "plain" && o.n.Cfg.Client != "unil") {
					break
				}
				if f.Name == "MAX_DATA" {
					if mw := o.n.Cfg.MaxWin[d*2+1]; mw > 0 && f.Max > a.connSent[1-d]+mw {
						o.report("C04", "receiver advertised a connection limit further ahead of the data sent to it than its configured maximum connection window", "%s: limit %d, peer has sent %d, Config.MaxConnectionReceiveWindow %d", p.String(), f.Max, a.connSent[1-d], mw)
					}
					break
				}
				if mw := o.n.Cfg.MaxWin[d*2]; mw > 0 {
					var sent uint64
					if st := a.streams[1-d][f.StreamID]; st != nil {
						sent = st.highest
					}
					if f.Max > sent+mw {
						o.report("C04", "receiver advertised a stream limit further ahead of the data sent to it than its configured maximum stream window", "%s: stream %d limit %d, peer has sent %d, Config.MaxStreamReceiveWindow %d", p.String(), f.StreamID, f.Max, sent, mw)
					}
				}
			case "ACK":
				// C07: only packet numbers that were delivered (undamaged) to this endpoint in this space
				set := a.delivered[1-d][sp]
				for ri, r := range f.Ranges {
					if r[0] > r[1] {
						o.report("C07", "ACK range malformed", "%s", p.String())
					}
					if ri > 0 && r[1]+1 >= f.Ranges[ri-1][0] {
						o.report("C07", "ACK ranges not descending and disjoint", "%s", p.String())
					}
					if r[1]-r[0] > 1<<20 {
						o.report("C07", "ACK range absurdly large", "%s", p.String())
						continue
					}
					for pn := r[0]; pn <= r[1]; pn++ {
						if !set[int64(pn)] {
							o.report("C07", "ACK acknowledges a packet number that was never delivered to the endpoint", "%s: pn %d", p.String(), pn)
							break
						}
					}
				}
				if sp == 2 {
					for pn := range a.ackDue[d] {
						if ackCovers(f, pn) {
							delete(a.ackDue[d], pn)
						}
					}
				}
			}
		}
		// C07 timeliness: every ack-eliciting 1-RTT packet processed by the endpoint is acknowledged within max_ack_delay
		if !a.closed[d] {
			for pn, due := range a.ackDue[d] {
				if now > due {
					delete(a.ackDue[d], pn)
					o.report("C07", "ack-eliciting packet not acknowledged within the maximum ack delay", "%s has not acknowledged 1-RTT pn %d, due %v ago (packet sent now: %s)", dirName(d), pn, time.Duration(now-due), p.String())
				}
			}
		}
	}
}

func ackCovers(f *TapFrame, pn int64) bool {
	for _, r := range f.Ranges {
		if uint64(pn) >= r[0] && uint64(pn) <= r[1] {
			return true
		}
	}
	return false
}

func (o *WireOracles) onDeliver(rec *DgramRec, data []byte, damaged bool) {
	if o.muted {
		return
	}
	now := o.w.NowNS()
	for i, p := range rec.Pkts {
		if !p.Opened || p.Conn == nil || p.Conn.Shadow || rec.PktState[i] == 2 {
			continue
		}
		a := o.acct(p.Conn)
		d, sp := p.Dir, p.Space()
		// superset: everything that may have reached the endpoint intact (what an ACK may legitimately cover)
		a.delivered[d][sp][p.PN] = true
		if rec.PktState[i] != 0 {
			continue
		}
		first := !a.surely[d][sp][p.PN]
		a.surely[d][sp][p.PN] = true
		// a late packet below what the peer allowed the receiver to forget is dropped as a potential duplicate:
		// the timeliness obligation is only stated for packets that are a new largest
		newLargest := p.PN > a.maxSurely[d][sp]
		if newLargest {
			a.maxSurely[d][sp] = p.PN
		}
		first = first && newLargest
		if p.Type == Tap1RTT {
			if g := p.Conn.generationOf(d, p); g > a.genSeenFrom[1-d] {
				a.genSeenFrom[1-d] = g
			}
			// timeliness obligation for the receiver (which sends in direction 1-d); only once it demonstrably has 1-RTT keys
			if first && p.AckEliciting() && a.sent1RTT[1-d] && !a.closed[1-d] && !a.closed[d] && a.hsDoneSent {
				a.ackDue[1-d][p.PN] = now + int64(26*time.Millisecond)
			}
		}
		for i := range p.Frames {
			f := &p.Frames[i]
			switch f.Name {
			case "MAX_DATA":
				if f.Max > a.maxData[1-d] {
					a.maxData[1-d] = f.Max
				}
			case "MAX_STREAM_DATA":
				if f.Max > a.maxStream[1-d][f.StreamID] {
					a.maxStream[1-d][f.StreamID] = f.Max
				}
			case "HANDSHAKE_DONE":
				if d == 1 {
					a.hsDoneDeliv = true
				}
			case "CONNECTION_CLOSE", "CONNECTION_CLOSE_APP":
				a.closed[1-d] = true // the receiver enters the draining state
			}
		}
	}
}

// Finish runs the end-of-history wire checks.
func (o *WireOracles) Finish() {
	if o.muted {
		return
	}
	for _, c := range o.w.Tap.Conns {
		for d := 0; d < 2; d++ {
			for s := 0; s < 3; s++ {
				if c.Crypto[d][s].conflict {
					o.report("C09", "CRYPTO stream retransmitted with different bytes at the same offset", "conn %d dir %d space %d", c.ID, d, s)
				}
			}
		}
	}
	o.res.ProbeN("tap-packets", int64(len(o.w.Tap.All)))
	o.checkEndpointView()
	o.checkGhostConnections()
}

// checkGhostConnections (C16: packets are routed to a connection for precisely its issued and not yet expired IDs).
// The connection ID a client chose for its first Initial packets stays routed to the server's connection until three
// probe timeouts after the handshake has completed: a copy of such an Initial that arrives earlier (a duplicate, a
// delayed or replayed datagram) belongs to that connection and must not make the server set up a second one.
// The observer sees a second server connection by its different source connection ID (a "shadow"); the bound is a
// lower bound of the real deadline that does not depend on the server's RTT statistics (see below).
func (o *WireOracles) checkGhostConnections() {
	if o.n == nil || o.n.QLog[1] == nil {
		return
	}
	for _, c := range o.w.Tap.Conns {
		if c.Shadow || len(c.shadows) == 0 || c.Retried {
			continue
		}
		var done, closed int64 = -1, -1
		for _, p := range c.Packets {
			for i := range p.Frames {
				switch p.Frames[i].Name {
				case "HANDSHAKE_DONE":
					if p.Dir == 1 && done < 0 {
						done = p.SentNS
					}
				case "CONNECTION_CLOSE", "CONNECTION_CLOSE_APP":
					if closed < 0 {
						closed = p.SentNS
					}
				}
			}
		}
		if done < 0 {
			continue
		}
		// A lower bound of the server's probe timeout that needs no knowledge of its RTT statistics: no RTT sample is
		// smaller than two one-way latencies of this network, and the PTO is the smoothed RTT plus at least a millisecond
		minPTO := 2*time.Duration(o.w.Net.LatencyUS)*time.Microsecond + time.Millisecond
		if len(o.w.Tap.Conns) > 2+len(c.shadows) {
			continue // several dials: their copies of first Initials are not told apart here
		}
		for _, sh := range c.shadows {
			var first int64 = -1
			for _, p := range sh.Packets {
				if p.Dir == 1 {
					first = p.SentNS
					break
				}
			}
			if first <= done || (closed >= 0 && first >= closed) {
				continue
			}
			// (a connection can also end in silence - idle timeout, destroyed with its transport - and then rightly frees
			// its IDs: only a first connection that demonstrably still sends afterwards counts)
			alive := false
			for _, p := range c.Packets {
				if p.Dir == 1 && p.Opened && p.SentNS > first && p.Type == Tap1RTT {
					alive = true
					break
				}
			}
			if !alive {
				continue
			}
			if first < done+int64(3*minPTO)-int64(time.Millisecond) {
				o.report("C16", "a copy of the client's first Initial made the server set up a second connection although the handshake of the first had completed less than three probe timeouts before", "second connection (source ID %x) answers at %v; HANDSHAKE_DONE sent at %v, lower bound of the server's PTO %v", sh.ServerSCID, time.Duration(first), time.Duration(done), minPTO)
			} else {
				o.res.Probe("second-server-connection-after-the-grace-period")
			}
		}
	}
}

// checkEndpointView compares what the endpoints themselves logged (qlog) with the simulator's ground truth.
//   - C05, tampering: a packet whose only delivered copies were damaged inside that packet must never be logged as
//     received by the endpoint (any modification of a protected packet is rejected).
//   - C20 (reach check on real connections): the congestion window an endpoint reports stays between two full-size
//     packets and the maximum.
func (o *WireOracles) checkEndpointView() {
	if o.n == nil {
		return
	}
	type pk struct {
		typ string
		pn  int64
	}
	for side := 0; side < 2; side++ {
		ql := o.n.QLog[side]
		if ql == nil {
			continue
		}
		dirIn := 1 - side
		// packets (type, number) that reached this endpoint intact at least once / only damaged
		intact, damagedOnly := map[pk]bool{}, map[pk]*TapPacket{}
		multi := len(o.w.Tap.Conns) > 1 // several connections share packet numbers: only judge single-connection runs
		for _, rec := range o.w.Log[dirIn] {
			for i, p := range rec.Pkts {
				if !p.Opened || p.Conn == nil || p.Conn.Shadow {
					continue
				}
				k := pk{[]string{"initial", "0RTT", "handshake", "retry", "version_negotiation", "1RTT", ""}[p.Type], p.PN}
				if len(rec.Delivered) > 0 && rec.PktState[i] == 0 {
					intact[k] = true
				} else if len(rec.Delivered) > 0 && rec.PktState[i] == 2 {
					damagedOnly[k] = p
				}
			}
		}
		// packets the simulation itself forged and played to this endpoint (foreign-peer probe) arrived intact
		for _, pn := range o.forged[side] {
			intact[pk{"1RTT", pn}] = true
		}
		// C20 on real connections: the endpoint's own account of bytes in flight and congestion window. New ack-eliciting
		// data goes out only while the bytes in flight are below the window: they may pass it by at most one packet, unless
		// a probe timeout fired or a loss shrank the window below what is in flight (judged again once they are back under it)
		prevInFlight, cwnd, excused := 0, 0, false
		ql.mu.Lock()
		for _, e := range ql.Events {
			switch ev := e.Ev.(type) {
			case qlog.PTOCountUpdated:
				if ev.PTOCount > 0 {
					excused = true
				}
			case qlog.PacketLost, qlog.CongestionStateUpdated, qlog.MTUUpdated:
				excused = true
			}
			switch ev := e.Ev.(type) {
			case qlog.PacketReceived:
				k := pk{string(ev.Header.PacketType), int64(ev.Header.PacketNumber)}
				if p, bad := damagedOnly[k]; bad && !intact[k] && !multi {
					o.report("C05", "an endpoint processed a packet although every copy delivered to it had been modified in transit", "%s logged %s pn %d as received; the only delivered copy was damaged: %s", dirName(side), k.typ, k.pn, p.String())
				}
			case qlog.MetricsUpdated:
				if os.Getenv("VERIF_DUMP_METRICS") != "" {
					o.res.Logf("metrics %s %d: cwnd %d in flight %d excused %v", dirName(side), e.AtNS/1000, ev.CongestionWindow, ev.BytesInFlight, excused)
				}
				// (the event carries only the values that changed: zero means "as before")
				if ev.CongestionWindow != 0 {
					cwnd = ev.CongestionWindow
				}
				if ev.BytesInFlight != 0 && cwnd != 0 {
					if ev.BytesInFlight <= cwnd {
						excused = false
					} else if !excused && ev.BytesInFlight >= prevInFlight+500 && ev.BytesInFlight > cwnd+1500 {
						// (only packets of some size: an ACK-only packet that gets a PING added now and then, or a small control
						// frame, is not new data)
						o.report("C20", "a real connection released new data although its bytes in flight had reached the congestion window", "%s at %v: %d bytes in flight (before: %d), congestion window %d, no probe timeout or loss since they were last below it", dirName(side), time.Duration(e.AtNS), ev.BytesInFlight, prevInFlight, cwnd)
						excused = true
					}
					prevInFlight = ev.BytesInFlight
				}
				if ev.CongestionWindow != 0 {
					o.res.Probe("qlog-cwnd-sample")
					if ev.CongestionWindow < 2*1200 || ev.CongestionWindow > 10001*1500 {
						o.report("C20", "congestion window reported by a real connection is outside its bounds", "%s: cwnd %d", dirName(side), ev.CongestionWindow)
					}
					cwnd = ev.CongestionWindow
				}
			}
		}
		ql.mu.Unlock()
	}
}

// generationOf: key generation a delivered 1-RTT packet was protected with (the tap opened it at send time).
func (c *TapConn) generationOf(d int, p *TapPacket) int {
	// the tap only advances phase[d] when a packet opens under the next generation, and the key phase bit is the parity
	g := c.phase[d]
	if g&1 != p.KeyPhase {
		g--
	}
	return max(g, 0)
}

// Used0RTTMaybe: the tap cannot open 0-RTT packets, so stream accounting is unreliable once 0-RTT packets were seen.
func (c *TapConn) Used0RTTMaybe() bool {
	return c.saw0RTT
}

func dirName(d int) string {
	if d == 0 {
		return "client"
	}
	return "server"
}

func stripNums(s string) string {
	var b strings.Builder
	for _, r := range s {
		if r >= '0' && r <= '9' {
			continue
		}
		b.WriteRune(r)
	}
	return b.String()
}

var _ = fmt.Sprintf
