package verifsim

// W:hs - connection establishment under faults and forged packets.
// Serves C13 (handshakes converge or fail cleanly; forged packets cannot change the
// outcome; 0-RTT exactly once / never) and C14 (3x amplification limit before address
// validation; tokens prove only their address, only within their lifetime).

import (
	"bytes"
	"context"
	"encoding/binary"
	"errors"
	"fmt"
	"io"
	"net"
	"os"
	"runtime"
	"sync"
	"sync/atomic"
	"testing"
	"time"

	quic "github.com/refraction-networking/uquic"
	"github.com/refraction-networking/uquic/testutils/simnet"
	tls "github.com/refraction-networking/utls"
)

type HsScenario struct {
	Seed         uint64    `json:"seed"`
	Cfg          WConfig   `json:"cfg"`
	Net          WNet      `json:"net"`
	Faults       []WFault  `json:"faults"`
	Mode         string    `json:"mode"` // plain | resume | inject | token
	VN           bool      `json:"vn,omitempty"`
	Reject       bool      `json:"reject_0rtt,omitempty"`
	Early        int       `json:"early,omitempty"`           // bytes of early data on the resumed connection
	CancelAtVNUS int64     `json:"cancel_at_vn_us,omitempty"` // > 0: the application cancels the dial this many microseconds after the (genuine) Version Negotiation packet reached the client
	Reply        int       `json:"reply,omitempty"`           // bytes the server application answers a request with (0: "ok")
	Inject       []WInject `json:"inject,omitempty"`
	Token        string    `json:"token,omitempty"` // valid | rebound | expired | truncated | flipped | otherkey
	AgeS         int64     `json:"age_s,omitempty"`
	NoTokenStore bool      `json:"no_token_store,omitempty"` // resume mode: the client keeps session tickets but no address-validation tokens
}

func (s *HsScenario) KSeed() uint64 { return s.Seed }

func init() {
	KRegister(&KSim{Name: "hs", New: func() KScenario { return &HsScenario{} }, Gen: genHs, Run: runHs, Sweep: sweepHs})
}

var hsInjectKinds = []string{"vn-other", "vn-same", "retry-badtag", "retry-garbage", "initial-close", "initial-ack-garbage", "replay-c2s", "replay-s2c", "garbage-long", "garbage-short", "handshake-garbage"}

func genHs(seed uint64, tier string) KScenario {
	r := NewKRng(seed)
	sc := &HsScenario{Seed: seed}
	sc.Cfg.Client = r.Pick2("plain", "plain", "unil", "chrome115", "firefox116", "chrome146")
	sc.Cfg.Version = 1
	sc.Cfg.ServerCIDLen = r.Pick(4, 8, 12, 20)
	sc.Cfg.ClientCIDLen = r.Pick(0, 4, 8)
	sc.Cfg.Retry = r.P(0.3)
	sc.Cfg.ChainLen = r.Pick(0, 0, 2, 8, 16)
	sc.Cfg.Datagrams = [2]bool{true, false}
	sc.Cfg.HSIdleMS = [2]int64{int64(r.Pick(0, 0, 2000, 8000)), int64(r.Pick(0, 0, 2000, 8000))}
	sc.Net.LatencyUS = int64(r.Pick(300, 3000, 10000, 40000))
	sc.Net.JitterUS = int64(r.Pick(0, 200, 3000, 15000))
	sc.VN = r.P(0.2)
	switch x := r.N(10); {
	case x < 4:
		sc.Mode = "plain"
	case x < 6:
		sc.Mode = "resume"
		sc.Cfg.Allow0RTT = true
		sc.Reject = r.P(0.4)
		sc.Early = r.Pick(1, 500, 5000, 30000)
		sc.VN = false
		sc.NoTokenStore = r.P(0.5)
		if r.P(0.35) {
			// the Initial packets of the resumed connection's first flight are lost while its 0-RTT packets travel on:
			// the ClientHello is only seen on a PTO retransmission (and, with Retry, answered by a Retry after that)
			sc.Net.DropInitials, sc.Net.DropInitialsAfterMS = r.Pick(1, 2, 2, 3), 2500
		}
		if r.P(0.4) {
			// 0.5-RTT data: the server wants to send much more than the handshake while the client's Handshake packets
			// (the proof of its address) are lost
			sc.Reply = r.Pick(3000, 20000, 60000)
			sc.Net.DropHandshakes, sc.Net.DropHandshakesAfterMS = r.Pick(0, 1, 3, 6), 2500
		}
	case x < 8:
		sc.Mode = "inject"
		n := r.Range(1, 4)
		for i := 0; i < n; i++ {
			sc.Inject = append(sc.Inject, WInject{AtMS: int64(r.Pick(0, 1, 5, 20, 60, 150, 400)), To: r.N(2), Kind: hsInjectKinds[r.N(len(hsInjectKinds))], A: int64(r.N(1 << 16)), B: int64(r.N(8))})
		}
		if sc.VN && r.P(0.6) && sc.Net.LatencyUS >= 3000 {
			// a forged Version Negotiation packet in the window between the genuine one (processed after one round trip)
			// and the server's answer to the second attempt (after two round trips)
			sc.Inject = append(sc.Inject, WInject{AtMS: sc.Net.LatencyUS * 3 / 1000, To: 1, Kind: "vn-other", A: int64(r.N(1 << 16))})
		}
	default:
		sc.Mode = "token"
		sc.Token = r.Pick2("valid", "rebound", "expired", "truncated", "flipped", "otherkey")
		sc.AgeS = int64(r.Pick(0, 1, 3600, 90000, 200000))
		sc.VN = false
		sc.Cfg.V6 = r.P(0.4)
	}
	if sc.Mode != "inject" && r.P(0.7) {
		sc.Net.Drop = r.F() * 0.2
		sc.Net.Dup = r.F() * 0.08
		sc.Net.Delay = r.F() * 0.1
		if r.P(0.3) {
			sc.Net.Corrupt = r.F() * 0.03
		}
		sc.Net.FaultUntilMS = int64(r.Pick(300, 1500, 6000))
	}
	if r.P(0.2) {
		sc.Net.Burst = r.Pick(2, 4, 16)
	}
	if sc.VN && sc.Mode == "plain" && r.P(0.3) {
		// the dial is cancelled while the client replaces its connection by one in the negotiated version
		sc.CancelAtVNUS = int64(r.Pick(1+r.N(40), 1+r.N(40), 1+r.N(40), 200, 1000, 5000))
	}
	if !sc.VN && r.P(0.25) {
		sc.Cfg.Version = 2 // QUIC v2 from the start (other Initial salt, Retry key, packet type bits)
	}
	if r.P(0.15) {
		// damage to the long header of one of the first client datagrams (version, connection ID lengths and bytes, token
		// length): the server may create its connection from a header it cannot authenticate
		sc.Faults = append(sc.Faults, WFault{Dir: 0, Ord: r.N(2), Kind: "corrupt", A: int64(r.N(40)), B: int64(1 << r.N(8))})
	}
	return sc
}

// sweepHs: every single fault and every pair of drop/dup faults over the first handshake datagrams of four base scenarios.
func sweepHs(idx int, tier string) KScenario {
	bases := []func(*HsScenario){
		func(s *HsScenario) { s.Cfg.Client = "plain" },
		func(s *HsScenario) { s.Cfg.Client = "plain"; s.Cfg.Retry = true; s.Cfg.ChainLen = 8 },
		func(s *HsScenario) { s.Cfg.Client = "chrome115"; s.VN = false },
		func(s *HsScenario) { s.Cfg.Client = "plain"; s.VN = true },
	}
	kinds := []WFault{{Kind: "drop"}, {Kind: "dup", A: 2000}, {Kind: "delay", A: 300000}, {Kind: "corrupt", A: 3, B: 0x10}, {Kind: "trunc", A: 40}}
	N := 8
	if tier == "thorough" {
		N = 12
	}
	npos := 2 * N
	singles := npos * len(kinds)
	pk := []WFault{kinds[0], kinds[1], kinds[2]}
	np := npos * len(pk)
	pairs := np * (np - 1) / 2
	stride := 7
	if tier == "thorough" {
		stride = 1
	}
	perBase := singles + (pairs+stride-1)/stride
	b := idx / perBase
	if b >= len(bases) {
		return nil
	}
	k := idx % perBase
	sc := &HsScenario{Seed: KMix(0xb5, uint64(idx)), Mode: "plain"}
	sc.Cfg = WConfig{Version: 1, ServerCIDLen: 8, ClientCIDLen: 4, Datagrams: [2]bool{true, false}}
	sc.Net = WNet{LatencyUS: 5000, Explicit: true}
	bases[b](sc)
	mk := func(f WFault, p int) WFault { f.Dir, f.Ord = p/N, p%N; return f }
	if k < singles {
		sc.Faults = []WFault{mk(kinds[k%len(kinds)], k/len(kinds))}
		return sc
	}
	j := (k - singles) * stride
	for a := 0; a < np; a++ {
		if j < np-1-a {
			c := a + 1 + j
			sc.Faults = []WFault{mk(pk[a%len(pk)], a/len(pk)), mk(pk[c%len(pk)], c/len(pk))}
			return sc
		}
		j -= np - 1 - a
	}
	return sc
}

func (r *KRng) Pick2(s ...string) string { return s[r.N(len(s))] }

// ---------------------------------------------------------------- forged packets (on-path attacker)

// hsSealInitial builds a protected Initial packet with keys derived from dcidForKeys (attackers can do that).
func hsSealInitial(version uint32, keyDCID, dcid, scid []byte, fromClient bool, pn uint32, payload []byte) []byte {
	ck, sk := tapInitialKeys(keyDCID, version == tapV2)
	k := sk
	if fromClient {
		k = ck
	}
	typ := byte(0xc0)
	if version == tapV2 {
		typ = 0xd0
	}
	hdr := []byte{typ | 0x01} // 2-byte packet number
	hdr = binary.BigEndian.AppendUint32(hdr, version)
	hdr = append(hdr, byte(len(dcid)))
	hdr = append(hdr, dcid...)
	hdr = append(hdr, byte(len(scid)))
	hdr = append(hdr, scid...)
	hdr = append(hdr, 0) // no token
	for len(payload) < 4 {
		payload = append(payload, 0)
	}
	l := 2 + len(payload) + 16
	hdr = append(hdr, byte(0x40|l>>8), byte(l))
	pnOff := len(hdr)
	hdr = append(hdr, byte(pn>>8), byte(pn))
	nonce := append([]byte{}, k.iv...)
	for i := 0; i < 4; i++ {
		nonce[len(nonce)-1-i] ^= byte(pn >> (8 * i))
	}
	ct := k.aead.Seal(nil, nonce, payload, hdr)
	pkt := append(hdr, ct...)
	m := k.mask(pkt[pnOff+4 : pnOff+20])
	pkt[0] ^= m[0] & 0x0f
	pkt[pnOff] ^= m[1]
	pkt[pnOff+1] ^= m[2]
	return pkt
}

func hsVarint(v uint64) []byte {
	switch {
	case v < 1<<6:
		return []byte{byte(v)}
	case v < 1<<14:
		return []byte{0x40 | byte(v>>8), byte(v)}
	default:
		return []byte{0x80 | byte(v>>24), byte(v >> 16), byte(v >> 8), byte(v)}
	}
}

// ---------------------------------------------------------------- run

type hsDialResult struct {
	conn, sconn  *quic.Conn
	cerr, serr   error
	dialReturned time.Duration
	tap          *TapConn
	rejectedSeen bool   // the client got Err0RTTRejected
	verified     []bool // ClientInfo.AddrVerified seen by the server for the connections of this dial
}

func runHs(t *testing.T, ksc KScenario, res *KResult) {
	sc := ksc.(*HsScenario)
	wBegin(&sc.Cfg)
	defer wEnd()
	on := wOraclesEnabled("C13")
	report := func(prop, sig, f string, a ...any) {
		if on[prop] || on["all"] {
			res.Fail(sig, f, a...)
		} else {
			res.Note(prop + ": " + sig)
		}
	}
	w := NewWorld(t, sc.Seed, &sc.Net, res)
	w.SetFaults(sc.Faults)
	nodes, err := NewNodes(w, &sc.Cfg)
	if err != nil {
		res.Fail("spec could not be built", "%v", err)
		return
	}
	wo := NewWireOracles(w, nodes, res)
	wo.on = on
	// ---- C14: anti-amplification accounting at the router
	var (
		ampMu       sync.Mutex
		ampRcvd     = map[string]int64{} // bytes delivered to the server, per client address
		ampSent     = map[string]int64{}
		ampValid    = map[string]bool{}
		ampEpoch    int    // connections the wiretap knew when the current dial began: their datagrams are not this dial's
		tokenValid  = true // ground truth for the token the client presents (token mode)
		presented   []byte // that token
		ampViolated bool
	)
	prevSend, prevDeliver := w.OnSend, w.OnDeliver
	w.OnSend = func(rec *DgramRec, data []byte) {
		prevSend(rec, data)
		if rec.Dir != 1 {
			return
		}
		ampMu.Lock()
		defer ampMu.Unlock()
		addr := w.lastClientAddrFor(rec)
		// Stragglers of an earlier dial are not part of this one: the closing period of an earlier connection answering a
		// delayed packet, or a connection that a delayed copy of an Initial had created at the server being refused when the
		// listener closes. They are recognised by (a) the wiretap attributing every packet to a connection that existed before
		// this dial began (an attribution to a connection of another client address is a guess made for zero-length
		// connection IDs and does not count), (b) no packet of the datagram being readable with any keys the wiretap holds
		// for this dial's connections, or (c) nothing having arrived from that address since this dial began.
		old := false
		if ampEpoch > 0 && len(rec.Pkts) > 0 {
			earlier, unreadable := true, true
			for _, p := range rec.Pkts {
				if !(p.Conn != nil && p.Conn.ClientAddr == rec.Client && p.Conn.ID < ampEpoch) {
					earlier = false
				}
				if p.Opened {
					unreadable = false
				}
			}
			old = earlier || unreadable || ampRcvd[addr] == 0
		}
		if old {
			res.Probe("amp-datagram-of-an-earlier-connection")
			return
		}
		if !ampValid[addr] && ampSent[addr] >= 3*ampRcvd[addr] && !ampViolated {
			ampViolated = true
			sig := "server sent to an unvalidated address although it had already sent three times the bytes received from it"
			onlyClose, anyClose := len(rec.Pkts) > 0, false
			for _, p := range rec.Pkts {
				// (the same close goes out at every level the endpoint has keys for; the observer may lack the Handshake
				// keys when the server refused the ClientHello: an unreadable packet between two closes is the third copy)
				if len(p.Frames) == 0 && p.Opened {
					onlyClose = false
				}
				for i := range p.Frames {
					if n := p.Frames[i].Name; n != "CONNECTION_CLOSE" && n != "CONNECTION_CLOSE_APP" && n != "PADDING" {
						onlyClose = false
					} else if n != "PADDING" {
						anyClose = true
					}
				}
			}
			if onlyClose && anyClose {
				sig += " (a CONNECTION_CLOSE datagram)"
			}
			if os.Getenv("VERIF_DUMP_AMP") != "" {
				for d := 0; d < 2; d++ {
					for _, r := range w.Log[d] {
						cid := -1
						if len(r.Pkts) > 0 && r.Pkts[0].Conn != nil {
							cid = r.Pkts[0].Conn.ID
						}
						res.Logf("amp: dir %d #%d at %d client=%s size=%d conn=%d delivered=%v %v", d, r.Ord, r.SentNS/1000, r.Client, r.Size, cid, r.Delivered, r.Pkts)
					}
				}
				res.Logf("amp: epoch %d", ampEpoch)
			}
			report("C14", sig, "to %s: sent %d, received %d, now sending %d more (%v)", addr, ampSent[addr], ampRcvd[addr], rec.Size, rec.Pkts)
		}
		ampSent[addr] += int64(rec.Size)
		if !ampValid[addr] {
			res.Probe("amp-unvalidated-send")
			if ampSent[addr] >= 3*ampRcvd[addr] {
				res.Probe("amp-limit-reached")
			}
		}
	}
	var curCancel atomic.Value // context.CancelFunc of the dial in progress
	var vnCancelled, dialDone atomic.Bool
	var cancelWG sync.WaitGroup // (the run does not end while a canceller is still counting down)
	defer cancelWG.Wait()
	w.OnDeliver = func(rec *DgramRec, data []byte, damaged bool) {
		prevDeliver(rec, data, damaged)
		if rec.Dir == 1 && sc.CancelAtVNUS > 0 && !damaged && len(rec.Pkts) == 1 && rec.Pkts[0].Type == TapVN && vnCancelled.CompareAndSwap(false, true) {
			if c, ok := curCancel.Load().(context.CancelFunc); ok && !dialDone.Load() {
				res.Probe("dial-cancelled-at-version-negotiation")
				cancelWG.Add(1)
				go func() {
					defer cancelWG.Done()
					if sc.CancelAtVNUS < 100 {
						// the same instant, a few scheduling steps later: somewhere between the connection's run loop
						// deciding to be re-created and the dialer learning of it
						for i := int64(0); i < sc.CancelAtVNUS; i++ {
							runtime.Gosched()
						}
					} else {
						time.Sleep(time.Duration(sc.CancelAtVNUS) * time.Microsecond)
					}
					if !dialDone.Load() { // (a dial that has returned is not cancelled any more: the context also serves the exchange)
						c()
					}
				}()
			}
		}
		if rec.Dir != 0 {
			return // (every delivered copy counts: a duplicated datagram is bytes received from that address)
		}
		ampMu.Lock()
		defer ampMu.Unlock()
		addr := w.clientAddrOf(rec)
		ampRcvd[addr] += int64(len(data))
		for i, p := range rec.Pkts {
			// (state 1: coalesced behind a packet whose long header was damaged - if the damage spared the length field and
			// the destination connection ID, e.g. it hit the source connection ID, this packet is intact and is processed)
			if rec.PktState[i] == 2 || !p.Opened {
				continue
			}
			// validation: a Handshake packet from the client, or an Initial carrying a token that is valid by construction
			if p.Type == TapHandshake || (p.Type == TapInitial && len(p.Token) > 0 && (tokenValid || !bytes.Equal(p.Token, presented))) {
				ampValid[addr] = true
			}
		}
	}
	w.OnInject = func(to int, data []byte) {
		if to == 0 {
			ampMu.Lock()
			ampRcvd[wClientAddr.String()] += int64(len(data)) // forged datagrams carry the client's address
			// a replayed genuine datagram that contains a client Handshake packet validates the address like the original would
			hsh := KHashS(string(data))
			for _, rec := range w.Log[0] {
				if rec.Hash == hsh {
					for _, p := range rec.Pkts {
						// (the same rule as for genuine deliveries: a Handshake packet, or an Initial with a valid token)
						if p.Opened && (p.Type == TapHandshake || (p.Type == TapInitial && len(p.Token) > 0 && (tokenValid || !bytes.Equal(p.Token, presented)))) {
							ampValid[rec.Client] = true
						}
					}
				}
			}
			ampMu.Unlock()
		}
	}
	w.StartDriver()
	var extraTr []*quic.Transport
	var extraPC []*simnet.SimConn
	defer func() {
		// C13, "the failing side releases its state": every connection of the workload has been closed or has failed by now;
		// what the transports still hold (closing periods, connections created by delayed or forged Initials, connections
		// nobody accepted) goes away by its closing period, handshake timeout or idle timeout - after that nothing may be left
		if !res.Failed() && res.Blocked == "" && (on["C13"] || on["all"]) {
			names, trs := []string{"client transport", "server transport"}, []*quic.Transport{nodes.CTr, nodes.STr}
			for _, tr := range extraTr {
				names, trs = append(names, "extra client transport"), append(trs, tr)
			}
			bound := time.Duration(max(nzIdle(sc.Cfg.IdleMS[0]), nzIdle(sc.Cfg.IdleMS[1])))*time.Millisecond + 2*max(hsIdle(&sc.Cfg, 0), hsIdle(&sc.Cfg, 1)) + 40*time.Second
			if left := wDrained(names, trs, bound); left != "" {
				report("C13", "a transport still holds state of connections long after every handshake has completed or failed and every connection was closed", "%s", left)
			} else {
				res.Probe("tables-drained")
			}
		}
		for _, tr := range extraTr {
			tr.Close()
		}
		for _, pc := range extraPC {
			pc.Close()
		}
		nodes.Close()
		w.Stop()
		if !sc.Net.Explicit {
			sc.Net.Explicit = true
			sc.Faults = w.Fired
		}
		wo.Finish()
		w.FeedShape()
	}()

	// server-side observation of address validation
	var verMu sync.Mutex
	type verEntry struct {
		at int64
		ok bool
	}
	var verified []verEntry
	nodes.SQ.GetConfigForClient = func(ci *quic.ClientInfo) (*quic.Config, error) {
		verMu.Lock()
		verified = append(verified, verEntry{w.NowNS(), ci.AddrVerified})
		verMu.Unlock()
		// (nil would mean "the default Config": the server must keep the one of the scenario - Allow0RTT, timeouts, ...)
		c := nodes.SQ.Clone()
		c.GetConfigForClient = nil
		return c, nil
	}
	if sc.VN {
		nodes.SQ.Versions = []quic.Version{quic.Version1}
		nodes.CQ.Versions = []quic.Version{quic.Version2, quic.Version1}
	}
	if sc.Mode == "resume" || sc.Mode == "token" {
		nodes.CTLS.ClientSessionCache = tls.NewLRUClientSessionCache(4)
		if !sc.NoTokenStore || sc.Mode == "token" {
			// (without a token store a resumed connection to a server that demands address validation meets a Retry again)
			nodes.CQ.TokenStore = quic.NewLRUTokenStore(2, 4)
		}
	}
	if err := nodes.Listen(); err != nil {
		res.Fail("Listen failed", "%v", err)
		return
	}

	hsTimeout := func(side int) time.Duration { return 2 * hsIdle(&sc.Cfg, side) }
	early := wPayload(KMix(sc.Seed, 0xea71), 0, sc.Early)
	var earlyGot [][]byte // what the server application read from client-initiated streams, per connection
	var earlyMu sync.Mutex

	dial := func(idx int, earlyDial bool, horizon time.Duration) *hsDialResult {
		// address validation is a matter of one connection: what an earlier connection from the same address received, sent
		// and proved says nothing about this one (the earlier one has ended and drained by now)
		ampMu.Lock()
		clear(ampRcvd)
		clear(ampSent)
		clear(ampValid)
		ampEpoch = len(w.Tap.Conns)
		ampMu.Unlock()
		r := &hsDialResult{}
		before := len(w.Tap.Conns)
		ctx, cancel := context.WithTimeout(context.Background(), horizon)
		curCancel.Store(cancel)
		dialDone.Store(false)
		defer cancel()
		adone := make(chan struct{}) // closed when a server connection completed its handshake (or accepting failed)
		var swg sync.WaitGroup
		var aonce sync.Once
		swg.Add(1)
		go func() {
			defer swg.Done()
			defer aonce.Do(func() { close(adone) })
			// An early listener also hands out connections whose handshake never completes (a delayed Initial of an
			// earlier dial creates one): serve every accepted connection, the one that completes is ours.
			for {
				c, err := nodes.Accept(ctx)
				if err != nil {
					if r.sconn == nil {
						r.serr = err
					}
					return
				}
				swg.Add(2)
				go func() {
					defer swg.Done()
					select {
					case <-c.HandshakeComplete():
						if r.sconn == nil {
							r.sconn = c
							aonce.Do(func() { close(adone) })
						}
					case <-c.Context().Done():
					case <-ctx.Done():
					}
				}()
				go func() {
					defer swg.Done()
					for {
						s, err := c.AcceptStream(ctx)
						if err != nil {
							return
						}
						b, _ := io.ReadAll(s)
						earlyMu.Lock()
						earlyGot = append(earlyGot, b)
						earlyMu.Unlock()
						if sc.Reply > 0 {
							s.Write(wPayload(KMix(sc.Seed, 0x4e91), 0, sc.Reply))
						} else {
							s.Write([]byte("ok"))
						}
						s.Close()
					}
				}()
			}
		}()
		t0 := w.NowNS()
		var conn *quic.Conn
		var err error
		if earlyDial {
			conn, err = nodes.DialEarly(ctx)
		} else {
			conn, err = nodes.Dial(ctx)
		}
		dialDone.Store(true)
		r.dialReturned = time.Duration(w.NowNS() - t0)
		r.conn, r.cerr = conn, err
		if err != nil {
			cancel()
		} else {
			// use the connection: one request/response (early data on a resumed connection)
			payload := []byte("ping")
			if earlyDial {
				payload = early
			}
			str, oerr := conn.OpenStreamSync(ctx)
			if oerr == nil {
				_, werr := str.Write(payload)
				str.Close()
				var rerr error
				if werr == nil {
					_, rerr = io.ReadAll(str)
				}
				if werr != nil || rerr != nil {
					oerr = errors.Join(werr, rerr)
				}
			}
			if oerr != nil && errors.Is(oerr, quic.Err0RTTRejected) {
				res.Probe("0rtt-rejected-seen-by-client")
				r.rejectedSeen = true
				nctx, ncancel := context.WithTimeout(ctx, 20*time.Second)
				if nc, nerr := conn.NextConnection(nctx); nerr == nil {
					if s2, e2 := nc.OpenStreamSync(nctx); e2 == nil {
						s2.Write([]byte("after-reject"))
						s2.Close()
						io.ReadAll(s2)
					}
				}
				ncancel()
			} else if oerr != nil {
				r.cerr = oerr
				if c := context.Cause(conn.Context()); c != nil {
					r.cerr = c
				}
			}
			select {
			case <-adone:
			case <-conn.Context().Done():
				if r.cerr == nil {
					r.cerr = context.Cause(conn.Context())
				}
				cancel()
			}
		}
		<-adone
		if conn != nil {
			time.Sleep(30 * time.Millisecond) // NEW_TOKEN / session tickets arrive after the handshake
			conn.CloseWithError(0, "done")
		}
		cancel()
		if r.sconn != nil {
			select {
			case <-r.sconn.Context().Done():
			case <-time.After(3 * time.Second):
			}
			r.sconn.CloseWithError(0, "done")
		}
		swg.Wait()
		for _, c := range w.Tap.Conns[before:] {
			if !c.Shadow && r.tap == nil {
				r.tap = c
			}
		}
		verMu.Lock()
		r.verified = nil
		for _, v := range verified {
			if v.at >= t0 { // connections created from datagrams that reached the server during this dial
				r.verified = append(r.verified, v.ok)
			}
		}
		verified = nil
		verMu.Unlock()
		res.Logf("dial %d (early=%v): client err=%v server err=%v, Dial returned after %v", idx, earlyDial, r.cerr, r.serr, r.dialReturned)
		for _, p := range w.Tap.All {
			if p.SentNS >= t0 && (p.Type != Tap1RTT || len(p.Frames) < 3) {
				rec := w.Log[p.Dir][p.Ord]
				res.Logf("  %d %s dgram=%d {%s-> %v}", p.SentNS/1000, p.String(), rec.Size, rec.Fate, rec.Delivered)
			}
		}
		return r
	}

	// schedule the attacker
	for _, in := range sc.Inject {
		in := in
		w.At(time.Duration(in.AtMS)*time.Millisecond, func() { hsInject(w, sc, in, res) })
	}

	horizon := 45 * time.Second
	d1 := dial(0, false, horizon)
	hsCheckOutcome(w, sc, nodes, d1, 0, false, hsTimeout, report, res)
	if res.Failed() {
		return
	}
	switch sc.Mode {
	case "resume":
		if d1.cerr != nil || d1.serr != nil {
			return
		}
		if sc.Reject {
			// the server forgets what it promised: 0-RTT must be rejected
			nodes.ELn.Close()
			nodes.SQ.MaxIncomingStreams = 77
			nodes.SQ.Allow0RTT = true
			ln, err := nodes.STr.ListenEarly(nodes.STLS, nodes.SQ)
			if err != nil {
				res.Note("could not re-listen: " + err.Error())
				return
			}
			nodes.ELn = ln
		}
		// (a socket with zero-length connection IDs carries one connection at a time: let the old one leave its closing period)
		time.Sleep(3 * time.Second)
		earlyMu.Lock()
		earlyGot = nil
		earlyMu.Unlock()
		d2 := dial(1, true, horizon)
		hsCheckOutcome(w, sc, nodes, d2, 1, true, hsTimeout, report, res)
		res.Logf("resumed dial: conn=%v sconn=%v cerr=%v", d2.conn != nil, d2.sconn != nil, d2.cerr)
		if os.Getenv("VERIF_DUMP_QLOG") != "" {
			for k := 0; k < 2; k++ {
				for _, e := range nodes.QLog[k].Events {
					if e.AtNS > 3e9 {
						res.Logf("qlog side %d %d %T %+v", k, e.AtNS/1000, e.Ev, e.Ev)
					}
				}
			}
		}
		if d2.sconn != nil {
			res.Logf("   server Used0RTT=%v", d2.sconn.ConnectionState().Used0RTT)
		}
		if d2.conn != nil && d2.sconn != nil && d2.cerr != nil && d2.sconn.ConnectionState().Used0RTT {
			// the handshake completed with 0-RTT accepted, then the exchange died: if the network had long been quiet by then
			// (no fault during the last idle period), early data that never reached the server application was lost by the
			// endpoints, not by the network
			earlyMu.Lock()
			n := 0
			for _, b := range earlyGot {
				if bytes.Equal(b, early) {
					n++
				}
			}
			earlyMu.Unlock()
			idle := time.Duration(max(nzIdle(sc.Cfg.IdleMS[0]), nzIdle(sc.Cfg.IdleMS[1]))) * time.Millisecond
			if n == 0 && w.NowNS()-w.lastFaultNS() > int64(idle-500*time.Millisecond) {
				report("C13", "0-RTT accepted but the early data was not delivered to the server application exactly once", "delivered 0 times; the client gave up with %v, last fault %v before that", d2.cerr, time.Duration(w.NowNS()-w.lastFaultNS()))
			}
		}
		if d2.conn != nil && d2.sconn != nil && d2.cerr == nil {
			cu, su := d2.conn.ConnectionState().Used0RTT, d2.sconn.ConnectionState().Used0RTT
			if cu != su {
				report("C13", "client and server disagree on whether 0-RTT was used", "client %v server %v", cu, su)
			}
			if cu {
				res.Probe("0rtt-accepted")
			} else {
				res.Probe("0rtt-not-used")
			}
			earlyMu.Lock()
			n := 0
			for _, b := range earlyGot {
				if bytes.Equal(b, early) {
					n++
				} else if len(b) > 0 && !bytes.Equal(b, []byte("after-reject")) && !bytes.Equal(b, []byte("ping")) {
					report("C13", "server application read early data that differs from what the client sent", "%d bytes", len(b))
				}
			}
			earlyMu.Unlock()
			if su && n != 1 {
				report("C13", "0-RTT accepted but the early data was not delivered to the server application exactly once", "delivered %d times", n)
			}
			if !su && d2.rejectedSeen && n != 0 {
				report("C13", "0-RTT rejected but the early data reached the server application", "delivered %d times", n)
			}
		}
	case "token":
		if d1.cerr != nil || d1.serr != nil || d1.tap == nil {
			return
		}
		// the token the server issued on the first connection (NEW_TOKEN frame, read off the wire)
		var tok []byte
		for _, p := range d1.tap.Packets {
			for i := range p.Frames {
				if p.Dir == 1 && p.Frames[i].Name == "NEW_TOKEN" {
					tok = p.Frames[i].Token
				}
			}
		}
		if tok == nil {
			res.Probe("no-new-token-issued")
			return
		}
		res.Probe("token-" + sc.Token)
		mut := append([]byte{}, tok...)
		valid := true
		switch sc.Token {
		case "truncated":
			mut = mut[:len(mut)/2]
			valid = false
		case "flipped":
			mut[int(sc.Seed%uint64(len(mut)))] ^= 1 << ((sc.Seed >> 8) % 8)
			valid = false
		case "otherkey":
			// a token minted by a transport with another key: take one from a second server
			valid = false
			for i := range mut {
				mut[i] ^= byte(KMix(sc.Seed, uint64(i)))
			}
		}
		time.Sleep(3 * time.Second) // see above: one connection at a time on a socket with zero-length connection IDs
		if sc.AgeS > 0 {
			time.Sleep(time.Duration(sc.AgeS) * time.Second)
			if sc.AgeS > 86400 {
				valid = false // default MaxTokenAge of the server transport: 24 h
			}
		}
		ctr := nodes.CTr
		if sc.Token == "rebound" {
			valid = false
			addr := &net.UDPAddr{IP: net.IPv4(10, 0, 0, 99).To4(), Port: 4000}
			if !sc.Cfg.V6 && sc.Seed%4 == 1 {
				// an IPv6 host whose address begins with the four bytes of the IPv4 address the token was issued to
				// (the token binds the whole address, not a prefix of its encoding)
				ip := make(net.IP, 16)
				copy(ip, wClientAddr.IP.To4())
				ip[15] = 7
				addr = &net.UDPAddr{IP: ip, Port: wClientAddr.Port}
			}
			if sc.Cfg.V6 {
				// another host of the client's /64 (a token binds the address, not the prefix)
				addr = &net.UDPAddr{IP: net.ParseIP("2001:db8:1:2:dead:beef:0:b"), Port: 4000}
				if sc.Seed%3 == 0 {
					addr = &net.UDPAddr{IP: net.ParseIP("2001:db8:9:9::a"), Port: 4000}
				}
			}
			pc := simnet.NewBlockingSimConn(addr, w)
			ctr = &quic.Transport{Conn: pc, ConnectionIDLength: sc.Cfg.ClientCIDLen}
			extraTr, extraPC = append(extraTr, ctr), append(extraPC, pc)
			if nodes.UTr != nil {
				nodes.UTr = &quic.UTransport{Transport: ctr, QUICSpec: nodes.Spec}
			} else {
				nodes.CTr = ctr
			}
		}
		if sc.Token == "expired" && sc.AgeS <= 86400 {
			time.Sleep(25 * time.Hour)
			valid = false
		}
		ampMu.Lock()
		tokenValid, presented = valid, mut
		ampMu.Unlock()
		nodes.CQ.TokenStore = &hsFixedTokenStore{tok: mut}
		if nodes.Spec != nil && nodes.Spec.InitialPacketSpec.TokenStore == nil && nodes.Spec.InitialPacketSpec.ClientTokenLength == 0 {
			// spec-driven clients take the token store from the Config unless the spec overrides it
		}
		d2 := dial(1, false, horizon)
		hsCheckOutcome(w, sc, nodes, d2, 1, false, hsTimeout, report, res)
		// did the client actually present the token?
		presented := false
		if d2.tap != nil {
			for _, p := range d2.tap.Packets {
				if p.Dir == 0 && p.Type == TapInitial && bytes.Equal(p.Token, mut) {
					presented = true
				}
			}
		}
		if !presented {
			res.Probe("token-not-presented")
			return
		}
		anyTrue := false
		for _, v := range d2.verified {
			anyTrue = anyTrue || v
		}
		if anyTrue && !valid && !sc.Cfg.Retry {
			report("C14", "server treated an invalid token as proof of address: "+sc.Token, "AddrVerified=true for a %s token (age %ds)", sc.Token, sc.AgeS)
		}
		// (the server judges the token of the datagram it creates the connection from: if a copy of a token-carrying Initial
		// was damaged on the way, that may have been a damaged token)
		damagedInitial := false
		if d2.tap != nil {
			for _, p := range d2.tap.Packets {
				if p.Dir == 0 && p.Type == TapInitial && len(p.Token) > 0 && w.Log[0][p.Ord].Damaged && len(w.Log[0][p.Ord].Delivered) > 0 {
					damagedInitial = true
				}
			}
		}
		if !anyTrue && valid && sc.Token == "valid" && sc.AgeS == 0 && len(d2.verified) > 0 && !damagedInitial {
			report("C14", "server did not accept a fresh valid token from the same address", "AddrVerified=false in all %d connection attempts", len(d2.verified))
		}
	}
}

type hsFixedTokenStore struct {
	mu  sync.Mutex
	tok []byte
}

func (s *hsFixedTokenStore) Put(string, *quic.ClientToken) {}
func (s *hsFixedTokenStore) Pop(string) *quic.ClientToken {
	s.mu.Lock()
	defer s.mu.Unlock()
	if s.tok == nil {
		return nil
	}
	t := s.tok
	s.tok = nil
	return quic.NewClientToken(t)
}

func (w *World) clientAddrOf(rec *DgramRec) string { return rec.Client }

func (w *World) lastClientAddrFor(rec *DgramRec) string { return w.clientAddrOf(rec) }

// hsCheckOutcome: C13 convergence, bounded Dial/Accept, authenticated connection IDs.
func hsCheckOutcome(w *World, sc *HsScenario, n *Nodes, d *hsDialResult, idx int, early bool, hsTimeout func(int) time.Duration, report func(prop, sig, f string, a ...any), res *KResult) {
	// Dial never hangs beyond the handshake time-outs: (1 + one version negotiation) x handshake timeout
	bound := hsTimeout(0)
	if sc.VN {
		bound *= 2
	}
	if !early && d.dialReturned > bound+50*time.Millisecond {
		report("C13", "Dial returned later than the handshake timeout allows", "after %v, bound %v", d.dialReturned, bound)
	}
	injected := len(sc.Inject) > 0
	if d.cerr != nil || d.serr != nil || d.conn == nil || d.sconn == nil {
		if d.conn != nil && d.cerr == nil && d.sconn == nil {
			// the client believes it is connected, the server application never got the connection
			report("C13", "Dial succeeded but the server never completed the handshake", "server: %v", d.serr)
		}
		if sc.Mode == "inject" {
			// an attacker who races the first genuine packets may legitimately kill the handshake; later injections may not
			if hsInjectionsWereLate(w, sc, d) {
				report("C13", "a forged packet delivered after genuine packets had been processed changed the outcome of the handshake", "client: %v server: %v", d.cerr, d.serr)
			} else {
				res.Probe("early-injection-killed-handshake")
			}
			return
		}
		var vnErr *quic.VersionNegotiationError
		if errors.As(d.cerr, &vnErr) {
			for _, rec := range w.Log[1] {
				for _, p := range rec.Pkts {
					if p.Type == TapVN && rec.Damaged {
						// Version Negotiation packets are not authenticated: a corrupted one may legitimately end the attempt
						res.Probe("corrupted-vn-ended-the-dial")
						return
					}
				}
			}
		}
		cerr := d.cerr
		if cerr != nil && d.conn == nil && errors.Is(cerr, context.DeadlineExceeded) {
			cerr = nil
		}
		if sc.CancelAtVNUS > 0 && errors.Is(cerr, context.Canceled) {
			res.Probe("cancelled-dial-returned")
			cerr = nil // the application's own doing; what matters is that Dial returned (and that nothing is left behind)
		}
		var ie *quic.IdleTimeoutError
		if errors.As(cerr, &ie) && d.sconn == nil && d.conn != nil {
			// The server never completed the handshake and gave up in silence (a handshake idle timeout sends nothing), the
			// client then starves. When client Handshake packets were lost, that is the network's doing: the client's
			// retransmissions back off exponentially and may come later than the server is willing to wait.
			lost := false
			for _, rec := range w.Log[0] {
				if rec.SentNS >= w.NowNS()-int64(time.Hour) && (len(rec.Delivered) == 0 || rec.Damaged) && wHasType(rec, TapHandshake) {
					lost = true
				}
			}
			if lost {
				res.Probe("server-handshake-starved-by-lost-client-handshake-packets")
				cerr = nil
			}
		}
		if cerr != nil || d.serr != nil {
			serr := d.serr
			if errors.Is(serr, context.Canceled) || errors.Is(serr, context.DeadlineExceeded) {
				serr = nil
			}
			pre := res.Violation
			judgeFailure(w, &sc.Cfg, &sc.Net, len(sc.Faults), res, cerr, serr, true, 45*time.Second)
			if res.Violation != pre && !wOraclesEnabled("C13")["C13"] && !wOraclesEnabled("C13")["all"] {
				res.Note("C13: " + res.Violation)
				res.Violation, res.Detail = "", ""
			}
		}
		res.Probe("handshake-failed")
		return
	}
	res.Probe("handshake-ok")
	_ = injected
	cs, ss := d.conn.ConnectionState(), d.sconn.ConnectionState()
	if cs.Version != ss.Version {
		report("C13", "client and server disagree on the QUIC version", "client %v server %v", cs.Version, ss.Version)
	}
	if sc.VN {
		res.Probe("version-negotiation")
		if cs.Version != quic.Version1 {
			report("C13", "version negotiation did not end on the only mutually supported version", "got %v", cs.Version)
		}
	}
	if cs.TLS.NegotiatedProtocol != ss.TLS.NegotiatedProtocol || cs.TLS.NegotiatedProtocol != wALPN {
		report("C13", "client and server disagree on the application protocol", "client %q server %q", cs.TLS.NegotiatedProtocol, ss.TLS.NegotiatedProtocol)
	}
	// authenticated connection IDs (RFC 9000 7.3), read off the wire
	c := d.tap
	if c == nil || c.CH == nil || c.SrvTP == nil {
		return
	}
	var firstDCID, clientSCID, serverSCID []byte
	for _, p := range c.Packets {
		if p.Dir == 0 && p.Type == TapInitial && firstDCID == nil {
			firstDCID, clientSCID = p.DCID, p.SCID
		}
		if p.Dir == 1 && (p.Type == TapInitial || p.Type == TapHandshake) && serverSCID == nil {
			serverSCID = p.SCID
		}
	}
	if tp, ok := tapTP(c.SrvTP, 0x00); !ok || !bytes.Equal(tp.Val, c.ODCID) {
		report("C13", "server's original_destination_connection_id differs from the client's first destination connection ID", "tp %x first dcid %x", tp.Val, c.ODCID)
	}
	if tp, ok := tapTP(c.SrvTP, 0x0f); !ok || !bytes.Equal(tp.Val, serverSCID) {
		report("C13", "server's initial_source_connection_id differs from the source connection ID it uses", "tp %x scid %x", tp.Val, serverSCID)
	}
	if tp, ok := tapTP(c.CH.TPs, 0x0f); !ok || !bytes.Equal(tp.Val, clientSCID) {
		report("C13", "client's initial_source_connection_id differs from the source connection ID it uses", "tp %x scid %x", tp.Val, clientSCID)
	}
	tp, has := tapTP(c.SrvTP, 0x10)
	// (a Retry on the wire is not yet a Retry the client acted on: it may have been lost, or have answered a damaged copy of
	// an Initial whose intact copy the server accepted)
	acted := c.Retried && !bytes.Equal(c.InitDCID, c.ODCID)
	if len(c.shadows) > 0 {
		// The server ran more than one connection for this dial (e.g. one created from an intact Initial with a valid
		// NEW_TOKEN token, another from the Initial that answered the Retry a damaged copy had drawn): the transport
		// parameters the observer decoded belong to one of them, the client may have finished with the other
		res.Probe("several-server-connections-for-one-dial")
		return
	}
	switch {
	case acted && (!has || !bytes.Equal(tp.Val, c.RetrySCID)):
		report("C14", "retry_source_connection_id does not carry back the connection ID of the Retry the client acted on", "tp %x retry scid %x", tp.Val, c.RetrySCID)
	case !acted && has:
		report("C13", "retry_source_connection_id present although no Retry took place", "tp %x", tp.Val)
	}
	if c.Retried {
		res.Probe("retry")
	}
	_ = firstDCID
}

// hsInjectionsWereLate: none of the injected datagrams was of a kind (and arrived at a time) at which QUIC allows an
// on-path attacker to end the handshake. What is legitimate: a Version Negotiation packet before the client has
// processed any packet of the server; forged Initial packets (CONNECTION_CLOSE, an ACK for an unsent number) while the
// victim still holds Initial keys - they are public - i.e. until the client has sent, or the server has been delivered,
// a Handshake packet. A Retry with an invalid integrity tag, replayed datagrams and garbage never are.
func hsInjectionsWereLate(w *World, sc *HsScenario, d *hsDialResult) bool {
	for _, in := range sc.Inject {
		at := in.AtMS * 1e6
		switch in.Kind {
		case "vn-other", "vn-same":
			acked := false
			// a genuine Version Negotiation packet the client has been delivered is a packet it has processed: any later
			// Version Negotiation packet must be discarded (RFC 9000, section 6.2)
			for _, rec := range w.Log[1] {
				// (a Version Negotiation packet the server sent in answer to a damaged Initial echoes damaged connection IDs:
				// the client drops it, it does not count)
				var cInit *TapPacket
				for _, c0 := range w.Log[0] {
					if len(c0.Pkts) > 0 && c0.Pkts[0].Type == TapInitial {
						cInit = c0.Pkts[0]
						break
					}
				}
				if len(rec.Pkts) == 1 && rec.Pkts[0].Type == TapVN && !rec.Damaged && len(rec.Delivered) > 0 && rec.Delivered[0] < at &&
					cInit != nil && bytes.Equal(rec.Pkts[0].DCID, cInit.SCID) && bytes.Equal(rec.Pkts[0].SCID, cInit.DCID) &&
					!hsVNLists(w.rawDatagram(1, rec.Ord), cInit.Version) {
					// (and one that lists the version the client is using is discarded as well, RFC 9000 6.2: the server only
					// sent it because the version field of the Initial was damaged on the way)
					acked = true
					res0 := w.Res
					res0.Probe("forged-vn-after-genuine-vn")
				}
			}
			for _, rec := range w.Log[0] {
				if rec.SentNS >= at {
					break
				}
				for _, p := range rec.Pkts {
					for i := range p.Frames {
						if p.Frames[i].Name == "ACK" {
							acked = true
						}
					}
				}
			}
			if !acked {
				return false
			}
		case "initial-close", "initial-ack-garbage":
			dropped := false
			for _, rec := range w.Log[0] { // client Handshake packets
				for i, p := range rec.Pkts {
					if p.Type != TapHandshake {
						continue
					}
					if in.To == 1 && rec.SentNS < at { // victim = client: it has sent a Handshake packet
						dropped = true
					}
					if in.To == 0 && len(rec.Delivered) > 0 && rec.Delivered[0] < at-int64(time.Millisecond) && rec.PktState[i] == 0 { // victim = server
						dropped = true
					}
				}
			}
			if !dropped {
				return false
			}
		}
	}
	return true
}

// hsVNLists: does the Version Negotiation packet list version v? (nil / unparsable: treated as listing it, i.e. not processed)
func hsVNLists(d []byte, v uint32) bool {
	if len(d) < 7 {
		return true
	}
	q := 5
	q += 1 + int(d[q])
	if q >= len(d) {
		return true
	}
	q += 1 + int(d[q])
	for ; q+4 <= len(d); q += 4 {
		if binary.BigEndian.Uint32(d[q:]) == v {
			return true
		}
	}
	return false
}

func hsInject(w *World, sc *HsScenario, in WInject, res *KResult) {
	// the attacker sees everything on the wire
	var c *TapConn
	for _, x := range w.Tap.Conns {
		if !x.Shadow {
			c = x
		}
	}
	if c == nil {
		return
	}
	var cScid, sScid []byte
	for _, p := range c.Packets {
		if p.Dir == 0 && cScid == nil && p.Type == TapInitial {
			cScid = p.SCID
		}
		if p.Dir == 1 && sScid == nil && (p.Type == TapInitial || p.Type == TapHandshake) {
			sScid = p.SCID
		}
	}
	r := NewKRng(KMix(sc.Seed, 0x1213, uint64(in.AtMS), uint64(in.A)))
	var pkt []byte
	long := func(typ byte, ver uint32, dcid, scid []byte) []byte {
		b := []byte{typ}
		b = binary.BigEndian.AppendUint32(b, ver)
		b = append(b, byte(len(dcid)))
		b = append(b, dcid...)
		b = append(b, byte(len(scid)))
		return append(b, scid...)
	}
	switch in.Kind {
	case "vn-other", "vn-same":
		// to the client: DCID = client's SCID, SCID = client's DCID
		pkt = long(0x80|byte(r.N(64)), 0, cScid, c.ODCID)
		pkt = binary.BigEndian.AppendUint32(pkt, 0x1a2a3a4a)
		if in.Kind == "vn-same" {
			pkt = binary.BigEndian.AppendUint32(pkt, c.Version)
		} else {
			pkt = binary.BigEndian.AppendUint32(pkt, 0xff00001d)
		}
		in.To = 1
	case "retry-badtag", "retry-garbage":
		typ := byte(0xf0)
		pkt = long(typ, c.Version, cScid, r.Bytes(8))
		pkt = append(pkt, r.Bytes(20+r.N(40))...) // token
		pkt = append(pkt, r.Bytes(16)...)         // integrity tag (random: invalid)
		if in.Kind == "retry-garbage" {
			pkt = pkt[:len(pkt)-r.N(10)]
		}
		in.To = 1
	case "initial-close":
		// CONNECTION_CLOSE in an Initial packet sealed with the publicly derivable Initial keys
		payload := []byte{0x1c, 0x0a, 0x00, 0x00}
		if in.To == 1 {
			pkt = hsSealInitial(c.Version, c.InitDCID, cScid, sScid, false, uint32(1000+in.A%1000), payload)
		} else {
			pkt = hsSealInitial(c.Version, c.InitDCID, c.InitDCID, cScid, true, uint32(1000+in.A%1000), payload)
		}
		for len(pkt) < 1200 && in.To == 0 {
			pkt = append(pkt, 0)
		}
	case "initial-ack-garbage":
		payload := append([]byte{0x02}, hsVarint(uint64(in.A%5000))...)
		payload = append(payload, 0, 0, 0)
		if in.To == 1 {
			pkt = hsSealInitial(c.Version, c.InitDCID, cScid, sScid, false, uint32(2000+in.A%1000), payload)
		} else {
			pkt = hsSealInitial(c.Version, c.InitDCID, c.InitDCID, cScid, true, uint32(2000+in.A%1000), payload)
			for len(pkt) < 1200 {
				pkt = append(pkt, 0)
			}
		}
	case "replay-c2s", "replay-s2c":
		dir := 0
		if in.Kind == "replay-s2c" {
			dir = 1
		}
		if n := len(w.raw[dir]); n > 0 {
			pkt = w.raw[dir][int(in.A)%n]
			in.To = 1 - dir
			if in.B%2 == 1 {
				in.To = dir // reflected to its sender
			}
		}
	case "garbage-long":
		pkt = long(0xc0|byte(r.N(16)), c.Version, r.Bytes(8), r.Bytes(r.N(9)))
		pkt = append(pkt, r.Bytes(30+r.N(1200))...)
	case "garbage-short":
		pkt = append([]byte{0x40 | byte(r.N(64))}, r.Bytes(20+r.N(200))...)
	case "handshake-garbage":
		pkt = long(0xe0|byte(r.N(16)), c.Version, cScid, sScid)
		pkt = append(pkt, 0x40, 0x40)
		pkt = append(pkt, r.Bytes(64)...)
		in.To = 1
	}
	if pkt == nil {
		return
	}
	res.Probe("inject-" + in.Kind)
	w.InjectTo(in.To, pkt)
}

var _ = fmt.Sprintf
