//go:build sim_limits || simall

package verifsim

// W:limits - property C12 (a spec-driven client enforces exactly the limits it
// advertises). A spec-driven client (every built-in fingerprint, plus specs whose
// transport-parameter list is generated) with arbitrary user Config values dials the
// in-tree server. A server-side "pusher" reads the client's transport parameters off
// the wire and drives one advertised limit to its boundary:
//
//	stream-uni / stream-bidi / stream-bidi-rev  fast sender, stalled reader, one stream
//	conn                                        the same across several streams (connection window)
//	streams-uni / streams-bidi                  opens streams until the advertised count is used up
//	cids                                        the in-tree server issues connection IDs by itself
//	dgram                                       DATAGRAM frames up to the advertised frame size
//	idle                                        silence just below the advertised idle timeout, then one byte
//
// The single-stream pushers also have a "slow reader" variant (Reader == "slow"): the client application reads
// everything and the server sends more than one window, so the client has to grant further credit; a transfer that
// comes to a halt for good is reported with a signature of its own.
//
// Oracle (per the property): while the wiretap confirms that the server stayed within
// what the client put on the wire, the client's Context() cause is never a locally
// generated transport error nor an idle timeout earlier than advertised; on a fault-free
// network the pusher really reaches the boundary; the client's own record of its
// parameters (qlog parameters_set, ConnectionState) equals the bytes it sent.

import (
	"context"
	"errors"
	"fmt"
	"io"
	"strings"
	"sync"
	"sync/atomic"
	"testing"
	"time"

	quic "github.com/refraction-networking/uquic"
	"github.com/refraction-networking/uquic/internal/protocol"
	"github.com/refraction-networking/uquic/qlog"
	tls "github.com/refraction-networking/utls"
)

// ---------------------------------------------------------------- scenario

// LimTP is one generated transport parameter: V < 0 leaves the parameter out of the list.
type LimTP struct {
	ID uint64 `json:"id"`
	V  int64  `json:"v"`
}

type LimScenario struct {
	Seed        uint64   `json:"seed"`
	Cfg         WConfig  `json:"cfg"` // Cfg.Client = built-in fingerprint the spec is taken / derived from; side 0 values = user Config of the client
	Net         WNet     `json:"net"`
	Faults      []WFault `json:"faults"`
	TPs         []LimTP  `json:"tps,omitempty"` // generated limit parameters replacing those of the built-in list (nil = built-in list)
	TPRot       int      `json:"tp_rot,omitempty"`
	Push        string   `json:"push"`
	Accept      string   `json:"accept"`           // client application: none | all (accepts streams, never reads)
	Reader      string   `json:"reader,omitempty"` // "" = stalled reader; "slow" = the client reads everything and the server sends more than one window (single-stream pushers)
	Faulty      bool     `json:"faulty,omitempty"`
	ViaSuppress bool     `json:"via_suppress,omitempty"` // absent parameters stay in the spec's list and are named in SuppressTransportParameters
}

func (s *LimScenario) KSeed() uint64 { return s.Seed }

func init() {
	KRegister(&KSim{Name: "limits", New: func() KScenario { return &LimScenario{} }, Gen: genLimits, Run: runLimits, Sweep: sweepLimits})
}

var limPushKinds = []string{"stream-uni", "stream-bidi", "stream-bidi-rev", "conn", "streams-uni", "streams-bidi", "cids", "dgram", "idle"}

// the limit parameters (RFC 9000 18.2, RFC 9221)
const (
	limIDIdle       = 0x01
	limIDMaxData    = 0x04
	limIDBidiLocal  = 0x05
	limIDBidiRemote = 0x06
	limIDUni        = 0x07
	limIDStreamsBi  = 0x08
	limIDStreamsUni = 0x09
	limIDCIDLimit   = 0x0e
	limIDDgram      = 0x20
)

var limIDs = []uint64{limIDIdle, limIDMaxData, limIDBidiLocal, limIDBidiRemote, limIDUni, limIDStreamsBi, limIDStreamsUni, limIDCIDLimit, limIDDgram}

var limTPName = map[uint64]string{limIDIdle: "max_idle_timeout", limIDMaxData: "initial_max_data", limIDBidiLocal: "initial_max_stream_data_bidi_local",
	limIDBidiRemote: "initial_max_stream_data_bidi_remote", limIDUni: "initial_max_stream_data_uni", limIDStreamsBi: "initial_max_streams_bidi",
	limIDStreamsUni: "initial_max_streams_uni", limIDCIDLimit: "active_connection_id_limit", limIDDgram: "max_datagram_frame_size",
	0x03: "max_udp_payload_size", 0x0a: "ack_delay_exponent", 0x0b: "max_ack_delay", 0x0c: "disable_active_migration"}

// signatures. The "(… comes from Config …)" ones are the analysed findings of the unchanged tree: the enforced value is
// demonstrably the one the client's Config yields and that value is below the advertised one. Everything else keeps the
// plain wording, so a different defect in the same dimension has a different signature.
const (
	limSigFlowStream   = "client raised FLOW_CONTROL_ERROR although the server stayed within the advertised stream window"
	limSigFlowConn     = "client raised FLOW_CONTROL_ERROR although the server stayed within the advertised connection window"
	limSigStreamCount  = "client raised STREAM_LIMIT_ERROR although the server stayed within the advertised stream count"
	limSigCIDLimit     = "client raised CONNECTION_ID_LIMIT_ERROR although the server stayed within the advertised active_connection_id_limit"
	limSigDgramFrame   = "client raised FRAME_ENCODING_ERROR for a DATAGRAM frame although its spec advertises max_datagram_frame_size"
	limSigDgramSize    = "client rejected a DATAGRAM frame within the advertised max_datagram_frame_size"
	limSigIdleEarly    = "client idled out earlier than the max_idle_timeout it advertised"
	limCfgStream       = " (enforced limit comes from Config.InitialStreamReceiveWindow, not from the spec)"
	limCfgConn         = " (enforced limit comes from Config.InitialConnectionReceiveWindow, not from the spec)"
	limCfgCount        = " (enforced limit comes from Config.MaxIncomingStreams / MaxIncomingUniStreams, not from the spec)"
	limCfgDgram        = " (datagram support comes from Config.EnableDatagrams, not from the spec)"
	limCfgIdle         = " (idle timeout comes from Config.MaxIdleTimeout, not from the spec)"
	limSigStall        = "stream stalled for good although the client application keeps reading: the server used the advertised window to the full and no further credit arrived"
	limCfgStall        = " (window updates are computed from Config.InitialStreamReceiveWindow / InitialConnectionReceiveWindow, not from the advertised window)"
	limCfgStallType    = " (every stream gets the receive window of the stream type with the largest advertised window: streams of a type with a smaller advertised window never reach the point where their window update is sent)"
	limSigOther        = "client raised a transport error against a server that stayed within the advertised limits: "
	limSigReach        = "a conformant server could not use an advertised limit to the full on a fault-free network: "
	limSigRecord       = "the client's own record of its transport parameters (qlog parameters_set) differs from the bytes it sent: "
	limSigRecordOther  = "the client's own record of a non-limit transport parameter (qlog parameters_set) differs from the bytes it sent: "
	limSigNoRecord     = "the client recorded no parameters_set event for its own transport parameters"
	limSigStateDgram   = "ConnectionState().SupportsDatagrams.Local contradicts the max_datagram_frame_size the client put on the wire"
	limSigServerBeyond = "the in-tree server went beyond a limit the client advertised: "
)

// ---------------------------------------------------------------- spec construction

// limBaseValues: the limit parameters of a built-in spec (absent = -1), read from the spec object.
func limBaseValues(client string) map[uint64]int64 {
	out := map[uint64]int64{}
	for _, id := range limIDs {
		out[id] = -1
	}
	spec, err := quic.QUICID2Spec(wSpecIDs[client])
	if err != nil {
		return out
	}
	if q := wQTPExt(&spec); q != nil {
		for _, tp := range q.TransportParameters {
			if _, ok := out[tp.ID()]; ok {
				if v, n, err := tapVarint(tp.Value()); err == nil && n == len(tp.Value()) {
					out[tp.ID()] = int64(v)
				}
			}
		}
	}
	return out
}

func limMakeTP(id uint64, v uint64) tls.TransportParameter {
	switch id {
	case limIDIdle:
		return tls.MaxIdleTimeout(v)
	case limIDMaxData:
		return tls.InitialMaxData(v)
	case limIDBidiLocal:
		return tls.InitialMaxStreamDataBidiLocal(v)
	case limIDBidiRemote:
		return tls.InitialMaxStreamDataBidiRemote(v)
	case limIDUni:
		return tls.InitialMaxStreamDataUni(v)
	case limIDStreamsBi:
		return tls.InitialMaxStreamsBidi(v)
	case limIDStreamsUni:
		return tls.InitialMaxStreamsUni(v)
	case limIDCIDLimit:
		return tls.ActiveConnectionIDLimit(v)
	case limIDDgram:
		return tls.MaxDatagramFrameSize(v)
	}
	return nil
}

// limBuildSpec: the built-in spec with the limit parameters of its transport-parameter extension replaced by the
// generated list (every other parameter - version information, GREASE, initial_source_connection_id ... - stays).
func limBuildSpec(sc *LimScenario) (*quic.QUICSpec, error) {
	if sc.Cfg.Client == "plain" {
		return nil, nil
	}
	id, ok := wSpecIDs[sc.Cfg.Client]
	if !ok {
		return nil, fmt.Errorf("unknown client kind %q", sc.Cfg.Client)
	}
	spec, err := quic.QUICID2Spec(id)
	if err != nil {
		return nil, err
	}
	if sc.TPs == nil {
		return &spec, nil
	}
	q := wQTPExt(&spec)
	if q == nil {
		return nil, errors.New("spec without transport parameters extension")
	}
	gen := map[uint64]bool{}
	for _, t := range sc.TPs {
		gen[t.ID] = true
	}
	// a parameter that is to be absent from the wire is either taken out of the spec's list, or (ViaSuppress) left in
	// the list and named in SuppressTransportParameters: then the spec machinery removes it at dial time
	suppress := map[uint64]bool{}
	if sc.ViaSuppress {
		for _, t := range sc.TPs {
			if t.V < 0 {
				suppress[t.ID] = true
			}
		}
	}
	var keep, add tls.TransportParameters
	for _, tp := range q.TransportParameters {
		if !gen[tp.ID()] {
			keep = append(keep, tp)
		} else if suppress[tp.ID()] {
			keep = append(keep, tp)
			spec.SuppressTransportParameters = append(spec.SuppressTransportParameters, tp.ID())
			delete(suppress, tp.ID())
		}
	}
	for _, t := range sc.TPs {
		if t.V >= 0 {
			if tp := limMakeTP(t.ID, uint64(t.V)); tp != nil {
				add = append(add, tp)
			}
		}
	}
	// interleave: the generated parameters go in after position rot of the kept ones
	rot := 0
	if len(keep) > 0 {
		rot = ((sc.TPRot % (len(keep) + 1)) + len(keep) + 1) % (len(keep) + 1)
	}
	var list tls.TransportParameters
	list = append(list, keep[:rot]...)
	list = append(list, add...)
	list = append(list, keep[rot:]...)
	q.TransportParameters = list
	return &spec, nil
}

// ---------------------------------------------------------------- generator

func genLimits(seed uint64, tier string) KScenario {
	r := NewKRng(seed)
	sc := &LimScenario{Seed: seed}
	sc.Cfg.Client = wSpecNames[r.N(len(wSpecNames))]
	sc.Cfg.Version = 1
	sc.Cfg.ServerCIDLen = r.Pick(4, 8, 8, 12, 20)
	sc.Cfg.ClientCIDLen = 4
	sc.Cfg.Retry = r.P(0.1)
	sc.Cfg.ChainLen = r.Pick(0, 0, 0, 1)
	sc.Push = limPushKinds[r.N(len(limPushKinds))]
	sc.Accept = []string{"none", "all"}[r.N(2)]
	sc.Faulty = r.P(0.3)
	if strings.HasPrefix(sc.Push, "stream-") && r.P(0.3) {
		sc.Reader, sc.Accept = "slow", "all"
	}
	adv := limBaseValues(sc.Cfg.Client)
	if r.P(0.65) {
		// generated parameter list
		win := func() int64 {
			return int64(r.Pick(-1, 0, 1, 1000, 1200, 4096, 16384, 65536, 65537, 200000, 524287, 524288, 524289, 1<<20))
		}
		vals := map[uint64]int64{
			limIDUni: win(), limIDBidiLocal: win(), limIDBidiRemote: win(),
			limIDMaxData:    int64(r.Pick(-1, 0, 1, 2000, 16384, 65536, 300000, 786431, 786432, 786433, 2<<20)),
			limIDStreamsBi:  int64(r.Pick(-1, 0, 1, 3, 10, 99, 100, 101, 150, 250)),
			limIDStreamsUni: int64(r.Pick(-1, 0, 1, 3, 10, 99, 100, 101, 150, 250)),
			limIDIdle:       int64(r.Pick(-1, 0, 3000, 6000, 10000, 20000, 30000, 45000)),
			limIDCIDLimit:   int64(r.Pick(-1, 2, 3, 4, 5, 6, 7, 8, 16)),
			limIDDgram:      int64(r.Pick(-1, 0, 20, 60, 500, 1200, 1350, 16383, 65535, 65536)),
		}
		// the pushed dimension gets a useful value more often than not
		if r.P(0.8) {
			nz := func(id uint64, v int64) {
				if vals[id] <= 0 {
					vals[id] = v
				}
			}
			switch sc.Push {
			case "stream-uni":
				nz(limIDUni, 30000)
				nz(limIDStreamsUni, 3)
				nz(limIDMaxData, 1<<20)
			case "stream-bidi":
				nz(limIDBidiRemote, 30000)
				nz(limIDStreamsBi, 3)
				nz(limIDMaxData, 1<<20)
			case "stream-bidi-rev":
				nz(limIDBidiLocal, 30000)
				nz(limIDMaxData, 1<<20)
			case "conn":
				nz(limIDMaxData, 100000)
				nz(limIDUni, 65536)
				nz(limIDBidiRemote, 65536)
				nz(limIDStreamsUni, 10)
				nz(limIDStreamsBi, 10)
			case "streams-uni":
				nz(limIDStreamsUni, 40)
			case "streams-bidi":
				nz(limIDStreamsBi, 40)
			case "dgram":
				nz(limIDDgram, 1200)
			case "idle":
				nz(limIDStreamsUni, 3)
				nz(limIDUni, 1000)
				nz(limIDMaxData, 1000)
			}
		}
		if sc.Reader == "slow" {
			// windows of a few bytes mean one round trip per byte: nothing to learn, a lot to simulate
			for _, id := range []uint64{limIDMaxData, limIDUni, limIDBidiLocal, limIDBidiRemote} {
				if vals[id] >= 0 && vals[id] < 1000 {
					vals[id] = 1200
				}
			}
		}
		for _, id := range limIDs {
			// a dimension may also keep the value of the built-in list
			if r.P(0.15) {
				continue
			}
			sc.TPs = append(sc.TPs, LimTP{ID: id, V: vals[id]})
			adv[id] = vals[id]
		}
		if sc.TPs == nil {
			sc.TPs = []LimTP{}
		}
		sc.TPRot = r.N(16)
		sc.ViaSuppress = r.P(0.5)
	}
	a := func(id uint64) int64 { return max(adv[id], 0) }
	// user Config of the client: default / smaller / equal / larger than advertised, per dimension
	rel := func(v int64, lo int64) int64 {
		switch r.N(5) {
		case 0:
			return 0 // library default
		case 1:
			return max(lo, v/2)
		case 2:
			return max(lo, v-1)
		case 3:
			return max(lo, v)
		default:
			return max(lo, v*2+1)
		}
	}
	if r.P(0.75) {
		sw := max(a(limIDUni), a(limIDBidiLocal), a(limIDBidiRemote))
		if r.P(0.3) {
			sw = []int64{a(limIDUni), a(limIDBidiLocal), a(limIDBidiRemote)}[r.N(3)]
		}
		sc.Cfg.Win[0] = uint64(rel(sw, 1))
		sc.Cfg.Win[1] = uint64(rel(a(limIDMaxData), 1))
		if r.P(0.5) {
			sc.Cfg.MaxWin[0], sc.Cfg.MaxWin[1] = sc.Cfg.Win[0], sc.Cfg.Win[1]
		}
		sc.Cfg.MaxStreams[0] = rel(a(limIDStreamsBi), 1)
		sc.Cfg.MaxUniStreams[0] = rel(a(limIDStreamsUni), 1)
		if r.P(0.1) {
			sc.Cfg.MaxStreams[0] = -1
		}
		if r.P(0.1) {
			sc.Cfg.MaxUniStreams[0] = -1
		}
		sc.Cfg.IdleMS[0] = rel(a(limIDIdle), 1500)
	}
	if sc.Reader == "slow" {
		for i := 0; i < 2; i++ {
			if sc.Cfg.Win[i] > 0 && sc.Cfg.Win[i] < 1000 {
				sc.Cfg.Win[i] = 1000
				sc.Cfg.MaxWin[i] = max(sc.Cfg.MaxWin[i], sc.Cfg.Win[i]) * uint64(min(1, sc.Cfg.MaxWin[i]))
			}
		}
	}
	sc.Cfg.Datagrams[0] = r.P(0.5)
	sc.Cfg.Datagrams[1] = true
	sc.Cfg.NoPMTUD = [2]bool{r.P(0.5), r.P(0.5)}
	if r.P(0.15) {
		sc.Cfg.SchedNum = uint32(r.Pick(16, 64, 128))
	}
	// bound the cost: pushes of several megabytes only now and then
	expect := int64(0)
	switch sc.Push {
	case "stream-uni":
		expect = min(a(limIDUni), a(limIDMaxData))
	case "stream-bidi":
		expect = min(a(limIDBidiRemote), a(limIDMaxData))
	case "stream-bidi-rev":
		expect = min(a(limIDBidiLocal), a(limIDMaxData))
	case "conn":
		expect = a(limIDMaxData)
	}
	if expect > 3<<20 && !(tier == "thorough" && r.P(0.5)) && !r.P(0.06) {
		// most of the time a derived list with windows that cost less to fill (the full windows of the built-in lists
		// are reached by the remaining share, by the boost below and by the sweep)
		set := func(id uint64, v int64) {
			for i := range sc.TPs {
				if sc.TPs[i].ID == id {
					sc.TPs[i].V = v
					adv[id] = v
					return
				}
			}
			sc.TPs = append(sc.TPs, LimTP{ID: id, V: v})
			adv[id] = v
		}
		for _, id := range []uint64{limIDUni, limIDBidiLocal, limIDBidiRemote} {
			if adv[id] > 1<<20 {
				set(id, int64(r.Pick(65536, 200000, 524288, 1<<20)))
			}
		}
		if adv[limIDMaxData] > 2<<20 {
			set(limIDMaxData, int64(r.Pick(300000, 786432, 2<<20)))
		}
		// the user Config follows the new values
		if sc.Cfg.Win[0] > 4<<20 {
			sc.Cfg.Win[0] = uint64(adv[limIDUni]) * uint64(r.Pick(1, 2, 8))
			sc.Cfg.MaxWin[0] = 0
		}
		if sc.Cfg.Win[1] > 8<<20 {
			sc.Cfg.Win[1] = uint64(adv[limIDMaxData]) * uint64(r.Pick(1, 2, 8))
			sc.Cfg.MaxWin[1] = 0
		}
	}
	if r.P(0.006) {
		// now and then the full boundary of a built-in list: Config not the binding side, no faults
		sc.TPs, sc.TPRot, sc.Faulty, sc.Reader = nil, 0, false, ""
		sc.Push = []string{"stream-uni", "stream-bidi", "stream-bidi-rev", "conn"}[r.N(4)]
		limSetConfig(sc, []string{"equal", "larger"}[r.N(2)], limBaseValues(sc.Cfg.Client))
	}
	sc.Net.LatencyUS = int64(r.Pick(200, 2000, 5000, 20000, 40000))
	sc.Net.JitterUS = int64(r.Pick(0, 0, 100, 1000, 5000))
	if sc.Faulty {
		sc.Net.Drop = r.F() * 0.05
		sc.Net.Delay = r.F() * 0.05
		if r.P(0.4) {
			sc.Net.Dup = r.F() * 0.03
		}
		sc.Net.FaultUntilMS = int64(r.Pick(300, 1500, 5000, 0))
	}
	if r.P(0.2) {
		sc.Net.Burst = r.Pick(2, 4, 16)
	}
	if r.P(0.08) {
		// a plain (spec-less) client for the stream-count dimension: what it advertises comes from its Config, and the two
		// stream types have limits of their own
		sc.Cfg.Client, sc.TPs, sc.ViaSuppress, sc.Reader = "plain", nil, false, ""
		sc.Push = r.Pick2("streams-uni", "streams-bidi")
		sc.Cfg.Win, sc.Cfg.MaxWin = [4]uint64{}, [4]uint64{}
		sc.Cfg.MaxStreams[0] = int64(r.Pick(1, 3, 10, 40, 100, 130))
		sc.Cfg.MaxUniStreams[0] = int64(r.Pick(2, 5, 12, 50, 100, 120))
		sc.Cfg.IdleMS[0] = 0
	}
	return sc
}

// limPushedWindow: the advertised stream window the pusher exercises (and the matching connection window)
func limPushedWindow(push string, adv map[uint64]int64) int64 {
	a := func(id uint64) int64 { return max(adv[id], 0) }
	switch push {
	case "stream-uni":
		return a(limIDUni)
	case "stream-bidi":
		return a(limIDBidiRemote)
	case "stream-bidi-rev":
		return a(limIDBidiLocal)
	}
	return max(a(limIDUni), a(limIDBidiRemote), a(limIDBidiLocal))
}

// limSetConfig sets every user Config value of the client in one relation to the advertised value:
// "default" (zero Config), "smaller", "equal", "larger".
func limSetConfig(sc *LimScenario, mode string, adv map[uint64]int64) {
	a := func(id uint64) int64 { return max(adv[id], 0) }
	f := func(v, lo int64) int64 {
		switch mode {
		case "smaller":
			return max(lo, v/2)
		case "equal":
			return max(lo, v)
		case "larger":
			return max(lo, v*2+1)
		}
		return 0
	}
	sc.Cfg.Win[0] = uint64(f(limPushedWindow(sc.Push, adv), 1000))
	sc.Cfg.Win[1] = uint64(f(a(limIDMaxData), 1000))
	sc.Cfg.MaxWin[0], sc.Cfg.MaxWin[1] = 0, 0
	sc.Cfg.MaxStreams[0] = f(a(limIDStreamsBi), 1)
	sc.Cfg.MaxUniStreams[0] = f(a(limIDStreamsUni), 1)
	sc.Cfg.IdleMS[0] = f(a(limIDIdle), 1500)
	sc.Cfg.Datagrams[0] = mode == "equal" || mode == "larger"
}

// sweepLimits: every built-in fingerprint x every pusher (and reader variant) x the four Config relations on a
// fault-free network: the boundary of every advertised limit of every built-in list is reached in every sweep.
func sweepLimits(idx int, tier string) KScenario {
	type pv struct{ push, reader string }
	var pvs []pv
	for _, p := range limPushKinds {
		pvs = append(pvs, pv{p, ""})
		if strings.HasPrefix(p, "stream-") {
			pvs = append(pvs, pv{p, "slow"})
		}
	}
	modes := []string{"default", "smaller", "equal", "larger"}
	n := len(wSpecNames) * len(pvs) * len(modes)
	if idx >= n {
		return nil
	}
	client := wSpecNames[idx%len(wSpecNames)]
	v := pvs[idx/len(wSpecNames)%len(pvs)]
	mode := modes[idx/len(wSpecNames)/len(pvs)]
	sc := &LimScenario{Seed: KMix(0x11b5, uint64(idx)), Push: v.push, Reader: v.reader, Accept: []string{"none", "all"}[idx%2]}
	if v.reader == "slow" {
		sc.Accept = "all"
	}
	sc.Cfg = WConfig{Client: client, Version: 1, ServerCIDLen: 8, ClientCIDLen: 4}
	sc.Cfg.Datagrams[1] = true
	limSetConfig(sc, mode, limBaseValues(client))
	sc.Net = WNet{LatencyUS: 5000, JitterUS: 0, Explicit: true}
	return sc
}

// ---------------------------------------------------------------- the client's own record (qlog)

// limOwnParameters: the parameters_set events the client connection recorded for its own transport parameters
// (read from the world's in-memory qlog of the client side).
func limOwnParameters(n *Nodes) []qlog.ParametersSet {
	var out []qlog.ParametersSet
	q := n.QLog[0]
	if q == nil {
		return nil
	}
	q.mu.Lock()
	defer q.mu.Unlock()
	for _, e := range q.Events {
		var ps qlog.ParametersSet
		switch ev := e.Ev.(type) {
		case qlog.ParametersSet:
			ps = ev
		case *qlog.ParametersSet:
			ps = *ev
		default:
			continue
		}
		if ps.Initiator == qlog.InitiatorLocal && !ps.Restore {
			out = append(out, ps)
		}
	}
	return out
}

// ---------------------------------------------------------------- advertised values (off the wire) and wire accounting

type limAdv struct {
	tps                                  []TapTP
	maxData, bidiLocal, bidiRemote, uni  uint64
	streamsBidi, streamsUni              uint64
	idleMS, cidLimit, dgram              uint64
	hasIdle, hasCID, hasDgram, hasStream bool
}

func limReadAdv(tps []TapTP) *limAdv {
	a := &limAdv{tps: tps}
	a.maxData = tapTPUint(tps, limIDMaxData, 0)
	a.bidiLocal = tapTPUint(tps, limIDBidiLocal, 0)
	a.bidiRemote = tapTPUint(tps, limIDBidiRemote, 0)
	a.uni = tapTPUint(tps, limIDUni, 0)
	a.streamsBidi = tapTPUint(tps, limIDStreamsBi, 0)
	a.streamsUni = tapTPUint(tps, limIDStreamsUni, 0)
	a.idleMS = tapTPUint(tps, limIDIdle, 0)
	a.cidLimit = tapTPUint(tps, limIDCIDLimit, 2) // RFC 9000 18.2: default 2
	a.dgram = tapTPUint(tps, limIDDgram, 0)
	return a
}

// window the client advertised for data the server sends on stream id
func (a *limAdv) streamWindow(id uint64) uint64 {
	switch {
	case id&2 != 0:
		return a.uni
	case id&1 == 1: // server-initiated bidirectional: remote-initiated from the client's point of view
		return a.bidiRemote
	default:
		return a.bidiLocal
	}
}

type limWire struct {
	mu          sync.Mutex
	adv         *limAdv
	conn        *TapConn
	streamEnd   map[uint64]uint64 // server -> client: highest offset per stream
	total       uint64            // server -> client: sum of the highest offsets
	opened      [2]uint64         // server-initiated streams on the wire: [0] bidi, [1] uni (highest stream number + 1)
	maxStreamTo map[uint64]uint64 // MAX_STREAM_DATA sent by the client
	maxData     uint64            // MAX_DATA sent by the client
	maxStreams  [2]uint64         // MAX_STREAMS sent by the client
	dgramFrames int
	dgramMax    uint64 // largest DATAGRAM frame (encoded size) the server sent
	ncidMaxSeq  int64
	ncidRetire  uint64
	ncidFrames  int
	ncidSeen    map[uint64]bool
	ncidRetired map[uint64]bool // retired by the client (RETIRE_CONNECTION_ID seen on the wire)
	lastSrvSend int64
	lastSrvElic int64
	beyond      string // first excess of the server over an advertised limit
}

func limVarintLen(v uint64) uint64 {
	switch {
	case v < 1<<6:
		return 1
	case v < 1<<14:
		return 2
	case v < 1<<30:
		return 4
	}
	return 8
}

func (lw *limWire) onSend(rec *DgramRec) {
	lw.mu.Lock()
	defer lw.mu.Unlock()
	for _, p := range rec.Pkts {
		if !p.Opened || p.Conn == nil || p.Conn.Shadow {
			continue
		}
		if lw.adv == nil && p.Conn.CH != nil && p.Conn.CH.HasTP {
			lw.adv = limReadAdv(p.Conn.CH.TPs)
			lw.conn = p.Conn
		}
		if lw.conn != nil && p.Conn != lw.conn {
			continue
		}
		if p.Dir == 0 {
			for i := range p.Frames {
				f := &p.Frames[i]
				switch f.Name {
				case "MAX_DATA":
					lw.maxData = max(lw.maxData, f.Max)
				case "MAX_STREAM_DATA":
					lw.maxStreamTo[f.StreamID] = max(lw.maxStreamTo[f.StreamID], f.Max)
				case "MAX_STREAMS":
					k := int(f.Type - 0x12)
					lw.maxStreams[k] = max(lw.maxStreams[k], f.Max)
				case "RETIRE_CONNECTION_ID":
					lw.ncidRetired[f.Seq] = true
				}
			}
			continue
		}
		lw.lastSrvSend = rec.SentNS
		if p.AckEliciting() {
			lw.lastSrvElic = rec.SentNS
		}
		if lw.adv == nil {
			continue
		}
		adv := lw.adv
		touch := func(id uint64) {
			if id&1 == 1 { // server-initiated
				k := int(id>>1) & 1
				lw.opened[k] = max(lw.opened[k], id>>2+1)
				limit := max([2]uint64{adv.streamsBidi, adv.streamsUni}[k], lw.maxStreams[k])
				if lw.opened[k] > limit && lw.beyond == "" {
					lw.beyond = fmt.Sprintf("stream count: stream %d opened, limit %d streams", id, limit)
				}
			}
		}
		for i := range p.Frames {
			f := &p.Frames[i]
			switch f.Name {
			case "STREAM":
				touch(f.StreamID)
				end := f.Offset + f.Length
				if end > lw.streamEnd[f.StreamID] {
					lw.total += end - lw.streamEnd[f.StreamID]
					lw.streamEnd[f.StreamID] = end
					if limit := max(adv.streamWindow(f.StreamID), lw.maxStreamTo[f.StreamID]); end > limit && lw.beyond == "" {
						lw.beyond = fmt.Sprintf("stream window: stream %d offset %d, limit %d", f.StreamID, end, limit)
					}
					if limit := max(adv.maxData, lw.maxData); lw.total > limit && lw.beyond == "" {
						lw.beyond = fmt.Sprintf("connection window: %d bytes, limit %d", lw.total, limit)
					}
				}
			case "RESET_STREAM", "RESET_STREAM_AT", "STREAM_DATA_BLOCKED":
				touch(f.StreamID)
			case "MAX_STREAM_DATA", "STOP_SENDING":
				if f.StreamID&2 == 0 {
					touch(f.StreamID)
				}
			case "DATAGRAM":
				size := 1 + f.Length
				if f.HasLen {
					size += limVarintLen(f.Length)
				}
				lw.dgramFrames++
				lw.dgramMax = max(lw.dgramMax, size)
				if size > adv.dgram && lw.beyond == "" {
					lw.beyond = fmt.Sprintf("datagram frame size: %d bytes, limit %d", size, adv.dgram)
				}
			case "NEW_CONNECTION_ID":
				if !lw.ncidSeen[f.Seq] {
					lw.ncidSeen[f.Seq] = true
					lw.ncidFrames++ // distinct sequence numbers (retransmissions repeat them)
				}
				lw.ncidMaxSeq = max(lw.ncidMaxSeq, int64(f.Seq))
				lw.ncidRetire = max(lw.ncidRetire, f.RetirePT)
				// connection IDs the client has to hold: those issued (sequence number 0 is the handshake one), not below
				// retire_prior_to and not retired by the client itself
				active := uint64(0)
				for seq := lw.ncidRetire; seq <= uint64(lw.ncidMaxSeq); seq++ {
					if (seq == 0 || lw.ncidSeen[seq]) && !lw.ncidRetired[seq] {
						active++
					}
				}
				if active > adv.cidLimit && lw.beyond == "" {
					lw.beyond = fmt.Sprintf("active connection IDs: %d, limit %d", active, adv.cidLimit)
				}
			}
		}
	}
}

type limSnap struct {
	total       uint64
	maxEnd      uint64
	ends        map[uint64]uint64
	opened      [2]uint64
	dgramFrames int
	dgramMax    uint64
	ncid        int
	lastSrvSend int64
	beyond      string
}

func (lw *limWire) snap() limSnap {
	lw.mu.Lock()
	defer lw.mu.Unlock()
	s := limSnap{total: lw.total, opened: lw.opened, dgramFrames: lw.dgramFrames, dgramMax: lw.dgramMax, ncid: lw.ncidFrames, lastSrvSend: lw.lastSrvSend, beyond: lw.beyond,
		ends: make(map[uint64]uint64, len(lw.streamEnd))}
	for id, e := range lw.streamEnd {
		s.ends[id] = e
		s.maxEnd = max(s.maxEnd, e)
	}
	return s
}

// ---------------------------------------------------------------- execution

var limZeros = make([]byte, 32<<10)

func limCfgOr(v uint64, def uint64) uint64 {
	if v == 0 {
		return def
	}
	return v
}

func limCfgStreams(v int64, def uint64) uint64 {
	switch {
	case v == 0:
		return def
	case v < 0:
		return 0
	}
	return uint64(v)
}

func runLimits(t *testing.T, ksc KScenario, res *KResult) {
	sc := ksc.(*LimScenario)
	wBegin(&sc.Cfg)
	defer wEnd()
	on := wOraclesEnabled("C12")
	report := func(prop, sig, f string, a ...any) {
		if on[prop] || on["all"] {
			res.Fail(sig, f, a...)
		} else {
			res.Note(prop + ": " + sig)
		}
	}
	w := NewWorld(t, sc.Seed, &sc.Net, res)
	w.SetFaults(sc.Faults)
	nodes, err := NewNodes(w, &sc.Cfg)
	if err != nil {
		res.Fail("spec could not be built", "%v", err)
		return
	}
	spec, err := limBuildSpec(sc)
	if err != nil {
		res.Fail("spec could not be built", "%v", err)
		return
	}
	if spec != nil {
		nodes.Spec = spec
		nodes.UTr = &quic.UTransport{Transport: nodes.CTr, QUICSpec: spec}
	}
	wo := NewWireOracles(w, nodes, res)
	wo.on = on
	lw := &limWire{streamEnd: map[uint64]uint64{}, maxStreamTo: map[uint64]uint64{}, ncidSeen: map[uint64]bool{}, ncidRetired: map[uint64]bool{}}
	prevSend := w.OnSend
	w.OnSend = func(rec *DgramRec, data []byte) {
		if prevSend != nil {
			prevSend(rec, data)
		}
		lw.onSend(rec)
	}
	// the server: datagrams on; its idle timeout never the binding one (the client's advertised value is)
	specIdle := int64(0)
	specIdlePresent := false
	if q := wQTPExt(spec); q != nil {
		for _, tp := range q.TransportParameters {
			if tp.ID() == limIDIdle {
				if v, _, err := tapVarint(tp.Value()); err == nil {
					specIdle, specIdlePresent = int64(v), true
				}
			}
		}
	}
	srvIdle := time.Duration(max(specIdle, 5000)+10000) * time.Millisecond
	if specIdle == 0 {
		srvIdle = 45 * time.Second // the only advertised value: it is the effective one (RFC 9000 10.1)
	}
	nodes.SQ.MaxIdleTimeout = srvIdle
	// the idle period the in-tree server really uses: min(own, peer's), the peer's value raised to 5 s - also when the peer
	// sent an explicit 0 ("disabled", RFC 9000 18.2), which the in-tree parser turns into 5 s as well
	srvEffIdle := srvIdle
	if specIdlePresent {
		srvEffIdle = min(srvIdle, max(time.Duration(specIdle)*time.Millisecond, 5*time.Second))
	}
	nodes.SQ.EnableDatagrams = true
	w.StartDriver()
	defer func() {
		nodes.Close()
		w.Stop()
		if !sc.Net.Explicit {
			sc.Net.Explicit = true
			sc.Faults = w.Fired
		}
		wo.Finish()
		w.FeedShape()
	}()
	if err := nodes.Listen(); err != nil {
		res.Fail("Listen failed", "%v", err)
		return
	}
	horizon := 400 * time.Second
	ctx, cancel := context.WithTimeout(context.Background(), horizon)
	defer cancel()

	// ---- handshake
	var sconn *quic.Conn
	var serr error
	ready := make(chan struct{})
	go func() {
		defer close(ready)
		sconn, serr = nodes.Accept(ctx)
	}()
	cconn, cerr := nodes.Dial(ctx)
	if cerr != nil {
		cancel()
	} else {
		select {
		case <-ready:
		case <-cconn.Context().Done():
			cerr = context.Cause(cconn.Context())
			cancel()
		}
	}
	<-ready
	lw.mu.Lock()
	adv := lw.adv
	lw.mu.Unlock()
	res.Logf("dial: %v accept: %v at %v; push=%s accept=%s faulty=%v", cerr, serr, time.Duration(w.NowNS()), sc.Push, sc.Accept, sc.Faulty)
	cfgStream := limCfgOr(sc.Cfg.Win[0], protocol.DefaultInitialMaxStreamData)
	cfgConn := limCfgOr(sc.Cfg.Win[1], protocol.DefaultInitialMaxData)
	cfgStreams := [2]uint64{limCfgStreams(sc.Cfg.MaxStreams[0], protocol.DefaultMaxIncomingStreams), limCfgStreams(sc.Cfg.MaxUniStreams[0], protocol.DefaultMaxIncomingUniStreams)}
	cfgIdle := time.Duration(limCfgOr(uint64(sc.Cfg.IdleMS[0]), uint64(protocol.DefaultIdleTimeout/time.Millisecond))) * time.Millisecond

	// judgeClient: the C12 verdict on how the client connection ended. Returns true when it has spoken.
	var clientDiedAt int64
	judgeClient := func(cause error, phase string) bool {
		if cause == nil {
			return false
		}
		s := lw.snap()
		var te *quic.TransportError
		var ie *quic.IdleTimeoutError
		switch {
		case errors.As(cause, &te) && !te.Remote:
			if s.beyond != "" {
				// pre-condition of the property not met: the server itself left the advertised limits (C04 / C15 / C16 matter)
				report("C04", limSigServerBeyond+strings.SplitN(s.beyond, ":", 2)[0], "%s; client: %v", s.beyond, cause)
				return true
			}
			if adv == nil {
				report("C12", limSigOther+wErrName(uint64(te.ErrorCode)), "%s: %v (no transport parameters seen on the wire)", phase, cause)
				return true
			}
			detail := fmt.Sprintf("%s: %v; wire: %d bytes on the connection, highest stream offset %d, streams opened bidi %d uni %d, %d DATAGRAM frames (largest %d), %d NEW_CONNECTION_ID; advertised: data %d, bidi_local %d, bidi_remote %d, uni %d, streams bidi %d uni %d, cid limit %d, datagram %d; client Config: stream window %d, connection window %d, streams bidi %d uni %d, datagrams %v",
				phase, cause, s.total, s.maxEnd, s.opened[0], s.opened[1], s.dgramFrames, s.dgramMax, s.ncid, adv.maxData, adv.bidiLocal, adv.bidiRemote, adv.uni, adv.streamsBidi, adv.streamsUni, adv.cidLimit, adv.dgram,
				cfgStream, cfgConn, cfgStreams[0], cfgStreams[1], sc.Cfg.Datagrams[0])
			switch uint64(te.ErrorCode) {
			case 3: // FLOW_CONTROL_ERROR
				if strings.Contains(te.ErrorMessage, "for the connection") {
					sig := limSigFlowConn
					if cfgConn < adv.maxData && s.total > cfgConn {
						sig += limCfgConn
						res.Probe("finding:conn-window-from-config")
					}
					report("C12", sig, "%s", detail)
				} else {
					sig := limSigFlowStream
					for id, end := range s.ends {
						if end > cfgStream && cfgStream < adv.streamWindow(id) {
							sig += limCfgStream
							res.Probe("finding:stream-window-from-config")
							break
						}
					}
					report("C12", sig, "%s", detail)
				}
			case 4: // STREAM_LIMIT_ERROR
				sig := limSigStreamCount
				if (s.opened[0] > cfgStreams[0] && cfgStreams[0] < adv.streamsBidi) || (s.opened[1] > cfgStreams[1] && cfgStreams[1] < adv.streamsUni) {
					sig += limCfgCount
					res.Probe("finding:stream-count-from-config")
				}
				report("C12", sig, "%s", detail)
			case 9: // CONNECTION_ID_LIMIT_ERROR
				report("C12", limSigCIDLimit, "%s", detail)
			case 7: // FRAME_ENCODING_ERROR
				if te.FrameType == 0x30 || te.FrameType == 0x31 {
					sig := limSigDgramFrame
					if !sc.Cfg.Datagrams[0] && adv.dgram > 0 && s.dgramFrames > 0 {
						sig += limCfgDgram
						res.Probe("finding:datagram-support-from-config")
					}
					report("C12", sig, "%s", detail)
				} else {
					report("C12", limSigOther+"FRAME_ENCODING_ERROR ("+strings.TrimSpace(stripNums(te.ErrorMessage))+")", "%s", detail)
				}
			default:
				if strings.Contains(te.ErrorMessage, "DATAGRAM") {
					report("C12", limSigDgramSize, "%s", detail)
				} else {
					report("C12", limSigOther+wErrName(uint64(te.ErrorCode))+" ("+strings.TrimSpace(stripNums(te.ErrorMessage))+")", "%s", detail)
				}
			}
			return true
		case errors.As(cause, &ie):
			if adv == nil || sconn == nil {
				return false
			}
			// effective idle timeout (RFC 9000 10.1): the minimum of the two advertised values, or the only one advertised
			srvAdv := tapTPUint(lw.conn.SrvTP, limIDIdle, 0)
			eff := adv.idleMS
			if eff == 0 || (srvAdv > 0 && srvAdv < eff) {
				eff = srvAdv
			}
			if eff == 0 {
				return false
			}
			died := clientDiedAt
			if died == 0 {
				died = w.NowNS()
			}
			gap := time.Duration(w.starvedFor(0, died))
			effD := time.Duration(eff) * time.Millisecond
			if gap < effD-20*time.Millisecond {
				sig := limSigIdleEarly
				if cfgIdle < effD && gap >= cfgIdle-20*time.Millisecond {
					// it went at (or after) the value its Config yields
					sig += limCfgIdle
					if adv.idleMS == 0 {
						res.Probe("finding:idle-timeout-from-config:spec-advertises-none")
					} else {
						res.Probe("finding:idle-timeout-from-config:spec-advertises-one")
					}
				}
				report("C12", sig, "%s: client idle timeout %v after the last packet it provably processed; advertised max_idle_timeout client %d ms, server %d ms; client Config.MaxIdleTimeout %v",
					phase, gap, adv.idleMS, srvAdv, cfgIdle)
				return true
			}
		}
		return false
	}
	// everything that is not a C12 matter goes to the common judge (C01/C02 liveness); here it only leaves a note
	judgeOther := func(cause, scause error, handshake bool) {
		pre := res.Violation
		jc := sc.Cfg // the idle periods the two endpoints really use
		jc.IdleMS = [2]int64{int64(cfgIdle / time.Millisecond), int64(srvEffIdle / time.Millisecond)}
		judgeFailure(w, &jc, &sc.Net, len(sc.Faults), res, cause, scause, handshake, horizon)
		if res.Violation != pre && !on["C01"] && !on["C02"] && !on["all"] {
			res.Note("C01: " + res.Violation)
			res.Violation, res.Detail = "", ""
		}
		if res.Blocked != "" && (on["C12"] || on["all"]) {
			res.Blocked = "" // C12 speaks for itself here
		}
	}
	// faultFree: nothing was injected so far (also true for a scenario of the faulty class in which no fault fired):
	// verdicts are exact
	faultFree := func() bool {
		w.mu.Lock()
		defer w.mu.Unlock()
		if len(w.Fired) > 0 {
			return false
		}
		for _, f := range sc.Faults { // replay: the explicit faults whose datagram has been sent by now
			if f.Dir >= 0 && f.Dir < 2 && f.Ord < len(w.Log[f.Dir]) {
				return false
			}
		}
		return true
	}
	closeBoth := func() {
		if cconn != nil {
			cconn.CloseWithError(0, "done")
		}
		if sconn != nil {
			sconn.CloseWithError(0, "done")
		}
	}
	if cconn == nil || sconn == nil || cerr != nil {
		closeBoth()
		if !judgeClient(cerr, "handshake") {
			if faultFree() {
				report("C02", "handshake of a spec-driven client failed on a fault-free network", "client: %v server: %v", cerr, serr)
			} else {
				if cconn == nil || cerr != nil {
					serr = nil
				}
				judgeOther(cerr, serr, true)
			}
		}
		return
	}
	res.Probe("handshake-ok")
	if adv == nil {
		closeBoth()
		report("C09", "handshake completed but the observer could not read the client's transport parameters", "")
		return
	}
	res.Logf("advertised: data %d bidi_local %d bidi_remote %d uni %d streams %d/%d idle %d cids %d dgram %d", adv.maxData, adv.bidiLocal, adv.bidiRemote, adv.uni, adv.streamsBidi, adv.streamsUni, adv.idleMS, adv.cidLimit, adv.dgram)

	var wg sync.WaitGroup
	appCtx, appCancel := context.WithCancel(ctx)
	defer appCancel()
	// watcher: when did the client connection end
	wg.Add(1)
	go func() {
		defer wg.Done()
		select {
		case <-cconn.Context().Done():
			clientDiedAt = w.NowNS()
		case <-appCtx.Done():
		}
	}()
	deadline := 300 * time.Second // overall cap of one push
	stallLimit := 12 * time.Second
	// ---- client application: stalled reader (or, Reader == "slow", one that reads everything)
	slow := sc.Reader == "slow"
	var clientRead atomic.Uint64
	var clientEOF atomic.Bool
	reader := func(s io.Reader) {
		defer wg.Done()
		buf := make([]byte, 16<<10)
		since := 0
		for {
			n, err := s.Read(buf)
			clientRead.Add(uint64(n))
			if err == io.EOF {
				clientEOF.Store(true)
			}
			if err != nil {
				return
			}
			if since += n; since >= 64<<10 {
				since = 0
				time.Sleep(time.Millisecond)
			}
		}
	}
	var held struct {
		sync.Mutex
		uni  []*quic.ReceiveStream
		bidi []*quic.Stream
	}
	if sc.Accept == "all" {
		wg.Add(2)
		go func() {
			defer wg.Done()
			for {
				s, err := cconn.AcceptUniStream(appCtx)
				if err != nil {
					return
				}
				held.Lock()
				held.uni = append(held.uni, s)
				held.Unlock()
				if slow {
					s.SetReadDeadline(time.Now().Add(deadline))
					wg.Add(1)
					go reader(s)
				}
			}
		}()
		go func() {
			defer wg.Done()
			for {
				s, err := cconn.AcceptStream(appCtx)
				if err != nil {
					return
				}
				held.Lock()
				held.bidi = append(held.bidi, s)
				held.Unlock()
				if slow {
					s.SetReadDeadline(time.Now().Add(deadline))
					wg.Add(1)
					go reader(s)
				}
			}
		}()
	}
	rtt := 2 * time.Duration(sc.Net.LatencyUS+sc.Net.JitterUS) * time.Microsecond
	settle := rtt + 80*time.Millisecond // delivery of the last packets + the client's reaction
	clientDead := func() bool { return cconn.Context().Err() != nil || sconn.Context().Err() != nil }
	// waitFor polls the wire until cond holds, an endpoint dies, or the server has made no progress for a while
	capped := false
	waitFor := func(cond func(limSnap) bool) bool {
		until := time.Now().Add(deadline)
		stall := time.Now()
		var last uint64
		for {
			s := lw.snap()
			if cond(s) {
				return true
			}
			if progress := s.total + s.opened[0] + s.opened[1] + uint64(s.dgramFrames) + clientRead.Load(); progress != last {
				last, stall = progress, time.Now()
			}
			if time.Now().After(until) || ctx.Err() != nil {
				capped = true // still progressing, just slowly: no verdict
				return false
			}
			if clientDead() || time.Since(stall) > stallLimit {
				return false
			}
			time.Sleep(20 * time.Millisecond)
		}
	}
	reached := false  // the pusher got to the boundary of the advertised limit
	reachable := true // the boundary can be reached by a conformant peer at all
	what := ""        // what was not reached
	stalled := ""     // slow-reader variant: signature of a stall
	// writer: writes zeros until the stream blocks for good (released by a write deadline)
	var writers sync.WaitGroup
	var wmu sync.Mutex
	var sendStreams []interface{ SetWriteDeadline(time.Time) error }
	var writeTotal uint64 // slow-reader variant: the writer sends exactly this many bytes and closes the stream
	startWriter := func(s interface {
		Write([]byte) (int, error)
		SetWriteDeadline(time.Time) error
		Close() error
	}) {
		wmu.Lock()
		sendStreams = append(sendStreams, s)
		wmu.Unlock()
		if slow {
			win := adv.streamWindow(uint64(s.(interface{ StreamID() quic.StreamID }).StreamID()))
			writeTotal = win + min(win, 256<<10) + 1000
		}
		writers.Add(1)
		go func() {
			defer writers.Done()
			for left := writeTotal; !slow || left > 0; {
				n := uint64(len(limZeros))
				if slow {
					n = min(n, left)
				}
				if _, err := s.Write(limZeros[:n]); err != nil {
					return
				}
				left -= min(left, n)
			}
			s.Close()
		}()
	}
	releaseWriters := func() {
		wmu.Lock()
		for _, s := range sendStreams {
			s.SetWriteDeadline(time.Now().Add(-time.Second))
		}
		wmu.Unlock()
		writers.Wait()
	}

	switch sc.Push {
	case "stream-uni", "stream-bidi", "stream-bidi-rev":
		var id uint64
		var target uint64
		ok := true
		switch sc.Push {
		case "stream-uni":
			if s, err := sconn.OpenUniStream(); err == nil {
				id = uint64(s.StreamID())
				startWriter(s)
			} else {
				ok = false
			}
		case "stream-bidi":
			if s, err := sconn.OpenStream(); err == nil {
				id = uint64(s.StreamID())
				startWriter(s)
			} else {
				ok = false
			}
		default:
			// the client opens the stream and sends one byte; the server answers with as much as it may
			octx, ocancel := context.WithTimeout(ctx, stallLimit)
			cs, err := cconn.OpenStreamSync(octx)
			if err == nil {
				cs.SetWriteDeadline(time.Now().Add(stallLimit))
				_, err = cs.Write([]byte{1})
			}
			var ss *quic.Stream
			if err == nil {
				ss, err = sconn.AcceptStream(octx)
			}
			ocancel()
			if err == nil {
				id = uint64(ss.StreamID())
				if slow {
					cs.SetReadDeadline(time.Now().Add(deadline))
					wg.Add(1)
					go reader(cs)
				}
				startWriter(ss)
			} else {
				ok = false
				res.Logf("reverse stream could not be set up: %v", err)
			}
		}
		if !ok {
			reachable = false // no stream of that kind may be opened: nothing to push
			res.Probe("no-stream-available")
			break
		}
		target = min(adv.streamWindow(id), adv.maxData)
		if slow && target > 0 {
			// more than one window: the client has to grant further credit while its application reads
			res.Logf("sending %d bytes on stream %d to a reading client (stream window %d, connection window %d)", writeTotal, id, adv.streamWindow(id), adv.maxData)
			reached = waitFor(func(limSnap) bool { return clientEOF.Load() && clientRead.Load() == writeTotal })
			what = fmt.Sprintf("stream %d: %d of %d bytes sent, %d read by the client application", id, lw.snap().ends[id], writeTotal, clientRead.Load())
			if !reached && !capped && faultFree() {
				// no progress for a long time, or the connection idled out meanwhile
				sig := limSigStall
				switch {
				case adv.streamWindow(id) < max(adv.uni, adv.bidiLocal, adv.bidiRemote):
					sig += limCfgStallType
					res.Probe("finding:one-receive-window-for-all-stream-types")
				case adv.streamWindow(id) < cfgStream || adv.maxData < cfgConn:
					sig += limCfgStall
					res.Probe("finding:window-updates-from-config")
				}
				stalled = sig
			}
			break
		}
		res.Logf("pushing stream %d to %d bytes", id, target)
		reached = waitFor(func(s limSnap) bool { return s.ends[id] >= target })
		what = fmt.Sprintf("stream %d: %d of %d bytes sent", id, lw.snap().ends[id], target)
		if reached {
			time.Sleep(settle)
		}
	case "conn":
		// as many streams as needed (and allowed) to fill the connection window
		var capacity uint64
		n := 0
		for n < 40 && capacity < adv.maxData+1 {
			opened := false
			if adv.uni > 0 {
				if s, err := sconn.OpenUniStream(); err == nil {
					startWriter(s)
					capacity += adv.uni
					opened = true
					n++
				}
			}
			if adv.bidiRemote > 0 && capacity < adv.maxData+1 {
				if s, err := sconn.OpenStream(); err == nil {
					startWriter(s)
					capacity += adv.bidiRemote
					opened = true
					n++
				}
			}
			if !opened {
				break
			}
		}
		target := min(capacity, adv.maxData)
		if capacity < adv.maxData {
			res.Probe("conn-window-larger-than-all-stream-windows")
		}
		res.Logf("pushing %d streams to %d bytes (capacity %d)", n, target, capacity)
		reached = waitFor(func(s limSnap) bool { return s.total >= target })
		what = fmt.Sprintf("connection: %d of %d bytes sent on %d streams", lw.snap().total, target, n)
		if reached {
			time.Sleep(settle)
		}
	case "streams-uni", "streams-bidi":
		k := 0
		want := adv.streamsBidi
		if sc.Push == "streams-uni" {
			k, want = 1, adv.streamsUni
		}
		var n uint64
		budget := adv.maxData
		for n < want+8 {
			var s interface {
				Write([]byte) (int, error)
				SetWriteDeadline(time.Time) error
				Close() error
			}
			var err error
			var win uint64
			if k == 1 {
				var us *quic.SendStream
				us, err = sconn.OpenUniStream()
				s, win = us, adv.uni
			} else {
				var bs *quic.Stream
				bs, err = sconn.OpenStream()
				s, win = bs, adv.bidiRemote
			}
			if err != nil {
				break
			}
			n++
			// one byte where credit allows, otherwise an empty stream (a FIN needs no credit)
			if win > 0 && budget > 0 && n%3 != 0 {
				budget--
				s.SetWriteDeadline(time.Now().Add(stallLimit))
				s.Write([]byte{7})
			} else {
				s.Close()
			}
		}
		res.Logf("opened %d streams (advertised %d)", n, want)
		reached = n == want && waitFor(func(s limSnap) bool { return s.opened[k] >= want })
		what = fmt.Sprintf("%d of %d streams opened, %d seen on the wire", n, want, lw.snap().opened[k])
		if reached {
			time.Sleep(settle)
		}
	case "cids":
		// the server issues connection IDs by itself once the handshake is complete
		time.Sleep(2*rtt + 200*time.Millisecond)
		s := lw.snap()
		reached = s.ncid > 0 || adv.cidLimit < 2
		reachable = true
		what = fmt.Sprintf("%d NEW_CONNECTION_ID frames", s.ncid)
		res.Probe(fmt.Sprintf("cids-issued-%d-of-limit-%d", s.ncid, min(adv.cidLimit, 9)))
	case "dgram":
		if adv.dgram == 0 {
			reachable = false
			res.Probe("no-datagram-support-advertised")
			if err := sconn.SendDatagram([]byte{1}); err == nil {
				report("C04", limSigServerBeyond+"datagram support", "SendDatagram accepted although the client did not advertise max_datagram_frame_size")
			}
			break
		}
		if sc.Cfg.Datagrams[0] && sc.Accept == "all" {
			wg.Add(1)
			go func() {
				defer wg.Done()
				for {
					if _, err := cconn.ReceiveDatagram(appCtx); err != nil {
						return
					}
				}
			}()
		}
		// the largest payload the server is willing to send: frame of exactly the advertised size, or what fits a packet
		var tooLarge *quic.DatagramTooLargeError
		maxPayload := -1
		if err := sconn.SendDatagram(make([]byte, 70000)); errors.As(err, &tooLarge) {
			maxPayload = int(tooLarge.MaxDatagramPayloadSize)
		}
		res.Logf("largest datagram payload the server accepts: %d (advertised frame size %d)", maxPayload, adv.dgram)
		sent := 0
		sizes := []int{maxPayload, maxPayload - 1, 1, 0, maxPayload / 2, maxPayload}
		if uint64(maxPayload)+3 < adv.dgram {
			// the packet size is the binding limit and the server's estimate of it is optimistic (the packer silently
			// drops what does not fit): walk down to the largest payload that really goes out
			sizes = []int{1, 0, maxPayload / 2}
			for n := maxPayload; n >= 0 && n > maxPayload-48; n-- {
				sizes = append(sizes, n)
			}
		}
		for _, n := range sizes {
			if n < 0 || clientDead() {
				continue
			}
			if err := sconn.SendDatagram(make([]byte, n)); err == nil {
				sent++
			}
			time.Sleep(3 * time.Millisecond)
		}
		time.Sleep(settle + rtt)
		s := lw.snap()
		reached = sent > 0 && s.dgramFrames > 0
		if reached {
			if s.dgramMax == adv.dgram {
				res.Probe("datagram-frame-of-exactly-the-advertised-size")
			} else {
				res.Probe("datagram-frame-limited-by-packet-size")
			}
		}
		what = fmt.Sprintf("%d datagrams sent, %d frames on the wire", sent, lw.snap().dgramFrames)
	case "idle":
		eff := adv.idleMS
		if eff == 0 {
			eff = uint64(srvIdle / time.Millisecond)
		}
		// silent for 90% of the advertised timeout (and of what the server itself can bear), counted from the last
		// datagram the server sent
		silence := min(time.Duration(eff)*time.Millisecond, srvEffIdle) * 9 / 10
		if specIdlePresent && specIdle == 0 {
			res.Probe("idle-explicit-zero-server-uses-5s")
		}
		for !clientDead() {
			target := time.Duration(lw.snap().lastSrvSend) + silence
			now := time.Duration(w.NowNS())
			if now >= target {
				break
			}
			st := target - now
			// wake up early when the client dies
			select {
			case <-cconn.Context().Done():
			case <-time.After(st):
			}
		}
		if clientDead() {
			what = "client connection ended during the silence"
			break
		}
		res.Logf("poke after %v of silence at %v", silence, time.Duration(w.NowNS()))
		before := len(w.Log[0])
		poked := false
		// one stream byte where the advertised credit allows it, otherwise a DATAGRAM frame, otherwise an empty stream
		if adv.uni > 0 && adv.maxData > 0 {
			if s, err := sconn.OpenUniStream(); err == nil {
				s.SetWriteDeadline(time.Now().Add(stallLimit))
				_, err = s.Write([]byte{9})
				poked = err == nil
			}
		}
		if !poked && adv.dgram > 3 {
			poked = sconn.SendDatagram([]byte{9}) == nil
		}
		if !poked {
			if s, err := sconn.OpenUniStream(); err == nil {
				poked = s.Close() == nil
			} else if s, err := sconn.OpenStream(); err == nil {
				poked = s.Close() == nil
			}
		}
		if !poked {
			reachable = false
			res.Probe("idle-no-way-to-poke")
			break
		}
		// the client must still be there: it answers (acknowledges) the poke
		until := time.Now().Add(2*rtt + 500*time.Millisecond)
		for !clientDead() && time.Now().Before(until) {
			w.mu.Lock()
			n := len(w.Log[0])
			w.mu.Unlock()
			if n > before {
				reached = true
				break
			}
			time.Sleep(5 * time.Millisecond)
		}
		what = "no answer from the client to the packet after the silence"
	default:
		res.Fail("unknown pusher", "%q", sc.Push)
	}
	releaseWriters()

	// ---- verdict
	cause := context.Cause(cconn.Context())
	scause := context.Cause(sconn.Context())
	if cause != nil && clientDiedAt == 0 {
		clientDiedAt = w.NowNS()
	}
	snap := lw.snap()
	res.Logf("end of push at %v: reached=%v reachable=%v (%s); client cause=%v server cause=%v; wire: total %d maxEnd %d opened %v dgrams %d/%d ncid %d beyond=%q",
		time.Duration(w.NowNS()), reached, reachable, what, cause, scause, snap.total, snap.maxEnd, snap.opened, snap.dgramFrames, snap.dgramMax, snap.ncid, snap.beyond)
	if res.KeepLog {
		for _, p := range w.Tap.All {
			if len(w.Tap.All) > 400 && p.Type == Tap1RTT && p.Ord > 60 {
				continue
			}
			rec := w.Log[p.Dir][p.Ord]
			res.Logf("  %d %s {%s-> %v}", p.SentNS/1000, p.String(), rec.Fate, rec.Delivered)
		}
	}
	spoken := judgeClient(cause, "push "+sc.Push)
	var state quic.ConnectionState
	if cause == nil {
		state = cconn.ConnectionState()
	}
	// ---- and one step beyond (C15: "an attempt beyond the advertised MAX_STREAMS is answered with STREAM_LIMIT_ERROR"): the
	// simulator plays a server that opens a stream far beyond anything the client has advertised or may have granted since.
	// The in-tree server never would, so the packet is sealed by the observer with the session's keys.
	if (sc.Push == "streams-uni" || sc.Push == "streams-bidi") && cause == nil && scause == nil && !spoken && !res.Failed() {
		w.mu.Lock()
		w.Tap.mu.Lock()
		var last *TapPacket
		for _, p := range w.Tap.All {
			if p.Dir == 1 && p.Type == Tap1RTT && p.Opened && p.Conn != nil && !p.Conn.Shadow {
				last = p
			}
		}
		var pkt []byte
		if last != nil {
			// the limit in force: what was advertised, raised by every MAX_STREAMS the client has put on the wire since
			lw.mu.Lock()
			want := max(adv.streamsBidi, lw.maxStreams[0])
			id := uint64(1) // server-initiated bidirectional
			if sc.Push == "streams-uni" {
				want, id = max(adv.streamsUni, lw.maxStreams[1]), 3
			}
			lw.mu.Unlock()
			// the stream right behind the limit, or - half of the time - one further out
			id += 4 * (want + uint64(sc.Seed%2)*40)
			payload := append([]byte{0x0a}, wVarint(id)...) // STREAM frame with a length field, offset 0
			payload = append(payload, 1, 0x55)
			pkt = last.Conn.tapSeal1RTT(1, last.DCID, uint64(last.Conn.largest[1][2]+1), payload)
		}
		w.Tap.mu.Unlock()
		w.mu.Unlock()
		if pkt != nil {
			w.InjectTo(1, pkt)
			tm := time.NewTimer(200 * time.Millisecond)
			select {
			case <-cconn.Context().Done():
			case <-tm.C:
			}
			tm.Stop()
			var te *quic.TransportError
			switch c2 := context.Cause(cconn.Context()); {
			case c2 == nil:
				report("C12", "client accepted a stream beyond the stream count it advertised (no STREAM_LIMIT_ERROR)", "push %s: advertised bidi %d uni %d; client Config: MaxIncomingStreams %d MaxIncomingUniStreams %d", sc.Push, adv.streamsBidi, adv.streamsUni, sc.Cfg.MaxStreams[0], sc.Cfg.MaxUniStreams[0])
			case errors.As(c2, &te) && !te.Remote && te.ErrorCode == quic.StreamLimitError:
				res.Probe("stream-beyond-the-advertised-count-refused")
			default:
				res.Probe("stream-beyond-the-advertised-count: connection ended otherwise")
			}
		}
	}
	closeBoth()
	appCancel()
	wg.Wait()
	if snap.beyond != "" && !spoken {
		report("C04", limSigServerBeyond+strings.SplitN(snap.beyond, ":", 2)[0], "%s", snap.beyond)
		spoken = true
	}
	isIdle := func(err error) bool {
		var ie *quic.IdleTimeoutError
		return err == nil || errors.As(err, &ie)
	}
	if !spoken && stalled != "" && isIdle(cause) && isIdle(scause) {
		// the transfer came to a halt (and the connection possibly idled out over it) although the application keeps reading
		report("C12", stalled, "%s; client cause %v, server cause %v; advertised stream windows %d/%d/%d connection %d; client Config: stream window %d, connection window %d", what, cause, scause, adv.bidiLocal, adv.bidiRemote, adv.uni, adv.maxData, cfgStream, cfgConn)
		spoken = true
	}
	if !spoken && (cause != nil || scause != nil) {
		judgeOther(cause, scause, false)
		spoken = true
	}
	if !spoken {
		switch {
		case reached:
			res.Nontrivial = true
			if sc.TPs != nil {
				res.Probe("reach:" + sc.Push + sc.Reader + ":derived")
			} else {
				res.Probe("reach:" + sc.Push + sc.Reader + ":" + sc.Cfg.Client)
			}
		case !reachable:
			res.Probe("not-applicable:" + sc.Push)
		case capped:
			res.Probe("slow-progress-capped:" + sc.Push + sc.Reader)
		case faultFree():
			report("C12", limSigReach+sc.Push+sc.Reader, "%s; client and server connections alive", what)
		default:
			res.Probe("boundary-not-reached-under-faults:" + sc.Push)
		}
	}
	// ---- the client's own record of its parameters equals the bytes it sent
	if res.Failed() {
		return
	}
	own := limOwnParameters(nodes)
	if len(own) == 0 {
		report("C12", limSigNoRecord, "")
		return
	}
	ps := own[len(own)-1]
	type cmp struct {
		id   uint64
		have uint64
	}
	nonneg := func(v int64) uint64 {
		if v < 0 {
			return 0
		}
		return uint64(v)
	}
	limits := []cmp{
		{limIDIdle, uint64(ps.MaxIdleTimeout / time.Millisecond)},
		{limIDMaxData, nonneg(int64(ps.InitialMaxData))},
		{limIDBidiLocal, nonneg(int64(ps.InitialMaxStreamDataBidiLocal))},
		{limIDBidiRemote, nonneg(int64(ps.InitialMaxStreamDataBidiRemote))},
		{limIDUni, nonneg(int64(ps.InitialMaxStreamDataUni))},
		{limIDStreamsBi, nonneg(ps.InitialMaxStreamsBidi)},
		{limIDStreamsUni, nonneg(ps.InitialMaxStreamsUni)},
		{limIDCIDLimit, ps.ActiveConnectionIDLimit},
		{limIDDgram, nonneg(int64(ps.MaxDatagramFrameSize))},
	}
	for _, c := range limits {
		_, present := tapTP(adv.tps, c.id)
		wire := tapTPUint(adv.tps, c.id, 0)
		if c.have != wire && !(c.id == limIDCIDLimit && !present && c.have == 2) {
			report("C12", limSigRecord+limTPName[c.id], "wire %d (present %v), recorded %d", wire, present, c.have)
			return
		}
	}
	res.Probe("record-equals-wire")
	if state.SupportsDatagrams.Local != (adv.dgram > 0) && cause == nil {
		report("C12", limSigStateDgram, "SupportsDatagrams.Local=%v, max_datagram_frame_size on the wire %d, Config.EnableDatagrams %v", state.SupportsDatagrams.Local, adv.dgram, sc.Cfg.Datagrams[0])
		return
	}
	others := []cmp{
		{0x03, nonneg(int64(ps.MaxUDPPayloadSize))},
		{0x0a, uint64(ps.AckDelayExponent)},
		{0x0b, uint64(ps.MaxAckDelay / time.Millisecond)},
	}
	for _, c := range others {
		if _, present := tapTP(adv.tps, c.id); present {
			if wire := tapTPUint(adv.tps, c.id, 0); wire != c.have {
				report("C12", limSigRecordOther+limTPName[c.id], "wire %d, recorded %d", wire, c.have)
				return
			}
		}
	}
	if _, present := tapTP(adv.tps, 0x0c); present != ps.DisableActiveMigration {
		report("C12", limSigRecordOther+limTPName[0x0c], "wire present=%v, recorded %v", present, ps.DisableActiveMigration)
	}
}
