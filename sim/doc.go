// Package verifsim is the world simulation of /verif (see DESIGN.md).
package verifsim
