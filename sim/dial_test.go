package verifsim

// W:dial - spec-driven clients dialing the in-tree server, dial after dial, with
// faults on the first flights. Serves C02 (every parrot / derived spec yields a working
// connection), C09 (wire clauses: Initial CRYPTO framing carries the complete
// ClientHello), C10 (Initial flight headers / numbering / token / sizes) and C11
// (ClientHello and transport parameters on the wire equal the spec).

import (
	"bytes"
	"context"
	"errors"
	"fmt"
	"io"
	"net"
	"os"
	"runtime"
	"slices"
	"sort"
	"strings"
	"sync"
	"testing"
	"time"

	"github.com/refraction-networking/clienthellod"
	quic "github.com/refraction-networking/uquic"
	"github.com/refraction-networking/uquic/testutils/simnet"
	tls "github.com/refraction-networking/utls"
)

type DialScenario struct {
	Seed     uint64   `json:"seed"`
	Cfg      WConfig  `json:"cfg"`
	Net      WNet     `json:"net"`
	Faults   []WFault `json:"faults"`
	Dials    int      `json:"dials"`
	Fresh    bool     `json:"fresh_transport,omitempty"` // a fresh UTransport per dial sharing the same *QUICSpec
	EchoSize int      `json:"echo_size"`
	// the next dial on the same transport follows the previous connection's close at once (its closing period is still
	// running), and every connection is used once more after the closing period of its predecessor has ended
	Quick bool `json:"quick_redial,omitempty"`
	// the second and later dials resume the first one's session and send their request as 0-RTT data (DialEarly): packets of
	// another encryption level travel with the spec-built first flight
	Early bool `json:"early_redials,omitempty"`
	// the caller has serialised the spec's transport-parameter extension before dialing (sizing it, building a reference
	// ClientHello): whatever the extension object caches must not reach the wire of a later dial
	PreLen bool `json:"pre_serialised,omitempty"`
	// the application's tls.Config names more protocols than the fingerprint's ALPN extension: the wire carries the spec's
	AltALPN bool `json:"alt_alpn,omitempty"`
	// the client prefers QUIC v2, the server only speaks v1: every dial goes through Version Negotiation and the spec's
	// packet numbering carries on in the connection that replaces the first attempt
	VN bool `json:"vn,omitempty"`
	// the application's Config has a token store of its own; a spec that synthesises tokens still decides what the Initial carries
	CfgTokens bool `json:"cfg_token_store,omitempty"`
	// every connection is used once more after a rest of 1.5 s (longer than the client Config's idle timeout when the spec
	// advertises none: then the connection has no idle timeout of its own)
	LateUse bool `json:"late_use,omitempty"`
	// one spec value, several servers: odd dials go to another host name (the certificate is good for both); the
	// fingerprint's server_name extension is empty, so each ClientHello names the host of its own dial
	AltName bool `json:"alt_name,omitempty"`
}

func (s *DialScenario) KSeed() uint64 { return s.Seed }

func init() {
	KRegister(&KSim{Name: "dial", New: func() KScenario { return &DialScenario{} }, Gen: genDial, Run: runDial})
}

func genDerive(r *KRng, client string) *WDerive {
	if r.P(0.3) {
		return nil
	}
	d := &WDerive{}
	switch r.N(7) {
	case 0:
		d.Builder = "nil"
	case 1:
		d.Builder = "random"
		minP, minC, minD := r.N(4), 1+r.N(5), 1+r.N(3)
		d.P = []int64{int64(minP), int64(minP + 1 + r.N(8)), int64(minC), int64(minC + 1 + r.N(10)), int64(minD), int64(minD + 1 + r.N(5)), int64(r.Pick(0, 600, 1000, 1150, 1200, 1215))}
	case 2:
		d.Builder = "frames"
		c0 := 1 + r.N(40)
		c1 := c0 + 1 + r.N(60)
		c2 := c1 + 1 + r.N(100)
		d.P = []int64{int64(c0), int64(c1), int64(c2), int64(r.N(2)), int64(r.Pick(1, 20, 300))}
	case 3:
		d.Builder = "multi"
		d.P = []int64{int64(r.N(3)), int64(r.N(6)), int64(r.Pick(900, 1100, 1180)), int64(r.N(4)), int64(r.Pick(300, 700, 1000))}
	case 4:
		// planned flights (absolute CRYPTO ranges): one datagram for the small ClientHellos, two for Chrome 146
		d.Builder = r.Pick2("flight", "rflight")
		if strings.HasPrefix(client, "chrome146") {
			d.P = []int64{int64(r.Range(550, 800)), int64(r.Range(200, 330)), 1, int64(r.N(3)), int64(r.N(4))}
		} else {
			d.P = []int64{0, int64(r.Range(20, 200)), 0, int64(r.N(3)), int64(r.N(4))}
			if r.P(0.45) {
				// a ClientHello that fills the one planned datagram to the brim, give or take: the flight either just fits
				// or is rejected before anything is sent
				d.PadCH = r.Range(560, 960)
			}
		}
		return d // a planned flight fixes the layout: keep the rest of the spec as it is
	}
	if r.P(0.15) && (d.Builder == "" || d.Builder == "nil") && !strings.HasPrefix(client, "chrome") {
		// per-datagram plans: exact CRYPTO byte counts and exact packet sizes over a 3-4 datagram ClientHello
		d.Builder = "nil"
		d.PadCH = r.Pick(1300, 2400, 3000)
		n := 2 + r.N(3)
		for i := 0; i < n; i++ {
			d.Plans = append(d.Plans, r.Pick(300, 500, 800, 999), r.Pick(1200, 1200, 1250))
		}
		d.Plans = append(d.Plans, 0, 1200)
		return d
	}
	if r.P(0.4) {
		d.InitPN = int64(r.Pick(-1, 1, 2, 7, 200, 60000, 1<<20))
		// a length list a first-packet receiver can decode: enough bytes for the chosen number
		need := 1
		for v := d.InitPN + 4; v >= 1<<(8*need-1) && need < 4; {
			need++
		}
		n := 1 + r.N(3)
		for i := 0; i < n; i++ {
			d.PNLens = append(d.PNLens, min(4, need+r.N(2)))
		}
	}
	if r.P(0.3) {
		switch r.N(3) {
		case 0:
			d.Token = fmt.Sprintf("len:%d", r.Pick(1, 16, 70, 200))
		case 1:
			d.Token = fmt.Sprintf("prefix:%s:%d", []string{"00", "00ff", "a1b2c3d4"}[r.N(3)], r.Pick(0, 8, 70))
		case 2:
			d.Token = "none"
		}
	}
	if r.P(0.3) {
		d.SrcCIDLen = r.Pick(-1, 3, 4, 8, 15, 20) // not below Firefox's 3 bytes: shorter IDs collide among the IDs of one connection
	}
	if r.P(0.3) {
		d.DstCIDLen = r.Pick(8, 9, 12, 16, 20, 8, 12, 1, 4, 7)
	}
	if r.P(0.25) {
		d.UDPMin = r.Pick(1200, 1250, 1280)
	}
	if r.P(0.25) {
		// never a parameter the peer requires (initial_source_connection_id 0x0f stays)
		opts := []uint64{27, 0x20, 0x03, 0x3127, 0x3128, 0x4752, 0x11, 0x0b, 0x0a}
		for i, n := 0, 1+r.N(3); i < n; i++ {
			d.Suppress = append(d.Suppress, opts[r.N(len(opts))])
		}
	}
	if r.P(0.12) {
		d.DupSuppressed = uint64(r.Pick(0x3129, 0x7f01, 0x2ab2))
	}
	if r.P(0.1) {
		d.GreaseExact = true
	}
	if r.P(0.2) {
		// the limit the in-tree server fills when it is 6 or less (it issues min(limit, 6) connection IDs)
		d.CIDLimit = r.Pick(2, 3, 4, 5, 6, 7, 8)
	}
	if r.P(0.06) {
		// an explicit initial_source_connection_id: the wire must carry it as written (and the server then refuses it)
		d.ISCID = []string{"deadbeef01", "0102030405060708", "aa"}[r.N(3)]
	}
	if r.P(0.4) {
		d.Shuffle = 1 + r.N(2)
	}
	if r.P(0.3) {
		d.PadCH = r.Pick(100, 900, 1300, 2400, 3300)
	}
	return d
}

func genDial(seed uint64, tier string) KScenario {
	r := NewKRng(seed)
	sc := &DialScenario{Seed: seed}
	sc.Cfg.Client = wSpecNames[r.N(len(wSpecNames))]
	sc.Cfg.Derive = genDerive(r, sc.Cfg.Client)
	sc.Cfg.Version = 1
	sc.Cfg.ServerCIDLen = r.Pick(4, 8, 8, 12, 20)
	sc.Cfg.ClientCIDLen = 4
	sc.Cfg.Retry = r.P(0.2)
	sc.Cfg.ChainLen = r.Pick(0, 0, 1, 6)
	sc.Cfg.Datagrams = [2]bool{true, r.P(0.5)}
	sc.Cfg.IdleMS = [2]int64{0, int64(r.Pick(0, 10000))}
	if r.P(0.3) {
		w := uint64(r.Pick(4000, 30000))
		sc.Cfg.Win[2], sc.Cfg.Win[3] = w, 2*w
	}
	sc.Net.LatencyUS = int64(r.Pick(500, 5000, 20000))
	sc.Net.JitterUS = int64(r.Pick(0, 500, 8000))
	if r.P(0.6) {
		// loss, duplication, reordering and delay on the first flights (no corruption: C02 speaks of these four)
		sc.Net.Drop = r.F() * 0.2
		sc.Net.Dup = r.F() * 0.1
		sc.Net.Delay = r.F() * 0.1
		sc.Net.FaultUntilMS = int64(r.Pick(300, 1000, 3000))
	}
	sc.Dials = r.Pick(1, 2, 2, 3, 5)
	sc.Fresh = r.P(0.3)
	sc.EchoSize = r.Pick(1, 1000, 20000, 100000)
	sc.Quick = sc.Dials > 1 && !sc.Fresh && r.P(0.4)
	sc.Early = sc.Dials > 1 && !sc.Quick && r.P(0.3)
	sc.PreLen = r.P(0.2)
	sc.AltALPN = r.P(0.25)
	sc.VN = !sc.Early && r.P(0.12)
	sc.CfgTokens = r.P(0.2)
	if r.P(0.15) {
		// one of the first Initial datagrams vanishes: with a ClientHello that spans several of them the retransmission of
		// the lost piece falls into the time when the rest of the handshake is already under way
		sc.Net.DropInitials = r.Pick(1, 1, 2)
	}
	if d := sc.Cfg.Derive; d != nil && r.P(0.15) {
		// the spec advertises no max_idle_timeout; the Config's own (short) value must not be enforced in its place
		d.Suppress = append(d.Suppress, 0x01)
		sc.Cfg.IdleMS = [2]int64{1000, 30000}
		sc.LateUse = true
	}
	sc.AltName = sc.Dials > 1 && !sc.Early && r.P(0.3)
	return sc
}

type dialCapture struct {
	pnSkip int  // Initial packet numbers used up by the attempt that Version Negotiation ended
	onlyPN bool // judge packet numbers and their encoding only (the connection that follows a Version Negotiation)
	conn   *TapConn
	err    error
	echoOK bool
	fp     string
	noPing bool     // the first flight carried no PING frame
	tpIDs  []uint64 // spec.TransportParameterIDs() right after the dial
}

func runDial(t *testing.T, ksc KScenario, res *KResult) {
	sc := ksc.(*DialScenario)
	if sc.Early {
		sc.Cfg.Allow0RTT = true
	}
	wBegin(&sc.Cfg)
	defer wEnd()
	on := wOraclesEnabled("C02")
	w := NewWorld(t, sc.Seed, &sc.Net, res)
	w.SetFaults(sc.Faults)
	nodes, err := NewNodes(w, &sc.Cfg)
	if err != nil {
		res.Fail("spec could not be built", "%v", err)
		return
	}
	if sc.Early {
		nodes.CTLS.ClientSessionCache = tls.NewLRUClientSessionCache(4)
	}
	if q := wQTPExt(nodes.Spec); sc.PreLen && q != nil {
		q.Len()
	}
	if sc.VN {
		nodes.SQ.Versions = []quic.Version{quic.Version1}
		nodes.CQ.Versions = []quic.Version{quic.Version2, quic.Version1}
	}
	if sc.CfgTokens {
		nodes.CQ.TokenStore = quic.NewLRUTokenStore(2, 4)
	}
	if sc.AltALPN {
		nodes.CTLS.NextProtos = []string{wALPN, "h3-29"}
	}
	// the fingerprint's ALPN list as the caller wrote it, before any dial
	var alpn0 []byte
	sniEmpty := false // the spec has a server_name extension and leaves the name to the dial
	if nodes.Spec != nil && nodes.Spec.ClientHelloSpec != nil {
		for _, e := range nodes.Spec.ClientHelloSpec.Extensions {
			if s, ok := e.(*tls.SNIExtension); ok && s.ServerName == "" {
				sniEmpty = true
			}
			if a, ok := e.(*tls.ALPNExtension); ok {
				for _, p := range a.AlpnProtocols {
					alpn0 = append(alpn0, byte(len(p)))
					alpn0 = append(alpn0, p...)
				}
			}
		}
	}
	wo := NewWireOracles(w, nodes, res)
	wo.refusedHello = sc.Cfg.Derive != nil && sc.Cfg.Derive.ISCID != ""
	wo.muted = sc.Cfg.Derive != nil && sc.Cfg.Derive.DstCIDLen > 0 && sc.Cfg.Derive.DstCIDLen < 8
	wo.on = on
	w.StartDriver()
	defer func() {
		nodes.Close()
		w.Stop()
		if !sc.Net.Explicit {
			sc.Net.Explicit = true
			sc.Faults = w.Fired
		}
		if res.KeepLog {
			for _, p := range w.Tap.All {
				if p.Conn != nil && (p.Type == TapInitial || p.Type == TapRetry || p.Type == TapHandshake || os.Getenv("VERIF_DUMP_ALL") != "") {
					rec := w.Log[p.Dir][p.Ord]
					res.Logf("all: conn %d shadow=%v %d %s dgram=%d {%s-> %v} scid=%x dcid=%x client=%s", p.Conn.ID, p.Conn.Shadow, p.SentNS/1000, p.String(), rec.Size, rec.Fate, rec.Delivered, p.SCID, p.DCID, rec.Client)
				}
			}
		}
		wo.Finish()
		w.FeedShape()
	}()
	if err := nodes.Listen(); err != nil {
		res.Fail("Listen failed", "%v", err)
		return
	}
	report := func(prop, sig, f string, a ...any) {
		if on[prop] || on["all"] {
			res.Fail(sig, f, a...)
		} else {
			res.Note(prop + ": " + sig)
		}
	}
	spec := nodes.Spec
	var caps []*dialCapture
	var extraTransports []*quic.Transport
	var extraConns []*simnet.SimConn
	defer func() {
		for _, tr := range extraTransports {
			tr.Close()
		}
		for _, pc := range extraConns {
			pc.Close()
		}
	}()
	for di := 0; di < max(1, sc.Dials) && !res.Failed(); di++ {
		if di > 0 {
			if sc.Fresh {
				// a fresh socket and transport per dial, sharing the one *QUICSpec value
				addr := &net.UDPAddr{IP: wClientAddr.IP, Port: wClientAddr.Port + di}
				pc := simnet.NewBlockingSimConn(addr, w)
				tr := &quic.Transport{Conn: pc, ConnectionIDLength: sc.Cfg.ClientCIDLen}
				extraTransports = append(extraTransports, tr)
				extraConns = append(extraConns, pc)
				nodes.UTr = &quic.UTransport{Transport: tr, QUICSpec: spec}
			} else {
				// same transport: with zero-length source connection IDs the socket can only carry one
				// connection at a time, so let the previous one leave its closing period first - or (Quick) dial at once
				if prev := caps[len(caps)-1]; sc.Quick && prev.err == nil && prev.echoOK {
					// (only after a connection that ended in the regular way: the half-open server connection a failed dial
					// leaves behind cannot be told from the next one by an observer when the client uses zero-length IDs)
					time.Sleep(time.Duration(KMix(sc.Seed, 0x9d1, uint64(di))%30) * time.Millisecond)
				} else {
					time.Sleep(3 * time.Second)
				}
			}
		}
		serverName := "localhost"
		if sc.AltName && di%2 == 1 {
			serverName = wAltServerName
		}
		if sc.AltName {
			nodes.CTLS = nodes.CTLS.Clone()
			nodes.CTLS.ServerName = serverName
		}
		before := len(w.Tap.Conns)
		sentBefore := len(w.Log[0])
		horizon := 40 * time.Second
		ctx, cancel := context.WithTimeout(context.Background(), horizon)
		var sconn *quic.Conn
		var sconnMu sync.Mutex
		adone := make(chan struct{})
		go func() {
			var once sync.Once
			done := func() { once.Do(func() { close(adone) }) }
			defer done()
			for {
				c, err := nodes.Accept(ctx)
				if err != nil {
					return
				}
				// echo server for bidirectional streams
				go func() {
					for {
						s, err := c.AcceptStream(ctx)
						if err != nil {
							return
						}
						b, err := io.ReadAll(s)
						if err != nil {
							return
						}
						s.Write(b)
						s.Close()
					}
				}()
				if nodes.ELn == nil {
					sconn = c
					return
				}
				// an early listener also hands out connections whose handshake never completes (created from a delayed
				// copy of an Initial): serve every one, the dial's own is the one that completes the handshake
				go func() {
					select {
					case <-c.HandshakeComplete():
						sconnMu.Lock()
						if sconn == nil {
							sconn = c
						}
						sconnMu.Unlock()
						done()
					case <-c.Context().Done():
					case <-ctx.Done():
					}
				}()
			}
		}()
		cp := &dialCapture{}
		caps = append(caps, cp)
		var conn *quic.Conn
		var derr error
		if sc.Early && di > 0 {
			conn, derr = nodes.DialEarly(ctx)
		} else {
			conn, derr = nodes.Dial(ctx)
		}
		cp.err = derr
		if derr != nil {
			cancel()
		} else {
			select {
			case <-adone:
			case <-conn.Context().Done():
				cp.err = context.Cause(conn.Context())
				cancel()
			}
		}
		<-adone
		if cp.err == nil && conn != nil {
			// bidirectional echo
			payload := wPayload(KMix(sc.Seed, 0xec40, uint64(di)), 0, sc.EchoSize)
			str, err := conn.OpenStreamSync(ctx)
			if err == nil {
				go func() { str.Write(payload); str.Close() }()
				got, rerr := io.ReadAll(str)
				switch {
				case rerr != nil:
					err = rerr
				case !bytes.Equal(got, payload):
					res.Fail("echoed stream data differs from what was sent", "dial #%d: got %d bytes, sent %d", di, len(got), len(payload))
				default:
					cp.echoOK = true
				}
			}
			if err == nil && cp.echoOK && (sc.Quick || sc.LateUse) {
				// use the connection once more after the closing period of the previous connection (3 PTO) has ended
				time.Sleep(1500 * time.Millisecond)
				cp.echoOK = false
				s2, e2 := conn.OpenStreamSync(ctx)
				if e2 == nil {
					go func() { s2.Write(payload[:min(len(payload), 1000)]); s2.Close() }()
					var got []byte
					if got, e2 = io.ReadAll(s2); e2 == nil {
						if !bytes.Equal(got, payload[:min(len(payload), 1000)]) {
							res.Fail("echoed stream data differs from what was sent", "dial #%d, second use: got %d bytes", di, len(got))
						} else {
							cp.echoOK = true
							res.Probe("quick-redial-second-use-ok")
						}
					}
				}
				err = e2
			}
			if err != nil {
				cp.err = err
				if c := context.Cause(conn.Context()); c != nil {
					cp.err = c
				}
			}
		}
		failedAt := w.NowNS()
		_ = failedAt
		if conn != nil {
			conn.CloseWithError(0, "done")
		}
		cancel()
		if sconn != nil {
			select {
			case <-sconn.Context().Done():
			case <-time.After(3 * time.Second):
			}
			sconn.CloseWithError(0, "done")
		}
		// which tap connection belongs to this dial
		for _, c := range w.Tap.Conns[before:] {
			if !c.Shadow && cp.conn == nil {
				cp.conn = c
			}
		}
		if spec != nil {
			cp.tpIDs = spec.TransportParameterIDs()
		}
		res.Logf("dial #%d: err=%v echo=%v datagrams c>s %d", di, cp.err, cp.echoOK, len(w.Log[0])-sentBefore)
		for _, p := range w.Tap.All {
			if p.Conn == cp.conn && (p.Type == TapInitial || p.Type == TapRetry || p.Type == TapHandshake) {
				rec := w.Log[p.Dir][p.Ord]
				res.Logf("  %d %s dgram=%d trailing=%d {%s-> %v}", p.SentNS/1000, p.String(), rec.Size, p.Trailing, rec.Fate, rec.Delivered)
				if p.Err != "" {
					if raw := w.rawDatagram(p.Dir, p.Ord); raw != nil {
						res.Logf("      raw: %x", raw[p.Off:min(len(raw), p.Off+200)])
					}
				}
			}
		}
		if errors.Is(cp.err, quic.Err0RTTRejected) {
			res.Probe("0rtt-rejected") // (not a failure of the dial; the request would have to be repeated on the next connection)
			continue
		}
		if d := sc.Cfg.Derive; d != nil && d.DstCIDLen > 0 && d.DstCIDLen < 8 && (cp.err != nil || !cp.echoOK) {
			// a first destination connection ID of fewer than 8 bytes: servers ignore such Initials (RFC 9000 7.2), C02 does
			// not claim the dial; C10 and C11 still want the flight as specified
			res.Probe("short-dcid-dial-ignored")
			// (with Version Negotiation on top, every dial makes two connections with one-byte IDs: the observer cannot tell
			// which of them it is looking at)
			if cp.conn != nil && cp.conn.CH != nil && !sc.VN {
				checkInitialFlight(w, nodes, sc, di, cp, report, res)
				checkClientHello(w, nodes, sc, di, cp, report, res)
			}
			continue
		}
		if d := sc.Cfg.Derive; d != nil && d.ISCID != "" && (cp.err != nil || !cp.echoOK) {
			// an explicit initial_source_connection_id that differs from the header's source ID: C02 does not claim the dial
			// (the server must refuse it), C11 still wants it on the wire as written
			res.Probe("explicit-iscid-dial-refused")
			if cp.conn != nil && cp.conn.CH != nil {
				checkClientHello(w, nodes, sc, di, cp, report, res)
			}
			continue
		}
		// ---- C02: the dial works (or the injected faults explain the failure)
		if cp.err != nil || !cp.echoOK {
			// Can the spec be laid out at all? A single-frame or fixed-layout builder cannot carry a ClientHello that needs
			// several datagrams, and a fixed Length plus a long header may not fit a packet: such a spec is rightly
			// rejected (C09 wants that to happen before anything is sent); only the rest of the family is claimed by C02.
			d := sc.Cfg.Derive
			multi := (d != nil && d.PadCH > 0) || strings.HasPrefix(sc.Cfg.Client, "chrome146")
			feasible := d == nil || !multi || d.Builder == "random" || d.Builder == "multi" || d.Builder == "flight" || d.Builder == "rflight" || len(d.Plans) > 0 ||
				((d.Builder == "" || d.Builder == "keep") && strings.HasPrefix(sc.Cfg.Client, "chrome"))
			nothingSent := len(w.Log[0]) == sentBefore
			if sc.VN && !nothingSent {
				// the connection that replaces the first attempt after Version Negotiation lays its flight out afresh: when
				// that fails, nothing of *that* connection has been sent (the observer has seen one connection only)
				nconn := 0
				for _, c := range w.Tap.Conns[before:] {
					if !c.Shadow {
						nconn++
					}
				}
				nothingSent = nconn <= 1
			}
			if feasible && nothingSent && cp.err != nil && (strings.Contains(cp.err.Error(), "does not fit the packet buffer") || strings.Contains(cp.err.Error(), "BuildFlight")) {
				feasible = false // rejected before anything was sent: the layout cannot carry this ClientHello
			}
			var te *quic.TransportError
			packerError := errors.As(cp.err, &te) && !te.Remote && te.ErrorCode == 1 && strings.Contains(te.ErrorMessage, "QUICFrames:")
			switch {
			case !feasible && nothingSent:
				res.Probe("unlayoutable-spec-rejected-before-send")
			case !feasible && packerError:
				report("C09", "configuration that cannot be laid out was rejected only after part of the flight had been sent", "dial #%d: %v", di, cp.err)
			case nothingSent:
				report("C02", "dial with a built-in or derived spec rejected before anything was sent", "dial #%d: %v", di, cp.err)
			default:
				pre := res.Violation
				judgeFailure(w, &sc.Cfg, &sc.Net, len(sc.Faults), res, cp.err, nil, true, horizon)
				if res.Violation != pre && !on["C02"] && !on["all"] {
					// the judge speaks for C02 (and C01); other checks only note it
					res.Note("C02: " + res.Violation)
					res.Violation, res.Detail = "", ""
				}
			}
			if res.Violation == "" && res.Blocked == "" {
				res.Probe("dial-failed-explained-by-faults")
			}
			continue
		}
		res.Probe("dial-ok")
		if di > 0 {
			res.Probe("redial-ok")
		}
		if ((cp.conn == nil || cp.conn.CH == nil) || sc.VN) && wo.muted {
			res.Probe("observer-cannot-separate-dials-with-equal-short-dcid")
			continue
		}
		if cp.conn == nil || cp.conn.CH == nil {
			report("C09", "handshake completed but the observer could not reassemble a ClientHello from the Initial packets", "dial #%d", di)
			continue
		}
		checkInitialFlight(w, nodes, sc, di, cp, report, res)
		checkClientHello(w, nodes, sc, di, cp, report, res)
		if sc.VN && nodes.Spec != nil && !wo.muted {
			// the connection that replaced the first attempt: its Initial packets carry on with the spec's numbering
			var last *TapConn
			for _, c := range w.Tap.Conns[before:] {
				if !c.Shadow && c != cp.conn {
					last = c
				}
			}
			if last != nil && len(firstFlight(last)) > 0 {
				used := 0
				for _, p := range cp.conn.Packets {
					// (the packet with which the first attempt takes its leave does not count: the numbering carries on
					// from the packets sent before the Version Negotiation packet arrived)
					closing := false
					for i := range p.Frames {
						closing = closing || p.Frames[i].Name == "CONNECTION_CLOSE"
					}
					if p.Dir == 0 && p.Type == TapInitial && !closing {
						used++
					}
				}
				res.Probe("initial-flight-after-version-negotiation")
				checkInitialFlight(w, nodes, sc, di, &dialCapture{conn: last, pnSkip: used, onlyPN: true}, report, res)
			}
		}
		if sniEmpty || nodes.Spec == nil {
			for _, e := range cp.conn.CH.Exts {
				// body: 2-byte list length, name type 0, 2-byte name length, the name
				if e.Type == 0 && (len(e.Body) < 5 || string(e.Body[5:]) != serverName) {
					report("C11", "server name in the ClientHello is not the ServerName of this dial's tls.Config although the spec leaves the name empty", "dial #%d: wire %q, tls.Config %q", di, e.Body[min(5, len(e.Body)):], serverName)
				}
			}
			if sc.AltName {
				res.Probe("sni-follows-the-dial")
			}
		}
		if alpn0 != nil {
			for _, e := range cp.conn.CH.Exts {
				// body: 2-byte list length, then the length-prefixed protocol names
				if e.Type == 0x10 && (len(e.Body) < 2 || !bytes.Equal(e.Body[2:], alpn0)) {
					report("C11", "ALPN list on the wire differs from the list the caller's spec held before the dial", "dial #%d: wire %x, spec %x", di, e.Body, alpn0)
				}
			}
		}
		time.Sleep(50 * time.Millisecond)
	}
	if d := sc.Cfg.Derive; d != nil && d.tokBacking != nil {
		for i := d.tokPrefixLen; i < len(d.tokBacking); i++ {
			if d.tokBacking[i] != 0xa5 {
				report("C10", "dialing wrote into the caller's buffer behind the spec's ClientTokenPrefix", "byte %d of %d (prefix %d bytes) after %d dials", i, len(d.tokBacking), d.tokPrefixLen, len(caps))
				break
			}
		}
	}
	// cross-dial clauses
	if spec != nil {
		checkAcrossDials(sc, caps, report, res)
	}
}

// first flight = the Initial packets of the connection sent in the instant of the dial
func firstFlight(c *TapConn) []*TapPacket {
	var out []*TapPacket
	for _, p := range c.Packets {
		if p.Dir == 0 && p.Type == TapInitial {
			if len(out) > 0 && p.SentNS != out[0].SentNS {
				break
			}
			out = append(out, p)
		}
	}
	return out
}

func checkInitialFlight(w *World, n *Nodes, sc *DialScenario, di int, cp *dialCapture, report func(prop, sig, f string, a ...any), res *KResult) {
	c := cp.conn
	ff := firstFlight(c)
	if len(ff) == 0 {
		report("C10", "no Initial packet observed for a completed handshake", "dial #%d", di)
		return
	}
	res.Probe(fmt.Sprintf("first-flight-%d-datagrams", min(len(ff), 5)))
	chLen := c.chLen
	// ---- C09: Initial-level frames, true offsets, complete coverage, nothing beyond the ClientHello
	covered := make([]bool, chLen)
	for _, p := range c.Packets {
		if p.Dir != 0 || p.Type != TapInitial {
			continue
		}
		for i := range p.Frames {
			f := &p.Frames[i]
			switch f.Name {
			case "PADDING", "PING", "ACK", "CONNECTION_CLOSE":
			case "CRYPTO":
				if int(f.Offset+f.Length) > chLen {
					report("C09", "CRYPTO frame at Initial level extends beyond the end of the ClientHello", "dial #%d: %s (ClientHello %d bytes)", di, p.String(), chLen)
				}
			default:
				report("C09", "frame type not allowed in Initial packets", "dial #%d: %s", di, p.String())
			}
		}
	}
	for _, p := range ff {
		for i := range p.Frames {
			if f := &p.Frames[i]; f.Name == "CRYPTO" {
				for k := f.Offset; k < f.Offset+f.Length && int(k) < chLen; k++ {
					covered[k] = true
				}
			}
		}
	}
	for k, ok := range covered {
		if !ok {
			report("C09", "first flight does not cover the whole ClientHello", "dial #%d: byte %d of %d missing; flight: %v", di, k, chLen, ff)
			break
		}
	}
	if c.Crypto[0][0].conflict {
		report("C09", "ClientHello bytes differ between CRYPTO frames covering the same offset", "dial #%d", di)
	}
	if n.Spec == nil {
		return
	}
	// ---- C10
	ips := &n.Spec.InitialPacketSpec
	retried := c.Retried
	wantPN := int64(0)
	if ips.InitPacketNumber <= 1<<62-1 {
		wantPN = int64(ips.InitPacketNumber)
	}
	var tokens [][]byte
	for i, p := range ff {
		rec := w.Log[0][p.Ord]
		if ips.DestConnIDLength > 0 && len(p.DCID) != ips.DestConnIDLength {
			report("C10", "destination connection ID length differs from the spec", "dial #%d pkt %d: %d, spec %d", di, i, len(p.DCID), ips.DestConnIDLength)
		}
		if len(p.SCID) != ips.SrcConnIDLength {
			report("C10", "source connection ID length differs from the spec", "dial #%d pkt %d: %d, spec %d", di, i, len(p.SCID), ips.SrcConnIDLength)
		}
		if p.PN != wantPN+int64(cp.pnSkip+i) {
			report("C10", "Initial packet numbers do not start at the specified number and increase by one", "dial #%d pkt %d: pn %d, want %d", di, i, p.PN, wantPN+int64(cp.pnSkip+i))
		}
		wantLen := 0
		if l := ips.InitPacketNumberLengths; len(l) > 0 {
			wantLen = int(l[min(cp.pnSkip+i, len(l)-1)])
		} else if ips.InitPacketNumberLength != 0 {
			wantLen = int(ips.InitPacketNumberLength)
		}
		if wantLen != 0 && p.PNLen != wantLen {
			report("C10", "packet number encoding length differs from the spec", "dial #%d pkt %d: %d bytes, spec %d", di, i, p.PNLen, wantLen)
		}
		if cp.onlyPN {
			continue
		}
		tl := max(ips.ClientTokenLength, len(ips.ClientTokenPrefix))
		if ips.TokenStore == nil {
			switch {
			case tl == 0 && len(p.Token) != 0 && n.CQ.TokenStore == nil:
				report("C10", "Initial packet carries a token although the spec requests none", "dial #%d pkt %d: %d bytes", di, i, len(p.Token))
			case tl > 0 && (len(p.Token) != tl || !bytes.HasPrefix(p.Token, ips.ClientTokenPrefix)):
				report("C10", "synthesised token differs from the spec (length / prefix)", "dial #%d pkt %d: %x", di, i, p.Token)
			}
		}
		tokens = append(tokens, p.Token)
		if i > 0 && !bytes.Equal(p.Token, ff[0].Token) {
			report("C10", "packets of one Initial flight carry different tokens", "dial #%d", di)
		}
		// (a datagram with an exact PacketSize in its plan is that size: the plan, being per datagram, overrides the minimum)
		exact := len(ips.InitialPackets) > 0 && ips.InitialPackets[min(i, len(ips.InitialPackets)-1)].PacketSize > 0
		if n.Spec.UDPDatagramMinSize > 0 && rec.Size < n.Spec.UDPDatagramMinSize && !exact {
			report("C10", "Initial datagram smaller than the specified minimum UDP size", "dial #%d pkt %d: %d < %d", di, i, rec.Size, n.Spec.UDPDatagramMinSize)
		}
		if rec.Size < 1200 {
			report("C10", "client Initial datagram below 1200 bytes", "dial #%d pkt %d: %d", di, i, rec.Size)
		}
		maxSize := 1280
		if sc.Cfg.InitialPktSize[0] > 0 {
			maxSize = sc.Cfg.InitialPktSize[0]
		}
		if rec.Size > max(maxSize, n.Spec.UDPDatagramMinSize) {
			// (the signature names the family, so that one family that is a known finding cannot hide another)
			fam := "other"
			d := sc.Cfg.Derive
			longer := d != nil && (strings.HasPrefix(d.Token, "len:") || strings.HasPrefix(d.Token, "prefix:") || d.DstCIDLen > 8 || d.SrcCIDLen > 0)
			// (a token also comes from the application's own token store, on every dial after the first)
			longer = longer || (len(p.Token) > 0 && n.CQ.TokenStore != nil)
			severalDatagrams := strings.HasPrefix(sc.Cfg.Client, "chrome146") || (d != nil && d.PadCH > 0)
			switch {
			case severalDatagrams && (d == nil || (d.Builder != "nil" && d.Builder != "flight" && d.Builder != "rflight")):
				fam = "ClientHello spanning several datagrams: the frame builder adds to a datagram the packer has already filled"
			case longer:
				fam = "fixed total frame length plus a header longer than the built-in one: token or connection IDs"
			case d != nil:
				fam = "derived spec, builder " + d.Builder
			}
			report("C10", "Initial datagram exceeds the connection's maximum packet size ("+fam+")", "dial #%d pkt %d: %d bytes > %d (%s)", di, i, rec.Size, maxSize, sc.Cfg.Client)
		}
		// builder bounds
		if rf, ok := ips.FrameBuilder.(*quic.QUICRandomFrames); ok && !retried {
			var nPing, nCrypto, total int
			for k := range p.Frames {
				switch p.Frames[k].Name {
				case "PING":
					nPing++
				case "CRYPTO":
					nCrypto++
				}
			}
			_ = total
			if nPing < int(rf.MinPING) || (rf.MaxPING > rf.MinPING && nPing >= int(rf.MaxPING)) {
				report("C10", "number of PING frames outside the builder's bounds", "dial #%d pkt %d: %d not in [%d,%d)", di, i, nPing, rf.MinPING, rf.MaxPING)
			}
			if nCrypto >= int(rf.MaxCRYPTO) && rf.MaxCRYPTO > rf.MinCRYPTO {
				report("C10", "number of CRYPTO frames above the builder's bound", "dial #%d pkt %d: %d >= %d", di, i, nCrypto, rf.MaxCRYPTO)
			}
		}
	}
	_ = tokens
	// per-datagram plans: exact CRYPTO byte count (fixing the next datagram's split offset) and exact packet size
	if len(ips.InitialPackets) > 0 && !retried {
		next := uint64(0)
		for i, p := range ff {
			plan := ips.InitialPackets[min(i, len(ips.InitialPackets)-1)]
			var nbytes, lo uint64
			lo = ^uint64(0)
			for k := range p.Frames {
				if f := &p.Frames[k]; f.Name == "CRYPTO" {
					nbytes += f.Length
					lo = min(lo, f.Offset)
				}
			}
			if nbytes > 0 && lo != next {
				report("C10", "CRYPTO split offset of an Initial datagram differs from the per-datagram plan", "dial #%d datagram %d: CRYPTO starts at %d, the plan puts it at %d", di, i, lo, next)
			}
			remaining := uint64(chLen) - next
			if plan.CryptoLength > 0 && remaining >= uint64(plan.CryptoLength) && nbytes != uint64(plan.CryptoLength) {
				report("C10", "CRYPTO byte count of an Initial datagram differs from the per-datagram plan", "dial #%d datagram %d: %d bytes, plan %d", di, i, nbytes, plan.CryptoLength)
			}
			next += nbytes
			if plan.PacketSize > 0 && plan.CryptoLength == 0 && p.Size > plan.PacketSize {
				// "all remaining CRYPTO" does not fit the exact size: the plan does not leave room (documented as the
				// caller's duty), nothing to demand
				res.Probe("plan-without-room")
			} else if plan.PacketSize > 0 && p.Size != plan.PacketSize {
				report("C10", "Initial packet size differs from the exact size of the per-datagram plan", "dial #%d datagram %d: %d bytes, plan %d", di, i, p.Size, plan.PacketSize)
			}
		}
		res.Probe("plans-checked")
	}
}

func isGreaseU16(v uint16) bool { return v&0x0f0f == 0x0a0a && v>>8 == v&0xff }

func checkClientHello(w *World, n *Nodes, sc *DialScenario, di int, cp *dialCapture, report func(prop, sig, f string, a ...any), res *KResult) {
	if n.Spec == nil || n.Spec.ClientHelloSpec == nil {
		return
	}
	ch := cp.conn.CH
	cs := n.Spec.ClientHelloSpec
	{
		var et []string
		for _, e := range ch.Exts {
			et = append(et, fmt.Sprintf("%x/%d", e.Type, len(e.Body)))
		}
		ff := firstFlight(cp.conn)
		res.Logf("dial #%d ClientHello: %d bytes, suites %x, exts %v, tps %v, dcid %d scid %d token %d pnlen %d", di, len(ch.Raw), ch.Suites, et, tpIDs(ch.TPs, func(t TapTP) uint64 { return t.ID }), len(ff[0].DCID), len(ff[0].SCID), len(ff[0].Token), ff[0].PNLen)
	}
	// cipher suites (GREASE placeholders are replaced by a GREASE value)
	if len(ch.Suites) != len(cs.CipherSuites) {
		report("C11", "cipher suite list differs from the ClientHelloSpec", "dial #%d: wire %x spec %x", di, ch.Suites, cs.CipherSuites)
	} else {
		for i := range ch.Suites {
			if ch.Suites[i] != cs.CipherSuites[i] && !(isGreaseU16(ch.Suites[i]) && cs.CipherSuites[i] == tls.GREASE_PLACEHOLDER) {
				report("C11", "cipher suite list differs from the ClientHelloSpec", "dial #%d: wire %x spec %x", di, ch.Suites, cs.CipherSuites)
				break
			}
		}
	}
	// extension order and bodies: the spec's extension objects hold the values uTLS serialised for this dial
	var want []TapExt
	func() {
		defer func() {
			if p := recover(); p != nil {
				want = nil
			}
		}()
		for _, e := range cs.Extensions {
			if s, ok := e.(*tls.SNIExtension); ok && s.ServerName == "" {
				// an empty server_name extension stands for "the host of the dial" (tls.Config.ServerName)
				e = &tls.SNIExtension{ServerName: n.CTLS.ServerName}
			}
			l := e.Len()
			if l < 4 {
				continue
			}
			b := make([]byte, l)
			if k, _ := io.ReadFull(e, b); k < 4 {
				continue
			}
			want = append(want, TapExt{Type: uint16(b[0])<<8 | uint16(b[1]), Body: b[4:]})
		}
	}()
	if want != nil {
		if len(want) != len(ch.Exts) {
			report("C11", "number of ClientHello extensions differs from the ClientHelloSpec", "dial #%d: wire %d spec %d", di, len(ch.Exts), len(want))
		} else {
			for i := range want {
				wt, gt := want[i].Type, ch.Exts[i].Type
				if wt != gt && !(isGreaseU16(wt) && isGreaseU16(gt)) {
					report("C11", "ClientHello extension order differs from the ClientHelloSpec", "dial #%d position %d: wire %#x spec %#x", di, i, gt, wt)
					break
				}
				switch wt {
				case 0x10, 0x2b, 0x0d, 0x2d, 0x1b, 0x4469, 0x0a, 0x05, 0x12:
					// deterministic bodies (ALPN, versions, signature algorithms, PSK modes, cert compression, ALPS, groups, status request, SCT, transport parameters)
					if !bytes.Equal(want[i].Body, ch.Exts[i].Body) && wt != 0x0a && wt != 0x2b {
						report("C11", "ClientHello extension body differs from what the spec serialises", "dial #%d ext %#x: wire %x spec %x", di, wt, ch.Exts[i].Body, want[i].Body)
					}
				}
			}
		}
	}
	// transport parameters
	q := wQTPExt(n.Spec)
	if q == nil {
		return
	}
	if !ch.HasTP {
		report("C11", "no quic_transport_parameters extension on the wire", "dial #%d", di)
		return
	}
	type kv struct {
		id  uint64
		val string
	}
	var wantTP, gotTP []kv
	suppressed := func(id uint64) bool {
		for _, s := range n.Spec.SuppressTransportParameters {
			if id == s || (s == 27 && id >= 27 && (id-27)%31 == 0) {
				return true
			}
		}
		return false
	}
	var scid []byte
	if ff := firstFlight(cp.conn); len(ff) > 0 {
		scid = ff[0].SCID
	}
	for _, tp := range q.TransportParameters {
		if suppressed(tp.ID()) {
			continue
		}
		val := tp.Value()
		if tp.ID() == 0x0f && len(val) == 0 {
			val = scid // an empty initial_source_connection_id stands for "the connection's source connection ID"
		}
		wantTP = append(wantTP, kv{tp.ID(), string(val)})
	}
	for _, tp := range ch.TPs {
		gotTP = append(gotTP, kv{tp.ID, string(tp.Val)})
	}
	// values that are drawn afresh every time they are serialised are compared by shape: GREASE versions inside
	// version_information, and the body of GREASE parameters (by length)
	norm := func(l []kv) {
		for i := range l {
			switch {
			case l[i].id == 0x11 || l[i].id == 0xff73db:
				b := []byte(l[i].val)
				for o := 0; o+4 <= len(b); o += 4 {
					// (uTLS draws GREASE versions as random|0x0a0a0a0a)
					if b[o]&0x0a == 0x0a && b[o+1]&0x0a == 0x0a && b[o+2]&0x0a == 0x0a && b[o+3]&0x0a == 0x0a {
						copy(b[o:], "GREA")
					}
				}
				l[i].val = string(b)
			case l[i].id >= 27 && (l[i].id-27)%31 == 0:
				l[i].val = fmt.Sprintf("grease-body-%d", len(l[i].val))
			}
		}
	}
	norm(wantTP)
	norm(gotTP)
	for _, s := range n.Spec.SuppressTransportParameters {
		for _, g := range gotTP {
			if g.id == s || (s == 27 && g.id >= 27 && (g.id-27)%31 == 0) {
				report("C11", "suppressed transport parameter present on the wire", "dial #%d: id %#x", di, g.id)
			}
		}
	}
	cmp := func(a, b []kv) bool {
		if len(a) != len(b) {
			return false
		}
		for i := range a {
			if a[i] != b[i] {
				return false
			}
		}
		return true
	}
	if n.Spec.RandomizeTransportParameters {
		sa, sb := slices.Clone(wantTP), slices.Clone(gotTP)
		less := func(x []kv) func(i, j int) bool {
			return func(i, j int) bool {
				if x[i].id != x[j].id {
					return x[i].id < x[j].id
				}
				return x[i].val < x[j].val
			}
		}
		sort.Slice(sa, less(sa))
		sort.Slice(sb, less(sb))
		if !cmp(sa, sb) {
			report("C11", "transport parameters on the wire are not a permutation of the spec's list", "dial #%d: wire %d params, spec %d", di, len(gotTP), len(wantTP))
		}
		res.Probe("tp-shuffled")
	} else if !cmp(wantTP, gotTP) {
		diff := ""
		for i := 0; i < min(len(wantTP), len(gotTP)); i++ {
			if wantTP[i] != gotTP[i] {
				diff = fmt.Sprintf("position %d: wire %#x=%x spec %#x=%x", i, gotTP[i].id, gotTP[i].val, wantTP[i].id, wantTP[i].val)
				break
			}
		}
		report("C11", "transport parameters on the wire differ from the spec's list (ids, values or order)", "dial #%d: %s; wire %v spec %v", di, diff, tpIDs(gotTP, func(k kv) uint64 { return k.id }), tpIDs(wantTP, func(k kv) uint64 { return k.id }))
	}
	// TransportParameterIDs() = canonicalised wire list
	var canon []uint64
	for _, g := range gotTP {
		id := g.id
		if id >= 27 && (id-27)%31 == 0 {
			id = 27
		}
		canon = append(canon, id)
	}
	slices.Sort(canon)
	if !slices.Equal(canon, cp.tpIDs) {
		report("C11", "TransportParameterIDs() differs from the canonicalised parameter list on the wire", "dial #%d: wire %v reported %v", di, canon, cp.tpIDs)
	}
	// reference fingerprinter on the captured first flight (only meaningful for packet numbers it accepts)
	// (a token from the application's own token store, or a first attempt in another version, are the application's doing:
	// the header then differs from the one the fingerprint was recorded with)
	appToken := false
	for _, p := range firstFlight(cp.conn) {
		appToken = appToken || (len(p.Token) > 0 && n.CQ.TokenStore != nil)
	}
	if sc.Cfg.Derive == nil && !sc.VN && !appToken {
		cp.fp = fingerprintOf(w, cp.conn)
		cp.noPing = true
		for _, p := range firstFlight(cp.conn) {
			for i := range p.Frames {
				if p.Frames[i].Name == "PING" {
					cp.noPing = false
				}
			}
		}
		if cp.fp == "" {
			res.Probe("fingerprinter-gave-no-id")
		}
	}
}

func tpIDs[T any](l []T, f func(T) uint64) []uint64 {
	var out []uint64
	for _, x := range l {
		out = append(out, f(x))
	}
	return out
}

// fingerprintOf runs clienthellod (the reference fingerprinter named by C11) over the first flight as captured on the wire.
func fingerprintOf(w *World, c *TapConn) (id string) {
	defer func() {
		if p := recover(); p != nil {
			id = ""
		}
	}()
	gci := clienthellod.GatherClientInitialsWithDeadline(time.Now().Add(time.Minute))
	defer runtime.SetFinalizer(gci, nil) // its finalizer would close a bubble channel from outside the bubble
	seen := map[int]bool{}
	for _, p := range firstFlight(c) {
		if seen[p.Ord] {
			continue
		}
		seen[p.Ord] = true
		data := w.rawDatagram(0, p.Ord)
		ci, err := clienthellod.UnmarshalQUICClientInitialPacket(data)
		if err != nil {
			return ""
		}
		if err := gci.AddPacket(ci); err != nil {
			return ""
		}
	}
	if !gci.Completed() {
		return ""
	}
	qfp, err := clienthellod.GenerateQUICFingerprint(gci)
	if err != nil {
		return ""
	}
	runtime.SetFinalizer(qfp, nil)
	return qfp.HexID
}

func checkAcrossDials(sc *DialScenario, caps []*dialCapture, report func(prop, sig, f string, a ...any), res *KResult) {
	var toks [][]byte
	var fps [2][]string // [0] flights with PING frames, [1] flights without
	for _, cp := range caps {
		if cp.conn == nil || cp.err != nil {
			continue
		}
		if cp.fp != "" {
			k := 0
			if cp.noPing {
				k = 1
			}
			fps[k] = append(fps[k], cp.fp)
		}
		if ff := firstFlight(cp.conn); len(ff) > 0 && !cp.conn.Retried {
			toks = append(toks, ff[0].Token)
		}
	}
	want, recorded := wRecordedFP[sc.Cfg.Client]
	for k, suffix := range []string{"", " (a first flight without any PING frame: the builder's lower bound for PING frames is 0)"} {
		for i := 1; i < len(fps[k]); i++ {
			if fps[k][i] != fps[k][0] {
				report("C11", "fingerprint identifier changes from dial to dial"+suffix, "%v (%s)", fps[k], sc.Cfg.Client)
			}
		}
		if recorded && len(fps[k]) > 0 && fps[k][0] != want {
			report("C11", "fingerprint identifier computed from the wire differs from the one recorded in the QUICID"+suffix, "%s: wire %s recorded %s", sc.Cfg.Client, fps[k][0], want)
		}
	}
	if len(fps[0]) > 0 && len(fps[1]) > 0 && fps[0][0] != fps[1][0] {
		report("C11", "fingerprint identifier changes from dial to dial (a first flight without any PING frame: the builder's lower bound for PING frames is 0)", "with PING %v, without %v (%s)", fps[0], fps[1], sc.Cfg.Client)
	}
	if len(fps[0])+len(fps[1]) > 0 {
		res.Probe("fingerprint-computed")
	}
	// synthesised tokens are fresh per dial (when they have a random part of at least 4 bytes)
	if d := sc.Cfg.Derive; d != nil && len(toks) >= 2 && (len(d.Token) > 4 && d.Token[:4] == "len:") && len(toks[0]) >= 8 {
		if bytes.Equal(toks[0], toks[1]) {
			report("C10", "synthesised token repeated on a later dial", "%x", toks[0])
		}
	}
}

var _ = errors.New
