package verifsim

// W:tpshuffle - the distributional clause of C11: with RandomizeTransportParameters a
// spec-driven client puts a fresh, uniformly distributed permutation of its transport
// parameters on the wire at every dial. Many dials of one spec value are captured by
// the wiretap (nobody answers; every dial ends at its 40 ms deadline of simulated time).

import (
	"context"
	"fmt"
	"math"
	"testing"
	"time"

	quic "github.com/refraction-networking/uquic"
	tls "github.com/refraction-networking/utls"
)

type ShuffleScenario struct {
	Seed   uint64 `json:"seed"`
	Client string `json:"client"`
	Dials  int    `json:"dials"`
	NTP    int    `json:"ntp"`   // number of transport parameters in the list (4..6)
	Reuse  bool   `json:"reuse"` // one UTransport for all dials (else a fresh one per dial, sharing the spec)
}

func (s *ShuffleScenario) KSeed() uint64 { return s.Seed }

func init() {
	KRegister(&KSim{Name: "tpshuffle", New: func() KScenario { return &ShuffleScenario{} }, Run: runShuffle,
		Gen: func(seed uint64, tier string) KScenario {
			r := NewKRng(seed)
			sc := &ShuffleScenario{Seed: seed, Client: r.Pick2("chrome115", "firefox116", "chrome146"), Dials: 1200, NTP: r.Pick(4, 4, 5), Reuse: r.Bool()}
			if tier == "thorough" {
				sc.Dials = 6000
			}
			return sc
		}})
}

func runShuffle(t *testing.T, ksc KScenario, res *KResult) {
	sc := ksc.(*ShuffleScenario)
	cfg := &WConfig{Client: sc.Client, Version: 1, ServerCIDLen: 8, ClientCIDLen: 4}
	wBegin(cfg)
	defer wEnd()
	net := &WNet{LatencyUS: 1000, Explicit: true}
	w := NewWorld(t, sc.Seed, net, res)
	nodes, err := NewNodes(w, cfg)
	if err != nil {
		res.Fail("spec could not be built", "%v", err)
		return
	}
	w.StartDriver()
	defer func() { nodes.Close(); w.Stop() }()
	spec := nodes.Spec
	q := wQTPExt(spec)
	if q == nil {
		res.Fail("spec has no transport parameter extension", "")
		return
	}
	// a small list: every permutation must be reachable
	list := tls.TransportParameters{tls.InitialSourceConnectionID([]byte{}), tls.MaxIdleTimeout(30000), tls.InitialMaxData(1 << 20), &tls.GREASETransportParameter{Length: 4},
		tls.InitialMaxStreamsBidi(7), tls.InitialMaxStreamDataUni(1 << 16)}
	q.TransportParameters = list[:sc.NTP]
	spec.RandomizeTransportParameters = true
	spec.SuppressTransportParameters = nil
	n := sc.NTP
	ids := make([]uint64, n)
	for i, tp := range q.TransportParameters {
		ids[i] = tp.ID()
	}
	index := map[uint64]int{}
	for i, id := range ids {
		index[id] = i
	}
	perms := map[string]int{}
	pos := make([][]int, n) // pos[param][position]
	for i := range pos {
		pos[i] = make([]int, n)
	}
	repeats, got := 0, 0
	prev := ""
	for d := 0; d < sc.Dials && !res.Failed(); d++ {
		if !sc.Reuse {
			nodes.UTr = &quic.UTransport{Transport: nodes.CTr, QUICSpec: spec}
		}
		before := len(w.Tap.Conns)
		ctx, cancel := context.WithTimeout(context.Background(), 40*time.Millisecond)
		c, err := nodes.Dial(ctx)
		cancel()
		if err == nil {
			c.CloseWithError(0, "")
		}
		time.Sleep(time.Millisecond)
		res.Events++
		var ch *TapClientHello
		for _, tc := range w.Tap.Conns[before:] {
			if tc.CH != nil {
				ch = tc.CH
			}
		}
		if ch == nil || !ch.HasTP {
			res.Fail("no ClientHello with transport parameters captured for a dial", "dial %d", d)
			return
		}
		if len(ch.TPs) != n {
			res.Fail("number of transport parameters on the wire differs from the spec's list", "dial %d: %d, spec %d", d, len(ch.TPs), n)
			return
		}
		key := ""
		seen := map[int]bool{}
		for p, tp := range ch.TPs {
			i, ok := index[tp.ID]
			if !ok || seen[i] {
				res.Fail("transport parameters on the wire are not a permutation of the spec's list", "dial %d: id %#x", d, tp.ID)
				return
			}
			seen[i] = true
			pos[i][p]++
			key += string(rune('a' + i))
		}
		perms[key]++
		if key == prev {
			repeats++
		}
		prev = key
		got++
	}
	if res.Failed() {
		return
	}
	nperm := 1
	for i := 2; i <= n; i++ {
		nperm *= i
	}
	res.Shape(fmt.Sprintf("%s/%d/%v/%d", sc.Client, n, sc.Reuse, len(perms)))
	res.Nontrivial = true
	res.ProbeN("dials-captured", int64(got))
	N := float64(got)
	// every permutation occurs: with N >= 30 n! uniform draws the chance of missing one is below n! e^-30 (1e-11 for n = 5);
	// with fewer draws (N >= 8 n!) only a coverage of 80 % is demanded (the chance of missing a fifth of them is far smaller
	// still) - a shuffle that reaches only the cyclic permutations covers 1/n of them
	switch {
	case got >= 30*nperm && len(perms) != nperm:
		res.Fail("not every permutation of a small transport-parameter list occurs over many dials", "%d of %d permutations in %d dials (%s)", len(perms), nperm, got, sc.Client)
	case got >= 8*nperm && len(perms)*5 < nperm*4:
		res.Fail("not every permutation of a small transport-parameter list occurs over many dials", "only %d of %d permutations in %d dials (%s)", len(perms), nperm, got, sc.Client)
	}
	// position frequencies: binomial(N, 1/n), band of 8 standard deviations
	sd := math.Sqrt(N * (1 / float64(n)) * (1 - 1/float64(n)))
	for i := range pos {
		for p := range pos[i] {
			if dev := math.Abs(float64(pos[i][p]) - N/float64(n)); dev > 8*sd {
				res.Fail("position frequencies of the shuffled transport parameters are not uniform", "parameter %#x at position %d: %d of %d dials (expected %.0f +- %.0f)", ids[i], p, pos[i][p], got, N/float64(n), sd)
				return
			}
		}
	}
	// a fresh permutation per dial: identical consecutive permutations occur with probability 1/n!
	pr := 1 / float64(nperm)
	if dev := math.Abs(float64(repeats) - N*pr); dev > 8*math.Sqrt(N*pr*(1-pr))+2 {
		res.Fail("consecutive dials repeat the previous permutation far more or less often than chance", "%d repeats in %d dials (expected %.1f)", repeats, got, N*pr)
	}
	res.TraceU(uint64(got), uint64(len(perms)), uint64(repeats))
}
