package verifsim

// W:nilspec - the last clause of C02: "A UTransport without a spec behaves exactly like a plain Transport."
// A differential workload: one transfer scenario (streams, datagrams, configs, fault schedule) is executed twice,
// each time in a fresh bubble whose clock starts at the same instant and with every seam reseeded identically
// (kernel: KSim.Passes) - once dialing through a plain Transport, once through UTransport{QUICSpec: nil}.
// Under one and the same schedule the two must produce the same history: every datagram at the same simulated
// instant with the same size, packet types, packet numbers and frames, the same fate in the network, and the same
// outcome for the application. Random byte values (connection IDs, keys, tokens) are not compared.

import (
	"encoding/json"
	"fmt"
	"sort"
	"strings"
	"testing"
)

func init() {
	KRegister(&KSim{Name: "nilspec", Passes: 2, New: func() KScenario { return &TransferScenario{} }, Run: runNilSpec,
		Gen: func(seed uint64, tier string) KScenario {
			sc := genTransfer(seed, tier).(*TransferScenario)
			sc.Cfg.Client = "plain" // replaced per pass
			return sc
		}})
}

func init() {
	// the same differential over the handshake workload: resumption, DialEarly with 0-RTT accepted or rejected, Retry, version
	// negotiation, long certificate chains, fault schedules on the handshake datagrams (no injections: a forged packet would have
	// to be crafted from the first pass's connection IDs)
	KRegister(&KSim{Name: "nilspechs", Passes: 2, New: func() KScenario { return &HsScenario{} }, Run: runNilSpecHs,
		Gen: func(seed uint64, tier string) KScenario {
			sc := genHs(seed, tier).(*HsScenario)
			sc.Cfg.Client = "plain"
			if sc.Mode == "inject" {
				sc.Mode, sc.Inject = "resume", nil
				sc.Cfg.Allow0RTT, sc.VN = true, false
				sc.Early = 500
			}
			return sc
		}})
}

func runNilSpecHs(t *testing.T, ksc KScenario, res *KResult) {
	outer := ksc.(*HsScenario)
	var sc HsScenario
	b, _ := json.Marshal(outer)
	if err := json.Unmarshal(b, &sc); err != nil {
		res.Fail("scenario copy failed", "%v", err)
		return
	}
	sc.Cfg.Client = [2]string{"plain", "unil"}[res.Pass]
	nilSpecDiff(res, func(sub *KResult) { runHs(t, &sc, sub) }, func() { outer.Net, outer.Faults = sc.Net, sc.Faults })
}

type nilSpecCapture struct {
	lines   []string // protocol-level history
	bytesH  uint64   // hash over the raw bytes of every datagram
	outcome string   // what the application and the oracles saw
}

func runNilSpec(t *testing.T, ksc KScenario, res *KResult) {
	outer := ksc.(*TransferScenario)
	// a private copy per pass: the workload rewrites its scenario (explicit fault list) when it ends
	var sc TransferScenario
	b, _ := json.Marshal(outer)
	if err := json.Unmarshal(b, &sc); err != nil {
		res.Fail("scenario copy failed", "%v", err)
		return
	}
	sc.Cfg.Client = [2]string{"plain", "unil"}[res.Pass]
	nilSpecDiff(res, func(sub *KResult) { runTransfer(t, &sc, sub) }, func() { outer.Net, outer.Faults = sc.Net, sc.Faults })
}

// nilSpecDiff executes one pass (res.Pass: 0 = plain Transport, 1 = UTransport without a spec) and, in the second pass, compares.
func nilSpecDiff(res *KResult, run func(sub *KResult), afterFirst func()) {
	capt := &nilSpecCapture{}
	wOnStop = func(w *World) {
		var all []*DgramRec
		all = append(all, w.Log[0]...)
		all = append(all, w.Log[1]...)
		sort.SliceStable(all, func(i, j int) bool { return all[i].SentNS < all[j].SentNS })
		for _, r := range all {
			var ps []string
			for _, p := range r.Pkts {
				ps = append(ps, p.String())
			}
			capt.lines = append(capt.lines, fmt.Sprintf("t=%d dir=%d size=%d fate=%q delivered=%v %s", r.SentNS, r.Dir, r.Size, r.Fate, r.Delivered, strings.Join(ps, " | ")))
			capt.bytesH = KMix(capt.bytesH, r.Hash)
		}
	}
	defer func() { wOnStop = nil }()
	sub := &KResult{KeepLog: res.KeepLog}
	run(sub)
	wOnStop = nil
	var pk []string
	for k, v := range sub.Probes {
		if !strings.HasPrefix(k, "qlog-") {
			pk = append(pk, fmt.Sprintf("%s=%d", k, v))
		}
	}
	sort.Strings(pk)
	capt.outcome = fmt.Sprintf("violation=%q notes=%v probes=%v sim_ns=%d", sub.Violation, sub.Notes, pk, sub.SimNS)
	res.Events += sub.Events
	res.SimNS += sub.SimNS
	res.TraceU(sub.Trace)
	if res.Pass == 0 {
		res.Log = append(res.Log, sub.Log...)
		res.Faults, res.Nontrivial, res.ShapeH = sub.Faults, sub.Nontrivial, sub.ShapeH
		for k, v := range sub.Probes {
			res.ProbeN(k, v)
		}
		if sub.Failed() {
			res.Note("plain pass: " + sub.Violation)
		}
		res.Carry = map[string]any{"plain": capt}
		// the replayable form of the scenario: the faults that fired, explicitly
		afterFirst()
		return
	}
	a := res.Carry["plain"].(*nilSpecCapture)
	const sig = "a UTransport without a spec behaves differently from a plain Transport under one and the same schedule"
	for i := 0; i < len(a.lines) || i < len(capt.lines); i++ {
		var x, y string
		if i < len(a.lines) {
			x = a.lines[i]
		}
		if i < len(capt.lines) {
			y = capt.lines[i]
		}
		if x != y {
			res.Fail(sig+" (wire history)", "datagram %d of %d/%d\n  plain: %s\n  nil spec: %s", i, len(a.lines), len(capt.lines), x, y)
			return
		}
	}
	if a.outcome != capt.outcome {
		res.Fail(sig+" (outcome for the application)", "plain: %s\n nil spec: %s", a.outcome, capt.outcome)
		return
	}
	res.Probe("histories-identical")
	res.ProbeN("datagrams-compared", int64(len(a.lines)))
	if a.bytesH == capt.bytesH {
		res.Probe("bytes-identical")
	}
}
